(* C20 — DNS64 synthesis: the property theorems.  Statements only; every
   proof is `exact <lemma>` into Proofs_*.v.  [cur] is the model of the tree
   as it is; a [variant] with a flag set models the corresponding hunk of
   props/C20/fix.patch.  Examples showing that the hypotheses are
   inhabited are in Proofs_examples.v. *)
From Coq Require Import String Ascii.
From Sdns Require Import Common.Base Gen.C20 C20.Model C20.Spec
  C20.Proofs_gen C20.Proofs_embed C20.Proofs_ptr C20.Proofs_serve.
Open Scope N_scope.

(* ------------------------------------------------------------------ *)
(* RFC 6052: extract (embed) — all six lengths, all prefixes, all IPv4.
   Full statement:
     forall p v4, wf_prefix p -> length v4 = 4 -> extract cur p (embed p v4) = Some v4.
   It is FALSE of the current tree (extract_embed_refuted): the embedded
   address can have ::ffff:a.b.c.d form under an all-zero /56 or /64 prefix
   and net.IPNet.Contains then compares 4 bytes with 16.  Proved: away from
   that corner (two forms), and without side condition for fix.patch hunk 3. *)
Theorem extract_embed_partial :
  forall p v4, wf_prefix p -> length v4 = 4%nat -> quirk p v4 = false ->
  extract cur p (embed p v4) = Some v4.
Proof. exact extract_embed_cur. Qed.
Print Assumptions extract_embed_partial.

Theorem extract_embed_nonzero_prefix_partial :
  forall p v4, wf_prefix p -> length v4 = 4%nat -> all_zero (firstn 7 (n_ip p)) = false ->
  extract cur p (embed p v4) = Some v4.
Proof. exact Proofs_embed.extract_embed_partial. Qed.
Print Assumptions extract_embed_nonzero_prefix_partial.

Theorem extract_embed_refuted :
  let p := mk_net (zeros 16) 56 16 in
  let v4 := [0; 0; 255; 255] in
  wf_prefix p /\ length v4 = 4%nat /\ embed p v4 = [0;0;0;0;0;0;0;0;0;0;255;255;0;0;0;0]
  /\ extract cur p (embed p v4) = None.
Proof. exact extract_embed_witness. Qed.
Print Assumptions extract_embed_refuted.

Theorem extract_embed_fixed :
  forall v p v4, fx_contains v = true -> wf_prefix p -> length v4 = 4%nat ->
  extract v p (embed p v4) = Some v4.
Proof. exact Proofs_embed.extract_embed_fixed. Qed.
Print Assumptions extract_embed_fixed.

(* the layout: RFC 6052 2.2 octet positions, u octet zero, prefix kept, suffix zero *)
Theorem embed_layout :
  forall p v4, wf_prefix p -> length v4 = 4%nat ->
  spec_embed p v4 = Some (embed p v4)
  /\ length (embed p v4) = 16%nat
  /\ nthb (embed p v4) 8 = 0
  /\ firstn (N.to_nat (n_ones p / 8)) (embed p v4) = firstn (N.to_nat (n_ones p / 8)) (n_ip p)
  /\ all_zero (skipn (suffix_start (n_ones p)) (embed p v4)) = true.
Proof. exact Proofs_embed.embed_layout. Qed.
Print Assumptions embed_layout.

(* extract succeeds only on embeddings: with extract_embed this makes it the inverse *)
Theorem extract_only_embeddings :
  forall p a v4, wf_prefix p -> bytes_ok (n_ip p) -> length a = 16%nat -> bytes_ok a ->
  extract cur p a = Some v4 -> a = embed p v4 /\ length v4 = 4%nat.
Proof. exact extract_sound_cur. Qed.
Print Assumptions extract_only_embeddings.

Theorem extract_rejects_nonconformant :
  forall p a, wf_prefix p -> bytes_ok (n_ip p) -> length a = 16%nat -> bytes_ok a ->
  nthb a 8 <> 0 \/ all_zero (skipn (suffix_start (n_ones p)) a) = false ->
  extract cur p a = None.
Proof. exact extract_rejects_u_or_suffix. Qed.
Print Assumptions extract_rejects_nonconformant.

(* ------------------------------------------------------------------ *)
(* PTR: the ip6.arpa name of an embedded address parses back to it and
   extraction returns the IPv4 address; handlePTR then answers with the
   in-addr.arpa name, which reads back as the same four octets. *)
Theorem arpa_name_parses :
  forall a, length a = 16%nat -> bytes_ok a -> parse_ip6_arpa (arpa_name a) = Some a.
Proof. exact parse_arpa_name. Qed.
Print Assumptions arpa_name_parses.

Theorem ptr_roundtrip :
  forall v p v4, wf_prefix p -> bytes_ok (n_ip p) -> length v4 = 4%nat -> bytes_ok v4 ->
  (fx_contains v = true \/ (v = cur /\ quirk p v4 = false)) ->
  match parse_ip6_arpa (arpa_name (embed p v4)) with
  | Some addr => extract v p addr
  | None => None
  end = Some v4.
Proof. exact ptr_roundtrip_lem. Qed.
Print Assumptions ptr_roundtrip.

Theorem ptr_handler_roundtrip :
  forall v c cp v4, c_prefixes c = [cp] -> wf_prefix (cp_net cp) -> bytes_ok (n_ip (cp_net cp)) ->
  length v4 = 4%nat -> bytes_ok v4 -> should_exclude_a c v4 cp = false ->
  (fx_contains v = true \/ (v = cur /\ quirk (cp_net cp) v4 = false)) ->
  ptr_target v c (lower (arpa_name (embed (cp_net cp) v4))) = Some v4.
Proof. exact ptr_target_roundtrip. Qed.
Print Assumptions ptr_handler_roundtrip.

Theorem ptr_target_sound :
  forall v c addr ps v4, ptr_find v c addr ps = Some v4 ->
  exists p, In p ps /\ extract v (cp_net p) addr = Some v4 /\ should_exclude_a c v4 p = false.
Proof. exact ptr_find_sound. Qed.
Print Assumptions ptr_target_sound.

Theorem in_addr_arpa_roundtrip :
  forall v4, length v4 = 4%nat -> bytes_ok v4 -> spec_parse_in_addr (in_addr_arpa v4) = Some v4.
Proof. exact in_addr_roundtrip. Qed.
Print Assumptions in_addr_arpa_roundtrip.

(* ------------------------------------------------------------------ *)
(* illegal prefixes: validatePrefix accepts exactly the RFC 6052 shapes and
   compileConfig uses nothing else (or the well-known prefix) *)
Theorem illegal_prefix_rejected :
  forall p, validate_prefix p = true ->
  n_mlen p = 16 /\ In (n_ones p) [32; 40; 48; 56; 64; 96]
  /\ (n_ones p = 96 -> (9 <= length (n_ip p))%nat -> nthb (n_ip p) 8 = 0).
Proof. exact illegal_prefix_rejected_lem. Qed.
Print Assumptions illegal_prefix_rejected.

Theorem validate_is_rfc6052 :
  forall p, length (n_ip p) = 16%nat -> validate_prefix p = spec_valid_prefix p.
Proof. exact validate_agrees_spec. Qed.
Print Assumptions validate_is_rfc6052.

Theorem compiled_prefixes_legal :
  forall cf p, In p (c_prefixes (compile cf)) ->
  validate_prefix (cp_net p) = true /\ cp_wk p = is_well_known (cp_net p)
  /\ (p = mk_cprefix wkp_net true \/ In (Some (cp_net p)) (cf_prefixes cf)).
Proof. exact compile_prefixes_valid. Qed.
Print Assumptions compiled_prefixes_legal.

(* ------------------------------------------------------------------ *)
(* synthesis — and already the secondary A lookup — only when: one
   question, class IN, external, RD, not CD, eligible client, AAAA, zone not
   excluded, and a downstream response that is not truncated, not
   NXDOMAIN, not a DNSSEC-failure SERVFAIL, not a cached failure (marker or
   EDE 13), not a request-local failure, not a locally enforced work-limit
   SERVFAIL, and (if NOERROR) without a usable native AAAA *)
Theorem synth_only_when :
  forall v cf q down work al,
  x_path (serve v cf q down work al) = PSynth \/ (x_aq (serve v cf q down work al) = true /\ q_type q = type_aaaa) ->
  gates_open (compile cf) q = true /\ q_type q = type_aaaa
  /\ zone_excluded (compile cf) (lower (q_name q)) = false
  /\ exists m mark, down = Some (m, mark) /\ down_allows (compile cf) m mark work = true.
Proof. exact synth_only_when_lem. Qed.
Print Assumptions synth_only_when.

Theorem synth_needs_a_records :
  forall v cf q down work al, x_path (serve v cf q down work al) = PSynth ->
  exists ar, al = QResp ar /\ m_rcode ar = 0 /\ exists o t ip, In (RA o t ip) (m_answer ar).
Proof. exact synth_needs_a_answer. Qed.
Print Assumptions synth_needs_a_records.

(* the EDE codes the dispatch treats as validation failures are the RFC 8914 ones *)
Theorem dnssec_failure_codes_are_rfc8914 :
  forall c, existsb (N.eqb c) dnssec_failure_codes = existsb (N.eqb c) spec_dnssec_codes.
Proof. exact gen_dnssec_failure_codes_spec. Qed.
Print Assumptions dnssec_failure_codes_are_rfc8914.

(* ------------------------------------------------------------------ *)
(* every synthesised AAAA is the embedding of an A record of the lookup into
   a legal configured prefix, owned like that A record, never an excluded
   IPv4 address under the well-known prefix; every allowed pair is present *)
Theorem wkp_exclusions :
  forall v cf q m mark work ar r o t e,
  x_path (serve v cf q (Some (m, mark)) work (QResp ar)) = PSynth ->
  x_reply (serve v cf q (Some (m, mark)) work (QResp ar)) = Some r ->
  In (RAAAA o t e) (r_answer r) ->
  (exists p ta ip v4,
      In p (c_prefixes (compile cf)) /\ In (RA o ta ip) (m_answer ar) /\ to4 ip = Some v4
      /\ e = embed (cp_net p) v4
      /\ (is_well_known (cp_net p) = true -> existsb (fun n => net_contains n v4) (c_excl_a (compile cf)) = false))
  /\ (forall o' ta ip, In (RA o' ta ip) (m_answer ar) -> t <= ta)
  /\ t <= ttl_ceiling v (m_ns m).
Proof. exact synthesised_aaaa_sound. Qed.
Print Assumptions wkp_exclusions.

Theorem synth_complete :
  forall v cf q m mark work ar r p o ta ip v4,
  x_path (serve v cf q (Some (m, mark)) work (QResp ar)) = PSynth ->
  x_reply (serve v cf q (Some (m, mark)) work (QResp ar)) = Some r ->
  In p (c_prefixes (compile cf)) -> In (RA o ta ip) (m_answer ar) -> to4 ip = Some v4 ->
  should_exclude_a (compile cf) v4 p = false ->
  exists t, In (RAAAA o t (embed (cp_net p) v4)) (r_answer r).
Proof. exact synthesised_aaaa_complete. Qed.
Print Assumptions synth_complete.

(* ------------------------------------------------------------------ *)
(* owner and TTL.  Full statement (v = cur, no hypothesis on the SOA):
     every synthesised AAAA is owned by an A record's owner, its TTL is at
     most every A TTL and at most the AAAA negative TTL
     min(SOA TTL, SOA MINIMUM) (600 without SOA).
   FALSE of the current tree for SOA TTL 0 / MINIMUM 0 (DESIGN F7):
   owner_and_ttl_refuted.  Proved for SOAs with positive TTL and MINIMUM,
   and without hypothesis for fix.patch hunk 1. *)
Theorem owner_and_ttl_partial :
  forall cf q m mark work ar r o t e,
  soa_positive m ->
  x_path (serve cur cf q (Some (m, mark)) work (QResp ar)) = PSynth ->
  x_reply (serve cur cf q (Some (m, mark)) work (QResp ar)) = Some r ->
  In (RAAAA o t e) (r_answer r) ->
  (exists ta ip, In (RA o ta ip) (m_answer ar))
  /\ (forall o' ta ip, In (RA o' ta ip) (m_answer ar) -> t <= ta)
  /\ t <= spec_negative_ttl m.
Proof. exact owner_and_ttl_partial_lem. Qed.
Print Assumptions owner_and_ttl_partial.

Theorem owner_and_ttl_refuted :
  exists cf q m mark work ar r o t e,
    x_path (serve cur cf q (Some (m, mark)) work (QResp ar)) = PSynth
    /\ x_reply (serve cur cf q (Some (m, mark)) work (QResp ar)) = Some r
    /\ In (RAAAA o t e) (r_answer r)
    /\ spec_negative_ttl m < t.
Proof. exact owner_and_ttl_refuted_lem. Qed.
Print Assumptions owner_and_ttl_refuted.

Theorem owner_and_ttl_fixed :
  forall v cf q m mark work ar r o t e,
  fx_negttl v = true ->
  x_path (serve v cf q (Some (m, mark)) work (QResp ar)) = PSynth ->
  x_reply (serve v cf q (Some (m, mark)) work (QResp ar)) = Some r ->
  In (RAAAA o t e) (r_answer r) ->
  (exists ta ip, In (RA o ta ip) (m_answer ar))
  /\ (forall o' ta ip, In (RA o' ta ip) (m_answer ar) -> t <= ta)
  /\ t <= spec_negative_ttl m.
Proof. exact owner_and_ttl_fixed_lem. Qed.
Print Assumptions owner_and_ttl_fixed.

Theorem owner_follows_chain :
  forall v cf q m mark work ar r o t e,
  (forall o' ta ip, In (RA o' ta ip) (m_answer ar) -> o' = chain_terminal 16 (q_name q) (m_answer ar)) ->
  x_path (serve v cf q (Some (m, mark)) work (QResp ar)) = PSynth ->
  x_reply (serve v cf q (Some (m, mark)) work (QResp ar)) = Some r ->
  In (RAAAA o t e) (r_answer r) ->
  o = chain_terminal 16 (q_name q) (m_answer ar).
Proof. exact owner_follows_chain_lem. Qed.
Print Assumptions owner_follows_chain.

(* ------------------------------------------------------------------ *)
(* never AD.  Full statement (v = cur): a reply that is not the very message
   the next handler wrote — synthesised, AAAA-filtered, built from the A
   response, a PTR translation or a local SERVFAIL — has AD clear.
   FALSE of the current tree on the fall-back path after stripping
   (never_ad_refuted); proved for every other path, and for all paths with
   fix.patch hunk 2. *)
Theorem never_ad_partial :
  forall cf q down work al r,
  x_reply (serve cur cf q down work al) = Some r -> r_same r = false ->
  x_path (serve cur cf q down work al) <> PFallback ->
  r_ad r = false.
Proof. exact never_ad_partial_lem. Qed.
Print Assumptions never_ad_partial.

Theorem never_ad_refuted :
  exists cf q down work al r,
    x_reply (serve cur cf q down work al) = Some r /\ r_same r = false /\ r_ad r = true.
Proof. exact never_ad_refuted_lem. Qed.
Print Assumptions never_ad_refuted.

Theorem never_ad_fixed :
  forall v cf q down work al r,
  fx_fallback_ad v = true ->
  x_reply (serve v cf q down work al) = Some r -> r_same r = false -> r_ad r = false.
Proof. exact never_ad_fixed_lem. Qed.
Print Assumptions never_ad_fixed.
