(* C20 — DNS64 synthesis: the property theorems, about the tree as it is
   ([cur], after fix 3d56ccc).  Statements only; every proof is
   `exact <lemma>` into Proofs_*.v.  The three statements that were refuted
   before the repair (extract_embed, owner_and_ttl, never_ad) now hold at
   full strength; the old counterexamples survive as Examples about the
   [old] variant in Proofs_examples.v, where the Examples showing that the
   hypotheses are inhabited live as well. *)
From Coq Require Import String Ascii.
From Sdns Require Import Common.Base Common.GoList Gen.C20 C20.Model C20.Spec
  C20.Proofs_gen C20.Proofs_embed C20.Proofs_ptr C20.Proofs_serve C20.Proofs_loops C20.Proofs_subq
  C20.Proofs_relay C20.Proofs_range C20.Proofs_rr C20.Proofs_arpa.
Open Scope N_scope.

(* ------------------------------------------------------------------ *)
(* RFC 6052: extract (embed) — all six lengths, all prefixes, all 2^32 IPv4
   addresses, symbolic in the bytes *)
(* [legal_prefix p]: validatePrefix accepts p and it has 16 bytes — nothing
   else (in particular not "host part zero", which ParseCIDR happens to
   deliver) is needed *)
Theorem extract_embed :
  forall p v4, legal_prefix p -> length v4 = 4%nat -> extract cur p (embed p v4) = Some v4.
Proof. exact extract_embed_legal. Qed.
Print Assumptions extract_embed.

(* the layout: RFC 6052 2.2 octet positions, u octet zero, prefix kept, suffix zero *)
Theorem embed_layout :
  forall p v4, legal_prefix p -> length v4 = 4%nat ->
  spec_embed p v4 = Some (embed p v4)
  /\ length (embed p v4) = 16%nat
  /\ nthb (embed p v4) 8 = 0
  /\ firstn (N.to_nat (n_ones p / 8)) (embed p v4) = firstn (N.to_nat (n_ones p / 8)) (n_ip p)
  /\ all_zero (skipn (suffix_start (n_ones p)) (embed p v4)) = true.
Proof. exact embed_layout_legal. Qed.
Print Assumptions embed_layout.

(* extract succeeds only on embeddings: with extract_embed this makes it the inverse *)
Theorem extract_only_embeddings :
  forall p a v4, legal_prefix p -> bytes_ok (n_ip p) -> length a = 16%nat -> bytes_ok a ->
  extract cur p a = Some v4 -> a = embed p v4 /\ length v4 = 4%nat.
Proof. exact extract_sound_legal. Qed.
Print Assumptions extract_only_embeddings.

Theorem extract_rejects_nonconformant :
  forall p a, legal_prefix p -> bytes_ok (n_ip p) -> length a = 16%nat -> bytes_ok a ->
  nthb a 8 <> 0 \/ all_zero (skipn (suffix_start (n_ones p)) a) = false ->
  extract cur p a = None.
Proof. exact extract_rejects_legal. Qed.
Print Assumptions extract_rejects_nonconformant.

(* ------------------------------------------------------------------ *)
(* PTR: the ip6.arpa name of an embedded address parses back to it and
   extraction returns the IPv4 address; handlePTR then answers with the
   in-addr.arpa name, which reads back as the same four octets; and what
   handlePTR translates is an embedding under a configured prefix. *)
Theorem arpa_name_parses :
  forall a, length a = 16%nat -> bytes_ok a -> parse_ip6_arpa (arpa_name a) = Some a.
Proof. exact parse_arpa_name. Qed.
Print Assumptions arpa_name_parses.

Theorem ptr_roundtrip :
  forall p v4, legal_prefix p -> bytes_ok (n_ip p) -> length v4 = 4%nat -> bytes_ok v4 ->
  match parse_ip6_arpa (arpa_name (embed p v4)) with
  | Some addr => extract cur p addr
  | None => None
  end = Some v4.
Proof. exact ptr_roundtrip_legal. Qed.
Print Assumptions ptr_roundtrip.

Theorem ptr_handler_roundtrip :
  forall c cp v4, c_prefixes c = [cp] -> legal_prefix (cp_net cp) -> bytes_ok (n_ip (cp_net cp)) ->
  length v4 = 4%nat -> bytes_ok v4 -> should_exclude_a c v4 cp = false ->
  ptr_target cur c (lower (arpa_name (embed (cp_net cp) v4))) = Some v4.
Proof. exact ptr_target_roundtrip_legal. Qed.
Print Assumptions ptr_handler_roundtrip.

Theorem ptr_handler_translates :
  forall c cp v4, In cp (c_prefixes c) -> legal_prefix (cp_net cp) -> bytes_ok (n_ip (cp_net cp)) ->
  length v4 = 4%nat -> bytes_ok v4 -> should_exclude_a c v4 cp = false ->
  exists w, ptr_target cur c (lower (arpa_name (embed (cp_net cp) v4))) = Some w.
Proof. exact ptr_target_translates. Qed.
Print Assumptions ptr_handler_translates.

Theorem ptr_target_sound :
  forall c addr ps v4,
  Forall (fun p => legal_prefix (cp_net p) /\ bytes_ok (n_ip (cp_net p))) ps ->
  length addr = 16%nat -> bytes_ok addr ->
  ptr_find cur c addr ps = Some v4 ->
  exists p, In p ps /\ addr = embed (cp_net p) v4 /\ length v4 = 4%nat /\ should_exclude_a c v4 p = false.
Proof. exact ptr_find_embedding_legal. Qed.
Print Assumptions ptr_target_sound.

Theorem in_addr_arpa_roundtrip :
  forall v4, length v4 = 4%nat -> bytes_ok v4 -> spec_parse_in_addr (in_addr_arpa v4) = Some v4.
Proof. exact in_addr_roundtrip. Qed.
Print Assumptions in_addr_arpa_roundtrip.

(* ------------------------------------------------------------------ *)
(* illegal prefixes: validatePrefix accepts exactly the RFC 6052 shapes and
   compileConfig uses nothing else (or the well-known prefix) *)
Theorem illegal_prefix_rejected :
  forall p, validate_prefix p = true ->
  n_mlen p = 16 /\ In (n_ones p) [32; 40; 48; 56; 64; 96]
  /\ (n_ones p = 96 -> (9 <= length (n_ip p))%nat -> nthb (n_ip p) 8 = 0).
Proof. exact illegal_prefix_rejected_lem. Qed.
Print Assumptions illegal_prefix_rejected.

Theorem validate_is_rfc6052 :
  forall p, length (n_ip p) = 16%nat -> validate_prefix p = spec_valid_prefix p.
Proof. exact validate_agrees_spec. Qed.
Print Assumptions validate_is_rfc6052.

Theorem compiled_prefixes_legal :
  forall cf p, In p (c_prefixes (compile cf)) ->
  validate_prefix (cp_net p) = true /\ cp_wk p = is_well_known (cp_net p)
  /\ (p = mk_cprefix wkp_net true \/ In (Some (cp_net p)) (cf_prefixes cf)).
Proof. exact compile_prefixes_valid. Qed.
Print Assumptions compiled_prefixes_legal.

(* ------------------------------------------------------------------ *)
(* synthesis — and already the secondary A lookup — only when: one
   question, class IN, external, RD, not CD, eligible client, AAAA, zone not
   excluded, and a downstream response that is not truncated, not
   NXDOMAIN, not a DNSSEC-failure SERVFAIL, not a cached failure (marker or
   EDE 13), not a request-local failure, not a locally enforced work-limit
   SERVFAIL, and (if NOERROR) without a usable native AAAA *)
Theorem synth_only_when :
  forall cf q down work al cut,
  x_path (serve cur cf q down work al cut) = PSynth \/ (x_aq (serve cur cf q down work al cut) = true /\ q_type q = type_aaaa) ->
  gates_open (compile cf) q = true /\ q_type q = type_aaaa
  /\ zone_excluded (compile cf) (lower (q_name q)) = false
  /\ exists m mark, down = Some (m, mark) /\ down_allows (compile cf) m mark work = true.
Proof. exact (synth_only_when_lem cur). Qed.
Print Assumptions synth_only_when.

Theorem synth_needs_a_records :
  forall cf q down work al cut, x_path (serve cur cf q down work al cut) = PSynth ->
  exists ar, al = QResp ar /\ m_rcode ar = 0 /\ exists o t ip, In (RA o t ip) (m_answer ar).
Proof. exact (synth_needs_a_answer cur). Qed.
Print Assumptions synth_needs_a_records.

(* the EDE codes the dispatch treats as validation failures are the RFC 8914 ones *)
Theorem dnssec_failure_codes_are_rfc8914 :
  forall c, existsb (N.eqb c) dnssec_failure_codes = existsb (N.eqb c) spec_dnssec_codes.
Proof. exact gen_dnssec_failure_codes_spec. Qed.
Print Assumptions dnssec_failure_codes_are_rfc8914.

(* ------------------------------------------------------------------ *)
(* every synthesised AAAA is the embedding of an A record of the lookup into
   a legal configured prefix, owned like that A record, never an excluded
   IPv4 address under the well-known prefix; every allowed pair is present *)
Theorem wkp_exclusions :
  forall cf q m mark work ar cut r o t e,
  x_path (serve cur cf q (Some (m, mark)) work (QResp ar) cut) = PSynth ->
  x_reply (serve cur cf q (Some (m, mark)) work (QResp ar) cut) = Some r ->
  In (RAAAA o t e) (r_answer r) ->
  (exists p ta ip v4,
      In p (c_prefixes (compile cf)) /\ In (RA o ta ip) (m_answer ar) /\ to4 ip = Some v4
      /\ e = embed (cp_net p) v4
      /\ (is_well_known (cp_net p) = true -> existsb (fun n => net_contains n v4) (c_excl_a (compile cf)) = false))
  /\ (forall o' ta ip, In (RA o' ta ip) (m_answer ar) -> t <= ta)
  /\ t <= ttl_ceiling cur (m_ns m)
  /\ (forall s, cut = Some s -> t <= s).
Proof. exact (synthesised_aaaa_sound cur). Qed.
Print Assumptions wkp_exclusions.

Theorem synth_complete :
  forall cf q m mark work ar cut r p o ta ip v4,
  x_path (serve cur cf q (Some (m, mark)) work (QResp ar) cut) = PSynth ->
  x_reply (serve cur cf q (Some (m, mark)) work (QResp ar) cut) = Some r ->
  In p (c_prefixes (compile cf)) -> In (RA o ta ip) (m_answer ar) -> to4 ip = Some v4 ->
  should_exclude_a (compile cf) v4 p = false ->
  exists t, In (RAAAA o t (embed (cp_net p) v4)) (r_answer r).
Proof. exact (synthesised_aaaa_complete cur). Qed.
Print Assumptions synth_complete.

(* ------------------------------------------------------------------ *)
(* owner and TTL: every synthesised AAAA is owned by an A record's owner, its
   TTL is at most every A TTL and at most the AAAA negative TTL
   min(SOA TTL, SOA MINIMUM) (600 s without SOA) — zero included — and (since
   af44539) at most the whole seconds left of the request tree's bound, when
   the tree has one ([cut] = what synthesise reads off
   ResponseMetaFrom(ctx).CutUntil(): None = unbounded) *)
Theorem owner_and_ttl :
  forall cf q m mark work ar cut r o t e,
  x_path (serve cur cf q (Some (m, mark)) work (QResp ar) cut) = PSynth ->
  x_reply (serve cur cf q (Some (m, mark)) work (QResp ar) cut) = Some r ->
  In (RAAAA o t e) (r_answer r) ->
  (exists ta ip, In (RA o ta ip) (m_answer ar))
  /\ (forall o' ta ip, In (RA o' ta ip) (m_answer ar) -> t <= ta)
  /\ t <= spec_negative_ttl m
  /\ (forall s, cut = Some s -> t <= s).
Proof. exact owner_and_ttl_now. Qed.
Print Assumptions owner_and_ttl.

(* the whole synthesised answer section — the copied alias chain as well —
   stays within the tree's bound *)
Theorem synth_reply_within_bound :
  forall cf q m mark work ar s r x,
  x_path (serve cur cf q (Some (m, mark)) work (QResp ar) (Some s)) = PSynth ->
  x_reply (serve cur cf q (Some (m, mark)) work (QResp ar) (Some s)) = Some r ->
  In x (r_answer r) -> rr_ttl x <= s.
Proof. exact (synth_reply_within_bound_lem cur). Qed.
Print Assumptions synth_reply_within_bound.

(* the bound only ever lowers the TTL: the synthesised TTL is the minimum of
   the bound and the TTL of an unbounded tree (= min over the A TTLs and the
   negative TTL), so a bound beyond the negative TTL changes nothing *)
Theorem synth_ttl_min_with_bound :
  forall ns addrs s,
  synth_ttl cur ns addrs (Some s) = N.min s (synth_ttl cur ns addrs None)
  /\ (ttl_ceiling cur ns <= s -> synth_ttl cur ns addrs (Some s) = synth_ttl cur ns addrs None).
Proof. exact (synth_ttl_min_with_bound_lem cur). Qed.
Print Assumptions synth_ttl_min_with_bound.

Theorem owner_follows_chain :
  forall cf q m mark work ar cut r o t e,
  (forall o' ta ip, In (RA o' ta ip) (m_answer ar) -> o' = chain_terminal 16 (q_name q) (m_answer ar)) ->
  x_path (serve cur cf q (Some (m, mark)) work (QResp ar) cut) = PSynth ->
  x_reply (serve cur cf q (Some (m, mark)) work (QResp ar) cut) = Some r ->
  In (RAAAA o t e) (r_answer r) ->
  o = chain_terminal 16 (q_name q) (m_answer ar).
Proof. exact (owner_follows_chain_lem cur). Qed.
Print Assumptions owner_follows_chain.

(* "owned by the queried name after any alias chain", for chains of any
   length: if the A response's CNAME/DNAME records lead from the queried name
   to t and its A records sit at t, then the synthesised reply carries that
   chain from the queried name to t, every synthesised AAAA is owned by t,
   and there is one *)
Theorem owner_after_alias_chain :
  forall cf q m mark work ar cut r t,
  x_path (serve cur cf q (Some (m, mark)) work (QResp ar) cut) = PSynth ->
  x_reply (serve cur cf q (Some (m, mark)) work (QResp ar) cut) = Some r ->
  alias_chain (q_name q) (filter is_chain (m_answer ar)) t ->
  (forall o ta ip, In (RA o ta ip) (m_answer ar) -> o = t) ->
  alias_chain (q_name q) (filter is_chain (r_answer r)) t
  /\ (forall o ttl e, In (RAAAA o ttl e) (r_answer r) -> o = t)
  /\ (exists ttl e, In (RAAAA t ttl e) (r_answer r)).
Proof. exact (owner_after_alias_chain_lem cur). Qed.
Print Assumptions owner_after_alias_chain.

(* through the production composition (server -> pipeline -> auto-wired
   pipeline Queryer -> sub-pipeline): synthesis needs a sub-query that was
   answered, without a request-local failure marker, NOERROR, with an A record *)
Theorem wire_synth_needs_answered_sub_query :
  forall cf q down s cut, x_path (serve_wire cf q down s cut) = PSynth ->
  exists m mark, s = SubWrite m mark /\ mark <> 2 /\ mark <> 3 /\ m_rcode m = 0
                 /\ exists o t ip, In (RA o t ip) (m_answer m).
Proof. exact Proofs_serve.wire_synth_needs_answered_sub_query. Qed.
Print Assumptions wire_synth_needs_answered_sub_query.

(* ------------------------------------------------------------------ *)
(* never AD: a reply that is not the very message the next handler wrote —
   synthesised, AAAA-filtered (passed on or fallen back to), built from the A
   response, a PTR translation or a local SERVFAIL — has AD clear *)
Theorem never_ad :
  forall cf q down work al cut r,
  x_reply (serve cur cf q down work al cut) = Some r -> r_same r = false -> r_ad r = false.
Proof. exact never_ad_now. Qed.
Print Assumptions never_ad.

(* ------------------------------------------------------------------ *)
(* source ties through the translator's loops (Gen/C20.v is regenerated from
   /repo on every run): the suffix test of extractIPv4 and the label loop of
   parseIP6ArpaName, as the Go source has them, compute what the model says *)
Theorem bytes_all_zero_loop_is_model :
  forall l, go_bytesAllZero l = all_zero l.
Proof. exact gen_bytesAllZero. Qed.
Print Assumptions bytes_all_zero_loop_is_model.

Theorem arpa_label_loop_is_model :
  forall parts, length parts = 32%nat ->
  match nibbles parts with
  | Some ns => go_parseIP6ArpaName_loop1_run parts (zeros 16) = (GoNext, (parts, pair_up (rev ns)))
  | None => exists st, go_parseIP6ArpaName_loop1_run parts (zeros 16) = (GoRet ([], false), st)
  end.
Proof. exact gen_parse_ip6_arpa_loop. Qed.
Print Assumptions arpa_label_loop_is_model.

Theorem parse_ip6_arpa_is_translated_loop :
  forall qname,
  let q := trim_suffix (lower qname) [46] in
  has_suffix q sfx_ip6_arpa = true ->
  let parts := split_on 46 (trim_suffix q sfx_ip6_arpa) in
  length parts = 32%nat ->
  match parse_ip6_arpa qname with
  | Some a => go_parseIP6ArpaName_loop1_run parts (zeros 16) = (GoNext, (parts, a))
  | None => exists st, go_parseIP6ArpaName_loop1_run parts (zeros 16) = (GoRet ([], false), st)
  end.
Proof. exact parse_ip6_arpa_by_gen_loop. Qed.
Print Assumptions parse_ip6_arpa_is_translated_loop.

(* compiled.zoneExcluded and compiled.hasWellKnown, translated as whole
   functions (Records T_compiled / T_compiledPrefix hold the fields inside the
   translator's subset): on the compiled zone list / the wellKnown flags they
   are the model's zone_excluded and the [existsb cp_wk] gate of compile *)
Theorem zone_excluded_is_translated :
  forall (mc : compiled) (gc : T_compiled) q,
  T_compiled_excludeZones gc = c_zones mc -> go_compiled_zoneExcluded gc q = zone_excluded mc q.
Proof. exact gen_zoneExcluded_model. Qed.
Print Assumptions zone_excluded_is_translated.

Theorem has_well_known_is_translated :
  forall (ps : list cprefix) (gc : T_compiled),
  map T_compiledPrefix_wellKnown (T_compiled_prefixes gc) = map cp_wk ps ->
  go_compiled_hasWellKnown gc = existsb cp_wk ps.
Proof. exact gen_hasWellKnown_model. Qed.
Print Assumptions has_well_known_is_translated.

(* ------------------------------------------------------------------ *)
(* the secondary query (Model.sub_query; observed in every handler case as
   the question the Queryer received).  "The target's A records": a
   synthesised reply rests on exactly one lookup, which asked for the A
   records of the queried name as the client spelled it, class IN, RD set and
   CD clear — so a validation failure of the A leg is not hidden — and which
   was answered NOERROR *)
Theorem a_lookup_question :
  forall cf q down work al cut s,
  q_type q = type_aaaa -> sub_query cur cf q down work al cut = Some s ->
  s = mk_subq (q_name q) type_a class_in true false.
Proof. exact (a_lookup_question_lem cur). Qed.
Print Assumptions a_lookup_question.

Theorem synthesis_rests_on_a_lookup :
  forall cf q down work al cut,
  x_path (serve cur cf q down work al cut) = PSynth ->
  sub_query cur cf q down work al cut = Some (mk_subq (q_name q) type_a class_in true false)
  /\ exists ar, al = QResp ar /\ m_rcode ar = 0.
Proof. exact (synthesis_rests_on_a_lookup_lem cur). Qed.
Print Assumptions synthesis_rests_on_a_lookup.

(* the Queryer is asked exactly when the model says so (x_aq is the
   "Queryer called" bit every other theorem speaks about) *)
Theorem sub_query_iff_asked :
  forall cf q down work al cut,
  sub_query cur cf q down work al cut = None <-> x_aq (serve cur cf q down work al cut) = false.
Proof. exact (sub_query_asked cur). Qed.
Print Assumptions sub_query_iff_asked.

(* PTR: the chase asks for the PTR records of the in-addr.arpa name of the
   decoded address, and that is the name the reply's CNAME points at *)
Theorem ptr_chase_question :
  forall cf q down work al cut s,
  q_type q = type_ptr -> sub_query cur cf q down work al cut = Some s ->
  exists v4, ptr_target cur (compile cf) (lower (q_name q)) = Some v4
    /\ s = mk_subq (in_addr_arpa v4) type_ptr class_in true false
    /\ forall r, x_reply (serve cur cf q down work al cut) = Some r ->
                 x_path (serve cur cf q down work al cut) = PPtr ->
                 exists rest, r_answer r = RCNAME (q_name q) ptr_synth_ttl (sq_name s) :: rest.
Proof. exact (ptr_chase_question_lem cur). Qed.
Print Assumptions ptr_chase_question.

(* "the matching ip6.arpa PTR query maps back to the same IPv4 address", through
   the whole handler and for any number of (possibly nested) prefixes: the name
   that is chased reads back as an IPv4 address whose RFC 6052 embedding under a
   configured prefix (not excluded there) is the queried address; with one
   prefix it is the very address that was embedded *)
Theorem ptr_chase_names_embedded_address :
  forall cf q down work al cut s addr,
  Forall (fun p => legal_prefix (cp_net p) /\ bytes_ok (n_ip (cp_net p))) (c_prefixes (compile cf)) ->
  length addr = 16%nat -> bytes_ok addr -> lower (q_name q) = arpa_name addr -> q_type q = type_ptr ->
  sub_query cur cf q down work al cut = Some s ->
  sq_type s = type_ptr /\ sq_class s = class_in /\ sq_rd s = true /\ sq_cd s = false
  /\ exists p w, In p (c_prefixes (compile cf)) /\ addr = embed (cp_net p) w /\ length w = 4%nat
       /\ should_exclude_a (compile cf) w p = false
       /\ spec_parse_in_addr (sq_name s) = Some w.
Proof. exact ptr_chase_names_embedded_address_lem. Qed.
Print Assumptions ptr_chase_names_embedded_address.

Theorem ptr_chase_same_address_single_prefix :
  forall cf q down work al cut s cp v4,
  c_prefixes (compile cf) = [cp] -> legal_prefix (cp_net cp) -> bytes_ok (n_ip (cp_net cp)) ->
  length v4 = 4%nat -> bytes_ok v4 ->
  lower (q_name q) = arpa_name (embed (cp_net cp) v4) -> q_type q = type_ptr ->
  sub_query cur cf q down work al cut = Some s ->
  spec_parse_in_addr (sq_name s) = Some v4.
Proof. exact ptr_chase_single_prefix_lem. Qed.
Print Assumptions ptr_chase_same_address_single_prefix.

(* the TTL minimum of synthesise, from the source: the `for _, a := range
   addresses` loop as the translator reads it (dns.A / dns.RR_Header as
   Records), run from the ceiling min(SOA TTL, MINIMUM) / 600 s, ends with the
   model's unbounded TTL; the tree's bound is applied to that *)
Theorem synth_ttl_loop_is_translated :
  forall ns addrs cut,
  go_responseWriter_synthesise_loop1_run (map rr_as_A addrs) (ttl_ceiling cur ns)
  = (GoNext, (map rr_as_A addrs, synth_ttl cur ns addrs None))
  /\ synth_ttl cur ns addrs cut = bound_ttl cut (synth_ttl cur ns addrs None).
Proof. exact (synth_ttl_by_gen_loop cur). Qed.
Print Assumptions synth_ttl_loop_is_translated.

(* forward, then reverse: every AAAA the handler synthesises can be asked back —
   the PTR route decodes its ip6.arpa name, whatever the number and nesting of
   the configured prefixes, to an IPv4 address whose embedding under a
   configured prefix (not excluded there) is that AAAA *)
Theorem synthesised_address_reverses :
  forall cf q m mark work ar cut r o t e,
  Forall (fun p => legal_prefix (cp_net p) /\ bytes_ok (n_ip (cp_net p))) (c_prefixes (compile cf)) ->
  (forall o' ta ip, In (RA o' ta ip) (m_answer ar) -> bytes_ok ip) ->
  x_path (serve cur cf q (Some (m, mark)) work (QResp ar) cut) = PSynth ->
  x_reply (serve cur cf q (Some (m, mark)) work (QResp ar) cut) = Some r ->
  In (RAAAA o t e) (r_answer r) ->
  exists w, ptr_target cur (compile cf) (lower (arpa_name e)) = Some w
    /\ exists p, In p (c_prefixes (compile cf)) /\ e = embed (cp_net p) w /\ length w = 4%nat
                 /\ should_exclude_a (compile cf) w p = false.
Proof. exact synthesised_address_reverses_lem. Qed.
Print Assumptions synthesised_address_reverses.

(* "only for non-excluded zones", whatever the spelling: an exclude_zones entry
   z counts in any letter case, with blanks around it, with or without the
   final dot ([fq (trim_space (lower z))] is what compileConfig stores), and a
   query name in any letter case that is the zone or lies below it is neither
   synthesised for nor looked up *)
Theorem no_synthesis_in_excluded_zone :
  forall cf q down work al cut z,
  In z (cf_zones cf) -> trim_space (lower z) <> [] ->
  lower (q_name q) = fq (trim_space (lower z))
  \/ has_suffix (lower (q_name q)) (46 :: fq (trim_space (lower z))) = true ->
  x_path (serve cur cf q down work al cut) <> PSynth
  /\ (q_type q = type_aaaa -> x_aq (serve cur cf q down work al cut) = false).
Proof. exact excluded_zone_no_synthesis. Qed.
Print Assumptions no_synthesis_in_excluded_zone.

(* ------------------------------------------------------------------ *)
(* the reply built from the A response (RFC 6147 5.1.6; session 5, /repo
   1a0e74f): never an AAAA, never AD, and every relayed record is a CNAME/DNAME
   of the A answer whose TTL is lowered — never raised — to the seconds left of
   the request tree's bound; without a bound the chain is relayed as it is *)
Theorem abasis_reply_within_bound :
  forall cf q down work al cut r x,
  x_path (serve cur cf q down work al cut) = PABasis ->
  x_reply (serve cur cf q down work al cut) = Some r ->
  In x (r_answer r) ->
  r_ad r = false
  /\ (forall s, cut = Some s -> rr_ttl x <= s)
  /\ exists ar y, al = QResp ar /\ In y (m_answer ar) /\ is_chain y = true
       /\ x = set_ttl (bound_ttl cut (rr_ttl y)) y /\ rr_ttl x <= rr_ttl y.
Proof. exact (abasis_within_bound_lem cur). Qed.
Print Assumptions abasis_reply_within_bound.

Theorem abasis_reply_shape :
  forall cf q down work al cut r,
  x_path (serve cur cf q down work al cut) = PABasis ->
  x_reply (serve cur cf q down work al cut) = Some r ->
  exists m mark ar, down = Some (m, mark) /\ al = QResp ar
    /\ (m_rcode ar <> 0 \/ filter is_a (m_answer ar) = [])
    /\ gates_open (compile cf) q = true /\ q_type q = type_aaaa
    /\ down_allows (compile cf) m mark work = true
    /\ r = mk_reply false (m_rcode ar) false (basis_edes m) (relay_rrs cut (filter is_chain (m_answer ar))).
Proof. exact (abasis_reply_lem cur). Qed.
Print Assumptions abasis_reply_shape.

Theorem abasis_reply_never_aaaa :
  forall cf q down work al cut r x,
  x_path (serve cur cf q down work al cut) = PABasis ->
  x_reply (serve cur cf q down work al cut) = Some r ->
  In x (r_answer r) -> is_aaaa x = false.
Proof. exact (abasis_no_aaaa_lem cur). Qed.
Print Assumptions abasis_reply_never_aaaa.

(* ------------------------------------------------------------------ *)
(* "eligible clients", "excluded IPv4 ranges" as statements about numbers
   (session 5).  Model.net_contains is net.IPNet.Contains as the Go source has
   it (To4 shortening, byte masks, length comparison); Spec.spec_in_net is
   "the leading bits of the 128-bit numbers agree" (IPv4 at ::ffff:0:0/96).
   For every network net.ParseCIDR can return and every 4- or 16-byte address:
   what Contains accepts lies numerically inside the range; for an IPv4
   network and an address that has an IPv4 form, exactly then.  (The converse
   fails across families: ::/0 does not "contain" 10.1.2.3 in Go.) *)
Theorem contains_accepts_only_the_range :
  forall n ip, wf_net n -> bytes_ok ip -> net_contains n ip = true -> spec_in_net n ip = true.
Proof. exact contains_in_range. Qed.
Print Assumptions contains_accepts_only_the_range.

Theorem contains_v4_is_the_range :
  forall n ip, wf_net4 n -> bytes_ok ip -> to4 ip <> None ->
  (net_contains n ip = true <-> spec_in_net n ip = true).
Proof. exact contains4_iff. Qed.
Print Assumptions contains_v4_is_the_range.

(* the masked byte comparison underneath, for any length: equal leading bits *)
Theorem masked_compare_is_leading_bits :
  forall a b ones,
  length a = length b -> bytes_ok a -> bytes_ok b -> ones <= 8 * N.of_nat (length a) ->
  (masked_eqb a (mask_bytes ones (length a)) b = true
   <-> bytes_val a / 2 ^ (8 * N.of_nat (length a) - ones) = bytes_val b / 2 ^ (8 * N.of_nat (length a) - ones)).
Proof. exact masked_compare_leading_bits. Qed.
Print Assumptions masked_compare_is_leading_bits.

(* synthesis — and already the A lookup — only for a client whose address lies
   numerically inside a configured client network (when any is configured) *)
Theorem synthesis_client_in_network :
  forall cf q down work al cut,
  Forall wf_net (c_clients (compile cf)) -> bytes_ok (q_client q) ->
  x_path (serve cur cf q down work al cut) = PSynth
  \/ (x_aq (serve cur cf q down work al cut) = true /\ q_type q = type_aaaa) ->
  c_clients (compile cf) = []
  \/ exists n, In n (c_clients (compile cf)) /\ spec_in_net n (q_client q) = true.
Proof. exact synthesis_client_in_network_lem. Qed.
Print Assumptions synthesis_client_in_network.

(* no synthesised AAAA under the well-known prefix embeds an IPv4 address that
   lies numerically inside an excluded range, and an A record inside one
   produces no AAAA under that prefix; the source's default list is canonical *)
Theorem excluded_range_never_synthesised :
  forall cf q m mark work ar cut r o t e,
  Forall wf_net4 (c_excl_a (compile cf)) ->
  (forall o' ta ip, In (RA o' ta ip) (m_answer ar) -> bytes_ok ip) ->
  x_path (serve cur cf q (Some (m, mark)) work (QResp ar) cut) = PSynth ->
  x_reply (serve cur cf q (Some (m, mark)) work (QResp ar) cut) = Some r ->
  In (RAAAA o t e) (r_answer r) ->
  exists p v4, In p (c_prefixes (compile cf)) /\ e = embed (cp_net p) v4 /\ length v4 = 4%nat
    /\ (is_well_known (cp_net p) = true ->
        forall n, In n (c_excl_a (compile cf)) -> spec_in_net n v4 = false).
Proof. exact excluded_range_never_synthesised_lem. Qed.
Print Assumptions excluded_range_never_synthesised.

Theorem excluded_address_skipped :
  forall c ttl p o ta ip v4 n,
  wf_net4 n -> In n (c_excl_a c) -> cp_wk p = true ->
  bytes_ok ip -> to4 ip = Some v4 -> spec_in_net n v4 = true ->
  synth_one c ttl p (RA o ta ip) = [].
Proof. exact excluded_address_skipped_lem. Qed.
Print Assumptions excluded_address_skipped.

Theorem default_exclusions_canonical : Forall wf_net4 default_exclude_a.
Proof. exact default_exclude_a_wf. Qed.
Print Assumptions default_exclusions_canonical.

(* ------------------------------------------------------------------ *)
(* the record walks of dns64.go from the source (session 5; dns.RR as a sum
   type, Gen/C20.v regenerated from /repo on every run).  [soa_of] reads an
   authority record as the model keeps it, [rr_as_I] an answer record of the
   model as the dns.RR it stands for.
   negativeAAAATTL: the ceiling of the synthesised TTL in the model is the value
   the translated function finds — RFC 2308's min(SOA TTL, MINIMUM) of the first
   SOA of the authority section, zero included — or the 600 s constant when it
   finds none *)
Theorem negative_ttl_is_translated :
  forall m : T_Msg,
  ttl_ceiling cur (map soa_of (T_Msg_Ns m))
  = (let '(t, ok) := go_negativeAAAATTL m in if ok then t else no_soa_ttl_ceiling)
  /\ (forall t, go_negativeAAAATTL m = (t, true) ->
      exists ttl mn, first_soa (map soa_of (T_Msg_Ns m)) = Some (ttl, mn) /\ t = N.min ttl mn)
  /\ (snd (go_negativeAAAATTL m) = false <-> first_soa (map soa_of (T_Msg_Ns m)) = None).
Proof. exact ttl_ceiling_by_gen. Qed.
Print Assumptions negative_ttl_is_translated.

(* splitChainAndA: the chain and the addresses synthesise works on are the
   CNAME/DNAME records and the A records of the A answer, each in its order *)
Theorem split_chain_and_a_is_translated :
  forall (resp : T_Msg) (ans : list rr),
  T_Msg_Answer resp = map rr_as_I ans ->
  go_splitChainAndA resp = (map rr_as_I (filter is_chain ans), map rr_as_A (filter is_a ans)).
Proof. exact split_by_gen. Qed.
Print Assumptions split_chain_and_a_is_translated.

(* hasAAAAInList on the answer section synthesise has built (capped chain, then
   the synthesised records) = "something was synthesised": the model's test for
   the fall-back *)
Theorem has_aaaa_is_translated :
  forall c ttl chain addrs,
  Forall (fun x => is_chain x = true) chain ->
  go_hasAAAAInList (map rr_as_I (map (cap_ttl ttl) chain ++ synth_rrs c ttl addrs))
  = negb (length (synth_rrs c ttl addrs) =? 0)%nat.
Proof. exact synth_answers_have_aaaa. Qed.
Print Assumptions has_aaaa_is_translated.

(* ------------------------------------------------------------------ *)
(* PTR, for ALL ip6.arpa names (session 5).  parseIP6ArpaName accepts only the
   names of addresses: whatever it accepts — any letter case, with or without
   the final dot — is, lower-cased and dot-terminated, the RFC 3596 name of
   the 16 bytes it returns (with arpa_name_parses: exactly those) *)
Theorem arpa_parser_accepts_only_names :
  forall qname a, bytes_ok qname -> parse_ip6_arpa qname = Some a ->
  length a = 16%nat /\ bytes_ok a /\ trim_suffix (lower qname) [46] ++ [46] = arpa_name a.
Proof. exact parse_only_arpa_names. Qed.
Print Assumptions arpa_parser_accepts_only_names.

(* whenever the handler chases a PTR question — no assumption on its name — the
   name is the ip6.arpa name of an address that is the RFC 6052 embedding, under
   a configured prefix that does not exclude it, of the very IPv4 address whose
   in-addr.arpa name is chased (and the CNAME points at, ptr_chase_question) *)
Theorem ptr_chase_all_names :
  forall cf q down work al cut s,
  Forall (fun p => legal_prefix (cp_net p) /\ bytes_ok (n_ip (cp_net p))) (c_prefixes (compile cf)) ->
  bytes_ok (q_name q) -> q_type q = type_ptr ->
  sub_query cur cf q down work al cut = Some s ->
  exists addr p w, length addr = 16%nat /\ lower (q_name q) = arpa_name addr
    /\ In p (c_prefixes (compile cf)) /\ addr = embed (cp_net p) w /\ length w = 4%nat
    /\ should_exclude_a (compile cf) w p = false
    /\ spec_parse_in_addr (sq_name s) = Some w
    /\ sq_type s = type_ptr /\ sq_class s = class_in /\ sq_rd s = true /\ sq_cd s = false.
Proof. exact ptr_chase_all_names_lem. Qed.
Print Assumptions ptr_chase_all_names.

(* ------------------------------------------------------------------ *)
(* synthesis is due (round 6): the converse of synth_only_when.  Behind every
   gate, for a name outside the excluded zones, a downstream reply that leaves
   room (down_allows) and a lookup answered NOERROR, every A record of the A
   answer — wherever it stands in the section, whatever its owner — that a
   compiled prefix does not exclude is synthesised under that prefix *)
Theorem synthesis_when_due :
  forall cf q m mark work ar cut p o ta ip v4,
  gates_open (compile cf) q = true -> q_type q = type_aaaa ->
  zone_excluded (compile cf) (lower (q_name q)) = false ->
  down_allows (compile cf) m mark work = true ->
  m_rcode ar = 0 ->
  In p (c_prefixes (compile cf)) -> In (RA o ta ip) (m_answer ar) -> to4 ip = Some v4 ->
  should_exclude_a (compile cf) v4 p = false ->
  x_path (serve cur cf q (Some (m, mark)) work (QResp ar) cut) = PSynth
  /\ exists r t, x_reply (serve cur cf q (Some (m, mark)) work (QResp ar) cut) = Some r
       /\ In (RAAAA o t (embed (cp_net p) v4)) (r_answer r).
Proof. exact (synthesis_when_due_lem cur). Qed.
Print Assumptions synthesis_when_due.
