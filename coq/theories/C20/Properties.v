(* C20 — DNS64 synthesis: the property theorems, about the tree as it is
   ([cur], after fix 3d56ccc).  Statements only; every proof is
   `exact <lemma>` into Proofs_*.v.  The three statements that were refuted
   before the repair (extract_embed, owner_and_ttl, never_ad) now hold at
   full strength; the old counterexamples survive as Examples about the
   [old] variant in Proofs_examples.v, where the Examples showing that the
   hypotheses are inhabited live as well. *)
From Coq Require Import String Ascii.
From Sdns Require Import Common.Base Common.GoList Gen.C20 C20.Model C20.Spec
  C20.Proofs_gen C20.Proofs_embed C20.Proofs_ptr C20.Proofs_serve C20.Proofs_loops C20.Proofs_subq.
Open Scope N_scope.

(* ------------------------------------------------------------------ *)
(* RFC 6052: extract (embed) — all six lengths, all prefixes, all 2^32 IPv4
   addresses, symbolic in the bytes *)
(* [legal_prefix p]: validatePrefix accepts p and it has 16 bytes — nothing
   else (in particular not "host part zero", which ParseCIDR happens to
   deliver) is needed *)
Theorem extract_embed :
  forall p v4, legal_prefix p -> length v4 = 4%nat -> extract cur p (embed p v4) = Some v4.
Proof. exact extract_embed_legal. Qed.
Print Assumptions extract_embed.

(* the layout: RFC 6052 2.2 octet positions, u octet zero, prefix kept, suffix zero *)
Theorem embed_layout :
  forall p v4, legal_prefix p -> length v4 = 4%nat ->
  spec_embed p v4 = Some (embed p v4)
  /\ length (embed p v4) = 16%nat
  /\ nthb (embed p v4) 8 = 0
  /\ firstn (N.to_nat (n_ones p / 8)) (embed p v4) = firstn (N.to_nat (n_ones p / 8)) (n_ip p)
  /\ all_zero (skipn (suffix_start (n_ones p)) (embed p v4)) = true.
Proof. exact embed_layout_legal. Qed.
Print Assumptions embed_layout.

(* extract succeeds only on embeddings: with extract_embed this makes it the inverse *)
Theorem extract_only_embeddings :
  forall p a v4, legal_prefix p -> bytes_ok (n_ip p) -> length a = 16%nat -> bytes_ok a ->
  extract cur p a = Some v4 -> a = embed p v4 /\ length v4 = 4%nat.
Proof. exact extract_sound_legal. Qed.
Print Assumptions extract_only_embeddings.

Theorem extract_rejects_nonconformant :
  forall p a, legal_prefix p -> bytes_ok (n_ip p) -> length a = 16%nat -> bytes_ok a ->
  nthb a 8 <> 0 \/ all_zero (skipn (suffix_start (n_ones p)) a) = false ->
  extract cur p a = None.
Proof. exact extract_rejects_legal. Qed.
Print Assumptions extract_rejects_nonconformant.

(* ------------------------------------------------------------------ *)
(* PTR: the ip6.arpa name of an embedded address parses back to it and
   extraction returns the IPv4 address; handlePTR then answers with the
   in-addr.arpa name, which reads back as the same four octets; and what
   handlePTR translates is an embedding under a configured prefix. *)
Theorem arpa_name_parses :
  forall a, length a = 16%nat -> bytes_ok a -> parse_ip6_arpa (arpa_name a) = Some a.
Proof. exact parse_arpa_name. Qed.
Print Assumptions arpa_name_parses.

Theorem ptr_roundtrip :
  forall p v4, legal_prefix p -> bytes_ok (n_ip p) -> length v4 = 4%nat -> bytes_ok v4 ->
  match parse_ip6_arpa (arpa_name (embed p v4)) with
  | Some addr => extract cur p addr
  | None => None
  end = Some v4.
Proof. exact ptr_roundtrip_legal. Qed.
Print Assumptions ptr_roundtrip.

Theorem ptr_handler_roundtrip :
  forall c cp v4, c_prefixes c = [cp] -> legal_prefix (cp_net cp) -> bytes_ok (n_ip (cp_net cp)) ->
  length v4 = 4%nat -> bytes_ok v4 -> should_exclude_a c v4 cp = false ->
  ptr_target cur c (lower (arpa_name (embed (cp_net cp) v4))) = Some v4.
Proof. exact ptr_target_roundtrip_legal. Qed.
Print Assumptions ptr_handler_roundtrip.

Theorem ptr_handler_translates :
  forall c cp v4, In cp (c_prefixes c) -> legal_prefix (cp_net cp) -> bytes_ok (n_ip (cp_net cp)) ->
  length v4 = 4%nat -> bytes_ok v4 -> should_exclude_a c v4 cp = false ->
  exists w, ptr_target cur c (lower (arpa_name (embed (cp_net cp) v4))) = Some w.
Proof. exact ptr_target_translates. Qed.
Print Assumptions ptr_handler_translates.

Theorem ptr_target_sound :
  forall c addr ps v4,
  Forall (fun p => legal_prefix (cp_net p) /\ bytes_ok (n_ip (cp_net p))) ps ->
  length addr = 16%nat -> bytes_ok addr ->
  ptr_find cur c addr ps = Some v4 ->
  exists p, In p ps /\ addr = embed (cp_net p) v4 /\ length v4 = 4%nat /\ should_exclude_a c v4 p = false.
Proof. exact ptr_find_embedding_legal. Qed.
Print Assumptions ptr_target_sound.

Theorem in_addr_arpa_roundtrip :
  forall v4, length v4 = 4%nat -> bytes_ok v4 -> spec_parse_in_addr (in_addr_arpa v4) = Some v4.
Proof. exact in_addr_roundtrip. Qed.
Print Assumptions in_addr_arpa_roundtrip.

(* ------------------------------------------------------------------ *)
(* illegal prefixes: validatePrefix accepts exactly the RFC 6052 shapes and
   compileConfig uses nothing else (or the well-known prefix) *)
Theorem illegal_prefix_rejected :
  forall p, validate_prefix p = true ->
  n_mlen p = 16 /\ In (n_ones p) [32; 40; 48; 56; 64; 96]
  /\ (n_ones p = 96 -> (9 <= length (n_ip p))%nat -> nthb (n_ip p) 8 = 0).
Proof. exact illegal_prefix_rejected_lem. Qed.
Print Assumptions illegal_prefix_rejected.

Theorem validate_is_rfc6052 :
  forall p, length (n_ip p) = 16%nat -> validate_prefix p = spec_valid_prefix p.
Proof. exact validate_agrees_spec. Qed.
Print Assumptions validate_is_rfc6052.

Theorem compiled_prefixes_legal :
  forall cf p, In p (c_prefixes (compile cf)) ->
  validate_prefix (cp_net p) = true /\ cp_wk p = is_well_known (cp_net p)
  /\ (p = mk_cprefix wkp_net true \/ In (Some (cp_net p)) (cf_prefixes cf)).
Proof. exact compile_prefixes_valid. Qed.
Print Assumptions compiled_prefixes_legal.

(* ------------------------------------------------------------------ *)
(* synthesis — and already the secondary A lookup — only when: one
   question, class IN, external, RD, not CD, eligible client, AAAA, zone not
   excluded, and a downstream response that is not truncated, not
   NXDOMAIN, not a DNSSEC-failure SERVFAIL, not a cached failure (marker or
   EDE 13), not a request-local failure, not a locally enforced work-limit
   SERVFAIL, and (if NOERROR) without a usable native AAAA *)
Theorem synth_only_when :
  forall cf q down work al cut,
  x_path (serve cur cf q down work al cut) = PSynth \/ (x_aq (serve cur cf q down work al cut) = true /\ q_type q = type_aaaa) ->
  gates_open (compile cf) q = true /\ q_type q = type_aaaa
  /\ zone_excluded (compile cf) (lower (q_name q)) = false
  /\ exists m mark, down = Some (m, mark) /\ down_allows (compile cf) m mark work = true.
Proof. exact (synth_only_when_lem cur). Qed.
Print Assumptions synth_only_when.

Theorem synth_needs_a_records :
  forall cf q down work al cut, x_path (serve cur cf q down work al cut) = PSynth ->
  exists ar, al = QResp ar /\ m_rcode ar = 0 /\ exists o t ip, In (RA o t ip) (m_answer ar).
Proof. exact (synth_needs_a_answer cur). Qed.
Print Assumptions synth_needs_a_records.

(* the EDE codes the dispatch treats as validation failures are the RFC 8914 ones *)
Theorem dnssec_failure_codes_are_rfc8914 :
  forall c, existsb (N.eqb c) dnssec_failure_codes = existsb (N.eqb c) spec_dnssec_codes.
Proof. exact gen_dnssec_failure_codes_spec. Qed.
Print Assumptions dnssec_failure_codes_are_rfc8914.

(* ------------------------------------------------------------------ *)
(* every synthesised AAAA is the embedding of an A record of the lookup into
   a legal configured prefix, owned like that A record, never an excluded
   IPv4 address under the well-known prefix; every allowed pair is present *)
Theorem wkp_exclusions :
  forall cf q m mark work ar cut r o t e,
  x_path (serve cur cf q (Some (m, mark)) work (QResp ar) cut) = PSynth ->
  x_reply (serve cur cf q (Some (m, mark)) work (QResp ar) cut) = Some r ->
  In (RAAAA o t e) (r_answer r) ->
  (exists p ta ip v4,
      In p (c_prefixes (compile cf)) /\ In (RA o ta ip) (m_answer ar) /\ to4 ip = Some v4
      /\ e = embed (cp_net p) v4
      /\ (is_well_known (cp_net p) = true -> existsb (fun n => net_contains n v4) (c_excl_a (compile cf)) = false))
  /\ (forall o' ta ip, In (RA o' ta ip) (m_answer ar) -> t <= ta)
  /\ t <= ttl_ceiling cur (m_ns m)
  /\ (forall s, cut = Some s -> t <= s).
Proof. exact (synthesised_aaaa_sound cur). Qed.
Print Assumptions wkp_exclusions.

Theorem synth_complete :
  forall cf q m mark work ar cut r p o ta ip v4,
  x_path (serve cur cf q (Some (m, mark)) work (QResp ar) cut) = PSynth ->
  x_reply (serve cur cf q (Some (m, mark)) work (QResp ar) cut) = Some r ->
  In p (c_prefixes (compile cf)) -> In (RA o ta ip) (m_answer ar) -> to4 ip = Some v4 ->
  should_exclude_a (compile cf) v4 p = false ->
  exists t, In (RAAAA o t (embed (cp_net p) v4)) (r_answer r).
Proof. exact (synthesised_aaaa_complete cur). Qed.
Print Assumptions synth_complete.

(* ------------------------------------------------------------------ *)
(* owner and TTL: every synthesised AAAA is owned by an A record's owner, its
   TTL is at most every A TTL and at most the AAAA negative TTL
   min(SOA TTL, SOA MINIMUM) (600 s without SOA) — zero included — and (since
   af44539) at most the whole seconds left of the request tree's bound, when
   the tree has one ([cut] = what synthesise reads off
   ResponseMetaFrom(ctx).CutUntil(): None = unbounded) *)
Theorem owner_and_ttl :
  forall cf q m mark work ar cut r o t e,
  x_path (serve cur cf q (Some (m, mark)) work (QResp ar) cut) = PSynth ->
  x_reply (serve cur cf q (Some (m, mark)) work (QResp ar) cut) = Some r ->
  In (RAAAA o t e) (r_answer r) ->
  (exists ta ip, In (RA o ta ip) (m_answer ar))
  /\ (forall o' ta ip, In (RA o' ta ip) (m_answer ar) -> t <= ta)
  /\ t <= spec_negative_ttl m
  /\ (forall s, cut = Some s -> t <= s).
Proof. exact owner_and_ttl_now. Qed.
Print Assumptions owner_and_ttl.

(* the whole synthesised answer section — the copied alias chain as well —
   stays within the tree's bound *)
Theorem synth_reply_within_bound :
  forall cf q m mark work ar s r x,
  x_path (serve cur cf q (Some (m, mark)) work (QResp ar) (Some s)) = PSynth ->
  x_reply (serve cur cf q (Some (m, mark)) work (QResp ar) (Some s)) = Some r ->
  In x (r_answer r) -> rr_ttl x <= s.
Proof. exact (synth_reply_within_bound_lem cur). Qed.
Print Assumptions synth_reply_within_bound.

(* the bound only ever lowers the TTL: the synthesised TTL is the minimum of
   the bound and the TTL of an unbounded tree (= min over the A TTLs and the
   negative TTL), so a bound beyond the negative TTL changes nothing *)
Theorem synth_ttl_min_with_bound :
  forall ns addrs s,
  synth_ttl cur ns addrs (Some s) = N.min s (synth_ttl cur ns addrs None)
  /\ (ttl_ceiling cur ns <= s -> synth_ttl cur ns addrs (Some s) = synth_ttl cur ns addrs None).
Proof. exact (synth_ttl_min_with_bound_lem cur). Qed.
Print Assumptions synth_ttl_min_with_bound.

Theorem owner_follows_chain :
  forall cf q m mark work ar cut r o t e,
  (forall o' ta ip, In (RA o' ta ip) (m_answer ar) -> o' = chain_terminal 16 (q_name q) (m_answer ar)) ->
  x_path (serve cur cf q (Some (m, mark)) work (QResp ar) cut) = PSynth ->
  x_reply (serve cur cf q (Some (m, mark)) work (QResp ar) cut) = Some r ->
  In (RAAAA o t e) (r_answer r) ->
  o = chain_terminal 16 (q_name q) (m_answer ar).
Proof. exact (owner_follows_chain_lem cur). Qed.
Print Assumptions owner_follows_chain.

(* "owned by the queried name after any alias chain", for chains of any
   length: if the A response's CNAME/DNAME records lead from the queried name
   to t and its A records sit at t, then the synthesised reply carries that
   chain from the queried name to t, every synthesised AAAA is owned by t,
   and there is one *)
Theorem owner_after_alias_chain :
  forall cf q m mark work ar cut r t,
  x_path (serve cur cf q (Some (m, mark)) work (QResp ar) cut) = PSynth ->
  x_reply (serve cur cf q (Some (m, mark)) work (QResp ar) cut) = Some r ->
  alias_chain (q_name q) (filter is_chain (m_answer ar)) t ->
  (forall o ta ip, In (RA o ta ip) (m_answer ar) -> o = t) ->
  alias_chain (q_name q) (filter is_chain (r_answer r)) t
  /\ (forall o ttl e, In (RAAAA o ttl e) (r_answer r) -> o = t)
  /\ (exists ttl e, In (RAAAA t ttl e) (r_answer r)).
Proof. exact (owner_after_alias_chain_lem cur). Qed.
Print Assumptions owner_after_alias_chain.

(* through the production composition (server -> pipeline -> auto-wired
   pipeline Queryer -> sub-pipeline): synthesis needs a sub-query that was
   answered, without a request-local failure marker, NOERROR, with an A record *)
Theorem wire_synth_needs_answered_sub_query :
  forall cf q down s cut, x_path (serve_wire cf q down s cut) = PSynth ->
  exists m mark, s = SubWrite m mark /\ mark <> 2 /\ mark <> 3 /\ m_rcode m = 0
                 /\ exists o t ip, In (RA o t ip) (m_answer m).
Proof. exact Proofs_serve.wire_synth_needs_answered_sub_query. Qed.
Print Assumptions wire_synth_needs_answered_sub_query.

(* ------------------------------------------------------------------ *)
(* never AD: a reply that is not the very message the next handler wrote —
   synthesised, AAAA-filtered (passed on or fallen back to), built from the A
   response, a PTR translation or a local SERVFAIL — has AD clear *)
Theorem never_ad :
  forall cf q down work al cut r,
  x_reply (serve cur cf q down work al cut) = Some r -> r_same r = false -> r_ad r = false.
Proof. exact never_ad_now. Qed.
Print Assumptions never_ad.

(* ------------------------------------------------------------------ *)
(* source ties through the translator's loops (Gen/C20.v is regenerated from
   /repo on every run): the suffix test of extractIPv4 and the label loop of
   parseIP6ArpaName, as the Go source has them, compute what the model says *)
Theorem bytes_all_zero_loop_is_model :
  forall l, go_bytesAllZero l = all_zero l.
Proof. exact gen_bytesAllZero. Qed.
Print Assumptions bytes_all_zero_loop_is_model.

Theorem arpa_label_loop_is_model :
  forall parts, length parts = 32%nat ->
  match nibbles parts with
  | Some ns => go_parseIP6ArpaName_loop1_run parts (zeros 16) = (GoNext, (parts, pair_up (rev ns)))
  | None => exists st, go_parseIP6ArpaName_loop1_run parts (zeros 16) = (GoRet ([], false), st)
  end.
Proof. exact gen_parse_ip6_arpa_loop. Qed.
Print Assumptions arpa_label_loop_is_model.

Theorem parse_ip6_arpa_is_translated_loop :
  forall qname,
  let q := trim_suffix (lower qname) [46] in
  has_suffix q sfx_ip6_arpa = true ->
  let parts := split_on 46 (trim_suffix q sfx_ip6_arpa) in
  length parts = 32%nat ->
  match parse_ip6_arpa qname with
  | Some a => go_parseIP6ArpaName_loop1_run parts (zeros 16) = (GoNext, (parts, a))
  | None => exists st, go_parseIP6ArpaName_loop1_run parts (zeros 16) = (GoRet ([], false), st)
  end.
Proof. exact parse_ip6_arpa_by_gen_loop. Qed.
Print Assumptions parse_ip6_arpa_is_translated_loop.

(* compiled.zoneExcluded and compiled.hasWellKnown, translated as whole
   functions (Records T_compiled / T_compiledPrefix hold the fields inside the
   translator's subset): on the compiled zone list / the wellKnown flags they
   are the model's zone_excluded and the [existsb cp_wk] gate of compile *)
Theorem zone_excluded_is_translated :
  forall (mc : compiled) (gc : T_compiled) q,
  T_compiled_excludeZones gc = c_zones mc -> go_compiled_zoneExcluded gc q = zone_excluded mc q.
Proof. exact gen_zoneExcluded_model. Qed.
Print Assumptions zone_excluded_is_translated.

Theorem has_well_known_is_translated :
  forall (ps : list cprefix) (gc : T_compiled),
  map T_compiledPrefix_wellKnown (T_compiled_prefixes gc) = map cp_wk ps ->
  go_compiled_hasWellKnown gc = existsb cp_wk ps.
Proof. exact gen_hasWellKnown_model. Qed.
Print Assumptions has_well_known_is_translated.

(* ------------------------------------------------------------------ *)
(* the secondary query (Model.sub_query; observed in every handler case as
   the question the Queryer received).  "The target's A records": a
   synthesised reply rests on exactly one lookup, which asked for the A
   records of the queried name as the client spelled it, class IN, RD set and
   CD clear — so a validation failure of the A leg is not hidden — and which
   was answered NOERROR *)
Theorem a_lookup_question :
  forall cf q down work al cut s,
  q_type q = type_aaaa -> sub_query cur cf q down work al cut = Some s ->
  s = mk_subq (q_name q) type_a class_in true false.
Proof. exact (a_lookup_question_lem cur). Qed.
Print Assumptions a_lookup_question.

Theorem synthesis_rests_on_a_lookup :
  forall cf q down work al cut,
  x_path (serve cur cf q down work al cut) = PSynth ->
  sub_query cur cf q down work al cut = Some (mk_subq (q_name q) type_a class_in true false)
  /\ exists ar, al = QResp ar /\ m_rcode ar = 0.
Proof. exact (synthesis_rests_on_a_lookup_lem cur). Qed.
Print Assumptions synthesis_rests_on_a_lookup.

(* the Queryer is asked exactly when the model says so (x_aq is the
   "Queryer called" bit every other theorem speaks about) *)
Theorem sub_query_iff_asked :
  forall cf q down work al cut,
  sub_query cur cf q down work al cut = None <-> x_aq (serve cur cf q down work al cut) = false.
Proof. exact (sub_query_asked cur). Qed.
Print Assumptions sub_query_iff_asked.

(* PTR: the chase asks for the PTR records of the in-addr.arpa name of the
   decoded address, and that is the name the reply's CNAME points at *)
Theorem ptr_chase_question :
  forall cf q down work al cut s,
  q_type q = type_ptr -> sub_query cur cf q down work al cut = Some s ->
  exists v4, ptr_target cur (compile cf) (lower (q_name q)) = Some v4
    /\ s = mk_subq (in_addr_arpa v4) type_ptr class_in true false
    /\ forall r, x_reply (serve cur cf q down work al cut) = Some r ->
                 x_path (serve cur cf q down work al cut) = PPtr ->
                 exists rest, r_answer r = RCNAME (q_name q) ptr_synth_ttl (sq_name s) :: rest.
Proof. exact (ptr_chase_question_lem cur). Qed.
Print Assumptions ptr_chase_question.

(* "the matching ip6.arpa PTR query maps back to the same IPv4 address", through
   the whole handler and for any number of (possibly nested) prefixes: the name
   that is chased reads back as an IPv4 address whose RFC 6052 embedding under a
   configured prefix (not excluded there) is the queried address; with one
   prefix it is the very address that was embedded *)
Theorem ptr_chase_names_embedded_address :
  forall cf q down work al cut s addr,
  Forall (fun p => legal_prefix (cp_net p) /\ bytes_ok (n_ip (cp_net p))) (c_prefixes (compile cf)) ->
  length addr = 16%nat -> bytes_ok addr -> lower (q_name q) = arpa_name addr -> q_type q = type_ptr ->
  sub_query cur cf q down work al cut = Some s ->
  sq_type s = type_ptr /\ sq_class s = class_in /\ sq_rd s = true /\ sq_cd s = false
  /\ exists p w, In p (c_prefixes (compile cf)) /\ addr = embed (cp_net p) w /\ length w = 4%nat
       /\ should_exclude_a (compile cf) w p = false
       /\ spec_parse_in_addr (sq_name s) = Some w.
Proof. exact ptr_chase_names_embedded_address_lem. Qed.
Print Assumptions ptr_chase_names_embedded_address.

Theorem ptr_chase_same_address_single_prefix :
  forall cf q down work al cut s cp v4,
  c_prefixes (compile cf) = [cp] -> legal_prefix (cp_net cp) -> bytes_ok (n_ip (cp_net cp)) ->
  length v4 = 4%nat -> bytes_ok v4 ->
  lower (q_name q) = arpa_name (embed (cp_net cp) v4) -> q_type q = type_ptr ->
  sub_query cur cf q down work al cut = Some s ->
  spec_parse_in_addr (sq_name s) = Some v4.
Proof. exact ptr_chase_single_prefix_lem. Qed.
Print Assumptions ptr_chase_same_address_single_prefix.

(* the TTL minimum of synthesise, from the source: the `for _, a := range
   addresses` loop as the translator reads it (dns.A / dns.RR_Header as
   Records), run from the ceiling min(SOA TTL, MINIMUM) / 600 s, ends with the
   model's unbounded TTL; the tree's bound is applied to that *)
Theorem synth_ttl_loop_is_translated :
  forall ns addrs cut,
  go_responseWriter_synthesise_loop1_run (map rr_as_A addrs) (ttl_ceiling cur ns)
  = (GoNext, (map rr_as_A addrs, synth_ttl cur ns addrs None))
  /\ synth_ttl cur ns addrs cut = bound_ttl cut (synth_ttl cur ns addrs None).
Proof. exact (synth_ttl_by_gen_loop cur). Qed.
Print Assumptions synth_ttl_loop_is_translated.

(* forward, then reverse: every AAAA the handler synthesises can be asked back —
   the PTR route decodes its ip6.arpa name, whatever the number and nesting of
   the configured prefixes, to an IPv4 address whose embedding under a
   configured prefix (not excluded there) is that AAAA *)
Theorem synthesised_address_reverses :
  forall cf q m mark work ar cut r o t e,
  Forall (fun p => legal_prefix (cp_net p) /\ bytes_ok (n_ip (cp_net p))) (c_prefixes (compile cf)) ->
  (forall o' ta ip, In (RA o' ta ip) (m_answer ar) -> bytes_ok ip) ->
  x_path (serve cur cf q (Some (m, mark)) work (QResp ar) cut) = PSynth ->
  x_reply (serve cur cf q (Some (m, mark)) work (QResp ar) cut) = Some r ->
  In (RAAAA o t e) (r_answer r) ->
  exists w, ptr_target cur (compile cf) (lower (arpa_name e)) = Some w
    /\ exists p, In p (c_prefixes (compile cf)) /\ e = embed (cp_net p) w /\ length w = 4%nat
                 /\ should_exclude_a (compile cf) w p = false.
Proof. exact synthesised_address_reverses_lem. Qed.
Print Assumptions synthesised_address_reverses.

(* "only for non-excluded zones", whatever the spelling: an exclude_zones entry
   z counts in any letter case, with blanks around it, with or without the
   final dot ([fq (trim_space (lower z))] is what compileConfig stores), and a
   query name in any letter case that is the zone or lies below it is neither
   synthesised for nor looked up *)
Theorem no_synthesis_in_excluded_zone :
  forall cf q down work al cut z,
  In z (cf_zones cf) -> trim_space (lower z) <> [] ->
  lower (q_name q) = fq (trim_space (lower z))
  \/ has_suffix (lower (q_name q)) (46 :: fq (trim_space (lower z))) = true ->
  x_path (serve cur cf q down work al cut) <> PSynth
  /\ (q_type q = type_aaaa -> x_aq (serve cur cf q down work al cut) = false).
Proof. exact excluded_zone_no_synthesis. Qed.
Print Assumptions no_synthesis_in_excluded_zone.
