(* C20 — ip6.arpa names: parseIP6ArpaName inverts the RFC 3596 name of an
   address; in-addr.arpa names read back. *)
From Coq Require Import String Ascii.
From Sdns Require Import Common.Base Gen.C20 C20.Model C20.Spec C20.Proofs_gen C20.Proofs_embed.
Open Scope N_scope.

Lemma list_eqb_refl l : list_eqb l l = true.
Proof. induction l; cbn; [reflexivity|]. rewrite N.eqb_refl. exact IHl. Qed.
Lemma list_eqb_eq a b : list_eqb a b = true -> a = b.
Proof.
  revert b. induction a as [|x a IH]; destruct b as [|y b]; cbn; try discriminate; auto.
  intros H. apply andb_prop in H as [A B]. apply N.eqb_eq in A. subst. f_equal. auto.
Qed.

Lemma has_suffix_app x s : has_suffix (x ++ s) s = true.
Proof.
  unfold has_suffix. rewrite app_length.
  replace (length x + length s - length s)%nat with (length x) by lia.
  rewrite skipn_app, skipn_all, Nat.sub_diag. cbn [skipn app].
  rewrite list_eqb_refl. replace (length s <=? length x + length s)%nat with true; [reflexivity|].
  symmetry. apply Nat.leb_le. lia.
Qed.
Lemma trim_suffix_app x s : trim_suffix (x ++ s) s = x.
Proof.
  unfold trim_suffix. rewrite has_suffix_app, app_length.
  replace (length x + length s - length s)%nat with (length x) by lia.
  rewrite firstn_app, firstn_all, Nat.sub_diag. cbn [firstn]. apply app_nil_r.
Qed.

(* characters that are lower-case hex digits as far as the parser is concerned *)
Definition hexc (c : N) : Prop := lower_b c = c /\ (c =? 46) = false /\ snd (go_hexNibble c) = true.
Definition dotted (cs : list N) : list N := flat_map (fun c => [c; 46]) cs.

Lemma hexc_hexchar n : n < 16 -> hexc (hexchar n).
Proof.
  intros H. unfold hexc. rewrite gen_hexNibble_hexchar by exact H. cbn [snd].
  unfold hexchar, lower_b. destruct (n <? 10) eqn:E.
  - apply N.ltb_lt in E. repeat split.
    + replace (65 <=? 48 + n) with false; [reflexivity|]. symmetry. apply N.leb_gt. lia.
    + apply N.eqb_neq. lia.
  - apply N.ltb_ge in E. repeat split.
    + replace (87 + n <=? 90) with false; [rewrite andb_false_r; reflexivity|]. symmetry. apply N.leb_gt. lia.
    + apply N.eqb_neq. lia.
Qed.

Lemma lower_dotted cs t : Forall hexc cs -> lower (dotted cs ++ t) = dotted cs ++ lower t.
Proof.
  induction 1 as [|c cs (L & _ & _) _ IH]; [reflexivity|].
  cbn [dotted flat_map app lower map] in *. rewrite L. change (lower_b 46) with 46. f_equal. f_equal. exact IH.
Qed.

Lemma split_dotted cs c : Forall hexc cs -> hexc c ->
  split_on 46 (dotted cs ++ [c]) = map (fun x => [x]) (cs ++ [c]).
Proof.
  intros H (_ & D & _). induction H as [|x cs (_ & Dx & _) _ IH].
  - cbn. rewrite D. reflexivity.
  - change (dotted (x :: cs) ++ [c]) with (x :: 46 :: dotted cs ++ [c]).
    change (split_on 46 (x :: 46 :: dotted cs ++ [c]))
      with (if x =? 46 then [] :: split_on 46 (46 :: dotted cs ++ [c])
            else match split_on 46 (46 :: dotted cs ++ [c]) with [] => [[x]] | h :: t => (x :: h) :: t end).
    rewrite Dx. change (split_on 46 (46 :: dotted cs ++ [c])) with ([] :: split_on 46 (dotted cs ++ [c])).
    rewrite IH. reflexivity.
Qed.

Lemma nibbles_singletons cs : Forall hexc cs ->
  nibbles (map (fun x => [x]) cs) = Some (map (fun c => fst (go_hexNibble c)) cs).
Proof.
  induction 1 as [|c cs (_ & _ & S) _ IH]; [reflexivity|].
  cbn [map nibbles]. destruct (go_hexNibble c) as [v ok] eqn:E. cbn [snd fst] in *. subst ok.
  rewrite IH. reflexivity.
Qed.

(* the parser on a name made of 32 dotted hex digits + ip6.arpa. *)
Lemma parse_dotted cs c :
  Forall hexc cs -> hexc c -> length cs = 31%nat ->
  parse_ip6_arpa (dotted (cs ++ [c]) ++ bs "ip6.arpa.") =
  Some (pair_up (rev (map (fun x => fst (go_hexNibble x)) (cs ++ [c])))).
Proof.
  intros Hcs Hc L. unfold parse_ip6_arpa.
  assert (Forall hexc (cs ++ [c])) as Hall by (apply Forall_app; split; [exact Hcs | constructor; [exact Hc | constructor]]).
  rewrite lower_dotted by exact Hall.
  change (lower (bs "ip6.arpa.")) with (bs "ip6.arpa" ++ [46]).
  rewrite app_assoc, trim_suffix_app.
  assert (dotted (cs ++ [c]) ++ bs "ip6.arpa" = (dotted cs ++ [c]) ++ sfx_ip6_arpa) as ->.
  { unfold dotted. rewrite flat_map_app. cbn [flat_map app]. rewrite <- !app_assoc. reflexivity. }
  rewrite has_suffix_app, trim_suffix_app. cbn [negb].
  rewrite split_dotted by assumption.
  rewrite map_length, app_length, L. cbn [length Nat.add Nat.eqb negb].
  rewrite nibbles_singletons by exact Hall. reflexivity.
Qed.

(* nibble arithmetic *)
Lemma byte_recombine b : b < 256 -> N.lor (wrap8 (N.shiftl (b / 16) 4)) (b mod 16) = b.
Proof.
  intros H.
  assert (forallb (fun k => N.lor (wrap8 (N.shiftl (k / 16) 4)) (k mod 16) =? k) (map N.of_nat (seq 0 256)) = true) as F
    by (vm_compute; reflexivity).
  rewrite forallb_forall in F. apply N.eqb_eq. apply F.
  apply in_map_iff. exists (N.to_nat b). split; [apply N2Nat.id|]. apply in_seq. lia.
Qed.

Definition nibchars (l : list N) : list N := flat_map (fun b => [hexchar (b mod 16); hexchar (b / 16)]) l.
Lemma arpa_name_dotted a : arpa_name a = dotted (nibchars (rev a)) ++ bs "ip6.arpa.".
Proof.
  unfold arpa_name. f_equal. induction (rev a) as [|b l IH]; [reflexivity|].
  change (nibchars (b :: l)) with (hexchar (b mod 16) :: hexchar (b / 16) :: nibchars l).
  change (dotted (hexchar (b mod 16) :: hexchar (b / 16) :: nibchars l))
    with (hexchar (b mod 16) :: 46 :: hexchar (b / 16) :: 46 :: dotted (nibchars l)).
  cbn [flat_map byte_nibbles_rev app]. rewrite IH. reflexivity.
Qed.
Lemma nibchars_hexc l : bytes_ok l -> Forall hexc (nibchars l).
Proof.
  induction 1 as [|b l Hb _ IH]; [constructor|].
  change (nibchars (b :: l)) with (hexchar (b mod 16) :: hexchar (b / 16) :: nibchars l).
  constructor; [|constructor; [|exact IH]]; apply hexc_hexchar.
  - apply N.mod_lt. discriminate.
  - apply N.div_lt_upper_bound; [discriminate | exact Hb].
Qed.
Lemma nibchars_length l : length (nibchars l) = (2 * length l)%nat.
Proof.
  induction l as [|b l IH]; [reflexivity|].
  change (nibchars (b :: l)) with (hexchar (b mod 16) :: hexchar (b / 16) :: nibchars l).
  cbn [length]. rewrite IH. lia.
Qed.
Lemma nibvals l : bytes_ok l ->
  map (fun x => fst (go_hexNibble x)) (nibchars l) = flat_map (fun b => [b mod 16; b / 16]) l.
Proof.
  induction 1 as [|b l Hb _ IH]; [reflexivity|].
  change (nibchars (b :: l)) with (hexchar (b mod 16) :: hexchar (b / 16) :: nibchars l).
  cbn [map flat_map app]. rewrite IH.
  rewrite !gen_hexNibble_hexchar; [reflexivity | |].
  - apply N.div_lt_upper_bound; [discriminate | exact Hb].
  - apply N.mod_lt. discriminate.
Qed.
Lemma rev_nibvals l : rev (flat_map (fun b => [b mod 16; b / 16]) l) = flat_map (fun b => [b / 16; b mod 16]) (rev l).
Proof.
  induction l as [|b l IH]; [reflexivity|].
  change (flat_map (fun b0 => [b0 mod 16; b0 / 16]) (b :: l))
    with ([b mod 16; b / 16] ++ flat_map (fun b0 => [b0 mod 16; b0 / 16]) l).
  rewrite rev_app_distr, IH. change (rev (b :: l)) with (rev l ++ [b]). rewrite flat_map_app. reflexivity.
Qed.
Lemma pair_up_nibbles l : bytes_ok l -> pair_up (flat_map (fun b => [b / 16; b mod 16]) l) = l.
Proof.
  induction 1 as [|b l Hb _ IH]; [reflexivity|].
  cbn [flat_map app pair_up]. rewrite IH, byte_recombine by exact Hb. reflexivity.
Qed.
Lemma bytes_ok_rev l : bytes_ok l -> bytes_ok (rev l).
Proof. unfold bytes_ok. intros H. apply Forall_rev. exact H. Qed.

Lemma parse_arpa_name a : length a = 16%nat -> bytes_ok a -> parse_ip6_arpa (arpa_name a) = Some a.
Proof.
  intros L B. rewrite arpa_name_dotted.
  pose proof (nibchars_hexc _ (bytes_ok_rev _ B)) as H.
  pose proof (nibchars_length (rev a)) as Ln. rewrite rev_length, L in Ln.
  destruct (exists_last (l := nibchars (rev a))) as (cs & c & E).
  { intros E. rewrite E in Ln. discriminate. }
  rewrite E in *. apply Forall_app in H as [Hcs Hc]. inversion Hc as [|? ? Hc' _]; subst.
  rewrite app_length in Ln. cbn in Ln.
  rewrite parse_dotted; [| exact Hcs | exact Hc' | lia ].
  rewrite <- E, nibvals by (apply bytes_ok_rev; exact B).
  rewrite rev_nibvals, rev_involutive, pair_up_nibbles by exact B. reflexivity.
Qed.

(* the ip6.arpa name of the embedded address leads back to the IPv4 address *)
Lemma bytes_ok_embed p v4 : wf_prefix p -> bytes_ok (n_ip p) -> length v4 = 4%nat -> bytes_ok v4 -> bytes_ok (embed p v4).
Proof.
  intros W Bp L4 B4.
  destruct (length4 _ L4) as (v0&v1&v2&v3&->).
  destruct (wf_prefix_shape _ W) as (a0&a1&a2&a3&a4&a5&a6&a7&a9&a10&a11&[->|[->|[->|[->|[->| ->]]]]]);
    cbn [n_ip] in Bp; bytes_inv Bp; bytes_inv B4;
    match goal with |- bytes_ok (embed ?q ?w) => let l := eval vm_compute in (embed q w) in change (embed q w) with l end;
    repeat constructor; assumption || lia.
Qed.

Lemma ptr_roundtrip_lem v p v4 :
  wf_prefix p -> bytes_ok (n_ip p) -> length v4 = 4%nat -> bytes_ok v4 ->
  (fx_contains v = true \/ (v = old /\ quirk p v4 = false)) ->
  match parse_ip6_arpa (arpa_name (embed p v4)) with
  | Some addr => extract v p addr
  | None => None
  end = Some v4.
Proof.
  intros W Bp L4 B4 Hv.
  rewrite parse_arpa_name.
  - destruct Hv as [Hv | [-> Hq]]; [apply extract_embed_fixed | apply extract_embed_old]; auto.
  - apply embed_layout; auto.
  - apply bytes_ok_embed; auto.
Qed.

(* in-addr.arpa: what inAddrArpa prints reads back as the same four octets *)
Lemma in_addr_roundtrip v4 : length v4 = 4%nat -> bytes_ok v4 -> spec_parse_in_addr (in_addr_arpa v4) = Some v4.
Proof.
  intros L B. destruct (length4 _ L) as (a&b&c&d&->). bytes_inv B.
  (* each octet independently: dec3 then parse_dec, through split_on *)
  assert (forall x, x < 256 -> parse_dec (dec3 x) = Some x /\ forallb (fun ch => negb (ch =? 46)) (dec3 x) = true /\ dec3 x <> []) as D.
  { intros x Hx.
    assert (forallb (fun k => match parse_dec (dec3 k) with Some k' => k' =? k | None => false end
                              && forallb (fun ch => negb (ch =? 46)) (dec3 k)
                              && negb (length (dec3 k) =? 0)%nat) (map N.of_nat (seq 0 256)) = true) as F by (vm_compute; reflexivity).
    rewrite forallb_forall in F. specialize (F x).
    assert (In x (map N.of_nat (seq 0 256))) as I.
    { apply in_map_iff. exists (N.to_nat x). split; [apply N2Nat.id|]. apply in_seq. lia. }
    specialize (F I). apply andb_prop in F as [F F3]. apply andb_prop in F as [F1 F2].
    destruct (parse_dec (dec3 x)) as [k|]; [|discriminate]. apply N.eqb_eq in F1. subst k.
    repeat split; auto. intros E. rewrite E in F3. discriminate. }
  assert (forall x t, forallb (fun ch => negb (ch =? 46)) x = true -> x <> [] ->
            split_on 46 (x ++ 46 :: t) = x :: split_on 46 t) as S.
  { intros x t. induction x as [|ch x IH]; [congruence|]. intros F _.
    cbn [forallb] in F. apply andb_prop in F as [F1 F2]. apply negb_true_iff in F1.
    cbn [app split_on]. rewrite F1. destruct x as [|ch' x].
    - cbn [app split_on]. rewrite N.eqb_refl. reflexivity.
    - rewrite IH; [reflexivity | exact F2 | discriminate]. }
  unfold in_addr_arpa, spec_parse_in_addr. change (to4 [a; b; c; d]) with (Some [a; b; c; d]).
  cbn [nthb nth].
  destruct (D a) as (Pa & Na & Ea); auto. destruct (D b) as (Pb & Nb & Eb); auto.
  destruct (D c) as (Pc & Nc & Ec); auto. destruct (D d) as (Pd & Nd & Ed); auto.
  cbn [app].
  rewrite (S (dec3 d)), (S (dec3 c)), (S (dec3 b)) by assumption.
  change (bs ".in-addr.arpa.") with (46 :: bs "in-addr.arpa.").
  rewrite (S (dec3 a)) by assumption.
  change (split_on 46 (bs "in-addr.arpa.")) with [bs "in-addr"; bs "arpa"; []].
  change (list_eqb (bs "in-addr") (bs "in-addr") && list_eqb (bs "arpa") (bs "arpa") && list_eqb [] []) with true.
  cbv iota. rewrite Pa, Pb, Pc, Pd.
  cbn [forallb]. repeat match goal with H : ?x < 256 |- context [?x <? 256] => rewrite (proj2 (N.ltb_lt x 256) H) end.
  reflexivity.
Qed.

(* ---------------- handlePTR ---------------- *)
Lemma ptr_find_sound v c addr ps v4 :
  ptr_find v c addr ps = Some v4 ->
  exists p, In p ps /\ extract v (cp_net p) addr = Some v4 /\ should_exclude_a c v4 p = false.
Proof.
  induction ps as [|p ps IH]; cbn [ptr_find]; [discriminate|].
  destruct (negb _); [intros H; destruct (IH H) as (p' & I & E); exists p'; split; [right|]; tauto|].
  destruct (extract v (cp_net p) addr) as [w|] eqn:E; [|intros H; destruct (IH H) as (p' & I & E'); exists p'; split; [right|]; tauto].
  destruct (should_exclude_a c w p) eqn:X; [intros H; destruct (IH H) as (p' & I & E'); exists p'; split; [right|]; tauto|].
  intros H. injection H as <-. exists p. split; [left; reflexivity|]. auto.
Qed.

Lemma extract_contains v p addr w : extract v p addr = Some w ->
  (if fx_contains v then net_contains16 else net_contains) p addr = true.
Proof. unfold extract. destruct ((if fx_contains v then net_contains16 else net_contains) p addr); [reflexivity | discriminate]. Qed.

Lemma ptr_find_complete v c addr ps p v4 :
  In p ps -> extract v (cp_net p) addr = Some v4 -> should_exclude_a c v4 p = false ->
  exists w, ptr_find v c addr ps = Some w.
Proof.
  induction ps as [|p' ps IH]; [intros []|]. intros [->|I] E X; cbn [ptr_find].
  - rewrite (extract_contains _ _ _ _ E). cbn [negb]. rewrite E, X. eauto.
  - destruct (negb _); [apply IH; auto|].
    destruct (extract v (cp_net p') addr) as [w|]; [|apply IH; auto].
    destruct (should_exclude_a c w p'); [apply IH; auto | eauto].
Qed.

Lemma lower_arpa_name a : bytes_ok a -> lower (arpa_name a) = arpa_name a.
Proof.
  intros B. rewrite arpa_name_dotted, lower_dotted; [reflexivity|].
  apply nibchars_hexc, bytes_ok_rev, B.
Qed.

(* the PTR query for the ip6.arpa name of an embedded address is translated
   to the in-addr.arpa name of that very IPv4 address (one configured prefix) *)
Lemma ptr_target_roundtrip v c cp v4 :
  c_prefixes c = [cp] -> wf_prefix (cp_net cp) -> bytes_ok (n_ip (cp_net cp)) ->
  length v4 = 4%nat -> bytes_ok v4 -> should_exclude_a c v4 cp = false ->
  (fx_contains v = true \/ (v = old /\ quirk (cp_net cp) v4 = false)) ->
  ptr_target v c (lower (arpa_name (embed (cp_net cp) v4))) = Some v4.
Proof.
  intros Hc W Bp L4 B4 X Hv.
  assert (bytes_ok (embed (cp_net cp) v4)) as Be by (apply bytes_ok_embed; auto).
  unfold ptr_target. rewrite lower_arpa_name by exact Be.
  rewrite parse_arpa_name; [| apply embed_layout; auto | exact Be ].
  assert (extract v (cp_net cp) (embed (cp_net cp) v4) = Some v4) as E.
  { destruct Hv as [Hv | [-> Hq]]; [apply extract_embed_fixed | apply extract_embed_old]; auto. }
  rewrite Hc. cbn [ptr_find]. rewrite (extract_contains _ _ _ _ E). cbn [negb]. rewrite E, X. reflexivity.
Qed.

(* ---------------- the tree as it is ---------------- *)
Lemma ptr_roundtrip_now p v4 :
  wf_prefix p -> bytes_ok (n_ip p) -> length v4 = 4%nat -> bytes_ok v4 ->
  match parse_ip6_arpa (arpa_name (embed p v4)) with
  | Some addr => extract cur p addr
  | None => None
  end = Some v4.
Proof. intros. apply ptr_roundtrip_lem; auto. Qed.

Lemma ptr_target_roundtrip_now c cp v4 :
  c_prefixes c = [cp] -> wf_prefix (cp_net cp) -> bytes_ok (n_ip (cp_net cp)) ->
  length v4 = 4%nat -> bytes_ok v4 -> should_exclude_a c v4 cp = false ->
  ptr_target cur c (lower (arpa_name (embed (cp_net cp) v4))) = Some v4.
Proof. intros. apply ptr_target_roundtrip; auto. Qed.

(* what handlePTR translates is an embedding under a configured prefix *)
Lemma ptr_find_embedding c addr ps v4 :
  Forall (fun p => wf_prefix (cp_net p) /\ bytes_ok (n_ip (cp_net p))) ps ->
  length addr = 16%nat -> bytes_ok addr ->
  ptr_find cur c addr ps = Some v4 ->
  exists p, In p ps /\ addr = embed (cp_net p) v4 /\ length v4 = 4%nat /\ should_exclude_a c v4 p = false.
Proof.
  intros F L B H. apply ptr_find_sound in H as (p & I & E & X).
  rewrite Forall_forall in F. destruct (F p I) as (W & Bp).
  apply extract_sound_now in E; auto. destruct E as (E & L4). eauto.
Qed.

(* ---------------- the same for legal (not necessarily masked) prefixes ---------------- *)
Lemma bytes_ok_embed_legal p v4 :
  legal_prefix p -> bytes_ok (n_ip p) -> length v4 = 4%nat -> bytes_ok v4 -> bytes_ok (embed p v4).
Proof.
  intros L Bp L4 B4. rewrite <- mask_prefix_embed by exact L.
  apply bytes_ok_embed; auto; [apply mask_prefix_wf | apply mask_prefix_bytes_ok]; auto.
Qed.
Lemma ptr_roundtrip_legal p v4 :
  legal_prefix p -> bytes_ok (n_ip p) -> length v4 = 4%nat -> bytes_ok v4 ->
  match parse_ip6_arpa (arpa_name (embed p v4)) with
  | Some addr => extract cur p addr
  | None => None
  end = Some v4.
Proof.
  intros L Bp L4 B4. rewrite parse_arpa_name.
  - apply extract_embed_legal; auto.
  - apply embed_layout_legal; auto.
  - apply bytes_ok_embed_legal; auto.
Qed.
Lemma ptr_target_roundtrip_legal c cp v4 :
  c_prefixes c = [cp] -> legal_prefix (cp_net cp) -> bytes_ok (n_ip (cp_net cp)) ->
  length v4 = 4%nat -> bytes_ok v4 -> should_exclude_a c v4 cp = false ->
  ptr_target cur c (lower (arpa_name (embed (cp_net cp) v4))) = Some v4.
Proof.
  intros Hc L Bp L4 B4 X.
  assert (bytes_ok (embed (cp_net cp) v4)) as Be by (apply bytes_ok_embed_legal; auto).
  unfold ptr_target. rewrite lower_arpa_name by exact Be.
  rewrite parse_arpa_name; [| apply embed_layout_legal; auto | exact Be ].
  assert (extract cur (cp_net cp) (embed (cp_net cp) v4) = Some v4) as E by (apply extract_embed_legal; auto).
  rewrite Hc. cbn [ptr_find]. rewrite (extract_contains _ _ _ _ E). cbn [negb]. rewrite E, X. reflexivity.
Qed.
Lemma ptr_find_embedding_legal c addr ps v4 :
  Forall (fun p => legal_prefix (cp_net p) /\ bytes_ok (n_ip (cp_net p))) ps ->
  length addr = 16%nat -> bytes_ok addr ->
  ptr_find cur c addr ps = Some v4 ->
  exists p, In p ps /\ addr = embed (cp_net p) v4 /\ length v4 = 4%nat /\ should_exclude_a c v4 p = false.
Proof.
  intros F L B H. apply ptr_find_sound in H as (p & I & E & X).
  rewrite Forall_forall in F. destruct (F p I) as (W & Bp).
  apply extract_sound_legal in E; auto. destruct E as (E & L4). eauto.
Qed.

(* any number of configured prefixes: the name of an embedding under one of
   them is translated (to the address extracted under the first prefix that
   fits, which ptr_find_embedding_legal shows is again an embedding of it) *)
Lemma ptr_target_translates c cp v4 :
  In cp (c_prefixes c) -> legal_prefix (cp_net cp) -> bytes_ok (n_ip (cp_net cp)) ->
  length v4 = 4%nat -> bytes_ok v4 -> should_exclude_a c v4 cp = false ->
  exists w, ptr_target cur c (lower (arpa_name (embed (cp_net cp) v4))) = Some w.
Proof.
  intros Hin L Bp L4 B4 X.
  assert (bytes_ok (embed (cp_net cp) v4)) as Be by (apply bytes_ok_embed_legal; auto).
  unfold ptr_target. rewrite lower_arpa_name by exact Be.
  rewrite parse_arpa_name; [| apply embed_layout_legal; auto | exact Be ].
  eapply ptr_find_complete; [exact Hin | apply extract_embed_legal; auto | exact X].
Qed.
