(* C20 — the record walks of dns64.go as the translator reads them (session 5:
   dns.RR as a sum type, Gen/C20.v regenerated from /repo on every run):
   negativeAAAATTL, hasAAAAInList and splitChainAndA are the functions the
   model's negative TTL (ttl_ceiling), "nothing could be synthesised" test and
   chain / address split (filter is_chain, filter is_a) were written after.
   A rewrite of a loop that keeps its behaviour but changes its form breaks
   the lemma about the generated Fixpoint (known, see NOTES.md). *)
From Coq Require Import String Ascii.
From Sdns Require Import Common.Base Common.GoList Gen.C20 C20.Model C20.Proofs_loops.
Open Scope N_scope.

(* ---------------- model records as miekg records ---------------- *)
Definition hdr (o : list N) (ty t : N) : T_RR_Header := mk_T_RR_Header o ty 1 t 0.
(* an authority record as the model keeps it (Some (TTL, MINIMUM) for an SOA) *)
Definition soa_of (x : I_RR) : option (N * N) :=
  match x with
  | I_RR_of_SOA v => Some (T_RR_Header_Ttl (T_SOA_Hdr v), T_SOA_Minttl v)
  | _ => None
  end.
(* an answer record of the model as the dns.RR it stands for *)
Definition rr_as_I (r : rr) : I_RR :=
  match r with
  | RA o t ip => I_RR_of_A (mk_T_A (hdr o 1 t) ip)
  | RAAAA o t ip => I_RR_of_AAAA (mk_T_AAAA (hdr o 28 t) ip)
  | RCNAME o t x => I_RR_of_CNAME (mk_T_CNAME (hdr o 5 t) x)
  | RDNAME o t x => I_RR_of_DNAME (mk_T_DNAME (hdr o 39 t) x)
  | RPTR o t x => I_RR_other 12 (hdr o 12 t)
  | ROther o t ty => I_RR_other ty (hdr o ty t)
  end.

(* ---------------- negativeAAAATTL ---------------- *)
Definition neg_ttl_found (ns : list (option (N * N))) : N * bool :=
  match first_soa ns with
  | Some (ttl, mn) => (if mn <? ttl then mn else ttl, true)
  | None => (0, false)
  end.

Lemma gen_negativeAAAATTL_loop m : forall rest pre fuel,
  (length rest < fuel)%nat ->
  go_negativeAAAATTL_loop1 (pre ++ rest) fuel (Z.of_nat (length pre)) m =
  (match first_soa (map soa_of rest) with
   | Some (ttl, mn) => GoRet (if mn <? ttl then mn else ttl, true)
   | None => GoNext
   end, m).
Proof.
  induction rest as [|x r IH]; intros pre fuel Hf; (destruct fuel as [|fuel]; [cbn [length] in Hf; lia|]).
  - cbn [go_negativeAAAATTL_loop1 map first_soa]. rewrite app_nil_r. unfold go_len.
    rewrite Z.ltb_irrefl. reflexivity.
  - cbn [go_negativeAAAATTL_loop1]. unfold go_len. rewrite app_length. cbn [length].
    destruct (Z.ltb_spec (Z.of_nat (length pre)) (Z.of_nat (length pre + S (length r)))) as [_|]; [|lia].
    rewrite go_idx_app_mid.
    assert (Z.add (Z.of_nat (length pre)) 1 = Z.of_nat (length (pre ++ [x]))) as EI by (rewrite app_length; cbn [length]; lia).
    assert (pre ++ x :: r = (pre ++ [x]) ++ r) as EL by (rewrite <- app_assoc; reflexivity).
    cbn [length] in Hf.
    destruct x as [|s|a|a6|c|d|tag h]; cbn [map soa_of first_soa];
      try (rewrite EI, EL; apply IH; lia).
    reflexivity.
Qed.

Lemma gen_negativeAAAATTL m : go_negativeAAAATTL m = neg_ttl_found (map soa_of (T_Msg_Ns m)).
Proof.
  unfold go_negativeAAAATTL, neg_ttl_found. cbv zeta.
  pose proof (gen_negativeAAAATTL_loop m (T_Msg_Ns m) [] (S (length (T_Msg_Ns m))) ltac:(lia)) as H.
  cbn [app length Z.of_nat] in H. rewrite H.
  destruct (first_soa (map soa_of (T_Msg_Ns m))) as [[ttl mn]|]; reflexivity.
Qed.

(* the model's ceiling of the synthesised TTL is what the code computes from
   negativeAAAATTL: the found value, else the 600 s constant; and the found
   value is RFC 2308's min(SOA TTL, MINIMUM) of the first SOA *)
Lemma ttl_ceiling_by_gen m :
  ttl_ceiling cur (map soa_of (T_Msg_Ns m))
  = (let '(t, ok) := go_negativeAAAATTL m in if ok then t else no_soa_ttl_ceiling)
  /\ (forall t, go_negativeAAAATTL m = (t, true) ->
      exists ttl mn, first_soa (map soa_of (T_Msg_Ns m)) = Some (ttl, mn) /\ t = N.min ttl mn)
  /\ (snd (go_negativeAAAATTL m) = false <-> first_soa (map soa_of (T_Msg_Ns m)) = None).
Proof.
  rewrite gen_negativeAAAATTL. unfold ttl_ceiling, neg_ttl_found. cbn [fx_negttl cur].
  destruct (first_soa (map soa_of (T_Msg_Ns m))) as [[ttl mn]|].
  - split; [reflexivity|]. split.
    + intros t E. injection E as <-. exists ttl, mn. split; [reflexivity|].
      destruct (N.ltb_spec mn ttl); lia.
    + cbn [snd]. split; discriminate.
  - split; [reflexivity|]. split; [discriminate|]. cbn [snd]. tauto.
Qed.

(* ---------------- hasAAAAInList ---------------- *)
Definition is_aaaa_I (x : I_RR) : bool := T_RR_Header_Rrtype (I_RR_Header x) =? 28.

Lemma gen_hasAAAAInList_loop : forall rest pre fuel v,
  (length rest < fuel)%nat ->
  go_hasAAAAInList_loop1 (pre ++ rest) fuel (Z.of_nat (length pre)) v =
  (if existsb is_aaaa_I rest then GoRet true else GoNext, v).
Proof.
  induction rest as [|x r IH]; intros pre fuel v Hf; (destruct fuel as [|fuel]; [cbn [length] in Hf; lia|]).
  - cbn [go_hasAAAAInList_loop1 existsb]. rewrite app_nil_r. unfold go_len. rewrite Z.ltb_irrefl. reflexivity.
  - cbn [go_hasAAAAInList_loop1]. unfold go_len. rewrite app_length. cbn [length].
    destruct (Z.ltb_spec (Z.of_nat (length pre)) (Z.of_nat (length pre + S (length r)))) as [_|]; [|lia].
    rewrite go_idx_app_mid. cbn [existsb]. unfold is_aaaa_I at 1.
    destruct (T_RR_Header_Rrtype (I_RR_Header x) =? 28); cbn [orb]; [reflexivity|].
    assert (Z.add (Z.of_nat (length pre)) 1 = Z.of_nat (length (pre ++ [x]))) as -> by (rewrite app_length; cbn [length]; lia).
    assert (pre ++ x :: r = (pre ++ [x]) ++ r) as -> by (rewrite <- app_assoc; reflexivity).
    cbn [length] in Hf. apply IH. lia.
Qed.

Lemma gen_hasAAAAInList l : go_hasAAAAInList l = existsb is_aaaa_I l.
Proof.
  unfold go_hasAAAAInList. cbv zeta.
  pose proof (gen_hasAAAAInList_loop l [] (S (length l)) l ltac:(lia)) as H. cbn [app length Z.of_nat] in H. rewrite H.
  destruct (existsb is_aaaa_I l); reflexivity.
Qed.

Lemma is_aaaa_as_I r : is_aaaa_I (rr_as_I r) = is_aaaa r
  \/ (exists o t, r = ROther o t 28).
Proof. destruct r as [| | | | |o t ty]; try (left; reflexivity). unfold is_aaaa_I. cbn. destruct (ty =? 28) eqn:E; [|left; reflexivity]. apply N.eqb_eq in E. subst. right. eauto. Qed.

(* the answer section synthesise has built — the capped alias chain, then the
   synthesised records — has an AAAA exactly when something was synthesised:
   the model's emptiness test is the code's hasAAAAInList *)
Lemma synth_answers_have_aaaa c ttl chain addrs :
  Forall (fun x => is_chain x = true) chain ->
  go_hasAAAAInList (map rr_as_I (map (cap_ttl ttl) chain ++ synth_rrs c ttl addrs))
  = negb (length (synth_rrs c ttl addrs) =? 0)%nat.
Proof.
  intros Hc. rewrite gen_hasAAAAInList, map_app, existsb_app.
  assert (existsb is_aaaa_I (map rr_as_I (map (cap_ttl ttl) chain)) = false) as ->.
  { induction Hc as [|x l Hx _ IH]; [reflexivity|]. cbn [map existsb]. rewrite IH, orb_false_r.
    destruct x; try discriminate; reflexivity. }
  cbn [orb].
  assert (forall l, Forall (fun r => is_aaaa r = true) l -> existsb is_aaaa_I (map rr_as_I l) = negb (length l =? 0)%nat) as K.
  { intros l F. destruct F as [|x l Hx F]; [reflexivity|]. cbn [map existsb length Nat.eqb negb].
    destruct x; try discriminate. reflexivity. }
  apply K. unfold synth_rrs. apply Forall_forall. intros r Hr.
  apply in_flat_map in Hr as (p & _ & Hr). apply in_flat_map in Hr as (a & _ & Hr).
  unfold synth_one in Hr. destruct a as [o t ip| | | | |]; try destruct Hr.
  destruct (to4 ip); [|destruct Hr]. destruct (should_exclude_a c l p); [destruct Hr|]. destruct Hr as [<-|[]]. reflexivity.
Qed.

(* ---------------- splitChainAndA ---------------- *)
Definition chain_I (x : I_RR) : bool := match x with I_RR_of_CNAME _ | I_RR_of_DNAME _ => true | _ => false end.
Definition a_I (x : I_RR) : list T_A := match x with I_RR_of_A v => [v] | _ => [] end.

Lemma gen_splitChainAndA_loop resp : forall rest pre fuel ch ad,
  (length rest < fuel)%nat ->
  go_splitChainAndA_loop1 (pre ++ rest) fuel (Z.of_nat (length pre)) resp ch ad =
  (GoNext, (resp, ch ++ filter chain_I rest, ad ++ flat_map a_I rest)).
Proof.
  induction rest as [|x r IH]; intros pre fuel ch ad Hf; (destruct fuel as [|fuel]; [cbn [length] in Hf; lia|]).
  - cbn [go_splitChainAndA_loop1 filter flat_map]. rewrite !app_nil_r. unfold go_len. rewrite Z.ltb_irrefl. reflexivity.
  - cbn [go_splitChainAndA_loop1]. unfold go_len. rewrite app_length. cbn [length].
    destruct (Z.ltb_spec (Z.of_nat (length pre)) (Z.of_nat (length pre + S (length r)))) as [_|]; [|lia].
    rewrite go_idx_app_mid.
    assert (Z.add (Z.of_nat (length pre)) 1 = Z.of_nat (length (pre ++ [x]))) as EI by (rewrite app_length; cbn [length]; lia).
    assert (pre ++ x :: r = (pre ++ [x]) ++ r) as EL by (rewrite <- app_assoc; reflexivity).
    cbn [length] in Hf.
    destruct x as [|s|a|a6|c|d|tag h]; cbn [filter chain_I flat_map a_I app]; rewrite EI, EL, IH by lia;
      rewrite <- ?app_assoc; reflexivity.
Qed.

Lemma gen_splitChainAndA resp :
  go_splitChainAndA resp = (filter chain_I (T_Msg_Answer resp), flat_map a_I (T_Msg_Answer resp)).
Proof.
  unfold go_splitChainAndA. cbv zeta.
  pose proof (gen_splitChainAndA_loop resp (T_Msg_Answer resp) [] (S (length (T_Msg_Answer resp)))
                (go_make I_RR_nil 0%Z) (go_make (mk_T_A (mk_T_RR_Header [] 0 0 0 0) []) 0%Z) ltac:(lia)) as H.
  cbn [app length Z.of_nat] in H. rewrite H. reflexivity.
Qed.

(* on the records of the model: the chain is filter is_chain, the addresses
   are filter is_a — what Model.synthesise takes from the A response *)
Lemma split_by_gen resp (ans : list rr) :
  T_Msg_Answer resp = map rr_as_I ans ->
  go_splitChainAndA resp = (map rr_as_I (filter is_chain ans), map rr_as_A (filter is_a ans)).
Proof.
  intros E. rewrite gen_splitChainAndA, E. clear E. f_equal.
  - induction ans as [|x l IH]; [reflexivity|]. cbn [map filter]. destruct x; cbn [rr_as_I chain_I is_chain map]; rewrite IH; reflexivity.
  - induction ans as [|x l IH]; [reflexivity|]. cbn [map flat_map filter]. destruct x; cbn [rr_as_I a_I is_a map app]; rewrite IH; reflexivity.
Qed.

(* non-vacuity: an NS record in front of the SOA is skipped, the first of two
   SOAs counts, MINIMUM 0 and TTL 0 are real values, no SOA = (0, false) *)
Definition ex_soa (t mn : N) : I_RR := I_RR_of_SOA (mk_T_SOA (hdr (bs "ex.t.") 6 t) (bs "ns.") (bs "hm.") 1 2 3 4 mn).
Definition ex_msg_ns (ns : list I_RR) : T_Msg :=
  mk_T_Msg (mk_T_MsgHdr 0 true 0%Z false false true true false false false 0%Z) false [] [] ns [].
Example ex_negative_ttl :
  go_negativeAAAATTL (ex_msg_ns [I_RR_other 2 (hdr (bs "ex.t.") 2 86400); ex_soa 3600 60; ex_soa 5 5]) = (60, true)
  /\ go_negativeAAAATTL (ex_msg_ns [ex_soa 30 3600]) = (30, true)
  /\ go_negativeAAAATTL (ex_msg_ns [ex_soa 3600 0]) = (0, true)
  /\ go_negativeAAAATTL (ex_msg_ns [ex_soa 0 60]) = (0, true)
  /\ go_negativeAAAATTL (ex_msg_ns [I_RR_other 2 (hdr (bs "ex.t.") 2 86400)]) = (0, false)
  /\ ttl_ceiling cur (map soa_of [I_RR_other 2 (hdr (bs "ex.t.") 2 86400)]) = 600
  /\ go_splitChainAndA (mk_T_Msg (mk_T_MsgHdr 0 true 0%Z false false true true false false false 0%Z) false []
       (map rr_as_I [RCNAME (bs "h.t.") 60 (bs "c.u."); RAAAA (bs "c.u.") 5 (zeros 16); RA (bs "c.u.") 30 [192;0;9;1]; ROther (bs "c.u.") 9 46]) [] [])
     = ([rr_as_I (RCNAME (bs "h.t.") 60 (bs "c.u."))], [rr_as_A (RA (bs "c.u.") 30 [192;0;9;1])])
  /\ go_hasAAAAInList (map rr_as_I [RCNAME (bs "h.t.") 60 (bs "c.u."); RAAAA (bs "c.u.") 5 (zeros 16)]) = true
  /\ go_hasAAAAInList (map rr_as_I [RCNAME (bs "h.t.") 60 (bs "c.u.")]) = false.
Proof. vm_compute. repeat split; reflexivity. Qed.
