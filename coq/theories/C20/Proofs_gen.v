(* C20 — what the translator read from /repo, pinned to the values the
   hand-written parts of the model and the specification assume.  When the
   Go source changes one of these, the corresponding lemma stops checking. *)
From Coq Require Import String Ascii.
From Sdns Require Import Common.Base Gen.C20 C20.Model C20.Spec.
Open Scope N_scope.

Lemma gen_valid_prefix_bits : valid_prefix_bits = [32; 40; 48; 56; 64; 96].
Proof. reflexivity. Qed.

(* the two `switch bits` statements have exactly one arm per legal length *)
Lemma gen_embed_switch : map fst embed_switch = [32; 40; 48; 56; 64; 96]%Z.
Proof. reflexivity. Qed.
Lemma gen_extract_switch : map fst extract_switch = [32; 40; 48; 56; 64; 96]%Z.
Proof. reflexivity. Qed.

Lemma gen_no_soa_ttl_ceiling : no_soa_ttl_ceiling = 600.
Proof. reflexivity. Qed.
Lemma gen_ptr_synth_ttl : ptr_synth_ttl = 600.
Proof. reflexivity. Qed.

(* the two IPv6 literals, parsed by Model.parse_cidr6 *)
Lemma gen_wkp_net : wkp_net = mk_net [0; 100; 255; 155; 0; 0; 0; 0; 0; 0; 0; 0; 0; 0; 0; 0] 96 16.
Proof. reflexivity. Qed.
Lemma gen_default_exclude_aaaa :
  default_exclude_aaaa = [mk_net [0; 0; 0; 0; 0; 0; 0; 0; 0; 0; 255; 255; 0; 0; 0; 0] 96 16].
Proof. reflexivity. Qed.

(* all sixteen literals of defaultExcludeAv4 parse, to these networks *)
Lemma gen_default_exclude_a :
  default_exclude_a =
  [ mk_net [0;0;0;0] 8 4; mk_net [10;0;0;0] 8 4; mk_net [100;64;0;0] 10 4; mk_net [127;0;0;0] 8 4;
    mk_net [169;254;0;0] 16 4; mk_net [172;16;0;0] 12 4; mk_net [192;0;0;0] 24 4; mk_net [192;0;2;0] 24 4;
    mk_net [192;88;99;0] 24 4; mk_net [192;168;0;0] 16 4; mk_net [198;18;0;0] 15 4; mk_net [198;51;100;0] 24 4;
    mk_net [203;0;113;0] 24 4; mk_net [224;0;0;0] 4 4; mk_net [240;0;0;0] 4 4; mk_net [255;255;255;255] 32 4 ].
Proof. reflexivity. Qed.
Lemma gen_default_exclude_a_all_parsed : length default_exclude_a = length default_exclude_a_txt.
Proof. reflexivity. Qed.

(* every arm of the switch in isDNSSECFailure returns true, nothing else does,
   and the set of codes is the specification's *)
Lemma gen_dnssec_failure_codes : dnssec_failure_codes = [1; 2; 27; 5; 6; 7; 8; 9; 10; 11; 12].
Proof. reflexivity. Qed.
Lemma gen_dnssec_failure_switch_shape :
  forallb (fun p => Z.eqb (snd p) 1) dnssec_failure_switch = true /\ dnssec_failure_switch_default = (-2)%Z.
Proof. split; reflexivity. Qed.
Lemma gen_ede_cached : ede_cached = 13.
Proof. reflexivity. Qed.
Lemma gen_ede_forged : ede_forged = 4.
Proof. reflexivity. Qed.
Lemma gen_dnssec_failure_codes_spec c :
  existsb (N.eqb c) dnssec_failure_codes = existsb (N.eqb c) spec_dnssec_codes.
Proof.
  rewrite gen_dnssec_failure_codes. unfold spec_dnssec_codes. cbn [existsb].
  repeat match goal with |- context [c =? ?k] => destruct (c =? k) end; reflexivity.
Qed.

(* hexNibble, as translated from the Go source: it accepts exactly 0-9 a-f *)
Definition hex_value (c : N) : option N :=
  if (48 <=? c) && (c <=? 57) then Some (c - 48)
  else if (97 <=? c) && (c <=? 102) then Some (c - 87)
  else None.
Lemma gen_hexNibble c :
  c < 256 ->
  go_hexNibble c = match hex_value c with Some v => (v, true) | None => (0, false) end.
Proof.
  intros Hc. unfold go_hexNibble, hex_value.
  destruct ((48 <=? c) && (c <=? 57)) eqn:E1.
  - f_equal. unfold subw, two8. apply andb_prop in E1 as [A B]. apply N.leb_le in A, B.
    replace (N.modulo 48 256) with 48 by reflexivity.
    replace (c + (256 - 48)) with (c - 48 + 1 * 256) by lia.
    rewrite N.mod_add by discriminate. apply N.mod_small. lia.
  - destruct ((97 <=? c) && (c <=? 102)) eqn:E2; [|reflexivity].
    f_equal. unfold subw, wrap8, two8. apply andb_prop in E2 as [A B]. apply N.leb_le in A, B.
    replace (N.modulo 97 256) with 97 by reflexivity.
    replace (c + (256 - 97)) with (c - 97 + 1 * 256) by lia.
    rewrite N.mod_add by discriminate. rewrite (N.mod_small (c - 97)) by lia.
    rewrite N.mod_small by lia. lia.
Qed.
Lemma gen_hexNibble_hexchar n : n < 16 -> go_hexNibble (hexchar n) = (n, true).
Proof.
  intros H. assert (forallb (fun k => let '(v, ok) := go_hexNibble (hexchar k) in (v =? k) && ok)
                      [0;1;2;3;4;5;6;7;8;9;10;11;12;13;14;15] = true) as F by reflexivity.
  rewrite forallb_forall in F.
  assert (In n [0;1;2;3;4;5;6;7;8;9;10;11;12;13;14;15]) as I.
  { cbn. assert (n = 0 \/ n = 1 \/ n = 2 \/ n = 3 \/ n = 4 \/ n = 5 \/ n = 6 \/ n = 7 \/ n = 8 \/ n = 9 \/ n = 10 \/
                  n = 11 \/ n = 12 \/ n = 13 \/ n = 14 \/ n = 15) by lia. intuition. }
  specialize (F n I). cbv zeta in F. destruct (go_hexNibble (hexchar n)) as [v ok].
  apply andb_prop in F as [A B]. apply N.eqb_eq in A. subst. reflexivity.
Qed.
