(* C20 — the hypotheses of the property theorems are inhabited by
   non-trivial states (RFC 6052 section 2.4 examples, a synthesised reply, a
   filtered reply, a PTR translation). *)
From Coq Require Import String Ascii.
From Sdns Require Import Common.Base Gen.C20 C20.Model C20.Spec
  C20.Proofs_gen C20.Proofs_embed C20.Proofs_ptr C20.Proofs_serve C20.Proofs_loops C20.Proofs_subq.
Open Scope N_scope.

(* RFC 6052 2.4: 2001:db8:122::/48 + 192.0.2.33 = 2001:db8:122:c000:2:2100:: *)
Definition ex_p48 : ipnet := mk_net [32; 1; 13; 184; 1; 34; 0; 0; 0; 0; 0; 0; 0; 0; 0; 0] 48 16.
Definition ex_v4 : list N := [192; 0; 2; 33].
Example ex_extract_embed :
  wf_prefix ex_p48 /\ length ex_v4 = 4%nat /\ quirk ex_p48 ex_v4 = false
  /\ all_zero (firstn 7 (n_ip ex_p48)) = false
  /\ bytes_ok (n_ip ex_p48) /\ bytes_ok ex_v4
  /\ embed ex_p48 ex_v4 = [32; 1; 13; 184; 1; 34; 192; 0; 0; 2; 33; 0; 0; 0; 0; 0]
  /\ extract cur ex_p48 (embed ex_p48 ex_v4) = Some ex_v4.
Proof. repeat split; try reflexivity; repeat constructor. Qed.

(* the other five rows of the table in RFC 6052 2.4 *)
Example ex_rfc6052_table :
  embed (mk_net [32;1;13;184;0;0;0;0;0;0;0;0;0;0;0;0] 32 16) ex_v4 = [32;1;13;184;192;0;2;33;0;0;0;0;0;0;0;0]
  /\ embed (mk_net [32;1;13;184;1;0;0;0;0;0;0;0;0;0;0;0] 40 16) ex_v4 = [32;1;13;184;1;192;0;2;0;33;0;0;0;0;0;0]
  /\ embed (mk_net [32;1;13;184;1;34;3;0;0;0;0;0;0;0;0;0] 56 16) ex_v4 = [32;1;13;184;1;34;3;192;0;0;2;33;0;0;0;0]
  /\ embed (mk_net [32;1;13;184;1;34;3;68;0;0;0;0;0;0;0;0] 64 16) ex_v4 = [32;1;13;184;1;34;3;68;0;192;0;2;33;0;0;0]
  /\ embed (mk_net [32;1;13;184;1;34;3;68;0;0;0;0;0;0;0;0] 96 16) ex_v4 = [32;1;13;184;1;34;3;68;0;0;0;0;192;0;2;33].
Proof. repeat split; reflexivity. Qed.

Example ex_extract_rejects :
  nthb [32; 1; 13; 184; 1; 34; 192; 0; 7; 2; 33; 0; 0; 0; 0; 0] 8 <> 0
  /\ extract cur ex_p48 [32; 1; 13; 184; 1; 34; 192; 0; 7; 2; 33; 0; 0; 0; 0; 0] = None
  /\ extract cur ex_p48 [32; 1; 13; 184; 1; 34; 192; 0; 0; 2; 33; 0; 0; 0; 0; 1] = None.
Proof. repeat split; try reflexivity. discriminate. Qed.

Example ex_ptr_name :
  arpa_name (embed wkp_net ex_v4) = bs "1.2.2.0.0.0.0.c.0.0.0.0.0.0.0.0.0.0.0.0.0.0.0.0.b.9.f.f.4.6.0.0.ip6.arpa."
  /\ c_prefixes (compile ad_witness_cf) = [mk_cprefix wkp_net true]
  /\ should_exclude_a (compile ad_witness_cf) [192; 0; 9; 1] (mk_cprefix wkp_net true) = false
  /\ ptr_target cur (compile ad_witness_cf) (lower (arpa_name (embed wkp_net [192; 0; 9; 1]))) = Some [192; 0; 9; 1]
  /\ in_addr_arpa [192; 0; 9; 1] = bs "1.9.0.192.in-addr.arpa.".
Proof. repeat split; reflexivity. Qed.

(* a synthesised reply: NODATA with SOA (3600, 60) + AD, A 192.0.9.1 and 10.0.0.1 under the WKP *)
Definition ex_down : msg := mk_msg false 1 0 true (Some []) [] [Some (3600, 60)].
Example ex_synth :
  let x := serve cur ad_witness_cf ad_witness_q (Some (ex_down, 0)) false (QResp ttl_witness_a) None in
  x_path x = PSynth /\ soa_positive ex_down
  /\ x_reply x = Some (mk_reply false 0 false [4] [RAAAA (bs "h.ex.t.") 60 [0; 100; 255; 155; 0; 0; 0; 0; 0; 0; 0; 0; 192; 0; 9; 1]])
  /\ gates_open (compile ad_witness_cf) ad_witness_q = true
  /\ down_allows (compile ad_witness_cf) ex_down 0 false = true.
Proof. repeat split; try reflexivity; cbn; lia. Qed.

(* never over a failure: SERVFAIL + EDE 6 (DNSSEC Bogus), NXDOMAIN, cached failure marker *)
Example ex_no_synth_over_failure :
  x_path (serve cur ad_witness_cf ad_witness_q (Some (mk_msg false 1 2 false (Some [6]) [] [], 0)) false (QResp ttl_witness_a) None) = PPass
  /\ x_path (serve cur ad_witness_cf ad_witness_q (Some (mk_msg false 1 3 false (Some []) [] [], 0)) false (QResp ttl_witness_a) None) = PPass
  /\ x_path (serve cur ad_witness_cf ad_witness_q (Some (mk_msg false 1 2 false None [] [], 1)) false (QResp ttl_witness_a) None) = PPass
  /\ x_aq (serve cur ad_witness_cf ad_witness_q (Some (mk_msg false 1 2 false (Some [13]) [] [], 0)) false (QResp ttl_witness_a) None) = false
  /\ x_path (serve cur ad_witness_cf ad_witness_q (Some (mk_msg false 1 2 false (Some [22]) [] [], 0)) false (QResp ttl_witness_a) None) = PSynth.
Proof. repeat split; reflexivity. Qed.

(* an AAAA-filtered reply: one native and one IPv4-mapped AAAA, AD set upstream *)
Example ex_filtered :
  let down := mk_msg false 1 0 true (Some [])
                [RAAAA (bs "h.ex.t.") 60 ([32; 1; 13; 184] ++ zeros 11 ++ [5]); RAAAA (bs "h.ex.t.") 60 (v4in6_prefix ++ [1; 2; 3; 4])] [] in
  let x := serve cur ad_witness_cf ad_witness_q (Some (down, 0)) false (QResp ttl_witness_a) None in
  x_path x = PPassFiltered
  /\ x_reply x = Some (mk_reply false 0 false [4] [RAAAA (bs "h.ex.t.") 60 ([32; 1; 13; 184] ++ zeros 11 ++ [5])])
  /\ x_aq x = false.
Proof. repeat split; reflexivity. Qed.

Example ex_illegal_prefixes :
  validate_prefix (mk_net (zeros 16) 72 16) = false
  /\ validate_prefix (mk_net [10; 0; 0; 0] 8 4) = false
  /\ validate_prefix (mk_net [32;1;13;184;0;0;0;0;1;0;0;0;0;0;0;0] 96 16) = false
  /\ validate_prefix wkp_net = true
  /\ c_prefixes (compile (mk_config [Some (mk_net (zeros 16) 72 16); None] [] [] None None)) = [mk_cprefix wkp_net true].
Proof. repeat split; reflexivity. Qed.

(* ------------------------------------------------------------------ *)
(* The three defects repaired by 3d56ccc, as statements about the [old]
   variant next to what the tree does now.  Reverting the commit makes the
   driver observe the [old] column again (the revert-regression in NOTES.md). *)
Example ex_old_extract_embed_refuted :
  let p := mk_net (zeros 16) 56 16 in
  let v4 := [0; 0; 255; 255] in
  wf_prefix p /\ embed p v4 = [0;0;0;0;0;0;0;0;0;0;255;255;0;0;0;0]
  /\ extract old p (embed p v4) = None
  /\ extract cur p (embed p v4) = Some v4.
Proof. repeat split; reflexivity. Qed.

Example ex_old_owner_and_ttl_refuted :
  let x_old := serve old ad_witness_cf ad_witness_q (Some (ttl_witness_down, 0)) false (QResp ttl_witness_a) None in
  let x_now := serve cur ad_witness_cf ad_witness_q (Some (ttl_witness_down, 0)) false (QResp ttl_witness_a) None in
  spec_negative_ttl ttl_witness_down = 0
  /\ x_reply x_old = Some (mk_reply false 0 false [4] [RAAAA (bs "h.ex.t.") 300 [0; 100; 255; 155; 0; 0; 0; 0; 0; 0; 0; 0; 192; 0; 9; 1]])
  /\ x_reply x_now = Some (mk_reply false 0 false [4] [RAAAA (bs "h.ex.t.") 0 [0; 100; 255; 155; 0; 0; 0; 0; 0; 0; 0; 0; 192; 0; 9; 1]]).
Proof. repeat split; reflexivity. Qed.

Example ex_old_never_ad_refuted :
  let x_old := serve old ad_witness_cf ad_witness_q (Some (ad_witness_down, 0)) false (QResp ad_witness_a) None in
  let x_now := serve cur ad_witness_cf ad_witness_q (Some (ad_witness_down, 0)) false (QResp ad_witness_a) None in
  x_path x_old = PFallback /\ x_reply x_old = Some (mk_reply false 0 true [] [])
  /\ x_path x_now = PFallback /\ x_reply x_now = Some (mk_reply false 0 false [4] []).
Proof. repeat split; reflexivity. Qed.

(* af44539: the request tree's bound caps the synthesised TTL and the alias
   chain's.  SOA (3600, 60), A TTL 300, CNAME TTL 900: 60 on an unbounded tree,
   7 when the tree ends in 7 s, 0 when its bound has passed, 60 again when the
   bound lies beyond; the code before af44539 is the [None] column whatever
   the tree says. *)
Example ex_cut_bounds_ttl :
  let ans := [RCNAME (bs "h.ex.t.") 900 (bs "c0.u."); RA (bs "c0.u.") 300 [192; 0; 9; 1]] in
  let x cut := serve cur ad_witness_cf ad_witness_q (Some (ex_down, 0)) false (QResp (mk_msg false 1 0 false None ans [])) cut in
  let e := [0; 100; 255; 155; 0; 0; 0; 0; 0; 0; 0; 0; 192; 0; 9; 1] in
  x_path (x (Some 7)) = PSynth
  /\ x_reply (x None) = Some (mk_reply false 0 false [4] [RCNAME (bs "h.ex.t.") 60 (bs "c0.u."); RAAAA (bs "c0.u.") 60 e])
  /\ x_reply (x (Some 7)) = Some (mk_reply false 0 false [4] [RCNAME (bs "h.ex.t.") 7 (bs "c0.u."); RAAAA (bs "c0.u.") 7 e])
  /\ x_reply (x (Some 0)) = Some (mk_reply false 0 false [4] [RCNAME (bs "h.ex.t.") 0 (bs "c0.u."); RAAAA (bs "c0.u.") 0 e])
  /\ x_reply (x (Some 60)) = x_reply (x None) /\ x_reply (x (Some 4294967301)) = x_reply (x None).
Proof. repeat split; reflexivity. Qed.

(* a legal prefix whose host part is not zero (never produced by ParseCIDR, still handled) *)
Example ex_legal_unmasked :
  let p := mk_net [32; 1; 13; 184; 1; 34; 7; 7; 7; 7; 7; 7; 7; 7; 7; 7] 48 16 in
  legal_prefix p /\ masked p = false /\ embed p ex_v4 = embed ex_p48 ex_v4
  /\ extract cur p (embed p ex_v4) = Some ex_v4.
Proof. repeat split; reflexivity. Qed.

(* an alias chain of length three ending at the A records' owner *)
Example ex_alias_chain :
  let ans := [RCNAME (bs "h.ex.t.") 300 (bs "c0.u."); RCNAME (bs "C0.u.") 5 (bs "c1.u."); RDNAME (bs "u.") 9 (bs "v.");
              RCNAME (bs "c1.u.") 900 (bs "c1.v."); RA (bs "c1.v.") 120 [192; 0; 9; 1]] in
  alias_chain (bs "h.ex.t.") (filter is_chain ans) (bs "c1.v.")
  /\ x_path (serve cur ad_witness_cf ad_witness_q (Some (ex_down, 0)) false (QResp (mk_msg false 1 0 false None ans [])) None) = PSynth.
Proof.
  split; [|reflexivity]. cbn [filter is_chain].
  apply ac_cname; [reflexivity|]. apply ac_cname; [reflexivity|]. apply ac_dname. apply ac_cname; [reflexivity|].
  apply ac_end. reflexivity.
Qed.

Example ex_wire :
  x_path (serve_wire ad_witness_cf ad_witness_q (Some (ex_down, 0)) (SubWrite ttl_witness_a 0) None) = PSynth
  /\ x_path (serve_wire ad_witness_cf ad_witness_q (Some (ex_down, 0)) (SubWrite ttl_witness_a 2) None) = PLocalFail
  /\ x_path (serve_wire ad_witness_cf ad_witness_q (Some (ex_down, 0)) SubNothing None) = PFallback.
Proof. repeat split; reflexivity. Qed.

(* the byte-range hypotheses are about the model's [N], not about Go: without
   them a "byte" 288 = 256 + 32 passes the masked comparison with 32 *)
Example ex_bytes_ok_needed :
  let a := [288; 1; 13; 184; 1; 34; 192; 0; 0; 2; 33; 0; 0; 0; 0; 0] in
  extract cur ex_p48 a = Some ex_v4 /\ a <> embed ex_p48 ex_v4 /\ ~ bytes_ok a.
Proof.
  repeat split; try reflexivity; try discriminate.
  intros H. inversion H as [|? ? B _]. cbv in B. discriminate.
Qed.

(* the secondary query (session 4).  An AAAA question "H.Ex.T." (mixed case):
   the lookup asks for A of that very spelling, RD set, CD clear, and the
   reply is synthesised; a pass-through asks nothing.  A PTR question for the
   name of 64:ff9b::192.0.9.1: the chase asks for 1.9.0.192.in-addr.arpa.
   PTR, the reply's CNAME points there; the not-wired Queryer is not asked.
   Nested prefixes (2001:db8::/32 before 2001:db8:122::/48): the address
   embedded under the /48 is still decoded — by the /48 — and chased. *)
Definition ex_q_mixed : query := mk_query 1 1 28 (bs "H.Ex.T.") true false true false [203; 0; 113; 9].
Definition ex_q_ptr (name : list N) : query := mk_query 1 1 12 name true false true false [203; 0; 113; 9].
Definition ex_ptr_resp : msg := mk_msg false 1 0 false None [RPTR (bs "1.9.0.192.in-addr.arpa.") 77 (bs "host.t.")] [].
Definition ex_p32 : ipnet := mk_net [32; 1; 13; 184; 0; 0; 0; 0; 0; 0; 0; 0; 0; 0; 0; 0] 32 16.
Definition ex_nested_cf : config := mk_config [Some ex_p32; Some ex_p48] [] [] None None.
Example ex_sub_query :
  let x := serve cur ad_witness_cf ex_q_mixed (Some (ex_down, 0)) false (QResp ttl_witness_a) None in
  x_path x = PSynth
  /\ sub_query cur ad_witness_cf ex_q_mixed (Some (ex_down, 0)) false (QResp ttl_witness_a) None
     = Some (mk_subq (bs "H.Ex.T.") 1 1 true false)
  /\ sub_query cur ad_witness_cf ex_q_mixed (Some (mk_msg false 1 3 false (Some []) [] [], 0)) false (QResp ttl_witness_a) None = None
  /\ (let qp := ex_q_ptr (arpa_name (embed wkp_net [192; 0; 9; 1])) in
      sub_query cur ad_witness_cf qp None false (QResp ex_ptr_resp) None
        = Some (mk_subq (bs "1.9.0.192.in-addr.arpa.") 12 1 true false)
      /\ x_reply (serve cur ad_witness_cf qp None false (QResp ex_ptr_resp) None)
         = Some (mk_reply false 0 false []
                   [RCNAME (q_name qp) 600 (bs "1.9.0.192.in-addr.arpa."); RPTR (bs "1.9.0.192.in-addr.arpa.") 77 (bs "host.t.")])
      /\ sub_query cur ad_witness_cf qp None false QNone None = None)
  /\ (let qn := ex_q_ptr (arpa_name (embed ex_p48 ex_v4)) in
      c_prefixes (compile ex_nested_cf) = [mk_cprefix ex_p32 false; mk_cprefix ex_p48 false]
      /\ net_contains16 ex_p32 (embed ex_p48 ex_v4) = true /\ extract cur ex_p32 (embed ex_p48 ex_v4) = None
      /\ sub_query cur ex_nested_cf qn None false QNilResp None
         = Some (mk_subq (bs "33.2.0.192.in-addr.arpa.") 12 1 true false)).
Proof. vm_compute. repeat split; reflexivity. Qed.

(* the translated TTL loop on three A records (300, 60, 600) from the ceiling 120: 60 *)
Example ex_ttl_loop :
  go_responseWriter_synthesise_loop1_run
    (map Proofs_loops.rr_as_A [RA (bs "h.t.") 300 [192; 0; 9; 1]; RA (bs "h.t.") 60 [192; 0; 9; 2]; RA (bs "h.t.") 600 [192; 0; 9; 3]]) 120
  = (Common.GoList.GoNext, (map Proofs_loops.rr_as_A [RA (bs "h.t.") 300 [192; 0; 9; 1]; RA (bs "h.t.") 60 [192; 0; 9; 2]; RA (bs "h.t.") 600 [192; 0; 9; 3]], 60)).
Proof. reflexivity. Qed.

(* exclude_zones = [" CORP.Ex.T "]: stored as "corp.ex.t."; "H.Corp.EX.t." lies below
   it (no lookup, the next handler's reply untouched); "badcorp.ex.t." does not *)
Definition ex_zone_cf : config := mk_config [Some wkp_net] [] [bs " CORP.Ex.T "] None None.
Example ex_zone_spelling :
  Proofs_subq.fq (trim_space (lower (bs " CORP.Ex.T "))) = bs "corp.ex.t."
  /\ c_zones (compile ex_zone_cf) = [bs "corp.ex.t."]
  /\ has_suffix (lower (bs "H.Corp.EX.t.")) (46 :: bs "corp.ex.t.") = true
  /\ (let x := serve cur ex_zone_cf (mk_query 1 1 28 (bs "H.Corp.EX.t.") true false true false [203; 0; 113; 9])
                     (Some (ex_down, 0)) false (QResp ttl_witness_a) None in
      x_path x = PNext /\ x_aq x = false)
  /\ x_path (serve cur ex_zone_cf (mk_query 1 1 28 (bs "badcorp.ex.t.") true false true false [203; 0; 113; 9])
                   (Some (ex_down, 0)) false (QResp (mk_msg false 1 0 false None [RA (bs "badcorp.ex.t.") 300 [192; 0; 9; 1]] [])) None) = PSynth.
Proof. vm_compute. repeat split; reflexivity. Qed.
