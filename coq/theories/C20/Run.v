(* C20 — correspondence: case type and the two checkers evaluated with
   vm_compute on what the Go driver recorded.
   check_case: the model computes what the implementation did;
   spec_case : what the implementation did satisfies the specification. *)
From Coq Require Export String Ascii.
From Sdns Require Export Common.Base Gen.C20 C20.Model C20.Spec.
Open Scope N_scope.

(* compact notations for the generated case text *)
Definition hexval (a : ascii) : N := let n := N_of_ascii a in if n <? 58 then n - 48 else n - 87.
Fixpoint hx (s : string) : list N :=
  match s with
  | String a (String b r) => hexval a * 16 + hexval b :: hx r
  | _ => []
  end.
Definition nt (ip : string) (ones mlen : N) : ipnet := mk_net (hx ip) ones mlen.

(* what the driver saw at the client side *)
Record obs := mk_obs {
  o_written : bool; o_same : bool; o_rcode : N; o_ad : bool; o_edes : list N;
  o_answer : list rr; o_aq : bool; o_next : bool;
  (* the question the Queryer received (in-package: the *dns.Msg handed to
     Queryer.Query; over UDP: the request the sub-pipeline's next handler saw):
     name, type, class, RD, CD; None = the Queryer was not asked *)
  o_subq : option subq }.

Inductive case :=
  (* validatePrefix on a ParseCIDR result; when accepted: embedIPv4(p, v4) and extractIPv4(p, that) *)
| CaseEmbed (p : ipnet) (v4 : list N) (valid : bool) (emb : list N) (ext : option (list N))
  (* extractIPv4(p, addr) for a validated prefix and an arbitrary address *)
| CaseExtract (p : ipnet) (addr : list N) (res : option (list N))
  (* parseIP6ArpaName *)
| CaseArpa (name : list N) (res : option (list N))
  (* inAddrArpa *)
| CaseInAddr (ip : list N) (res : list N)
  (* net.IPNet.Contains as used by this package *)
| CaseContains (n : ipnet) (ip : list N) (res : bool)
  (* compileConfig: compiled prefixes (with wellKnown), client networks, zones, exclusion lists *)
| CaseCompile (cf : config) (res : compiled)
  (* isDNSSECFailure on a response with this rcode and one EDE option (or no OPT: None) *)
| CaseEde (rcode : N) (code : option N) (res : bool)
  (* net.ParseCIDR on IPv4 / IPv6 text (no dotted-quad tail, no zone) *)
| CaseCidr (txt : list N) (res : option ipnet)
  (* the handler in front of a scripted next handler and Queryer; wf: the A
     response's alias chain was generated well-formed starting at the qname;
     cut: the request tree's bound as synthesise reads it — None: nothing folded
     a cut into the tree's ResponseMeta, Some s: the earliest cut folded in (by
     the next handler, the Queryer or the caller's context) lies s whole
     seconds ahead (0: not ahead) *)
| CaseServe (cf : config) (q : query) (down : option (msg * N)) (work : bool) (al : alookup) (cut : option N) (wf : bool) (o : obs)
  (* the same through the real server: a UDP query to server.Server running the pipeline
     [dns64; scripted next] with the auto-wired pipeline Queryer; the reply as read from the socket
     (o_same is not observable there) *)
| CaseWire (cf : config) (q : query) (down : option (msg * N)) (s : sub_script) (cut : option N) (wf : bool) (o : obs).

(* ---------------- equality tests ---------------- *)
Definition opt_eqb {A} (f : A -> A -> bool) (a b : option A) : bool :=
  match a, b with
  | None, None => true
  | Some x, Some y => f x y
  | _, _ => false
  end.
Fixpoint all2 {A} (f : A -> A -> bool) (a b : list A) : bool :=
  match a, b with
  | [], [] => true
  | x :: xs, y :: ys => f x y && all2 f xs ys
  | _, _ => false
  end.
Definition ipnet_eqb (a b : ipnet) : bool :=
  list_eqb (n_ip a) (n_ip b) && (n_ones a =? n_ones b) && (n_mlen a =? n_mlen b).
Definition cprefix_eqb (a b : cprefix) : bool := ipnet_eqb (cp_net a) (cp_net b) && Bool.eqb (cp_wk a) (cp_wk b).
Definition compiled_eqb (a b : compiled) : bool :=
  all2 cprefix_eqb (c_prefixes a) (c_prefixes b) && all2 ipnet_eqb (c_clients a) (c_clients b)
  && all2 list_eqb (c_zones a) (c_zones b) && all2 ipnet_eqb (c_excl_a a) (c_excl_a b)
  && all2 ipnet_eqb (c_excl_aaaa a) (c_excl_aaaa b).
Definition rr_eqb (a b : rr) : bool :=
  match a, b with
  | RA o t x, RA o' t' x' | RAAAA o t x, RAAAA o' t' x' | RCNAME o t x, RCNAME o' t' x'
  | RDNAME o t x, RDNAME o' t' x' | RPTR o t x, RPTR o' t' x' => list_eqb o o' && (t =? t') && list_eqb x x'
  | ROther o t x, ROther o' t' x' => list_eqb o o' && (t =? t') && (x =? x')
  | _, _ => false
  end.
Definition rr_in (r : rr) (l : list rr) : bool := existsb (rr_eqb r) l.
Definition subq_eqb (a b : subq) : bool :=
  list_eqb (sq_name a) (sq_name b) && (sq_type a =? sq_type b) && (sq_class a =? sq_class b)
  && Bool.eqb (sq_rd a) (sq_rd b) && Bool.eqb (sq_cd a) (sq_cd b).

(* does the observation equal a model result?  The EDE content of a
   locally built SERVFAIL comes from other packages and is not compared. *)
Definition result_matches (x : result) (o : obs) : bool :=
  Bool.eqb (x_aq x) (o_aq o) && Bool.eqb (x_next x) (o_next o) &&
  match x_reply x with
  | None => negb (o_written o)
  | Some r =>
      o_written o && Bool.eqb (r_same r) (o_same o) && (r_rcode r =? o_rcode o) && Bool.eqb (r_ad r) (o_ad o)
      && all2 rr_eqb (r_answer r) (o_answer o)
      && match x_path x with
         | PLocalFail | PPtrLocalFail => true
         | _ => all2 N.eqb (r_edes r) (o_edes o)
         end
  end.

(* over the wire the identity of the message object is gone; everything else is compared *)
Definition result_matches_wire (x : result) (o : obs) : bool :=
  match x_reply x with
  | Some r => result_matches (mk_result (x_path x) (Some (mk_reply (o_same o) (r_rcode r) (r_ad r) (r_edes r) (r_answer r))) (x_aq x) (x_next x)) o
  | None => result_matches x o
  end.

Definition check_case (c : case) : bool :=
  match c with
  | CaseEmbed p v4 valid emb ext =>
      Bool.eqb (validate_prefix p) valid &&
      (if valid then list_eqb (embed p v4) emb && opt_eqb list_eqb (extract cur p emb) ext
       else true)
  | CaseExtract p addr res => opt_eqb list_eqb (extract cur p addr) res
  | CaseArpa name res => opt_eqb list_eqb (parse_ip6_arpa name) res
  | CaseInAddr ip res => list_eqb (in_addr_arpa ip) res
  | CaseContains n ip res => Bool.eqb (net_contains n ip) res
  | CaseCompile cf res => compiled_eqb (compile cf) res
  | CaseEde rcode code res =>
      Bool.eqb (is_dnssec_failure (mk_msg false 1 rcode false (match code with Some c => Some [c] | None => None end) [] [])) res
  | CaseCidr txt res => opt_eqb ipnet_eqb (if existsb (N.eqb 58) txt then parse_cidr6 txt else parse_cidr4 txt) res
  | CaseServe cf q down work al cut wf o =>
      result_matches (serve cur cf q down work al cut) o
      && opt_eqb subq_eqb (sub_query cur cf q down work al cut) (o_subq o)
  | CaseWire cf q down s cut wf o =>
      result_matches_wire (serve_wire cf q down s cut) o
      && opt_eqb subq_eqb (sub_query cur cf q down false (al_of_script s) cut) (o_subq o)
  end.

(* ---------------- specification oracle ---------------- *)
Definition implb (a b : bool) : bool := if a then b else true.

(* the synthesised AAAA set the specification asks for *)
Definition spec_expected (cf : config) (a_answer : list rr) : list (list N * list N) :=
  let c := compile cf in
  flat_map (fun p =>
    flat_map (fun r =>
      match r with
      | RA owner _ ip =>
          match to4 ip with
          | Some v4 =>
              if spec_wkp p && spec_excluded_a cf v4 then []
              else match spec_embed p v4 with Some e => [(owner, e)] | None => [] end
          | None => []
          end
      | _ => []
      end) a_answer) (spec_prefixes cf).
Definition pair_in (x : list N * list N) (l : list (list N * list N)) : bool :=
  existsb (fun y => list_eqb (fst x) (fst y) && list_eqb (snd x) (snd y)) l.

Definition ptr_candidates (cf : config) (addr : list N) : list (list N) :=
  let c := compile cf in
  flat_map (fun p =>
    match spec_unembed p addr with
    | Some v4 =>
        if opt_eqb list_eqb (spec_embed p v4) (Some addr) && negb (spec_wkp p && spec_excluded_a cf v4)
        then [v4] else []
    | None => []
    end) (spec_prefixes cf).

Definition spec_serve (cf : config) (q : query) (down : option (msg * N)) (work : bool) (al : alookup) (cut : option N) (wf : bool) (o : obs) : bool :=
  let c := compile cf in
  let down_ans := match down with Some (m, _) => m_answer m | None => [] end in
  let new_aaaa := if o_written o then filter (fun r => is_aaaa r && negb (rr_in r down_ans)) (o_answer o) else [] in
  let synth := negb (length new_aaaa =? 0)%nat in
  let gates := (q_nq q =? 1) && (q_class q =? 1) && negb (q_internal q) && q_rd q && negb (q_cd q) in
  (* synth_only_when, also for the A lookup itself *)
  implb (synth || (o_aq o && (q_type q =? 28)))
    (gates && spec_eligible c (q_client q) && (q_type q =? 28) && negb (spec_zone_excluded c (q_name q))
     && match down with
        | None => false
        | Some (m, mark) =>
            negb (m_trunc m) && negb (m_rcode m =? 3) && negb (spec_validation_failure m)
            && (mark =? 0) && negb ((m_rcode m =? 2) && existsb (N.eqb 13) (edes_of m))
            && negb ((m_rcode m =? 2) && work)
            && implb (m_rcode m =? 0)
                 (forallb (fun r => match r with RAAAA _ _ ip => spec_excluded_aaaa c ip | _ => true end) (m_answer m))
        end)
  (* exactly the RFC 6052 embeddings; owner and TTL *)
  && implb synth
       match al, down with
       | QResp ar, Some (m, _) =>
           let expected := spec_expected cf (m_answer ar) in
           let got := flat_map (fun r => match r with RAAAA o' _ ip => [(o', ip)] | _ => [] end) new_aaaa in
           (m_rcode ar =? 0)
           && forallb (fun x => pair_in x expected) got && forallb (fun x => pair_in x got) expected
           && forallb (fun r => match r with
                                | RAAAA o' t _ =>
                                    forallb (fun a => match a with RA _ ta _ => t <=? ta | _ => true end) (m_answer ar)
                                    && (t <=? spec_negative_ttl m)
                                    && match cut with Some s => t <=? s | None => true end
                                    && implb wf (list_eqb (lower o') (lower (chain_terminal 16 (q_name q) (m_answer ar))))
                                | _ => true
                                end) new_aaaa
       | _, _ => false
       end
  (* ... and synthesis is due (round 6): behind every gate, for a client that is
     eligible under either reading, a name outside the excluded zones, a
     downstream NOERROR reply without a usable native AAAA (under either reading
     of a mixed-family comparison) and a secondary lookup
     answered NOERROR, every (prefix, A record) pair the specification asks for
     is in the reply — wherever the record stands in the A answer (the order of
     an Answer section carries no meaning) *)
  && implb (gates && spec_eligible_strict c (q_client q) && (q_type q =? 28) && negb (spec_zone_excluded c (q_name q))
            && match down with
               | Some (m, mark) =>
                   negb (m_trunc m) && negb (m_nq m =? 0) && (m_rcode m =? 0) && (mark =? 0)
                   (* no usable native AAAA under either reading of a mixed-family comparison
                      (::/0 covers ::ffff:a.b.c.d numerically, not for Go's Contains) *)
                   && forallb (fun r => match r with
                                        | RAAAA _ _ ip => existsb (fun n => spec_in_net n ip && net_contains n ip) (c_excl_aaaa c)
                                        | _ => true
                                        end) (m_answer m)
               | None => false
               end)
       match al with
       | QResp ar =>
           implb (m_rcode ar =? 0)
             (let got := flat_map (fun r => match r with RAAAA o' _ ip => [(o', ip)] | _ => [] end)
                                  (if o_written o then o_answer o else []) in
              forallb (fun x => pair_in x got) (spec_expected cf (m_answer ar)))
       | _ => true
       end
  (* a synthesised answer section (alias chain included) does not outlive the request tree *)
  && implb synth match cut with Some s => forallb (fun r => rr_ttl r <=? s) (o_answer o) | None => true end
  (* ... and so does no reply to an AAAA question that was composed with the help
     of the secondary lookup (session 5, /repo 1a0e74f: the alias chain relayed on
     the RFC 6147 5.1.6 route): every answer record that is not one of the
     downstream reply's own records has a TTL within the request tree's bound —
     the bound carries what is left of the negative AAAA answer that gated the
     composition *)
  && implb (o_written o && o_aq o && (q_type q =? 28))
       match cut with
       | Some s => forallb (fun r => rr_in r down_ans || (rr_ttl r <=? s)) (o_answer o)
       | None => true
       end
  (* never AD on a synthesised or AAAA-filtered reply *)
  && implb (o_written o && (synth || existsb (fun r => is_aaaa r && negb (rr_in r (o_answer o))) down_ans))
       (negb (o_ad o))
  (* PTR: a translated name maps back to the embedded IPv4 address, and an
     embedded address under a configured prefix is translated *)
  && implb ((q_type q =? 12) && has_suffix (lower (q_name q)) (bs ".ip6.arpa."))
       (let addr := match parse_ip6_arpa (q_name q) with
                    | Some a => if list_eqb (arpa_name a) (lower (q_name q)) then Some a else None
                    | None => None
                    end in
        let cands := match addr with Some a => ptr_candidates cf a | None => [] end in
        (* sound *)
        implb (o_written o && negb (o_next o) && (o_rcode o =? 0))
          (gates && spec_eligible c (q_client q) &&
           match o_answer o with
           | RCNAME ow _ t :: _ =>
               list_eqb ow (q_name q) &&
               match spec_parse_in_addr t with
               | Some v4 => existsb (list_eqb v4) cands
               | None => false
               end
           | _ => false
           end)
        (* complete *)
        && implb (gates && spec_eligible_strict c (q_client q) && negb (length cands =? 0)%nat)
             (o_written o && negb (o_next o) && ((o_rcode o =? 2) || (o_rcode o =? 0))))
  (* the secondary query.  Synthesis rests on one; for an AAAA question it asks
     for the A records of the queried name (letter case aside), class IN, RD
     set, CD clear (a CD=1 lookup would hide a validation failure of the A leg);
     for a translated PTR question it asks for the PTR records of the
     in-addr.arpa name of an IPv4 address whose embedding under a configured
     prefix is the queried address — the name the reply's CNAME points at *)
  && implb synth (match o_subq o with Some _ => true | None => false end)
  && match o_subq o with
     | None => negb (o_aq o)
     | Some s =>
         o_aq o && gates && (sq_class s =? 1) && sq_rd s && negb (sq_cd s)
         && (if q_type q =? 28 then
               (sq_type s =? 1) && list_eqb (lower (sq_name s)) (lower (q_name q))
             else if q_type q =? 12 then
               (sq_type s =? 12)
               && (let cands := match parse_ip6_arpa (q_name q) with Some a => ptr_candidates cf a | None => [] end in
                   match spec_parse_in_addr (sq_name s) with
                   | Some v4 => existsb (list_eqb v4) cands
                   | None => false
                   end)
               && (match o_answer o with
                   | RCNAME _ _ t :: _ => list_eqb t (sq_name s)
                   | _ => o_rcode o =? 2
                   end)
             else false)
     end.

Definition spec_case (c : case) : bool :=
  match c with
  | CaseEmbed p v4 valid emb ext =>
      Bool.eqb valid (spec_valid_prefix p) &&
      implb valid (opt_eqb list_eqb (spec_embed p v4) (Some emb) && opt_eqb list_eqb ext (Some v4))
  | CaseExtract p addr res =>
      (* Some v4 exactly when addr is the embedding of v4 *)
      let a16 := match to16 addr with Some a => a | None => [] end in
      let cand := match spec_unembed p a16 with
                  | Some v4 => if opt_eqb list_eqb (spec_embed p v4) (Some a16) then Some v4 else None
                  | None => None
                  end in
      opt_eqb list_eqb res cand
  | CaseArpa name res =>
      match res with
      | Some a => (length a =? 16)%nat && list_eqb (arpa_name a) (trim_suffix (lower name) [46] ++ [46])
      | None => true        (* rejections are judged by the driver's ground truth (go_fail) *)
      end
  | CaseInAddr ip res =>
      match to4 ip with
      | Some v4 => opt_eqb list_eqb (spec_parse_in_addr res) (Some v4)
      | None => (length res =? 0)%nat
      end
  | CaseContains n ip res => implb res (spec_in_net n ip)
  | CaseCompile cf res =>
      (* only legal prefixes are ever used; the default is the well-known prefix *)
      forallb (fun p => spec_valid_prefix (cp_net p) && Bool.eqb (cp_wk p) (spec_wkp (cp_net p))) (c_prefixes res)
      && all2 ipnet_eqb (map cp_net (c_prefixes res)) (spec_prefixes cf)
  | CaseEde rcode code res =>
      Bool.eqb res ((rcode =? 2) && match code with Some c => existsb (N.eqb c) spec_dnssec_codes | None => false end)
  | CaseCidr txt res => true
  | CaseServe cf q down work al cut wf o => spec_serve cf q down work al cut wf o
  | CaseWire cf q down s cut wf o => spec_serve cf q down false (al_of_script s) cut wf o
  end.
