(* C16 — LimiterStore model (Limiter.v): invariants and the property clauses. *)
From Sdns Require Import Common.Base Gen.C16 C16.Limiter.
Open Scope nat_scope.

Definition LInv (st : lstore) : Prop := NoDup (map le_key st) /\ NoDup (map le_lim st).

Lemma lfind_some st k e : lfind st k = Some e -> In e st /\ le_key e = k.
Proof.
  induction st as [|x r IH]; simpl; [discriminate|].
  destruct (N.eqb_spec (le_key x) k); intros H.
  - inversion H; subst. auto.
  - destruct (IH H). auto.
Qed.
Lemma lfind_none st k : lfind st k = None <-> ~ In k (map le_key st).
Proof.
  induction st as [|x r IH]; simpl; [tauto|].
  destruct (N.eqb_spec (le_key x) k) as [E|E].
  - split; [discriminate|]. intros H. exfalso. apply H. auto.
  - rewrite IH. tauto.
Qed.
Lemma lfind_in st e : NoDup (map le_key st) -> In e st -> lfind st (le_key e) = Some e.
Proof.
  induction st as [|x r IH]; simpl; [tauto|]. intros Hn [->|Hin].
  - rewrite N.eqb_refl. reflexivity.
  - inversion Hn; subst. destruct (N.eqb_spec (le_key x) (le_key e)) as [E|E]; [|auto].
    exfalso. apply H1. rewrite E. apply in_map. exact Hin.
Qed.

Lemma nodup_map_filter {A B} (f : A -> B) p l : NoDup (map f l) -> NoDup (map f (filter p l)).
Proof.
  induction l as [|x r IH]; simpl; auto. intros H. inversion H; subst.
  destruct (p x); simpl; auto. constructor; auto.
  intros Hin. apply H2. apply in_map_iff in Hin. destruct Hin as [y [E Hy]]. apply filter_In in Hy.
  rewrite <- E. apply in_map. tauto.
Qed.
Lemma lfind_filter st p k : lfind (filter (fun e => p (le_key e)) st) k = if p k then lfind st k else None.
Proof.
  induction st as [|x r IH]; simpl; [destruct (p k); reflexivity|].
  destruct (p (le_key x)) eqn:Ex; simpl.
  - destruct (N.eqb_spec (le_key x) k) as [E|E]; [rewrite <- E, Ex; reflexivity|exact IH].
  - destruct (N.eqb_spec (le_key x) k) as [E|E]; [rewrite <- E, Ex in *; rewrite IH; reflexivity|exact IH].
Qed.
Lemma lfind_remove st v k : lfind (lremove st v) k = if N.eqb k v then None else lfind st k.
Proof.
  unfold lremove. rewrite (lfind_filter st (fun x => negb (N.eqb x v)) k). destruct (N.eqb k v); reflexivity.
Qed.
Lemma filter_length_le {A} p (l : list A) : length (filter p l) <= length l.
Proof. induction l; simpl; auto. destruct (p a); simpl; lia. Qed.
Lemma lremove_length st v e : lfind st v = Some e -> length (lremove st v) < length st.
Proof.
  unfold lremove. induction st as [|x r IH]; simpl; [discriminate|].
  destruct (N.eqb_spec (le_key x) v) as [E|E]; simpl; intros H.
  - pose proof (filter_length_le (fun e0 => negb (N.eqb (le_key e0) v)) r). lia.
  - specialize (IH H). lia.
Qed.

Lemma in_map_lremove {B} (f : lent -> B) st v b : In b (map f (lremove st v)) -> In b (map f st).
Proof.
  unfold lremove. intros H. apply in_map_iff in H. destruct H as [y [E Hy]]. apply filter_In in Hy.
  rewrite <- E. apply in_map. tauto.
Qed.
Lemma ltouch_keys st k now : map le_key (ltouch st k now) = map le_key st.
Proof. unfold ltouch. rewrite map_map. apply map_ext. intros e. destruct (N.eqb (le_key e) k); reflexivity. Qed.
Lemma ltouch_lims st k now : map le_lim (ltouch st k now) = map le_lim st.
Proof. unfold ltouch. rewrite map_map. apply map_ext. intros e. destruct (N.eqb (le_key e) k); reflexivity. Qed.
Lemma ltouch_lim_of st k now k' : lim_of (ltouch st k now) k' = lim_of st k'.
Proof.
  unfold lim_of, ltouch. induction st as [|x r IH]; simpl; auto.
  destruct (N.eqb (le_key x) k) eqn:E; simpl; destruct (N.eqb (le_key x) k'); simpl; auto.
Qed.
Lemma ltouch_length st k now : length (ltouch st k now) = length st.
Proof. apply map_length. Qed.

Lemma lfresh_spec st id : lfresh st id = true -> ~ In id (map le_lim st).
Proof.
  unfold lfresh. intros H Hin. apply negb_true_iff in H. apply in_map_iff in Hin. destruct Hin as [e [E He]].
  assert (existsb (fun e0 => N.eqb (le_lim e0) id) st = true) by (apply existsb_exists; exists e; split; auto; apply N.eqb_eq; auto).
  congruence.
Qed.

(* one call *)
Lemma lstep_spec ms st o st' : LInv st -> lstep ms st o = Some st' ->
  LInv st' /\
  (forall k now id v, o = OGet k now id v -> lim_of st' k = Some id /\ v <> Some k /\
     (forall l, lim_of st k = Some l -> id = l) /\ (lim_of st k = None -> ~ In id (map le_lim st))) /\
  (forall k', evicts k' o = false -> (forall k now id v, o = OGet k now id v -> k' <> k) -> lim_of st' k' = lim_of st k') /\
  (forall k', evicts k' o = true -> lim_of st' k' = None) /\
  ((llen st <= lbound ms)%Z -> (llen st' <= lbound ms)%Z).
Proof.
  intros [Hk Hl] Hs. destruct o as [k now id v|lo hi gone]; simpl in Hs.
  - unfold lget in Hs. destruct (lfind st k) as [e|] eqn:Ef.
    + (* hit *)
      destruct v; [discriminate|]. destruct (N.eqb_spec (le_lim e) id) as [E|E]; [|discriminate].
      inversion Hs; subst st'. clear Hs.
      split; [split; [rewrite ltouch_keys|rewrite ltouch_lims]; auto|].
      split; [|split; [|split]].
      * intros k0 now0 id0 v0 H0. inversion H0; subst. rewrite ltouch_lim_of. unfold lim_of. rewrite Ef. simpl.
        split; [reflexivity|]. split; [discriminate|]. split; [intros l H; inversion H; reflexivity|discriminate].
      * intros k' _ _. apply ltouch_lim_of.
      * simpl. discriminate.
      * unfold llen. rewrite ltouch_length. auto.
    + (* miss *)
      destruct (lfresh st id) eqn:Efr; [|discriminate]. apply lfresh_spec in Efr.
      apply lfind_none in Ef.
      destruct (Z.leb_spec ms (llen st)) as [Hfull|Hroom].
      * destruct st as [|x r]; destruct v as [vk|]; try discriminate.
        -- inversion Hs; subst st'. simpl. split; [split; simpl; constructor; auto; constructor|].
           split; [|split; [|split]].
           ++ intros k0 now0 id0 v0 H0. inversion H0; subst. unfold lim_of. simpl. rewrite N.eqb_refl. simpl.
              split; [reflexivity|]. split; [discriminate|]. split; [discriminate|auto].
           ++ intros k' _ Hne. unfold lim_of. simpl. destruct (N.eqb_spec k k'); [exfalso; eapply Hne; eauto|reflexivity].
           ++ discriminate.
           ++ unfold llen, lbound. simpl. lia.
        -- remember (x :: r) as st0 eqn:Est0. clear Est0 x r.
           destruct (victim_ok st0 vk) eqn:Ev; [|discriminate]. inversion Hs; subst st'. clear Hs.
           unfold victim_ok in Ev. destruct (lfind st0 vk) as [ev|] eqn:Efv; [|discriminate].
           assert (Hvk : vk <> k).
           { intros ->. apply lfind_some in Efv. destruct Efv as [Hin E]. apply Ef. rewrite <- E. apply in_map. exact Hin. }
           split.
           { split; simpl; constructor.
             - intros Hin. apply Ef. apply (in_map_lremove le_key _ vk). exact Hin.
             - apply (nodup_map_filter le_key _ st0). exact Hk.
             - intros Hin. apply Efr. apply (in_map_lremove le_lim _ vk). exact Hin.
             - apply (nodup_map_filter le_lim _ st0). exact Hl. }
           split; [|split; [|split]].
           ++ intros k0 now0 id0 v0 H0. inversion H0; subst. unfold lim_of. simpl. rewrite N.eqb_refl. simpl.
              split; [reflexivity|]. split; [congruence|]. split; [|auto].
              intros l H. apply lfind_none in Ef. unfold lim_of in H. rewrite Ef in H. discriminate.
           ++ intros k' He Hne. simpl in He. unfold lim_of. cbn [lfind le_key].
              destruct (N.eqb_spec k k'); [exfalso; eapply Hne; eauto|].
              rewrite lfind_remove. rewrite N.eqb_sym in He. rewrite He. reflexivity.
           ++ intros k' He. simpl in He. apply N.eqb_eq in He. subst k'. unfold lim_of. cbn [lfind le_key].
              destruct (N.eqb_spec k vk); [congruence|]. rewrite lfind_remove, N.eqb_refl. reflexivity.
           ++ intros Hb. unfold llen in *. cbn [length]. pose proof (lremove_length st0 vk ev Efv). lia.
      * destruct v; [discriminate|]. simpl in Hs. inversion Hs; subst st'. clear Hs.
        split; [split; simpl; constructor; auto|].
        split; [|split; [|split]].
        -- intros k0 now0 id0 v0 H0. inversion H0; subst. unfold lim_of. simpl. rewrite N.eqb_refl. simpl.
           split; [reflexivity|]. split; [discriminate|]. split; [|auto].
           intros l H. apply lfind_none in Ef. unfold lim_of in H. rewrite Ef in H. discriminate.
        -- intros k' _ Hne. unfold lim_of. simpl. destruct (N.eqb_spec k k'); [exfalso; eapply Hne; eauto|reflexivity].
        -- discriminate.
        -- unfold llen, lbound in *. cbn [length]. lia.
  - (* Cleanup *)
    unfold lclean in Hs.
    destruct (forallb _ st && forallb _ gone); [|discriminate]. inversion Hs; subst st'. clear Hs.
    split; [split; apply nodup_map_filter; auto|].
    split; [intros; discriminate|]. split; [|split].
    + intros k' He _. simpl in He. unfold lim_of.
      rewrite (lfind_filter st (fun x => negb (existsb (N.eqb x) gone)) k'). rewrite He. reflexivity.
    + intros k' He. simpl in He. unfold lim_of.
      rewrite (lfind_filter st (fun x => negb (existsb (N.eqb x) gone)) k'). rewrite He. reflexivity.
    + intros Hb. unfold llen in *. pose proof (filter_length_le (fun e => negb (existsb (N.eqb (le_key e)) gone)) st). lia.
Qed.

Lemma lrun_inv ms ops : forall st st', LInv st -> lrun ms st ops = Some st' -> LInv st'.
Proof.
  induction ops as [|o r IH]; simpl; intros st st' I H; [inversion H; subst; auto|].
  destruct (lstep ms st o) as [s1|] eqn:E; [|discriminate].
  apply (IH s1); auto. apply (lstep_spec ms st o s1 I E).
Qed.

(* A key keeps its limiter until it is evicted: through any calls that do not evict
   it — Gets of the key itself included — Get(k) keeps returning the same limiter. *)
Theorem limiter_stable ms ops : forall st st' k l, LInv st -> lrun ms st ops = Some st' ->
  forallb (fun o => negb (evicts k o)) ops = true -> lim_of st k = Some l -> lim_of st' k = Some l.
Proof.
  induction ops as [|o r IH]; simpl; intros st st' k l I H Hev Hl; [inversion H; subst; auto|].
  destruct (lstep ms st o) as [s1|] eqn:E; [|discriminate].
  apply andb_true_iff in Hev. destruct Hev as [He Hr]. apply negb_true_iff in He.
  destruct (lstep_spec ms st o s1 I E) as [I1 [Hget [Hother _]]].
  apply (IH s1 st' k l I1 H Hr).
  destruct o as [k0 now id v|lo hi gone].
  - destruct (N.eq_dec k0 k) as [->|Hne].
    + destruct (Hget k now id v eq_refl) as [H1 [_ [H2 _]]]. rewrite H1. f_equal. apply H2. exact Hl.
    + rewrite (Hother k He); [exact Hl|]. intros k1 n1 i1 v1 H0. inversion H0; subst. auto.
  - rewrite (Hother k He); [exact Hl|]. intros; discriminate.
Qed.

(* Get(k) after a Get(k) that stored/returned limiter id, with no eviction of k in
   between, returns id again. *)
Theorem limiter_get_after_set ms st k now id v ops now' id' v' st' : LInv st ->
  lrun ms st (OGet k now id v :: ops ++ [OGet k now' id' v']) = Some st' ->
  forallb (fun o => negb (evicts k o)) ops = true -> id' = id.
Proof.
  intros I H Hev. cbn [lrun] in H. destruct (lstep ms st (OGet k now id v)) as [s1|] eqn:E1; [|discriminate].
  destruct (lstep_spec ms st _ s1 I E1) as [I1 [Hget _]]. destruct (Hget k now id v eq_refl) as [Hl1 _].
  assert (exists s2, lrun ms s1 ops = Some s2 /\ lrun ms s2 [OGet k now' id' v'] = Some st').
  { clear -H. revert s1 H. induction ops as [|o r IH]; cbn [lrun app]; intros s1 H; [exists s1; auto|].
    destruct (lstep ms s1 o) as [s|]; [|discriminate]. apply IH. exact H. }
  destruct H0 as [s2 [Hr Hlast]]. pose proof (limiter_stable ms ops s1 s2 k id I1 Hr Hev Hl1) as Hl2.
  cbn [lrun] in Hlast. destruct (lstep ms s2 (OGet k now' id' v')) as [s3|] eqn:E3; [|discriminate].
  destruct (lstep_spec ms s2 _ s3 (lrun_inv ms ops s1 s2 I1 Hr) E3) as [_ [Hget3 _]].
  destruct (Hget3 k now' id' v' eq_refl) as [_ [_ [H2 _]]]. apply H2. exact Hl2.
Qed.

Lemma nodup_map_inj {A B} (f : A -> B) l a b : NoDup (map f l) -> In a l -> In b l -> f a = f b -> a = b.
Proof.
  induction l as [|x r IH]; simpl; [tauto|]. intros Hn Ha Hb E. inversion Hn; subst.
  destruct Ha as [->|Ha], Hb as [->|Hb]; auto.
  - exfalso. apply H1. rewrite E. apply in_map. exact Hb.
  - exfalso. apply H1. rewrite <- E. apply in_map. exact Ha.
Qed.

(* Never another key's limiter: in every reachable store two keys with the same limiter are the same key. *)
Theorem limiter_never_shared ms ops st' k1 k2 l : lrun ms [] ops = Some st' ->
  lim_of st' k1 = Some l -> lim_of st' k2 = Some l -> k1 = k2.
Proof.
  intros H H1 H2. assert (I : LInv st') by (apply (lrun_inv ms ops [] st'); auto; split; constructor).
  destruct I as [Hk Hl]. unfold lim_of in *.
  destruct (lfind st' k1) as [e1|] eqn:E1; [|discriminate]. destruct (lfind st' k2) as [e2|] eqn:E2; [|discriminate].
  simpl in *. apply lfind_some in E1. apply lfind_some in E2. destruct E1 as [I1 K1], E2 as [I2 K2].
  assert (e1 = e2) by (apply (nodup_map_inj le_lim st' e1 e2 Hl I1 I2); congruence).
  congruence.
Qed.

(* The store never holds more than max(maxSize, 1) limiters, and an insert never evicts the key it stores. *)
Theorem limiter_bound ms ops : forall st st', LInv st -> (llen st <= lbound ms)%Z -> lrun ms st ops = Some st' -> (llen st' <= lbound ms)%Z.
Proof.
  induction ops as [|o r IH]; simpl; intros st st' I Hb H; [inversion H; subst; auto|].
  destruct (lstep ms st o) as [s1|] eqn:E; [|discriminate].
  destruct (lstep_spec ms st o s1 I E) as [I1 [_ [_ [_ Hbd]]]]. apply (IH s1); auto.
Qed.
Theorem limiter_insert_keeps_own_key ms st k now id v st' : LInv st -> lstep ms st (OGet k now id v) = Some st' ->
  v <> Some k /\ lim_of st' k = Some id.
Proof. intros I H. destruct (lstep_spec ms st _ st' I H) as [_ [Hget _]]. destruct (Hget k now id v eq_refl) as [A [B _]]. auto. Qed.
