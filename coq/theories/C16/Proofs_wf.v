(* C16 — the table invariant WF and the refinement of every UInt64Map
   operation to a finite map [abs t : key -> option value].
   Everything is for an arbitrary slot hash [mix]. *)
From Sdns Require Import Common.Base Gen.C16 C16.Model C16.Proofs_cyc C16.Proofs_tab.
Open Scope nat_scope.

Section WFOps.
  Variable mix : N -> N.
  Notation h := (hidx mix).
  Notation Ch := (Ch mix).

  Record WF (t : table) : Prop := {
    wf_len : exists p, 3 <= p /\ length (t_data t) = 2 ^ p;
    wf_uq : Uq (t_data t);
    wf_ch : Ch (t_data t);
    wf_size : t_size t = (Z.of_nat (occ (t_data t)) + zcount (t_zero t))%Z;
    wf_growAt : (0 <= t_growAt t < Z.of_nat (length (t_data t)))%Z;
    wf_occ : (Z.of_nat (occ (t_data t)) <= t_growAt t)%Z;
    wf_bad : t_bad t = false }.

  (* the abstraction: zero key out of band, the rest by scanning the slot list *)
  Definition abs (t : table) (k : N) : option N :=
    if N.eqb k 0 then t_zero t else dget (t_data t) k.

  Lemma wf_len8 t : WF t -> 8 <= length (t_data t).
  Proof.
    intros [[p [Hp Hl]] _ _ _ _ _ _]. rewrite Hl.
    replace p with (3 + (p - 3)) by lia. rewrite Nat.pow_add_r.
    assert (0 < 2 ^ (p - 3)) by (apply Nat.neq_0_lt_0, Nat.pow_nonzero; lia). simpl. lia.
  Qed.
  Lemma wf_empty_slot t : WF t -> exists e, e < length (t_data t) /\ skey (t_data t) e = 0%N.
  Proof. intros W. apply occ_has_empty. destruct W. lia. Qed.

  (* ------------------------------------------------------------- get *)
  Lemma probe_dget d k : Uq d -> Ch d -> k <> 0%N -> (exists e, e < length d /\ skey d e = 0%N) ->
    match probe mix d k with
    | PFound i => i < length d /\ skey d i = k /\ dget d k = Some (snd (sl d i))
    | PEmpty e => e < length d /\ skey d e = 0%N /\ dget d k = None /\
                  (forall i, i < length d -> skey d i <> k) /\
                  forall p, p < length d -> dist (length d) (h (length d) k) p < dist (length d) (h (length d) k) e -> skey d p <> 0%N
    | PNone => False
    end.
  Proof.
    intros HU HC Hk Hemp.
    destruct (dget d k) eqn:E.
    - pose proof (dget_some _ _ _ E) as [j [Hj Hs]].
      assert (Hkj : skey d j = k) by (unfold skey; rewrite Hs; reflexivity).
      rewrite (probe_found mix d k j HU HC Hk Hj Hkj).
      repeat split; auto. rewrite Hs. reflexivity.
    - pose proof (dget_none _ _ E) as Habs.
      destruct (probe_absent mix d k Hk Habs Hemp) as [e [Hp [He [Hz Hpath]]]].
      rewrite Hp. repeat split; auto.
  Qed.

  Theorem tget_abs t k : WF t -> tget mix t k = abs t k.
  Proof.
    intros W. unfold tget, abs. destruct (N.eqb_spec k 0); auto.
    pose proof (probe_dget (t_data t) k (wf_uq t W) (wf_ch t W) n (wf_empty_slot t W)) as H.
    destruct (probe mix (t_data t) k).
    - destruct H as [_ [_ H]]. congruence.
    - destruct H as [_ [_ [H _]]]. congruence.
    - contradiction.
  Qed.

  (* ------------------------------------------------------------ grow *)
  Lemma Uq_cons s r : Uq (s :: r) -> Uq r.
  Proof.
    intros H i j Hi Hj Hnz Heq.
    assert (S i = S j); [|lia]. apply H; simpl; try lia; auto.
  Qed.
  Lemma Uq_head s r i : Uq (s :: r) -> fst s <> 0%N -> i < length r -> skey r i <> fst s.
  Proof.
    intros H Hnz Hi Heq. assert (0 = S i); [|lia].
    apply H; simpl; try lia; auto.
  Qed.
  Lemma has_cons s r k v : has (s :: r) k v <-> s = (k, v) \/ has r k v.
  Proof. rewrite !has_In. simpl. tauto. Qed.
  Lemma empty_Uq n : Uq (repeat empty_slot n).
  Proof. intros i j _ _ Hnz. unfold skey in Hnz. rewrite sl_repeat in Hnz. simpl in Hnz. contradiction. Qed.
  Lemma empty_Ch n : Ch (repeat empty_slot n).
  Proof. intros i j _ _ Hnz. unfold skey in Hnz. rewrite sl_repeat in Hnz. simpl in Hnz. contradiction. Qed.
  Lemma empty_has n k v : k <> 0%N -> ~ has (repeat empty_slot n) k v.
  Proof. intros Hk [i [_ Hs]]. rewrite sl_repeat in Hs. inversion Hs. congruence. Qed.

  Lemma regrow_fold : forall rest d c,
    Uq d -> Ch d -> occ d + occ rest < length d -> Uq rest ->
    (forall i j, i < length rest -> j < length d -> skey rest i <> 0%N -> skey d j <> skey rest i) ->
    exists d', fold_left (regrow_step mix) rest (d, c) = (d', (c + Z.of_nat (occ rest))%Z) /\
      length d' = length d /\ Uq d' /\ Ch d' /\ occ d' = occ d + occ rest /\
      forall k v, k <> 0%N -> (has d' k v <-> has d k v \/ has rest k v).
  Proof.
    induction rest as [|s r IH]; intros d c HU HC Ho HUr Hdis.
    - simpl. exists d. repeat split; auto; try (f_equal; lia).
      intros [H0|[i [Hi _]]]; auto. simpl in Hi. lia.
    - simpl. unfold regrow_step at 2. simpl.
      destruct (N.eqb_spec (fst s) 0) as [Hz|Hnz].
      + (* empty slot of the old array: skipped *)
        assert (Hnzs : nz s = false) by (unfold nz; rewrite Hz; reflexivity).
        simpl in Ho. rewrite Hnzs in Ho. simpl in Ho.
        destruct (IH d c HU HC Ho (Uq_cons _ _ HUr)) as [d' [Hf [Hl [HU' [HC' [Ho' Hh]]]]]].
        { intros i j Hi Hj. apply (Hdis (S i) j); simpl; auto; lia. }
        exists d'. rewrite Hnzs. simpl. repeat split; auto.
        * intros Hx. apply Hh in Hx; auto. destruct Hx; auto. right. apply has_cons. auto.
        * intros [Hx|Hx]; apply Hh; auto. apply has_cons in Hx. destruct Hx as [Hx|Hx]; auto.
          subst s. simpl in Hz. congruence.
      + assert (Hnzs : nz s = true) by (unfold nz; destruct (N.eqb_spec (fst s) 0); auto; contradiction).
        simpl in Ho. rewrite Hnzs in Ho. simpl in Ho.
        unfold place. set (n := length d).
        assert (Hn : 0 < n) by (unfold n; lia).
        assert (Hh : h n (fst s) < n) by (apply hidx_lt; auto).
        destruct (occ_has_empty d) as [e0 [He0 Hz0]]; [lia|].
        assert (Hstop : stop_empty (sl d e0) = true).
        { unfold stop_empty. fold (skey d e0). rewrite Hz0. reflexivity. }
        destruct (scan_finds stop_empty d n (h n (fst s)) e0 eq_refl Hh He0 Hstop) as [e He].
        rewrite He. simpl.
        destruct (scan_some stop_empty n d n (h n (fst s)) e eq_refl Hh He) as [Hen [Hse [_ Hbefore]]].
        assert (Hez : skey d e = 0%N) by (unfold stop_empty in Hse; apply N.eqb_eq in Hse; exact Hse).
        destruct s as [k v]. simpl in *.
        assert (Habs : forall i, i < length d -> skey d i <> k).
        { intros i Hi. apply (Hdis 0 i); simpl; auto; lia. }
        assert (Hpath : forall p, p < length d -> dist (length d) (h (length d) k) p < dist (length d) (h (length d) k) e -> skey d p <> 0%N).
        { intros p Hp Hd Hpz. specialize (Hbefore p Hp Hd). unfold stop_empty in Hbefore.
          fold (skey d p) in Hbefore. rewrite Hpz in Hbefore. discriminate. }
        set (d1 := upd e (k, v) d).
        assert (Hl1 : length d1 = length d) by (unfold d1; apply upd_length).
        assert (Ho1 : occ d1 = occ d + 1).
        { pose proof (occ_upd e (k, v) d Hen). fold d1 in H. rewrite nz_key, Hez in H.
          unfold nz in H. simpl in H. destruct (N.eqb_spec k 0); [contradiction|]. simpl in H. lia. }
        destruct (IH d1 (c + 1)%Z) as [d' [Hf [Hl [HU' [HC' [Ho' Hhas]]]]]].
        * apply insert_Uq; auto.
        * apply insert_Ch; auto.
        * rewrite Hl1. lia.
        * eapply Uq_cons; eauto.
        * intros i j Hi Hj Hnzi. rewrite Hl1 in Hj. unfold d1.
          destruct (Nat.eq_dec j e) as [->|Nje].
          -- rewrite skey_upd_eq by auto. simpl. intro E.
             apply (Uq_head (k, v) r i HUr); auto.
          -- rewrite skey_upd_neq by auto. apply (Hdis (S i) j); simpl; auto; lia.
        * exists d'. rewrite Hf. rewrite Hnzs. repeat split; auto; try congruence; try lia.
          -- f_equal. simpl. lia.
          -- simpl. lia.
          -- intros Hx. apply Hhas in Hx; auto. destruct Hx as [Hx|Hx].
             ++ apply insert_has in Hx; auto. destruct Hx as [Hx|[-> ->]]; auto.
                right. apply has_cons. auto.
             ++ right. apply has_cons. auto.
          -- intros Hx. apply Hhas; auto. destruct Hx as [Hx|Hx].
             ++ left. apply insert_has; auto.
             ++ apply has_cons in Hx. destruct Hx as [Hx|Hx]; auto.
                inversion Hx; subst. left. apply insert_has; auto.
  Qed.

  Lemma grow_len_double n : grow_len n = 2 * n.
  Proof. reflexivity. Qed.

  Lemma tgrow_spec t : WF t ->
    WF (tgrow mix t) /\ (forall k, abs (tgrow mix t) k = abs t k) /\
    t_size (tgrow mix t) = t_size t /\ t_zero (tgrow mix t) = t_zero t /\
    length (t_data (tgrow mix t)) = 2 * length (t_data t) /\
    occ (t_data (tgrow mix t)) = occ (t_data t).
  Proof.
    intros W. pose proof (wf_len8 t W) as H8.
    set (d := t_data t) in *. set (n := length d) in *.
    pose proof (occ_le d) as Hole. fold n in Hole.
    destruct (regrow_fold d (repeat empty_slot (2 * n)) 0%Z) as [d' [Hf [Hl [HU' [HC' [Ho' Hh]]]]]].
    - apply empty_Uq.
    - apply empty_Ch.
    - rewrite occ_repeat, repeat_length. destruct W. lia.
    - apply (wf_uq t W).
    - intros i j _ _ Hnz. unfold skey at 1. rewrite sl_repeat. simpl. congruence.
    - rewrite repeat_length in Hl. rewrite occ_repeat in Ho'. simpl in Ho'.
      assert (Hr : regrow mix d (grow_len n) = (d', Z.of_nat (occ d))).
      { unfold regrow. rewrite grow_len_double. rewrite Hf. f_equal. }
      assert (Hd' : t_data (tgrow mix t) = d') by (unfold tgrow; fold d n; rewrite Hr; reflexivity).
      assert (Hs' : t_size (tgrow mix t) = t_size t).
      { unfold tgrow. fold d n. rewrite Hr. simpl. rewrite (wf_size t W). fold d. reflexivity. }
      assert (Hz' : t_zero (tgrow mix t) = t_zero t) by reflexivity.
      assert (Hg' : t_growAt (tgrow mix t) = mul_load load_grow_mul (Z.of_nat (2 * n))).
      { unfold tgrow. fold d n. rewrite grow_len_double. reflexivity. }
      split; [|split; [|split; [|split; [|split]]]]; auto; try (rewrite Hd'; auto).
      + constructor.
        * destruct (wf_len t W) as [p [Hp Hlp]]. exists (S p). split; [lia|].
          rewrite Hd', Hl. fold d n in Hlp. rewrite Hlp. simpl. lia.
        * rewrite Hd'. exact HU'.
        * rewrite Hd'. exact HC'.
        * rewrite Hs', Hd', Hz', Ho'. apply (wf_size t W).
        * rewrite Hg', Hd', Hl. unfold mul_load, load_grow_mul. simpl. lia.
        * rewrite Hg', Hd', Ho'. pose proof (wf_occ t W). pose proof (wf_growAt t W). fold d n in H, H0.
          unfold mul_load, load_grow_mul. simpl. lia.
        * unfold tgrow. simpl. apply (wf_bad t W).
      + intros k. unfold abs. rewrite Hz', Hd'. destruct (N.eqb_spec k 0); auto.
        apply dget_ext; auto. apply (wf_uq t W).
        intros v. rewrite (Hh k v n0). split; auto. intros [Hx|Hx]; auto.
        exfalso. eapply empty_has; eauto.
  Qed.

  Lemma grow_if_needed_spec t : WF t ->
    let t1 := grow_if_needed mix t in
    WF t1 /\ (forall k, abs t1 k = abs t k) /\ t_size t1 = t_size t /\ t_zero t1 = t_zero t /\
    (t_size t1 < t_growAt t1)%Z.
  Proof.
    intros W t1. unfold t1, grow_if_needed, need_grow.
    destruct (Z.leb_spec (t_growAt t) (t_size t)).
    - destruct (tgrow_spec t W) as [W' [Ha [Hs [Hz [Hl Ho]]]]].
      split; [exact W'|]. split; [exact Ha|]. split; [exact Hs|]. split; [exact Hz|].
      rewrite Hs. unfold tgrow. simpl. rewrite grow_len_double.
      pose proof (wf_len8 t W). pose proof (wf_size t W). pose proof (wf_occ t W). pose proof (wf_growAt t W).
      assert (zcount (t_zero t) <= 1)%Z by (destruct (t_zero t); simpl; lia).
      unfold mul_load, load_grow_mul. simpl. lia.
    - split; [exact W|]. split; [reflexivity|]. split; [reflexivity|]. split; [reflexivity|]. lia.
  Qed.

  (* ------------------------------------------------- put / put-if-absent *)
  Definition upd_abs (a : N -> option N) (k v : N) (k' : N) : option N :=
    if N.eqb k' k then Some v else a k'.
  Definition del_abs (a : N -> option N) (k : N) (k' : N) : option N :=
    if N.eqb k' k then None else a k'.
  Definition present (a : N -> option N) (k : N) : bool :=
    match a k with Some _ => true | None => false end.

  Lemma put_core_spec t k v : WF t -> k <> 0%N -> (t_size t < t_growAt t)%Z ->
    exists t2, put_core mix t k v = Some t2 /\ WF t2 /\
      (forall k', abs t2 k' = upd_abs (abs t) k v k') /\
      t_size t2 = (t_size t + (if present (abs t) k then 0 else 1))%Z /\
      length (t_data t2) = length (t_data t) /\ t_growAt t2 = t_growAt t.
  Proof.
    intros W Hk Hroom. unfold put_core.
    pose proof (probe_dget (t_data t) k (wf_uq t W) (wf_ch t W) Hk (wf_empty_slot t W)) as H.
    assert (Habsk : abs t k = dget (t_data t) k).
    { unfold abs. destruct (N.eqb_spec k 0); [contradiction|reflexivity]. }
    destruct (probe mix (t_data t) k) as [j|e|]; [| |contradiction].
    - (* update in place *)
      destruct H as [Hj [Hkey Hget]].
      eexists. split; [reflexivity|].
      set (d' := upd j (k, v) (t_data t)).
      assert (Hl : length d' = length (t_data t)) by apply upd_length.
      assert (Hks : forall i, skey d' i = skey (t_data t) i) by (intro; apply update_keys; auto).
      assert (HU' : Uq d') by (eapply keys_same_Uq; eauto; apply (wf_uq t W)).
      split; [|split; [|split]].
      + constructor; simpl; fold d'; rewrite ?Hl; auto; try apply W.
        * eapply keys_same_Ch; eauto. apply (wf_ch t W).
        * rewrite (keys_same_occ _ _ Hl Hks). apply (wf_size t W).
        * rewrite (keys_same_occ _ _ Hl Hks). apply (wf_occ t W).
      + intros k'. unfold abs, upd_abs. simpl. fold d'.
        destruct (N.eqb_spec k' 0) as [->|Hk'].
        * destruct (N.eqb_spec 0 k); [congruence|reflexivity].
        * destruct (N.eqb_spec k' k) as [->|Hne].
          -- apply has_dget; auto. exists j. rewrite Hl. split; auto. apply sl_upd_eq; auto.
          -- apply dget_ext; auto. apply (wf_uq t W). intros v'.
             unfold d'. rewrite (update_has (t_data t) j k v k' v' (wf_uq t W) Hj Hkey Hk Hk').
             split; [intros [[_ Hx]|[Hx _]]; [auto|contradiction]|auto].
      + unfold present. rewrite Habsk, Hget. simpl. lia.
      + simpl. fold d'. auto.
    - (* insert at the first empty slot *)
      destruct H as [He [Hz [Hget [Habs Hpath]]]].
      eexists. split; [reflexivity|].
      set (d' := upd e (k, v) (t_data t)).
      assert (Hl : length d' = length (t_data t)) by apply upd_length.
      assert (HU' : Uq d') by (apply insert_Uq; auto; apply (wf_uq t W)).
      assert (Ho : occ d' = occ (t_data t) + 1).
      { pose proof (occ_upd e (k, v) (t_data t) He). fold d' in H. rewrite nz_key, Hz in H.
        unfold nz in H. simpl in H. destruct (N.eqb_spec k 0); [contradiction|]. simpl in H. lia. }
      pose proof (wf_size t W) as Hsz.
      assert (0 <= zcount (t_zero t))%Z by (destruct (t_zero t); simpl; lia).
      split; [|split; [|split]].
      + constructor; simpl; fold d'; rewrite ?Hl; auto; try apply W.
        * apply insert_Ch; auto. apply (wf_ch t W).
        * rewrite Ho. lia.
        * rewrite Ho. lia.
      + intros k'. unfold abs, upd_abs. simpl. fold d'.
        destruct (N.eqb_spec k' 0) as [->|Hk'].
        * destruct (N.eqb_spec 0 k); [congruence|reflexivity].
        * destruct (N.eqb_spec k' k) as [->|Hne].
          -- apply has_dget; auto. exists e. rewrite Hl. split; auto. apply sl_upd_eq; auto.
          -- apply dget_ext; auto. apply (wf_uq t W). intros v'.
             unfold d'. rewrite (insert_has (t_data t) e k v k' v' He Hz Hk').
             split; [intros [Hx|[Hx _]]; [auto|contradiction]|auto].
      + unfold present. rewrite Habsk, Hget. simpl. lia.
      + simpl. fold d'. auto.
  Qed.

  Theorem tput_spec t k v : WF t ->
    WF (tput mix t k v) /\ (forall k', abs (tput mix t k v) k' = upd_abs (abs t) k v k') /\
    t_size (tput mix t k v) = (t_size t + (if present (abs t) k then 0 else 1))%Z.
  Proof.
    intros W. unfold tput. destruct (N.eqb_spec k 0) as [->|Hk].
    - split; [|split].
      + destruct W. constructor; simpl; auto. destruct (t_zero t); simpl in *; lia.
      + intros k'. unfold abs, upd_abs. simpl. destruct (N.eqb_spec k' 0); reflexivity.
      + simpl. unfold present, abs. simpl. destruct (t_zero t); simpl; lia.
    - destruct (grow_if_needed_spec t W) as [W1 [Ha1 [Hs1 [Hz1 Hroom]]]].
      destruct (put_core_spec (grow_if_needed mix t) k v W1 Hk Hroom) as [t2 [Hp [W2 [Ha2 [Hs2 _]]]]].
      rewrite Hp. split; [exact W2|]. split.
      + intros k'. rewrite Ha2. unfold upd_abs. rewrite Ha1. reflexivity.
      + rewrite Hs2, Hs1. unfold present. rewrite Ha1. reflexivity.
  Qed.

  Lemma pia_core_spec t k v : WF t -> k <> 0%N -> (t_size t < t_growAt t)%Z ->
    exists r, pia_core mix t k v = Some r /\
      match abs t k with
      | Some x => r = (t, x, false)
      | None => exists t2, r = (t2, v, true) /\ WF t2 /\ (forall k', abs t2 k' = upd_abs (abs t) k v k') /\
                           t_size t2 = (t_size t + 1)%Z
      end.
  Proof.
    intros W Hk Hroom.
    destruct (put_core_spec t k v W Hk Hroom) as [t2 [Hp [W2 [Ha2 [Hs2 _]]]]].
    unfold pia_core. unfold put_core in Hp.
    pose proof (probe_dget (t_data t) k (wf_uq t W) (wf_ch t W) Hk (wf_empty_slot t W)) as H.
    assert (Habsk : abs t k = dget (t_data t) k).
    { unfold abs. destruct (N.eqb_spec k 0); [contradiction|reflexivity]. }
    destruct (probe mix (t_data t) k) as [j|e|]; [| |contradiction].
    - destruct H as [_ [_ Hget]]. eexists. split; [reflexivity|]. rewrite Habsk, Hget. reflexivity.
    - destruct H as [_ [_ [Hget _]]]. eexists. split; [reflexivity|]. rewrite Habsk, Hget.
      inversion Hp; subst t2. eexists. split; [reflexivity|]. split; [exact W2|]. split; [exact Ha2|].
      rewrite Hs2. unfold present. rewrite Habsk, Hget. reflexivity.
  Qed.

  Theorem tpia_spec t k v : WF t ->
    match abs t k with
    | Some x => tpia mix t k v = (fst (fst (tpia mix t k v)), x, false) /\
                WF (fst (fst (tpia mix t k v))) /\
                (forall k', abs (fst (fst (tpia mix t k v))) k' = abs t k') /\
                t_size (fst (fst (tpia mix t k v))) = t_size t
    | None => exists t2, tpia mix t k v = (t2, v, true) /\ WF t2 /\
                (forall k', abs t2 k' = upd_abs (abs t) k v k') /\ t_size t2 = (t_size t + 1)%Z
    end.
  Proof.
    intros W. unfold tpia. destruct (N.eqb_spec k 0) as [->|Hk].
    - unfold abs at 1. simpl. destruct (t_zero t) eqn:Ez.
      + simpl. split; [reflexivity|]. split; [exact W|]. split; reflexivity.
      + eexists. split; [reflexivity|]. split; [|split].
        * destruct W. constructor; simpl; auto. rewrite Ez in *. simpl in *. lia.
        * intros k'. unfold abs, upd_abs. simpl. destruct (N.eqb_spec k' 0); auto.
        * reflexivity.
    - destruct (grow_if_needed_spec t W) as [W1 [Ha1 [Hs1 [Hz1 Hroom]]]].
      destruct (pia_core_spec (grow_if_needed mix t) k v W1 Hk Hroom) as [r [Hp Hr]].
      rewrite Hp. rewrite Ha1 in Hr. destruct (abs t k).
      + subst r. simpl. split; [reflexivity|]. split; [exact W1|]. split; [exact Ha1|exact Hs1].
      + destruct Hr as [t2 [-> [W2 [Ha2 Hs2]]]]. exists t2.
        split; [reflexivity|]. split; [exact W2|]. split.
        * intros k'. rewrite Ha2. unfold upd_abs. rewrite Ha1. reflexivity.
        * lia.
  Qed.

  (* ------------------------------------------------------------ delete *)
  Lemma del_at_spec t j : WF t -> j < length (t_data t) -> skey (t_data t) j <> 0%N ->
    let t' := del_at mix t j in
    WF t' /\ (forall k', abs t' k' = del_abs (abs t) (skey (t_data t) j) k') /\
    t_size t' = (t_size t - 1)%Z /\ t_zero t' = t_zero t /\
    length (t_data t') = length (t_data t) /\ t_growAt t' = t_growAt t.
  Proof.
    intros W Hj Hnz. unfold del_at. rewrite upd_length.
    destruct (delete_ok mix (t_data t) j (wf_uq t W) (wf_ch t W) Hj Hnz) as [d' [Hb [Hl [HU' [HC' [Ho Hh]]]]]].
    { pose proof (occ_le (t_data t)). destruct W. lia. }
    rewrite Hb. simpl.
    pose proof (wf_size t W) as Hsz.
    split; [|split; [|repeat split; auto]].
    - constructor; simpl; rewrite ?Hl; auto; try apply W.
      + lia.
      + pose proof (wf_occ t W). lia.
    - intros k'. unfold abs, del_abs. simpl.
      destruct (N.eqb_spec k' 0) as [->|Hk'].
      + destruct (N.eqb_spec 0 (skey (t_data t) j)); [congruence|reflexivity].
      + destruct (N.eqb_spec k' (skey (t_data t) j)) as [->|Hne].
        * apply dget_absent. intros i Hi Hki.
          assert (has d' (skey (t_data t) j) (snd (sl d' i))).
          { exists i. split; auto. rewrite <- Hki. unfold skey. destruct (sl d' i); reflexivity. }
          apply Hh in H; auto. tauto.
        * apply dget_ext; auto. apply (wf_uq t W). intros v'. rewrite (Hh k' v' Hk'). tauto.
  Qed.

  Theorem tdel_spec t k : WF t ->
    WF (fst (tdel mix t k)) /\ snd (tdel mix t k) = present (abs t) k /\
    (forall k', abs (fst (tdel mix t k)) k' = del_abs (abs t) k k') /\
    t_size (fst (tdel mix t k)) = (t_size t - (if present (abs t) k then 1 else 0))%Z.
  Proof.
    intros W. unfold tdel. destruct (N.eqb_spec k 0) as [->|Hk].
    - assert (Hz0 : abs t 0%N = t_zero t) by reflexivity.
      unfold present. rewrite Hz0. destruct (t_zero t) eqn:Ez; simpl.
      + split; [|split; [reflexivity|split]].
        * destruct W. constructor; simpl; auto. rewrite Ez in *. simpl in *. lia.
        * intros k'. unfold abs, del_abs. simpl. destruct (N.eqb_spec k' 0); auto.
        * reflexivity.
      + split; [exact W|split; [reflexivity|split]].
        * intros k'. unfold del_abs. destruct (N.eqb_spec k' 0) as [->|]; auto.
        * lia.
    - pose proof (probe_dget (t_data t) k (wf_uq t W) (wf_ch t W) Hk (wf_empty_slot t W)) as H.
      assert (Habsk : abs t k = dget (t_data t) k).
      { unfold abs. destruct (N.eqb_spec k 0); [contradiction|reflexivity]. }
      unfold present. rewrite Habsk.
      destruct (probe mix (t_data t) k) as [j|e|]; [| |contradiction].
      + destruct H as [Hj [Hkey Hget]]. rewrite Hget. simpl.
        assert (Hnz : skey (t_data t) j <> 0%N) by congruence.
        destruct (del_at_spec t j W Hj Hnz) as [W' [Ha [Hs _]]].
        rewrite Hkey in Ha. split; [exact W'|split; [reflexivity|split; [exact Ha|exact Hs]]].
      + destruct H as [_ [_ [Hget _]]]. rewrite Hget. simpl.
        split; [exact W|split; [reflexivity|split]].
        * intros k'. unfold del_abs. destruct (N.eqb_spec k' k) as [->|]; auto. congruence.
        * lia.
  Qed.
End WFOps.
