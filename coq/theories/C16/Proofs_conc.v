(* C16 — the interleaving model (Conc.v): invariants for every schedule and
   the two computed counter-examples. *)
From Sdns Require Import Common.Base Gen.C16 C16.Model C16.Conc.
From Sdns Require Import C16.Proofs_cyc C16.Proofs_tab C16.Proofs_wf C16.Proofs_more C16.Proofs_seg.
Open Scope nat_scope.

Lemma sum_sizes_same l : Conc.sum_sizes l = Proofs_seg.sum_sizes l.
Proof. induction l; simpl; congruence. Qed.

Lemma lupd_length {A} i (x : A) l : length (lupd i x l) = length l.
Proof. revert i; induction l; intros [|i]; simpl; auto. Qed.
Lemma nth_lupd_eq {A} i (x : A) l d : i < length l -> nth i (lupd i x l) d = x.
Proof. revert i; induction l; intros [|i]; simpl; intros; try lia; auto. apply IHl; lia. Qed.
Lemma nth_lupd_neq {A} i j (x : A) l d : i <> j -> nth j (lupd i x l) d = nth j l d.
Proof. revert i j; induction l; intros [|i] [|j]; simpl; intros; try lia; auto. Qed.
Lemma in_lupd {A} i (x y : A) l : In y (lupd i x l) -> y = x \/ In y l.
Proof.
  revert i; induction l; intros [|i]; simpl; auto.
  - intros [H|H]; auto.
  - intros [H|H]; auto. destruct (IHl i H); auto.
Qed.

(* what a thread still owes the counter *)
Definition owed (p : pc) : Z :=
  match p with
  | SwcAdd _ _ true => 1
  | SwcSub _ _ d => - d
  | SpSub _ _ _ _ d => - d
  | OpAdd _ delta => delta
  | ClrSub _ d => - d
  | _ => 0
  end.
Fixpoint sum_owed (thr : list (pc * list call)) : Z :=
  match thr with [] => 0%Z | th :: r => (owed (fst th) + sum_owed r)%Z end.
Lemma sum_owed_lupd tid th thr : tid < length thr ->
  sum_owed (lupd tid th thr) = (sum_owed thr - owed (fst (nth tid thr (Idle, []))) + owed (fst th))%Z.
Proof.
  revert tid; induction thr; intros [|tid]; simpl; intros; try lia.
  rewrite IHthr by lia. lia.
Qed.

Definition pc_ok (p : pc) : Prop :=
  match p with
  | SwcSub _ _ d => (0 <= d)%Z
  | SpSub _ _ _ _ d => (0 <= d)%Z
  | OpAdd _ delta => (delta <= 1)%Z
  | ClrSub _ d => (0 <= d)%Z
  | _ => True
  end.
Definition thr_ok (th : pc * list call) : Prop := pc_ok (fst th).

(* which segment lock a thread holds *)
Section Holds.
  Variable sidx : nat -> N -> nat.
  Definition holds (n : nat) (p : pc) : option nat :=
    match p with
    | SwcAdd k _ _ | SwcLoad k _ | SwcSub k _ _ => Some (sidx n k)
    | OpAdd i _ => Some i
    | ClrSub i _ => Some i
    | _ => None
    end.
End Holds.

Section ConcProofs.
  Variable mix : N -> N.
  Variable sidx : nat -> N -> nat.
  Variable eoff : N -> Z.
  Variable rescan : bool.
  Hypothesis sidx_lt : forall n k, 0 < n -> sidx n k < n.
  Notation WF := (WF mix).
  Notation step := (step mix sidx eoff rescan).
  Notation run := (run mix sidx eoff rescan).

  Definition SegsOK (m : segmap) : Prop :=
    0 < nsegs m /\ (forall i, i < nsegs m -> WF (seg m i)) /\
    (forall i k, i < nsegs m -> abs (seg m i) k <> None -> sidx (nsegs m) k = i).

  Lemma segs_ok_count m c : SegsOK m -> SegsOK (mk_segmap (sm_segs m) c).
  Proof. intros H. exact H. Qed.

  Lemma segs_ok_set m j t' c : SegsOK m -> j < nsegs m -> WF t' ->
    (forall k, abs t' k <> None -> sidx (nsegs m) k = j) ->
    SegsOK (set_seg m j t' c) /\ nsegs (set_seg m j t' c) = nsegs m /\
    Conc.sum_sizes (sm_segs (set_seg m j t' c)) = (Conc.sum_sizes (sm_segs m) - t_size (seg m j) + t_size t')%Z.
  Proof.
    intros [Hn [Hw Hh]] Hj W' Hhome.
    assert (Hn' : nsegs (set_seg m j t' c) = nsegs m) by (unfold nsegs, set_seg; simpl; apply upd_seg_length).
    assert (Hseg : forall i, seg (set_seg m j t' c) i = if i =? j then t' else seg m i).
    { intros i. unfold seg, set_seg. simpl. destruct (Nat.eqb_spec i j) as [->|Hne].
      - apply nth_upd_seg_eq. exact Hj.
      - apply nth_upd_seg_neq. auto. }
    split; [|split; [exact Hn'|]].
    - split; [lia|]. split.
      + intros i Hi. rewrite Hseg. destruct (Nat.eqb_spec i j); auto. apply Hw. lia.
      + intros i k Hi. rewrite Hn', Hseg. destruct (Nat.eqb_spec i j) as [->|]; auto. apply Hh. lia.
    - rewrite !sum_sizes_same. unfold set_seg. simpl. apply (sum_upd_seg j t' (sm_segs m) dummy_table Hj).
  Qed.

  (* the table steps: new table well-formed, keys stay in their segment, size change *)
  Lemma put_ok t k v i n : WF t -> (forall k', abs t k' <> None -> sidx n k' = i) -> sidx n k = i ->
    WF (tput mix t k v) /\ (forall k', abs (tput mix t k v) k' <> None -> sidx n k' = i) /\
    t_size (tput mix t k v) = (t_size t + (if (tlen t <? tlen (tput mix t k v))%Z then 1 else 0))%Z.
  Proof.
    intros W Hh Hk. destruct (tput_spec mix t k v W) as [W' [Ha Hs]].
    split; [exact W'|]. split.
    - intros k' Hk'. rewrite Ha in Hk'. unfold upd_abs in Hk'. destruct (N.eqb_spec k' k); [subst; auto|auto].
    - unfold tlen. rewrite Hs. destruct (present (abs t) k);
        [destruct (Z.ltb_spec (t_size t) (t_size t + 0))|destruct (Z.ltb_spec (t_size t) (t_size t + 1))]; lia.
  Qed.
  Lemma evict_ok t off nmax k i n : WF t -> (forall k', abs t k' <> None -> sidx n k' = i) ->
    let r := tevict mix t off nmax k in
    WF (fst r) /\ (forall k', abs (fst r) k' <> None -> sidx n k' = i) /\
    t_size (fst r) = (t_size t - snd r)%Z /\ (0 <= snd r)%Z.
  Proof.
    intros W Hh r. destruct (tevict_spec mix t off nmax k W) as [W' [Hr [Hs [Hsh _]]]]. fold r in W', Hr, Hs, Hsh.
    split; [exact W'|]. split; [|split; [exact Hs|lia]].
    intros k' Hk'. destruct (Hsh k') as [E|E]; [rewrite E in Hk'; auto|congruence].
  Qed.
  Lemma del_ok t k i n : WF t -> (forall k', abs t k' <> None -> sidx n k' = i) ->
    let r := tdel mix t k in
    WF (fst r) /\ (forall k', abs (fst r) k' <> None -> sidx n k' = i) /\
    t_size (fst r) = (t_size t + (if snd r then (-1) else 0))%Z.
  Proof.
    intros W Hh r. destruct (tdel_spec mix t k W) as [W' [Hr [Ha Hs]]]. fold r in W', Hr, Ha, Hs.
    split; [exact W'|]. split.
    - intros k' Hk'. rewrite Ha in Hk'. unfold del_abs in Hk'. destruct (N.eqb k' k); [congruence|auto].
    - rewrite Hs, Hr. destruct (present (abs t) k); lia.
  Qed.
  Lemma table_op_ok t c i n : WF t -> (forall k', abs t k' <> None -> sidx n k' = i) -> sidx n (call_key c) = i ->
    let r := table_op mix t c in
    WF (fst r) /\ (forall k', abs (fst r) k' <> None -> sidx n k' = i) /\
    t_size (fst r) = (t_size t + snd r)%Z /\ (snd r <= 1)%Z.
  Proof.
    intros W Hh Hk. destruct c; simpl in *.
    - split; [exact W|]. split; [exact Hh|lia].
    - destruct (put_ok t k v i n W Hh Hk) as [A [B C]]. split; [exact A|]. split; [exact B|]. split; [exact C|].
      destruct (tlen t <? tlen (tput mix t k v))%Z; lia.
    - pose proof (tpia_spec mix t k v W) as H. destruct (abs t k) eqn:Ea.
      + destruct H as [He [W' [Ha Hs]]]. rewrite He. simpl. split; [exact W'|]. split; [|lia].
        intros k' Hk'. rewrite Ha in Hk'. auto.
      + destruct H as [t2 [He [W' [Ha Hs]]]]. rewrite He. simpl. split; [exact W'|]. split; [|lia].
        intros k' Hk'. rewrite Ha in Hk'. unfold upd_abs in Hk'. destruct (N.eqb_spec k' k); [subst; auto|auto].
    - pose proof (del_ok t k i n W Hh) as H. destruct (tdel mix t k) as [t' r]. simpl in *.
      destruct H as [A [B C]]. split; [exact A|]. split; [exact B|]. split; [exact C|]. destruct r; lia.
    - destruct (tget mix t k) as [cur|] eqn:Eg; [|split; [exact W|split; [exact Hh|simpl; lia]]].
      destruct (N.eqb cur old); [|split; [exact W|split; [exact Hh|simpl; lia]]].
      rewrite (tget_abs mix t k W) in Eg.
      destruct (tput_spec mix t k v W) as [W' [Ha Hs]]. simpl. split; [exact W'|]. split.
      + intros k' Hk'. rewrite Ha in Hk'. unfold upd_abs in Hk'. destruct (N.eqb_spec k' k); [subst; auto|auto].
      + rewrite Hs. unfold present. rewrite Eg. lia.
    - destruct (tget mix t k) as [cur|] eqn:Eg; [|split; [exact W|split; [exact Hh|simpl; lia]]].
      destruct (N.eqb cur old); [|split; [exact W|split; [exact Hh|simpl; lia]]].
      pose proof (del_ok t k i n W Hh) as H. destruct (tdel mix t k) as [t' r]. simpl in *.
      destruct H as [A [B C]]. split; [exact A|]. split; [exact B|]. split; [exact C|]. destruct r; lia.
    - split; [exact W|]. split; [exact Hh|simpl; lia].
    - split; [exact W|]. split; [exact Hh|simpl; lia].
    - split; [exact W|]. split; [exact Hh|simpl; lia].
  Qed.

  (* ------------------------------------------------------ the invariant *)
  Record Inv (s : cstate) : Prop := {
    i_segs : SegsOK (c_map s);
    i_ledger : (sm_count (c_map s) + sum_owed (c_thr s))%Z = Conc.sum_sizes (sm_segs (c_map s));
    i_thr : forall th, In th (c_thr s) -> thr_ok th }.

  Lemma with_pc_inv s tid m' locks' p' rest' p rest :
    Inv s -> tid < length (c_thr s) -> nth tid (c_thr s) (Idle, []) = (p, rest) ->
    SegsOK m' -> thr_ok (p', rest') ->
    (sm_count m' + owed p' - Conc.sum_sizes (sm_segs m') = sm_count (c_map s) + owed p - Conc.sum_sizes (sm_segs (c_map s)))%Z ->
    Inv (with_pc s tid m' locks' p' rest').
  Proof.
    intros [Hs Hl Ht] Htid Hth Hs' Hok Heq. constructor; simpl.
    - exact Hs'.
    - rewrite sum_owed_lupd by auto. rewrite Hth. simpl. lia.
    - intros th Hin. apply in_lupd in Hin. destruct Hin as [->|Hin]; auto.
  Qed.

  Lemma ghost_inv s e o : Inv s -> Inv (with_ghost s e o).
  Proof. intros [A B C]. constructor; simpl; auto. Qed.

  Lemma seg_home m i : SegsOK m -> i < nsegs m -> forall k', abs (seg m i) k' <> None -> sidx (nsegs m) k' = i.
  Proof. intros [_ [_ H]] Hi k'. apply H. exact Hi. Qed.

  Lemma step_inv s tid s' : Inv s -> step s tid = Some s' -> Inv s'.
  Proof.
    intros I. pose proof I as [Hs Hl Ht]. unfold Conc.step.
    destruct (nth tid (c_thr s) (Idle, [])) as [p rest] eqn:Eth.
    destruct (Nat.leb_spec (length (c_thr s)) tid) as [|Htid]; [discriminate|].
    assert (Hin : In (p, rest) (c_thr s)) by (rewrite <- Eth; apply nth_In; exact Htid).
    pose proof (Ht _ Hin) as Hpok. unfold thr_ok in Hpok. simpl in Hpok.
    set (m := c_map s) in *. set (n := nsegs m) in *.
    assert (Hn : 0 < n) by apply Hs.
    destruct p; simpl in Hpok.
    - (* Idle: invoke the next call *)
      destruct rest as [|c rest']; [discriminate|]. intros E; inversion E; subst s'.
      eapply with_pc_inv; [exact I|exact Htid|exact Eth|eassumption| |].
      + unfold thr_ok. destruct c; simpl; auto.
      + subst m. destruct c; simpl; lia.
    - (* SwcLock *)
      destruct (lock_free s (sidx n k)); [|discriminate]. intros E; inversion E; subst s'.
      assert (Hi : sidx n k < n) by (apply sidx_lt; auto).
      destruct (put_ok (seg m (sidx n k)) k v (sidx n k) n) as [W' [Hh' Hsz]]; auto.
      { apply Hs; auto. } { apply seg_home; auto. }
      destruct (segs_ok_set m (sidx n k) (tput mix (seg m (sidx n k)) k v) (sm_count m) Hs Hi W' Hh') as [S' [_ Hsum]].
      eapply with_pc_inv; [exact I|exact Htid|exact Eth|eassumption| |].
      + unfold thr_ok; simpl; auto.
      + rewrite Hsum. simpl. destruct (tlen (seg m (sidx n k)) <? tlen (tput mix (seg m (sidx n k)) k v))%Z; subst n m; simpl; lia.
    - (* SwcAdd *)
      intros E; inversion E; subst s'.
      eapply with_pc_inv; [exact I|exact Htid|exact Eth|eassumption| |].
      + unfold thr_ok; simpl; auto.
      + subst n m. simpl. destruct isnew; lia.
    - (* SwcLoad *)
      assert (Hi : sidx n k < n) by (apply sidx_lt; auto).
      destruct (Z.ltb_spec cap (sm_count m)).
      + pose proof (evict_ok (seg m (sidx n k)) (eoff k) evict_toll k (sidx n k) n) as H1.
        destruct (tevict mix (seg m (sidx n k)) (eoff k) evict_toll k) as [t2 d]. simpl in H1.
        destruct H1 as [W' [Hh' [Hsz Hd]]]. { apply Hs; auto. } { apply seg_home; auto. }
        intros E; inversion E; subst s'. apply ghost_inv.
        destruct (segs_ok_set m (sidx n k) t2 (sm_count m) Hs Hi W' Hh') as [S' [_ Hsum]].
        eapply with_pc_inv; [exact I|exact Htid|exact Eth|eassumption| |].
        * unfold thr_ok; simpl; auto.
        * rewrite Hsum. subst n m. simpl. lia.
      + intros E; inversion E; subst s'. apply ghost_inv.
        eapply with_pc_inv; [exact I|exact Htid|exact Eth|eassumption| |]; [unfold thr_ok; simpl; auto|subst n m; simpl; lia].
    - (* SwcSub *)
      intros E; inversion E; subst s'.
      eapply with_pc_inv; [exact I|exact Htid|exact Eth|eassumption| |].
      + unfold thr_ok; simpl. destruct (evict_toll_deficit - d <=? 0)%Z; simpl; auto.
      + subst n m. simpl. destruct (Z.ltb_spec 0 d); destruct (evict_toll_deficit - d <=? 0)%Z; simpl; lia.
    - (* SpLoad *)
      destruct (sp_continue rescan n i cap deficit).
      + destruct (sm_count m <=? cap)%Z; intros E; inversion E; subst s'; [apply ghost_inv|];
          (eapply with_pc_inv; [exact I|exact Htid|exact Eth|eassumption| |]; [unfold thr_ok; simpl; auto|subst n m; simpl; lia]).
      + intros E; inversion E; subst s'. apply ghost_inv.
        eapply with_pc_inv; [exact I|exact Htid|exact Eth|eassumption| |]; [unfold thr_ok; simpl; auto|subst n m; simpl; lia].
    - (* SpEvict *)
      set (j := (sidx n k + i) mod n).
      assert (Hj : j < n) by (apply Nat.mod_upper_bound; lia).
      destruct (lock_free s j); [|discriminate].
      pose proof (evict_ok (seg m j) (eoff k) deficit k j n) as H1.
      destruct (tevict mix (seg m j) (eoff k) deficit k) as [t2 d]. simpl in H1.
      destruct H1 as [W' [Hh' [Hsz Hd]]]. { apply Hs; auto. } { apply seg_home; auto. }
      intros E; inversion E; subst s'. apply ghost_inv.
      destruct (segs_ok_set m j t2 (sm_count m) Hs Hj W' Hh') as [S' [_ Hsum]].
      eapply with_pc_inv; [exact I|exact Htid|exact Eth|eassumption| |].
      + unfold thr_ok; simpl; auto.
      + rewrite Hsum. subst j n m. simpl. lia.
    - (* SpSub *)
      destruct (Z.ltb_spec 0 d); intros E; inversion E; subst s'.
      + eapply with_pc_inv; [exact I|exact Htid|exact Eth|eassumption| |]; [unfold thr_ok; simpl; auto|subst n m; simpl; lia].
      + eapply with_pc_inv; [exact I|exact Htid|exact Eth|eassumption| |]; [unfold thr_ok; simpl; auto|subst n m; simpl; lia].
    - (* OpLock *)
      set (i := sidx n (call_key c)).
      assert (Hi : i < n) by (apply sidx_lt; auto).
      destruct (lock_free s i); [|discriminate].
      pose proof (table_op_ok (seg m i) c i n) as H1.
      destruct (table_op mix (seg m i) c) as [t' delta]. simpl in H1.
      destruct H1 as [W' [Hh' [Hsz Hd]]]; auto. { apply Hs; auto. } { apply seg_home; auto. }
      intros E; inversion E; subst s'. apply ghost_inv.
      destruct (segs_ok_set m i t' (sm_count m) Hs Hi W' Hh') as [S' [_ Hsum]].
      eapply with_pc_inv; [exact I|exact Htid|exact Eth|eassumption| |].
      + unfold thr_ok; simpl; auto.
      + rewrite Hsum. subst i n m. simpl. lia.
    - (* OpAdd *)
      intros E; inversion E; subst s'.
      eapply with_pc_inv; [exact I|exact Htid|exact Eth|eassumption| |].
      + unfold thr_ok; simpl; auto.
      + subst n m. simpl. lia.
    - (* ClrSeg: lock, remember Len, clear *)
      destruct (Nat.ltb_spec i n) as [Hi|Hi].
      + destruct (lock_free s i); [|discriminate]. intros E; inversion E; subst s'. apply ghost_inv.
        assert (W : WF (seg m i)) by (apply Hs; auto).
        destruct (tclear_spec mix (seg m i) W) as [W' [Ha' Hsz']].
        destruct (segs_ok_set m i (tclear (seg m i)) (sm_count m) Hs Hi W') as [S' [_ Hsum]].
        { intros k' Hk'. rewrite Ha' in Hk'. congruence. }
        eapply with_pc_inv; [exact I|exact Htid|exact Eth|eassumption| |].
        * unfold thr_ok; simpl. pose proof (wf_size mix _ W). unfold tlen. destruct (t_zero (seg m i)); simpl in *; lia.
        * rewrite Hsum, Hsz'. subst n m. simpl. unfold tlen. lia.
      + intros E; inversion E; subst s'. eapply with_pc_inv; [exact I|exact Htid|exact Eth|eassumption| |]; [unfold thr_ok; simpl; auto|subst n m; simpl; lia].
    - (* ClrSub *)
      intros E; inversion E; subst s'.
      eapply with_pc_inv; [exact I|exact Htid|exact Eth|eassumption| |].
      + unfold thr_ok; simpl; auto.
      + subst n m. simpl. lia.
    - (* RdGet *)
      destruct (lock_free s (sidx n k)); [|discriminate]. intros E; inversion E; subst s'. apply ghost_inv.
      eapply with_pc_inv; [exact I|exact Htid|exact Eth|eassumption| |]; [unfold thr_ok; simpl; auto|subst n m; simpl; lia].
    - (* FeSeg *)
      destruct (i <? n).
      + destruct (lock_free s i); [|discriminate]. intros E; inversion E; subst s'.
        eapply with_pc_inv; [exact I|exact Htid|exact Eth|eassumption| |]; [unfold thr_ok; simpl; auto|subst n m; simpl; lia].
      + intros E; inversion E; subst s'. apply ghost_inv.
        eapply with_pc_inv; [exact I|exact Htid|exact Eth|eassumption| |]; [unfold thr_ok; simpl; auto|subst n m; simpl; lia].
  Qed.

  Lemma run_inv sched : forall s, Inv s -> Inv (run s sched).
  Proof.
    induction sched as [|tid r IH]; intros s I; simpl; auto.
    destruct (step s tid) eqn:E; apply IH; auto. eapply step_inv; eauto.
  Qed.

  Lemma sum_owed_idle progs : sum_owed (map (fun p : list call => (Idle, p)) progs) = 0%Z.
  Proof. induction progs; simpl; auto. Qed.

  Lemma init_inv m progs : SWF mix sidx m -> Inv (init m progs).
  Proof.
    intros S. constructor; simpl.
    - split; [apply S|]. split; [apply S|apply S].
    - rewrite sum_owed_idle, sum_sizes_same. rewrite (s_count mix sidx m S). lia.
    - intros th Hin. apply in_map_iff in Hin. destruct Hin as [p [<- Hin]]. unfold thr_ok; simpl; auto.
  Qed.

  Lemma quiescent_owed thr :
    forallb (fun th : pc * list call => match th with (Idle, []) => true | _ => false end) thr = true ->
    sum_owed thr = 0%Z.
  Proof.
    induction thr as [|[p r] thr IH]; simpl; auto. intros H. apply andb_true_iff in H. destruct H as [H1 H2].
    destruct p; try discriminate. simpl. rewrite IH; auto.
  Qed.

  Lemma owed_le_inside thr : (forall th, In th thr -> thr_ok th) ->
    (sum_owed thr <= Z.of_nat (length (filter (fun th : pc * list call => match fst th with Idle => false | _ => true end) thr)))%Z.
  Proof.
    induction thr as [|[p r] thr IH]; simpl; intros H; [lia|].
    assert (Hp : thr_ok (p, r)) by (apply H; left; reflexivity). unfold thr_ok in Hp.
    specialize (IH (fun th Hin => H th (or_intror Hin))).
    destruct p; simpl in *; try lia.
    destruct isnew; lia.
  Qed.

  (* ------------------------------------------------------------ theorems *)
  (* Once every caller has returned, Len() is the number of reachable entries —
     for every schedule of any number of threads running SetWithCap / Set /
     PutIfNotExists / Del / CompareAndSwap / CompareAndDelete / Clear. *)
  Theorem count_eq_entries_at_quiescence m0 progs sched :
    SWF mix sidx m0 ->
    let s := run (init m0 progs) sched in
    quiescent s = true ->
    SWF mix sidx (c_map s) /\ sm_len (c_map s) = entries s /\
    sm_len (c_map s) = Z.of_nat (length (sm_all (c_map s))) /\
    forall k v, In (k, v) (sm_all (c_map s)) <-> sabs sidx (c_map s) k = Some v.
  Proof.
    intros S s Hq.
    assert (I : Inv s) by (apply run_inv, init_inv; auto).
    destruct I as [[Hn [Hw Hh]] Hl Ht].
    rewrite (quiescent_owed _ Hq) in Hl.
    assert (S' : SWF mix sidx (c_map s)).
    { constructor; auto. rewrite <- sum_sizes_same. lia. }
    split; [exact S'|]. split; [unfold sm_len, entries; lia|].
    apply (sm_len_all mix sidx sidx_lt (c_map s) S').
  Qed.

  (* In every reachable state the number of entries exceeds the counter by at
     most the number of calls in flight (the part of the capacity bound that
     holds; the full statement is refuted below). *)
  Theorem occupancy_bound_partial m0 progs sched :
    SWF mix sidx m0 ->
    let s := run (init m0 progs) sched in
    (entries s <= sm_count (c_map s) + inside s)%Z.
  Proof.
    intros S s.
    assert (I : Inv s) by (apply run_inv, init_inv; auto).
    destruct I as [_ Hl Ht]. pose proof (owed_le_inside _ Ht). unfold entries, inside. lia.
  Qed.


  (* ------------------------------------------------ capacity, every schedule *)
  (* what a SetWithCap call in flight may still add net to the map: 1 until it has
     evicted something, 0 afterwards *)
  Definition cr (p : pc) : Z :=
    match p with
    | SwcAdd _ _ isnew => if isnew then 1 else 0
    | SwcLoad _ _ => 1
    | SwcSub _ _ d => Z.max (1 - d) 0
    | SpLoad _ _ _ deficit => Z.max (deficit - 1) 0
    | SpEvict _ _ _ deficit => Z.max (deficit - 1) 0
    | SpSub _ _ _ deficit d => Z.max (deficit - d - 1) 0
    | _ => 0
    end.
  Fixpoint sum_cr (thr : list (pc * list call)) : Z :=
    match thr with [] => 0%Z | th :: r => (cr (fst th) + sum_cr r)%Z end.
  Lemma sum_cr_lupd tid th thr : tid < length thr ->
    sum_cr (lupd tid th thr) = (sum_cr thr - cr (fst (nth tid thr (Idle, []))) + cr (fst th))%Z.
  Proof.
    revert tid; induction thr; intros [|tid]; simpl; intros; try lia.
    rewrite IHthr by lia. lia.
  Qed.

  (* programs whose only inserting call is SetWithCap with one capacity (the cache.Cache API) *)
  Definition capped (cap : Z) (c : call) : Prop :=
    match c with CSwc _ _ c' => c' = cap | CSet _ _ => False | CPia _ _ => False | _ => True end.
  Definition pc_capped (cap : Z) (p : pc) : Prop :=
    match p with
    | SwcLock _ _ c => c = cap
    | SwcAdd _ c _ => c = cap
    | SwcLoad _ c => c = cap
    | SwcSub _ c d => c = cap /\ (0 <= d)%Z
    | SpLoad _ c _ deficit => c = cap /\ (deficit <= 2)%Z
    | SpEvict _ c _ deficit => c = cap /\ (deficit <= 2)%Z
    | SpSub _ c _ deficit d => c = cap /\ (deficit <= 2)%Z /\ (0 <= d)%Z
    | OpLock c => capped cap c
    | OpAdd _ delta => (delta <= 0)%Z
    | ClrSub _ d => (0 <= d)%Z
    | _ => True
    end.
  Definition thr_capped (cap : Z) (th : pc * list call) : Prop :=
    pc_capped cap (fst th) /\ forall c, In c (snd th) -> capped cap c.

  Lemma capped_owed_le_cr cap p : pc_capped cap p -> (owed p <= cr p)%Z.
  Proof. destruct p; simpl; try lia; destruct isnew; lia. Qed.
  Lemma capped_cr_le_1 cap p : pc_capped cap p -> (0 <= cr p <= match p with Idle => 0 | _ => 1 end)%Z.
  Proof. destruct p; simpl; try lia; destruct isnew; lia. Qed.
  Lemma sum_owed_le_cr cap thr : (forall th, In th thr -> thr_capped cap th) -> (sum_owed thr <= sum_cr thr)%Z.
  Proof.
    induction thr as [|th thr IH]; simpl; intros H; [lia|].
    pose proof (capped_owed_le_cr cap (fst th) (proj1 (H th (or_introl eq_refl)))).
    specialize (IH (fun t Hin => H t (or_intror Hin))). lia.
  Qed.
  Lemma sum_cr_le_inside cap thr : (forall th, In th thr -> thr_capped cap th) ->
    (sum_cr thr <= Z.of_nat (length (filter (fun th : pc * list call => match fst th with Idle => false | _ => true end) thr)))%Z.
  Proof.
    induction thr as [|[p r] thr IH]; simpl; intros H; [lia|].
    pose proof (capped_cr_le_1 cap p (proj1 (H (p, r) (or_introl eq_refl)))) as Hp.
    specialize (IH (fun t Hin => H t (or_intror Hin))).
    destruct p; simpl in *; lia.
  Qed.

  Lemma table_op_nonpos cap t c : capped cap c -> (snd (table_op mix t c) <= 0)%Z.
  Proof.
    destruct c; simpl; intros H; try contradiction; try lia.
    - destruct (tdel mix t k) as [t' r]. simpl. destruct r; lia.
    - destruct (tget mix t k) as [cur|]; simpl; [|lia]. destruct (N.eqb cur old); simpl; lia.
    - destruct (tget mix t k) as [cur|]; simpl; [|lia]. destruct (N.eqb cur old); simpl; [|lia].
      destruct (tdel mix t k) as [t' r]. simpl. destruct r; lia.
  Qed.

  Record CapInv (cap : Z) (s : cstate) : Prop := {
    ci_thr : forall th, In th (c_thr s) -> thr_capped cap th;
    ci_exh : (0 <= c_exh s)%Z;
    ci_bound : (entries s <= cap + sum_cr (c_thr s) + c_exh s)%Z }.

  (* a step keeps the bound if it either respects the credits (A) or has just seen the counter within capacity (B) *)
  Lemma cap_step cap s s' tid p rest p' rest' :
    Inv s -> Inv s' -> CapInv cap s -> tid < length (c_thr s) -> nth tid (c_thr s) (Idle, []) = (p, rest) ->
    c_thr s' = lupd tid (p', rest') (c_thr s) ->
    thr_capped cap (p', rest') -> (0 <= c_exh s')%Z ->
    ((sm_count (c_map s') - sm_count (c_map s) + owed p' - owed p <= cr p' - cr p + c_exh s' - c_exh s)%Z \/
     (sm_count (c_map s') <= cap)%Z) ->
    CapInv cap s'.
  Proof.
    intros I I' [Ct Ce Cb] Htid Hth Hthr Hok Hexh Hcond.
    pose proof (i_ledger s I) as L. pose proof (i_ledger s' I') as L'.
    rewrite Hthr in L'. rewrite sum_owed_lupd in L' by auto. rewrite Hth in L'. simpl in L'.
    assert (Ct' : forall th, In th (c_thr s') -> thr_capped cap th).
    { intros th Hin. rewrite Hthr in Hin. apply in_lupd in Hin. destruct Hin as [->|Hin]; auto. }
    constructor; auto.
    unfold entries in *. destruct Hcond as [HA|HB].
    - rewrite Hthr, sum_cr_lupd by auto. rewrite Hth. simpl. lia.
    - pose proof (sum_owed_le_cr cap (c_thr s') Ct') as Hle.
      rewrite Hthr in Hle at 1. rewrite sum_owed_lupd in Hle by auto. rewrite Hth in Hle. simpl in Hle. lia.
  Qed.

  Ltac capstep_ cap s tid I I' C Htid Eth := eapply (cap_step cap s _ tid _ _ _ _ I I' C Htid Eth eq_refl); simpl; [ |unfold repay; lia| ].

  Lemma step_cap cap s tid s' : Inv s -> CapInv cap s -> step s tid = Some s' -> CapInv cap s'.
  Proof.
    intros I C Hstep. pose proof (step_inv s tid s' I Hstep) as I'.
    pose proof (i_thr s' I') as Hok'.
    revert Hstep I' Hok'. unfold Conc.step.
    destruct (nth tid (c_thr s) (Idle, [])) as [p rest] eqn:Eth.
    destruct (Nat.leb_spec (length (c_thr s)) tid) as [|Htid]; [discriminate|].
    assert (Hin : In (p, rest) (c_thr s)) by (rewrite <- Eth; apply nth_In; exact Htid).
    destruct (ci_thr cap s C _ Hin) as [Hpc Hrest]. simpl in Hpc, Hrest.
    pose proof (ci_exh cap s C) as Hex.
    assert (Hnew : forall p1 rest1, (forall th, In th (lupd tid (p1, rest1) (c_thr s)) -> thr_ok th) -> pc_ok p1).
    { intros p1 rest1 H1. apply (H1 (p1, rest1)). rewrite <- (nth_lupd_eq tid (p1, rest1) (c_thr s) (Idle, [])) at 1 by auto.
      apply nth_In. rewrite lupd_length. exact Htid. }
    destruct p; simpl in Hpc.
    - destruct rest as [|c rest']; [discriminate|]. intros E I' Hok'; inversion E; subst s'.
      capstep_ cap s tid I I' C Htid Eth.
      + split; simpl; [|intros c0 Hc0; apply Hrest; right; exact Hc0].
        pose proof (Hrest c (or_introl eq_refl)) as Hc. destruct c; simpl in *; auto.
      + left. destruct c; simpl; lia.
    - destruct (lock_free s _); [|discriminate]. intros E I' Hok'; inversion E; subst s'.
      capstep_ cap s tid I I' C Htid Eth; [split; simpl; auto|left; destruct (tlen _ <? tlen _)%Z; lia].
    - intros E I' Hok'; inversion E; subst s'.
      capstep_ cap s tid I I' C Htid Eth; [split; simpl; auto|left; destruct isnew; lia].
    - destruct (Z.ltb_spec cap0 (sm_count (c_map s))).
      + destruct (tevict mix _ _ _ _) as [t2 d]. intros E I' Hok'; inversion E; subst s'.
        pose proof (Hnew (SwcSub k cap0 d) rest Hok') as Hd. simpl in Hd.
        capstep_ cap s tid I I' C Htid Eth; [split; simpl; auto|left; unfold repay; lia].
      + intros E I' Hok'; inversion E; subst s'.
        capstep_ cap s tid I I' C Htid Eth; [split; simpl; auto|right; lia].
    - destruct Hpc as [-> Hd]. intros E I' Hok'; inversion E; subst s'.
      capstep_ cap s tid I I' C Htid Eth.
      + split; simpl; auto. unfold evict_toll_deficit. destruct (2 - d <=? 0)%Z; simpl; auto. split; auto. lia.
      + left. unfold evict_toll_deficit. destruct (Z.ltb_spec 0 d); destruct (Z.leb_spec (2 - d) 0); simpl; lia.
    - destruct Hpc as [-> Hd]. destruct (sp_continue rescan (nsegs (c_map s)) i cap deficit).
      + destruct (Z.leb_spec (sm_count (c_map s)) cap); intros E I' Hok'; inversion E; subst s'.
        * capstep_ cap s tid I I' C Htid Eth; [split; simpl; auto|right; lia].
        * capstep_ cap s tid I I' C Htid Eth; [split; simpl; auto|left; lia].
      + intros E I' Hok'; inversion E; subst s'.
        capstep_ cap s tid I I' C Htid Eth; [split; simpl; auto|left; lia].
    - destruct Hpc as [-> Hd]. destruct (lock_free s _); [|discriminate]. destruct (tevict mix _ _ _ _) as [t2 d].
      intros E I' Hok'; inversion E; subst s'.
      pose proof (Hnew (SpSub k cap i deficit d) rest Hok') as Hd'. simpl in Hd'.
      capstep_ cap s tid I I' C Htid Eth; [split; simpl; auto|left; unfold repay; lia].
    - destruct Hpc as [-> [Hd Hd0]]. destruct (Z.ltb_spec 0 d); intros E I' Hok'; inversion E; subst s'.
      + capstep_ cap s tid I I' C Htid Eth; [split; simpl; auto; split; auto; lia|left; lia].
      + capstep_ cap s tid I I' C Htid Eth; [split; simpl; auto|left; lia].
    - destruct (lock_free s _); [|discriminate].
      pose proof (table_op_nonpos cap (seg (c_map s) (sidx (nsegs (c_map s)) (call_key c))) c Hpc) as Hnp.
      destruct (table_op mix _ c) as [t' delta]. simpl in Hnp.
      intros E I' Hok'; inversion E; subst s'.
      capstep_ cap s tid I I' C Htid Eth; [split; simpl; auto|left; unfold repay; lia].
    - intros E I' Hok'; inversion E; subst s'.
      capstep_ cap s tid I I' C Htid Eth; [split; simpl; auto|left; lia].
    - destruct (i <? nsegs (c_map s)).
      + destruct (lock_free s i); [|discriminate]. intros E I' Hok'; inversion E; subst s'.
        pose proof (Hnew (ClrSub i (tlen (seg (c_map s) i))) rest Hok') as Hd'. simpl in Hd'.
        capstep_ cap s tid I I' C Htid Eth; [split; simpl; auto|left; unfold repay; lia].
      + intros E I' Hok'; inversion E; subst s'.
        capstep_ cap s tid I I' C Htid Eth; [split; simpl; auto|left; lia].
    - intros E I' Hok'; inversion E; subst s'.
      capstep_ cap s tid I I' C Htid Eth; [split; simpl; auto|left; lia].
    - destruct (lock_free s _); [|discriminate]. intros E I' Hok'; inversion E; subst s'.
      capstep_ cap s tid I I' C Htid Eth; [split; simpl; auto|left; lia].
    - destruct (i <? nsegs (c_map s)).
      + destruct (lock_free s i); [|discriminate]. intros E I' Hok'; inversion E; subst s'.
        capstep_ cap s tid I I' C Htid Eth; [split; simpl; auto|left; lia].
      + intros E I' Hok'; inversion E; subst s'.
        capstep_ cap s tid I I' C Htid Eth; [split; simpl; auto|left; lia].
  Qed.

  Lemma run_cap cap sched : forall s, Inv s -> CapInv cap s -> CapInv cap (run s sched).
  Proof.
    induction sched as [|tid r IH]; intros s I C; simpl; auto.
    destruct (step s tid) eqn:E; [|apply IH; auto].
    apply IH; [eapply step_inv; eauto|eapply step_cap; eauto].
  Qed.

  (* Capacity under concurrency, every schedule: the number of entries never
     exceeds capacity + calls in flight + the number of SetWithCap calls that have
     so far returned from a fruitless scan of the whole ring (c_exh).  The last
     term is necessary (occupancy_bound_refuted); where no such scan happens the
     statement of the property holds as given. *)
  Theorem occupancy_bound cap m0 progs sched :
    SWF mix sidx m0 -> (sm_count m0 <= cap)%Z ->
    (forall p, In p progs -> forall c, In c p -> capped cap c) ->
    let s := run (init m0 progs) sched in
    (entries s <= cap + inside s + c_exh s)%Z /\ (0 <= c_exh s)%Z /\
    (c_exh s = 0%Z -> entries s <= cap + inside s)%Z.
  Proof.
    intros S Hc Hp s.
    assert (I0 : Inv (init m0 progs)) by (apply init_inv; auto).
    assert (C0 : CapInv cap (init m0 progs)).
    { constructor; simpl.
      - intros th Hin. apply in_map_iff in Hin. destruct Hin as [p [<- Hin]]. split; simpl; auto. apply Hp; auto.
      - lia.
      - unfold entries. simpl. rewrite sum_sizes_same, <- (s_count mix sidx m0 S).
        assert (sum_cr (map (fun p : list call => (Idle, p)) progs) = 0%Z) by (clear; induction progs; simpl; auto).
        lia. }
    pose proof (run_cap cap sched _ I0 C0) as [Ct Ce Cb]. fold s in Ct, Ce, Cb.
    pose proof (sum_cr_le_inside cap _ Ct) as Hi. unfold inside.
    split; [lia|]. split; [lia|]. intros E. lia.
  Qed.

  (* The repaired spill loop (rescan = true, capacity >= 1): no call ever returns
     from a fruitless scan, so the ghost counter stays 0 and the bound is the one the
     property states. *)
  Lemma step_exh0 cap s tid s' : rescan = true -> (1 <= cap)%Z -> CapInv cap s -> c_exh s = 0%Z ->
    step s tid = Some s' -> c_exh s' = 0%Z.
  Proof.
    intros R Hcap C E0. unfold Conc.step.
    destruct (nth tid (c_thr s) (Idle, [])) as [p rest] eqn:Eth.
    destruct (Nat.leb_spec (length (c_thr s)) tid) as [|Htid]; [discriminate|].
    assert (Hin : In (p, rest) (c_thr s)) by (rewrite <- Eth; apply nth_In; exact Htid).
    destruct (ci_thr cap s C _ Hin) as [Hpc _]. simpl in Hpc.
    destruct p; simpl in Hpc.
    - destruct rest; [discriminate|]. intros E; inversion E; subst s'. exact E0.
    - destruct (lock_free s _); [|discriminate]. intros E; inversion E; subst s'. exact E0.
    - intros E; inversion E; subst s'. exact E0.
    - destruct (cap0 <? sm_count (c_map s))%Z; [destruct (tevict mix _ _ _ _) as [t2 d]|];
        intros E; inversion E; subst s'; simpl; unfold repay; lia.
    - intros E; inversion E; subst s'. exact E0.
    - destruct Hpc as [-> Hd]. unfold sp_continue. rewrite R. unfold evict_toll.
      destruct (Z.ltb_spec 0 deficit); destruct (Nat.ltb_spec i (nsegs (c_map s))); destruct (Z.leb_spec 2 deficit);
        destruct (Z.leb_spec 1 cap); simpl; try lia;
        try (destruct (sm_count (c_map s) <=? cap)%Z); intros E; inversion E; subst s'; simpl; lia.
    - destruct (lock_free s _); [|discriminate]. destruct (tevict mix _ _ _ _) as [t2 d].
      intros E; inversion E; subst s'; simpl; unfold repay; lia.
    - destruct (0 <? d)%Z; intros E; inversion E; subst s'; exact E0.
    - destruct (lock_free s _); [|discriminate]. destruct (table_op mix _ _) as [t' delta].
      intros E; inversion E; subst s'; simpl; unfold repay; lia.
    - intros E; inversion E; subst s'. exact E0.
    - destruct (i <? nsegs (c_map s)); [destruct (lock_free s i); [|discriminate]|];
        intros E; inversion E; subst s'; simpl; unfold repay; lia.
    - intros E; inversion E; subst s'. exact E0.
    - destruct (lock_free s _); [|discriminate]. intros E; inversion E; subst s'. exact E0.
    - destruct (i <? nsegs (c_map s)); [destruct (lock_free s i); [|discriminate]|];
        intros E; inversion E; subst s'; exact E0.
  Qed.

  Lemma run_exh0 cap sched : rescan = true -> (1 <= cap)%Z ->
    forall s, Inv s -> CapInv cap s -> c_exh s = 0%Z -> c_exh (run s sched) = 0%Z.
  Proof.
    intros R Hcap. induction sched as [|tid r IH]; intros s I C E0; simpl; auto.
    destruct (step s tid) eqn:E; [|apply IH; auto].
    apply IH; [eapply step_inv; eauto|eapply step_cap; eauto|eapply step_exh0; eauto].
  Qed.

  Theorem occupancy_bound_repaired cap m0 progs sched :
    rescan = true -> (1 <= cap)%Z ->
    SWF mix sidx m0 -> (sm_count m0 <= cap)%Z ->
    (forall p, In p progs -> forall c, In c p -> capped cap c) ->
    let s := run (init m0 progs) sched in
    (entries s <= cap + inside s)%Z.
  Proof.
    intros R Hcap S Hc Hp s.
    assert (I0 : Inv (init m0 progs)) by (apply init_inv; auto).
    assert (C0 : CapInv cap (init m0 progs)).
    { constructor; simpl.
      - intros th Hin. apply in_map_iff in Hin. destruct Hin as [p [<- Hin]]. split; simpl; auto. apply Hp; auto.
      - lia.
      - unfold entries. simpl. rewrite sum_sizes_same, <- (s_count mix sidx m0 S).
        assert (sum_cr (map (fun p : list call => (Idle, p)) progs) = 0%Z) by (clear; induction progs; simpl; auto).
        lia. }
    pose proof (run_exh0 cap sched R Hcap _ I0 C0 eq_refl) as E0. fold s in E0.
    destruct (occupancy_bound cap m0 progs sched S Hc Hp) as [_ [_ H]]. apply H. exact E0.
  Qed.

  (* ------------------------------------------------------------- locks *)
  Lemma nth_lupd_some {A} i (x : A) l j y : nth j (lupd i (Some x) l) None = Some y ->
    (j = i /\ y = x) \/ (j <> i /\ nth j l None = Some y).
  Proof.
    intros H. destruct (Nat.eq_dec j i) as [->|Hne].
    - destruct (Nat.lt_ge_cases i (length l)).
      + rewrite nth_lupd_eq in H by auto. inversion H. auto.
      + rewrite nth_overflow in H by (rewrite lupd_length; lia). discriminate.
    - rewrite nth_lupd_neq in H by auto. auto.
  Qed.
  Lemma nth_lupd_none {A} i (l : list (option A)) j y : nth j (lupd i None l) None = Some y ->
    j <> i /\ nth j l None = Some y.
  Proof.
    intros H. destruct (Nat.eq_dec j i) as [->|Hne].
    - destruct (Nat.lt_ge_cases i (length l)).
      + rewrite nth_lupd_eq in H by auto. discriminate.
      + rewrite nth_overflow in H by (rewrite lupd_length; lia). discriminate.
    - rewrite nth_lupd_neq in H by auto. auto.
  Qed.

  (* whoever owns a segment lock is at a program point that holds exactly that lock *)
  Definition LockInv (s : cstate) : Prop :=
    forall j tid, nth j (c_locks s) None = Some tid ->
      holds sidx (nsegs (c_map s)) (fst (nth tid (c_thr s) (Idle, []))) = Some j.

  Lemma with_pc_lock s tid m' locks' p' rest' :
    LockInv s -> tid < length (c_thr s) -> nsegs m' = nsegs (c_map s) ->
    (forall j t, nth j locks' None = Some t ->
       (t = tid /\ holds sidx (nsegs (c_map s)) p' = Some j) \/ (t <> tid /\ nth j (c_locks s) None = Some t)) ->
    LockInv (with_pc s tid m' locks' p' rest').
  Proof.
    intros L Htid Hn H j t Hj. simpl in *. rewrite Hn.
    destruct (H j t Hj) as [[-> Hh]|[Hne Hl]].
    - rewrite nth_lupd_eq by auto. exact Hh.
    - rewrite nth_lupd_neq by auto. apply L. exact Hl.
  Qed.
  Lemma ghost_lock s e o : LockInv s -> LockInv (with_ghost s e o).
  Proof. intros L. exact L. Qed.
  Lemma lock_same s tid p p' rest : LockInv s -> nth tid (c_thr s) (Idle, []) = (p, rest) ->
    holds sidx (nsegs (c_map s)) p' = holds sidx (nsegs (c_map s)) p ->
    forall j t, nth j (c_locks s) None = Some t ->
      (t = tid /\ holds sidx (nsegs (c_map s)) p' = Some j) \/ (t <> tid /\ nth j (c_locks s) None = Some t).
  Proof.
    intros L Hth Hh j t Hj. destruct (Nat.eq_dec t tid) as [->|Hne]; auto.
    left. split; auto. rewrite Hh. specialize (L j tid Hj). rewrite Hth in L. exact L.
  Qed.
  Lemma lock_acquire s tid p p' rest i : LockInv s -> nth tid (c_thr s) (Idle, []) = (p, rest) ->
    holds sidx (nsegs (c_map s)) p = None -> holds sidx (nsegs (c_map s)) p' = Some i ->
    forall j t, nth j (lupd i (Some tid) (c_locks s)) None = Some t ->
      (t = tid /\ holds sidx (nsegs (c_map s)) p' = Some j) \/ (t <> tid /\ nth j (c_locks s) None = Some t).
  Proof.
    intros L Hth Hn Hh j t Hj. apply nth_lupd_some in Hj. destruct Hj as [[-> ->]|[Hne Hj]]; auto.
    destruct (Nat.eq_dec t tid) as [->|Hnt]; auto.
    specialize (L j tid Hj). rewrite Hth in L. simpl in L. congruence.
  Qed.
  Lemma lock_release s tid p p' rest i : LockInv s -> nth tid (c_thr s) (Idle, []) = (p, rest) ->
    holds sidx (nsegs (c_map s)) p = Some i -> holds sidx (nsegs (c_map s)) p' = None ->
    forall j t, nth j (lupd i None (c_locks s)) None = Some t ->
      (t = tid /\ holds sidx (nsegs (c_map s)) p' = Some j) \/ (t <> tid /\ nth j (c_locks s) None = Some t).
  Proof.
    intros L Hth Hh Hn j t Hj. apply nth_lupd_none in Hj. destruct Hj as [Hne Hj].
    destruct (Nat.eq_dec t tid) as [->|Hnt]; auto.
    specialize (L j tid Hj). rewrite Hth in L. simpl in L. congruence.
  Qed.

  Lemma nsegs_set m i t c : nsegs (set_seg m i t c) = nsegs m.
  Proof. unfold nsegs, set_seg. simpl. apply upd_seg_length. Qed.

  Lemma step_lock s tid s' : LockInv s -> step s tid = Some s' -> LockInv s'.
  Proof.
    intros L. unfold Conc.step.
    destruct (nth tid (c_thr s) (Idle, [])) as [p rest] eqn:Eth.
    destruct (Nat.leb_spec (length (c_thr s)) tid) as [|Htid]; [discriminate|].
    destruct p.
    - destruct rest as [|c rest']; [discriminate|]. intros E; inversion E; subst s'.
      apply with_pc_lock; auto. eapply lock_same; eauto. destruct c; reflexivity.
    - destruct (lock_free s _); [|discriminate]. intros E; inversion E; subst s'.
      apply with_pc_lock; auto; [apply nsegs_set|]. eapply lock_acquire; eauto; reflexivity.
    - intros E; inversion E; subst s'. apply with_pc_lock; auto. eapply lock_same; eauto.
    - destruct (cap <? sm_count (c_map s))%Z.
      + destruct (tevict mix _ _ _ _) as [t2 d]. intros E; inversion E; subst s'. apply ghost_lock.
        apply with_pc_lock; auto; [apply nsegs_set|]. eapply lock_same; eauto.
      + intros E; inversion E; subst s'. apply ghost_lock. apply with_pc_lock; auto. eapply lock_release; eauto; reflexivity.
    - intros E; inversion E; subst s'. apply with_pc_lock; auto. eapply lock_release; eauto; try reflexivity.
      destruct (evict_toll_deficit - d <=? 0)%Z; reflexivity.
    - destruct (sp_continue rescan (nsegs (c_map s)) i cap deficit); [destruct (sm_count (c_map s) <=? cap)%Z|]; intros E; inversion E; subst s'.
      + apply ghost_lock. apply with_pc_lock; auto. eapply lock_same; eauto.
      + apply with_pc_lock; auto. eapply lock_same; eauto.
      + apply ghost_lock. apply with_pc_lock; auto. eapply lock_same; eauto.
    - destruct (lock_free s _); [|discriminate]. destruct (tevict mix _ _ _ _) as [t2 d].
      intros E; inversion E; subst s'. apply ghost_lock. apply with_pc_lock; auto; [apply nsegs_set|]. eapply lock_same; eauto.
    - destruct (0 <? d)%Z; intros E; inversion E; subst s'; apply with_pc_lock; auto; eapply lock_same; eauto.
    - destruct (lock_free s _); [|discriminate]. destruct (table_op mix _ _) as [t' delta].
      intros E; inversion E; subst s'. apply ghost_lock. apply with_pc_lock; auto; [apply nsegs_set|]. eapply lock_acquire; eauto; reflexivity.
    - intros E; inversion E; subst s'. apply with_pc_lock; auto. eapply lock_release; eauto; reflexivity.
    - destruct (i <? nsegs (c_map s)).
      + destruct (lock_free s i); [|discriminate]. intros E; inversion E; subst s'. apply ghost_lock.
        apply with_pc_lock; auto; [apply nsegs_set|]. eapply lock_acquire; eauto; reflexivity.
      + intros E; inversion E; subst s'. apply with_pc_lock; auto. eapply lock_same; eauto.
    - intros E; inversion E; subst s'. apply with_pc_lock; auto. eapply lock_release; eauto; reflexivity.
    - destruct (lock_free s _); [|discriminate]. intros E; inversion E; subst s'.
      apply ghost_lock. apply with_pc_lock; auto. eapply lock_same; eauto.
    - destruct (i <? nsegs (c_map s)).
      + destruct (lock_free s i); [|discriminate]. intros E; inversion E; subst s'.
        apply with_pc_lock; auto. eapply lock_same; eauto.
      + intros E; inversion E; subst s'. apply ghost_lock. apply with_pc_lock; auto. eapply lock_same; eauto.
  Qed.

  Lemma run_lock sched : forall s, LockInv s -> LockInv (run s sched).
  Proof.
    induction sched as [|tid r IH]; intros s L; simpl; auto.
    destruct (step s tid) eqn:E; apply IH; auto. eapply step_lock; eauto.
  Qed.
  Lemma init_lock m progs : LockInv (init m progs).
  Proof.
    intros j tid H. simpl in H. exfalso. revert j H. generalize (nsegs m).
    induction n; intros [|j]; simpl; try discriminate. apply IHn.
  Qed.

  (* A thread never owns two segment locks, and the steps that acquire a lock
     (SwcLock, SpEvict, OpLock, ClrSeg) are taken only at program points that hold
     none: no writer waits while holding a lock, and there is no lock other than
     the per-segment ones.  For every schedule, Clear included. *)
  Definition acquires (p : pc) : bool :=
    match p with SwcLock _ _ _ | SpEvict _ _ _ _ | OpLock _ | ClrSeg _ => true | _ => false end.
  Theorem no_nested_locks m0 progs sched :
    let s := run (init m0 progs) sched in
    (forall j1 j2 tid, nth j1 (c_locks s) None = Some tid -> nth j2 (c_locks s) None = Some tid -> j1 = j2) /\
    (forall n p, acquires p = true -> holds sidx n p = None).
  Proof.
    intros s. split.
    - assert (L : LockInv s) by (apply run_lock, init_lock).
      intros j1 j2 tid H1 H2. pose proof (L j1 tid H1). pose proof (L j2 tid H2). congruence.
    - intros n p. destruct p; simpl; try discriminate; auto.
  Qed.

  (* ------------------------------------------------------------ readers *)
  Lemma nodup_app {A} (l l' : list A) : NoDup l -> NoDup l' -> (forall a, In a l -> ~ In a l') -> NoDup (l ++ l').
  Proof.
    induction l; simpl; intros H1 H2 H; auto. inversion H1; subst. constructor.
    - rewrite in_app_iff. intros [Hin|Hin]; [contradiction|]. exact (H a (or_introl eq_refl) Hin).
    - apply IHl; auto.
  Qed.

  (* a ForEach in progress has yielded no key twice, and only keys of segments it has passed *)
  Definition FeOk (n : nat) (p : pc) : Prop :=
    match p with
    | FeSeg i acc => NoDup (map fst acc) /\ forall k v, In (k, v) acc -> sidx n k < i
    | _ => True
    end.
  Definition ObsOk (o : nat * obs) : Prop :=
    match snd o with ObAll l => NoDup (map fst l) | _ => True end.
  Record RdInv (s : cstate) : Prop := {
    r_fe : forall th, In th (c_thr s) -> FeOk (nsegs (c_map s)) (fst th);
    r_obs : forall o, In o (c_obs s) -> ObsOk o }.

  Lemma rd_generic s tid m' locks' p' rest' exh' obs' :
    RdInv s -> nsegs m' = nsegs (c_map s) -> FeOk (nsegs (c_map s)) p' ->
    (forall o, In o obs' -> In o (c_obs s) \/ ObsOk o) ->
    RdInv (mk_cstate m' locks' (lupd tid (p', rest') (c_thr s)) exh' obs').
  Proof.
    intros [Hf Ho] Hn Hp Hobs. constructor; simpl.
    - intros th Hin. rewrite Hn. apply in_lupd in Hin. destruct Hin as [->|Hin]; auto.
    - intros o Hin. destruct (Hobs o Hin); auto.
  Qed.

  Lemma step_rd s tid s' : Inv s -> RdInv s -> step s tid = Some s' -> RdInv s'.
  Proof.
    intros I R. pose proof (i_segs s I) as [Hn0 [Hw Hh]]. unfold Conc.step.
    destruct (nth tid (c_thr s) (Idle, [])) as [p rest] eqn:Eth.
    destruct (Nat.leb_spec (length (c_thr s)) tid) as [|Htid]; [discriminate|].
    assert (Hin : In (p, rest) (c_thr s)) by (rewrite <- Eth; apply nth_In; exact Htid).
    pose proof (r_fe s R _ Hin) as Hfe. simpl in Hfe.
    assert (Hsame : forall o, In o (c_obs s) -> In o (c_obs s) \/ ObsOk o) by auto.
    destruct p.
    - destruct rest as [|c rest']; [discriminate|]. intros E; inversion E; subst s'.
      apply rd_generic; auto. destruct c; simpl; auto. split; [constructor|intros k v []].
    - destruct (lock_free s _); [|discriminate]. intros E; inversion E; subst s'.
      apply rd_generic; simpl; auto. apply nsegs_set.
    - intros E; inversion E; subst s'. apply rd_generic; simpl; auto.
    - destruct (cap <? sm_count (c_map s))%Z.
      + destruct (tevict mix _ _ _ _) as [t2 d]. intros E; inversion E; subst s'.
        apply rd_generic; simpl; auto. apply nsegs_set.
      + intros E; inversion E; subst s'. apply rd_generic; simpl; auto.
    - intros E; inversion E; subst s'. apply rd_generic; simpl; auto.
      destruct (evict_toll_deficit - d <=? 0)%Z; simpl; auto.
    - destruct (sp_continue rescan (nsegs (c_map s)) i cap deficit); [destruct (sm_count (c_map s) <=? cap)%Z|]; intros E; inversion E; subst s';
        apply rd_generic; simpl; auto.
    - destruct (lock_free s _); [|discriminate]. destruct (tevict mix _ _ _ _) as [t2 d].
      intros E; inversion E; subst s'. apply rd_generic; simpl; auto. apply nsegs_set.
    - destruct (0 <? d)%Z; intros E; inversion E; subst s'; apply rd_generic; simpl; auto.
    - destruct (lock_free s _); [|discriminate]. destruct (table_op mix _ _) as [t' delta].
      intros E; inversion E; subst s'. apply rd_generic; simpl; auto. apply nsegs_set.
    - intros E; inversion E; subst s'. apply rd_generic; simpl; auto.
    - destruct (i <? nsegs (c_map s)).
      + destruct (lock_free s i); [|discriminate]. intros E; inversion E; subst s'.
        apply rd_generic; simpl; auto. apply nsegs_set.
      + intros E; inversion E; subst s'. apply rd_generic; simpl; auto.
    - intros E; inversion E; subst s'. apply rd_generic; simpl; auto.
    - destruct (lock_free s _); [|discriminate]. intros E; inversion E; subst s'.
      apply rd_generic; simpl; auto. intros o [<-|Ho]; auto; right; exact Logic.I.
    - destruct (Nat.ltb_spec i (nsegs (c_map s))) as [Hi|Hi].
      + destruct (lock_free s i); [|discriminate]. intros E; inversion E; subst s'.
        apply rd_generic; simpl; auto.
        destruct Hfe as [Hnd Hlt].
        destruct (tall_spec mix (seg (c_map s) i) (Hw i Hi)) as [Hnd' [Hio _]].
        assert (Hhome : forall k v, In (k, v) (tall (seg (c_map s) i)) -> sidx (nsegs (c_map s)) k = i).
        { intros k v Hkv. apply (Hh i k Hi). apply Hio in Hkv. congruence. }
        split.
        * rewrite map_app. apply nodup_app; auto.
          intros k Hk1 Hk2. apply in_map_iff in Hk1. destruct Hk1 as [[k1 v1] [E1 Hk1]].
          apply in_map_iff in Hk2. destruct Hk2 as [[k2 v2] [E2 Hk2]]. simpl in *. subst.
          pose proof (Hlt _ _ Hk1). pose proof (Hhome _ _ Hk2). lia.
        * intros k v Hkv. apply in_app_iff in Hkv. destruct Hkv as [Hkv|Hkv].
          -- pose proof (Hlt _ _ Hkv). lia.
          -- pose proof (Hhome _ _ Hkv). lia.
      + intros E; inversion E; subst s'. apply rd_generic; simpl; auto.
        intros o [<-|Ho]; auto. right. unfold ObsOk. simpl. apply Hfe.
  Qed.

  Lemma run_rd sched : forall s, Inv s -> RdInv s -> RdInv (run s sched).
  Proof.
    induction sched as [|tid r IH]; intros s I R; simpl; auto.
    destruct (step s tid) eqn:E; [|apply IH; auto].
    apply IH; [eapply step_inv; eauto|eapply step_rd; eauto].
  Qed.

  (* ForEach running concurrently with any writers (it takes the segments one at
     a time, so it is not a snapshot) never yields a key twice. *)
  Theorem foreach_no_duplicates m0 progs sched :
    SWF mix sidx m0 ->
    let s := run (init m0 progs) sched in
    forall tid l, In (tid, ObAll l) (c_obs s) -> NoDup (map fst l).
  Proof.
    intros S s tid l Hin.
    assert (R : RdInv s).
    { apply run_rd; [apply init_inv; auto|]. constructor; simpl.
      - intros th Hth. apply in_map_iff in Hth. destruct Hth as [p [<- _]]. exact Logic.I.
      - intros o []. }
    apply (r_obs s R _ Hin).
  Qed.
End ConcProofs.

(* ------------------------------------------------------------------ *)
(* the code's own hash functions: the hypotheses above are satisfiable, and
   the two statements that fail are refuted on them by computation *)
Lemma go_sidx_lt n k : 0 < n -> go_sidx n k < n.
Proof.
  intros Hn. unfold go_sidx.
  assert (N.modulo (N.shiftr (w64 (k * seg_mult)) seg_shift) (N.of_nat n) < N.of_nat n)%N by (apply N.mod_lt; lia).
  lia.
Qed.

(* Which spill loop the source has: the condition of SetWithCap's for statement is
   read from /repo (Gen.C16.spill_cond_src) and must be one of the two the model
   knows — any other text breaks this tie and with it the check.
     plain  : i < uint(len(m.segments)) && deficit > 0
     rescan : deficit > 0 && (i < n || (deficit == 2 && capacity > 0))     (/repo since 47c8f66) *)
Lemma gen_spill_cond_known :
  (spill_cond_src = [spill_cond_plain] /\ go_rescan = false) \/ (spill_cond_src = [spill_cond_rescan] /\ go_rescan = true).
Proof. vm_compute. first [left; split; reflexivity | right; split; reflexivity]. Qed.

Definition c_run := run go_mix go_sidx go_eoff false.          (* the loop before 47c8f66 *)
Definition c_run_src := run go_mix go_sidx go_eoff go_rescan.  (* the loop the source has *)
Definition c_run_rescan := run go_mix go_sidx go_eoff true.    (* the repaired loop *)
Definition only_swc_cap (cap : Z) (progs : list (list call)) : Prop :=
  forall p, In p progs -> forall c, In c p -> exists k v, c = CSwc k v cap.

(* Full statement (what the property asks for):
     forall progs sched, only_swc_cap cap progs -> 1 <= cap ->
       let s := c_run (init (new_segmap 4 0) progs) sched in entries s <= cap + inside s.
   Refuted: four inserts at capacity 1 on an empty 16-segment map, keys 5, 3, 15,
   13 (segments 5, 6, 0, 1).  The first runs alone.  The second and third are
   stopped after their Load in front of segment 2, the fourth runs to the end
   (it evicts 5 and 3), then both resume and find every segment empty. *)
Definition occ_progs : list (list call) := [[CSwc 5 1 1]; [CSwc 3 2 1]; [CSwc 15 3 1]; [CSwc 13 4 1]].
Definition occ_sched : list nat := repeat 0 60 ++ repeat 1 39 ++ repeat 2 9 ++ repeat 3 60 ++ repeat 1 100 ++ repeat 2 100.
Lemma occ_witness :
  let s := c_run (init (new_segmap 4 0) occ_progs) occ_sched in
  quiescent s = true /\ inside s = 0%Z /\ entries s = 2%Z /\ sm_count (c_map s) = 2%Z /\
  sm_all (c_map s) = [(15%N, 3%N); (13%N, 4%N)] /\ c_exh s = 2%Z.
Proof. vm_compute. repeat split; reflexivity. Qed.

Theorem occupancy_bound_refuted_lemma :
  exists progs sched, only_swc_cap 1 progs /\
    let s := c_run (init (new_segmap 4 0) progs) sched in
    quiescent s = true /\ (entries s > 1 + inside s)%Z /\ (0 < c_exh s)%Z.
Proof.
  exists occ_progs, occ_sched. split.
  - intros p Hp c Hc. unfold occ_progs in Hp. simpl in Hp.
    repeat (destruct Hp as [<-|Hp]; [simpl in Hc; destruct Hc as [<-|[]]; eauto|]). destruct Hp.
  - destruct occ_witness as [A [B [C [_ [_ D]]]]]. split; [exact A|]. rewrite B, C, D. lia.
Qed.

(* the same schedule against the repaired loop: the two parked writers go round
   again, each finds the other's (or the fourth writer's) entry; one entry is left *)
Example occ_witness_rescan :
  let s := c_run_rescan (init (new_segmap 4 0) occ_progs) (occ_sched ++ repeat 1 100 ++ repeat 2 100) in
  quiescent s = true /\ inside s = 0%Z /\ entries s = 1%Z /\ sm_count (c_map s) = 1%Z /\ c_exh s = 0%Z.
Proof. vm_compute. repeat split; reflexivity. Qed.

(* Clear concurrent with writers (the interleaving that lost a Set before aae41ee): now exact *)
Definition clr_progs : list (list call) := [[CSet 9 1]; [CClear]; [CSet 15 2]].
Definition clr_sched : list nat := repeat 0 10 ++ repeat 1 31 ++ repeat 2 10 ++ repeat 1 10.
Example clear_with_writer :
  let s := c_run (init (new_segmap 4 0) clr_progs) clr_sched in
  quiescent s = true /\ sm_len (c_map s) = 1%Z /\ entries s = 1%Z /\ sm_all (c_map s) = [(15%N, 2%N)].
Proof. vm_compute. repeat split; reflexivity. Qed.
