(* C16 — correspondence: case types and the two checkers evaluated with
   vm_compute on the histories the Go driver recorded.
   check_case: the model computes what the implementation did (results, Len,
               slot-array digest after every operation, final slot array);
   spec_case : what the implementation did is what a finite map would do
               (reference association list), evictions never take the protected
               key, Len = number of entries, capacity respected. *)
From Sdns Require Export Common.Base Gen.C16 C16.Model C16.Conc C16.Limiter C16.Lin C16.Wrap.
Open Scope nat_scope.

(* ---------------------------------------------------------------- cases *)
Inductive top :=
| TGet (k : N) (r : option N)
| THas (k : N) (r : bool)
| TPut (k v : N)
| TPia (k v rv : N) (ins : bool)
| TDel (k : N) (r : bool)
| TEv (off n : Z) (skip : N) (r : Z) (gone : list N)   (* EvictKeysAt; gone = keys that vanished *)
| TClr
| TAll (r : list (N * N)).                             (* ForEach, callback never stops *)
(* observed Len() after the op; Sd additionally the digest (low 32 bits) of data/growAt *)
Inductive tstep := St (o : top) (len : Z) | Sd (o : top) (len : Z) (dig : N).

Inductive sop :=
| SGet (k : N) (r : option N)
| SSet (k v : N)
| SSwc (k v : N) (cap : Z) (gone : list N)             (* SetWithCap / Cache.Add *)
| SPia (k v rv : N) (ins : bool)
| SDel (k : N) (r : bool)
| SRem (k : N)                                         (* Cache.Remove *)
| SCas (k old v : N) (r : bool)
| SCad (k old : N) (r : bool)
| SClr
| SClrSeg (i : Z) (gone : list N)
| SAll (r : list (N * N)).
Inductive sstep := Ss (o : sop) (len : Z).

(* One action of the test and what it saw afterwards.
   Rel j: it released segment j's lock and took it back once every started thread
   was parked in front of a lock or had returned; Go t: it started thread t (which
   runs up to the first lock it needs).  Seen: the counter, the non-empty segments in
   ForEach order, which threads have returned, how many threads wait in front of
   which lock. *)
Inductive gact := Rel (j : nat) | Go (t : nat).
Inductive gstep :=
| Grant (a : gact) (count : Z) (segs : list (nat * list (N * N))) (done : list bool) (waiting : list (nat * nat)).

(* calls of the expiring wrappers middleware/cache PositiveCache / NegativeCache (Wrap.v):
   Get with the identity of the entry it returned, Set with the keys that vanished, Remove *)
Inductive wop :=
| WGet (k : N) (r : option N)
| WSet (k v : N) (gone : list N)
| WRem (k : N).
Inductive wstep := Ws (o : wop) (len : Z).      (* observed Len() after the call *)

Inductive gop := Gop (tid : nat) (k id : N) (call ret : Z).
Inductive eobs := Eobs (stored ttl cut : Z) (expired : bool).

Inductive case :=
  (* NewUInt64Map(cap): observed len(data), growAt; history; final non-empty slots (index,key,value), final len(data) *)
| CaseTab (cap n0 g0 : Z) (steps : list tstep) (final : list (N * N * N)) (nfinal : Z)
  (* NewSegmentUInt64Map(power, initcap): observed segment count *)
| CaseSeg (power initcap nseg : Z) (steps : list sstep)
  (* cache.New(size): SSwc carries maxSize *)
| CaseCache (size : Z) (steps : list sstep)
  (* go-side only cases (concurrency stress, large-table growth): nothing to evaluate *)
| CaseGo (tag : N)
  (* a forced schedule of concurrent calls on a 16-segment map (see "schedules" below):
     sequential SetWithCap prefix, one program per thread, the grants with what was
     observed after each, what the readers returned *)
| CaseSched (prefix : list (N * N * Z)) (progs : list (list call))
            (steps : list gstep) (reads : list (nat * obs)) (complete : bool)
  (* NewLimiterStore(maxSize, _): observed calls (Get with the time stamp it stored, the identity of the
     limiter it returned and the key that vanished, if any; Cleanup with the bracket of its cutoff and
     the keys it removed), each with Len() afterwards *)
| CaseLim (maxSize : Z) (steps : list (lop * Z))
  (* a concurrent history recorded on one cache.Cache (real goroutines): every call of
     Get / Add / Remove / CompareAndSwap / CompareAndDelete with its result and the
     logical-clock stamps taken before the call and after the return; thread ids are
     the workers, the last reads (one per key) were made after every worker returned *)
| CaseLin (ops : list hop)
  (* NewPositiveCache / NewNegativeCache (size): calls that ran to completion, each with Len()
     afterwards; [exp] = the identities of the entries that had expired before the history began
     (every other entry stays fresh for hours) *)
| CaseWrap (size : Z) (exp : list N) (steps : list wstep)
  (* a concurrent history of wrapper calls recorded on one PositiveCache / NegativeCache (real
     goroutines): Set k e = LStore, Remove k = LRem, Get k -> r = LGet, with logical-clock stamps *)
| CaseWLin (exp : list N) (ops : list hop)
  (* a concurrent history of LimiterStore.Get recorded on one NewLimiterStore(maxSize, _) (real
     goroutines) with at most max(maxSize,1) keys in play, so that nothing has to be evicted:
     thread, key, identity of the limiter returned, logical-clock stamps *)
| CaseLimC (maxSize : Z) (ops : list gop)
  (* CacheEntry.IsExpired observed on real entries: the clock (ns, relative to a base instant) was
     read before ([lo]) and after ([hi]) the calls; per entry stored, ttl, cutUntil (0 = none; all
     relative to the same base; a real cut is never exactly the base) and the result *)
| CaseExp (lo hi : Z) (ents : list eobs).

(* ------------------------------------------------------------- helpers *)
Definition dig_p : N := 1099511628211%N.
Definition digest (d : list slot) (growAt : Z) : N :=
  fold_left (fun acc s => w64 (w64 (acc * dig_p + fst s) * dig_p + snd s)%N) d
            (w64 (14695981039346656037 + N.of_nat (length d) * 1000003 + Z.to_N growAt)%N).

Definition optN_eqb (a b : option N) : bool :=
  match a, b with Some x, Some y => N.eqb x y | None, None => true | _, _ => false end.
Fixpoint pairs_eqb (a b : list (N * N)) : bool :=
  match a, b with
  | [], [] => true
  | (x1, x2) :: r, (y1, y2) :: s => N.eqb x1 y1 && N.eqb x2 y2 && pairs_eqb r s
  | _, _ => false
  end.
Fixpoint sparse (d : list slot) (i : N) : list (N * N * N) :=
  match d with
  | [] => []
  | s :: r => if N.eqb (fst s) 0 then sparse r (i + 1)%N else (i, fst s, snd s) :: sparse r (i + 1)%N
  end.
Fixpoint sparse_eqb (a b : list (N * N * N)) : bool :=
  match a, b with
  | [], [] => true
  | (i, k, v) :: r, (j, l, w) :: s => N.eqb i j && N.eqb k l && N.eqb v w && sparse_eqb r s
  | _, _ => false
  end.

(* the model instantiated with the code's hash *)
Definition cget := tget go_mix.
Definition cput := tput go_mix.
Definition cpia := tpia go_mix.
Definition cdel := tdel go_mix.
Definition cevict := tevict go_mix.

(* -------------------------------------------------- check: table level *)
Definition tab_apply (t : table) (o : top) : option table :=
  match o with
  | TGet k r => if optN_eqb (cget t k) r then Some t else None
  | THas k r => if Bool.eqb (thas go_mix t k) r then Some t else None
  | TPut k v => Some (cput t k v)
  | TPia k v rv ins =>
      let '(t', rv', ins') := cpia t k v in
      if N.eqb rv rv' && Bool.eqb ins ins' then Some t' else None
  | TDel k r => let '(t', r') := cdel t k in if Bool.eqb r r' then Some t' else None
  | TEv off n skip r gone =>
      let '(t', r') := cevict t off n skip in
      if Z.eqb r r' && forallb (fun k => match cget t' k with None => true | Some _ => false end) gone
      then Some t' else None
  | TClr => Some (tclear t)
  | TAll r => if pairs_eqb (tall t) r then Some t else None
  end.

Fixpoint tab_run (t : table) (steps : list tstep) : option table :=
  match steps with
  | [] => Some t
  | s :: rest =>
      let '(o, len, dg) := match s with St o l => (o, l, None) | Sd o l d => (o, l, Some d) end in
      match tab_apply t o with
      | None => None
      | Some t' =>
          if Z.eqb (tlen t') len && negb (t_bad t') &&
             match dg with Some d => N.eqb (N.land (digest (t_data t') (t_growAt t')) 4294967295%N) d | None => true end
          then tab_run t' rest else None
      end
  end.

(* ------------------------------------------------ check: segment level *)
Definition cs_get := sm_get go_mix go_sidx.
Definition seg_apply (m : segmap) (o : sop) : option segmap :=
  match o with
  | SGet k r => if optN_eqb (cs_get m k) r then Some m else None
  | SSet k v => Some (sm_set go_mix go_sidx m k v)
  | SSwc k v cap gone =>
      let m' := sm_set_with_cap go_mix go_sidx go_eoff m k v cap in
      if forallb (fun g => match cs_get m' g with None => true | Some _ => false end) gone then Some m' else None
  | SPia k v rv ins =>
      let '(m', rv', ins') := sm_pia go_mix go_sidx m k v in
      if N.eqb rv rv' && Bool.eqb ins ins' then Some m' else None
  | SDel k r => let '(m', r') := sm_del go_mix go_sidx m k in if Bool.eqb r r' then Some m' else None
  | SRem k => Some (fst (sm_del go_mix go_sidx m k))
  | SCas k old v r => let '(m', r') := c_cas go_mix go_sidx m k old v in if Bool.eqb r r' then Some m' else None
  | SCad k old r => let '(m', r') := c_cad go_mix go_sidx m k old in if Bool.eqb r r' then Some m' else None
  | SClr => Some (sm_clear m)
  | SClrSeg i gone =>
      let m' := sm_clear_segment m i in
      if forallb (fun g => match cs_get m' g with None => true | Some _ => false end) gone then Some m' else None
  | SAll r => if pairs_eqb (sm_all m) r then Some m else None
  end.
Definition seg_ok (m : segmap) : bool := forallb (fun t => negb (t_bad t)) (sm_segs m).
Fixpoint seg_run (m : segmap) (steps : list sstep) : option segmap :=
  match steps with
  | [] => Some m
  | Ss o len :: rest =>
      match seg_apply m o with
      | None => None
      | Some m' => if Z.eqb (sm_len m') len then seg_run m' rest else None
      end
  end.

(* ----------------------------------------------------- check: schedules *)
(* The test owns every segment lock, so each thread stands in front of the next
   lock it needs (or has returned).  Releasing lock j lets exactly the threads in
   front of j run, each until it stands in front of another lock or returns; their
   steps interleave in an order the test does not control, so the model computes
   every outcome (all interleavings of the atomic steps of Conc.v) and keeps those
   that agree with what was observed.  Nothing left = the code did something the
   interleaving model cannot do. *)
Definition acq_target (n : nat) (p : pc) : option nat :=
  match p with
  | SwcLock k _ _ => Some (go_sidx n k)
  | SpEvict k _ i _ => Some (Nat.modulo (go_sidx n k + i) n)
  | OpLock c => Some (go_sidx n (call_key c))
  | ClrSeg i => if i <? n then Some i else None
  | RdGet k => Some (go_sidx n k)
  | FeSeg i _ => if i <? n then Some i else None
  | _ => None
  end.
Definition onat_eqb (a b : option nat) : bool :=
  match a, b with Some x, Some y => Nat.eqb x y | None, None => true | _, _ => false end.
Definition thread_done (s : cstate) (tid : nat) : bool :=
  match nth tid (c_thr s) (Idle, []) with (Idle, []) => true | _ => false end.
Definition stopped (free : option nat) (s : cstate) (tid : nat) : bool :=
  thread_done s tid ||
  match acq_target (nsegs (c_map s)) (fst (nth tid (c_thr s) (Idle, []))) with
  | Some t => negb (onat_eqb free (Some t))
  | None => false
  end.
(* injective encoding of a state (for removing duplicates among the outcomes) *)
Definition b2z (b : bool) : Z := if b then 1%Z else 0%Z.
Definition pairs_code (l : list (N * N)) : list Z :=
  Z.of_nat (length l) :: flat_map (fun p => [Z.of_N (fst p); Z.of_N (snd p)]) l.
Definition optN_code (o : option N) : list Z := match o with Some x => [1%Z; Z.of_N x] | None => [0%Z] end.
Definition call_code (c : call) : list Z :=
  match c with
  | CSwc k v cap => [0%Z; Z.of_N k; Z.of_N v; cap]
  | CSet k v => [1%Z; Z.of_N k; Z.of_N v]
  | CPia k v => [2%Z; Z.of_N k; Z.of_N v]
  | CDel k => [3%Z; Z.of_N k]
  | CCas k o v => [4%Z; Z.of_N k; Z.of_N o; Z.of_N v]
  | CCad k o => [5%Z; Z.of_N k; Z.of_N o]
  | CClear => [6%Z]
  | CGet k => [7%Z; Z.of_N k]
  | CAll => [8%Z]
  end.
Definition pc_code (p : pc) : list Z :=
  match p with
  | Idle => [0%Z]
  | SwcLock k v cap => [1%Z; Z.of_N k; Z.of_N v; cap]
  | SwcAdd k cap isnew => [2%Z; Z.of_N k; cap; b2z isnew]
  | SwcLoad k cap => [3%Z; Z.of_N k; cap]
  | SwcSub k cap d => [4%Z; Z.of_N k; cap; d]
  | SpLoad k cap i deficit => [5%Z; Z.of_N k; cap; Z.of_nat i; deficit]
  | SpEvict k cap i deficit => [6%Z; Z.of_N k; cap; Z.of_nat i; deficit]
  | SpSub k cap i deficit d => [7%Z; Z.of_N k; cap; Z.of_nat i; deficit; d]
  | OpLock c => 8%Z :: call_code c
  | OpAdd sg delta => [9%Z; Z.of_nat sg; delta]
  | ClrSeg i => [10%Z; Z.of_nat i]
  | ClrSub i d => [11%Z; Z.of_nat i; d]
  | RdGet k => [12%Z; Z.of_N k]
  | FeSeg i acc => 13%Z :: Z.of_nat i :: pairs_code acc
  end.
Definition table_code (t : table) : list Z :=
  pairs_code (t_data t) ++ [t_size t; t_growAt t; b2z (t_bad t)] ++ optN_code (t_zero t).
Definition obs_code (o : nat * obs) : list Z :=
  Z.of_nat (fst o) :: match snd o with ObGet k r => 0%Z :: Z.of_N k :: optN_code r | ObAll l => 1%Z :: pairs_code l end.
Definition state_code (s : cstate) : list Z :=
  sm_count (c_map s) :: c_exh s :: Z.of_nat (length (c_thr s)) ::
  flat_map (fun th => pc_code (fst th) ++ (Z.of_nat (length (snd th)) :: flat_map call_code (snd th))) (c_thr s) ++
  flat_map (fun l => match l with Some t => [1%Z; Z.of_nat t] | None => [0%Z] end) (c_locks s) ++
  (Z.of_nat (length (c_obs s)) :: flat_map obs_code (c_obs s)) ++
  flat_map table_code (sm_segs (c_map s)).
Fixpoint zs_eqb (a b : list Z) : bool :=
  match a, b with [], [] => true | x :: r, y :: s => Z.eqb x y && zs_eqb r s | _, _ => false end.
Fixpoint dedup (seen : list (list Z)) (l : list cstate) : list cstate :=
  match l with
  | [] => []
  | s :: r => let c := state_code s in
              if existsb (zs_eqb c) seen then dedup seen r else s :: dedup (c :: seen) r
  end.
(* all outcomes of letting the threads [tids] run with lock [free] available: breadth
   first over the atomic steps, duplicates removed in every layer *)
Fixpoint explore (rescan : bool) (fuel : nat) (free : option nat) (tids : list nat)
                 (frontier : list cstate) (acc : list cstate) : list cstate :=
  match fuel with
  | O => acc
  | S f =>
      match frontier with
      | [] => acc
      | _ =>
          let movable s := filter (fun t => negb (stopped free s t)) tids in
          let fin := filter (fun s => match movable s with [] => true | _ => false end) frontier in
          let next := flat_map (fun s => flat_map (fun t => match step go_mix go_sidx go_eoff rescan s t with
                                                            | Some s' => [s'] | None => [] end) (movable s)) frontier in
          explore rescan f free tids (dedup [] next) (fin ++ acc)
      end
  end.
Fixpoint seg_pairs (segs : list (nat * list (N * N))) (i : nat) : list (N * N) :=
  match segs with [] => [] | (j, l) :: r => if Nat.eqb i j then l else seg_pairs r i end.
Fixpoint waiting_at (w : list (nat * nat)) (i : nat) : nat :=
  match w with [] => 0 | (j, c) :: r => if Nat.eqb i j then c else waiting_at r i end.
Fixpoint bools_eqb (a b : list bool) : bool :=
  match a, b with [] , [] => true | x :: r, y :: s => Bool.eqb x y && bools_eqb r s | _, _ => false end.
Definition grant_match (started : list nat) (g : gstep) (s : cstate) : bool :=
  let '(Grant _ count segs done waiting) := g in
  let m := c_map s in
  let n := nsegs m in
  let tids := seq 0 (length (c_thr s)) in
  Z.eqb (sm_count m) count &&
  forallb (fun i => pairs_eqb (tall (seg m i)) (seg_pairs segs i)) (seq 0 n) &&
  forallb (fun p => Nat.ltb (fst p) n) segs &&
  bools_eqb (map (thread_done s) tids) done &&
  forallb (fun i => Nat.eqb (length (filter (fun t => negb (thread_done s t) &&
                                              onat_eqb (acq_target n (fst (nth t (c_thr s) (Idle, [])))) (Some i)) started))
                            (waiting_at waiting i)) (seq 0 n) &&
  forallb (fun t => negb (t_bad t)) (sm_segs m).
Fixpoint sched_run (rescan : bool) (started : list nat) (states : list cstate) (steps : list gstep) : list cstate :=
  match steps with
  | [] => states
  | g :: rest =>
      let '(Grant a _ _ _ _) := g in
      let started' := match a with Go t => if existsb (Nat.eqb t) started then started else t :: started | Rel _ => started end in
      let free := match a with Rel j => Some j | Go _ => None end in
      sched_run rescan started'
        (filter (grant_match started' g) (dedup [] (explore rescan 400 free started' states []))) rest
  end.
(* what the readers returned: per thread, in the order of their calls *)
Definition obs_eqb (a b : obs) : bool :=
  match a, b with
  | ObGet k r, ObGet k' r' => N.eqb k k' && optN_eqb r r'
  | ObAll l, ObAll l' => pairs_eqb l l'
  | _, _ => false
  end.
Fixpoint reads_eqb (a b : list (nat * obs)) : bool :=
  match a, b with
  | [], [] => true
  | (t, o) :: r, (t', o') :: s => Nat.eqb t t' && obs_eqb o o' && reads_eqb r s
  | _, _ => false
  end.
Definition reads_of (s : cstate) (tid : nat) : list (nat * obs) :=
  filter (fun p => Nat.eqb (fst p) tid) (rev (c_obs s)).
Definition sched_check (rescan : bool) (prefix : list (N * N * Z)) (progs : list (list call))
                       (steps : list gstep) (reads : list (nat * obs)) (complete : bool) : bool :=
  let m0 := fold_left (fun m p => let '(k, v, cap) := p in sm_set_with_cap go_mix go_sidx go_eoff m k v cap)
                      prefix (new_segmap 4 0) in
  let finals := sched_run rescan [] [init m0 progs] steps in
  (* complete: every call has returned and the readers saw what the model's readers saw;
     otherwise the test stopped early (too many threads in front of one lock) *)
  existsb (fun s => negb complete ||
                    (quiescent s && reads_eqb (flat_map (reads_of s) (seq 0 (length progs))) reads)) finals.

(* ------------------------------------------------ check: limiter store *)
Fixpoint lim_run (ms : Z) (st : lstore) (steps : list (lop * Z)) : bool :=
  match steps with
  | [] => true
  | (o, len) :: rest =>
      match lstep ms st o with
      | Some st' => Z.eqb (llen st') len && lim_run ms st' rest
      | None => false
      end
  end.

(* concurrent Gets on the limiter store: an order of the calls that respects "returned
   before the other was called" and that the sequential model accepts call by call
   (Limiter.lstep with no eviction: a stored key hands back its limiter, a new key gets a
   limiter no key has, and there is room for it).  Get's two lock sections (hit under the
   read lock; re-check and insert under the write lock) are each one atomic step of the
   store, so every run of the code is such an order.  if-then-else throughout (vm_compute
   is call-by-value). *)
Definition g_call (g : gop) : Z := let '(Gop _ _ _ c _) := g in c.
Definition g_ret (g : gop) : Z := let '(Gop _ _ _ _ r) := g in r.
Definition g_min_ret (l : list gop) : Z := fold_left (fun a g => Z.min a (g_ret g)) l (2 ^ 62)%Z.
Fixpoint goc_search (fuel : nat) (ms : Z) (st : lstore) (pending : list gop) : bool :=
  match fuel with
  | O => false
  | S f =>
      match pending with
      | [] => true
      | _ =>
          let mr := g_min_ret pending in
          (fix try (i : nat) (l : list gop) {struct l} : bool :=
             match l with
             | [] => false
             | Gop _ k id c _ :: r =>
                 if (c <=? mr)%Z
                 then match lstep ms st (OGet k c id None) with
                      | Some st' => if goc_search f ms st' (remove_nth i pending) then true else try (S i) r
                      | None => try (S i) r
                      end
                 else try (S i) r
             end) 0 pending
      end
  end.
Definition goc_keys (ops : list gop) : list N :=
  fold_left (fun acc g => let '(Gop _ k _ _ _) := g in if lmem k acc then acc else k :: acc) ops [].
Definition goc_check (ms : Z) (ops : list gop) : bool :=
  (Z.of_nat (length (goc_keys ops)) <=? lbound ms)%Z && goc_search (S (length ops)) ms [] ops.
(* judged from the observations alone: one limiter per key, no limiter under two keys *)
Definition goc_spec (ms : Z) (ops : list gop) : bool :=
  negb (Z.of_nat (length (goc_keys ops)) <=? lbound ms)%Z ||
  forallb (fun a => forallb (fun b =>
     let '(Gop _ k1 i1 _ _) := a in let '(Gop _ k2 i2 _ _) := b in Bool.eqb (N.eqb k1 k2) (N.eqb i1 i2)) ops) ops.

(* expiry: the model's verdict at both ends of the bracket; where they agree (expiry is monotone
   in the clock, Proofs_wrap.expired_model_mono) the code must have said the same *)
Definition exp_check (lo hi : Z) (e : eobs) : bool :=
  let '(Eobs stored ttl cut b) := e in
  let a := expired_model stored ttl cut lo in
  let z := expired_model stored ttl cut hi in
  if Bool.eqb a z then Bool.eqb a b else true.
(* judged without the model: an entry whose ttl and cut both reach beyond [hi] is fresh, one
   whose ttl or cut ended by [lo] has expired *)
Definition exp_spec (lo hi : Z) (e : eobs) : bool :=
  let '(Eobs stored ttl cut b) := e in
  let ends := if Z.eqb cut 0 then (stored + ttl)%Z else Z.min (stored + ttl) cut in
  if (ends <=? lo)%Z then b else if (hi <? ends)%Z then negb b else true.

(* ------------------------------------------- check: expiring wrappers *)
Definition exp_of (exp : list N) (v : N) : bool := lmem v exp.
Definition wrap_apply (ex : N -> bool) (cap : Z) (m : segmap) (o : wop) : option segmap :=
  match o with
  | WGet k r => let '(m', r') := w_get ex go_mix go_sidx m k in if optN_eqb r r' then Some m' else None
  | WSet k v gone =>
      let m' := w_set go_mix go_sidx go_eoff m k v cap in
      if forallb (fun g => match cs_get m' g with None => true | Some _ => false end) gone then Some m' else None
  | WRem k => Some (w_remove go_mix go_sidx m k)
  end.
Fixpoint wrap_run (ex : N -> bool) (cap : Z) (m : segmap) (steps : list wstep) : bool :=
  match steps with
  | [] => seg_ok m
  | Ws o len :: rest =>
      match wrap_apply ex cap m o with
      | None => false
      | Some m' => if Z.eqb (sm_len m') len then wrap_run ex cap m' rest else false
      end
  end.

Definition check_case (c : case) : bool :=
  match c with
  | CaseTab cap n0 g0 steps final nfinal =>
      let t0 := new_table cap in
      Z.eqb (Z.of_nat (length (t_data t0))) n0 && Z.eqb (t_growAt t0) g0 &&
      match tab_run t0 steps with
      | Some t => sparse_eqb (sparse (t_data t) 0%N) final && Z.eqb (Z.of_nat (length (t_data t))) nfinal
      | None => false
      end
  | CaseSeg power initcap nseg steps =>
      let m0 := new_segmap power initcap in
      Z.eqb (Z.of_nat (nsegs m0)) nseg &&
      match seg_run m0 steps with Some m => seg_ok m | None => false end
  | CaseCache size steps =>
      (* every Add uses the cache's maxSize *)
      forallb (fun s => match s with Ss (SSwc _ _ cap _) _ => Z.eqb cap (snd (new_cache size)) | _ => true end) steps &&
      match seg_run (fst (new_cache size)) steps with Some m => seg_ok m | None => false end
  | CaseGo _ => true
  | CaseSched prefix progs steps reads complete =>
      (* with the spill loop the source text has (Conc.go_rescan) *)
      sched_check go_rescan prefix progs steps reads complete
  | CaseLim ms steps => lim_run ms [] steps
  | CaseLin ops =>
      (* some order of the calls that respects "returned before the other was called" is a
         legal history of the sequential map specification (Lin.legal) — the specification
         every schedule of the interleaving model meets (Proofs_lin.runs_linearize) *)
      linearizable ops
  | CaseWrap size exp steps =>
      let '(m0, cap) := new_cache size in wrap_run (exp_of exp) cap m0 steps
  | CaseWLin exp ops =>
      (* the wrapper calls read through the fresh view (a Set of an expired entry is a removal)
         have a linearization that is legal for the same Lin.legal — what
         Proofs_wrap.wrappers_linearize proves for every schedule of the interleaving model *)
      linearizable (map (wview_hop (exp_of exp)) ops)
  | CaseLimC ms ops => goc_check ms ops
  | CaseExp lo hi ents => (lo <=? hi)%Z && forallb (exp_check lo hi) ents
  end.

(* ------------------------------------------------------------- the spec *)
(* reference finite map: association list with unique keys *)
Definition ref := list (N * N).
Fixpoint r_get (m : ref) (k : N) : option N :=
  match m with [] => None | (a, b) :: r => if N.eqb a k then Some b else r_get r k end.
Fixpoint r_del (m : ref) (k : N) : ref :=
  match m with [] => [] | (a, b) :: r => if N.eqb a k then r_del r k else (a, b) :: r_del r k end.
Definition r_put (m : ref) (k v : N) : ref := (k, v) :: r_del m k.
Definition r_mem (m : ref) (k : N) : bool := match r_get m k with Some _ => true | None => false end.
Definition r_len (m : ref) : Z := Z.of_nat (length m).
Fixpoint nodupb (l : list N) : bool :=
  match l with [] => true | x :: r => negb (existsb (N.eqb x) r) && nodupb r end.
Definition r_others (m : ref) (skip : N) : Z := (r_len m - (if r_mem m skip then 1 else 0))%Z.
(* [gone] is a duplicate-free list of present keys other than [skip] *)
Definition gone_ok (m : ref) (skip : N) (gone : list N) : bool :=
  nodupb gone && forallb (fun g => r_mem m g && negb (N.eqb g skip)) gone.
(* an enumeration is exactly the reference content (any order) *)
Definition all_ok (m : ref) (r : list (N * N)) : bool :=
  Nat.eqb (length r) (length m) && nodupb (map fst r) &&
  forallb (fun p => optN_eqb (r_get m (fst p)) (Some (snd p))) r.

Definition tab_spec_apply (m : ref) (o : top) : option ref :=
  match o with
  | TGet k r => if optN_eqb (r_get m k) r then Some m else None
  | THas k r => if Bool.eqb (r_mem m k) r then Some m else None
  | TPut k v => Some (r_put m k v)
  | TPia k v rv ins =>
      match r_get m k with
      | Some x => if N.eqb rv x && negb ins then Some m else None
      | None => if N.eqb rv v && ins then Some (r_put m k v) else None
      end
  | TDel k r => if Bool.eqb (r_mem m k) r then Some (r_del m k) else None
  | TEv off n skip r gone =>
      (* deletes min(n, #others) entries, never [skip], nothing else changes *)
      if gone_ok m skip gone && Z.eqb r (Z.of_nat (length gone)) &&
         Z.eqb r (Z.max 0 (Z.min n (r_others m skip)))
      then Some (fold_left r_del gone m) else None
  | TClr => Some []
  | TAll r => if all_ok m r then Some m else None
  end.
Fixpoint tab_spec_run (m : ref) (steps : list tstep) : bool :=
  match steps with
  | [] => true
  | s :: rest =>
      let '(o, len) := match s with St o l => (o, l) | Sd o l _ => (o, l) end in
      match tab_spec_apply m o with
      | None => false
      | Some m' => Z.eqb (r_len m') len && tab_spec_run m' rest
      end
  end.

Definition seg_spec_apply (m : ref) (o : sop) : option ref :=
  match o with
  | SGet k r => if optN_eqb (r_get m k) r then Some m else None
  | SSet k v => Some (r_put m k v)
  | SSwc k v cap gone =>
      let m1 := r_put m k v in
      let m2 := fold_left r_del gone m1 in
      (* never the key being written; only present keys; a map within its
         capacity (>= 1) before the call is within it afterwards *)
      if gone_ok m1 k gone && ((cap <? 1)%Z || (cap <? r_len m)%Z || (r_len m2 <=? cap)%Z)
      then Some m2 else None
  | SPia k v rv ins =>
      match r_get m k with
      | Some x => if N.eqb rv x && negb ins then Some m else None
      | None => if N.eqb rv v && ins then Some (r_put m k v) else None
      end
  | SDel k r => if Bool.eqb (r_mem m k) r then Some (r_del m k) else None
  | SRem k => Some (r_del m k)
  | SCas k old v r =>
      (* acts only when the identical current value is present *)
      let hit := optN_eqb (r_get m k) (Some old) in
      if Bool.eqb hit r then Some (if hit then r_put m k v else m) else None
  | SCad k old r =>
      let hit := optN_eqb (r_get m k) (Some old) in
      if Bool.eqb hit r then Some (if hit then r_del m k else m) else None
  | SClr => Some []
  | SClrSeg i gone => if gone_ok m (fold_left N.max (map fst m) 0 + 1)%N gone then Some (fold_left r_del gone m) else None
  | SAll r => if all_ok m r then Some m else None
  end.
Fixpoint seg_spec_run (m : ref) (steps : list sstep) : bool :=
  match steps with
  | [] => true
  | Ss o len :: rest =>
      match seg_spec_apply m o with
      | None => false
      | Some m' => Z.eqb (r_len m') len && seg_spec_run m' rest
      end
  end.

(* A forced schedule, judged from the observations alone: at every point where all
   threads stand between two lock sections no key is stored twice and every key
   sits in the segment a lookup goes to; once all calls have returned the counter
   is the number of entries; and, where every insert is a SetWithCap with one
   capacity >= 1, the entries never exceed the capacity by more than the number of
   threads that have not returned. *)
Definition sched_cap (prefix : list (N * N * Z)) (progs : list (list call)) : option Z :=
  let calls := concat progs in
  let caps := map snd prefix ++ flat_map (fun c => match c with CSwc _ _ cap => [cap] | _ => [] end) calls in
  let uncapped := existsb (fun c => match c with CSet _ _ | CPia _ _ => true | _ => false end) calls in
  match caps with
  | c :: r => if forallb (Z.eqb c) r && (1 <=? c)%Z && negb uncapped then Some c else None
  | [] => None
  end.
Definition grant_spec (ocap : option Z) (started : nat) (g : gstep) : bool :=
  let '(Grant _ count segs done _) := g in
  let all := flat_map snd segs in
  let returned := length (filter (fun b : bool => b) done) in
  nodupb (map fst all) &&
  forallb (fun p => forallb (fun kv => Nat.eqb (go_sidx 16 (fst kv)) (fst p)) (snd p)) segs &&
  (if Nat.eqb returned started then Z.eqb count (Z.of_nat (length all)) else true) &&
  match ocap with
  | Some cap => (Z.of_nat (length all) <=? cap + Z.of_nat (started - returned))%Z
  | None => true
  end.
Fixpoint sched_spec_run (ocap : option Z) (started : list nat) (steps : list gstep) : bool :=
  match steps with
  | [] => true
  | g :: rest =>
      let '(Grant a _ _ _ _) := g in
      let started' := match a with Go t => if existsb (Nat.eqb t) started then started else t :: started | Rel _ => started end in
      grant_spec ocap (length started') g && sched_spec_run ocap started' rest
  end.
Definition sched_spec (prefix : list (N * N * Z)) (progs : list (list call)) (steps : list gstep) : bool :=
  sched_spec_run (sched_cap prefix progs) [] steps.

(* The limiter store judged as a bounded map key -> limiter identity (no clock): a stored
   key returns its limiter, a new key gets a limiter no stored key has, the evicted key
   is a stored key other than the one asked for, Len = stored keys <= max(maxSize, 1). *)
Fixpoint lim_spec_run (ms : Z) (m : ref) (steps : list (lop * Z)) : bool :=
  match steps with
  | [] => true
  | (o, len) :: rest =>
      match o with
      | OGet k _ id v =>
          let ok_v := match v with Some vk => negb (N.eqb vk k) && r_mem m vk | None => true end in
          let m1 := match v with Some vk => r_del m vk | None => m end in
          let m2 := match r_get m1 k with Some _ => m1 | None => (k, id) :: m1 end in
          ok_v &&
          match r_get m1 k with
          | Some x => N.eqb x id
          | None => negb (existsb (fun p => N.eqb (snd p) id) m1)
          end &&
          Z.eqb (r_len m2) len && (len <=? Z.max ms 1)%Z && lim_spec_run ms m2 rest
      | OClean _ _ gone =>
          let m1 := fold_left r_del gone m in
          nodupb gone && forallb (r_mem m) gone && Z.eqb (r_len m1) len && lim_spec_run ms m1 rest
      end
  end.

(* A recorded concurrent history judged without any search: a value read under a key, or
   found current by a CompareAndSwap / CompareAndDelete that hit, is a value some call of
   the history stored under THAT key (keys never alias, nothing is invented); and a read
   made after every writer returned misses only if some call could have removed the key. *)
Definition stores_kv (e : lev) (k v : N) : bool :=
  match e with
  | LStore _ k' v' => N.eqb k k' && N.eqb v v'
  | LCas _ k' _ v' true => N.eqb k k' && N.eqb v v'
  | LPia _ k' v' true => N.eqb k k' && N.eqb v v'
  | _ => false
  end.
Definition removes_k (e : lev) (k : N) : bool :=
  match e with
  | LRem _ k' | LDel _ k' _ | LCad _ k' _ true => N.eqb k k'
  | LEvict _ _ ks | LClear _ ks => lmem k ks
  | _ => false
  end.
Definition lin_spec (ops : list hop) : bool :=
  let evs := map h_ev ops in
  let last_ret := fold_left (fun a h => match h_ev h with LGet _ _ _ => a | _ => Z.max a (h_ret h) end) ops 0%Z in
  forallb (fun h =>
             match h_ev h with
             | LGet _ k (Some v) => existsb (fun e => stores_kv e k v) evs
             | LGet _ k None =>
                 (h_call h <=? last_ret)%Z || negb (existsb (fun e => match e with LStore _ k' _ => N.eqb k k' | _ => false end) evs) ||
                 existsb (fun e => removes_k e k) evs
             | LCas _ k old _ true | LCad _ k old true => existsb (fun e => stores_kv e k old) evs
             | _ => true
             end) ops.

(* The wrappers judged as a bounded map of entries whose readers never see an expired one: a
   Get yields the fresh part of the stored entry and removes at most that expired entry, a Set
   evicts only other present keys and keeps a map within its capacity within it, Len = entries. *)
Fixpoint wrap_spec_run (ex : N -> bool) (cap : Z) (m : ref) (steps : list wstep) : bool :=
  match steps with
  | [] => true
  | Ws o len :: rest =>
      match match o with
            | WGet k r =>
                if optN_eqb r (fresh ex (r_get m k))
                then Some (match r_get m k with Some v => if ex v then r_del m k else m | None => m end)
                else None
            | WSet k v gone => seg_spec_apply m (SSwc k v cap gone)
            | WRem k => Some (r_del m k)
            end with
      | None => false
      | Some m' => Z.eqb (r_len m') len && wrap_spec_run ex cap m' rest
      end
  end.

Definition spec_case (c : case) : bool :=
  match c with
  | CaseTab _ _ _ steps _ _ => tab_spec_run [] steps
  | CaseSeg _ _ _ steps => seg_spec_run [] steps
  | CaseCache _ steps => seg_spec_run [] steps
  | CaseGo _ => true
  | CaseSched prefix progs steps _ _ => sched_spec prefix progs steps
  | CaseLim ms steps => lim_spec_run ms [] steps
  | CaseLin ops => lin_spec ops
  | CaseWrap size exp steps => wrap_spec_run (exp_of exp) (snd (new_cache size)) [] steps
  | CaseWLin exp ops => lin_spec (map (wview_hop (exp_of exp)) ops)
  | CaseLimC ms ops => goc_spec ms ops
  | CaseExp lo hi ents => forallb (exp_spec lo hi) ents
  end.
