(* C16 — the probing table: invariant, probe, insert, backward-shift delete.
   Everything is for an arbitrary slot hash [mix]. *)
From Sdns Require Import Common.Base Gen.C16 C16.Model C16.Proofs_cyc.
Open Scope nat_scope.

Section Tab.
  Variable mix : N -> N.
  Notation h := (hidx mix).

  (* no key twice *)
  Definition Uq (d : list slot) : Prop :=
    forall i j, i < length d -> j < length d -> skey d i <> 0%N -> skey d i = skey d j -> i = j.
  (* probe chains intact: between a key's home slot and its slot nothing is empty *)
  Definition Ch (d : list slot) : Prop :=
    forall j p, j < length d -> p < length d -> skey d j <> 0%N ->
      dist (length d) (h (length d) (skey d j)) p < dist (length d) (h (length d) (skey d j)) j ->
      skey d p <> 0%N.
  (* an entry (k,v), k <> 0, sits in some slot *)
  Definition has (d : list slot) (k v : N) : Prop := exists i, i < length d /\ sl d i = (k, v).

  (* hash-independent lookup in the slot list: the abstraction function *)
  Definition dget (d : list slot) (k : N) : option N :=
    option_map snd (find (fun s : slot => N.eqb (fst s) k) d).

  Lemma has_In d k v : has d k v <-> In (k, v) d.
  Proof.
    split.
    - intros [i [Hi Hs]]. rewrite <- Hs. apply nth_In. exact Hi.
    - intros H. destruct (In_nth _ _ empty_slot H) as [i [Hi Hs]]. exists i. split; auto.
  Qed.

  Lemma dget_some d k v : dget d k = Some v -> has d k v.
  Proof.
    unfold dget. destruct (find (fun s : slot => N.eqb (fst s) k) d) eqn:E; simpl; [|intros H; discriminate H].
    intros H. inversion H; subst. apply find_some in E. destruct E as [Hin Hk].
    apply has_In. apply N.eqb_eq in Hk. destruct s; simpl in *; subst. exact Hin.
  Qed.
  Lemma dget_none d k : dget d k = None -> forall i, i < length d -> skey d i <> k.
  Proof.
    unfold dget. destruct (find (fun s : slot => N.eqb (fst s) k) d) eqn:E; simpl; [intros H; discriminate H|].
    intros _ i Hi Hk. pose proof (find_none _ _ E (sl d i) (nth_In _ _ Hi)) as H.
    simpl in H. unfold skey in Hk. rewrite Hk, N.eqb_refl in H. discriminate.
  Qed.
  Lemma has_dget d k v : Uq d -> k <> 0%N -> has d k v -> dget d k = Some v.
  Proof.
    intros HU Hk [i [Hi Hs]].
    destruct (dget d k) eqn:E.
    - apply dget_some in E. destruct E as [j [Hj Hs']].
      assert (i = j).
      { apply HU; auto; unfold skey; rewrite Hs; simpl; auto. rewrite Hs'. reflexivity. }
      subst j. rewrite Hs in Hs'. inversion Hs'; subst; auto.
    - exfalso. eapply dget_none; eauto. unfold skey. rewrite Hs. reflexivity.
  Qed.
  Lemma dget_ext d d' k : Uq d -> Uq d' -> k <> 0%N ->
    (forall v, has d k v <-> has d' k v) -> dget d k = dget d' k.
  Proof.
    intros HU HU' Hk H.
    destruct (dget d k) eqn:E.
    - symmetry. apply has_dget; auto. apply H. apply dget_some. exact E.
    - destruct (dget d' k) eqn:E'; auto.
      apply dget_some in E'. apply H in E'. apply has_dget in E'; auto. congruence.
  Qed.
  Lemma has_key d k v : has d k v -> exists i, i < length d /\ skey d i = k.
  Proof. intros [i [Hi Hs]]. exists i. split; auto. unfold skey. rewrite Hs. reflexivity. Qed.
  Lemma dget_absent d k : (forall i, i < length d -> skey d i <> k) -> dget d k = None.
  Proof.
    intros H. destruct (dget d k) eqn:E; auto. apply dget_some in E.
    destruct (has_key _ _ _ E) as [i [Hi Hk]]. exfalso. eapply H; eauto.
  Qed.

  (* ------------------------------------------------------------- probe *)
  Lemma probe_found d k j :
    Uq d -> Ch d -> k <> 0%N -> j < length d -> skey d j = k -> probe mix d k = PFound j.
  Proof.
    intros HU HC Hk Hj Hkey. unfold probe.
    set (n := length d). assert (Hn : 0 < n) by (unfold n; lia).
    assert (Hh : h n k < n) by (apply hidx_lt; auto).
    assert (Hstop : stop_key k (sl d j) = true).
    { unfold stop_key. fold (skey d j). rewrite Hkey, N.eqb_refl. reflexivity. }
    destruct (scan_finds (stop_key k) d n (h n k) j eq_refl Hh Hj Hstop) as [e He].
    rewrite He.
    destruct (scan_some (stop_key k) n d n (h n k) e eq_refl Hh He) as [Hen [Hse [_ Hbefore]]].
    assert (e = j).
    { destruct (Nat.lt_trichotomy (dist n (h n k) e) (dist n (h n k) j)) as [Hlt|[Heq|Hgt]].
      - (* e strictly before j on j's chain: occupied, so it holds k: duplicate *)
        assert (skey d e <> 0%N).
        { apply (HC j e Hj Hen); rewrite Hkey; [exact Hk|exact Hlt]. }
        unfold stop_key in Hse. fold (skey d e) in Hse.
        apply orb_true_iff in Hse. destruct Hse as [Hse|Hse]; apply N.eqb_eq in Hse; [|contradiction].
        symmetry. apply HU; auto; try congruence; try (unfold n in *; lia).
      - apply (dist_inj n (h n k) e j); auto.
      - specialize (Hbefore j Hj Hgt). congruence. }
    subst e. rewrite Hkey, N.eqb_refl. reflexivity.
  Qed.

  Lemma probe_absent d k :
    k <> 0%N -> (forall i, i < length d -> skey d i <> k) ->
    (exists e, e < length d /\ skey d e = 0%N) ->
    exists e, probe mix d k = PEmpty e /\ e < length d /\ skey d e = 0%N /\
      forall p, p < length d -> dist (length d) (h (length d) k) p < dist (length d) (h (length d) k) e -> skey d p <> 0%N.
  Proof.
    intros Hk Habs [e0 [He0 Hz]]. unfold probe.
    set (n := length d). assert (Hn : 0 < n) by (unfold n; lia).
    assert (Hh : h n k < n) by (apply hidx_lt; auto).
    assert (Hstop : stop_key k (sl d e0) = true).
    { unfold stop_key. fold (skey d e0). rewrite Hz. simpl. apply orb_true_r. }
    destruct (scan_finds (stop_key k) d n (h n k) e0 eq_refl Hh He0 Hstop) as [e He].
    rewrite He.
    destruct (scan_some (stop_key k) n d n (h n k) e eq_refl Hh He) as [Hen [Hse [_ Hbefore]]].
    exists e.
    assert (Hne : skey d e <> k) by (apply Habs; auto).
    destruct (N.eqb_spec (skey d e) k); [contradiction|].
    unfold stop_key in Hse. fold (skey d e) in Hse.
    apply orb_true_iff in Hse. destruct Hse as [Hse|Hse]; apply N.eqb_eq in Hse; [contradiction|].
    repeat split; auto.
    intros p Hp Hd Hpz. specialize (Hbefore p Hp Hd).
    unfold stop_key in Hbefore. fold (skey d p) in Hbefore. rewrite Hpz in Hbefore.
    simpl in Hbefore. rewrite orb_true_r in Hbefore. discriminate.
  Qed.

  (* the probe never falls through when an empty slot exists *)
  Lemma probe_not_none d k : (exists e, e < length d /\ skey d e = 0%N) -> probe mix d k <> PNone.
  Proof.
    intros [e0 [He0 Hz]]. unfold probe.
    set (n := length d). assert (Hn : 0 < n) by (unfold n; lia).
    assert (Hh : h n k < n) by (apply hidx_lt; auto).
    assert (Hstop : stop_key k (sl d e0) = true).
    { unfold stop_key. fold (skey d e0). rewrite Hz. simpl. apply orb_true_r. }
    destruct (scan_finds (stop_key k) d n (h n k) e0 eq_refl Hh He0 Hstop) as [e He].
    rewrite He. destruct (N.eqb (skey d e) k); discriminate.
  Qed.

  (* ------------------------------------------------------------ insert *)
  Lemma insert_Uq d e k v :
    Uq d -> e < length d -> skey d e = 0%N -> (forall i, i < length d -> skey d i <> k) ->
    Uq (upd e (k, v) d).
  Proof.
    intros HU He Hz Habs i j. rewrite !upd_length. intros Hi Hj Hnz Heq.
    destruct (Nat.eq_dec i e), (Nat.eq_dec j e); subst; auto.
    - rewrite skey_upd_eq in Heq by auto. rewrite skey_upd_neq in Heq by auto.
      simpl in Heq. exfalso. exact (Habs j Hj (eq_sym Heq)).
    - rewrite skey_upd_eq in Heq by auto. rewrite skey_upd_neq in Heq by auto.
      simpl in Heq. exfalso. exact (Habs i Hi Heq).
    - rewrite !skey_upd_neq in * by auto. apply HU; auto.
  Qed.
  Lemma insert_Ch d e k v :
    Ch d -> e < length d -> k <> 0%N ->
    (forall p, p < length d -> dist (length d) (h (length d) k) p < dist (length d) (h (length d) k) e -> skey d p <> 0%N) ->
    skey d e = 0%N ->
    Ch (upd e (k, v) d).
  Proof.
    intros HC He Hk Hpath Hz j p. rewrite !upd_length. intros Hj Hp Hnz Hd.
    destruct (Nat.eq_dec j e).
    - subst j. rewrite skey_upd_eq in Hd by auto. simpl in Hd.
      assert (p <> e) by (intro; subst; lia).
      rewrite skey_upd_neq by auto. apply Hpath; auto.
    - rewrite (skey_upd_neq e j) in * by auto.
      destruct (Nat.eq_dec p e).
      + subst p. rewrite skey_upd_eq by auto. exact Hk.
      + rewrite skey_upd_neq by auto. apply (HC j p); auto.
  Qed.
  Lemma insert_has d e k v k' v' :
    e < length d -> skey d e = 0%N -> k' <> 0%N ->
    (has (upd e (k, v) d) k' v' <-> has d k' v' \/ (k' = k /\ v' = v)).
  Proof.
    intros He Hz Hk'. split.
    - intros [i [Hi Hs]]. rewrite upd_length in Hi. destruct (Nat.eq_dec i e).
      + subst. rewrite sl_upd_eq in Hs by auto. inversion Hs; auto.
      + rewrite sl_upd_neq in Hs by auto. left. exists i; auto.
    - intros [[i [Hi Hs]]|[-> ->]].
      + exists i. rewrite upd_length. split; auto. rewrite sl_upd_neq; auto.
        intro; subst i. unfold skey in Hz. rewrite Hs in Hz. simpl in Hz. contradiction.
      + exists e. rewrite upd_length. split; auto. apply sl_upd_eq; auto.
  Qed.

  (* overwrite the value of the slot that holds k *)
  Lemma update_keys d j k v i : j < length d -> skey d j = k -> skey (upd j (k, v) d) i = skey d i.
  Proof.
    intros Hj Hk. destruct (Nat.eq_dec i j); [subst; rewrite skey_upd_eq; auto|rewrite skey_upd_neq; auto].
  Qed.
  Lemma keys_same_Uq d d' : length d' = length d -> (forall i, skey d' i = skey d i) -> Uq d -> Uq d'.
  Proof. intros Hl Hk HU i j. rewrite Hl, !Hk. apply HU. Qed.
  Lemma keys_same_Ch d d' : length d' = length d -> (forall i, skey d' i = skey d i) -> Ch d -> Ch d'.
  Proof. intros Hl Hk HC j p. rewrite Hl, !Hk. apply HC. Qed.
  Lemma keys_same_occ d d' : length d' = length d -> (forall i, skey d' i = skey d i) -> occ d' = occ d.
  Proof.
    revert d'. induction d; intros [|b d'] Hl Hk; simpl in *; try lia.
    f_equal.
    - specialize (Hk 0). unfold skey, sl in Hk. simpl in Hk. unfold nz. rewrite Hk. reflexivity.
    - apply IHd; [lia|]. intros i. apply (Hk (S i)).
  Qed.
  Lemma update_has d j k v k' v' :
    Uq d -> j < length d -> skey d j = k -> k <> 0%N -> k' <> 0%N ->
    (has (upd j (k, v) d) k' v' <-> (k' <> k /\ has d k' v') \/ (k' = k /\ v' = v)).
  Proof.
    intros HU Hj Hkey Hk Hk'. split.
    - intros [i [Hi Hs]]. rewrite upd_length in Hi. destruct (Nat.eq_dec i j).
      + subst. rewrite sl_upd_eq in Hs by auto. inversion Hs; auto.
      + rewrite sl_upd_neq in Hs by auto. left. split; [|exists i; auto].
        intro; subst k'. apply n. apply HU; auto.
        * unfold skey. rewrite Hs. simpl. exact Hk'.
        * unfold skey at 1. rewrite Hs. simpl. congruence.
    - intros [[Hne [i [Hi Hs]]]|[-> ->]].
      + exists i. rewrite upd_length. split; auto. rewrite sl_upd_neq; auto.
        intro; subst i. unfold skey in Hkey. rewrite Hs in Hkey. simpl in Hkey. congruence.
      + exists j. rewrite upd_length. split; auto. apply sl_upd_eq; auto.
  Qed.

  (* ------------------------------------------------ backward-shift delete *)
  (* gap i (empty), cursor j *)
  Record BInv (d : list slot) (i j : nat) : Prop := {
    bi_i : i < length d;
    bi_j : j < length d;
    bi_gap : skey d i = 0%N;
    bi_uq : Uq d;
    (* chains are intact except possibly at the gap *)
    bi_ch : forall q p, q < length d -> p < length d -> skey d q <> 0%N ->
              dist (length d) (h (length d) (skey d q)) p < dist (length d) (h (length d) (skey d q)) q ->
              p <> i -> skey d p <> 0%N;
    (* an entry whose chain crosses the gap has not been passed by the cursor *)
    bi_ahead : forall q, q < length d -> skey d q <> 0%N ->
              dist (length d) (h (length d) (skey d q)) i < dist (length d) (h (length d) (skey d q)) q ->
              dist (length d) i j < dist (length d) i q }.

  (* the three cyclic facts the argument rests on *)
  Lemma cyc_stay n i j k : i < n -> j < n -> k < n ->
    0 < dist n i k -> dist n i k <= dist n i j -> ~ dist n k i < dist n k j.
  Proof. cyc. Qed.
  Lemma cyc_exit n i j k q : i < n -> j < n -> k < n -> q < n ->
    dist n k i < dist n k q -> dist n i j < dist n i q -> dist n k j < dist n k q.
  Proof. cyc. Qed.
  Lemma cyc_move n i j k p : i < n -> j < n -> k < n -> p < n -> i <> j ->
    ~ (0 < dist n i k /\ dist n i k <= dist n i j) ->
    dist n k p < dist n k i -> dist n k p < dist n k j /\ p <> i.
  Proof. cyc. Qed.

  Lemma move_has d i j k v :
    i < length d -> j < length d -> i <> j -> skey d i = 0%N -> k <> 0%N ->
    (has (upd j empty_slot (upd i (sl d j) d)) k v <-> has d k v).
  Proof.
    intros Hi Hj Hij Hz Hk. split.
    - intros [q [Hq Hs]]. rewrite !upd_length in Hq.
      destruct (Nat.eq_dec q j).
      + subst. rewrite sl_upd_eq in Hs by (rewrite upd_length; auto). inversion Hs. congruence.
      + rewrite sl_upd_neq in Hs by auto. destruct (Nat.eq_dec q i).
        * subst. rewrite sl_upd_eq in Hs by auto. exists j; auto.
        * rewrite sl_upd_neq in Hs by auto. exists q; auto.
    - intros [q [Hq Hs]].
      assert (q <> i). { intro; subst. unfold skey in Hz. rewrite Hs in Hz. simpl in Hz. contradiction. }
      destruct (Nat.eq_dec q j).
      + subst. exists i. rewrite !upd_length. split; auto.
        rewrite sl_upd_neq by auto. rewrite sl_upd_eq by auto. exact Hs.
      + exists q. rewrite !upd_length. split; auto. rewrite !sl_upd_neq by auto. exact Hs.
  Qed.
  Lemma move_occ d i j :
    i < length d -> j < length d -> i <> j -> skey d i = 0%N ->
    occ (upd j empty_slot (upd i (sl d j) d)) = occ d.
  Proof.
    intros Hi Hj Hij Hz.
    pose proof (occ_upd i (sl d j) d Hi) as H1.
    pose proof (occ_upd j empty_slot (upd i (sl d j) d)) as H2.
    rewrite upd_length in H2. specialize (H2 Hj).
    rewrite sl_upd_neq in H2 by auto.
    rewrite (nz_key d i), Hz in H1. change (nz empty_slot) with false in H2. simpl in H1, H2. lia.
  Qed.

  Lemma move_BInv d i j :
    BInv d i j -> let j' := nxt (length d) j in
    skey d j' <> 0%N ->
    stay i j' (h (length d) (skey d j')) = false ->
    BInv (upd j' empty_slot (upd i (sl d j') d)) j' j'.
  Proof.
    intros [Hi Hj Hgap HU HCh Hah] j' Hocc Hst.
    set (n := length d) in *. assert (Hn : 0 < n) by lia.
    assert (Hj' : j' < n) by (apply nxt_lt; auto).
    assert (Hij' : i <> j') by (intro; subst; congruence).
    set (k := h n (skey d j')) in *.
    assert (Hk : k < n) by (apply hidx_lt; auto).
    assert (Hnst : ~ (0 < dist n i k /\ dist n i k <= dist n i j')).
    { intro. apply (stay_spec n i j' k Hi Hj' Hk) in H. congruence. }
    set (d' := upd j' empty_slot (upd i (sl d j') d)).
    assert (Hlen : length d' = n) by (unfold d'; rewrite !upd_length; auto).
    assert (Hki : skey d' i = skey d j').
    { unfold d'. rewrite skey_upd_neq by auto. rewrite skey_upd_eq by auto. reflexivity. }
    assert (Hkj : skey d' j' = 0%N).
    { unfold d'. rewrite skey_upd_eq by (rewrite upd_length; auto). reflexivity. }
    assert (Hko : forall q, q <> i -> q <> j' -> skey d' q = skey d q).
    { intros. unfold d'. rewrite !skey_upd_neq by auto. reflexivity. }
    constructor; rewrite ?Hlen; auto.
    - (* unique *)
      intros a b Ha Hb Hnz Heq. rewrite Hlen in Ha, Hb.
      destruct (Nat.eq_dec a j') as [|Naj]; [subst; congruence|].
      destruct (Nat.eq_dec b j') as [|Nbj]; [subst; congruence|].
      destruct (Nat.eq_dec a i) as [Eai|Nai], (Nat.eq_dec b i) as [Ebi|Nbi]; subst; auto.
      + rewrite Hki in Heq. rewrite Hko in Heq by auto. exfalso. apply Nbj. symmetry. apply HU; auto.
      + rewrite Hki in Heq. rewrite Hko in Heq, Hnz by auto. exfalso. apply Naj. apply HU; auto.
      + rewrite !Hko in * by auto. apply HU; auto.
    - (* chains *)
      intros q p Hq Hp Hnz Hd Hpj.
      destruct (Nat.eq_dec q j'); [subst; congruence|].
      destruct (Nat.eq_dec q i).
      + subst q. rewrite Hki in Hd. fold k in Hd.
        destruct (cyc_move n i j' k p Hi Hj' Hk Hp Hij' Hnst Hd) as [Hd' Hpi].
        rewrite Hko by auto. apply (HCh j' p); auto.
      + rewrite Hko in Hd, Hnz by auto.
        destruct (Nat.eq_dec p i); [subst; rewrite Hki; auto|].
        rewrite Hko by auto. apply (HCh q p); auto.
    - (* ahead: trivial, the cursor sits on the gap *)
      intros q Hq Hnz _. rewrite dist_self.
      assert (q <> j') by (intro; subst; congruence).
      destruct (dist n j' q) eqn:E; [|lia]. apply dist_zero in E; auto. congruence.
  Qed.

  Lemma stay_BInv d i j :
    BInv d i j -> let j' := nxt (length d) j in
    skey d j' <> 0%N ->
    stay i j' (h (length d) (skey d j')) = true ->
    BInv d i j'.
  Proof.
    intros [Hi Hj Hgap HU HCh Hah] j' Hocc Hst.
    set (n := length d) in *. assert (Hn : 0 < n) by lia.
    assert (Hj' : j' < n) by (apply nxt_lt; auto).
    assert (Hij' : j' <> i) by (intro; subst; congruence).
    set (k := h n (skey d j')) in *.
    assert (Hk : k < n) by (apply hidx_lt; auto).
    apply (stay_spec n i j' k Hi Hj' Hk) in Hst. destruct Hst as [Hs1 Hs2].
    constructor; auto.
    intros q Hq Hnz Hd.
    specialize (Hah q Hq Hnz Hd).
    assert (dist n i j' = S (dist n i j)) by (apply dist_to_nxt; auto).
    destruct (Nat.eq_dec q j').
    - subst q. exfalso. exact (cyc_stay n i j' k Hi Hj' Hk Hs1 Hs2 Hd).
    - assert (dist n i q <> dist n i j') by (intro E; apply n0; apply (dist_inj n i q j'); auto).
      change (length d) with n. lia.
  Qed.

  Lemma exit_Ch d i j :
    BInv d i j -> skey d (nxt (length d) j) = 0%N -> Ch d.
  Proof.
    intros [Hi Hj Hgap HU HCh Hah] Hz.
    set (n := length d) in *. assert (Hn : 0 < n) by lia.
    set (j' := nxt n j) in *.
    assert (Hj' : j' < n) by (apply nxt_lt; auto).
    intros q p Hq Hp Hnz Hd.
    apply (HCh q p); auto. intro; subst p.
    (* the gap is on q's chain: impossible *)
    specialize (Hah q Hq Hnz Hd).
    set (k := h n (skey d q)) in *.
    assert (Hk : k < n) by (apply hidx_lt; auto).
    destruct (Nat.eq_dec j' i).
    - pose proof (nxt_eq_dist n i j Hi Hj e). pose proof (dist_lt n i q Hi Hq). lia.
    - assert (dist n i j' = S (dist n i j)) by (apply dist_to_nxt; auto).
      assert (q <> j') by (intro; subst; congruence).
      assert (dist n i q <> dist n i j') by (intro E; apply H0; apply (dist_inj n i q j'); auto).
      assert (Hlt : dist n i j' < dist n i q) by (change (length d) with n in Hah; lia).
      pose proof (cyc_exit n i j' k q Hi Hj' Hk Hq Hd Hlt).
      apply (HCh q j'); auto.
  Qed.

  (* the loop: it ends at the latest at the empty slot e (which no move touches) *)
  Lemma bshift_ok fuel : forall d i j e,
    BInv d i j -> e < length d -> skey d e = 0%N -> e <> i ->
    dist (length d) (nxt (length d) j) e < fuel ->
    exists d', bshift mix fuel d (length d) i j = Some d' /\ length d' = length d /\
      Uq d' /\ Ch d' /\ occ d' = occ d /\ (forall k v, k <> 0%N -> (has d' k v <-> has d k v)).
  Proof.
    induction fuel; intros d i j e HB He Hez Hei Hf; [lia|].
    simpl. set (n := length d) in *. set (j' := nxt n j) in *.
    pose proof HB as [Hi Hj Hgap HU HCh Hah].
    assert (Hn : 0 < n) by lia.
    assert (Hj' : j' < n) by (apply nxt_lt; auto).
    fold (skey d j').
    destruct (N.eqb_spec (skey d j') 0).
    - exists d. repeat split; auto. eapply exit_Ch; eauto.
    - assert (j' <> e) by (intro; subst; contradiction).
      assert (Hd : dist n (nxt n j') e < fuel).
      { rewrite (dist_nxt n j' e) in Hf by auto. lia. }
      destruct (stay i j' (h n (skey d j'))) eqn:Hst.
      + apply (IHfuel d i j' e); auto. apply stay_BInv; auto.
      + assert (Hij' : i <> j') by (intro; subst; contradiction).
        pose proof (move_BInv d i j HB n0 Hst) as HB'. fold n j' in HB'.
        set (d1 := upd j' empty_slot (upd i (sl d j') d)) in *.
        assert (Hl1 : length d1 = n) by (unfold d1; rewrite !upd_length; auto).
        destruct (IHfuel d1 j' j' e) as [d' [Hr [Hl [HU' [HC' [Ho Hh]]]]]]; auto; rewrite ?Hl1; auto.
        * unfold d1. rewrite !skey_upd_neq by auto. exact Hez.
        * exists d'. rewrite Hl1 in Hr. repeat split; auto; try congruence.
          -- rewrite Ho. unfold d1. apply move_occ; auto.
          -- intros Hx. apply Hh in Hx; auto. apply (move_has d i j' k v) in Hx; auto.
          -- intros Hx. apply Hh; auto. apply (move_has d i j' k v); auto.
  Qed.

  Lemma clear_BInv d j :
    Uq d -> Ch d -> j < length d -> BInv (upd j empty_slot d) j j.
  Proof.
    intros HU HC Hj. set (d1 := upd j empty_slot d).
    assert (Hl : length d1 = length d) by (unfold d1; apply upd_length).
    assert (Hko : forall q, q <> j -> skey d1 q = skey d q) by (intros; unfold d1; rewrite skey_upd_neq; auto).
    assert (Hkj : skey d1 j = 0%N) by (unfold d1; rewrite skey_upd_eq; auto).
    constructor; rewrite ?Hl; auto.
    - intros a b Ha Hb Hnz Heq. rewrite Hl in Ha, Hb.
      destruct (Nat.eq_dec a j); [subst; congruence|].
      destruct (Nat.eq_dec b j); [subst; congruence|].
      rewrite !Hko in * by auto. apply HU; auto.
    - intros q p Hq Hp Hnz Hd Hpj.
      destruct (Nat.eq_dec q j); [subst; congruence|].
      rewrite Hko in Hnz, Hd by auto. rewrite Hko by auto. apply (HC q p); auto.
    - intros q Hq Hnz _. rewrite dist_self.
      assert (q <> j) by (intro; subst; congruence).
      destruct (dist (length d) j q) eqn:E; [|lia]. apply dist_zero in E; auto. congruence.
  Qed.

  (* a second empty slot exists when at least two slots are free *)
  Lemma second_empty d i : i < length d -> skey d i = 0%N -> occ d + 2 <= length d ->
    exists e, e < length d /\ skey d e = 0%N /\ e <> i.
  Proof.
    intros Hi Hz Ho.
    set (d2 := upd i (1%N, 0%N) d).
    assert (occ d2 < length d2).
    { unfold d2. rewrite upd_length. pose proof (occ_upd i (1%N, 0%N) d Hi). rewrite nz_key, Hz in H. simpl in H. unfold nz in H. simpl in H. lia. }
    destruct (occ_has_empty d2 H) as [e [He Hk]]. unfold d2 in *. rewrite upd_length in He.
    assert (e <> i). { intro; subst. rewrite skey_upd_eq in Hk by auto. simpl in Hk. lia. }
    rewrite skey_upd_neq in Hk by auto. eauto.
  Qed.

  Lemma clear_has d j k v : Uq d -> j < length d -> skey d j <> 0%N -> k <> 0%N ->
    (has (upd j empty_slot d) k v <-> has d k v /\ k <> skey d j).
  Proof.
    intros HU Hj Hnz Hk. split.
    - intros [q [Hq Hs]]. rewrite upd_length in Hq.
      destruct (Nat.eq_dec q j) as [->|Nq].
      + rewrite sl_upd_eq in Hs by auto. inversion Hs. congruence.
      + rewrite sl_upd_neq in Hs by auto. split; [exists q; auto|].
        intro E. apply Nq. apply HU; auto.
        * unfold skey. rewrite Hs. exact Hk.
        * unfold skey at 1. rewrite Hs. exact E.
    - intros [[q [Hq Hs]] Hne].
      assert (q <> j). { intro; subst. unfold skey in Hne. rewrite Hs in Hne. simpl in Hne. contradiction. }
      exists q. rewrite upd_length. split; auto. rewrite sl_upd_neq; auto.
  Qed.

  (* deleting the entry in slot j: clear it, then shift *)
  Lemma delete_ok d j :
    Uq d -> Ch d -> j < length d -> skey d j <> 0%N -> occ d + 1 <= length d ->
    exists d', bshift mix (length d) (upd j empty_slot d) (length d) j j = Some d' /\ length d' = length d /\
      Uq d' /\ Ch d' /\ occ d' + 1 = occ d /\
      (forall k v, k <> 0%N -> (has d' k v <-> has d k v /\ k <> skey d j)).
  Proof.
    intros HU HC Hj Hnz Ho.
    set (d1 := upd j empty_slot d).
    assert (Hl : length d1 = length d) by (unfold d1; apply upd_length).
    assert (Hkj : skey d1 j = 0%N) by (unfold d1; rewrite skey_upd_eq; auto).
    assert (Ho1 : occ d1 + 1 = occ d).
    { pose proof (occ_upd j empty_slot d Hj). fold d1 in H. rewrite nz_key in H.
      destruct (N.eqb_spec (skey d j) 0); [contradiction|]. unfold nz in H. simpl in H. lia. }
    destruct (second_empty d1 j) as [e [He [Hez Hej]]]; rewrite ?Hl; auto; try lia.
    rewrite Hl in He.
    destruct (bshift_ok (length d) d1 j j e) as [d' [Hr [Hl' [HU' [HC' [Ho' Hh]]]]]]; rewrite ?Hl; auto.
    - apply clear_BInv; auto.
    - assert (0 < length d) by lia. pose proof (nxt_lt (length d) j H).
      destruct (Nat.eq_dec (nxt (length d) j) e).
      + rewrite e0, dist_self. lia.
      + pose proof (dist_lt (length d) (nxt (length d) j) e H0 He). lia.
    - rewrite Hl in Hr. exists d'.
      split; [exact Hr|]. split; [congruence|]. split; [exact HU'|]. split; [exact HC'|].
      split; [lia|].
      intros k v Hk. rewrite (Hh k v Hk). apply clear_has; auto.
  Qed.
End Tab.
