(* C16 — operation histories: every sequence of operations on a table (and on
   the segment map, calls run to completion) behaves like the same sequence on
   a finite map. *)
From Sdns Require Import Common.Base Gen.C16 C16.Model C16.Proofs_cyc C16.Proofs_tab C16.Proofs_wf C16.Proofs_more C16.Proofs_seg.
Open Scope nat_scope.

Definition amap := N -> option N.
Definition aeq (a b : amap) : Prop := forall k, a k = b k.
Definition aempty : amap := fun _ => None.
(* a duplicate-free enumeration of a finite map *)
Definition enumerates (l : list (N * N)) (a : amap) : Prop :=
  NoDup (map fst l) /\ forall k v, In (k, v) l <-> a k = Some v.

Inductive op :=
| OpGet (k : N) | OpHas (k : N) | OpPut (k v : N) | OpPia (k v : N) | OpDel (k : N)
| OpEvict (off n : Z) (skip : N) | OpClear | OpAll | OpLen | OpGrow.
Inductive res :=
| RGet (o : option N) | RBool (b : bool) | RUnit | RPia (v : N) (b : bool) | RNum (z : Z) | RAll (l : list (N * N)).

(* what a finite map does *)
Definition spec_op (a : amap) (o : op) (r : res) (a' : amap) : Prop :=
  match o with
  | OpGet k => r = RGet (a k) /\ aeq a' a
  | OpHas k => r = RBool (present a k) /\ aeq a' a
  | OpPut k v => r = RUnit /\ aeq a' (upd_abs a k v)
  | OpPia k v =>
      match a k with
      | Some x => r = RPia x false /\ aeq a' a
      | None => r = RPia v true /\ aeq a' (upd_abs a k v)
      end
  | OpDel k => r = RBool (present a k) /\ aeq a' (del_abs a k)
  | OpEvict off n skip =>
      (* z entries disappear, never [skip]; every other key keeps its value or is one of the z *)
      exists z l l', r = RNum z /\ (0 <= z <= Z.max 0 n)%Z /\ shrinks a a' /\ a' skip = a skip /\
        enumerates l a /\ enumerates l' a' /\ (Z.of_nat (length l') = Z.of_nat (length l) - z)%Z
  | OpClear => r = RUnit /\ aeq a' aempty
  | OpAll => exists l, r = RAll l /\ enumerates l a /\ aeq a' a
  | OpLen => exists l, r = RNum (Z.of_nat (length l)) /\ enumerates l a /\ aeq a' a
  | OpGrow => r = RUnit /\ aeq a' a
  end.

Section Hist.
  Variable mix : N -> N.
  Notation WF := (WF mix).

  Definition run_op (t : table) (o : op) : table * res :=
    match o with
    | OpGet k => (t, RGet (tget mix t k))
    | OpHas k => (t, RBool (thas mix t k))
    | OpPut k v => (tput mix t k v, RUnit)
    | OpPia k v => let '(t', x, b) := tpia mix t k v in (t', RPia x b)
    | OpDel k => let '(t', b) := tdel mix t k in (t', RBool b)
    | OpEvict off n skip => let '(t', z) := tevict mix t off n skip in (t', RNum z)
    | OpClear => (tclear t, RUnit)
    | OpAll => (t, RAll (tall t))
    | OpLen => (t, RNum (tlen t))
    | OpGrow => (tgrow mix t, RUnit)
    end.

  Lemma tall_enumerates t : WF t -> enumerates (tall t) (abs t).
  Proof. intros W. destruct (tall_spec mix t W) as [A [B _]]. split; auto. Qed.

  Theorem step_refines t o : WF t ->
    WF (fst (run_op t o)) /\ spec_op (abs t) o (snd (run_op t o)) (abs (fst (run_op t o))).
  Proof.
    intros W. destruct o; simpl.
    - split; [exact W|]. split; [rewrite (tget_abs mix t k W); reflexivity|intro; reflexivity].
    - split; [exact W|]. split; [unfold thas, present; rewrite (tget_abs mix t k W); reflexivity|intro; reflexivity].
    - destruct (tput_spec mix t k v W) as [W' [Ha _]]. split; [exact W'|]. split; [reflexivity|exact Ha].
    - pose proof (tpia_spec mix t k v W) as H. destruct (abs t k).
      + destruct H as [He [W' [Ha _]]]. rewrite He. simpl. split; [exact W'|]. split; [reflexivity|exact Ha].
      + destruct H as [t2 [He [W' [Ha _]]]]. rewrite He. simpl. split; [exact W'|]. split; [reflexivity|exact Ha].
    - destruct (tdel_spec mix t k W) as [W' [Hr [Ha _]]]. destruct (tdel mix t k) as [t' b]. simpl in *.
      split; [exact W'|]. split; [congruence|exact Ha].
    - destruct (tevict_spec mix t off n skip W) as [W' [Hr [Hs [Hsh Hsk]]]].
      destruct (tevict mix t off n skip) as [t' z]. simpl in *.
      split; [exact W'|]. exists z, (tall t), (tall t').
      split; [reflexivity|]. split; [exact Hr|]. split; [exact Hsh|]. split; [exact Hsk|].
      split; [apply tall_enumerates; auto|]. split; [apply tall_enumerates; auto|].
      destruct (tall_spec mix t W) as [_ [_ L1]]. destruct (tall_spec mix t' W') as [_ [_ L2]].
      unfold tlen in *. lia.
    - destruct (tclear_spec mix t W) as [W' [Ha _]]. split; [exact W'|]. split; [reflexivity|exact Ha].
    - split; [exact W|]. exists (tall t). split; [reflexivity|]. split; [apply tall_enumerates; auto|intro; reflexivity].
    - split; [exact W|]. exists (tall t). destruct (tall_spec mix t W) as [_ [_ L]].
      split; [rewrite L; reflexivity|]. split; [apply tall_enumerates; auto|intro; reflexivity].
    - destruct (tgrow_spec mix t W) as [W' [Ha _]]. split; [exact W'|]. split; [reflexivity|exact Ha].
  Qed.

  (* the whole history *)
  Fixpoint trace_ok (t : table) (ops : list op) : Prop :=
    match ops with
    | [] => True
    | o :: rest =>
        let r := run_op t o in
        WF (fst r) /\ spec_op (abs t) o (snd r) (abs (fst r)) /\ trace_ok (fst r) rest
    end.

  Theorem history_refines t ops : WF t -> trace_ok t ops.
  Proof.
    revert t. induction ops as [|o rest IH]; intros t W; simpl; auto.
    destruct (step_refines t o W) as [W' Hs]. split; [exact W'|]. split; [exact Hs|]. apply IH. exact W'.
  Qed.

  Corollary history_refines_from_new cap ops :
    trace_ok (new_table cap) ops /\ aeq (abs (new_table cap)) aempty.
  Proof.
    destruct (new_table_WF mix cap) as [W Ha]. split; [apply history_refines; exact W|exact Ha].
  Qed.

  (* distinct keys never alias, the zero key included: writing or removing k
     changes no other key's answer *)
  Corollary distinct_keys_never_alias t k k' v : WF t -> k' <> k ->
    tget mix (tput mix t k v) k' = tget mix t k' /\
    tget mix (fst (tdel mix t k)) k' = tget mix t k' /\
    tget mix (tput mix t k v) k = Some v.
  Proof.
    intros W Hne.
    destruct (tput_spec mix t k v W) as [W1 [Ha1 _]].
    destruct (tdel_spec mix t k W) as [W2 [_ [Ha2 _]]].
    rewrite !tget_abs by auto. rewrite !Ha1, Ha2. unfold upd_abs, del_abs.
    rewrite N.eqb_refl. destruct (N.eqb_spec k' k); [contradiction|auto].
  Qed.

  (* removal never loses, duplicates or miscounts another key *)
  Corollary delete_keeps_others t k : WF t ->
    let t' := fst (tdel mix t k) in
    WF t' /\
    (forall k', k' <> k -> tget mix t' k' = tget mix t k') /\ tget mix t' k = None /\
    NoDup (map fst (tall t')) /\
    tlen t' = Z.of_nat (length (tall t')) /\
    tlen t' = (tlen t - (if present (abs t) k then 1 else 0))%Z.
  Proof.
    intros W t'. destruct (tdel_spec mix t k W) as [W' [_ [Ha Hs]]]. fold t' in W', Ha, Hs.
    destruct (tall_spec mix t' W') as [Hnd [_ Hl]].
    split; [exact W'|]. split; [|split; [|split; [exact Hnd|split; [exact Hl|exact Hs]]]].
    - intros k' Hne. rewrite !tget_abs by auto. rewrite Ha. unfold del_abs. destruct (N.eqb_spec k' k); [contradiction|auto].
    - rewrite tget_abs by auto. rewrite Ha. unfold del_abs. rewrite N.eqb_refl. reflexivity.
  Qed.

  (* WF holds for a fresh table and is preserved by every operation *)
  Theorem wf_preserved :
    (forall cap, WF (new_table cap)) /\
    forall t, WF t ->
      (forall k v, WF (tput mix t k v)) /\
      (forall k v, WF (fst (fst (tpia mix t k v)))) /\
      (forall k, WF (fst (tdel mix t k))) /\
      (forall off n skip, WF (fst (tevict mix t off n skip))) /\
      WF (tgrow mix t) /\ WF (tclear t).
  Proof.
    split; [intro cap; apply (new_table_WF mix cap)|].
    intros t W. split; [|split; [|split; [|split; [|split]]]].
    - intros k v. apply (step_refines t (OpPut k v) W).
    - intros k v. pose proof (step_refines t (OpPia k v) W) as [H _]. simpl in H.
      destruct (tpia mix t k v) as [[t' x] b]. exact H.
    - intros k. pose proof (step_refines t (OpDel k) W) as [H _]. simpl in H.
      destruct (tdel mix t k) as [t' b]. exact H.
    - intros off n skip. pose proof (step_refines t (OpEvict off n skip) W) as [H _]. simpl in H.
      destruct (tevict mix t off n skip) as [t' z]. exact H.
    - apply (step_refines t OpGrow W).
    - apply (step_refines t OpClear W).
  Qed.
End Hist.
