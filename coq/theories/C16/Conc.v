(* C16 — interleaving model of SegmentUInt64Map / cache.Cache under concurrent
   callers.  Executable definitions only.

   Shared state: the segment tables, the atomic counter, one lock per segment.
   Every thread runs a list of calls; a call is cut into the atomic steps the Go
   code has: every access to the counter (Add / Load / Store) is its own step,
   and so is every lock acquisition; work on a segment's table happens in the
   step that follows the acquisition (nobody else can see it before the unlock).
   [sync.RWMutex] and [atomic.Int64] are taken as sequentially consistent.
   Readers: Get = RLock; read; RUnlock is one step (enabled while no writer owns
   the segment); ForEach takes the segments one after the other, one step per
   segment (RLock; yield the segment's entries; RUnlock) — not atomic as a whole.
   A pending writer blocking new readers (Go's writer preference) only removes
   schedules, so it is not modelled.  What readers saw goes into the ghost log
   [c_obs].  [c_exh] is a ghost counter as well: it counts the SetWithCap calls
   that returned because the spill loop had visited every segment although they
   had evicted nothing (a fruitless full-ring scan) and that nothing has made up
   for since: it goes up by one at such a return, down by one (never below 0) for
   every entry removed beyond an over-capacity insert's first eviction (its second
   eviction, a Remove / CompareAndDelete that hits, entries dropped by Clear) and
   back to 0 whenever a SetWithCap call loads the counter and finds it within the
   capacity — see occupancy_bound.

   [rescan] selects the spill loop: true = the loop of /repo since 47c8f66
   (for i := 1; deficit > 0 && (i < len(segments) || (deficit == 2 && capacity > 0)); i++):
   a writer that has been round the ring without evicting anything while the count
   is still above the capacity goes round again, own segment included;
   false = the loop before that commit (… i < len(segments) && deficit > 0), kept
   for the regression lemmas.

   SetWithCap (Go lines in segment_uint64_map.go):
     SwcLock : rwlock.Lock(); oldSize; data.Put             (own segment)
     SwcAdd  : if Len() > oldSize { count.Add(1) }
     SwcLoad : if count.Load() > capacity { d = EvictKeysAt(offset, 2, key) } else unlock, return
     SwcSub  : if d > 0 { count.Add(-d) }; deficit = 2 - d; Unlock()
     SpLoad  : loop condition; if count.Load() <= capacity return
     SpEvict : next.Lock(); d = EvictKeysAt(offset, deficit, key); next.Unlock()
     SpSub   : if d > 0 { count.Add(-d); deficit -= d }; i++
   Get:      RdGet   : RLock(); Get; RUnlock()
   ForEach:  FeSeg i : RLock(i); yield all entries of segment i; RUnlock(i)
   Set / PutIfNotExists / Del / CompareAndSwap / CompareAndDelete:
     OpLock  : Lock(); the table operation
     OpAdd   : count.Add(delta); Unlock()
   Clear (as repaired by aae41ee: no blanket Store(0) any more), for i = 0 .. n-1:
     ClrSeg i: Lock(i); itemsCleared = Len(); data.Clear()
     ClrSub i: count.Add(-itemsCleared); Unlock(i) *)
From Sdns Require Import Common.Base Gen.C16 C16.Model.
Open Scope nat_scope.

Inductive call :=
| CSwc (k v : N) (cap : Z)
| CSet (k v : N)
| CPia (k v : N)
| CDel (k : N)
| CCas (k old v : N)
| CCad (k old : N)
| CClear
| CGet (k : N)
| CAll.

Inductive pc :=
| Idle
| SwcLock (k v : N) (cap : Z)
| SwcAdd (k : N) (cap : Z) (isnew : bool)
| SwcLoad (k : N) (cap : Z)
| SwcSub (k : N) (cap : Z) (d : Z)
| SpLoad (k : N) (cap : Z) (i : nat) (deficit : Z)
| SpEvict (k : N) (cap : Z) (i : nat) (deficit : Z)
| SpSub (k : N) (cap : Z) (i : nat) (deficit : Z) (d : Z)
| OpLock (c : call)
| OpAdd (sg : nat) (delta : Z)
| ClrSeg (i : nat)
| ClrSub (i : nat) (d : Z)
| RdGet (k : N)
| FeSeg (i : nat) (acc : list (N * N)).

Inductive obs := ObGet (k : N) (r : option N) | ObAll (l : list (N * N)).

Record cstate := mk_cstate {
  c_map : segmap;
  c_locks : list (option nat);          (* owner of each segment's write lock *)
  c_thr : list (pc * list call);
  c_exh : Z;                            (* ghost: fruitless full-ring scans so far *)
  c_obs : list (nat * obs) }.           (* ghost: what readers saw (thread, observation), latest first *)

Fixpoint lupd {A} (i : nat) (x : A) (l : list A) : list A :=
  match l with
  | [] => []
  | y :: r => match i with 0 => x :: r | S i' => y :: lupd i' x r end
  end.

Definition call_key (c : call) : N :=
  match c with
  | CSwc k _ _ | CSet k _ | CPia k _ | CDel k | CCas k _ _ | CCad k _ | CGet k => k
  | CClear | CAll => 0%N
  end.
Definition pc0 (c : call) : pc :=
  match c with
  | CSwc k v cap => SwcLock k v cap
  | CClear => ClrSeg 0
  | CGet k => RdGet k
  | CAll => FeSeg 0 []
  | _ => OpLock c
  end.

Section Step.
  Variable mix : N -> N.
  Variable sidx : nat -> N -> nat.
  Variable eoff : N -> Z.
  Variable rescan : bool.

  (* c_exh after [r] removals that nothing owes any more *)
  Definition repay (exh r : Z) : Z := Z.max 0 (exh - Z.max r 0).
  (* the spill loop's condition *)
  Definition sp_continue (n i : nat) (cap deficit : Z) : bool :=
    (0 <? deficit)%Z && ((i <? n) || (rescan && (evict_toll <=? deficit)%Z && (1 <=? cap)%Z)).

  Definition lock_free (s : cstate) (j : nat) : bool :=
    match nth j (c_locks s) None with None => true | Some _ => false end.

  (* the table operation of a one-section call and what it owes the counter *)
  Definition table_op (t : table) (c : call) : table * Z :=
    match c with
    | CSet k v => let t' := tput mix t k v in (t', if (tlen t <? tlen t')%Z then 1 else 0)%Z
    | CPia k v => let '(t', _, ins) := tpia mix t k v in (t', if ins then 1 else 0)%Z
    | CDel k => let '(t', r) := tdel mix t k in (t', if r then (-1) else 0)%Z
    | CCas k old v =>
        match tget mix t k with
        | Some cur => if N.eqb cur old then (tput mix t k v, 0%Z) else (t, 0%Z)
        | None => (t, 0%Z)
        end
    | CCad k old =>
        match tget mix t k with
        | Some cur => if N.eqb cur old then let '(t', r) := tdel mix t k in (t', if r then (-1) else 0)%Z else (t, 0%Z)
        | None => (t, 0%Z)
        end
    | _ => (t, 0%Z)
    end.

  Definition with_pc (s : cstate) (tid : nat) (m : segmap) (locks : list (option nat)) (p : pc) (rest : list call) : cstate :=
    mk_cstate m locks (lupd tid (p, rest) (c_thr s)) (c_exh s) (c_obs s).
  Definition with_ghost (s : cstate) (exh : Z) (ob : list (nat * obs)) : cstate :=
    mk_cstate (c_map s) (c_locks s) (c_thr s) exh ob.

  (* one atomic step of thread [tid]; None = cannot move now (blocked on a lock, or nothing left to do) *)
  Definition step (s : cstate) (tid : nat) : option cstate :=
    let m := c_map s in
    let n := nsegs m in
    let cnt := sm_count m in
    let '(p, rest) := nth tid (c_thr s) (Idle, []) in
    if length (c_thr s) <=? tid then None else
    match p with
    | Idle =>
        match rest with
        | [] => None
        | c :: rest' => Some (with_pc s tid m (c_locks s) (pc0 c) rest')
        end
    | SwcLock k v cap =>
        let i := sidx n k in
        if lock_free s i then
          let t := seg m i in
          let t1 := tput mix t k v in
          Some (with_pc s tid (set_seg m i t1 cnt) (lupd i (Some tid) (c_locks s))
                        (SwcAdd k cap (tlen t <? tlen t1)%Z) rest)
        else None
    | SwcAdd k cap isnew =>
        Some (with_pc s tid (mk_segmap (sm_segs m) (if isnew then cnt + 1 else cnt)%Z) (c_locks s) (SwcLoad k cap) rest)
    | SwcLoad k cap =>
        let i := sidx n k in
        if (cap <? cnt)%Z then
          let '(t2, d) := tevict mix (seg m i) (eoff k) evict_toll k in
          Some (with_ghost (with_pc s tid (set_seg m i t2 cnt) (c_locks s) (SwcSub k cap d) rest)
                           (repay (c_exh s) (d - 1)) (c_obs s))
        else Some (with_ghost (with_pc s tid m (lupd i None (c_locks s)) Idle rest) 0%Z (c_obs s))
    | SwcSub k cap d =>
        let i := sidx n k in
        let deficit := (evict_toll_deficit - d)%Z in
        Some (with_pc s tid (mk_segmap (sm_segs m) (if (0 <? d)%Z then cnt - d else cnt)%Z) (lupd i None (c_locks s))
                      (if (deficit <=? 0)%Z then Idle else SpLoad k cap 1 deficit) rest)
    | SpLoad k cap i deficit =>
        if sp_continue n i cap deficit
        then (if (cnt <=? cap)%Z
              then Some (with_ghost (with_pc s tid m (c_locks s) Idle rest) 0%Z (c_obs s))
              else Some (with_pc s tid m (c_locks s) (SpEvict k cap i deficit) rest))
        else (* loop over; with deficit > 0 it ran out of segments: ghost count *)
          Some (with_ghost (with_pc s tid m (c_locks s) Idle rest)
                           (c_exh s + Z.max (deficit - 1) 0)%Z (c_obs s))
    | SpEvict k cap i deficit =>
        let j := Nat.modulo (sidx n k + i) n in
        if lock_free s j then
          let '(t', d) := tevict mix (seg m j) (eoff k) deficit k in
          Some (with_ghost (with_pc s tid (set_seg m j t' cnt) (c_locks s) (SpSub k cap i deficit d) rest)
                           (repay (c_exh s) (d - (Z.max (deficit - 1) 0 - Z.max (deficit - d - 1) 0))) (c_obs s))
        else None
    | SpSub k cap i deficit d =>
        if (0 <? d)%Z
        then Some (with_pc s tid (mk_segmap (sm_segs m) (cnt - d)%Z) (c_locks s) (SpLoad k cap (S i) (deficit - d)%Z) rest)
        else Some (with_pc s tid m (c_locks s) (SpLoad k cap (S i) deficit) rest)
    | OpLock c =>
        let i := sidx n (call_key c) in
        if lock_free s i then
          let '(t', delta) := table_op (seg m i) c in
          Some (with_ghost (with_pc s tid (set_seg m i t' cnt) (lupd i (Some tid) (c_locks s)) (OpAdd i delta) rest)
                           (repay (c_exh s) (- delta)) (c_obs s))
        else None
    | OpAdd i delta =>
        Some (with_pc s tid (mk_segmap (sm_segs m) (cnt + delta)%Z) (lupd i None (c_locks s)) Idle rest)
    | ClrSeg i =>
        if i <? n then
          if lock_free s i
          then Some (with_ghost (with_pc s tid (set_seg m i (tclear (seg m i)) cnt) (lupd i (Some tid) (c_locks s))
                                         (ClrSub i (tlen (seg m i))) rest)
                                (repay (c_exh s) (tlen (seg m i))) (c_obs s))
          else None
        else Some (with_pc s tid m (c_locks s) Idle rest)
    | ClrSub i d =>
        Some (with_pc s tid (mk_segmap (sm_segs m) (cnt - d)%Z) (lupd i None (c_locks s)) (ClrSeg (S i)) rest)
    | RdGet k =>
        let i := sidx n k in
        if lock_free s i
        then Some (with_ghost (with_pc s tid m (c_locks s) Idle rest) (c_exh s)
                              ((tid, ObGet k (tget mix (seg m i) k)) :: c_obs s))
        else None
    | FeSeg i acc =>
        if i <? n then
          if lock_free s i
          then Some (with_pc s tid m (c_locks s) (FeSeg (S i) (acc ++ tall (seg m i))) rest)
          else None
        else Some (with_ghost (with_pc s tid m (c_locks s) Idle rest) (c_exh s) ((tid, ObAll acc) :: c_obs s))
    end.

  (* a schedule is a list of thread ids; a thread that cannot move is skipped *)
  Fixpoint run (s : cstate) (sched : list nat) : cstate :=
    match sched with
    | [] => s
    | tid :: r => run (match step s tid with Some s' => s' | None => s end) r
    end.

  Definition init (m : segmap) (progs : list (list call)) : cstate :=
    mk_cstate m (repeat None (nsegs m)) (map (fun p => (Idle, p)) progs) 0%Z [].

  (* observables *)
  Fixpoint sum_sizes (l : list table) : Z :=
    match l with [] => 0%Z | t :: r => (t_size t + sum_sizes r)%Z end.
  Definition entries (s : cstate) : Z := sum_sizes (sm_segs (c_map s)).   (* = reachable entries, see Proofs_conc *)
  Definition quiescent (s : cstate) : bool :=
    forallb (fun th => match th with (Idle, []) => true | _ => false end) (c_thr s).
  Definition inside (s : cstate) : Z :=
    Z.of_nat (length (filter (fun th => match fst th with Idle => false | _ => true end) (c_thr s))).
End Step.

(* Which spill loop the source has (see the comment at gen_spill_cond_known in Proofs_conc.v) *)
Definition spill_cond_plain : list N := [105;32;60;32;117;105;110;116;40;108;101;110;40;109;46;115;101;103;109;101;110;116;115;41;41;32;38;38;32;100;101;102;105;99;105;116;32;62;32;48]%N.
Definition spill_cond_rescan : list N := [100;101;102;105;99;105;116;32;62;32;48;32;38;38;32;40;105;32;60;32;110;32;124;124;32;40;100;101;102;105;99;105;116;32;61;61;32;50;32;38;38;32;99;97;112;97;99;105;116;121;32;62;32;48;41;41]%N.
Fixpoint listN_eqb (a b : list N) : bool :=
  match a, b with [], [] => true | x :: r, y :: s => N.eqb x y && listN_eqb r s | _, _ => false end.
Definition go_rescan : bool :=
  match spill_cond_src with [c] => listN_eqb c spill_cond_rescan | _ => false end.
