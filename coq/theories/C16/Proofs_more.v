(* C16 — the remaining UInt64Map operations: constructor, Clear, ForEach/Len,
   EvictKeysAt; the bit-level readings (& mask, newLen) tied to the model. *)
From Sdns Require Import Common.Base Gen.C16 C16.Model C16.Proofs_cyc C16.Proofs_tab C16.Proofs_wf.
Open Scope nat_scope.

(* ------------------------------------------------ bit-level readings *)
(* (i+1) & mask and x & mask for len = 2^p, mask = len-1 *)
Lemma nxt_land p i : i < 2 ^ p ->
  nxt (2 ^ p) i = N.to_nat (N.land (N.of_nat (i + 1)) (N.of_nat (2 ^ p) - 1)).
Proof.
  intros Hi.
  assert (Hp : N.of_nat (2 ^ p) = (2 ^ N.of_nat p)%N).
  { rewrite Nat2N.inj_pow. reflexivity. }
  rewrite Hp. replace (2 ^ N.of_nat p - 1)%N with (N.ones (N.of_nat p)) by (rewrite N.ones_equiv; lia).
  rewrite N.land_ones. rewrite <- Hp.
  unfold nxt. destruct (Nat.ltb_spec (S i) (2 ^ p)).
  - rewrite N.mod_small by lia. lia.
  - assert (i + 1 = 2 ^ p) by lia. rewrite H0. rewrite N.mod_same by lia. reflexivity.
Qed.
Lemma hidx_land mix p k :
  hidx mix (2 ^ p) k = N.to_nat (N.land (mix k) (N.of_nat (2 ^ p) - 1)).
Proof.
  assert (Hp : N.of_nat (2 ^ p) = (2 ^ N.of_nat p)%N).
  { rewrite Nat2N.inj_pow. reflexivity. }
  unfold hidx. rewrite Hp.
  replace (2 ^ N.of_nat p - 1)%N with (N.ones (N.of_nat p)) by (rewrite N.ones_equiv; lia).
  rewrite N.land_ones. reflexivity.
Qed.

Lemma w64_wrap64 x : w64 x = wrap64 x.
Proof.
  unfold w64, wrap64, two64. change 18446744073709551615%N with (N.ones 64).
  rewrite N.land_ones. reflexivity.
Qed.

(* grow(): for every table length a Go int can hold the code's newLen is the double *)
Definition pows : list N := map (fun p => N.pow 2 (N.of_nat p)) (seq 0 62).
Lemma gen_grow_len_pow2_all : forallb (fun n => N.eqb (go_grow_len n) (2 * n)%N) pows = true.
Proof. vm_compute. reflexivity. Qed.
Lemma gen_grow_len_pow2 p : p < 62 -> go_grow_len (2 ^ N.of_nat p) = N.of_nat (grow_len (2 ^ p)).
Proof.
  intros Hp. pose proof gen_grow_len_pow2_all as H. rewrite forallb_forall in H.
  specialize (H (2 ^ N.of_nat p)%N).
  rewrite N.eqb_eq in H. rewrite H.
  - unfold grow_len. change (N.to_nat grow_factor) with 2. rewrite Nat2N.inj_mul, Nat2N.inj_pow. reflexivity.
  - unfold pows. apply in_map_iff. exists p. split; auto. apply in_seq. lia.
Qed.

Section More.
  Variable mix : N -> N.
  Notation WF := (WF mix).

  (* ------------------------------------------------------ constructor *)
  Lemma pow2_ge_spec fuel : forall a c,
    exists b, a <= b /\ pow2_ge fuel (2 ^ Z.of_nat a)%Z c = (2 ^ Z.of_nat b)%Z.
  Proof.
    induction fuel; intros a c; simpl.
    - exists a. split; auto.
    - destruct (Z.ltb_spec (2 ^ Z.of_nat a) c).
      + destruct (IHfuel (S a) c) as [b [Hb He]]. exists b. split; [lia|].
        rewrite <- He. f_equal. rewrite Nat2Z.inj_succ, Z.pow_succ_r by lia. reflexivity.
      + exists a. split; auto.
  Qed.
  Lemma pow2_ge_lower fuel : forall s c, (0 < s)%Z ->
    (c <= pow2_ge fuel s c \/ s * 2 ^ Z.of_nat fuel <= pow2_ge fuel s c)%Z.
  Proof.
    induction fuel; intros s c Hs; simpl pow2_ge.
    - right. simpl. lia.
    - destruct (Z.ltb_spec s c); [|lia].
      destruct (IHfuel (2 * s)%Z c) as [H1|H1]; [lia|auto|].
      right. rewrite Nat2Z.inj_succ, Z.pow_succ_r by lia. lia.
  Qed.

  Lemma empty_table_WF n g p : 3 <= p -> n = 2 ^ p -> (0 <= g < Z.of_nat n)%Z ->
    WF (mk_table (repeat empty_slot n) 0%Z g None false).
  Proof.
    intros Hp Hn Hg. constructor; simpl; rewrite ?repeat_length, ?occ_repeat; auto; try lia.
    - exists p. auto.
    - apply empty_Uq.
    - apply empty_Ch.
  Qed.

  Theorem new_table_WF cap : WF (new_table cap) /\ forall k, abs (new_table cap) k = None.
  Proof.
    split.
    - unfold new_table.
      assert (exists p, 3 <= p /\
        (if (min_slots_cap <? cap)%Z then pow2_ge 64 1%Z (div_load load_new_div cap) else min_slots) = (2 ^ Z.of_nat p)%Z) as [p [Hp He]].
      { destruct (Z.ltb_spec min_slots_cap cap).
        - destruct (pow2_ge_spec 64 0 (div_load load_new_div cap)) as [b [_ Hb]].
          change (2 ^ Z.of_nat 0)%Z with 1%Z in Hb. exists b. split; auto.
          (* 2^b >= min(c, 2^64) >= 12 *)
          assert (12 <= div_load load_new_div cap)%Z.
          { unfold div_load, load_new_div. simpl. unfold min_slots_cap in H. lia. }
          assert (12 <= pow2_ge 64 1 (div_load load_new_div cap))%Z.
          { destruct (pow2_ge_lower 64 1%Z (div_load load_new_div cap)) as [H1|H1]; [lia|lia|].
            assert (12 <= 1 * 2 ^ Z.of_nat 64)%Z by (vm_compute; discriminate). lia. }
          rewrite Hb in H1.
          destruct (le_lt_dec 3 b); auto. exfalso.
          assert (2 ^ Z.of_nat b <= 2 ^ 2)%Z by (apply Z.pow_le_mono_r; lia). simpl in H2. lia.
        - exists 3. split; auto. }
      rewrite He.
      assert (Hn : Z.to_nat (2 ^ Z.of_nat p) = 2 ^ p).
      { rewrite <- (Nat2Z.id (2 ^ p)). f_equal. rewrite Nat2Z.inj_pow. reflexivity. }
      rewrite Hn. apply (empty_table_WF (2 ^ p) _ p); auto.
      rewrite Nat2Z.inj_pow. change (Z.of_nat 2) with 2%Z.
      assert (8 <= 2 ^ Z.of_nat p)%Z.
      { change 8%Z with (2 ^ 3)%Z. apply Z.pow_le_mono_r; lia. }
      unfold mul_load, load_new_mul. simpl. lia.
    - intros k. unfold abs, new_table. simpl. destruct (N.eqb_spec k 0); auto.
      apply dget_absent. intros i _. unfold skey. rewrite sl_repeat. simpl. congruence.
  Qed.

  (* ------------------------------------------------------------ clear *)
  Theorem tclear_spec t : WF t -> WF (tclear t) /\ (forall k, abs (tclear t) k = None) /\ t_size (tclear t) = 0%Z.
  Proof.
    intros W. split; [|split; [|reflexivity]].
    - destruct (wf_len mix t W) as [p [Hp Hl]]. unfold tclear.
      pose proof (wf_bad mix t W) as Hb. rewrite Hb.
      apply (empty_table_WF _ _ p); auto. apply (wf_growAt mix t W).
    - intros k. unfold abs, tclear. simpl. destruct (N.eqb_spec k 0); auto.
      apply dget_absent. intros i _. unfold skey. rewrite sl_repeat. simpl. congruence.
  Qed.

  (* ------------------------------------------------- ForEach and Len *)
  Definition nzf (s : slot) : bool := negb (N.eqb (fst s) 0).
  Lemma filter_len d : length (filter nzf d) = occ d.
  Proof. induction d; simpl; auto. unfold nzf at 1, nz. destruct (N.eqb (fst a) 0); simpl; auto. Qed.
  Lemma filter_nodup d : Uq d -> NoDup (map fst (filter nzf d)).
  Proof.
    induction d as [|s r IH]; intros HU; simpl; [constructor|].
    pose proof (IH (Uq_cons _ _ HU)) as IHr.
    unfold nzf at 1. destruct (N.eqb_spec (fst s) 0); simpl; auto.
    constructor; auto. intro Hin. apply in_map_iff in Hin. destruct Hin as [[k v] [Hk Hin]].
    simpl in Hk. apply filter_In in Hin. destruct Hin as [Hin _].
    apply has_In in Hin. destruct (has_key _ _ _ Hin) as [i [Hi Hki]].
    apply (Uq_head s r i HU); auto. congruence.
  Qed.

  Theorem tall_spec t : WF t ->
    NoDup (map fst (tall t)) /\
    (forall k v, In (k, v) (tall t) <-> abs t k = Some v) /\
    tlen t = Z.of_nat (length (tall t)).
  Proof.
    intros W. unfold tall, tlen. fold nzf.
    assert (Hnz : forall k v, In (k, v) (filter nzf (t_data t)) <-> (k <> 0%N /\ has (t_data t) k v)).
    { intros k v. rewrite filter_In, has_In. unfold nzf. simpl.
      destruct (N.eqb_spec k 0); simpl; split; intros [A B]; split; auto; try congruence. }
    split; [|split].
    - destruct (t_zero t); simpl; [|apply filter_nodup; apply W].
      constructor; [|apply filter_nodup; apply W].
      intro Hin. apply in_map_iff in Hin. destruct Hin as [[k v] [Hk Hin]]. simpl in Hk. subst k.
      apply Hnz in Hin. destruct Hin. congruence.
    - intros k v. unfold abs. rewrite in_app_iff. destruct (N.eqb_spec k 0) as [->|Hk].
      + split.
        * intros [H|H].
          -- destruct (t_zero t); simpl in H; [|contradiction]. destruct H; [congruence|contradiction].
          -- apply Hnz in H. destruct H. congruence.
        * intros H. left. rewrite H. left. reflexivity.
      + split.
        * intros [H|H].
          -- destruct (t_zero t); simpl in H; [|contradiction]. destruct H; [congruence|contradiction].
          -- apply Hnz in H. destruct H. apply has_dget; auto. apply W.
        * intros H. right. apply Hnz. split; auto. apply dget_some. exact H.
    - rewrite app_length, filter_len. rewrite (wf_size mix t W).
      destruct (t_zero t); simpl; lia.
  Qed.

  (* --------------------------------------------------------- eviction *)
  (* what any sequence of deletions does to the abstract map *)
  Definition shrinks (a a' : N -> option N) : Prop := forall k, a' k = a k \/ a' k = None.
  Lemma shrinks_refl a : shrinks a a.
  Proof. intro; auto. Qed.
  Lemma shrinks_trans a b c : shrinks a b -> shrinks b c -> shrinks a c.
  Proof. intros H1 H2 k. destruct (H2 k) as [E|E]; rewrite E; auto. Qed.

  Lemma evict_loop_spec skip maxdel fuel : forall t idx scanned deleted,
    WF t -> idx < length (t_data t) -> deleted <= maxdel ->
    let r := evict_loop mix fuel t (length (t_data t)) idx scanned deleted maxdel skip in
    WF (fst r) /\ deleted <= snd r <= maxdel /\
    t_size (fst r) = (t_size t - Z.of_nat (snd r - deleted))%Z /\
    t_zero (fst r) = t_zero t /\ length (t_data (fst r)) = length (t_data t) /\
    shrinks (abs t) (abs (fst r)) /\ abs (fst r) skip = abs t skip.
  Proof.
    induction fuel; intros t idx scanned deleted W Hidx Hdel; simpl.
    - repeat (split; [first [exact W|lia|reflexivity|apply shrinks_refl]|]). reflexivity.
    - destruct ((scanned <? length (t_data t)) && (deleted <? maxdel)) eqn:Hc.
      2:{ simpl. repeat (split; [first [exact W|lia|reflexivity|apply shrinks_refl]|]). reflexivity. }
      apply andb_true_iff in Hc. destruct Hc as [_ Hd]. apply Nat.ltb_lt in Hd.
      destruct (N.eqb (skey (t_data t) idx) 0 || N.eqb (skey (t_data t) idx) skip) eqn:Hk.
      + apply IHfuel; auto. apply nxt_lt. lia.
      + apply orb_false_iff in Hk. destruct Hk as [Hk0 Hks].
        apply N.eqb_neq in Hk0. apply N.eqb_neq in Hks.
        destruct (del_at_spec mix t idx W Hidx Hk0) as [W' [Ha [Hs [Hz [Hl Hg]]]]].
        specialize (IHfuel (del_at mix t idx) idx scanned (S deleted) W').
        rewrite Hl in IHfuel. specialize (IHfuel Hidx Hd).
        destruct IHfuel as [W2 [Hr [Hs2 [Hz2 [Hl2 [Hsh Hsk]]]]]].
        split; [exact W2|]. split; [lia|]. split; [rewrite Hs2, Hs; lia|]. split; [congruence|].
        split; [congruence|]. split.
        * eapply shrinks_trans; [|exact Hsh]. intro k. rewrite Ha. unfold del_abs.
          destruct (N.eqb k (skey (t_data t) idx)); auto.
        * rewrite Hsk, Ha. unfold del_abs. destruct (N.eqb_spec skip (skey (t_data t) idx)); auto. congruence.
  Qed.

  (* EvictKeysAt(offset, n, skip) = (t', r): r entries are gone, never [skip],
     every other key is either untouched or gone, Len went down by r, r <= n.
     (That r = min(n, number of other keys) is checked on every observed call by
     Run.spec_case; it is not proved here.) *)
  Theorem tevict_spec t offset nmax skip : WF t ->
    let r := tevict mix t offset nmax skip in
    WF (fst r) /\ (0 <= snd r <= Z.max 0 nmax)%Z /\
    t_size (fst r) = (t_size t - snd r)%Z /\
    shrinks (abs t) (abs (fst r)) /\ abs (fst r) skip = abs t skip.
  Proof.
    intros W. unfold tevict.
    destruct ((nmax <=? 0)%Z || (length (t_data t) =? 0)) eqn:Hc.
    { simpl. split; [exact W|]. split; [lia|]. split; [lia|]. split; [apply shrinks_refl|reflexivity]. }
    apply orb_false_iff in Hc. destruct Hc as [Hn Hl0]. apply Z.leb_gt in Hn. apply Nat.eqb_neq in Hl0.
    set (n := length (t_data t)) in *.
    assert (Hidx : Z.to_nat (offset mod Z.of_nat n) < n).
    { pose proof (Z.mod_pos_bound offset (Z.of_nat n)). lia. }
    pose proof (evict_loop_spec skip (Z.to_nat nmax) (n + Z.to_nat nmax) t _ 0 0 W Hidx (Nat.le_0_l _)) as H.
    fold n in H.
    destruct (evict_loop mix (n + Z.to_nat nmax) t n (Z.to_nat (offset mod Z.of_nat n)) 0 0 (Z.to_nat nmax) skip) as [t1 deleted].
    simpl in H. destruct H as [W1 [Hr [Hs [Hz [Hl [Hsh Hsk]]]]]].
    destruct (t_zero t1) eqn:Ez1.
    - destruct ((deleted <? Z.to_nat nmax) && negb (N.eqb skip 0)) eqn:Hc2.
      + apply andb_true_iff in Hc2. destruct Hc2 as [Hd Hs0]. apply Nat.ltb_lt in Hd.
        apply negb_true_iff, N.eqb_neq in Hs0. simpl.
        split; [|split; [lia|split; [lia|split]]].
        * destruct W1. constructor; simpl; auto. rewrite Ez1 in *. simpl in *. lia.
        * eapply shrinks_trans; [exact Hsh|]. intro k. unfold abs. simpl.
          destruct (N.eqb k 0); auto.
        * rewrite <- Hsk. unfold abs. simpl. destruct (N.eqb_spec skip 0); [contradiction|reflexivity].
      + simpl. split; [exact W1|]. split; [lia|]. split; [lia|]. split; auto.
    - simpl. split; [exact W1|]. split; [lia|]. split; [lia|]. split; auto.
  Qed.
End More.
