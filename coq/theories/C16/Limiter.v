(* C16 — middleware/ratelimit.LimiterStore: a Go map key -> (limiter, lastSeen)
   under one RWMutex, bounded by maxSize through evictOne (the entry seen longest
   ago; above [limiter_sample_above] entries only the first entry of the map
   iteration is looked at, i.e. any entry).  Executable model, definitions only.
   What the runtime decides (the clock, the iteration order of the Go map) comes in
   as arguments: [now] is the time stamp the call stored, [victim] the key that was
   evicted; the model says whether that outcome is one the code allows. *)
From Sdns Require Import Common.Base Gen.C16.
Open Scope nat_scope.

Record lent := mk_lent { le_key : N; le_lim : N; le_seen : Z }.   (* le_lim: identity of the *limiter *)
Definition lstore := list lent.

Fixpoint lfind (st : lstore) (k : N) : option lent :=
  match st with
  | [] => None
  | e :: r => if N.eqb (le_key e) k then Some e else lfind r k
  end.
Definition lremove (st : lstore) (k : N) : lstore := filter (fun e => negb (N.eqb (le_key e) k)) st.
(* tl.touch() *)
Definition ltouch (st : lstore) (k : N) (now : Z) : lstore :=
  map (fun e => if N.eqb (le_key e) k then mk_lent (le_key e) (le_lim e) now else e) st.
Definition llen (st : lstore) : Z := Z.of_nat (length st).

(* evictOne may delete [v]: it is stored and, unless the store is above the sampling
   threshold (then the loop breaks after the first entry the map iteration yields),
   no entry was seen earlier *)
Definition victim_ok (st : lstore) (v : N) : bool :=
  match lfind st v with
  | Some ev => (limiter_sample_above <? llen st)%Z || forallb (fun e => (le_seen ev <=? le_seen e)%Z) st
  | None => false
  end.

(* Get(key): the new store and the limiter returned; None = the code cannot do this *)
Definition lget (maxSize : Z) (st : lstore) (k : N) (now : Z) (newid : N) (victim : option N) : option (lstore * N) :=
  match lfind st k with
  | Some e => match victim with None => Some (ltouch st k now, le_lim e) | Some _ => None end
  | None =>
      if (maxSize <=? llen st)%Z then
        match st, victim with
        | [], None => Some ([mk_lent k newid now], newid)           (* evictOne on an empty map deletes nothing *)
        | _ :: _, Some v => if victim_ok st v then Some (mk_lent k newid now :: lremove st v, newid) else None
        | _, _ => None
        end
      else match victim with None => Some (mk_lent k newid now :: st, newid) | Some _ => None end
  end.

(* Cleanup(olderThan) with cutoff somewhere in [lo, hi]: [gone] are the deleted keys *)
Definition lclean (st : lstore) (lo hi : Z) (gone : list N) : option lstore :=
  let isgone k := existsb (N.eqb k) gone in
  if forallb (fun e => if isgone (le_key e) then (le_seen e <? hi)%Z else (lo <=? le_seen e)%Z) st &&
     forallb (fun g => match lfind st g with Some _ => true | None => false end) gone
  then Some (filter (fun e => negb (isgone (le_key e))) st) else None.

Inductive lop :=
| OGet (k : N) (now : Z) (id : N) (victim : option N)     (* id: the limiter Get returned *)
| OClean (lo hi : Z) (gone : list N).

Definition lfresh (st : lstore) (id : N) : bool := negb (existsb (fun e => N.eqb (le_lim e) id) st).
(* one observed call: a miss must hand out a limiter no stored key has *)
Definition lstep (maxSize : Z) (st : lstore) (o : lop) : option lstore :=
  match o with
  | OGet k now id victim =>
      match lfind st k with
      | Some _ => match lget maxSize st k now id victim with
                  | Some (st', l) => if N.eqb l id then Some st' else None
                  | None => None
                  end
      | None => if lfresh st id then option_map fst (lget maxSize st k now id victim) else None
      end
  | OClean lo hi gone => lclean st lo hi gone
  end.
Fixpoint lrun (maxSize : Z) (st : lstore) (ops : list lop) : option lstore :=
  match ops with
  | [] => Some st
  | o :: r => match lstep maxSize st o with Some st' => lrun maxSize st' r | None => None end
  end.
Definition evicts (k : N) (o : lop) : bool :=
  match o with
  | OGet _ _ _ (Some v) => N.eqb v k
  | OGet _ _ _ None => false
  | OClean _ _ gone => existsb (N.eqb k) gone
  end.
Definition lim_of (st : lstore) (k : N) : option N := option_map le_lim (lfind st k).
Definition lbound (maxSize : Z) : Z := Z.max maxSize 1.
