(* C16 — basic lemmas: cyclic index arithmetic (piecewise linear, so [lia]
   decides it after case splitting), slot lists, the probe scan. *)
From Sdns Require Import Common.Base Gen.C16 C16.Model.
Open Scope nat_scope.

(* number of steps from a forward to b on the ring of n slots *)
Definition dist (n a b : nat) : nat := if a <=? b then b - a else b + n - a.

Ltac cyc_split :=
  repeat match goal with
  | |- context [if ?a <=? ?b then _ else _] => destruct (Nat.leb_spec a b)
  | |- context [if ?a <? ?b then _ else _] => destruct (Nat.ltb_spec a b)
  | H : context [if ?a <=? ?b then _ else _] |- _ => destruct (Nat.leb_spec a b)
  | H : context [if ?a <? ?b then _ else _] |- _ => destruct (Nat.ltb_spec a b)
  end.
Ltac cyc := unfold dist, nxt in *; cyc_split; try lia.

Lemma nxt_lt n i : 0 < n -> nxt n i < n.
Proof. cyc. Qed.
Lemma dist_lt n a b : a < n -> b < n -> dist n a b < n.
Proof. cyc. Qed.
Lemma dist_self n a : dist n a a = 0.
Proof. cyc. Qed.
Lemma dist_zero n a b : a < n -> b < n -> dist n a b = 0 -> a = b.
Proof. cyc. Qed.
Lemma dist_inj n a b c : a < n -> b < n -> c < n -> dist n a b = dist n a c -> b = c.
Proof. cyc. Qed.
Lemma dist_nxt n a b : a < n -> b < n -> a <> b -> dist n a b = S (dist n (nxt n a) b).
Proof. cyc. Qed.
Lemma dist_to_nxt n a b : a < n -> b < n -> nxt n b <> a -> dist n a (nxt n b) = S (dist n a b).
Proof. cyc. Qed.
Lemma nxt_eq_dist n a b : a < n -> b < n -> nxt n b = a -> dist n a b = n - 1.
Proof. cyc. Qed.
(* c lies on the way from a to b *)
Lemma dist_split n a b c : a < n -> b < n -> c < n ->
  dist n a c <= dist n a b -> dist n a b = dist n a c + dist n c b.
Proof. cyc. Qed.
Lemma dist_compl n a b : a < n -> b < n -> a <> b -> dist n a b + dist n b a = n.
Proof. cyc. Qed.

Lemma stay_spec n i j k : i < n -> j < n -> k < n ->
  stay i j k = true <-> (0 < dist n i k /\ dist n i k <= dist n i j).
Proof.
  intros. unfold stay, dist.
  destruct (Nat.leb_spec i j); destruct (Nat.leb_spec i k);
    rewrite ?andb_true_iff, ?orb_true_iff, ?Nat.ltb_lt, ?Nat.leb_le; lia.
Qed.

(* --------------------------------------------------------------- lists *)
Lemma upd_length i s d : length (upd i s d) = length d.
Proof. revert i; induction d; intros [|i]; simpl; auto. Qed.
Lemma sl_upd_eq i s d : i < length d -> sl (upd i s d) i = s.
Proof. unfold sl. revert i; induction d; intros [|i]; simpl; intros; try lia; auto. apply IHd; lia. Qed.
Lemma sl_upd_neq i j s d : i <> j -> sl (upd i s d) j = sl d j.
Proof.
  unfold sl. revert i j; induction d; intros [|i] [|j]; simpl; intros; try lia; auto.
Qed.
Lemma sl_out d i : length d <= i -> sl d i = empty_slot.
Proof. unfold sl. intros. apply nth_overflow. exact H. Qed.
Lemma upd_out i s d : length d <= i -> upd i s d = d.
Proof. revert i; induction d; intros [|i]; simpl; intros; try lia; auto. f_equal. apply IHd. lia. Qed.
Lemma sl_repeat n i : sl (repeat empty_slot n) i = empty_slot.
Proof.
  unfold sl. revert i; induction n; intros [|i]; simpl; auto.
Qed.
Lemma skey_upd_eq i s d : i < length d -> skey (upd i s d) i = fst s.
Proof. intros. unfold skey. rewrite sl_upd_eq; auto. Qed.
Lemma skey_upd_neq i j s d : i <> j -> skey (upd i s d) j = skey d j.
Proof. intros. unfold skey. rewrite sl_upd_neq; auto. Qed.

(* number of occupied slots *)
Definition nz (s : slot) : bool := negb (N.eqb (fst s) 0).
Definition b2n (b : bool) : nat := if b then 1 else 0.
Fixpoint occ (d : list slot) : nat :=
  match d with [] => 0 | s :: r => b2n (nz s) + occ r end.

Lemma occ_le d : occ d <= length d.
Proof. induction d; simpl; auto. destruct (nz a); simpl; lia. Qed.
Lemma occ_upd i s d : i < length d -> occ (upd i s d) + b2n (nz (sl d i)) = occ d + b2n (nz s).
Proof.
  unfold sl. revert i; induction d; intros [|i]; simpl; intros; try lia.
  specialize (IHd i). lia.
Qed.
Lemma occ_repeat n : occ (repeat empty_slot n) = 0.
Proof. induction n; simpl; auto. Qed.
Lemma occ_full d : (forall i, i < length d -> skey d i <> 0%N) -> occ d = length d.
Proof.
  induction d; simpl; intros; auto.
  assert (nz a = true).
  { specialize (H 0). unfold skey, sl in H. simpl in H. unfold nz. destruct (N.eqb_spec (fst a) 0); auto. exfalso; apply H; auto; lia. }
  rewrite H0. simpl. f_equal. apply IHd. intros. apply (H (S i)). lia.
Qed.
Lemma occ_has_empty d : occ d < length d -> exists i, i < length d /\ skey d i = 0%N.
Proof.
  induction d; simpl; intros; try lia.
  unfold nz in H. destruct (N.eqb_spec (fst a) 0).
  - exists 0. split; [lia|]. exact e.
  - simpl in H. destruct (IHd ltac:(lia)) as [i [Hi Hk]]. exists (S i). split; [lia|]. exact Hk.
Qed.
Lemma nz_key d i : nz (sl d i) = negb (N.eqb (skey d i) 0).
Proof. reflexivity. Qed.
Lemma occ_pos d i : i < length d -> skey d i <> 0%N -> 0 < occ d.
Proof.
  unfold skey, sl. revert i; induction d; intros [|i]; simpl; intros; try lia.
  - unfold nz. destruct (N.eqb_spec (fst a) 0); simpl; try lia.
  - specialize (IHd i). lia.
Qed.

(* ----------------------------------------------------------------- scan *)
Section Scan.
  Variable mix : N -> N.
  Lemma hidx_lt n k : 0 < n -> hidx mix n k < n.
  Proof.
    intros. unfold hidx.
    assert (N.modulo (mix k) (N.of_nat n) < N.of_nat n)%N by (apply N.mod_lt; lia).
    lia.
  Qed.

  Variable stop : slot -> bool.
  Lemma scan_some fuel d n s e : n = length d -> s < n ->
    scan stop fuel d n s = Some e ->
    e < n /\ stop (sl d e) = true /\ dist n s e < fuel /\
    forall p, p < n -> dist n s p < dist n s e -> stop (sl d p) = false.
  Proof.
    intros Hn. revert s. induction fuel; simpl; intros s Hs H; [discriminate|].
    destruct (stop (sl d s)) eqn:E.
    - inversion H; subst e. repeat split; auto. rewrite dist_self; lia.
      intros p Hp. rewrite dist_self. lia.
    - assert (0 < n) by lia.
      apply IHfuel in H; [|apply nxt_lt; auto].
      destruct H as [He [Hst [Hd Hbefore]]].
      assert (s <> e) by (intro; subst; congruence).
      rewrite (dist_nxt n s e) by auto.
      repeat split; auto; try lia.
      intros p Hp Hlt. destruct (Nat.eq_dec p s); [subst; auto|].
      apply Hbefore; auto. rewrite (dist_nxt n s p) in Hlt by auto. lia.
  Qed.
  Lemma scan_none fuel d n s : n = length d -> s < n ->
    scan stop fuel d n s = None ->
    forall p, p < n -> dist n s p < fuel -> stop (sl d p) = false.
  Proof.
    intros Hn. revert s. induction fuel; simpl; intros s Hs H p Hp Hd; [lia|].
    destruct (stop (sl d s)) eqn:E; [discriminate|].
    destruct (Nat.eq_dec p s); [subst; auto|].
    assert (0 < n) by lia.
    eapply IHfuel; [apply nxt_lt; auto|exact H|auto|].
    rewrite (dist_nxt n s p) in Hd by auto. lia.
  Qed.
  (* with fuel n every slot is looked at *)
  Lemma scan_finds d n s q : n = length d -> s < n -> q < n -> stop (sl d q) = true ->
    exists e, scan stop n d n s = Some e.
  Proof.
    intros. destruct (scan stop n d n s) eqn:E; eauto.
    pose proof (scan_none n d n s H H0 E q H1 (dist_lt n s q H0 H1)). congruence.
  Qed.
End Scan.
