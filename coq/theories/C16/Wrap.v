(* C16 — the expiring wrappers of the answer cache: middleware/cache PositiveCache and
   NegativeCache (positive_cache.go / negative_cache.go, the two files are the same
   code over one cache.Cache each).  Executable definitions only.

     Get(key):    v, ok := cache.Get(key); if !ok { miss }
                  if v.IsExpired() { cache.CompareAndDelete(key, v); miss } else hit v
     Set(key,e):  cache.Add(key, e)          Remove(key): cache.Remove(key)
     Len():       cache.Len()

   A value is the identity number of a *CacheEntry; [expired] says which entries have run
   out.  It is a fixed predicate: IsExpired is monotone in time (once true it stays true),
   so "expired when some reader tested it" is a property of the entry for the rest of the
   run; an entry that is still fresh at the end of the run is one no reader found expired.

   Under concurrency a wrapper Get is TWO calls of cache.Cache: the read and, when the
   entry read had expired, CompareAndDelete(key, that entry).  In the interleaving model
   (Conc.v) thread programs are fixed lists of calls, so the wrappers are the programs of
   [wcall]: Add / Get / Remove, and CompareAndDelete(k, old) for ANY expired old — every
   behaviour of the real (result-dependent) wrapper is a run of such a program.

   The wrapper-level reading of a history ([wview]): callers of the wrappers never see an
   expired entry, so what they observe is the map of FRESH entries [fresh].  A store of an
   expired entry reads as a removal, a read yields the fresh part of what it saw, an
   eviction takes the fresh keys among its victims, and the expiry clean-up is not an
   operation at all.  Proofs_wrap.v: for every schedule that reading is a legal history
   of the same finite-map specification ([Lin.legal]) — clean-up never takes a fresh
   entry. *)
From Sdns Require Import Common.Base Gen.C16 C16.Model C16.Conc C16.Lin.
Open Scope nat_scope.

Section Wrap.
  Variable expired : N -> bool.

  Definition fresh (o : option N) : option N :=
    match o with Some v => if expired v then None else Some v | None => None end.

  (* ---- calls that run to completion (the model of Model.v) ---- *)
  Section Seq.
    Variable mix : N -> N.
    Variable sidx : nat -> N -> nat.
    Variable eoff : N -> Z.
    Definition w_get (m : segmap) (k : N) : segmap * option N :=
      match sm_get mix sidx m k with
      | None => (m, None)
      | Some v => if expired v then (fst (c_cad mix sidx m k v), None) else (m, Some v)
      end.
    Definition w_set (m : segmap) (k v : N) (cap : Z) : segmap := sm_set_with_cap mix sidx eoff m k v cap.
    Definition w_remove (m : segmap) (k : N) : segmap := fst (sm_del mix sidx m k).
  End Seq.

  (* ---- the wrappers as programs of the interleaving model ---- *)
  Definition wcall (c : call) : bool :=
    match c with
    | CSwc _ _ _ | CGet _ | CDel _ => true
    | CCad _ old => expired old
    | _ => false
    end.
  (* the events such programs produce *)
  Definition wev (e : lev) : bool :=
    match e with
    | LStore _ _ _ | LDel _ _ _ | LRem _ _ | LEvict _ _ _ | LGet _ _ _ => true
    | LCad _ _ old _ => expired old
    | _ => false
    end.

  (* what the wrappers' callers see of one operation; [val] = the table content before it *)
  Definition wview_ev (val : N -> option N) (e : lev) : list lev :=
    match e with
    | LStore t k v => if expired v then [LRem t k] else [LStore t k v]
    | LDel t k _ | LRem t k => [LRem t k]
    | LEvict t own ks => [LEvict t own (filter (fun g => is_some (fresh (val g))) ks)]
    | LGet t k r => [LGet t k (fresh r)]
    | _ => []
    end.
  Fixpoint wview (val : N -> option N) (log : list lev) : list lev :=
    match log with
    | [] => []
    | e :: r => wview_ev val e ++ wview (val_after val e) r
    end.
End Wrap.

(* ---- expiry as the code computes it (middleware/cache types.go: CacheEntry.IsExpired =
   remaining(time.Now()) <= 0, remaining = ttl - (now - stored), capped by cutUntil - now when
   a cut is set) — instants and durations in ns on the ideal line; [go_CacheEntry_IsExpired]
   is srcgen's translation with the clock as the parameter [now] (Proofs_wrap.gen_is_expired) ---- *)
Definition remaining_model (stored ttl cut now : Z) : Z :=
  let rem := (ttl - (now - stored))%Z in
  if Z.eqb cut 0 then rem else Z.min rem (cut - now)%Z.
Definition expired_model (stored ttl cut now : Z) : bool := (remaining_model stored ttl cut now <=? 0)%Z.
(* the wrappers' [expired] predicate at instant [now], entries given by identity *)
Definition expired_at (ent : N -> T_CacheEntry) (now : Z) (v : N) : bool := go_CacheEntry_IsExpired now (ent v).
(* the shape of a wrapper call, expiry aside *)
Definition wshape (c : call) : bool :=
  match c with CSwc _ _ _ | CGet _ | CDel _ | CCad _ _ => true | _ => false end.

(* ---- recorded histories of wrapper calls (Run.v, CaseWLin): Set k e is [LStore],
   Remove k is [LRem], Get k -> r is [LGet]; read through the fresh view ---- *)
Definition wview_hop (expired : N -> bool) (h : hop) : hop :=
  match h_ev h with
  | LStore t k v => if expired v then mk_hop (LRem t k) (h_call h) (h_ret h) else h
  | _ => h
  end.
