(* C16 — capacity, calls run to completion: a segment map within its capacity
   (>= 1) is within it again after SetWithCap / Cache.Add. *)
From Sdns Require Import Common.Base Gen.C16 C16.Model C16.Proofs_cyc C16.Proofs_tab C16.Proofs_wf C16.Proofs_more C16.Proofs_seg C16.Proofs_evict.
Open Scope nat_scope.

Lemma mod_piece n a b : a < n -> b < n -> (a + b) mod n = if a + b <? n then a + b else a + b - n.
Proof.
  intros Ha Hb. destruct (Nat.ltb_spec (a + b) n).
  - apply Nat.mod_small. exact H.
  - symmetry. apply (Nat.mod_unique (a + b) n 1 (a + b - n)); lia.
Qed.
Lemma mod_dist n a i : a < n -> i < n -> (a + i) mod n < n /\ dist n a ((a + i) mod n) = i.
Proof. intros Ha Hi. rewrite mod_piece by auto. cyc. Qed.

Lemma sum_all_zero l : (forall x, x < length l -> t_size (nth x l dummy_table) = 0%Z) -> sum_sizes l = 0%Z.
Proof.
  induction l; simpl; intros H; auto.
  pose proof (H 0 ltac:(lia)) as H0. simpl in H0. rewrite H0, IHl; auto.
  intros x Hx. apply (H (S x)). lia.
Qed.
Lemma sum_single l i : i < length l ->
  (forall x, x < length l -> x <> i -> t_size (nth x l dummy_table) = 0%Z) ->
  sum_sizes l = t_size (nth i l dummy_table).
Proof.
  revert i; induction l; intros i Hi H; simpl in *; [lia|].
  destruct i.
  - rewrite sum_all_zero; [lia|]. intros x Hx. apply (H (S x)); lia.
  - pose proof (H 0 ltac:(lia) ltac:(lia)) as H0. simpl in H0. rewrite H0.
    rewrite (IHl i); try lia. intros x Hx Hne. apply (H (S x)); lia.
Qed.

Lemma sum_nth_le l q : q < length l -> (forall x, x < length l -> (0 <= t_size (nth x l dummy_table))%Z) ->
  (t_size (nth q l dummy_table) <= sum_sizes l)%Z /\ (0 <= sum_sizes l)%Z.
Proof.
  revert q; induction l as [|t l IHl]; intros q Ha H; simpl in *; [lia|].
  pose proof (H 0 ltac:(lia)) as H0. simpl in H0.
  assert (Hr : forall x, x < length l -> (0 <= t_size (nth x l dummy_table))%Z) by (intros x Hx; apply (H (S x)); lia).
  destruct q.
  - destruct l; simpl in *; [lia|]. destruct (IHl 0 ltac:(lia) Hr). lia.
  - destruct (IHl q ltac:(lia) Hr). lia.
Qed.
Lemma sum_two_le l p q : p < length l -> q < length l -> p <> q ->
  (forall x, x < length l -> (0 <= t_size (nth x l dummy_table))%Z) ->
  (t_size (nth p l dummy_table) + t_size (nth q l dummy_table) <= sum_sizes l)%Z.
Proof.
  revert p q; induction l as [|t l IHl]; intros p q Ha Hb Hab H; simpl in *; [lia|].
  pose proof (H 0 ltac:(lia)) as H0. simpl in H0.
  assert (Hr : forall x, x < length l -> (0 <= t_size (nth x l dummy_table))%Z) by (intros x Hx; apply (H (S x)); lia).
  destruct p, q; try lia.
  - destruct (sum_nth_le l q ltac:(lia) Hr). lia.
  - destruct (sum_nth_le l p ltac:(lia) Hr). lia.
  - pose proof (IHl p q ltac:(lia) ltac:(lia) ltac:(lia) Hr). lia.
Qed.

Section Cap.
  Variable mix : N -> N.
  Variable sidx : nat -> N -> nat.
  Variable eoff : N -> Z.
  Hypothesis sidx_lt : forall n k, 0 < n -> sidx n k < n.
  Notation WF := (WF mix).
  Notation SWF := (SWF mix sidx).
  Notation sabs := (sabs sidx).

  (* one spill turn in terms of the evicted count *)
  Lemma swc_spill_step m k cap i deficit : SWF m -> (cap < sm_count m)%Z -> i < nsegs m ->
    let j := (ksi sidx m k + i) mod nsegs m in
    let d := snd (tevict mix (seg m j) (eoff k) deficit k) in
    exists m', swc_spill mix sidx eoff m k cap i deficit = Some (m', if (0 <? d)%Z then (deficit - d)%Z else deficit) /\
      SWF m' /\ nsegs m' = nsegs m /\ sm_count m' = (sm_count m - d)%Z /\ (0 <= d)%Z /\
      (forall x, x <> j -> seg m' x = seg m x) /\ t_size (seg m' j) = (t_size (seg m j) - d)%Z.
  Proof.
    intros S Hc Hi j d. unfold swc_spill.
    destruct (Z.leb_spec (sm_count m) cap); [lia|].
    assert (Hj : j < nsegs m) by (apply Nat.mod_upper_bound; lia).
    fold j. pose proof (evict_seg_spec mix sidx sidx_lt m j (eoff k) deficit k S Hj) as H1.
    assert (W : WF (seg m j)) by (apply S; auto).
    destruct (tevict_spec mix (seg m j) (eoff k) deficit k W) as [_ [_ [Hsz _]]].
    unfold d. destruct (tevict mix (seg m j) (eoff k) deficit k) as [t' d0] eqn:Ee. simpl in *.
    destruct H1 as [S2 [Hn2 [_ [_ Hd]]]].
    assert (Hseg : forall c x, seg (set_seg m j t' c) x = if x =? j then t' else seg m x).
    { intros c x. unfold seg, set_seg. simpl. destruct (Nat.eqb_spec x j) as [->|Hne].
      - apply nth_upd_seg_eq. exact Hj.
      - apply nth_upd_seg_neq. auto. }
    destruct (Z.ltb_spec 0 d0).
    - eexists. split; [reflexivity|]. split; [exact S2|]. split; [exact Hn2|]. split; [reflexivity|]. split; [lia|]. split.
      + intros x Hx. rewrite Hseg. destruct (Nat.eqb_spec x j); [contradiction|reflexivity].
      + rewrite Hseg, Nat.eqb_refl. exact Hsz.
    - assert (d0 = 0%Z) by lia. subst d0.
      replace (set_seg m j t' (sm_count m)) with (set_seg m j t' (sm_count m - 0)%Z) by (f_equal; lia).
      eexists. split; [reflexivity|]. split; [exact S2|]. split; [exact Hn2|]. split; [reflexivity|]. split; [lia|]. split.
      + intros x Hx. rewrite Hseg. destruct (Nat.eqb_spec x j); [contradiction|reflexivity].
      + rewrite Hseg, Nat.eqb_refl. exact Hsz.
  Qed.

  (* the spill loop never raises the counter *)
  Lemma swc_loop_mono cap k fuel : forall m i deficit, SWF m ->
    (sm_count (swc_loop mix sidx eoff fuel m k cap i deficit) <= sm_count m)%Z.
  Proof.
    induction fuel; intros m i deficit S; simpl; [lia|].
    destruct (Nat.ltb_spec i (nsegs m)); simpl; [|lia].
    destruct (0 <? deficit)%Z; [|lia].
    destruct (Z.leb_spec (sm_count m) cap) as [Hle|Hgt].
    - unfold swc_spill. destruct (Z.leb_spec (sm_count m) cap); [lia|lia].
    - destruct (swc_spill_step m k cap i deficit S Hgt H) as [m' [He [S' [_ [Hc [Hd _]]]]]].
      rewrite He. specialize (IHfuel m' (Datatypes.S i) (if (0 <? snd (tevict mix (seg m ((ksi sidx m k + i) mod nsegs m)) (eoff k) deficit k))%Z
                                              then (deficit - snd (tevict mix (seg m ((ksi sidx m k + i) mod nsegs m)) (eoff k) deficit k))%Z else deficit) S').
      lia.
  Qed.

  (* over capacity by one, own segment holds only the key, nothing found so far: the loop finds an entry *)
  Lemma swc_loop_finds cap k fuel : forall m i,
    SWF m -> (1 <= cap)%Z -> sm_count m = (cap + 1)%Z ->
    t_size (seg m (ksi sidx m k)) = 1%Z -> sabs m k <> None ->
    1 <= i -> nsegs m - i <= fuel ->
    (forall x, x < nsegs m -> 0 < dist (nsegs m) (ksi sidx m k) x -> dist (nsegs m) (ksi sidx m k) x < i ->
       t_size (seg m x) = 0%Z) ->
    (sm_count (swc_loop mix sidx eoff fuel m k cap i 2%Z) <= cap)%Z.
  Proof.
    induction fuel; intros m i S Hcap Hc Hown Hk Hi Hf Hzero.
    - (* every other segment is empty: the counter would be 1 *)
      exfalso. set (own := ksi sidx m k) in *.
      assert (Hown_lt : own < nsegs m) by (apply sidx_lt; apply S).
      assert (sum_sizes (sm_segs m) = 1%Z).
      { rewrite (sum_single (sm_segs m) own Hown_lt); [exact Hown|].
        intros x Hx Hne. apply Hzero; auto.
        - destruct (dist (nsegs m) own x) eqn:E; [|lia]. apply dist_zero in E; auto. congruence.
        - pose proof (dist_lt (nsegs m) own x Hown_lt Hx). unfold nsegs in *. lia. }
      rewrite <- (s_count mix sidx m S) in H. lia.
    - simpl. set (n := nsegs m) in *. set (own := ksi sidx m k) in *.
      assert (Hown_lt : own < n) by (apply sidx_lt; apply S).
      destruct (Nat.ltb_spec i n) as [Hin|Hge]; simpl.
      2:{ exfalso.
          assert (sum_sizes (sm_segs m) = 1%Z).
          { rewrite (sum_single (sm_segs m) own Hown_lt); [exact Hown|].
            intros x Hx Hne. apply Hzero; auto.
            - destruct (dist n own x) eqn:E; [|lia]. apply dist_zero in E; auto. congruence.
            - pose proof (dist_lt n own x Hown_lt Hx). lia. }
          rewrite <- (s_count mix sidx m S) in H. lia. }
      assert (Hgt : (cap < sm_count m)%Z) by lia.
      destruct (swc_spill_step m k cap i 2%Z S Hgt Hin) as [m' [He [S' [Hn' [Hc' [Hd [Hother Hsj]]]]]]].
      fold n own in He, Hother, Hsj, Hc', Hd. rewrite He.
      set (j := (own + i) mod n) in *.
      destruct (mod_dist n own i Hown_lt Hin) as [Hj Hdj]. fold j in Hj, Hdj.
      assert (Hjo : j <> own) by (intro E; rewrite E, dist_self in Hdj; lia).
      (* the key is not in segment j, so the evicted count is min(2, size) *)
      assert (Hd2 : snd (tevict mix (seg m j) (eoff k) 2 k) = Z.max 0 (Z.min 2 (t_size (seg m j)))).
      { rewrite (tevict_count mix (seg m j) (eoff k) 2 k (s_wf mix sidx m S j Hj)).
        assert (abs (seg m j) k = None) by (apply (other_seg_absent mix sidx m k S j Hj); exact Hjo).
        unfold present. rewrite H. f_equal. f_equal. lia. }
      set (d := snd (tevict mix (seg m j) (eoff k) 2 k)) in *.
      assert (Hsz0 : (0 <= t_size (seg m j))%Z).
      { pose proof (wf_size mix _ (s_wf mix sidx m S j Hj)). destruct (t_zero (seg m j)); simpl in *; lia. }
      destruct (Z.ltb_spec 0 d) as [Hpos|Hzero'].
      + (* found something: back within capacity, and the rest of the loop cannot raise the counter *)
        pose proof (swc_loop_mono cap k fuel m' (Datatypes.S i) (2 - d)%Z S'). lia.
      + (* segment j is empty too: go on *)
        assert (d = 0%Z) by lia. assert (t_size (seg m j) = 0%Z) by lia.
        assert (Hksi : ksi sidx m' k = own) by (unfold ksi; rewrite Hn'; reflexivity).
        apply IHfuel; auto.
        * lia.
        * rewrite Hksi. rewrite Hother by auto. exact Hown.
        * unfold sabs. rewrite Hksi. rewrite Hother by auto. exact Hk.
        * rewrite Hn'. fold n. lia.
        * rewrite Hn', Hksi. fold n. intros x Hx Hx0 Hlt.
          destruct (Nat.eq_dec x j) as [->|Hne].
          -- rewrite Hsj. lia.
          -- rewrite Hother by auto. apply Hzero; auto.
             assert (dist n own x <> i) by (intro E; apply Hne; apply (dist_inj n own x j); auto; congruence). lia.
  Qed.

  Theorem swc_within_capacity m k v cap : SWF m -> (1 <= cap)%Z -> (sm_count m <= cap)%Z ->
    (sm_count (sm_set_with_cap mix sidx eoff m k v cap) <= cap)%Z.
  Proof.
    intros S Hcap Hc. unfold sm_set_with_cap, swc_own.
    set (i := ksi sidx m k). set (t := seg m i).
    pose proof (ksi_lt mix sidx sidx_lt m k S) as Hi. fold i in Hi.
    destruct (sm_set_spec mix sidx sidx_lt m k v S) as [S1 [Hn1 [Ha1 Hc1]]].
    unfold sm_set in S1, Hn1, Ha1, Hc1. fold i t in S1, Hn1, Ha1, Hc1.
    set (t1 := tput mix t k v) in *.
    set (c1 := (if (tlen t <? tlen t1)%Z then (sm_count m + 1)%Z else sm_count m)) in *.
    set (m1 := set_seg m i t1 c1) in *.
    change (sm_count m1) with c1 in Hc1.
    assert (Hc1le : (c1 <= cap + 1)%Z) by (rewrite Hc1; destruct (present (Proofs_seg.sabs sidx m) k); lia).
    assert (Hk1 : sabs m1 k = Some v) by (rewrite Ha1; unfold upd_abs; rewrite N.eqb_refl; reflexivity).
    assert (Hseg1 : seg m1 i = t1) by (unfold m1, seg, set_seg; simpl; apply nth_upd_seg_eq; exact Hi).
    assert (Hksi1 : ksi sidx m1 k = i) by (unfold ksi; rewrite Hn1; reflexivity).
    destruct (Z.ltb_spec cap c1) as [Hover|Hok].
    2:{ simpl. fold m1. change (sm_count m1) with c1. lia. }
    assert (Hc1eq : c1 = (cap + 1)%Z) by lia.
    (* the own-segment eviction *)
    assert (W1 : WF t1) by (rewrite <- Hseg1; apply S1; lia).
    assert (Hpk : abs t1 k = Some v) by (unfold sabs in Hk1; rewrite Hksi1, Hseg1 in Hk1; exact Hk1).
    pose proof (tevict_count mix t1 (eoff k) evict_toll k W1) as Hcnt.
    unfold present in Hcnt. rewrite Hpk in Hcnt.
    assert (Hi1 : i < nsegs m1) by lia.
    pose proof (evict_seg_spec mix sidx sidx_lt m1 i (eoff k) evict_toll k S1 Hi1) as H1. rewrite Hseg1 in H1.
    destruct (tevict_spec mix t1 (eoff k) evict_toll k W1) as [_ [_ [Hsz2 _]]].
    destruct (tevict mix t1 (eoff k) evict_toll k) as [t2 d] eqn:Ee. simpl in *.
    destruct H1 as [S2 [Hn2 [Hsh2 [Hsk2 Hd]]]].
    assert (Heq : set_seg m i t2 (if (0 <? d)%Z then (c1 - d)%Z else c1) = set_seg m1 i t2 (c1 - d)%Z).
    { unfold set_seg, m1. simpl. f_equal.
      - symmetry. apply upd_seg_twice.
      - destruct (Z.ltb_spec 0 d); lia. }
    change (sm_count m1) with c1 in S2, Hn2, Hsh2, Hsk2.
    rewrite Heq. set (m2 := set_seg m1 i t2 (c1 - d)%Z) in *.
    assert (Hsz1 : (1 <= t_size t1)%Z).
    { pose proof (wf_size mix t1 W1). unfold abs in Hpk. destruct (N.eqb_spec k 0).
      - rewrite Hpk in H. simpl in H. lia.
      - apply dget_some in Hpk. destruct (has_key _ _ _ Hpk) as [x [Hx Hkx]].
        assert (0 < occ (t_data t1)) by (apply (occ_pos _ x); auto; congruence).
        destruct (t_zero t1); simpl in *; lia. }
    unfold evict_toll, evict_toll_deficit in *.
    destruct (Z.leb_spec (2 - d) 0) as [Hdone|Hmore].
    - change (sm_count m2) with (c1 - d)%Z. lia.
    - destruct (Z.ltb_spec 0 d) as [Hpos|Hzero].
      + (* one evicted: within capacity already; the loop cannot raise the counter *)
        pose proof (swc_loop_mono cap k (nsegs m2) m2 1 (2 - d)%Z S2).
        change (sm_count m2) with (c1 - d)%Z in H. lia.
      + (* nothing to evict in the own segment: it holds only the key *)
        assert (Hd0 : d = 0%Z) by lia. assert (Ht1 : t_size t1 = 1%Z) by lia.
        replace (2 - d)%Z with 2%Z by lia.
        assert (Hksi2 : ksi sidx m2 k = i) by (unfold ksi; rewrite Hn2, Hn1; reflexivity).
        assert (Hseg2 : seg m2 i = t2) by (unfold m2, seg, set_seg; simpl; apply nth_upd_seg_eq; unfold m1, set_seg; simpl; rewrite upd_seg_length; exact Hi).
        apply swc_loop_finds; auto.
        * change (sm_count m2) with (c1 - d)%Z. lia.
        * rewrite Hksi2, Hseg2. lia.
        * rewrite Hsk2. congruence.
        * lia.
        * intros x Hx Hx0 Hlt. lia.
  Qed.
  (* own segment holds only the key, every segment the scan has passed is empty: the
     rest of the loop takes min(deficit, number of other entries) entries unless the
     counter is back within the capacity first *)
  Lemma swc_loop_pays cap k fuel : forall m i deficit,
    SWF m -> (1 <= cap)%Z -> (1 <= deficit <= 2)%Z ->
    t_size (seg m (ksi sidx m k)) = 1%Z -> sabs m k <> None ->
    1 <= i -> nsegs m - i <= fuel ->
    (forall x, x < nsegs m -> 0 < dist (nsegs m) (ksi sidx m k) x -> dist (nsegs m) (ksi sidx m k) x < i ->
       t_size (seg m x) = 0%Z) ->
    (sm_count (swc_loop mix sidx eoff fuel m k cap i deficit) <= Z.max cap (sm_count m - Z.min deficit (sm_count m - 1)))%Z.
  Proof.
    induction fuel; intros m i deficit S Hcap Hdef Hown Hk Hi Hf Hzero.
    - (* every other segment is empty: the counter is 1 *)
      simpl. set (own := ksi sidx m k) in *.
      assert (Hown_lt : own < nsegs m) by (apply sidx_lt; apply S).
      assert (sum_sizes (sm_segs m) = 1%Z).
      { rewrite (sum_single (sm_segs m) own Hown_lt); [exact Hown|].
        intros x Hx Hne. apply Hzero; auto.
        - destruct (dist (nsegs m) own x) eqn:E; [|lia]. apply dist_zero in E; auto. congruence.
        - pose proof (dist_lt (nsegs m) own x Hown_lt Hx). unfold nsegs in *. lia. }
      rewrite <- (s_count mix sidx m S) in H. lia.
    - simpl. set (n := nsegs m) in *. set (own := ksi sidx m k) in *.
      assert (Hown_lt : own < n) by (apply sidx_lt; apply S).
      destruct (Nat.ltb_spec i n) as [Hin|Hge]; simpl.
      2:{ assert (sum_sizes (sm_segs m) = 1%Z).
          { rewrite (sum_single (sm_segs m) own Hown_lt); [exact Hown|].
            intros x Hx Hne. apply Hzero; auto.
            - destruct (dist n own x) eqn:E; [|lia]. apply dist_zero in E; auto. congruence.
            - pose proof (dist_lt n own x Hown_lt Hx). lia. }
          rewrite <- (s_count mix sidx m S) in H. lia. }
      destruct (Z.ltb_spec 0 deficit); [|lia].
      destruct (Z.leb_spec (sm_count m) cap) as [Hle|Hgt].
      { unfold swc_spill. destruct (Z.leb_spec (sm_count m) cap); lia. }
      destruct (swc_spill_step m k cap i deficit S Hgt Hin) as [m' [He [S' [Hn' [Hc' [Hd [Hother Hsj]]]]]]].
      fold n own in He, Hother, Hsj, Hc', Hd. rewrite He.
      set (j := (own + i) mod n) in *.
      destruct (mod_dist n own i Hown_lt Hin) as [Hj Hdj]. fold j in Hj, Hdj.
      assert (Hjo : j <> own) by (intro E; rewrite E, dist_self in Hdj; lia).
      assert (Hd2 : snd (tevict mix (seg m j) (eoff k) deficit k) = Z.max 0 (Z.min deficit (t_size (seg m j)))).
      { rewrite (tevict_count mix (seg m j) (eoff k) deficit k (s_wf mix sidx m S j Hj)).
        assert (abs (seg m j) k = None) by (apply (other_seg_absent mix sidx m k S j Hj); exact Hjo).
        unfold present. rewrite H0. f_equal. f_equal. lia. }
      set (d := snd (tevict mix (seg m j) (eoff k) deficit k)) in *.
      assert (Hsz0 : (0 <= t_size (seg m j))%Z).
      { pose proof (wf_size mix _ (s_wf mix sidx m S j Hj)). destruct (t_zero (seg m j)); simpl in *; lia. }
      (* segment j's entries are among the "others": size_j <= count - 1 *)
      assert (Hnn : forall x, x < length (sm_segs m) -> (0 <= t_size (nth x (sm_segs m) dummy_table))%Z).
      { intros x Hx. pose proof (wf_size mix _ (s_wf mix sidx m S x Hx)) as Hw.
        unfold seg in Hw. destruct (t_zero (nth x (sm_segs m) dummy_table)); simpl in *; lia. }
      assert (Hle_j : (t_size (seg m j) <= sm_count m - 1)%Z).
      { rewrite (s_count mix sidx m S).
        pose proof (sum_two_le (sm_segs m) own j Hown_lt Hj ltac:(auto) Hnn) as H2. unfold seg in *. lia. }
      destruct (Z.ltb_spec 0 d) as [Hpos|Hzero'].
      + destruct (Z.leb_spec (deficit - d) 0) as [Hdone|Hmore].
        * (* toll paid *)
          destruct fuel; simpl; [lia|].
          destruct ((Datatypes.S i <? nsegs m') && (0 <? deficit - d)%Z) eqn:E; [|lia].
          apply andb_true_iff in E. destruct E as [_ E]. apply Z.ltb_lt in E. lia.
        * (* one of two taken, segment j is empty now: go on with deficit 1 *)
          assert (d = t_size (seg m j)) by lia.
          assert (Hksi : ksi sidx m' k = own) by (unfold ksi; rewrite Hn'; reflexivity).
          pose proof (IHfuel m' (Datatypes.S i) (deficit - d)%Z S' Hcap ltac:(lia)) as IH.
          rewrite Hksi in IH. rewrite Hother in IH by auto.
          specialize (IH Hown).
          assert (Hk' : sabs m' k <> None) by (unfold Proofs_seg.sabs; rewrite Hksi; rewrite Hother by auto; exact Hk).
          specialize (IH Hk' ltac:(lia)). rewrite Hn' in IH. fold n in IH. specialize (IH ltac:(lia)).
          assert (Hz' : forall x : nat, x < n -> 0 < dist n own x -> dist n own x < Datatypes.S i -> t_size (seg m' x) = 0%Z).
          { intros x Hx Hx0 Hlt. destruct (Nat.eq_dec x j) as [->|Hne].
            - rewrite Hsj. lia.
            - rewrite Hother by auto. apply Hzero; auto.
              assert (dist n own x <> i) by (intro E; apply Hne; apply (dist_inj n own x j); auto; congruence). lia. }
          specialize (IH Hz'). lia.
      + (* segment j is empty: go on *)
        assert (d = 0%Z) by lia. assert (t_size (seg m j) = 0%Z) by lia.
        assert (Hksi : ksi sidx m' k = own) by (unfold ksi; rewrite Hn'; reflexivity).
        pose proof (IHfuel m' (Datatypes.S i) deficit S' Hcap Hdef) as IH.
        rewrite Hksi in IH. rewrite Hother in IH by auto.
        specialize (IH Hown).
        assert (Hk' : sabs m' k <> None) by (unfold Proofs_seg.sabs; rewrite Hksi; rewrite Hother by auto; exact Hk).
        specialize (IH Hk' ltac:(lia)). rewrite Hn' in IH. fold n in IH. specialize (IH ltac:(lia)).
        assert (Hz' : forall x : nat, x < n -> 0 < dist n own x -> dist n own x < Datatypes.S i -> t_size (seg m' x) = 0%Z).
        { intros x Hx Hx0 Hlt. destruct (Nat.eq_dec x j) as [->|Hne].
          - rewrite Hsj. lia.
          - rewrite Hother by auto. apply Hzero; auto.
            assert (dist n own x <> i) by (intro E; apply Hne; apply (dist_inj n own x j); auto; congruence). lia. }
        specialize (IH Hz'). lia.
  Qed.

  (* Over capacity (however that came about: the overlap race of finding
     swc-sparse-scan-race, or a capacity lowered at run time), calls run to
     completion: every SetWithCap takes the counter down by at least one until it is
     within the capacity again; within the capacity it stays there. *)
  Theorem swc_heals m k v cap : SWF m -> (1 <= cap)%Z ->
    (sm_count (sm_set_with_cap mix sidx eoff m k v cap) <= Z.max cap (sm_count m - 1))%Z.
  Proof.
    intros S Hcap. unfold sm_set_with_cap, swc_own.
    set (i := ksi sidx m k). set (t := seg m i).
    pose proof (ksi_lt mix sidx sidx_lt m k S) as Hi. fold i in Hi.
    destruct (sm_set_spec mix sidx sidx_lt m k v S) as [S1 [Hn1 [Ha1 Hc1]]].
    unfold sm_set in S1, Hn1, Ha1, Hc1. fold i t in S1, Hn1, Ha1, Hc1.
    set (t1 := tput mix t k v) in *.
    set (c1 := (if (tlen t <? tlen t1)%Z then (sm_count m + 1)%Z else sm_count m)) in *.
    set (m1 := set_seg m i t1 c1) in *.
    change (sm_count m1) with c1 in Hc1.
    assert (Hc1le : (c1 <= sm_count m + 1)%Z) by (rewrite Hc1; destruct (present (Proofs_seg.sabs sidx m) k); lia).
    assert (Hk1 : sabs m1 k = Some v) by (rewrite Ha1; unfold upd_abs; rewrite N.eqb_refl; reflexivity).
    assert (Hseg1 : seg m1 i = t1) by (unfold m1, seg, set_seg; simpl; apply nth_upd_seg_eq; exact Hi).
    assert (Hksi1 : ksi sidx m1 k = i) by (unfold ksi; rewrite Hn1; reflexivity).
    destruct (Z.ltb_spec cap c1) as [Hover|Hok].
    2:{ simpl. fold m1. change (sm_count m1) with c1. lia. }
    assert (W1 : WF t1) by (rewrite <- Hseg1; apply S1; lia).
    assert (Hpk : abs t1 k = Some v) by (unfold Proofs_seg.sabs in Hk1; rewrite Hksi1, Hseg1 in Hk1; exact Hk1).
    pose proof (tevict_count mix t1 (eoff k) evict_toll k W1) as Hcnt.
    unfold present in Hcnt. rewrite Hpk in Hcnt.
    assert (Hi1 : i < nsegs m1) by lia.
    pose proof (evict_seg_spec mix sidx sidx_lt m1 i (eoff k) evict_toll k S1 Hi1) as H1. rewrite Hseg1 in H1.
    destruct (tevict_spec mix t1 (eoff k) evict_toll k W1) as [_ [_ [Hsz2 _]]].
    destruct (tevict mix t1 (eoff k) evict_toll k) as [t2 d] eqn:Ee. simpl in *.
    destruct H1 as [S2 [Hn2 [Hsh2 [Hsk2 Hd]]]].
    assert (Heq : set_seg m i t2 (if (0 <? d)%Z then (c1 - d)%Z else c1) = set_seg m1 i t2 (c1 - d)%Z).
    { unfold set_seg, m1. simpl. f_equal.
      - symmetry. apply upd_seg_twice.
      - destruct (Z.ltb_spec 0 d); lia. }
    change (sm_count m1) with c1 in S2, Hn2, Hsh2, Hsk2.
    rewrite Heq. set (m2 := set_seg m1 i t2 (c1 - d)%Z) in *.
    assert (Hsz1 : (1 <= t_size t1)%Z).
    { pose proof (wf_size mix t1 W1). unfold abs in Hpk. destruct (N.eqb_spec k 0).
      - rewrite Hpk in H. simpl in H. lia.
      - apply dget_some in Hpk. destruct (has_key _ _ _ Hpk) as [x [Hx Hkx]].
        assert (0 < occ (t_data t1)) by (apply (occ_pos _ x); auto; congruence).
        destruct (t_zero t1); simpl in *; lia. }
    unfold evict_toll, evict_toll_deficit in *.
    destruct (Z.leb_spec (2 - d) 0) as [Hdone|Hmore].
    - change (sm_count m2) with (c1 - d)%Z. lia.
    - (* fewer than two taken: the own segment holds only the key now *)
      assert (Hksi2 : ksi sidx m2 k = i) by (unfold ksi; rewrite Hn2, Hn1; reflexivity).
      assert (Hseg2 : seg m2 i = t2) by (unfold m2, seg, set_seg; simpl; apply nth_upd_seg_eq; unfold m1, set_seg; simpl; rewrite upd_seg_length; exact Hi).
      pose proof (swc_loop_pays cap k (nsegs m2) m2 1 (2 - d)%Z S2 Hcap ltac:(lia)) as HP.
      rewrite Hksi2, Hseg2 in HP. specialize (HP ltac:(lia)).
      assert (Hk2 : sabs m2 k <> None) by (rewrite Hsk2; congruence).
      specialize (HP Hk2 ltac:(lia) ltac:(lia)).
      assert (Hz : forall x : nat, x < nsegs m2 -> 0 < dist (nsegs m2) i x -> dist (nsegs m2) i x < 1 -> t_size (seg m2 x) = 0%Z) by (intros; lia).
      specialize (HP Hz). change (sm_count m2) with (c1 - d)%Z in HP. lia.
  Qed.
End Cap.
