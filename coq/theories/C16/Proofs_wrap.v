(* C16 — the expiring wrappers (Wrap.v): for every schedule the history their callers
   see (the fresh view of the log) is a legal history of the finite-map specification,
   the fresh part of the tables is what that history leaves, and the expiry clean-up
   only ever removes the expired entry its reader saw.  Sequentially: a wrapper Get
   yields the fresh part of the stored value and leaves the fresh view untouched. *)
From Sdns Require Import Common.Base Gen.C16 C16.Model C16.Conc C16.Lin C16.Wrap.
From Sdns Require Import C16.Proofs_cyc C16.Proofs_tab C16.Proofs_wf C16.Proofs_more C16.Proofs_seg C16.Proofs_conc C16.Proofs_lin.
Open Scope nat_scope.

Lemma legal_app l1 : forall val l2,
  legal val (l1 ++ l2) = legal val l1 && legal (fun k => reg l1 k (val k)) l2.
Proof.
  induction l1 as [|e l1 IH]; intros val l2; simpl.
  - apply legal_ext. reflexivity.
  - rewrite IH, andb_assoc. f_equal.
Qed.
Lemma reg_app l1 : forall l2 k c, reg (l1 ++ l2) k c = reg l2 k (reg l1 k c).
Proof. induction l1 as [|e l1 IH]; intros; simpl; auto. Qed.
Lemma lmem_filter p k ks : lmem k (filter p ks) = lmem k ks && p k.
Proof.
  unfold lmem. induction ks as [|a ks IH]; simpl; [reflexivity|].
  destruct (p a) eqn:Hp; simpl; rewrite IH.
  - destruct (N.eqb_spec k a) as [->|]; simpl; [rewrite Hp|]; reflexivity.
  - destruct (N.eqb_spec k a) as [->|]; simpl; [rewrite Hp, !andb_false_r|]; reflexivity.
Qed.
Lemma forallb_filter_same {A} (p : A -> bool) l : forallb p (filter p l) = true.
Proof. induction l as [|a l IH]; simpl; auto. destruct (p a) eqn:Hp; simpl; [rewrite Hp|]; auto. Qed.

Section WrapLog.
  Variable expired : N -> bool.
  Notation fresh := (fresh expired).
  Notation wev := (wev expired).
  Notation wview_ev := (wview_ev expired).
  Notation wview := (wview expired).

  (* one operation: its reading is legal on the fresh view and acts on it as the
     operation acts on the table content *)
  Lemma wview_ev_sim val e : wev e = true -> lev_legal val e = true ->
    legal (fun k => fresh (val k)) (wview_ev val e) = true /\
    forall k, reg (wview_ev val e) k (fresh (val k)) = fresh (lev_apply e k (val k)).
  Proof.
    intros W L. destruct e; simpl in W; try discriminate.
    - (* LStore *)
      simpl. destruct (expired v) eqn:E; simpl; (split; [reflexivity|]); intros k0;
        destruct (N.eqb k0 k); simpl; try rewrite E; reflexivity.
    - (* LDel *) simpl. split; [reflexivity|]. intros k0. destruct (N.eqb k0 k); reflexivity.
    - (* LRem *) simpl. split; [reflexivity|]. intros k0. destruct (N.eqb k0 k); reflexivity.
    - (* LCad: the clean-up is invisible *)
      simpl. split; [reflexivity|]. intros k0.
      destruct (N.eqb_spec k0 k) as [->|]; simpl; [|reflexivity].
      destruct hit; simpl; [|reflexivity].
      simpl in L. destruct (oeqb (val k) (Some old)) eqn:Eo; [|discriminate].
      apply oeqb_eq in Eo. rewrite Eo. simpl. rewrite W. reflexivity.
    - (* LEvict *)
      simpl in L. apply andb_true_iff in L as [L1 L2].
      simpl. split.
      + rewrite lmem_filter. destruct (lmem own ks); [discriminate|]. simpl.
        rewrite forallb_filter_same. reflexivity.
      + intros k0. rewrite lmem_filter. destruct (lmem k0 ks); simpl; [|reflexivity].
        destruct (Wrap.fresh expired (val k0)); reflexivity.
    - (* LGet *)
      simpl in L. apply oeqb_eq in L. subst r. simpl. rewrite oeqb_refl. split; auto.
  Qed.

  Lemma wview_legal log : forall val, legal val log = true -> forallb wev log = true ->
    legal (fun k => fresh (val k)) (wview val log) = true /\
    forall k, reg (wview val log) k (fresh (val k)) = fresh (reg log k (val k)).
  Proof.
    induction log as [|e r IH]; intros val L W.
    - split; auto.
    - simpl in L, W. apply andb_true_iff in L as [Le Lr]. apply andb_true_iff in W as [We Wr].
      destruct (wview_ev_sim val e We Le) as [A B].
      destruct (IH (val_after val e) Lr Wr) as [C D].
      split.
      + simpl. rewrite legal_app, A. simpl. erewrite legal_ext; [exact C|].
        intros k. simpl. rewrite B. reflexivity.
      + intros k. simpl. rewrite reg_app, B. apply D.
  Qed.
End WrapLog.

Section WrapRuns.
  Variable mix : N -> N.
  Variable sidx : nat -> N -> nat.
  Variable eoff : N -> Z.
  Variable rescan : bool.
  Variable expired : N -> bool.
  Hypothesis sidx_lt : forall n k, 0 < n -> sidx n k < n.
  Notation step := (step mix sidx eoff rescan).
  Notation step_ev := (step_ev mix sidx eoff).
  Notation run_log := (run_log mix sidx eoff rescan).
  Notation sabs := (sabs sidx).
  Notation wcall := (wcall expired).
  Notation wev := (wev expired).
  Notation fresh := (fresh expired).

  (* every thread stands inside a wrapper call and has only wrapper calls left *)
  Definition wpc (p : pc) : bool :=
    match p with
    | OpLock c => wcall c
    | ClrSeg _ | ClrSub _ _ | FeSeg _ _ => false
    | _ => true
    end.
  Definition WInv (s : cstate) : Prop :=
    Forall (fun th => wpc (fst th) = true /\ forallb wcall (snd th) = true) (c_thr s).

  Lemma Forall_lupd {A} (P : A -> Prop) x l : Forall P l -> P x -> forall i, Forall P (lupd i x l).
  Proof.
    intros H Hx. induction H as [|y l Hy Hl IH]; intros i; destruct i; simpl; constructor; auto.
  Qed.

  Lemma step_wrap s tid s' : WInv s -> step s tid = Some s' ->
    WInv s' /\ match step_ev s tid with Some e => wev e = true | None => True end.
  Proof.
    intros I H. unfold Conc.step in H. unfold Lin.step_ev.
    destruct (nth tid (c_thr s) (Idle, [])) as [p rest] eqn:Hth.
    destruct (Nat.leb_spec (length (c_thr s)) tid) as [Hlen|Hlen]; [discriminate|].
    assert (Hp : wpc p = true /\ forallb wcall rest = true).
    { unfold WInv in I. rewrite Forall_forall in I. apply (I (p, rest)). rewrite <- Hth. apply nth_In. exact Hlen. }
    destruct Hp as [Hp Hr].
    assert (K : forall m locks p' rest', wpc p' = true -> forallb wcall rest' = true ->
                WInv (with_pc s tid m locks p' rest')).
    { intros m locks p' rest' A B. unfold WInv, with_pc. simpl. apply Forall_lupd; [exact I|]. simpl. auto. }
    assert (G : forall x exh ob, WInv x -> WInv (with_ghost x exh ob)) by (intros x exh ob A; exact A).
    destruct p; simpl in Hp; try discriminate.
    - (* Idle *)
      destruct rest as [|c rest']; [discriminate|]. simpl in Hr. apply andb_true_iff in Hr as [Hc Hr].
      inversion H; subst; clear H. split; [|exact Logic.I].
      apply K; [|exact Hr]. destruct c; simpl in *; try discriminate; auto.
    - (* SwcLock *)
      destruct (lock_free s (sidx (nsegs (c_map s)) k)); [|discriminate].
      inversion H; subst; clear H. split; [apply K; auto|reflexivity].
    - (* SwcAdd *) inversion H; subst; clear H. split; [apply K; auto|exact Logic.I].
    - (* SwcLoad *)
      destruct (cap <? sm_count (c_map s))%Z.
      + destruct (tevict mix (seg (c_map s) (sidx (nsegs (c_map s)) k)) (eoff k) evict_toll k) as [t2 d] eqn:Ee.
        inversion H; subst; clear H. split; [apply G, K; auto|reflexivity].
      + inversion H; subst; clear H. split; [apply G, K; auto|exact Logic.I].
    - (* SwcSub *)
      inversion H; subst; clear H. split; [|exact Logic.I]. apply K; auto.
      destruct (evict_toll_deficit - d <=? 0)%Z; reflexivity.
    - (* SpLoad *)
      destruct (sp_continue rescan (nsegs (c_map s)) i cap deficit);
        [destruct (sm_count (c_map s) <=? cap)%Z|]; inversion H; subst; clear H;
        (split; [|exact Logic.I]); try apply G; apply K; auto.
    - (* SpEvict *)
      destruct (lock_free s ((sidx (nsegs (c_map s)) k + i) mod nsegs (c_map s))); [|discriminate].
      destruct (tevict mix (seg (c_map s) ((sidx (nsegs (c_map s)) k + i) mod nsegs (c_map s))) (eoff k) deficit k) as [t2 d] eqn:Ee.
      inversion H; subst; clear H. split; [apply G, K; auto|reflexivity].
    - (* SpSub *)
      destruct (0 <? d)%Z; inversion H; subst; clear H; (split; [apply K; auto|exact Logic.I]).
    - (* OpLock *)
      destruct (lock_free s (sidx (nsegs (c_map s)) (call_key c))); [|discriminate].
      destruct (table_op mix (seg (c_map s) (sidx (nsegs (c_map s)) (call_key c))) c) as [t' delta] eqn:Et.
      inversion H; subst; clear H. split; [apply G, K; auto|].
      destruct c; simpl in Hp; try discriminate; simpl; auto.
    - (* OpAdd *) inversion H; subst; clear H. split; [apply K; auto|exact Logic.I].
    - (* RdGet *)
      destruct (lock_free s (sidx (nsegs (c_map s)) k)); [|discriminate].
      inversion H; subst; clear H. split; [apply G, K; auto|reflexivity].
  Qed.

  Lemma run_log_wev sched : forall s, WInv s -> forallb wev (snd (run_log s sched)) = true.
  Proof.
    induction sched as [|tid sched IH]; intros s I; simpl; [reflexivity|].
    destruct (step s tid) as [s'|] eqn:Hs.
    - destruct (step_wrap _ _ _ I Hs) as [I' E]. specialize (IH s' I').
      destruct (run_log s' sched) as [sf log]. simpl in *.
      destruct (step_ev s tid); simpl; [rewrite E|]; exact IH.
    - apply IH. exact I.
  Qed.

  Lemma init_winv m progs : (forall p, In p progs -> forallb wcall p = true) -> WInv (init m progs).
  Proof.
    intros H. unfold WInv, init. simpl. apply Forall_forall. intros th Hin.
    apply in_map_iff in Hin. destruct Hin as [p [<- Hin]]. simpl. split; auto.
  Qed.

  (* Every schedule of wrapper programs: the history the wrappers' callers see is a legal
     history of the finite map of fresh entries, the fresh part of the final tables is
     what it leaves, and a clean-up that hit removed exactly the expired entry that was
     current — never an entry stored after its reader looked. *)
  Theorem wrappers_linearize m0 progs sched : SWF mix sidx m0 ->
    (forall p, In p progs -> forallb wcall p = true) ->
    let r := run_log (init m0 progs) sched in
    let W := wview expired (sabs m0) (snd r) in
    legal (fun k => fresh (sabs m0 k)) W = true /\
    (forall k, fresh (sabs (c_map (fst r)) k) = reg W k (fresh (sabs m0 k))) /\
    (forall l1 t k old l2, snd r = l1 ++ LCad t k old true :: l2 ->
       expired old = true /\ reg l1 k (sabs m0 k) = Some old).
  Proof.
    intros S Hp r W.
    destruct (runs_linearize mix sidx eoff rescan sidx_lt m0 progs sched S) as [_ [L R]].
    fold r in L, R.
    pose proof (run_log_wev sched (init m0 progs) (init_winv m0 progs Hp)) as Wv. fold r in Wv.
    destruct (wview_legal expired (snd r) (sabs m0) L Wv) as [A B].
    split; [exact A|split].
    - intros k. rewrite R. symmetry. apply B.
    - intros l1 t k old l2 E. split.
      + rewrite forallb_forall in Wv. specialize (Wv (LCad t k old true)). simpl in Wv. apply Wv.
        rewrite E. apply in_or_app. right. left. reflexivity.
      + rewrite E in L. apply (legal_cad_identity _ _ _ _ _ _ _ L). reflexivity.
  Qed.

  (* calls that run to completion: Get yields the fresh part of the stored value; it
     changes no other key, and under its own key it removes at most the expired entry it
     saw — the fresh view of the whole map is untouched *)
  Theorem wrapper_get_seq m k : SWF mix sidx m ->
    let r := w_get expired mix sidx m k in
    SWF mix sidx (fst r) /\ snd r = fresh (sabs m k) /\
    (forall k', fresh (sabs (fst r) k') = fresh (sabs m k')) /\
    (forall k', k' <> k -> sabs (fst r) k' = sabs m k') /\
    (sabs (fst r) k = sabs m k \/ (sabs (fst r) k = None /\ exists v, sabs m k = Some v /\ expired v = true)).
  Proof.
    intros S r. unfold r, w_get. rewrite (sm_get_abs mix sidx sidx_lt m k S).
    destruct (sabs m k) as [v|] eqn:Ev; simpl.
    - destruct (expired v) eqn:E; simpl.
      + destruct (Proofs_seg.compare_delete_only_on_identity mix sidx sidx_lt m k v S) as [S' [_ [Hit [Hd _]]]].
        assert (Ht : snd (c_cad mix sidx m k v) = true) by (apply Hit; exact Ev).
        destruct (Hd Ht) as [Hd' _].
        split; [exact S'|split; [reflexivity|split; [|split]]].
        * intros k'. rewrite Hd'. unfold del_abs. destruct (N.eqb_spec k' k) as [->|]; [|reflexivity].
          rewrite Ev. simpl. rewrite E. reflexivity.
        * intros k' Hne. rewrite Hd'. unfold del_abs. destruct (N.eqb_spec k' k); [contradiction|reflexivity].
        * right. split; [|exists v; auto]. rewrite Hd'. unfold del_abs. rewrite N.eqb_refl. reflexivity.
      + split; [exact S|split; [reflexivity|split; [reflexivity|split; [reflexivity|left; exact Ev]]]].
    - split; [exact S|split; [reflexivity|split; [reflexivity|split; [reflexivity|left; exact Ev]]]].
  Qed.
End WrapRuns.

(* ---- the translated expiry test (Gen.C16 go_CacheEntry_IsExpired, clock = parameter) ---- *)
Lemma gen_is_expired now e :
  go_CacheEntry_IsExpired now e =
  expired_model (T_CacheEntry_stored e) (T_CacheEntry_ttl e) (T_CacheEntry_cutUntil e) now.
Proof.
  unfold go_CacheEntry_IsExpired, go_CacheEntry_remaining, expired_model, remaining_model.
  destruct (Z.eqb_spec (T_CacheEntry_cutUntil e) 0) as [E|E]; simpl; [reflexivity|].
  destruct (Z.ltb_spec (T_CacheEntry_cutUntil e - now) (T_CacheEntry_ttl e - (now - T_CacheEntry_stored e)))%Z;
    f_equal; lia.
Qed.
(* time only runs out: an entry found expired stays expired *)
Lemma expired_model_mono stored ttl cut t t' : (t <= t')%Z ->
  expired_model stored ttl cut t = true -> expired_model stored ttl cut t' = true.
Proof.
  unfold expired_model, remaining_model. intros H. rewrite !Z.leb_le.
  destruct (Z.eqb cut 0); lia.
Qed.
Lemma is_expired_mono e t t' : (t <= t')%Z ->
  go_CacheEntry_IsExpired t e = true -> go_CacheEntry_IsExpired t' e = true.
Proof. rewrite !gen_is_expired. apply expired_model_mono. Qed.

Section WrapClock.
  Variable mix : N -> N.
  Variable sidx : nat -> N -> nat.
  Variable eoff : N -> Z.
  Variable rescan : bool.
  Hypothesis sidx_lt : forall n k, 0 < n -> sidx n k < n.
  Variable ent : N -> T_CacheEntry.       (* identity -> the entry (stored / ttl / cutUntil never change) *)
  Variable tend : Z.                       (* an instant no call of the run reads the clock after *)

  (* Wrapper programs whose clean-ups test expiry with the CODE's IsExpired at instants up to
     [tend] are wrapper programs for the fixed predicate "expired at tend" — so the schedule
     theorem holds with the translated predicate in the place of [expired]. *)
  Theorem wrappers_linearize_clock m0 progs sched : SWF mix sidx m0 ->
    (forall p c, In p progs -> In c p -> wshape c = true /\
       forall k old, c = CCad k old -> exists t, (t <= tend)%Z /\ go_CacheEntry_IsExpired t (ent old) = true) ->
    let ex := expired_at ent tend in
    let r := run_log mix sidx eoff rescan (init m0 progs) sched in
    let W := wview ex (sabs sidx m0) (snd r) in
    legal (fun k => fresh ex (sabs sidx m0 k)) W = true /\
    (forall k, fresh ex (sabs sidx (c_map (fst r)) k) = reg W k (fresh ex (sabs sidx m0 k))) /\
    (forall l1 t k old l2, snd r = l1 ++ LCad t k old true :: l2 ->
       go_CacheEntry_IsExpired tend (ent old) = true /\ reg l1 k (sabs sidx m0 k) = Some old).
  Proof.
    intros S H. apply (wrappers_linearize mix sidx eoff rescan (expired_at ent tend) sidx_lt m0 progs sched S).
    intros p Hp. apply forallb_forall. intros c Hc. destruct (H p c Hp Hc) as [Sh Ex].
    destruct c; simpl in Sh; try discriminate; simpl; auto.
    destruct (Ex k old eq_refl) as [t [Ht Et]]. unfold expired_at. apply (is_expired_mono _ t tend Ht Et).
  Qed.
End WrapClock.
