(* C16 — the float64 expressions of the table (srcgen refuses float64):
     grow / NewUInt64Map :  growAt = int(float64(len) * 0.75)
     NewUInt64Map        :  capacity = int(float64(capacity) / 0.75)
   The model computes them as exact rationals (mul_load / div_load with the ratio
   srcgen reads from the source, 0.75 = 3/4).  Here the IEEE binary64 product is
   computed with Coq's primitive floats (the kernel's binary64, no axiom involved in
   evaluating them) for EVERY table length the code can have — lengths are powers of
   two (WF), 2^3 .. 2^61 — and equals the float of the model's integer.  Trusted:
   float64(n) and int(f) are exact for integers below 2^53 that binary64 represents
   (3 * 2^(p-2) is one), and 0.75 in the Go source is the correctly rounded 3/4. *)
From Coq Require Import Floats Uint63.
From Sdns Require Import Common.Base Gen.C16 C16.Model.
Open Scope nat_scope.

Definition Z2F (z : Z) : float := PrimFloat.of_uint63 (Uint63.of_Z z).
Definition ld_float (ld : Z * Z) : float := PrimFloat.div (Z2F (fst ld)) (Z2F (snd ld)).
(* float64(n) * c  ==  float64(model's integer) *)
Definition float_mul_ok (ld : Z * Z) (n : Z) : bool :=
  PrimFloat.eqb (PrimFloat.mul (Z2F n) (ld_float ld)) (Z2F (mul_load ld n)).
(* int(float64(c) / r) == model's integer: the quotient lies in [q, q+1) *)
Definition float_div_ok (ld : Z * Z) (c : Z) : bool :=
  let q := PrimFloat.div (Z2F c) (ld_float ld) in
  PrimFloat.leb (Z2F (div_load ld c)) q && PrimFloat.ltb q (Z2F (div_load ld c + 1)).

Definition pow2s : list nat := seq 3 59.     (* 3 .. 61 *)
Lemma float_growAt_sweep :
  forallb (fun p => float_mul_ok load_grow_mul (2 ^ Z.of_nat p) && float_mul_ok load_new_mul (2 ^ Z.of_nat p)) pow2s = true.
Proof. vm_compute. reflexivity. Qed.

(* for every table length the code can have, both float products are the model's growAt *)
Lemma float_growAt_all p : 3 <= p <= 61 ->
  float_mul_ok load_grow_mul (2 ^ Z.of_nat p) = true /\ float_mul_ok load_new_mul (2 ^ Z.of_nat p) = true.
Proof.
  intros Hp. pose proof (proj1 (forallb_forall _ _) float_growAt_sweep p) as H.
  assert (Hin : In p pow2s) by (unfold pow2s; apply in_seq; lia).
  apply H in Hin. apply andb_true_iff in Hin. exact Hin.
Qed.
(* and the model's growAt there is the integer expression 3 * len / 4 = 3 * 2^(p-2) *)
Lemma growAt_integer p : 2 <= p -> mul_load load_grow_mul (2 ^ Z.of_nat p) = (3 * 2 ^ (Z.of_nat p - 2))%Z.
Proof.
  intros Hp. unfold mul_load, load_grow_mul. simpl fst. simpl snd.
  replace (2 ^ Z.of_nat p)%Z with (2 ^ (Z.of_nat p - 2) * 4)%Z.
  - rewrite <- Z.mul_assoc, (Z.mul_comm 4 3), Z.mul_assoc, Z.div_mul by lia. lia.
  - change 4%Z with (2 ^ 2)%Z. rewrite <- Z.pow_add_r by lia. f_equal. lia.
Qed.

(* the capacity division: every requested capacity up to 2^16, and around every
   boundary 3 * 2^k / 4 up to 2^31 (a sample — NOT every capacity; the drivers compare
   len(data) and growAt of NewUInt64Map with the model in every history as well) *)
Definition cap_samples : list Z :=
  map Z.of_nat (seq 0 4100) ++
  flat_map (fun k => let b := (3 * 2 ^ Z.of_nat k / 4)%Z in [b - 2; b - 1; b; b + 1; b + 2; 2 ^ Z.of_nat k - 1; 2 ^ Z.of_nat k; 2 ^ Z.of_nat k + 1]%Z) (seq 4 28).
Lemma float_capacity_sampled : forallb (float_div_ok load_new_div) cap_samples = true.
Proof. vm_compute. reflexivity. Qed.
