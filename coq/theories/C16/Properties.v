(* C16 — Bounded concurrent tables behave as maps and stay within capacity.
   Property theorems only; proofs are in Proofs_*.v.

   All theorems quantify over the slot hash [mix], the segment selector [sidx]
   (with sidx n k < n) and the eviction offset [eoff]: they hold for every hash,
   so forced collisions, clustered and sequential keys are all covered.

   Status
     proved   : wf_preserved, refines_map, history_refines_map,
                distinct_keys_never_alias, delete_keeps_others,
                backward_shift_keeps_chains, evict_exactly_min_others,
                cas_only_on_identity, compare_delete_only_on_identity,
                insert_never_evicts_own_key, capacity_respected_sequentially,
                overshoot_heals_sequentially, spill_loop_tie, translated_code_is_model,
                segment_len_is_reachable, clear_resets, count_eq_entries_at_quiescence,
                no_nested_locks, gen_grow_len_pow2_tie
                occupancy_bound_repaired (HEADLINE: every schedule, the loop the code
                has since 47c8f66: entries <= capacity + calls in flight),
                occupancy_bound (either loop: ... + fruitless full-ring scans not yet
                made up for), entries_le_counter_plus_inflight,
                foreach_no_duplicates (ForEach concurrent with writers),
                concurrent_runs_linearize + legal_history_is_a_map (the map clause under
                concurrency: the lock sections are linearization points of a finite map)
     partial  : none
     refuted  : occupancy_bound_refuted — a regression lemma about the OLD spill loop
                (rescan = false) only; finding swc-sparse-scan-race is fixed
     (count_eq_entries_at_quiescence now covers Clear: the defect clear-count-race
      was fixed in /repo by aae41ee and the model follows the repaired code) *)
From Sdns Require Import Common.Base Common.GoList Gen.C16 C16.Model C16.Conc C16.Limiter C16.Lin C16.Run.
From Sdns Require Import C16.Proofs_cyc C16.Proofs_tab C16.Proofs_wf C16.Proofs_more C16.Proofs_seg C16.Proofs_hist C16.Proofs_conc C16.Proofs_evict C16.Proofs_cap C16.Proofs_gen C16.Proofs_lim C16.Proofs_float C16.Proofs_lin C16.Wrap C16.Proofs_wrap.
Open Scope nat_scope.

(* 1. The table invariant (power-of-two length >= 8, no key twice, every probe
      chain gap-free, size = occupied slots + zero key, occupied <= growAt < len,
      model inside its faithful envelope) holds initially and after every operation. *)
Theorem wf_preserved : forall mix : N -> N,
  (forall cap, WF mix (new_table cap)) /\
  forall t, WF mix t ->
    (forall k v, WF mix (tput mix t k v)) /\
    (forall k v, WF mix (fst (fst (tpia mix t k v)))) /\
    (forall k, WF mix (fst (tdel mix t k))) /\
    (forall off n skip, WF mix (fst (tevict mix t off n skip))) /\
    WF mix (tgrow mix t) /\ WF mix (tclear t).
Proof. exact Proofs_hist.wf_preserved. Qed.
Print Assumptions wf_preserved.

(* 2. Every operation commutes with the finite-map specification through
      abs : table -> key -> option value. *)
Theorem refines_map : forall (mix : N -> N) t o, WF mix t ->
  WF mix (fst (run_op mix t o)) /\
  spec_op (abs t) o (snd (run_op mix t o)) (abs (fst (run_op mix t o))).
Proof. exact step_refines. Qed.
Print Assumptions refines_map.

(* 3. Hence every history on a fresh table gives the answers of a finite map. *)
Theorem history_refines_map : forall (mix : N -> N) cap ops,
  trace_ok mix (new_table cap) ops /\ aeq (abs (new_table cap)) aempty.
Proof. exact history_refines_from_new. Qed.
Print Assumptions history_refines_map.

(* 4. Distinct keys (zero included) never alias. *)
Theorem distinct_keys_never_alias : forall (mix : N -> N) t k k' v, WF mix t -> k' <> k ->
  tget mix (tput mix t k v) k' = tget mix t k' /\
  tget mix (fst (tdel mix t k)) k' = tget mix t k' /\
  tget mix (tput mix t k v) k = Some v.
Proof. exact Proofs_hist.distinct_keys_never_alias. Qed.
Print Assumptions distinct_keys_never_alias.

(* 5. Removal never makes another key unreachable, duplicated or miscounted. *)
Theorem delete_keeps_others : forall (mix : N -> N) t k, WF mix t ->
  let t' := fst (tdel mix t k) in
  WF mix t' /\
  (forall k', k' <> k -> tget mix t' k' = tget mix t k') /\ tget mix t' k = None /\
  NoDup (map fst (tall t')) /\
  tlen t' = Z.of_nat (length (tall t')) /\
  tlen t' = (tlen t - (if present (abs t) k then 1 else 0))%Z.
Proof. exact Proofs_hist.delete_keeps_others. Qed.
Print Assumptions delete_keeps_others.

(* 6. The heart: clearing slot j and running backwardShiftDelete terminates
      within len iterations, keeps keys unique and every probe chain intact, and
      removes exactly that entry. *)
Theorem backward_shift_keeps_chains : forall (mix : N -> N) d j,
  Uq d -> Ch mix d -> j < length d -> skey d j <> 0%N -> occ d + 1 <= length d ->
  exists d', bshift mix (length d) (upd j empty_slot d) (length d) j j = Some d' /\ length d' = length d /\
    Uq d' /\ Ch mix d' /\ occ d' + 1 = occ d /\
    (forall k v, k <> 0%N -> (has d' k v <-> has d k v /\ k <> skey d j)).
Proof. exact delete_ok. Qed.
Print Assumptions backward_shift_keeps_chains.

(* 7. EvictKeysAt(offset, n, skip) deletes exactly min(n, number of keys other
      than skip) entries, never [skip]; every other key keeps its value or is one
      of the deleted; Len goes down by that number. *)
Theorem evict_exactly_min_others : forall (mix : N -> N) t offset nmax skip, WF mix t ->
  let r := tevict mix t offset nmax skip in
  WF mix (fst r) /\
  snd r = Z.max 0 (Z.min nmax (t_size t - (if present (abs t) skip then 1 else 0))) /\
  t_size (fst r) = (t_size t - snd r)%Z /\
  shrinks (abs t) (abs (fst r)) /\ abs (fst r) skip = abs t skip.
Proof. exact tevict_full. Qed.
Print Assumptions evict_exactly_min_others.

(* 8. CompareAndSwap / CompareAndDelete act exactly when the identical current value is present. *)
Theorem cas_only_on_identity : forall (mix : N -> N) (sidx : nat -> N -> nat),
  (forall n k, 0 < n -> sidx n k < n) ->
  forall m k old v, SWF mix sidx m ->
  let r := c_cas mix sidx m k old v in
  SWF mix sidx (fst r) /\ nsegs (fst r) = nsegs m /\ sm_count (fst r) = sm_count m /\
  (snd r = true <-> sabs sidx m k = Some old) /\
  (snd r = true -> forall k', sabs sidx (fst r) k' = upd_abs (sabs sidx m) k v k') /\
  (snd r = false -> fst r = m).
Proof. exact Proofs_seg.cas_only_on_identity. Qed.
Print Assumptions cas_only_on_identity.

Theorem compare_delete_only_on_identity : forall (mix : N -> N) (sidx : nat -> N -> nat),
  (forall n k, 0 < n -> sidx n k < n) ->
  forall m k old, SWF mix sidx m ->
  let r := c_cad mix sidx m k old in
  SWF mix sidx (fst r) /\ nsegs (fst r) = nsegs m /\
  (snd r = true <-> sabs sidx m k = Some old) /\
  (snd r = true -> (forall k', sabs sidx (fst r) k' = del_abs (sabs sidx m) k k') /\ sm_count (fst r) = (sm_count m - 1)%Z) /\
  (snd r = false -> fst r = m).
Proof. exact Proofs_seg.compare_delete_only_on_identity. Qed.
Print Assumptions compare_delete_only_on_identity.

(* 9. SetWithCap / Cache.Add never evicts the key it writes; other keys are
      untouched or evicted; the segment invariant (counter = entries) is kept. *)
Theorem insert_never_evicts_own_key : forall (mix : N -> N) (sidx : nat -> N -> nat),
  (forall n k, 0 < n -> sidx n k < n) ->
  forall (eoff : N -> Z) m k v cap, SWF mix sidx m ->
  let m' := sm_set_with_cap mix sidx eoff m k v cap in
  SWF mix sidx m' /\ nsegs m' = nsegs m /\ sabs sidx m' k = Some v /\
  shrinks (upd_abs (sabs sidx m) k v) (sabs sidx m').
Proof. exact Proofs_seg.insert_never_evicts_own_key. Qed.
Print Assumptions insert_never_evicts_own_key.

(* 9b. Capacity, calls run to completion: a map within its capacity (>= 1) is
       within it again after SetWithCap / Cache.Add. *)
Theorem capacity_respected_sequentially : forall (mix : N -> N) (sidx : nat -> N -> nat) (eoff : N -> Z),
  (forall n k, 0 < n -> sidx n k < n) ->
  forall m k v cap, SWF mix sidx m -> (1 <= cap)%Z -> (sm_count m <= cap)%Z ->
  (sm_count (sm_set_with_cap mix sidx eoff m k v cap) <= cap)%Z.
Proof. exact swc_within_capacity. Qed.
Print Assumptions capacity_respected_sequentially.

(* 9b'. Over capacity — however that came about (the overlap race of finding
        swc-sparse-scan-race, a capacity lowered at run time) — calls that run to
        completion heal it: every SetWithCap / Cache.Add takes the counter down by at
        least one until it is within the capacity, where it stays (9b is the case
        sm_count m <= cap).  In particular the first round of the spill loop never
        ends empty-handed over capacity when nothing else runs, so the sequential
        model is the same for both spill loops. *)
Theorem overshoot_heals_sequentially : forall (mix : N -> N) (sidx : nat -> N -> nat) (eoff : N -> Z),
  (forall n k, 0 < n -> sidx n k < n) ->
  forall m k v cap, SWF mix sidx m -> (1 <= cap)%Z ->
  (sm_count (sm_set_with_cap mix sidx eoff m k v cap) <= Z.max cap (sm_count m - 1))%Z.
Proof. exact swc_heals. Qed.
Print Assumptions overshoot_heals_sequentially.

(* 9c. Clear empties the map and the counter. *)
Theorem clear_resets : forall (mix : N -> N) (sidx : nat -> N -> nat),
  (forall n k, 0 < n -> sidx n k < n) ->
  forall m, SWF mix sidx m ->
  SWF mix sidx (sm_clear m) /\ nsegs (sm_clear m) = nsegs m /\ sm_count (sm_clear m) = 0%Z /\
  forall k, sabs sidx (sm_clear m) k = None.
Proof. exact sm_clear_spec. Qed.
Print Assumptions clear_resets.

(* 10. Len() = number of entries ForEach yields = number of reachable keys. *)
Theorem segment_len_is_reachable : forall (mix : N -> N) (sidx : nat -> N -> nat),
  (forall n k, 0 < n -> sidx n k < n) ->
  forall m, SWF mix sidx m ->
  sm_len m = Z.of_nat (length (sm_all m)) /\
  forall k v, In (k, v) (sm_all m) <-> sabs sidx m k = Some v.
Proof. exact sm_len_all. Qed.
Print Assumptions segment_len_is_reachable.

(* 11. Concurrency, for every schedule of the atomic steps of any number of
       threads running SetWithCap/Set/PutIfNotExists/Del/CAS/CompareAndDelete/Clear
       (Clear as repaired by aae41ee: per-segment subtraction under the lock):
       once all calls have returned, Len() equals the number of reachable entries. *)
Theorem count_eq_entries_at_quiescence : forall (mix : N -> N) (sidx : nat -> N -> nat) (eoff : N -> Z) (rescan : bool),
  (forall n k, 0 < n -> sidx n k < n) ->
  forall m0 progs sched,
  SWF mix sidx m0 ->
  let s := run mix sidx eoff rescan (init m0 progs) sched in
  quiescent s = true ->
  SWF mix sidx (c_map s) /\ sm_len (c_map s) = entries s /\
  sm_len (c_map s) = Z.of_nat (length (sm_all (c_map s))) /\
  forall k v, In (k, v) (sm_all (c_map s)) <-> sabs sidx (c_map s) k = Some v.
Proof. exact Proofs_conc.count_eq_entries_at_quiescence. Qed.
Print Assumptions count_eq_entries_at_quiescence.

(* Every concurrent theorem below holds for both spill loops of the model
   (rescan = true: the loop of /repo since 47c8f66; rescan = false: the loop before,
   kept for the regression lemmas).

   12. Capacity under concurrency — the property's clause, as stated.  For every
       schedule of any number of threads using the cache.Cache operations
       (SetWithCap with one capacity >= 1, Del, CAS, CompareAndDelete, Clear, Get,
       ForEach) from a map within its capacity, with the spill loop the code has
       (a writer that has been round the ring without evicting anything while the
       counter is above the capacity goes round again, own segment included):
         entries <= capacity + calls in flight. *)
Theorem occupancy_bound_repaired : forall (mix : N -> N) (sidx : nat -> N -> nat) (eoff : N -> Z),
  (forall n k, 0 < n -> sidx n k < n) ->
  forall cap m0 progs sched, (1 <= cap)%Z ->
  SWF mix sidx m0 -> (sm_count m0 <= cap)%Z ->
  (forall p, In p progs -> forall c, In c p -> capped cap c) ->
  let s := run mix sidx eoff true (init m0 progs) sched in
  (entries s <= cap + inside s)%Z.
Proof. intros mix sidx eoff H cap m0 progs sched Hc. exact (Proofs_conc.occupancy_bound_repaired mix sidx eoff true H cap m0 progs sched eq_refl Hc). Qed.
Print Assumptions occupancy_bound_repaired.

(* The loop /repo has IS the rescanning one (read from the text of SetWithCap's for
   condition on every run), so the bound holds for the code's own hash functions as
   stated.  Reverting 47c8f66 — or rewording the condition — breaks this. *)
Theorem spill_loop_tie :
  spill_cond_src = [spill_cond_rescan] /\ go_rescan = true /\
  (forall cap progs sched, (1 <= cap)%Z ->
     (forall p, In p progs -> forall c, In c p -> capped cap c) ->
     let s := c_run_src (init (new_segmap 4 0) progs) sched in (entries s <= cap + inside s)%Z).
Proof.
  assert (R : go_rescan = true) by (vm_compute; reflexivity).
  split; [vm_compute; reflexivity|]. split; [exact R|].
  intros cap progs sched Hc Hp. unfold c_run_src. rewrite R.
  apply (Proofs_conc.occupancy_bound_repaired go_mix go_sidx go_eoff true go_sidx_lt cap _ progs sched eq_refl Hc); auto.
  - apply (new_segmap_SWF go_mix go_sidx go_sidx_lt 4%Z 0%Z).
  - vm_compute. destruct cap; try discriminate; lia.
Qed.
Print Assumptions spill_loop_tie.

(* 12a. What holds for either loop, hence what was true of the code before 47c8f66:
         entries <= capacity + calls in flight + c_exh
       where the ghost counter c_exh (Conc.v) is the number of SetWithCap calls that
       have returned because their spill loop ran through the whole ring although
       they had evicted nothing, and that nothing has made up for yet:
         +1  at such a return (never taken by the rescanning loop with capacity >= 1);
         -1  (not below 0) for every entry removed beyond an over-capacity insert's
             first eviction: the second eviction of an insert's toll, a Remove /
             CompareAndDelete that hits, every entry dropped by Clear;
         =0  again whenever a SetWithCap call loads the counter and finds it within
             the capacity.
       Where no fruitless scan occurs the property's statement holds (third conjunct). *)
Theorem occupancy_bound : forall (mix : N -> N) (sidx : nat -> N -> nat) (eoff : N -> Z) (rescan : bool),
  (forall n k, 0 < n -> sidx n k < n) ->
  forall cap m0 progs sched,
  SWF mix sidx m0 -> (sm_count m0 <= cap)%Z ->
  (forall p, In p progs -> forall c, In c p -> capped cap c) ->
  let s := run mix sidx eoff rescan (init m0 progs) sched in
  (entries s <= cap + inside s + c_exh s)%Z /\ (0 <= c_exh s)%Z /\
  (c_exh s = 0%Z -> entries s <= cap + inside s)%Z.
Proof. exact Proofs_conc.occupancy_bound. Qed.
Print Assumptions occupancy_bound.

(* Regression lemma about the OLD loop (rescan = false; finding swc-sparse-scan-race,
   fixed by 47c8f66): without the second round the bound fails — three overlapping
   inserts at capacity 1 end with two entries, nobody in flight, c_exh > 0.  The same
   schedule against the loop the code has now ends with one entry (ex_occ below; the
   seg driver replays it on the Go code, strictly). *)
Theorem occupancy_bound_refuted :
  exists progs sched, only_swc_cap 1 progs /\
    let s := c_run (init (new_segmap 4 0) progs) sched in
    quiescent s = true /\ (entries s > 1 + inside s)%Z /\ (0 < c_exh s)%Z.
Proof. exact occupancy_bound_refuted_lemma. Qed.
Print Assumptions occupancy_bound_refuted.

(* In every reachable state (any calls, Set and PutIfNotExists included) the entries
   exceed the counter by at most the number of calls in flight. *)
Theorem entries_le_counter_plus_inflight : forall (mix : N -> N) (sidx : nat -> N -> nat) (eoff : N -> Z) (rescan : bool),
  (forall n k, 0 < n -> sidx n k < n) ->
  forall m0 progs sched,
  SWF mix sidx m0 ->
  let s := run mix sidx eoff rescan (init m0 progs) sched in
  (entries s <= sm_count (c_map s) + inside s)%Z.
Proof. exact Proofs_conc.occupancy_bound_partial. Qed.
Print Assumptions entries_le_counter_plus_inflight.

(* 12b. ForEach concurrent with writers (one segment at a time, not a snapshot)
        never yields a key twice. *)
Theorem foreach_no_duplicates : forall (mix : N -> N) (sidx : nat -> N -> nat) (eoff : N -> Z) (rescan : bool),
  (forall n k, 0 < n -> sidx n k < n) ->
  forall m0 progs sched,
  SWF mix sidx m0 ->
  let s := run mix sidx eoff rescan (init m0 progs) sched in
  forall tid l, In (tid, ObAll l) (c_obs s) -> NoDup (map fst l).
Proof. exact Proofs_conc.foreach_no_duplicates. Qed.
Print Assumptions foreach_no_duplicates.

(* 12c. The map clause of the property for ALL interleavings of concurrent readers and
        writers.  Lin.v reads every lock section of the interleaving model that touches a
        segment's table as one operation on the whole map, with the result the Go call
        returns (run_log = the run of Conc.v plus the operations in the order they
        happened).  For every schedule of any number of threads running
        SetWithCap/Set/PutIfNotExists/Del/CompareAndSwap/CompareAndDelete/Clear/Get/ForEach,
        either spill loop: that sequence is a LEGAL history of the sequential finite-map
        specification [legal] starting from the initial content, and the segment tables
        hold exactly what the history leaves ([reg]) — the lock sections are linearization
        points.  What [legal] means is spelled out by the second theorem. *)
Theorem concurrent_runs_linearize : forall (mix : N -> N) (sidx : nat -> N -> nat) (eoff : N -> Z) (rescan : bool),
  (forall n k, 0 < n -> sidx n k < n) ->
  forall m0 progs sched, SWF mix sidx m0 ->
  let r := run_log mix sidx eoff rescan (init m0 progs) sched in
  fst r = run mix sidx eoff rescan (init m0 progs) sched /\
  legal (sabs sidx m0) (snd r) = true /\
  forall k, sabs sidx (c_map (fst r)) k = reg (snd r) k (sabs sidx m0 k).
Proof. exact Proofs_lin.runs_linearize. Qed.
Print Assumptions concurrent_runs_linearize.

(* In a legal history (l1 = everything before the operation in question; reg l1 k = the
   value most recently stored under k by l1 unless a later operation of l1 removed or
   evicted it; distinct keys are distinct registers, zero included):
   a Get yields exactly that value; every entry a ForEach segment yields is current;
   an insert's eviction takes only present keys and never the key it is writing;
   CompareAndSwap / CompareAndDelete hit iff the identical value is current. *)
Theorem legal_history_is_a_map : forall (val : N -> option N) l1 l2,
  (forall tid k r, legal val (l1 ++ LGet tid k r :: l2) = true -> r = reg l1 k (val k)) /\
  (forall tid l k v, legal val (l1 ++ LScan tid l :: l2) = true -> In (k, v) l -> reg l1 k (val k) = Some v) /\
  (forall tid own ks, legal val (l1 ++ LEvict tid own ks :: l2) = true ->
     ~ In own ks /\ forall g, In g ks -> reg l1 g (val g) <> None) /\
  (forall tid k old v hit, legal val (l1 ++ LCas tid k old v hit :: l2) = true ->
     (hit = true <-> reg l1 k (val k) = Some old)) /\
  (forall tid k old hit, legal val (l1 ++ LCad tid k old hit :: l2) = true ->
     (hit = true <-> reg l1 k (val k) = Some old)).
Proof. exact Proofs_lin.legal_reading. Qed.
Print Assumptions legal_history_is_a_map.

(* a run with the code's own hashes: thread 1 reads value 1 under key 5, thread 2 stores
   value 2 over it, thread 1's CompareAndDelete(5, 1) then misses — the stale reader does
   not delete the fresh value (the reason positive_cache.go / negative_cache.go use it) *)
Definition lin_progs : list (list call) := [[CSwc 5 1 10]; [CGet 5; CCad 5 1]; [CSwc 5 2 10]].
Definition lin_sched : list nat := repeat 0 10 ++ [1; 1] ++ repeat 2 10 ++ repeat 1 10.
Example ex_lin :
  let r := run_log go_mix go_sidx go_eoff true (init (new_segmap 4 0) lin_progs) lin_sched in
  snd r = [LStore 0 5 1; LGet 1 5 (Some 1%N); LStore 2 5 2; LCad 1 5 1 false] /\
  quiescent (fst r) = true /\ legal (fun _ => None) (snd r) = true /\ reg (snd r) 5 None = Some 2%N.
Proof. vm_compute. repeat split; reflexivity. Qed.
(* the linearization search of Run.v (CaseLin) accepts a concurrent history that has a legal
   order and rejects the classical anomalies: stale read after a completed overwrite,
   CompareAndSwap success against a value that was not current, lost delete, two
   CompareAndSwaps winning against one value, a value surfacing under another key *)
Example ex_linearizable :
  linearizable [mk_hop (LStore 0 7 70) 1 4; mk_hop (LGet 1 7 None) 2 3; mk_hop (LGet 1 7 (Some 70%N)) 5 6;
                mk_hop (LCas 0 7 70 80 true) 7 10; mk_hop (LGet 1 7 (Some 80%N)) 8 9; mk_hop (LCad 2 7 70 false) 11 12] = true /\
  map linearizable
    [[mk_hop (LStore 0 7 70) 1 2; mk_hop (LStore 1 7 80) 3 4; mk_hop (LGet 2 7 (Some 70%N)) 5 6];
     [mk_hop (LStore 0 7 70) 1 2; mk_hop (LStore 1 7 80) 3 4; mk_hop (LCas 2 7 70 90 true) 5 6];
     [mk_hop (LStore 0 7 70) 1 2; mk_hop (LRem 1 7) 3 4; mk_hop (LGet 2 7 (Some 70%N)) 5 6];
     [mk_hop (LStore 0 7 70) 1 2; mk_hop (LCas 1 7 70 80 true) 3 6; mk_hop (LCas 2 7 70 90 true) 4 5];
     [mk_hop (LStore 0 7 70) 1 2; mk_hop (LGet 1 8 (Some 70%N)) 3 4]] = [false; false; false; false; false].
Proof. vm_compute. split; reflexivity. Qed.

(* 12c. The expiring wrappers of the answer cache (middleware/cache PositiveCache /
        NegativeCache, Wrap.v): Get = cache.Get, then CompareAndDelete(key, the entry read)
        when that entry had expired; Set = Add; Remove = Remove.  For EVERY schedule of any
        number of threads whose programs are wrapper calls (Add / Get / Remove, and
        CompareAndDelete(k, old) for any expired old — a superset of what the result-dependent
        wrapper can do), any hash / selector / offset, either spill loop:
        the history the wrappers' callers see ([wview]: a store of an expired entry is a
        removal, a read yields the fresh part of what it saw, the clean-up is no operation)
        is a legal history of the finite-map specification on the fresh view of the initial
        content, the fresh part of the final tables is what that history leaves, and every
        clean-up that hit removed exactly the expired entry that was current at that moment —
        an entry stored after the reader looked is never taken by it.  Together with
        legal_history_is_a_map: a wrapper Get yields the entry most recently Set under its key
        unless it expired, was removed or evicted, under every interleaving. *)
Theorem wrappers_are_a_map_of_fresh_entries :
  forall (mix : N -> N) (sidx : nat -> N -> nat) (eoff : N -> Z) (rescan : bool) (expired : N -> bool),
  (forall n k, 0 < n -> sidx n k < n) ->
  forall m0 progs sched, SWF mix sidx m0 ->
  (forall p, In p progs -> forallb (wcall expired) p = true) ->
  let r := run_log mix sidx eoff rescan (init m0 progs) sched in
  let W := wview expired (sabs sidx m0) (snd r) in
  legal (fun k => fresh expired (sabs sidx m0 k)) W = true /\
  (forall k, fresh expired (sabs sidx (c_map (fst r)) k) = reg W k (fresh expired (sabs sidx m0 k))) /\
  (forall l1 t k old l2, snd r = l1 ++ LCad t k old true :: l2 ->
     expired old = true /\ reg l1 k (sabs sidx m0 k) = Some old).
Proof. exact Proofs_wrap.wrappers_linearize. Qed.
Print Assumptions wrappers_are_a_map_of_fresh_entries.

(* 12d. Calls that run to completion: a wrapper Get yields the fresh part of the stored
        entry, keeps the segment invariant (Len = entries), changes no other key and removes
        under its own key at most the expired entry it saw. *)
Theorem wrapper_get_cleans_only_expired :
  forall (mix : N -> N) (sidx : nat -> N -> nat) (expired : N -> bool),
  (forall n k, 0 < n -> sidx n k < n) ->
  forall m k, SWF mix sidx m ->
  let r := w_get expired mix sidx m k in
  SWF mix sidx (fst r) /\ snd r = fresh expired (sabs sidx m k) /\
  (forall k', fresh expired (sabs sidx (fst r) k') = fresh expired (sabs sidx m k')) /\
  (forall k', k' <> k -> sabs sidx (fst r) k' = sabs sidx m k') /\
  (sabs sidx (fst r) k = sabs sidx m k \/
   (sabs sidx (fst r) k = None /\ exists v, sabs sidx m k = Some v /\ expired v = true)).
Proof. exact Proofs_wrap.wrapper_get_seq. Qed.
Print Assumptions wrapper_get_cleans_only_expired.

(* the code's own hashes, entry 1 expired: thread 1's wrapper Get reads it, thread 2 Sets the
   fresh entry 2, thread 1's clean-up then misses; thread 3's wrapper Get on key 9 finds the
   expired entry 1 there and its clean-up hits.  The callers' view: nothing stored (the
   expired Sets are removals), both reads miss, then 5 -> 2; the fresh entry survives. *)
Definition wrap_expired (v : N) : bool := N.eqb v 1.
Definition wrap_progs : list (list call) :=
  [[CSwc 5 1 10; CSwc 9 1 10]; [CGet 5; CCad 5 1]; [CSwc 5 2 10]; [CGet 9; CCad 9 1]].
Definition wrap_sched : list nat := repeat 0 20 ++ [1; 1] ++ repeat 2 10 ++ repeat 1 10 ++ repeat 3 10.
Example ex_wrap :
  let r := run_log go_mix go_sidx go_eoff true (init (new_segmap 4 0) wrap_progs) wrap_sched in
  forallb (forallb (wcall wrap_expired)) wrap_progs = true /\ quiescent (fst r) = true /\
  snd r = [LStore 0 5 1; LStore 0 9 1; LGet 1 5 (Some 1%N); LStore 2 5 2; LCad 1 5 1 false;
           LGet 3 9 (Some 1%N); LCad 3 9 1 true] /\
  wview wrap_expired (fun _ => None) (snd r) = [LRem 0 5; LRem 0 9; LGet 1 5 None; LStore 2 5 2; LGet 3 9 None] /\
  reg (snd r) 5 None = Some 2%N /\ reg (snd r) 9 None = None.
Proof. vm_compute. repeat split; reflexivity. Qed.
(* the search of Run.v on wrapper histories (CaseWLin): a reader that found an expired entry
   while a fresh one was being stored is fine; a fresh entry that is gone after both returned
   (what an unconditional Remove in the clean-up does) has no linearization *)
Example ex_wlin :
  map (fun ops => linearizable (map (wview_hop wrap_expired) ops))
    [[mk_hop (LStore 0 7 1) 1 2; mk_hop (LGet 1 7 None) 3 8; mk_hop (LStore 2 7 20) 4 5; mk_hop (LGet 3 7 (Some 20%N)) 9 10];
     [mk_hop (LStore 0 7 1) 1 2; mk_hop (LGet 1 7 None) 3 8; mk_hop (LStore 2 7 20) 4 5; mk_hop (LGet 3 7 None) 9 10];
     [mk_hop (LStore 0 7 1) 1 2; mk_hop (LGet 1 7 (Some 1%N)) 3 4]] = [true; false; false].
Proof. vm_compute. reflexivity. Qed.

(* 12e. Expiry as the code computes it.  srcgen's translation of CacheEntry.IsExpired (with
        CacheEntry.remaining; the clock is the parameter [now], every reading inside one call
        sees the same instant) is the model's [expired_model] of the entry's stored / ttl /
        cutUntil, and it is monotone in the clock: an entry found expired stays expired. *)
Theorem translated_expiry_is_model : forall now e,
  go_CacheEntry_IsExpired now e =
    expired_model (T_CacheEntry_stored e) (T_CacheEntry_ttl e) (T_CacheEntry_cutUntil e) now /\
  forall t', (now <= t')%Z -> go_CacheEntry_IsExpired now e = true -> go_CacheEntry_IsExpired t' e = true.
Proof. intros now e. split; [apply Proofs_wrap.gen_is_expired|intros t' H; apply Proofs_wrap.is_expired_mono; exact H]. Qed.
Print Assumptions translated_expiry_is_model.

(* 12f. wrappers_are_a_map_of_fresh_entries with the TRANSLATED predicate: [ent] gives the
        entry behind an identity (its stored / ttl / cutUntil never change), [tend] is an
        instant no call of the run reads the clock after.  Programs whose clean-ups
        CompareAndDelete only entries that the code's own IsExpired found expired at some
        instant t <= tend: for every schedule the callers' history, read through
        "expired at tend", is a legal history of the finite map, the fresh part of the tables
        is what it leaves, and a clean-up that hit removed exactly the entry that was current
        and that IsExpired says has expired.  (A hit on an entry that runs out later during
        the run reads as a miss in this view: the view is the coarsest one, at the end.) *)
Theorem wrappers_with_translated_expiry :
  forall (mix : N -> N) (sidx : nat -> N -> nat) (eoff : N -> Z) (rescan : bool),
  (forall n k, 0 < n -> sidx n k < n) ->
  forall (ent : N -> T_CacheEntry) (tend : Z) m0 progs sched, SWF mix sidx m0 ->
  (forall p c, In p progs -> In c p -> wshape c = true /\
     forall k old, c = CCad k old -> exists t, (t <= tend)%Z /\ go_CacheEntry_IsExpired t (ent old) = true) ->
  let ex := expired_at ent tend in
  let r := run_log mix sidx eoff rescan (init m0 progs) sched in
  let W := wview ex (sabs sidx m0) (snd r) in
  legal (fun k => fresh ex (sabs sidx m0 k)) W = true /\
  (forall k, fresh ex (sabs sidx (c_map (fst r)) k) = reg W k (fresh ex (sabs sidx m0 k))) /\
  (forall l1 t k old l2, snd r = l1 ++ LCad t k old true :: l2 ->
     go_CacheEntry_IsExpired tend (ent old) = true /\ reg l1 k (sabs sidx m0 k) = Some old).
Proof. exact Proofs_wrap.wrappers_linearize_clock. Qed.
Print Assumptions wrappers_with_translated_expiry.

(* entries as the code sees them (ns): entry 1 stored at 0 with ttl 10 s; entry 2 stored at
   8 s with ttl 1 h but cut at 9 s; at 5 s both are fresh, at 9 s entry 2 is cut off, at 10 s
   both have expired; the programs of ex_wrap are wrapper programs for the translated
   predicate at tend = 10 s when identity 1 is entry 1 and every other identity is fresh *)
Definition ex_entry (stored ttl cut : Z) : T_CacheEntry :=
  mk_T_CacheEntry [] [] 0 (mk_T_Question [] 0 0) false 0 false stored ttl 0 0 0 (mk_T_EDNS0_EDE 0 []) cut 0.
Definition ex_ent (v : N) : T_CacheEntry :=
  if N.eqb v 1 then ex_entry 0 10000000000 0 else ex_entry 8000000000 3600000000000 0.
Example ex_expiry :
  map (fun now => (go_CacheEntry_IsExpired now (ex_entry 0 10000000000 0),
                   go_CacheEntry_IsExpired now (ex_entry 8000000000 3600000000000 9000000000)))
      [5000000000; 9000000000; 9999999999; 10000000000]%Z
  = [(false, false); (false, true); (false, true); (true, true)] /\
  forallb (forallb (wcall (expired_at ex_ent 10000000000))) wrap_progs = true.
Proof. vm_compute. split; reflexivity. Qed.

(* the search of Run.v on recorded concurrent Gets of the limiter store (CaseLimC): two
   first-sight Gets of one key that overlap and agree are fine; two that hand out different
   limiters, a limiter handed out under two keys, and more keys than the store has room for
   (an eviction would be needed) are rejected *)
Example ex_limc :
  map (fun c => (check_case c, spec_case c))
    [CaseLimC 2 [Gop 2 7 1 1 2; Gop 0 9 2 3 6; Gop 1 9 2 4 5; Gop 3 9 2 7 8; Gop 3 7 1 9 10];
     CaseLimC 2 [Gop 2 7 1 1 2; Gop 0 9 2 3 6; Gop 1 9 3 4 5; Gop 3 9 3 7 8; Gop 3 7 1 9 10];
     CaseLimC 2 [Gop 0 7 1 1 2; Gop 1 9 1 3 4];
     CaseLimC 1 [Gop 0 7 1 1 2; Gop 1 9 2 3 4]]
  = [(true, true); (false, false); (false, false); (false, true)].
Proof. vm_compute. reflexivity. Qed.

(* 13. No writer waits on a lock while holding one; there are only per-segment locks. *)
Theorem no_nested_locks : forall (mix : N -> N) (sidx : nat -> N -> nat) (eoff : N -> Z) (rescan : bool),
  (forall n k, 0 < n -> sidx n k < n) ->
  forall m0 progs sched,
  let s := run mix sidx eoff rescan (init m0 progs) sched in
  (forall j1 j2 tid, nth j1 (c_locks s) None = Some tid -> nth j2 (c_locks s) None = Some tid -> j1 = j2) /\
  (forall n p, acquires p = true -> holds sidx n p = None).
Proof. exact Proofs_conc.no_nested_locks. Qed.
Print Assumptions no_nested_locks.

(* 14. Ties of the bit-level readings: the code's newLen is the model's double
       for every table length a Go int can hold; & mask is mod len. *)
Theorem gen_grow_len_pow2_tie : forall p, p < 62 -> go_grow_len (2 ^ N.of_nat p) = N.of_nat (grow_len (2 ^ p)).
Proof. exact gen_grow_len_pow2. Qed.
Print Assumptions gen_grow_len_pow2_tie.

(* 14a. The float64 expressions srcgen cannot translate: for every table length the code
        can have (2^p, 3 <= p <= 61) the IEEE binary64 product float64(len) * 0.75 (Coq's
        primitive floats, by computation over this finite domain) is the float of the
        model's growAt, which is the integer expression 3 * len / 4 = 3 * 2^(p-2): grow's and
        NewUInt64Map's growAt are tied by this, not by differential testing alone.  The
        capacity division int(float64(c) / 0.75) is checked on a sample only (second theorem). *)
Theorem float_growAt_is_integer_rule : forall p, 3 <= p <= 61 ->
  float_mul_ok load_grow_mul (2 ^ Z.of_nat p) = true /\ float_mul_ok load_new_mul (2 ^ Z.of_nat p) = true /\
  mul_load load_grow_mul (2 ^ Z.of_nat p) = (3 * 2 ^ (Z.of_nat p - 2))%Z.
Proof.
  intros p Hp. destruct (float_growAt_all p Hp) as [A B]. split; [exact A|]. split; [exact B|]. apply growAt_integer. lia.
Qed.
Print Assumptions float_growAt_is_integer_rule.
Theorem float_capacity_partial : forallb (float_div_ok load_new_div) cap_samples = true.
Proof. exact float_capacity_sampled. Qed.
Print Assumptions float_capacity_partial.
Example ex_float : float_mul_ok load_grow_mul 1024 = true /\ mul_load load_grow_mul 1024 = 768%Z /\ float_div_ok load_new_div 100 = true /\ div_load load_new_div 100 = 133%Z.
Proof. vm_compute. repeat split; reflexivity. Qed.

(* 14b. middleware/ratelimit.LimiterStore (Limiter.v: a bounded key -> limiter map with
        last-seen stamps; the clock and the map's iteration order are inputs).  For every
        sequence of observed calls the model accepts: a key keeps its limiter until it is
        evicted (Gets of the key included); Get after a Get that was not evicted returns the
        same limiter; no two keys ever share a limiter; at most max(maxSize, 1) limiters;
        an insert never evicts the key it stores. *)
Theorem limiter_stable : forall ms ops st st' k l, LInv st -> lrun ms st ops = Some st' ->
  forallb (fun o => negb (evicts k o)) ops = true -> lim_of st k = Some l -> lim_of st' k = Some l.
Proof. intros ms ops st st' k l. exact (Proofs_lim.limiter_stable ms ops st st' k l). Qed.
Print Assumptions limiter_stable.
Theorem limiter_get_after_set : forall ms st k now id v ops now' id' v' st', LInv st ->
  lrun ms st (OGet k now id v :: ops ++ [OGet k now' id' v']) = Some st' ->
  forallb (fun o => negb (evicts k o)) ops = true -> id' = id.
Proof. exact Proofs_lim.limiter_get_after_set. Qed.
Print Assumptions limiter_get_after_set.
Theorem limiter_never_shared : forall ms ops st' k1 k2 l, lrun ms [] ops = Some st' ->
  lim_of st' k1 = Some l -> lim_of st' k2 = Some l -> k1 = k2.
Proof. exact Proofs_lim.limiter_never_shared. Qed.
Print Assumptions limiter_never_shared.
Theorem limiter_bound : forall ms ops st', lrun ms [] ops = Some st' -> (llen st' <= lbound ms)%Z.
Proof.
  intros ms ops st' H. apply (Proofs_lim.limiter_bound ms ops [] st'); auto.
  - split; constructor.
  - unfold llen, lbound. simpl. lia.
Qed.
Print Assumptions limiter_bound.
Theorem limiter_insert_keeps_own_key : forall ms st k now id v st', LInv st ->
  lstep ms st (OGet k now id v) = Some st' -> v <> Some k /\ lim_of st' k = Some id.
Proof. exact Proofs_lim.limiter_insert_keeps_own_key. Qed.
Print Assumptions limiter_insert_keeps_own_key.

(* a run the model accepts: maxSize 2, three keys, the oldest is evicted, key 7 keeps limiter 1 *)
Example ex_limiter :
  exists st', lrun 2 [] [OGet 7 10 1 None; OGet 8 20 2 None; OGet 7 30 1 None; OGet 9 40 3 (Some 8%N); OGet 7 50 1 None] = Some st' /\
    lim_of st' 7 = Some 1%N /\ lim_of st' 8 = None /\ llen st' = 2%Z /\
    lrun 2 [] [OGet 7 10 1 None; OGet 8 20 2 None; OGet 7 30 1 None; OGet 9 40 3 (Some 7%N)] = None.
Proof. eexists. vm_compute. repeat split; reflexivity. Qed.

(* 15. The Go functions themselves, as srcgen translates them on every run
       (Gen.C16: primaryIndex, getSegmentIndex, backwardShiftDelete, EvictKeysAt, Del, Get, Has, Clear
       as whole functions with the receiver handed back, the probe loop of Put),
       compute what the model's hidx / go_sidx / bshift / tevict / tdel / tget / thas / tclear / put_core compute,
       on every table with a power-of-two slot array (gotab p t : the Go struct for the
       model table t; fuel > len (+ n for EvictKeysAt); "t_bad … = false": the model
       stayed inside its faithful envelope, which wf_preserved guarantees for every
       reachable table).  Editing those functions in /repo re-checks these. *)
Theorem translated_code_is_model : forall p, p <= 62 ->
  (forall m k, T_UInt64Map_mask m = (Z.of_nat (2 ^ p) - 1)%Z ->
     go_UInt64Map_primaryIndex m k = Z.of_nat (hidx go_mix (2 ^ p) k)) /\
  (forall m k, T_SegmentUInt64Map_segmentMask m = (Z.of_nat (2 ^ p) - 1)%Z ->
     go_SegmentUInt64Map_getSegmentIndex m k = N.of_nat (go_sidx (2 ^ p) k)) /\
  (forall fuel d i sz ga hz zv, length d = 2 ^ p -> i < 2 ^ p ->
     go_UInt64Map_backwardShiftDelete fuel (gom p d sz ga hz zv) (Z.of_nat i) =
     match bshift go_mix fuel d (2 ^ p) i i with Some d' => Some (gom p d' sz ga hz zv) | None => None end) /\
  (forall fuel t off nmax skip, length (t_data t) = 2 ^ p -> 2 ^ p + Z.to_nat nmax < fuel ->
     t_bad (fst (tevict go_mix t off nmax skip)) = false ->
     go_UInt64Map_EvictKeysAt fuel (gotab p t) off nmax skip =
     Some (snd (tevict go_mix t off nmax skip), gotab p (fst (tevict go_mix t off nmax skip)))) /\
  (forall fuel t k, length (t_data t) = 2 ^ p -> 2 ^ p < fuel ->
     t_bad (fst (tdel go_mix t k)) = false ->
     go_UInt64Map_Del fuel (gotab p t) k = Some (snd (tdel go_mix t k), gotab p (fst (tdel go_mix t k)))) /\
  (forall fuel t k v idx, length (t_data t) = 2 ^ p -> idx < 2 ^ p -> k <> 0%N -> 2 ^ p <= fuel ->
     let r := go_UInt64Map_Put_loop1_run fuel (gotab p t) k v (Z.of_nat idx) in
     let m' := fst (fst (fst (fst (snd r)))) in
     match scan (stop_key k) (2 ^ p - 1) (t_data t) (2 ^ p) (nxt (2 ^ p) idx) with
     | Some x => fst r = GoRet tt /\
                 m' = gotab p (with_data t (upd x (k, v) (t_data t))
                                         (if N.eqb (skey (t_data t) x) k then t_size t else (t_size t + 1)%Z))
     | None => fst r = GoNext /\ m' = gotab p t
     end) /\
  (forall fuel t k, length (t_data t) = 2 ^ p -> 2 ^ p < fuel ->
     go_UInt64Map_Get fuel (gotab p t) k =
     Some (match tget go_mix t k with Some v => (v, true) | None => (0%N, false) end)) /\
  (forall fuel t k, length (t_data t) = 2 ^ p -> 2 ^ p < fuel ->
     go_UInt64Map_Has fuel (gotab p t) k = Some (thas go_mix t k)) /\
  (forall t, length (t_data t) = 2 ^ p -> go_UInt64Map_Clear (gotab p t) = gotab p (tclear t)).
Proof.
  intros p Hp. repeat split.
  - intros m k H. apply gen_primaryIndex; auto.
  - intros m k H. apply gen_getSegmentIndex; auto.
  - intros. apply gen_bsd; auto.
  - intros. apply gen_evict; auto.
  - intros. apply gen_del; auto.
  - intros fuel t k v idx Hl Hi Hk Hf. unfold go_UInt64Map_Put_loop1_run.
    apply (gen_put_loop p Hp fuel fuel t k v idx 1 Hl Hi Hk). lia.
  - intros. apply gen_get; auto.
  - intros. apply gen_has; auto.
  - intros. apply gen_clear; auto.
Qed.
Print Assumptions translated_code_is_model.

(* the hypotheses of 15 on a concrete table of the code's own hash: an eviction and a
   deletion inside a three-key cluster leave the model inside its envelope *)
Example ex_translated :
  let t := tput go_mix (tput go_mix (tput go_mix (new_table 0) 5 1) 13 2) 21 3 in
  length (t_data t) = 2 ^ 3 /\ t_bad (fst (tevict go_mix t 0 2 13)) = false /\ snd (tevict go_mix t 0 2 13) = 2%Z /\
  t_bad (fst (tdel go_mix t 13)) = false /\ snd (tdel go_mix t 13) = true.
Proof. vm_compute. repeat split; reflexivity. Qed.

(* The hypotheses are satisfiable by non-trivial states of the code's own hash. *)
Example ex_wf : WF go_mix (tput go_mix (tput go_mix (new_table 0) 5 1) 13 2).
Proof.
  exact (proj1 (proj2 (Proofs_hist.wf_preserved go_mix) _
           (proj1 (proj2 (Proofs_hist.wf_preserved go_mix) _ (proj1 (Proofs_hist.wf_preserved go_mix) 0%Z)) 5%N 1%N)) 13%N 2%N).
Qed.
(* concurrent theorems: a capped program set and a schedule that ends over capacity
   with the loop of /repo (two fruitless scans) and within it with the repaired loop *)
Example ex_occ : (forall p, In p occ_progs -> forall c, In c p -> capped 1 c) /\
  (let s := c_run (init (new_segmap 4 0) occ_progs) occ_sched in entries s = 2%Z /\ inside s = 0%Z /\ c_exh s = 2%Z) /\
  (let s := c_run_rescan (init (new_segmap 4 0) occ_progs) (occ_sched ++ repeat 1 100 ++ repeat 2 100) in entries s = 1%Z).
Proof.
  split; [|split].
  - intros p Hp c Hc. unfold occ_progs in Hp. simpl in Hp.
    repeat (destruct Hp as [<-|Hp]; [simpl in Hc; destruct Hc as [<-|[]]; reflexivity|]). destruct Hp.
  - destruct occ_witness as [_ [B [C [_ [_ D]]]]]. cbv zeta. auto.
  - destruct occ_witness_rescan as [_ [_ [C _]]]. exact C.
Qed.
(* the over-capacity state the race leaves behind (2 entries, capacity 1) heals with the next Add *)
Example ex_heal :
  let m := c_map (c_run (init (new_segmap 4 0) occ_progs) occ_sched) in
  sm_count m = 2%Z /\ sm_count (sm_set_with_cap go_mix go_sidx go_eoff m 99 9 1) = 1%Z.
Proof. vm_compute. split; reflexivity. Qed.
Example ex_swf : SWF go_mix go_sidx (sm_set go_mix go_sidx (new_segmap 4 0) 5 1).
Proof.
  exact (proj1 (sm_set_spec go_mix go_sidx go_sidx_lt (new_segmap 4 0) 5%N 1%N
           (proj1 (new_segmap_SWF go_mix go_sidx go_sidx_lt 4%Z 0%Z)))).
Qed.
