(* C16 — the map clause of the property under concurrency: the sequential history a
   run of the interleaving model (Conc.v) stands for.  Executable definitions only.

   Every lock section of Conc.v that reads or changes a segment's table is ONE
   operation on the whole map, with the result the Go call hands back to its caller
   (PutIfNotExists' inserted flag, Del's / CompareAndSwap's / CompareAndDelete's bool,
   what Get and one segment of ForEach yielded, the keys an insert's toll took):
   [step_ev] reads that operation off the state in front of the step.  [legal] is the
   sequential specification — a finite map key -> value: a read yields the value most
   recently stored under the key unless it was removed or evicted, PutIfNotExists
   inserts iff the key is absent, Del reports presence, CompareAndSwap /
   CompareAndDelete hit iff the identical value is current, an eviction takes only
   present keys and never the key its insert is writing.  Proofs_lin.v: the log of
   every schedule is legal and the map is what the log says (the lock sections are
   linearization points).  Run.v uses the same [legal] to look for a linearization of
   histories recorded on the Go code. *)
From Sdns Require Import Common.Base Gen.C16 C16.Model C16.Conc.
Open Scope nat_scope.

Inductive lev :=
| LStore (tid : nat) (k v : N)                       (* SetWithCap's / Set's own section *)
| LPia (tid : nat) (k v : N) (ins : bool)
| LDel (tid : nat) (k : N) (r : bool)
| LRem (tid : nat) (k : N)                            (* Cache.Remove: Del with the result dropped *)
| LCas (tid : nat) (k old v : N) (hit : bool)
| LCad (tid : nat) (k old : N) (hit : bool)
| LEvict (tid : nat) (own : N) (ks : list N)         (* toll of the insert of [own]: the keys it took *)
| LClear (tid : nat) (ks : list N)                   (* one segment of Clear *)
| LGet (tid : nat) (k : N) (r : option N)
| LScan (tid : nat) (l : list (N * N)).              (* one segment of ForEach *)

Definition lmem (k : N) (ks : list N) : bool := existsb (N.eqb k) ks.
Definition is_some (o : option N) : bool := match o with Some _ => true | None => false end.
Definition oeqb (a b : option N) : bool :=
  match a, b with Some x, Some y => N.eqb x y | None, None => true | _, _ => false end.

(* the value under [k] after the operation, [cur] before *)
Definition lev_apply (e : lev) (k : N) (cur : option N) : option N :=
  match e with
  | LStore _ k' v => if N.eqb k k' then Some v else cur
  | LPia _ k' v ins => if N.eqb k k' && ins then Some v else cur
  | LDel _ k' _ | LRem _ k' => if N.eqb k k' then None else cur
  | LCas _ k' _ v hit => if N.eqb k k' && hit then Some v else cur
  | LCad _ k' _ hit => if N.eqb k k' && hit then None else cur
  | LEvict _ _ ks | LClear _ ks => if lmem k ks then None else cur
  | LGet _ _ _ | LScan _ _ => cur
  end.
(* the recorded result is the one a finite map gives *)
Definition lev_legal (val : N -> option N) (e : lev) : bool :=
  match e with
  | LStore _ _ _ | LRem _ _ => true
  | LPia _ k _ ins => Bool.eqb ins (negb (is_some (val k)))
  | LDel _ k r => Bool.eqb r (is_some (val k))
  | LCas _ k old _ hit => Bool.eqb hit (oeqb (val k) (Some old))
  | LCad _ k old hit => Bool.eqb hit (oeqb (val k) (Some old))
  | LEvict _ own ks => negb (lmem own ks) && forallb (fun g => is_some (val g)) ks
  | LClear _ ks => forallb (fun g => is_some (val g)) ks
  | LGet _ k r => oeqb r (val k)
  | LScan _ l => forallb (fun p => oeqb (val (fst p)) (Some (snd p))) l
  end.
Definition val_after (val : N -> option N) (e : lev) : N -> option N := fun k => lev_apply e k (val k).
Fixpoint legal (val : N -> option N) (log : list lev) : bool :=
  match log with
  | [] => true
  | e :: r => lev_legal val e && legal (val_after val e) r
  end.
(* the value under [k] after the whole log (chronological) *)
Fixpoint reg (log : list lev) (k : N) (cur : option N) : option N :=
  match log with [] => cur | e :: r => reg r k (lev_apply e k cur) end.

Section Events.
  Variable mix : N -> N.
  Variable sidx : nat -> N -> nat.
  Variable eoff : N -> Z.
  Variable rescan : bool.

  (* keys of t that t' no longer has *)
  Definition gone_keys (t t' : table) : list N :=
    filter (fun k => negb (is_some (tget mix t' k))) (map fst (tall t)).
  Definition hit_of (t : table) (k old : N) : bool :=
    match tget mix t k with Some cur => N.eqb cur old | None => false end.

  (* the operation thread [tid]'s next atomic step performs on the map, if it is a
     lock section on a table and enabled *)
  Definition step_ev (s : cstate) (tid : nat) : option lev :=
    let m := c_map s in
    let n := nsegs m in
    let '(p, _) := nth tid (c_thr s) (Idle, []) in
    match p with
    | SwcLock k v _ => if lock_free s (sidx n k) then Some (LStore tid k v) else None
    | SwcLoad k cap =>
        if (cap <? sm_count m)%Z
        then let t := seg m (sidx n k) in Some (LEvict tid k (gone_keys t (fst (tevict mix t (eoff k) evict_toll k))))
        else None
    | SpEvict k _ i deficit =>
        let j := Nat.modulo (sidx n k + i) n in
        if lock_free s j
        then let t := seg m j in Some (LEvict tid k (gone_keys t (fst (tevict mix t (eoff k) deficit k))))
        else None
    | OpLock c =>
        let i := sidx n (call_key c) in
        let t := seg m i in
        if lock_free s i then
          match c with
          | CSet k v => Some (LStore tid k v)
          | CPia k v => Some (LPia tid k v (snd (tpia mix t k v)))
          | CDel k => Some (LDel tid k (snd (tdel mix t k)))
          | CCas k old v => Some (LCas tid k old v (hit_of t k old))
          | CCad k old => Some (LCad tid k old (hit_of t k old))
          | _ => None
          end
        else None
    | ClrSeg i => if (i <? n) && lock_free s i then Some (LClear tid (map fst (tall (seg m i)))) else None
    | RdGet k => let i := sidx n k in if lock_free s i then Some (LGet tid k (tget mix (seg m i) k)) else None
    | FeSeg i _ => if (i <? n) && lock_free s i then Some (LScan tid (tall (seg m i))) else None
    | _ => None
    end.

  (* the run of Conc.v together with the operations it performed, in order *)
  Fixpoint run_log (s : cstate) (sched : list nat) : cstate * list lev :=
    match sched with
    | [] => (s, [])
    | tid :: r =>
        match step mix sidx eoff rescan s tid with
        | Some s' =>
            let '(sf, log) := run_log s' r in
            (sf, match step_ev s tid with Some e => e :: log | None => log end)
        | None => run_log s r
        end
    end.
End Events.

(* ---- linearization search for a recorded concurrent history (Run.v, CaseLin) ----
   An operation with the logical-clock stamps taken before the call and after the
   return.  A linearization is an order of all operations that respects "returned
   before the other was called" and is [legal]. *)
Record hop := mk_hop { h_ev : lev; h_call : Z; h_ret : Z }.
Fixpoint remove_nth {A} (i : nat) (l : list A) : list A :=
  match l with [] => [] | x :: r => match i with 0 => r | S i' => x :: remove_nth i' r end end.
Definition min_ret (l : list hop) : Z := fold_left (fun a h => Z.min a (h_ret h)) l (2 ^ 62)%Z.
(* depth-first: the next operation is one that no pending operation returned before.
   Written with if-then-else throughout: vm_compute is call-by-value, && and existsb
   would explore every order. *)
Fixpoint lin_search (fuel : nat) (val : N -> option N) (pending : list hop) : bool :=
  match fuel with
  | O => false
  | S f =>
      match pending with
      | [] => true
      | _ =>
          let mr := min_ret pending in
          (fix try (i : nat) (l : list hop) {struct l} : bool :=
             match l with
             | [] => false
             | h :: r =>
                 if (if (h_call h <=? mr)%Z then lev_legal val (h_ev h) else false)
                 then (if lin_search f (val_after val (h_ev h)) (remove_nth i pending) then true else try (S i) r)
                 else try (S i) r
             end) 0 pending
      end
  end.
Definition linearizable (ops : list hop) : bool := lin_search (S (length ops)) (fun _ => None) ops.
