(* C16 — SegmentUInt64Map / cache.Cache, calls run to completion: the vector
   of tables refines one finite map; Len = sum of the segment sizes;
   CompareAndSwap / CompareAndDelete act only on the identical value;
   SetWithCap never evicts the key it writes.
   For an arbitrary slot hash, segment selector and eviction offset. *)
From Sdns Require Import Common.Base Gen.C16 C16.Model C16.Proofs_cyc C16.Proofs_tab C16.Proofs_wf C16.Proofs_more.
Open Scope nat_scope.

Fixpoint sum_sizes (l : list table) : Z :=
  match l with [] => 0%Z | t :: r => (t_size t + sum_sizes r)%Z end.


Lemma upd_seg_length i t l : length (upd_seg i t l) = length l.
Proof. revert i; induction l; intros [|i]; simpl; auto. Qed.
Lemma nth_upd_seg_eq i t l d : i < length l -> nth i (upd_seg i t l) d = t.
Proof. revert i; induction l; intros [|i]; simpl; intros; try lia; auto. apply IHl; lia. Qed.
Lemma nth_upd_seg_neq i j t l d : i <> j -> nth j (upd_seg i t l) d = nth j l d.
Proof. revert i j; induction l; intros [|i] [|j]; simpl; intros; try lia; auto. Qed.
Lemma upd_seg_twice i t1 t2 l : upd_seg i t2 (upd_seg i t1 l) = upd_seg i t2 l.
Proof. revert i; induction l; intros [|i]; simpl; auto. f_equal. apply IHl. Qed.
Lemma sum_upd_seg i t l d : i < length l ->
  sum_sizes (upd_seg i t l) = (sum_sizes l - t_size (nth i l d) + t_size t)%Z.
Proof.
  revert i; induction l; intros [|i]; simpl; intros; try lia.
  rewrite IHl by lia. lia.
Qed.


Section Seg.
  Variable mix : N -> N.
  Variable sidx : nat -> N -> nat.
  Hypothesis sidx_lt : forall n k, 0 < n -> sidx n k < n.
  Notation WF := (WF mix).

  Record SWF (m : segmap) : Prop := {
    s_n : 0 < nsegs m;
    s_wf : forall i, i < nsegs m -> WF (seg m i);
    (* every stored key sits in the segment its hash selects *)
    s_home : forall i k, i < nsegs m -> abs (seg m i) k <> None -> sidx (nsegs m) k = i;
    (* the counter is the number of entries *)
    s_count : sm_count m = sum_sizes (sm_segs m) }.

  Definition sabs (m : segmap) (k : N) : option N := abs (seg m (ksi sidx m k)) k.

  Lemma set_seg_spec m j t' c : SWF m -> j < nsegs m -> WF t' ->
    (forall k, abs t' k <> None -> sidx (nsegs m) k = j) ->
    c = (sm_count m - t_size (seg m j) + t_size t')%Z ->
    SWF (set_seg m j t' c) /\ nsegs (set_seg m j t' c) = nsegs m /\
    forall k, sabs (set_seg m j t' c) k = if ksi sidx m k =? j then abs t' k else sabs m k.
  Proof.
    intros S Hj W' Hhome Hc.
    assert (Hn : nsegs (set_seg m j t' c) = nsegs m) by (unfold nsegs, set_seg; simpl; apply upd_seg_length).
    assert (Hseg : forall i, seg (set_seg m j t' c) i = if i =? j then t' else seg m i).
    { intros i. unfold seg, set_seg. simpl. destruct (Nat.eqb_spec i j) as [->|Hne].
      - apply nth_upd_seg_eq. exact Hj.
      - apply nth_upd_seg_neq. auto. }
    split; [|split; [exact Hn|]].
    - constructor; rewrite ?Hn.
      + apply S.
      + intros i Hi. rewrite Hseg. destruct (Nat.eqb_spec i j); auto. apply S; auto.
      + intros i k Hi. rewrite Hseg. destruct (Nat.eqb_spec i j) as [->|]; auto. apply S; auto.
      + unfold set_seg. simpl. rewrite (sum_upd_seg j t' (sm_segs m) dummy_table Hj).
        rewrite <- (s_count m S). exact Hc.
    - intros k. unfold sabs, ksi. rewrite Hn, Hseg. fold (ksi sidx m k).
      destruct (Nat.eqb_spec (ksi sidx m k) j); auto.
  Qed.

  Lemma ksi_lt m k : SWF m -> ksi sidx m k < nsegs m.
  Proof. intros S. apply sidx_lt. apply S. Qed.

  (* ---------------------------------------------------------------- get *)
  Theorem sm_get_abs m k : SWF m -> sm_get mix sidx m k = sabs m k.
  Proof. intros S. unfold sm_get, sabs. apply tget_abs. apply S. apply ksi_lt; auto. Qed.

  (* a key of another segment is absent from this one *)
  Lemma other_seg_absent m k : SWF m -> forall i, i < nsegs m -> i <> ksi sidx m k -> abs (seg m i) k = None.
  Proof.
    intros S i Hi Hne. destruct (abs (seg m i) k) eqn:E; auto.
    exfalso. apply Hne. symmetry. apply (s_home m S i k Hi). congruence.
  Qed.

  (* ---------------------------------------------------------------- set *)
  Theorem sm_set_spec m k v : SWF m ->
    let m' := sm_set mix sidx m k v in
    SWF m' /\ nsegs m' = nsegs m /\ (forall k', sabs m' k' = upd_abs (sabs m) k v k') /\
    sm_count m' = (sm_count m + (if present (sabs m) k then 0 else 1))%Z.
  Proof.
    intros S. unfold sm_set. set (i := ksi sidx m k). set (t := seg m i).
    pose proof (ksi_lt m k S) as Hi. fold i in Hi.
    assert (W : WF t) by (apply S; auto).
    destruct (tput_spec mix t k v W) as [W' [Ha Hs]].
    set (c := (if (tlen t <? tlen (tput mix t k v))%Z then (sm_count m + 1)%Z else sm_count m)).
    assert (Hc : c = (sm_count m + (if present (sabs m) k then 0 else 1))%Z).
    { assert (Hp : present (sabs m) k = present (abs t) k) by reflexivity.
      rewrite Hp. unfold c, tlen. rewrite Hs.
      destruct (present (abs t) k); destruct (Z.ltb_spec (t_size t) (t_size t + 0)); destruct (Z.ltb_spec (t_size t) (t_size t + 1)); lia. }
    destruct (set_seg_spec m i (tput mix t k v) c S Hi W') as [S' [Hn Hab]].
    - intros k' Hk'. rewrite Ha in Hk'. unfold upd_abs in Hk'.
      destruct (N.eqb_spec k' k) as [E|E]; [subst k'; reflexivity|]. apply (s_home m S i k' Hi Hk').
    - rewrite Hc, Hs. fold t. change (present (sabs m) k) with (present (abs t) k). lia.
    - split; [exact S'|]. split; [exact Hn|]. split; [|exact Hc].
      intros k'. rewrite Hab. unfold upd_abs.
      destruct (Nat.eqb_spec (ksi sidx m k') i) as [E|E].
      + rewrite Ha. unfold upd_abs, sabs. rewrite E. reflexivity.
      + destruct (N.eqb_spec k' k) as [->|]; auto. contradiction.
  Qed.

  Theorem sm_pia_spec m k v : SWF m ->
    let r := sm_pia mix sidx m k v in
    SWF (fst (fst r)) /\ nsegs (fst (fst r)) = nsegs m /\
    match sabs m k with
    | Some x => snd (fst r) = x /\ snd r = false /\ (forall k', sabs (fst (fst r)) k' = sabs m k') /\
                sm_count (fst (fst r)) = sm_count m
    | None => snd (fst r) = v /\ snd r = true /\ (forall k', sabs (fst (fst r)) k' = upd_abs (sabs m) k v k') /\
              sm_count (fst (fst r)) = (sm_count m + 1)%Z
    end.
  Proof.
    intros S. unfold sm_pia. set (i := ksi sidx m k). set (t := seg m i).
    pose proof (ksi_lt m k S) as Hi. fold i in Hi.
    assert (W : WF t) by (apply S; auto).
    pose proof (tpia_spec mix t k v W) as H. change (sabs m k) with (abs t k).
    destruct (abs t k) eqn:Ea.
    - destruct H as [He [W' [Ha Hs]]]. rewrite He. simpl.
      set (t' := fst (fst (tpia mix t k v))) in *.
      destruct (set_seg_spec m i t' (sm_count m) S Hi W') as [S' [Hn Hab]].
      + intros k' Hk'. rewrite Ha in Hk'. apply (s_home m S i k' Hi Hk').
      + fold t. lia.
      + split; [exact S'|]. split; [exact Hn|]. repeat split; auto.
        intros k'. rewrite Hab. destruct (Nat.eqb_spec (ksi sidx m k') i) as [E|E]; auto.
        rewrite Ha. unfold sabs. rewrite E. reflexivity.
    - destruct H as [t2 [He [W' [Ha Hs]]]]. rewrite He. simpl.
      destruct (set_seg_spec m i t2 (sm_count m + 1)%Z S Hi W') as [S' [Hn Hab]].
      + intros k' Hk'. rewrite Ha in Hk'. unfold upd_abs in Hk'.
        destruct (N.eqb_spec k' k) as [E|E]; [subst k'; reflexivity|]. apply (s_home m S i k' Hi Hk').
      + fold t. lia.
      + split; [exact S'|]. split; [exact Hn|]. repeat split; auto.
        intros k'. rewrite Hab. unfold upd_abs.
        destruct (Nat.eqb_spec (ksi sidx m k') i) as [E|E].
        * rewrite Ha. unfold upd_abs, sabs. rewrite E. reflexivity.
        * destruct (N.eqb_spec k' k) as [->|]; auto. contradiction.
  Qed.

  Theorem sm_del_spec m k : SWF m ->
    let r := sm_del mix sidx m k in
    SWF (fst r) /\ nsegs (fst r) = nsegs m /\ snd r = present (sabs m) k /\
    (forall k', sabs (fst r) k' = del_abs (sabs m) k k') /\
    sm_count (fst r) = (sm_count m - (if present (sabs m) k then 1 else 0))%Z.
  Proof.
    intros S. unfold sm_del. set (i := ksi sidx m k). set (t := seg m i).
    pose proof (ksi_lt m k S) as Hi. fold i in Hi.
    assert (W : WF t) by (apply S; auto).
    destruct (tdel_spec mix t k W) as [W' [Hr [Ha Hs]]].
    destruct (tdel mix t k) as [t' r] eqn:Ed. simpl in *.
    assert (Hp : present (sabs m) k = present (abs t) k) by reflexivity.
    set (c := (if r then (sm_count m - 1)%Z else sm_count m)).
    destruct (set_seg_spec m i t' c S Hi W') as [S' [Hn Hab]].
    - intros k' Hk'. rewrite Ha in Hk'. unfold del_abs in Hk'.
      destruct (N.eqb_spec k' k) as [E|E]; [subst k'; reflexivity|]. apply (s_home m S i k' Hi Hk').
    - unfold c. rewrite Hs, Hr. fold t. destruct (present (abs t) k); lia.
    - split; [exact S'|]. split; [exact Hn|]. split; [rewrite Hp; exact Hr|]. split.
      + intros k'. rewrite Hab. unfold del_abs.
        destruct (Nat.eqb_spec (ksi sidx m k') i) as [E|E].
        * rewrite Ha. unfold del_abs, sabs. rewrite E. reflexivity.
        * destruct (N.eqb_spec k' k) as [->|]; auto. contradiction.
      + simpl. unfold c. rewrite Hr, Hp. destruct (present (abs t) k); lia.
  Qed.

  (* ------------------------------------------- compare-and-swap / -delete *)
  Theorem cas_only_on_identity m k old v : SWF m ->
    let r := c_cas mix sidx m k old v in
    SWF (fst r) /\ nsegs (fst r) = nsegs m /\ sm_count (fst r) = sm_count m /\
    (snd r = true <-> sabs m k = Some old) /\
    (snd r = true -> forall k', sabs (fst r) k' = upd_abs (sabs m) k v k') /\
    (snd r = false -> fst r = m).
  Proof.
    intros S. unfold c_cas. set (i := ksi sidx m k). set (t := seg m i).
    pose proof (ksi_lt m k S) as Hi. fold i in Hi.
    assert (W : WF t) by (apply S; auto).
    rewrite (tget_abs mix t k W). change (sabs m k) with (abs t k).
    destruct (abs t k) as [cur|] eqn:Ea.
    - destruct (N.eqb_spec cur old) as [->|Hne]; simpl.
      + destruct (tput_spec mix t k v W) as [W' [Ha Hs]].
        destruct (set_seg_spec m i (tput mix t k v) (sm_count m) S Hi W') as [S' [Hn Hab]].
        * intros k' Hk'. rewrite Ha in Hk'. unfold upd_abs in Hk'.
          destruct (N.eqb_spec k' k) as [E|E]; [subst k'; reflexivity|]. apply (s_home m S i k' Hi Hk').
        * rewrite Hs. fold t. unfold present. rewrite Ea. lia.
        * split; [exact S'|]. split; [exact Hn|]. split; [reflexivity|]. split; [tauto|]. split; [|discriminate].
          intros _ k'. rewrite Hab. unfold upd_abs.
          destruct (Nat.eqb_spec (ksi sidx m k') i) as [E|E].
          -- rewrite Ha. unfold upd_abs, sabs. rewrite E. reflexivity.
          -- destruct (N.eqb_spec k' k) as [->|]; auto. contradiction.
      + split; [exact S|]. split; [reflexivity|]. split; [reflexivity|].
        split; [split; [discriminate|congruence]|]. split; [discriminate|reflexivity].
    - simpl. split; [exact S|]. split; [reflexivity|]. split; [reflexivity|].
      split; [split; discriminate|]. split; [discriminate|reflexivity].
  Qed.

  Theorem compare_delete_only_on_identity m k old : SWF m ->
    let r := c_cad mix sidx m k old in
    SWF (fst r) /\ nsegs (fst r) = nsegs m /\
    (snd r = true <-> sabs m k = Some old) /\
    (snd r = true -> (forall k', sabs (fst r) k' = del_abs (sabs m) k k') /\ sm_count (fst r) = (sm_count m - 1)%Z) /\
    (snd r = false -> fst r = m).
  Proof.
    intros S. unfold c_cad. set (i := ksi sidx m k). set (t := seg m i).
    pose proof (ksi_lt m k S) as Hi. fold i in Hi.
    assert (W : WF t) by (apply S; auto).
    rewrite (tget_abs mix t k W). change (sabs m k) with (abs t k).
    destruct (abs t k) as [cur|] eqn:Ea.
    - destruct (N.eqb_spec cur old) as [->|Hne]; simpl.
      + destruct (tdel_spec mix t k W) as [W' [Hr [Ha Hs]]].
        destruct (tdel mix t k) as [t' r] eqn:Ed. simpl in *.
        unfold present in Hr, Hs. rewrite Ea in Hr, Hs. subst r.
        destruct (set_seg_spec m i t' (sm_count m - 1)%Z S Hi W') as [S' [Hn Hab]].
        * intros k' Hk'. rewrite Ha in Hk'. unfold del_abs in Hk'.
          destruct (N.eqb_spec k' k) as [E|E]; [subst k'; reflexivity|]. apply (s_home m S i k' Hi Hk').
        * rewrite Hs. fold t. lia.
        * split; [exact S'|]. split; [exact Hn|]. split; [tauto|]. split; [|discriminate].
          intros _. split; [|reflexivity]. intros k'. rewrite Hab. unfold del_abs.
          destruct (Nat.eqb_spec (ksi sidx m k') i) as [E|E].
          -- rewrite Ha. unfold del_abs, sabs. rewrite E. reflexivity.
          -- destruct (N.eqb_spec k' k) as [->|]; auto. contradiction.
      + split; [exact S|]. split; [reflexivity|].
        split; [split; [discriminate|congruence]|]. split; [discriminate|reflexivity].
    - simpl. split; [exact S|]. split; [reflexivity|].
      split; [split; discriminate|]. split; [discriminate|reflexivity].
  Qed.

  (* ------------------------------------------------------- SetWithCap *)
  (* evicting from segment j with protected key k *)
  Lemma evict_seg_spec m j off n k : SWF m -> j < nsegs m ->
    let r := tevict mix (seg m j) off n k in
    let m' := set_seg m j (fst r) (sm_count m - snd r)%Z in
    SWF m' /\ nsegs m' = nsegs m /\ shrinks (sabs m) (sabs m') /\ sabs m' k = sabs m k /\ (0 <= snd r)%Z.
  Proof.
    intros S Hj r m'. set (t := seg m j) in *.
    assert (W : WF t) by (apply S; auto).
    destruct (tevict_spec mix t off n k W) as [W' [Hr [Hs [Hsh Hsk]]]]. fold r in W', Hr, Hs, Hsh, Hsk.
    destruct (set_seg_spec m j (fst r) (sm_count m - snd r)%Z S Hj W') as [S' [Hn Hab]].
    - intros k' Hk'. destruct (Hsh k') as [E|E]; [|congruence]. rewrite E in Hk'. apply (s_home m S j k' Hj Hk').
    - fold t. lia.
    - split; [exact S'|]. split; [exact Hn|]. split; [|split; [|lia]].
      + intros k'. unfold m'. rewrite Hab. destruct (Nat.eqb_spec (ksi sidx m k') j) as [E|E]; auto.
        unfold sabs. rewrite E. apply Hsh.
      + unfold m'. rewrite Hab. destruct (Nat.eqb_spec (ksi sidx m k) j) as [E|E]; auto.
        unfold sabs. rewrite E. exact Hsk.
  Qed.

  Section Swc.
  Variable eoff : N -> Z.
  (* the state after the own-segment section and after any number of spill turns *)
  Definition SwcInv (a : N -> option N) (n0 : nat) (k v : N) (m : segmap) : Prop :=
    SWF m /\ nsegs m = n0 /\ sabs m k = Some v /\ shrinks a (sabs m).

  Lemma swc_own_spec m k v cap : SWF m ->
    SwcInv (upd_abs (sabs m) k v) (nsegs m) k v (fst (swc_own mix sidx eoff m k v cap)).
  Proof.
    intros S. unfold swc_own. set (i := ksi sidx m k). set (t := seg m i).
    pose proof (ksi_lt m k S) as Hi. fold i in Hi.
    destruct (sm_set_spec m k v S) as [S1 [Hn1 [Ha1 Hc1]]].
    unfold sm_set in S1, Hn1, Ha1, Hc1. fold i t in S1, Hn1, Ha1, Hc1.
    set (t1 := tput mix t k v) in *.
    set (c1 := (if (tlen t <? tlen t1)%Z then (sm_count m + 1)%Z else sm_count m)) in *.
    set (m1 := set_seg m i t1 c1) in *.
    assert (Hk1 : sabs m1 k = Some v) by (rewrite Ha1; unfold upd_abs; rewrite N.eqb_refl; reflexivity).
    destruct (Z.ltb_spec cap c1).
    - (* evict in the own segment, still under its lock *)
      assert (Hi1 : i < nsegs m1) by lia.
      pose proof (evict_seg_spec m1 i (eoff k) evict_toll k S1 Hi1) as H1.
      assert (Hseg1 : seg m1 i = t1).
      { unfold m1, seg, set_seg. simpl. apply nth_upd_seg_eq. exact Hi. }
      rewrite Hseg1 in H1.
      destruct (tevict mix t1 (eoff k) evict_toll k) as [t2 d] eqn:Ee. simpl in *.
      destruct H1 as [S2 [Hn2 [Hsh2 [Hsk2 Hd]]]].
      assert (Heq : set_seg m i t2 (if (0 <? d)%Z then (c1 - d)%Z else c1) = set_seg m1 i t2 (sm_count m1 - d)%Z).
      { unfold set_seg, m1. simpl. f_equal.
        - symmetry. apply upd_seg_twice.
        - destruct (Z.ltb_spec 0 d); lia. }
      change (sm_count m1) with c1 in Heq.
      rewrite Heq. split; [exact S2|]. split; [lia|]. split; [congruence|].
      intros k'. destruct (Hsh2 k') as [E|E]; rewrite E; auto.
    - simpl. fold m1. split; [exact S1|]. split; [exact Hn1|]. split; [exact Hk1|].
      intros k'. left. apply Ha1.
  Qed.

  Lemma swc_spill_spec a n0 m k v cap i deficit : SwcInv a n0 k v m ->
    match swc_spill mix sidx eoff m k cap i deficit with
    | None => True
    | Some (m', _) => SwcInv a n0 k v m'
    end.
  Proof.
    intros [S [Hn [Hk Hsh]]]. unfold swc_spill.
    destruct (Z.leb_spec (sm_count m) cap); auto.
    set (j := (ksi sidx m k + i) mod nsegs m).
    assert (Hj : j < nsegs m) by (apply Nat.mod_upper_bound; pose proof (s_n m S); lia).
    pose proof (evict_seg_spec m j (eoff k) deficit k S Hj) as H1.
    destruct (tevict mix (seg m j) (eoff k) deficit k) as [t' d] eqn:Ee. simpl in *.
    destruct H1 as [S2 [Hn2 [Hsh2 [Hsk2 Hd]]]].
    assert (Heq : forall c, (0 <? d)%Z = false -> set_seg m j t' c = set_seg m j t' (c - d)%Z).
    { intros c Hc. apply Z.ltb_ge in Hc. f_equal. lia. }
    destruct (Z.ltb_spec 0 d).
    - split; [exact S2|]. split; [lia|]. split; [congruence|].
      eapply shrinks_trans; eauto.
    - replace (set_seg m j t' (sm_count m)) with (set_seg m j t' (sm_count m - d)%Z) by (f_equal; lia).
      split; [exact S2|]. split; [lia|]. split; [congruence|].
      eapply shrinks_trans; eauto.
  Qed.

  Lemma swc_loop_spec a n0 k v cap fuel : forall m i deficit,
    SwcInv a n0 k v m -> SwcInv a n0 k v (swc_loop mix sidx eoff fuel m k cap i deficit).
  Proof.
    induction fuel; intros m i deficit H; simpl; auto.
    destruct ((i <? nsegs m) && (0 <? deficit)%Z); auto.
    pose proof (swc_spill_spec a n0 m k v cap i deficit H) as H1.
    destruct (swc_spill mix sidx eoff m k cap i deficit) as [[m' d']|]; auto.
  Qed.

  (* SetWithCap / Cache.Add: the written key is there with the written value;
     every other key is untouched or evicted; the counter stays exact *)
  Theorem insert_never_evicts_own_key m k v cap : SWF m ->
    let m' := sm_set_with_cap mix sidx eoff m k v cap in
    SWF m' /\ nsegs m' = nsegs m /\ sabs m' k = Some v /\
    shrinks (upd_abs (sabs m) k v) (sabs m').
  Proof.
    intros S. unfold sm_set_with_cap.
    pose proof (swc_own_spec m k v cap S) as H.
    destruct (swc_own mix sidx eoff m k v cap) as [m1 deficit]. simpl in H.
    destruct (Z.leb_spec deficit 0).
    - destruct H as [A [B [C D]]]. auto.
    - pose proof (swc_loop_spec _ _ k v cap (nsegs m1) m1 1 deficit H) as [A [B [C D]]]. auto.
  Qed.

  End Swc.

  (* ------------------------------------------------- ForEach and Len *)
  Lemma sum_sizes_all l : (forall t, In t l -> WF t) ->
    sum_sizes l = Z.of_nat (length (flat_map tall l)).
  Proof.
    induction l; simpl; intros H; auto.
    rewrite app_length, Nat2Z.inj_add, <- IHl by (intros; apply H; auto).
    destruct (tall_spec mix a (H a (or_introl eq_refl))) as [_ [_ Hl]]. unfold tlen in Hl. lia.
  Qed.

  Lemma in_flat_seg m k v : In (k, v) (sm_all m) <-> exists i, i < nsegs m /\ In (k, v) (tall (seg m i)).
  Proof.
    unfold sm_all. rewrite in_flat_map. split.
    - intros [t [Hin Hkv]]. destruct (In_nth _ _ dummy_table Hin) as [i [Hi Ht]].
      exists i. split; auto. unfold seg. rewrite Ht. exact Hkv.
    - intros [i [Hi Hkv]]. exists (seg m i). split; auto. apply nth_In. exact Hi.
  Qed.

  (* Len() is the number of enumerated entries and these are exactly the reachable ones *)
  Theorem sm_len_all m : SWF m ->
    sm_len m = Z.of_nat (length (sm_all m)) /\
    forall k v, In (k, v) (sm_all m) <-> sabs m k = Some v.
  Proof.
    intros S. split.
    - unfold sm_len. rewrite (s_count m S). apply sum_sizes_all.
      intros t Hin. destruct (In_nth _ _ dummy_table Hin) as [i [Hi Ht]]. rewrite <- Ht. apply S. exact Hi.
    - intros k v. rewrite in_flat_seg. split.
      + intros [i [Hi Hin]]. destruct (tall_spec mix (seg m i) (s_wf m S i Hi)) as [_ [Hio _]].
        apply Hio in Hin. assert (sidx (nsegs m) k = i) by (apply (s_home m S i k Hi); congruence).
        unfold sabs, ksi. rewrite H. exact Hin.
      + intros H. exists (ksi sidx m k). split; [apply ksi_lt; auto|].
        destruct (tall_spec mix (seg m (ksi sidx m k)) (s_wf m S _ (ksi_lt m k S))) as [_ [Hio _]].
        apply Hio. exact H.
  Qed.


  (* ------------------------------------------------------------ Clear *)
  Lemma fold_sub_sizes l c : fold_left (fun c t => c - tlen t)%Z l c = (c - sum_sizes l)%Z.
  Proof. revert c; induction l; intros c; simpl; [lia|]. rewrite IHl. unfold tlen. lia. Qed.
  Lemma sum_sizes_clear l : sum_sizes (map tclear l) = 0%Z.
  Proof. induction l; simpl; auto. Qed.
  Lemma seg_clear m i : seg (sm_clear m) i = tclear (seg m i).
  Proof. unfold seg, sm_clear. simpl. change dummy_table with (tclear dummy_table) at 1. apply map_nth. Qed.

  Theorem sm_clear_spec m : SWF m ->
    SWF (sm_clear m) /\ nsegs (sm_clear m) = nsegs m /\ sm_count (sm_clear m) = 0%Z /\
    forall k, sabs (sm_clear m) k = None.
  Proof.
    intros S.
    assert (Hn : nsegs (sm_clear m) = nsegs m) by (unfold nsegs, sm_clear; simpl; apply map_length).
    assert (Hc : sm_count (sm_clear m) = 0%Z).
    { unfold sm_clear. simpl. rewrite fold_sub_sizes, (s_count m S). lia. }
    assert (Ha : forall i k, i < nsegs m -> abs (seg (sm_clear m) i) k = None).
    { intros i k Hi. rewrite seg_clear. apply (tclear_spec mix (seg m i)). apply S. exact Hi. }
    split; [|split; [exact Hn|split; [exact Hc|]]].
    - constructor; rewrite ?Hn.
      + apply S.
      + intros i Hi. rewrite seg_clear. apply (tclear_spec mix (seg m i)). apply S. exact Hi.
      + intros i k Hi Hne. rewrite Ha in Hne by auto. congruence.
      + rewrite Hc. unfold sm_clear. simpl. rewrite sum_sizes_clear. reflexivity.
    - intros k. unfold sabs. apply Ha. unfold ksi. rewrite Hn. apply sidx_lt. apply S.
  Qed.

  (* ------------------------------------------------------ constructor *)
  Lemma sum_repeat t n : sum_sizes (repeat t n) = (Z.of_nat n * t_size t)%Z.
  Proof. induction n; simpl repeat; simpl sum_sizes; [lia|]. rewrite IHn. lia. Qed.

  Theorem new_segmap_SWF power initcap : SWF (new_segmap power initcap) /\ forall k, sabs (new_segmap power initcap) k = None.
  Proof.
    unfold new_segmap.
    set (p := if (power <? seg_power_min)%Z then seg_power_min else if (seg_power_max <? power)%Z then seg_power_max else power).
    set (c := let c0 := (initcap / 2 ^ p)%Z in if (c0 <? seg_cap_min)%Z then seg_cap_min else c0).
    assert (Hp : (0 < 2 ^ p)%Z).
    { apply Z.pow_pos_nonneg; [lia|]. unfold p, seg_power_min, seg_power_max.
      destruct (Z.ltb_spec power 4); [lia|]. destruct (Z.ltb_spec 8 power); lia. }
    destruct (new_table_WF mix c) as [W Ha].
    assert (Hseg : forall i, i < Z.to_nat (2 ^ p) -> seg (mk_segmap (repeat (new_table c) (Z.to_nat (2 ^ p))) 0) i = new_table c).
    { intros i Hi. unfold seg. simpl. revert i Hi. generalize (Z.to_nat (2 ^ p)).
      induction n; intros [|i] Hi; simpl; try lia; auto. apply IHn. lia. }
    split.
    - constructor; unfold nsegs; simpl; rewrite ?repeat_length.
      + lia.
      + intros i Hi. rewrite Hseg by auto. exact W.
      + intros i k Hi Hne. rewrite Hseg in Hne by auto. rewrite Ha in Hne. congruence.
      + rewrite sum_repeat. destruct W as [_ _ _ Hs _ _ _].
        unfold new_table in *. simpl in *. rewrite occ_repeat in Hs. simpl in Hs. lia.
    - intros k. unfold sabs. set (m := mk_segmap _ _).
      assert (Hn : nsegs m = Z.to_nat (2 ^ p)) by (unfold nsegs, m; simpl; apply repeat_length).
      unfold m at 1. rewrite Hseg; auto. unfold ksi. rewrite Hn. apply sidx_lt. lia.
  Qed.
End Seg.
