(* C16 — the lock sections of the interleaving model are linearization points: for
   every schedule the operations performed (Lin.step_ev), in the order of the run,
   are a legal sequential history of a finite map, and the segment tables hold what
   that history leaves.  For an arbitrary slot hash, segment selector, eviction
   offset and either spill loop. *)
From Sdns Require Import Common.Base Gen.C16 C16.Model C16.Conc C16.Lin.
From Sdns Require Import C16.Proofs_cyc C16.Proofs_tab C16.Proofs_wf C16.Proofs_more C16.Proofs_seg C16.Proofs_conc.
Open Scope nat_scope.

(* ------------------------------------------------ the sequential spec *)
Lemma oeqb_refl a : oeqb a a = true.
Proof. destruct a; simpl; auto. apply N.eqb_refl. Qed.
Lemma oeqb_eq a b : oeqb a b = true -> a = b.
Proof. destruct a, b; simpl; intros H; try discriminate; auto. apply N.eqb_eq in H. congruence. Qed.
Lemma lmem_in k ks : lmem k ks = true <-> In k ks.
Proof.
  unfold lmem. rewrite existsb_exists. split.
  - intros [x [Hin He]]. apply N.eqb_eq in He. subst. exact Hin.
  - intros H. exists k. split; auto. apply N.eqb_refl.
Qed.
Lemma lmem_not k ks : lmem k ks = false <-> ~ In k ks.
Proof.
  rewrite <- lmem_in. destruct (lmem k ks); split; intros H; try discriminate; auto.
  exfalso. apply H. reflexivity.
Qed.

Lemma forallb_ext' {A} (f g : A -> bool) l : (forall a, f a = g a) -> forallb f l = forallb g l.
Proof. intros H. induction l; simpl; auto. rewrite H, IHl. reflexivity. Qed.
Lemma lev_legal_ext f g e : (forall k, f k = g k) -> lev_legal f e = lev_legal g e.
Proof.
  intros H. destruct e; simpl; rewrite ?H; auto.
  all: first [ apply forallb_ext'; intros x; rewrite H; reflexivity
             | apply (f_equal (andb _)); apply forallb_ext'; intros x; rewrite H; reflexivity ].
Qed.
Lemma legal_ext l : forall f g, (forall k, f k = g k) -> legal f l = legal g l.
Proof.
  induction l as [|e l IH]; intros f g H; simpl; auto.
  rewrite (lev_legal_ext f g e H). f_equal. apply IH. intros k. unfold val_after. rewrite H. reflexivity.
Qed.
Lemma reg_val_after l : forall val e k, reg l k (val_after val e k) = reg (e :: l) k (val k).
Proof. reflexivity. Qed.

(* what a legal history says about its reads and evictions *)
Lemma legal_app_inv l1 : forall val l2, legal val (l1 ++ l2) = true ->
  legal (fun k => reg l1 k (val k)) l2 = true.
Proof.
  induction l1 as [|e l1 IH]; intros val l2 H; simpl in *.
  - erewrite legal_ext; [exact H|]. reflexivity.
  - apply andb_true_iff in H. destruct H as [_ H]. apply IH in H.
    erewrite legal_ext; [exact H|]. intros k. reflexivity.
Qed.
Lemma legal_get_latest val l1 tid k r l2 :
  legal val (l1 ++ LGet tid k r :: l2) = true -> r = reg l1 k (val k).
Proof.
  intros H. apply legal_app_inv in H. simpl in H. apply andb_true_iff in H. destruct H as [H _].
  apply oeqb_eq in H. exact H.
Qed.
Lemma legal_scan_latest val l1 tid l l2 k v :
  legal val (l1 ++ LScan tid l :: l2) = true -> In (k, v) l -> reg l1 k (val k) = Some v.
Proof.
  intros H Hin. apply legal_app_inv in H. simpl in H. apply andb_true_iff in H. destruct H as [H _].
  rewrite forallb_forall in H. specialize (H _ Hin). simpl in H. apply oeqb_eq in H. exact H.
Qed.
Lemma legal_evict_own val l1 tid own ks l2 :
  legal val (l1 ++ LEvict tid own ks :: l2) = true ->
  ~ In own ks /\ forall g, In g ks -> reg l1 g (val g) <> None.
Proof.
  intros H. apply legal_app_inv in H. simpl in H. apply andb_true_iff in H. destruct H as [H _].
  apply andb_true_iff in H. destruct H as [A B]. split.
  - apply lmem_not. destruct (lmem own ks); simpl in A; congruence.
  - intros g Hg. rewrite forallb_forall in B. specialize (B _ Hg). destruct (reg l1 g (val g)); simpl in B; congruence.
Qed.
Lemma legal_cas_identity val l1 tid k old v hit l2 :
  legal val (l1 ++ LCas tid k old v hit :: l2) = true -> (hit = true <-> reg l1 k (val k) = Some old).
Proof.
  intros H. apply legal_app_inv in H. simpl in H. apply andb_true_iff in H. destruct H as [H _].
  apply eqb_prop in H. subst hit. split; [apply oeqb_eq|]. intros ->. apply oeqb_refl.
Qed.
Lemma legal_cad_identity val l1 tid k old hit l2 :
  legal val (l1 ++ LCad tid k old hit :: l2) = true -> (hit = true <-> reg l1 k (val k) = Some old).
Proof.
  intros H. apply legal_app_inv in H. simpl in H. apply andb_true_iff in H. destruct H as [H _].
  apply eqb_prop in H. subst hit. split; [apply oeqb_eq|]. intros ->. apply oeqb_refl.
Qed.

Lemma legal_reading : forall (val : N -> option N) l1 l2,
  (forall tid k r, legal val (l1 ++ LGet tid k r :: l2) = true -> r = reg l1 k (val k)) /\
  (forall tid l k v, legal val (l1 ++ LScan tid l :: l2) = true -> In (k, v) l -> reg l1 k (val k) = Some v) /\
  (forall tid own ks, legal val (l1 ++ LEvict tid own ks :: l2) = true ->
     ~ In own ks /\ forall g, In g ks -> reg l1 g (val g) <> None) /\
  (forall tid k old v hit, legal val (l1 ++ LCas tid k old v hit :: l2) = true ->
     (hit = true <-> reg l1 k (val k) = Some old)) /\
  (forall tid k old hit, legal val (l1 ++ LCad tid k old hit :: l2) = true ->
     (hit = true <-> reg l1 k (val k) = Some old)).
Proof.
  intros val l1 l2. split; [|split; [|split; [|split]]].
  - intros tid k r. apply legal_get_latest.
  - intros tid l k v. apply legal_scan_latest.
  - intros tid own ks. apply legal_evict_own.
  - intros tid k old v hit. apply legal_cas_identity.
  - intros tid k old hit. apply legal_cad_identity.
Qed.

Section LinProofs.
  Variable mix : N -> N.
  Variable sidx : nat -> N -> nat.
  Variable eoff : N -> Z.
  Variable rescan : bool.
  Hypothesis sidx_lt : forall n k, 0 < n -> sidx n k < n.
  Notation WF := (WF mix).
  Notation step := (step mix sidx eoff rescan).
  Notation sabs := (sabs sidx).
  Notation SegsOK := (SegsOK mix sidx).
  Notation Inv := (Inv mix sidx).
  Notation step_ev := (step_ev mix sidx eoff).
  Notation run_log := (run_log mix sidx eoff rescan).

  Lemma sabs_set m j t' c k : j < nsegs m ->
    sabs (set_seg m j t' c) k = if sidx (nsegs m) k =? j then abs t' k else sabs m k.
  Proof.
    intros Hj. unfold Proofs_seg.sabs, ksi.
    assert (Hn : nsegs (set_seg m j t' c) = nsegs m) by (unfold nsegs, set_seg; simpl; apply upd_seg_length).
    rewrite Hn. unfold seg, set_seg. simpl.
    destruct (Nat.eqb_spec (sidx (nsegs m) k) j) as [->|Hne].
    - rewrite nth_upd_seg_eq; auto.
    - rewrite nth_upd_seg_neq; auto.
  Qed.
  Lemma sabs_count m c k : sabs (mk_segmap (sm_segs m) c) k = sabs m k.
  Proof. reflexivity. Qed.

  (* replacing segment j's table: the operation acts on j's keys as the event says and
     the event leaves the keys of the other segments alone *)
  Lemma set_lin m j t' c e : j < nsegs m ->
    (forall k, sidx (nsegs m) k = j -> abs t' k = lev_apply e k (abs (seg m j) k)) ->
    (forall k, sidx (nsegs m) k <> j -> lev_apply e k (sabs m k) = sabs m k) ->
    forall k, sabs (set_seg m j t' c) k = lev_apply e k (sabs m k).
  Proof.
    intros Hj Hin Hout k. rewrite sabs_set by exact Hj.
    destruct (Nat.eqb_spec (sidx (nsegs m) k) j) as [E|E].
    - rewrite (Hin k E). unfold Proofs_seg.sabs, ksi. rewrite E. reflexivity.
    - symmetry. apply Hout. exact E.
  Qed.
  Lemma set_same m j t' c : j < nsegs m -> (forall k, abs t' k = abs (seg m j) k) ->
    forall k, sabs (set_seg m j t' c) k = sabs m k.
  Proof.
    intros Hj H k. rewrite sabs_set by exact Hj.
    destruct (Nat.eqb_spec (sidx (nsegs m) k) j) as [E|E]; auto.
    rewrite H. unfold Proofs_seg.sabs, ksi. rewrite E. reflexivity.
  Qed.

  Lemma home_of m j k : SegsOK m -> j < nsegs m -> abs (seg m j) k <> None -> sidx (nsegs m) k = j.
  Proof. intros [_ [_ H]] Hj. apply H. exact Hj. Qed.
  Lemma sabs_home m j k : sidx (nsegs m) k = j -> sabs m k = abs (seg m j) k.
  Proof. intros <-. reflexivity. Qed.

  (* keys an eviction took *)
  Lemma gone_spec t t' g : WF t -> WF t' ->
    (In g (gone_keys mix t t') <-> abs t g <> None /\ abs t' g = None).
  Proof.
    intros W W'. unfold gone_keys. rewrite filter_In, in_map_iff. rewrite (tget_abs mix t' g W').
    destruct (tall_spec mix t W) as [_ [Ht _]]. split.
    - intros [[[k v] [Hk Hin]] Hn]. simpl in Hk. subst k. apply Ht in Hin. split; [congruence|].
      destruct (abs t' g); simpl in Hn; congruence.
    - intros [Hp Hn]. destruct (abs t g) as [v|] eqn:E; [|congruence]. split.
      + exists (g, v). split; auto. apply Ht. exact E.
      + rewrite Hn. reflexivity.
  Qed.
  Lemma evict_lin m j off nmax own tid : SegsOK m -> j < nsegs m ->
    let t := seg m j in
    let t' := fst (tevict mix t off nmax own) in
    let e := LEvict tid own (gone_keys mix t t') in
    lev_legal (sabs m) e = true /\
    forall c k, sabs (set_seg m j t' c) k = lev_apply e k (sabs m k).
  Proof.
    intros Hs Hj t t' e.
    assert (W : WF t) by (destruct Hs as [_ [Hw _]]; apply Hw; exact Hj).
    destruct (tevict_spec mix t off nmax own W) as [W' [_ [_ [Hsh Hown]]]]. fold t' in W', Hsh, Hown.
    split.
    - simpl. apply andb_true_iff. split.
      + destruct (lmem own (gone_keys mix t t')) eqn:E; auto. apply lmem_in in E.
        apply (gone_spec t t' own W W') in E. destruct E as [A B]. rewrite Hown in B. congruence.
      + apply forallb_forall. intros g Hg. apply (gone_spec t t' g W W') in Hg. destruct Hg as [A _].
        rewrite (sabs_home m j g (home_of m j g Hs Hj A)). fold t. destruct (abs t g); simpl; congruence.
    - intros c. apply set_lin; auto.
      + intros k _. fold t. simpl. destruct (lmem k (gone_keys mix t t')) eqn:E.
        * apply lmem_in in E. apply (gone_spec t t' k W W') in E. tauto.
        * apply lmem_not in E. destruct (Hsh k) as [H|H]; auto. rewrite H.
          destruct (abs t k) eqn:Ea; auto. exfalso. apply E. apply (gone_spec t t' k W W'). split; congruence.
      + intros k Hk. simpl. destruct (lmem k (gone_keys mix t t')) eqn:E; auto.
        apply lmem_in in E. apply (gone_spec t t' k W W') in E. destruct E as [A _].
        exfalso. apply Hk. apply (home_of m j k Hs Hj A).
  Qed.

  Lemma put_lin m k v tid : SegsOK m ->
    let j := sidx (nsegs m) k in
    forall c k', sabs (set_seg m j (tput mix (seg m j) k v) c) k' = lev_apply (LStore tid k v) k' (sabs m k').
  Proof.
    intros Hs j c. assert (Hj : j < nsegs m) by (apply sidx_lt; apply Hs).
    assert (W : WF (seg m j)) by (destruct Hs as [_ [Hw _]]; apply Hw; exact Hj).
    destruct (tput_spec mix (seg m j) k v W) as [_ [Ha _]].
    apply set_lin; auto.
    - intros k' _. rewrite Ha. unfold upd_abs. simpl. reflexivity.
    - intros k' Hk'. simpl. destruct (N.eqb_spec k' k); auto. subst. exfalso. apply Hk'. reflexivity.
  Qed.

  Lemma present_is_some (a : N -> option N) k : present a k = is_some (a k).
  Proof. unfold present, is_some. destruct (a k); reflexivity. Qed.

  (* the one-section calls *)
  Lemma op_lin m c tid : SegsOK m ->
    let j := sidx (nsegs m) (call_key c) in
    let t := seg m j in
    let ev := match c with
              | CSet k v => Some (LStore tid k v)
              | CPia k v => Some (LPia tid k v (snd (tpia mix t k v)))
              | CDel k => Some (LDel tid k (snd (tdel mix t k)))
              | CCas k old v => Some (LCas tid k old v (hit_of mix t k old))
              | CCad k old => Some (LCad tid k old (hit_of mix t k old))
              | _ => None
              end in
    match ev with
    | Some e => lev_legal (sabs m) e = true /\
                forall cn k', sabs (set_seg m j (fst (table_op mix t c)) cn) k' = lev_apply e k' (sabs m k')
    | None => forall cn k', sabs (set_seg m j (fst (table_op mix t c)) cn) k' = sabs m k'
    end.
  Proof.
    intros Hs j t. assert (Hj : j < nsegs m) by (apply sidx_lt; apply Hs).
    assert (W : WF t) by (destruct Hs as [_ [Hw _]]; apply Hw; exact Hj).
    assert (Hcur : forall k, call_key c = k -> sabs m k = abs t k).
    { intros k Hk. apply sabs_home. unfold j. rewrite Hk. reflexivity. }
    assert (Hother : forall k k', call_key c = k -> sidx (nsegs m) k' <> j -> k' <> k).
    { intros k k' Hk Hne ->. apply Hne. unfold j. rewrite Hk. reflexivity. }
    destruct c; simpl in *; try (intros cn; apply set_same; auto).
    - (* Set *) split; auto. intros cn. apply (put_lin m k v tid Hs).
    - (* PutIfNotExists *)
      pose proof (tpia_spec mix t k v W) as H. rewrite (Hcur k eq_refl).
      destruct (abs t k) eqn:Ea.
      + destruct H as [He [_ [Ha _]]]. rewrite He. simpl. split; auto.
        intros cn. apply (set_lin m j _ cn (LPia tid k v false) Hj).
        * intros k' _. simpl. rewrite andb_false_r. apply Ha.
        * intros k' _. simpl. rewrite andb_false_r. reflexivity.
      + destruct H as [t2 [He [_ [Ha _]]]]. rewrite He. simpl. split; auto.
        intros cn. apply (set_lin m j _ cn (LPia tid k v true) Hj).
        * intros k' _. simpl. rewrite andb_true_r. rewrite Ha. reflexivity.
        * intros k' Hk'. simpl. rewrite andb_true_r. destruct (N.eqb_spec k' k); auto.
          exfalso. apply (Hother k k' eq_refl Hk'). assumption.
    - (* Del *)
      destruct (tdel_spec mix t k W) as [_ [Hr [Ha _]]]. rewrite (Hcur k eq_refl). split.
      + rewrite Hr, present_is_some. apply eqb_reflx.
      + intros cn. destruct (tdel mix t k) as [t' r] eqn:Ed. simpl fst in *. simpl snd in *.
        apply (set_lin m j _ cn (LDel tid k r) Hj).
        * intros k' _. simpl. rewrite Ha. reflexivity.
        * intros k' Hk'. simpl. destruct (N.eqb_spec k' k); auto.
          exfalso. apply (Hother k k' eq_refl Hk'). assumption.
    - (* CompareAndSwap *)
      unfold hit_of. rewrite (tget_abs mix t k W), (Hcur k eq_refl).
      destruct (abs t k) as [cur|] eqn:Ea.
      + destruct (N.eqb_spec cur old) as [->|Hne].
        * split; [simpl; rewrite N.eqb_refl; reflexivity|].
          intros cn k'. simpl fst. rewrite andb_true_r. apply (put_lin m k v tid Hs cn k').
        * split; [simpl; destruct (N.eqb_spec cur old); [congruence|reflexivity]|].
          intros cn. simpl fst. apply (set_lin m j _ cn (LCas tid k old v false) Hj); intros k' _; simpl; rewrite andb_false_r; reflexivity.
      + split; [reflexivity|].
        intros cn. simpl fst. apply (set_lin m j _ cn (LCas tid k old v false) Hj); intros k' _; simpl; rewrite andb_false_r; reflexivity.
    - (* CompareAndDelete *)
      unfold hit_of. rewrite (tget_abs mix t k W), (Hcur k eq_refl).
      destruct (abs t k) as [cur|] eqn:Ea.
      + destruct (N.eqb_spec cur old) as [->|Hne].
        * split; [simpl; rewrite N.eqb_refl; reflexivity|].
          destruct (tdel_spec mix t k W) as [_ [_ [Ha _]]].
          intros cn. destruct (tdel mix t k) as [t' r] eqn:Ed. simpl fst in *.
          apply (set_lin m j _ cn (LCad tid k old true) Hj).
          -- intros k' _. simpl. rewrite andb_true_r. rewrite Ha. reflexivity.
          -- intros k' Hk'. simpl. rewrite andb_true_r. destruct (N.eqb_spec k' k); auto.
             exfalso. apply (Hother k k' eq_refl Hk'). assumption.
        * split; [simpl; destruct (N.eqb_spec cur old); [congruence|reflexivity]|].
          intros cn. simpl fst. apply (set_lin m j _ cn (LCad tid k old false) Hj); intros k' _; simpl; rewrite andb_false_r; reflexivity.
      + split; [reflexivity|].
        intros cn. simpl fst. apply (set_lin m j _ cn (LCad tid k old false) Hj); intros k' _; simpl; rewrite andb_false_r; reflexivity.
  Qed.

  Lemma clear_lin m i tid : SegsOK m -> i < nsegs m ->
    let e := LClear tid (map fst (tall (seg m i))) in
    lev_legal (sabs m) e = true /\
    forall c k, sabs (set_seg m i (tclear (seg m i)) c) k = lev_apply e k (sabs m k).
  Proof.
    intros Hs Hi. set (t := seg m i). intros e.
    assert (W : WF t) by (destruct Hs as [_ [Hw _]]; apply Hw; exact Hi).
    destruct (tall_spec mix t W) as [_ [Ht _]]. destruct (tclear_spec mix t W) as [_ [Hc _]].
    assert (Hk : forall k, In k (map fst (tall t)) <-> abs t k <> None).
    { intros k. rewrite in_map_iff. split.
      - intros [[k' v] [E Hin]]. simpl in E. subst k'. apply Ht in Hin. congruence.
      - intros H. destruct (abs t k) as [v|] eqn:E; [|congruence]. exists (k, v). split; auto. apply Ht. exact E. }
    split.
    - simpl. apply forallb_forall. intros g Hg. apply Hk in Hg.
      rewrite (sabs_home m i g (home_of m i g Hs Hi Hg)). fold t. destruct (abs t g); simpl; congruence.
    - intros c. apply set_lin; auto.
      + intros k _. fold t. simpl. rewrite Hc. destruct (lmem k (map fst (tall t))) eqn:E; auto.
        apply lmem_not in E. destruct (abs t k) eqn:Ea; auto. exfalso. apply E. apply Hk. congruence.
      + intros k Hne. simpl. destruct (lmem k (map fst (tall t))) eqn:E; auto.
        apply lmem_in in E. apply Hk in E. exfalso. apply Hne. apply (home_of m i k Hs Hi E).
  Qed.

  (* ------------------------------------------------------------ one step *)
  Lemma step_lin s tid s' : Inv s -> step s tid = Some s' ->
    match step_ev s tid with
    | Some e => lev_legal (sabs (c_map s)) e = true /\
                forall k, sabs (c_map s') k = lev_apply e k (sabs (c_map s) k)
    | None => forall k, sabs (c_map s') k = sabs (c_map s) k
    end.
  Proof.
    intros I H. pose proof (i_segs mix sidx s I) as Hs.
    assert (Hn : 0 < nsegs (c_map s)) by apply Hs.
    unfold Conc.step in H. unfold Lin.step_ev.
    destruct (nth tid (c_thr s) (Idle, [])) as [p rest] eqn:Hth.
    destruct (length (c_thr s) <=? tid); [discriminate|].
    destruct p.
    - (* Idle *) destruct rest; inversion H; subst; simpl; auto.
    - (* SwcLock *)
      destruct (lock_free s (sidx (nsegs (c_map s)) k)); [|discriminate].
      inversion H; subst; clear H. simpl. split; auto. intros k'. apply (put_lin (c_map s) k v tid Hs).
    - (* SwcAdd *) inversion H; subst; simpl; auto.
    - (* SwcLoad *)
      destruct (cap <? sm_count (c_map s))%Z.
      + assert (Hj : sidx (nsegs (c_map s)) k < nsegs (c_map s)) by (apply sidx_lt; exact Hn).
        pose proof (evict_lin (c_map s) _ (eoff k) evict_toll k tid Hs Hj) as [A B].
        destruct (tevict mix (seg (c_map s) (sidx (nsegs (c_map s)) k)) (eoff k) evict_toll k) as [t2 d] eqn:Ee.
        inversion H; subst; clear H. simpl in *. split; [exact A|]. intros k'. apply B.
      + inversion H; subst; simpl; auto.
    - (* SwcSub *) inversion H; subst; simpl; auto.
    - (* SpLoad *)
      destruct (sp_continue rescan (nsegs (c_map s)) i cap deficit);
        [destruct (sm_count (c_map s) <=? cap)%Z|]; inversion H; subst; simpl; auto.
    - (* SpEvict *)
      destruct (lock_free s ((sidx (nsegs (c_map s)) k + i) mod nsegs (c_map s))); [|discriminate].
      assert (Hj : (sidx (nsegs (c_map s)) k + i) mod nsegs (c_map s) < nsegs (c_map s)) by (apply Nat.mod_upper_bound; lia).
      pose proof (evict_lin (c_map s) _ (eoff k) deficit k tid Hs Hj) as [A B].
      destruct (tevict mix (seg (c_map s) ((sidx (nsegs (c_map s)) k + i) mod nsegs (c_map s))) (eoff k) deficit k) as [t2 d] eqn:Ee.
      inversion H; subst; clear H. simpl in *. split; [exact A|]. intros k'. apply B.
    - (* SpSub *) destruct (0 <? d)%Z; inversion H; subst; simpl; auto.
    - (* OpLock *)
      destruct (lock_free s (sidx (nsegs (c_map s)) (call_key c))); [|discriminate].
      pose proof (op_lin (c_map s) c tid Hs) as L. cbv zeta in L.
      destruct (table_op mix (seg (c_map s) (sidx (nsegs (c_map s)) (call_key c))) c) as [t' delta] eqn:Et.
      inversion H; subst; clear H. simpl in *.
      destruct c; simpl in *; try (intros k'; apply L); (destruct L as [A B]; split; [exact A|intros k'; apply B]).
    - (* OpAdd *) inversion H; subst; simpl; auto.
    - (* ClrSeg *)
      destruct (Nat.ltb_spec i (nsegs (c_map s))) as [Hi|Hi]; simpl.
      + destruct (lock_free s i); [|discriminate].
        pose proof (clear_lin (c_map s) i tid Hs Hi) as [A B].
        inversion H; subst; clear H. simpl in *. split; [exact A|]. intros k'. apply B.
      + inversion H; subst; simpl; auto.
    - (* ClrSub *) inversion H; subst; simpl; auto.
    - (* RdGet *)
      destruct (lock_free s (sidx (nsegs (c_map s)) k)); [|discriminate].
      inversion H; subst; clear H. simpl. split; auto.
      assert (Hj : sidx (nsegs (c_map s)) k < nsegs (c_map s)) by (apply sidx_lt; exact Hn).
      assert (W : WF (seg (c_map s) (sidx (nsegs (c_map s)) k))) by (destruct Hs as [_ [Hw _]]; apply Hw; exact Hj).
      rewrite (tget_abs mix _ k W). apply oeqb_refl.
    - (* FeSeg *)
      destruct (Nat.ltb_spec i (nsegs (c_map s))) as [Hi|Hi]; simpl.
      + destruct (lock_free s i); [|discriminate].
        inversion H; subst; clear H. simpl. split; auto.
        assert (W : WF (seg (c_map s) i)) by (destruct Hs as [_ [Hw _]]; apply Hw; exact Hi).
        destruct (tall_spec mix _ W) as [_ [Ht _]].
        apply forallb_forall. intros [k v] Hin. simpl. apply Ht in Hin.
        assert (Hp : abs (seg (c_map s) i) k <> None) by congruence.
        rewrite (sabs_home (c_map s) i k (home_of (c_map s) i k Hs Hi Hp)). rewrite Hin. apply oeqb_refl.
      + inversion H; subst; simpl; auto.
  Qed.

  (* --------------------------------------------------------------- runs *)
  Lemma run_log_fst sched : forall s, fst (run_log s sched) = run mix sidx eoff rescan s sched.
  Proof.
    induction sched as [|tid r IH]; intros s; simpl; auto.
    destruct (step s tid) as [s'|] eqn:E.
    - specialize (IH s'). destruct (run_log s' r) as [sf log]. simpl in *. exact IH.
    - apply IH.
  Qed.

  Lemma run_lin sched : forall s, Inv s ->
    legal (sabs (c_map s)) (snd (run_log s sched)) = true /\
    forall k, sabs (c_map (fst (run_log s sched))) k = reg (snd (run_log s sched)) k (sabs (c_map s) k).
  Proof.
    induction sched as [|tid r IH]; intros s I; simpl; auto.
    destruct (step s tid) as [s'|] eqn:E; [|apply IH; exact I].
    pose proof (step_inv mix sidx eoff rescan sidx_lt s tid s' I E) as I'.
    pose proof (step_lin s tid s' I E) as L.
    destruct (IH s' I') as [A B]. destruct (run_log s' r) as [sf log]. simpl in *.
    destruct (step_ev s tid) as [e|].
    - destruct L as [Le La]. simpl. split.
      + rewrite Le. simpl. erewrite legal_ext; [exact A|]. intros k. unfold val_after. symmetry. apply La.
      + intros k. rewrite B, La. reflexivity.
    - split.
      + erewrite legal_ext; [exact A|]. intros k. symmetry. apply L.
      + intros k. rewrite B, L. reflexivity.
  Qed.

  Theorem runs_linearize m0 progs sched : SWF mix sidx m0 ->
    let r := run_log (init m0 progs) sched in
    fst r = run mix sidx eoff rescan (init m0 progs) sched /\
    legal (sabs m0) (snd r) = true /\
    forall k, sabs (c_map (fst r)) k = reg (snd r) k (sabs m0 k).
  Proof.
    intros S r. split; [apply run_log_fst|].
    exact (run_lin sched (init m0 progs) (init_inv mix sidx m0 progs S)).
  Qed.
End LinProofs.
