(* C16 — model of internal/cache: UInt64Map (open addressing, linear probing,
   backward-shift deletion, zero key out of band), SegmentUInt64Map /
   SyncUInt64Map / cache.Cache (vector of tables + one atomic counter).

   Written from the Go source line by line.  Executable definitions only.

   Conventions
   * keys and values are [N] (uint64 keys; values are small integers or the
     identity of an `any` value — the driver maps pointers to unique ids);
   * a slot is a pair (key, value); key 0 = empty slot (the Go code clears the
     value of every slot it empties, so an empty slot is exactly (0,0));
   * slot indices are [nat]; `(idx+1) & mask` on an index below len = 2^p is
     [nxt]; `x & mask` is `x mod len` (lemmas [nxt_land], [hidx_land] in
     Proofs tie the two readings for powers of two);
   * Go `int`s (size, growAt, count, capacity, offsets) are ideal [Z];
   * the slot hash [mix] is a section variable: every definition and theorem
     is for an arbitrary hash; [go_mix] below is the code's multiplicative
     hash (uint64 wrap written in) used when running;
   * [t_bad] is not a Go field: it is set when the model leaves the envelope
     in which it is faithful (a loop of the Go code that has no bound would
     not have terminated within the model's fuel, or the "should never
     happen" fallback of Put failed twice).  WF tables never set it
     (Proofs: [*_not_bad]) and the drivers require it to stay false. *)
From Sdns Require Import Common.Base Gen.C16.
Open Scope nat_scope.

Definition slot := (N * N)%type.
Definition empty_slot : slot := (0%N, 0%N).
Definition sl (d : list slot) (i : nat) : slot := nth i d empty_slot.
Definition skey (d : list slot) (i : nat) : N := fst (sl d i).

Fixpoint upd (i : nat) (s : slot) (d : list slot) : list slot :=
  match d with
  | [] => []
  | x :: r => match i with 0 => s :: r | S i' => x :: upd i' s r end
  end.

(* (i + 1) & mask for i < n *)
Definition nxt (n i : nat) : nat := if S i <? n then S i else 0.

Record table := mk_table {
  t_data : list slot;      (* m.data; len = mask+1 *)
  t_size : Z;              (* m.size *)
  t_growAt : Z;            (* m.growAt *)
  t_zero : option N;       (* hasZeroKey / zeroVal *)
  t_bad : bool }.

(* int(float64(n) * 0.75) / int(float64(c) / 0.75): exact in float64 for the
   sizes in play (n a multiple of 4; c < 2^50) *)
Definition mul_load (ld : Z * Z) (n : Z) : Z := (n * fst ld / snd ld)%Z.
Definition div_load (ld : Z * Z) (c : Z) : Z := (c * snd ld / fst ld)%Z.

(* for size < capacity { size *= 2 }  — fuel 64: sizes are Go ints *)
Fixpoint pow2_ge (fuel : nat) (size c : Z) : Z :=
  match fuel with
  | 0 => size
  | S f => if (size <? c)%Z then pow2_ge f (2 * size)%Z c else size
  end.

Definition new_table (capacity : Z) : table :=
  let size := if (min_slots_cap <? capacity)%Z
              then pow2_ge 64 1%Z (div_load load_new_div capacity)
              else min_slots in
  mk_table (repeat empty_slot (Z.to_nat size)) 0%Z (mul_load load_new_mul size) None false.

(* grow(): newLen.  The code doubles; from 2^20 slots on it takes 1.5x and
   rounds up to a power of two with the or-smear, which for a power of two
   is again the double.  [go_grow_len] is the code's computation,
   [gen_grow_len_pow2] (Proofs) shows it equals [grow_len] on every table
   length a Go int can hold; the model uses [grow_len]. *)
Definition go_grow_len (oldLen : N) : N :=
  let newLen := (oldLen * grow_factor)%N in
  let newLen := if (grow_large_from <=? oldLen)%N then (oldLen + oldLen / grow_large_div)%N else newLen in
  if (N.land newLen (newLen - 1) =? 0)%N then newLen else
    let x := (newLen - 1)%N in
    let x := N.lor x (N.shiftr x 1) in
    let x := N.lor x (N.shiftr x 2) in
    let x := N.lor x (N.shiftr x 4) in
    let x := N.lor x (N.shiftr x 8) in
    let x := N.lor x (N.shiftr x 16) in
    let x := N.lor x (N.shiftr x 32) in
    (x + 1)%N.
Definition grow_len (oldLen : nat) : nat := N.to_nat grow_factor * oldLen.

(* backwardShiftDelete's test: ideal slot k cyclically within (i, j] *)
Definition stay (i j k : nat) : bool :=
  if i <=? j then (i <? k) && (k <=? j) else (i <? k) || (k <=? j).

Definition zcount (z : option N) : Z := match z with Some _ => 1%Z | None => 0%Z end.

Inductive probe_res := PFound (i : nat) | PEmpty (i : nat) | PNone.

Section Ops.
  Variable mix : N -> N.       (* h ^ (h>>16) of the code; arbitrary here *)

  (* primaryIndex: int(mix key) & mask *)
  Definition hidx (n : nat) (k : N) : nat := N.to_nat (N.modulo (mix k) (N.of_nat n)).

  (* the probe loop shared by Has/Get/Put/PutIfNotExists/Del/grow: look at the
     primary slot, then at most len-1 following ones, stop at the first slot
     satisfying [stop] *)
  Fixpoint scan (stop : slot -> bool) (fuel : nat) (d : list slot) (n idx : nat) : option nat :=
    match fuel with
    | 0 => None
    | S f => if stop (sl d idx) then Some idx else scan stop f d n (nxt n idx)
    end.

  Definition stop_key (k : N) (s : slot) : bool := N.eqb (fst s) k || N.eqb (fst s) 0.
  Definition stop_empty (s : slot) : bool := N.eqb (fst s) 0.

  (* key <> 0 here, so "slot holds key" and "slot is empty" exclude each other and
     the order in which the Go functions test them does not matter *)
  Definition probe (d : list slot) (k : N) : probe_res :=
    let n := length d in
    match scan (stop_key k) n d n (hidx n k) with
    | Some i => if N.eqb (skey d i) k then PFound i else PEmpty i
    | None => PNone
    end.

  Definition tget (t : table) (k : N) : option N :=
    if N.eqb k 0 then t_zero t else
    match probe (t_data t) k with
    | PFound i => Some (snd (sl (t_data t) i))
    | _ => None
    end.
  Definition thas (t : table) (k : N) : bool :=
    match tget t k with Some _ => true | None => false end.
  Definition tlen (t : table) : Z := t_size t.

  (* grow: re-insert every non-zero key at its first empty slot *)
  Definition place (d : list slot) (s : slot) : list slot * bool :=
    let n := length d in
    match scan stop_empty n d n (hidx n (fst s)) with
    | Some i => (upd i s d, true)
    | None => (d, false)
    end.
  Definition regrow_step (acc : list slot * Z) (s : slot) : list slot * Z :=
    if N.eqb (fst s) 0 then acc else
    let '(d', ok) := place (fst acc) s in (d', if ok then (snd acc + 1)%Z else snd acc).
  Definition regrow (old : list slot) (newn : nat) : list slot * Z :=
    fold_left regrow_step old (repeat empty_slot newn, 0%Z).
  Definition tgrow (t : table) : table :=
    let newn := grow_len (length (t_data t)) in
    let r := regrow (t_data t) newn in
    mk_table (fst r) (snd r + zcount (t_zero t))%Z (mul_load load_grow_mul (Z.of_nat newn)) (t_zero t) (t_bad t).

  Definition need_grow (t : table) : bool := (t_growAt t <=? t_size t)%Z.
  Definition with_data (t : table) (d : list slot) (sz : Z) : table :=
    mk_table d sz (t_growAt t) (t_zero t) (t_bad t).
  Definition set_bad (t : table) : table :=
    mk_table (t_data t) (t_size t) (t_growAt t) (t_zero t) true.

  (* Put after the growth check; None = probe loop fell through *)
  Definition put_core (t : table) (k v : N) : option table :=
    match probe (t_data t) k with
    | PEmpty i => Some (with_data t (upd i (k, v) (t_data t)) (t_size t + 1)%Z)
    | PFound i => Some (with_data t (upd i (k, v) (t_data t)) (t_size t))
    | PNone => None
    end.
  Definition grow_if_needed (t : table) : table := if need_grow t then tgrow t else t.

  Definition tput (t : table) (k v : N) : table :=
    if N.eqb k 0 then
      mk_table (t_data t) (t_size t + (1 - zcount (t_zero t)))%Z (t_growAt t) (Some v) (t_bad t)
    else
      let t1 := grow_if_needed t in
      match put_core t1 k v with
      | Some t2 => t2
      | None => (* m.grow(); m.Put(key, val) *)
          let t3 := grow_if_needed (tgrow t1) in
          match put_core t3 k v with Some t4 => t4 | None => set_bad t3 end
      end.

  (* PutIfNotExists: (table, returned value, inserted) *)
  Definition pia_core (t : table) (k v : N) : option (table * N * bool) :=
    match probe (t_data t) k with
    | PEmpty i => Some (with_data t (upd i (k, v) (t_data t)) (t_size t + 1)%Z, v, true)
    | PFound i => Some (t, snd (sl (t_data t) i), false)
    | PNone => None
    end.
  Definition tpia (t : table) (k v : N) : table * N * bool :=
    if N.eqb k 0 then
      match t_zero t with
      | Some z => (t, z, false)
      | None => (mk_table (t_data t) (t_size t + 1)%Z (t_growAt t) (Some v) (t_bad t), v, true)
      end
    else
      let t1 := grow_if_needed t in
      match pia_core t1 k v with
      | Some r => r
      | None =>
          let t3 := grow_if_needed (tgrow t1) in
          match pia_core t3 k v with Some r => r | None => (set_bad t3, v, false) end
      end.

  (* backwardShiftDelete(deletedIdx): gap i, cursor j.  The Go loop has no
     bound; [None] = not finished within [fuel] iterations. *)
  Fixpoint bshift (fuel : nat) (d : list slot) (n i j : nat) : option (list slot) :=
    match fuel with
    | 0 => None
    | S f =>
        let j' := nxt n j in
        let s := sl d j' in
        if N.eqb (fst s) 0 then Some d
        else if stay i j' (hidx n (fst s)) then bshift f d n i j'
        else bshift f (upd j' empty_slot (upd i s d)) n j' j'
    end.

  (* data[i] = {}; size--; backwardShiftDelete(i) *)
  Definition del_at (t : table) (i : nat) : table :=
    let d1 := upd i empty_slot (t_data t) in
    let n := length d1 in
    match bshift n d1 n i i with
    | Some d2 => with_data t d2 (t_size t - 1)%Z
    | None => set_bad (with_data t d1 (t_size t - 1)%Z)
    end.

  Definition tdel (t : table) (k : N) : table * bool :=
    if N.eqb k 0 then
      match t_zero t with
      | Some _ => (mk_table (t_data t) (t_size t - 1)%Z (t_growAt t) None (t_bad t), true)
      | None => (t, false)
      end
    else
      match probe (t_data t) k with
      | PFound i => (del_at t i, true)
      | _ => (t, false)
      end.

  (* ForEach with a callback that never stops: zero key first, then slot order *)
  Definition tall (t : table) : list (N * N) :=
    match t_zero t with Some z => [(0%N, z)] | None => [] end
    ++ filter (fun s => negb (N.eqb (fst s) 0)) (t_data t).

  Definition tclear (t : table) : table :=
    mk_table (repeat empty_slot (length (t_data t))) 0%Z (t_growAt t) None (t_bad t).

  (* EvictKeysAt's scan: every iteration advances the cursor or consumes one of
     the maxdel deletions, so [fuel] = n + maxdel is exact (at fuel 0 the loop
     condition is false) *)
  Fixpoint evict_loop (fuel : nat) (t : table) (n idx scanned deleted maxdel : nat) (skip : N) : table * nat :=
    match fuel with
    | 0 => (t, deleted)
    | S f =>
        if (scanned <? n) && (deleted <? maxdel) then
          let k := skey (t_data t) idx in
          if N.eqb k 0 || N.eqb k skip
          then evict_loop f t n (nxt n idx) (S scanned) deleted maxdel skip
          else evict_loop f (del_at t idx) n idx scanned (S deleted) maxdel skip
        else (t, deleted)
    end.

  Definition tevict (t : table) (offset nmax : Z) (skip : N) : table * Z :=
    let n := length (t_data t) in
    if (nmax <=? 0)%Z || (n =? 0) then (t, 0%Z) else
    let maxdel := Z.to_nat nmax in
    let idx := Z.to_nat (Z.modulo offset (Z.of_nat n)) in           (* offset & m.mask *)
    let '(t1, deleted) := evict_loop (n + maxdel) t n idx 0 0 maxdel skip in
    match t_zero t1 with
    | Some _ =>
        if (deleted <? maxdel) && negb (N.eqb skip 0)
        then (mk_table (t_data t1) (t_size t1 - 1)%Z (t_growAt t1) None (t_bad t1), Z.of_nat (S deleted))
        else (t1, Z.of_nat deleted)
    | None => (t1, Z.of_nat deleted)
    end.

  (* ---------------------------------------------------------------- *)
  (* SegmentUInt64Map / SyncUInt64Map / cache.Cache, every call run to
     completion (sequential histories).  [sidx] = getSegmentIndex, [eoff] =
     the eviction scan offset; both arbitrary functions of the key here. *)
  Variable sidx : nat -> N -> nat.    (* number of segments -> key -> segment *)
  Variable eoff : N -> Z.

  Record segmap := mk_segmap { sm_segs : list table; sm_count : Z }.

  Definition dummy_table : table := mk_table [] 0%Z 0%Z None true.
  Definition seg (m : segmap) (i : nat) : table := nth i (sm_segs m) dummy_table.
  Fixpoint upd_seg (i : nat) (t : table) (l : list table) : list table :=
    match l with
    | [] => []
    | x :: r => match i with 0 => t :: r | S i' => x :: upd_seg i' t r end
    end.
  Definition set_seg (m : segmap) (i : nat) (t : table) (c : Z) : segmap :=
    mk_segmap (upd_seg i t (sm_segs m)) c.
  Definition nsegs (m : segmap) : nat := length (sm_segs m).
  Definition ksi (m : segmap) (k : N) : nat := sidx (nsegs m) k.

  Definition new_segmap (segmentPower initialCapacity : Z) : segmap :=
    let p := if (segmentPower <? seg_power_min)%Z then seg_power_min
             else if (seg_power_max <? segmentPower)%Z then seg_power_max else segmentPower in
    let cnt := (2 ^ p)%Z in
    let c := (initialCapacity / cnt)%Z in
    let c := if (c <? seg_cap_min)%Z then seg_cap_min else c in
    mk_segmap (repeat (new_table c) (Z.to_nat cnt)) 0%Z.

  Definition sm_get (m : segmap) (k : N) : option N := tget (seg m (ksi m k)) k.
  Definition sm_len (m : segmap) : Z := sm_count m.

  Definition sm_set (m : segmap) (k v : N) : segmap :=
    let i := ksi m k in
    let t := seg m i in
    let t' := tput t k v in
    set_seg m i t' (if (tlen t <? tlen t')%Z then sm_count m + 1 else sm_count m)%Z.

  Definition sm_pia (m : segmap) (k v : N) : segmap * N * bool :=
    let i := ksi m k in
    let '(t', r, ins) := tpia (seg m i) k v in
    (set_seg m i t' (if ins then sm_count m + 1 else sm_count m)%Z, r, ins).

  Definition sm_del (m : segmap) (k : N) : segmap * bool :=
    let i := ksi m k in
    let '(t', r) := tdel (seg m i) k in
    (set_seg m i t' (if r then sm_count m - 1 else sm_count m)%Z, r).

  (* SetWithCap, first atomic section (own segment, under its lock): the new state and the deficit *)
  Definition swc_own (m : segmap) (k v : N) (cap : Z) : segmap * Z :=
    let i := ksi m k in
    let t := seg m i in
    let t1 := tput t k v in
    let c1 := (if (tlen t <? tlen t1)%Z then sm_count m + 1 else sm_count m)%Z in
    if (cap <? c1)%Z then
      let '(t2, d) := tevict t1 (eoff k) evict_toll k in
      (set_seg m i t2 (if (0 <? d)%Z then c1 - d else c1)%Z, (evict_toll_deficit - d)%Z)
    else (set_seg m i t1 c1, 0%Z).

  (* one turn of the spill loop at distance [i] from the own segment;
     None = returned (count <= capacity) *)
  Definition swc_spill (m : segmap) (k : N) (cap : Z) (i : nat) (deficit : Z) : option (segmap * Z) :=
    if (sm_count m <=? cap)%Z then None else
    let j := Nat.modulo (ksi m k + i) (nsegs m) in                 (* (segIdx+i) & segmentMask *)
    let '(t', d) := tevict (seg m j) (eoff k) deficit k in
    Some (if (0 <? d)%Z then (set_seg m j t' (sm_count m - d)%Z, (deficit - d)%Z)
          else (set_seg m j t' (sm_count m), deficit)).

  (* for i := 1; i < len(segments) && deficit > 0; i++ *)
  Fixpoint swc_loop (fuel : nat) (m : segmap) (k : N) (cap : Z) (i : nat) (deficit : Z) : segmap :=
    match fuel with
    | 0 => m
    | S f =>
        if (i <? nsegs m) && (0 <? deficit)%Z then
          match swc_spill m k cap i deficit with
          | None => m
          | Some (m', deficit') => swc_loop f m' k cap (S i) deficit'
          end
        else m
    end.

  Definition sm_set_with_cap (m : segmap) (k v : N) (cap : Z) : segmap :=
    let '(m1, deficit) := swc_own m k v cap in
    if (deficit <=? 0)%Z then m1 else swc_loop (nsegs m1) m1 k cap 1 deficit.

  Definition sm_all (m : segmap) : list (N * N) := flat_map tall (sm_segs m).
  (* Clear: per segment, under its lock: itemsCleared = Len(); Clear(); count.Add(-itemsCleared) *)
  Definition sm_clear (m : segmap) : segmap :=
    mk_segmap (map tclear (sm_segs m)) (fold_left (fun c t => c - tlen t)%Z (sm_segs m) (sm_count m)).
  Definition sm_clear_segment (m : segmap) (index : Z) : segmap :=
    if (index <? 0)%Z || (Z.of_nat (nsegs m) <=? index)%Z then m else
    let i := Z.to_nat index in
    let t := seg m i in
    set_seg m i (tclear t) (sm_count m - tlen t)%Z.

  (* cache.Cache.CompareAndSwap / CompareAndDelete: under the key's segment write lock *)
  Definition c_cas (m : segmap) (k old v : N) : segmap * bool :=
    let i := ksi m k in
    let t := seg m i in
    match tget t k with
    | Some cur => if N.eqb cur old then (set_seg m i (tput t k v) (sm_count m), true) else (m, false)
    | None => (m, false)
    end.
  Definition c_cad (m : segmap) (k old : N) : segmap * bool :=
    let i := ksi m k in
    let t := seg m i in
    match tget t k with
    | Some cur =>
        if N.eqb cur old then
          let '(t', r) := tdel t k in
          if r then (set_seg m i t' (sm_count m - 1)%Z, true) else (set_seg m i t' (sm_count m), false)
        else (m, false)
    | None => (m, false)
    end.
End Ops.

(* ------------------------------------------------------------------ *)
(* the code's hash functions, uint64 wrap written in ([w64] = [wrap64], lemma
   w64_wrap64 in Proofs_more; the mask form evaluates faster than a division) *)
Definition w64 (x : N) : N := N.land x 18446744073709551615%N.
Definition go_mix (k : N) : N :=
  let h := w64 (k * hash_mult) in N.lxor h (N.shiftr h hash_shift).
Definition go_sidx (nseg : nat) (k : N) : nat :=
  let h := w64 (k * seg_mult) in N.to_nat (N.modulo (N.shiftr h seg_shift) (N.of_nat nseg)).
Definition go_eoff (k : N) : Z := Z.of_N (N.shiftr (w64 (k * evict_mult)) evict_shift).

(* cache.New(size): 256 segments; sizePower by the switch *)
Definition new_cache_power (size : Z) : Z :=
  if (size <=? 1024)%Z then 8 else if (size <=? 10000)%Z then 10
  else if (size <=? 100000)%Z then 12 else if (size <=? 500000)%Z then 14 else 16.
Definition new_cache (size : Z) : segmap * Z :=
  let size := if (size <? 1)%Z then 1%Z else size in
  (new_segmap sync_seg_power (2 ^ new_cache_power size)%Z, size).
