(* C16 — ties between the model (Model.v) and the Gallina translations srcgen makes
   of the Go functions themselves (Gen.C16): primaryIndex, getSegmentIndex, the loop
   of backwardShiftDelete and the probe loop of Get.  A behaviour-changing edit of
   those functions in /repo changes Gen.C16 and breaks these lemmas; a
   behaviour-preserving rewrite does not. *)
From Coq Require Import Znumtheory.
From Sdns Require Import Common.Base Common.GoList Gen.C16 C16.Model C16.Proofs_cyc C16.Proofs_more.
Open Scope nat_scope.

Definition rep_slot (s : slot) : T_Pair := mk_T_Pair (fst s) (snd s).
Definition rep (d : list slot) : list T_Pair := map rep_slot d.
(* a Go table whose slot array is [d]; the other fields are arbitrary *)
Definition gomap (d : list slot) (sz ga : Z) (hz : bool) (zv : N) : T_UInt64Map :=
  mk_T_UInt64Map (rep d) sz ga (Z.of_nat (length d) - 1) hz zv.

Lemma pow2_Z p : Z.of_nat (2 ^ p) = (2 ^ Z.of_nat p)%Z.
Proof. rewrite Nat2Z.inj_pow. reflexivity. Qed.

Lemma land_mask_mod (a : Z) p : Z.land a (Z.of_nat (2 ^ p) - 1) = (a mod 2 ^ Z.of_nat p)%Z.
Proof.
  rewrite pow2_Z. replace (2 ^ Z.of_nat p - 1)%Z with (Z.ones (Z.of_nat p)) by (rewrite Z.ones_equiv; lia).
  apply Z.land_ones. lia.
Qed.

(* (j + 1) & mask *)
Lemma gen_next p j : j < 2 ^ p ->
  Z.land (Z.of_nat j + 1) (Z.of_nat (2 ^ p) - 1) = Z.of_nat (nxt (2 ^ p) j).
Proof.
  intros Hj. rewrite land_mask_mod. unfold nxt. rewrite <- pow2_Z.
  destruct (Nat.ltb_spec (S j) (2 ^ p)).
  - rewrite Z.mod_small; lia.
  - assert (S j = 2 ^ p) by lia. replace (Z.of_nat j + 1)%Z with (Z.of_nat (2 ^ p)) by lia.
    rewrite Z.mod_same; lia.
Qed.

(* primaryIndex is the model's home slot under the code's mixer *)
Lemma gen_primaryIndex p m k : p <= 62 -> T_UInt64Map_mask m = (Z.of_nat (2 ^ p) - 1)%Z ->
  go_UInt64Map_primaryIndex m k = Z.of_nat (hidx go_mix (2 ^ p) k).
Proof.
  intros Hp Hm. unfold go_UInt64Map_primaryIndex. rewrite Hm, land_mask_mod.
  unfold hidx, go_mix. rewrite w64_wrap64.
  change hash_mult with 2654435769%N. change hash_shift with 16%N.
  set (h := wrap64 (k * 2654435769)). set (x := N.lxor h (N.shiftr h 16)).
  unfold N_to_s64. set (z := Z.of_N (wrap64 x)).
  assert (Hz : z = (Z.of_N x mod 2 ^ 64)%Z) by (unfold z, wrap64, two64; rewrite N2Z.inj_mod; reflexivity).
  assert (Hdiv : (2 ^ Z.of_nat p | 2 ^ 64)%Z).
  { exists (2 ^ (64 - Z.of_nat p))%Z. rewrite <- Z.pow_add_r by lia. f_equal. lia. }
  assert (Hzp : (z mod 2 ^ Z.of_nat p = Z.of_N x mod 2 ^ Z.of_nat p)%Z).
  { rewrite Hz. symmetry. apply Znumtheory.Zmod_div_mod; try lia. exact Hdiv. }
  assert (Hmod : ((z - 18446744073709551616) mod 2 ^ Z.of_nat p = z mod 2 ^ Z.of_nat p)%Z).
  { destruct Hdiv as [q Hq]. change 18446744073709551616%Z with (2 ^ 64)%Z. rewrite Hq.
    replace (z - q * 2 ^ Z.of_nat p)%Z with (z + (- q) * 2 ^ Z.of_nat p)%Z by lia.
    apply Z.mod_add. lia. }
  assert (Hres : (Z.of_N x mod 2 ^ Z.of_nat p)%Z = Z.of_nat (N.to_nat (x mod N.of_nat (2 ^ p)))).
  { rewrite N_nat_Z, N2Z.inj_mod. f_equal. rewrite nat_N_Z. apply eq_sym, pow2_Z. }
  destruct (z <? 9223372036854775808)%Z; [|rewrite Hmod]; rewrite Hzp; exact Hres.
Qed.

(* getSegmentIndex is the model's segment selector *)
Lemma gen_getSegmentIndex p m k : p <= 62 -> T_SegmentUInt64Map_segmentMask m = (Z.of_nat (2 ^ p) - 1)%Z ->
  go_SegmentUInt64Map_getSegmentIndex m k = N.of_nat (go_sidx (2 ^ p) k).
Proof.
  intros Hp Hm. unfold go_SegmentUInt64Map_getSegmentIndex, go_sidx. rewrite Hm, w64_wrap64.
  change seg_mult with 2654435769%N. change seg_shift with 16%N.
  set (a := N.shiftr (wrap64 (k * 2654435769)) 16).
  assert (Hu : Z_to_uw two64 (Z.of_nat (2 ^ p) - 1) = N.ones (N.of_nat p)).
  { unfold Z_to_uw. rewrite N.ones_equiv, pow2_Z.
    assert (0 < 2 ^ Z.of_nat p <= 2 ^ 62)%Z by (split; [lia|apply Z.pow_le_mono_r; lia]).
    rewrite Z.mod_small by (unfold two64; simpl; lia).
    apply N2Z.inj. rewrite Z2N.id by lia. rewrite N2Z.inj_pred by (apply N.neq_0_lt_0; apply N.pow_nonzero; lia).
    rewrite N2Z.inj_pow. simpl. rewrite nat_N_Z. lia. }
  rewrite Hu, N.land_ones, N2Nat.id. f_equal. rewrite Nat2N.inj_pow. reflexivity.
Qed.

(* ---- the slot array as the translated code sees it ---- *)
Lemma rep_length d : length (rep d) = length d.
Proof. apply map_length. Qed.
Lemma rep_idx d j : go_idx zero_T_Pair (rep d) (Z.of_nat j) = rep_slot (sl d j).
Proof.
  rewrite go_idx_nth by lia. rewrite Nat2Z.id. unfold rep, sl.
  change zero_T_Pair with (rep_slot empty_slot). apply map_nth.
Qed.
Lemma rep_upd d i x : go_upd (rep d) (Z.of_nat i) (rep_slot x) = rep (upd i x d).
Proof.
  unfold go_upd. destruct (Z.ltb_spec (Z.of_nat i) 0) as [H|H]; [lia|clear H]. rewrite Nat2Z.id.
  revert i; induction d as [|y d IH]; intros [|i]; simpl; auto. rewrite IH. reflexivity.
Qed.
Lemma upd_upd_same i a b d : upd i b (upd i a d) = upd i b d.
Proof. revert i; induction d as [|y d IH]; intros [|i]; simpl; auto. rewrite IH. reflexivity. Qed.

Lemma zleb_nat a b : (Z.of_nat a <=? Z.of_nat b)%Z = (a <=? b).
Proof. destruct (Z.leb_spec (Z.of_nat a) (Z.of_nat b)); destruct (Nat.leb_spec a b); auto; lia. Qed.
Lemma zltb_nat a b : (Z.of_nat a <? Z.of_nat b)%Z = (a <? b).
Proof. destruct (Z.ltb_spec (Z.of_nat a) (Z.of_nat b)); destruct (Nat.ltb_spec a b); auto; lia. Qed.

(* one move of the shift as the translated code writes it (data[i] = data[j]; data[j].Key = 0; data[j].Value = zero) *)
Lemma gen_move d i j sz ga mk hz zv : j < length d ->
  let m := mk_T_UInt64Map (rep d) sz ga mk hz zv in
  let m1 := mk_T_UInt64Map (go_upd (T_UInt64Map_data m) (Z.of_nat i) (go_idx zero_T_Pair (T_UInt64Map_data m) (Z.of_nat j)))
              (T_UInt64Map_size m) (T_UInt64Map_growAt m) (T_UInt64Map_mask m) (T_UInt64Map_hasZeroKey m) (T_UInt64Map_zeroVal m) in
  let m2 := mk_T_UInt64Map (go_upd (T_UInt64Map_data m1) (Z.of_nat j) (mk_T_Pair 0%N (T_Pair_Value (go_idx zero_T_Pair (T_UInt64Map_data m1) (Z.of_nat j)))))
              (T_UInt64Map_size m1) (T_UInt64Map_growAt m1) (T_UInt64Map_mask m1) (T_UInt64Map_hasZeroKey m1) (T_UInt64Map_zeroVal m1) in
  mk_T_UInt64Map (go_upd (T_UInt64Map_data m2) (Z.of_nat j) (mk_T_Pair (T_Pair_Key (go_idx zero_T_Pair (T_UInt64Map_data m2) (Z.of_nat j))) 0%N))
              (T_UInt64Map_size m2) (T_UInt64Map_growAt m2) (T_UInt64Map_mask m2) (T_UInt64Map_hasZeroKey m2) (T_UInt64Map_zeroVal m2)
  = mk_T_UInt64Map (rep (upd j empty_slot (upd i (sl d j) d))) sz ga mk hz zv.
Proof.
  intros Hj. cbn [T_UInt64Map_data T_UInt64Map_size T_UInt64Map_growAt T_UInt64Map_mask T_UInt64Map_hasZeroKey T_UInt64Map_zeroVal].
  rewrite rep_idx, rep_upd. rewrite rep_idx.
  set (d1 := upd i (sl d j) d).
  change (mk_T_Pair 0%N (T_Pair_Value (rep_slot (sl d1 j)))) with (rep_slot (0%N, snd (sl d1 j))).
  rewrite rep_upd, rep_idx. rewrite sl_upd_eq by (unfold d1; rewrite upd_length; exact Hj).
  change (mk_T_Pair (T_Pair_Key (rep_slot (0%N, snd (sl d1 j)))) 0%N) with (rep_slot empty_slot).
  rewrite rep_upd, upd_upd_same. reflexivity.
Qed.

(* clearing a slot as the translated code writes it (data[i].Key = 0; data[i].Value = zero) *)
Lemma gen_clear_data d i : i < length d ->
  go_upd (go_upd (rep d) (Z.of_nat i) (mk_T_Pair 0%N (T_Pair_Value (go_idx zero_T_Pair (rep d) (Z.of_nat i))))) (Z.of_nat i)
         (mk_T_Pair (T_Pair_Key (go_idx zero_T_Pair
             (go_upd (rep d) (Z.of_nat i) (mk_T_Pair 0%N (T_Pair_Value (go_idx zero_T_Pair (rep d) (Z.of_nat i))))) (Z.of_nat i))) 0%N)
  = rep (upd i empty_slot d).
Proof.
  intros Hi. rewrite rep_idx.
  change (mk_T_Pair 0%N (T_Pair_Value (rep_slot (sl d i)))) with (rep_slot (0%N, snd (sl d i))).
  rewrite rep_upd, rep_idx. rewrite sl_upd_eq by exact Hi.
  change (mk_T_Pair (T_Pair_Key (rep_slot (0%N, snd (sl d i)))) 0%N) with (rep_slot empty_slot).
  rewrite rep_upd, upd_upd_same. reflexivity.
Qed.

(* a Go table with 2^p slots *)
Definition gom (p : nat) (d : list slot) (sz ga : Z) (hz : bool) (zv : N) : T_UInt64Map :=
  mk_T_UInt64Map (rep d) sz ga (Z.of_nat (2 ^ p) - 1) hz zv.
Lemma gom_gomap p d sz ga hz zv : length d = 2 ^ p -> gomap d sz ga hz zv = gom p d sz ga hz zv.
Proof. intros H. unfold gomap, gom. rewrite H. reflexivity. Qed.

(* the loop of backwardShiftDelete is the model's bshift *)
Lemma gen_bshift p : p <= 62 -> forall lf fuel d i j di sz ga hz zv,
  length d = 2 ^ p -> j < 2 ^ p ->
  let r := go_UInt64Map_backwardShiftDelete_loop1 fuel lf (gom p d sz ga hz zv) di 0%N (Z.of_nat i) (Z.of_nat j) in
  match bshift go_mix lf d (2 ^ p) i j with
  | Some d' => fst r = GoNext /\ exists i' j', snd r = (gom p d' sz ga hz zv, di, 0%N, Z.of_nat i', Z.of_nat j')
  | None => fst r = GoOof
  end.
Proof.
  intros Hp. induction lf as [|lf IH]; intros fuel d i j di sz ga hz zv Hlen Hj r; [reflexivity|].
  subst r. unfold gom.
  cbn [go_UInt64Map_backwardShiftDelete_loop1 bshift T_UInt64Map_data T_UInt64Map_size T_UInt64Map_growAt T_UInt64Map_mask T_UInt64Map_hasZeroKey T_UInt64Map_zeroVal].
  rewrite (gen_next p j Hj).
  set (j' := nxt (2 ^ p) j).
  assert (Hj' : j' < 2 ^ p).
  { unfold j', nxt. destruct (Nat.ltb_spec (S j) (2 ^ p)); [lia|]. pose proof (Nat.pow_nonzero 2 p); lia. }
  rewrite rep_idx. change (T_Pair_Key (rep_slot (sl d j'))) with (fst (sl d j')).
  destruct (N.eqb (fst (sl d j')) 0) eqn:Ek.
  - split; [reflexivity|]. exists i, j'. reflexivity.
  - rewrite (gen_primaryIndex p _ (fst (sl d j')) Hp) by (cbn [T_UInt64Map_mask]; reflexivity).
    set (k := hidx go_mix (2 ^ p) (fst (sl d j'))).
    rewrite !zleb_nat, !zltb_nat. unfold stay.
    pose proof (gen_move d i j' sz ga (Z.of_nat (2 ^ p) - 1)%Z hz zv ltac:(lia)) as Hmove. cbv zeta in Hmove.
    cbn [T_UInt64Map_data T_UInt64Map_size T_UInt64Map_growAt T_UInt64Map_mask T_UInt64Map_hasZeroKey T_UInt64Map_zeroVal] in Hmove.
    rewrite (rep_idx d j') in Hmove.
    assert (Hlen2 : length (upd j' empty_slot (upd i (sl d j') d)) = 2 ^ p) by (rewrite !upd_length; exact Hlen).
    destruct (i <=? j').
    + destruct ((i <? k) && (k <=? j')).
      * apply (IH fuel d i j' di sz ga hz zv Hlen Hj').
      * rewrite Hmove. apply (IH fuel _ j' j' di sz ga hz zv Hlen2 Hj').
    + destruct ((i <? k) || (k <=? j')).
      * apply (IH fuel d i j' di sz ga hz zv Hlen Hj').
      * rewrite Hmove. apply (IH fuel _ j' j' di sz ga hz zv Hlen2 Hj').
Qed.

(* backwardShiftDelete as a whole (the receiver handed back) *)
Lemma gen_bsd p : p <= 62 -> forall fuel d i sz ga hz zv, length d = 2 ^ p -> i < 2 ^ p ->
  go_UInt64Map_backwardShiftDelete fuel (gom p d sz ga hz zv) (Z.of_nat i) =
  match bshift go_mix fuel d (2 ^ p) i i with Some d' => Some (gom p d' sz ga hz zv) | None => None end.
Proof.
  intros Hp fuel d i sz ga hz zv Hlen Hi. unfold go_UInt64Map_backwardShiftDelete.
  pose proof (gen_bshift p Hp fuel fuel d i i (Z.of_nat i) sz ga hz zv Hlen Hi) as H. cbv zeta in H.
  destruct (go_UInt64Map_backwardShiftDelete_loop1 fuel fuel (gom p d sz ga hz zv) (Z.of_nat i) 0%N (Z.of_nat i) (Z.of_nat i)) as [c st].
  destruct (bshift go_mix fuel d (2 ^ p) i i) as [d'|].
  - destruct H as [H1 [i' [j' H2]]]. simpl in H1, H2. subst c st. reflexivity.
  - simpl in H. subst c. reflexivity.
Qed.

Lemma bshift_more_fuel mix f : forall d n i j d', bshift mix f d n i j = Some d' ->
  forall f', f <= f' -> bshift mix f' d n i j = Some d'.
Proof.
  induction f as [|f IH]; intros d n i j d' H f' Hf; simpl in H; [discriminate|].
  destruct f' as [|f']; [lia|]. simpl.
  destruct (N.eqb (fst (sl d (nxt n j))) 0); [exact H|].
  destruct (stay i (nxt n j) (hidx mix n (fst (sl d (nxt n j))))); apply (IH _ _ _ _ _ H); lia.
Qed.
Lemma bshift_len mix f : forall d n i j d', bshift mix f d n i j = Some d' -> length d' = length d.
Proof.
  induction f as [|f IH]; intros d n i j d' H; simpl in H; [discriminate|].
  destruct (N.eqb (fst (sl d (nxt n j))) 0); [inversion H; reflexivity|].
  destruct (stay i (nxt n j) (hidx mix n (fst (sl d (nxt n j))))).
  - apply (IH _ _ _ _ _ H).
  - rewrite (IH _ _ _ _ _ H), !upd_length. reflexivity.
Qed.

(* ---- whole tables ---- *)
Definition zhas (t : table) : bool := match t_zero t with Some _ => true | None => false end.
Definition zval (t : table) : N := match t_zero t with Some v => v | None => 0%N end.
Definition gotab (p : nat) (t : table) : T_UInt64Map :=
  gom p (t_data t) (t_size t) (t_growAt t) (zhas t) (zval t).

Lemma del_at_ok t i : t_bad (del_at go_mix t i) = false ->
  t_bad t = false /\ exists d2, bshift go_mix (length (t_data t)) (upd i empty_slot (t_data t)) (length (t_data t)) i i = Some d2 /\
    del_at go_mix t i = with_data t d2 (t_size t - 1)%Z.
Proof.
  unfold del_at. rewrite upd_length.
  destruct (bshift go_mix (length (t_data t)) (upd i empty_slot (t_data t)) (length (t_data t)) i i) as [d2|]; simpl; intros H; [|discriminate].
  split; [exact H|]. exists d2. split; reflexivity.
Qed.

(* data[i].Key = 0; data[i].Value = zero; size--; backwardShiftDelete(i)  =  del_at *)
Lemma gen_del_at p : p <= 62 -> forall fuel t i, length (t_data t) = 2 ^ p -> i < 2 ^ p -> 2 ^ p <= fuel ->
  t_bad (del_at go_mix t i) = false ->
  go_UInt64Map_backwardShiftDelete fuel
    (gom p (upd i empty_slot (t_data t)) (t_size t - 1)%Z (t_growAt t) (zhas t) (zval t)) (Z.of_nat i)
  = Some (gotab p (del_at go_mix t i)) /\ length (t_data (del_at go_mix t i)) = 2 ^ p.
Proof.
  intros Hp fuel t i Hlen Hi Hf Hb. destruct (del_at_ok t i Hb) as [_ [d2 [Hs He]]].
  rewrite Hlen in Hs. rewrite (gen_bsd p Hp) by (rewrite ?upd_length; auto).
  rewrite (bshift_more_fuel go_mix _ _ _ _ _ _ Hs fuel Hf). rewrite He. split; [reflexivity|].
  simpl. rewrite (bshift_len _ _ _ _ _ _ _ Hs), upd_length. exact Hlen.
Qed.

Lemma del_at_bad_mono t i : t_bad t = true -> t_bad (del_at go_mix t i) = true.
Proof. unfold del_at. intros H. destruct (bshift _ _ _ _ _ _); simpl; auto. Qed.
Lemma evict_loop_bad_mono f : forall t n idx sc de mx skip, t_bad t = true ->
  t_bad (fst (evict_loop go_mix f t n idx sc de mx skip)) = true.
Proof.
  induction f as [|f IH]; intros t n idx sc de mx skip H; simpl; auto.
  destruct ((sc <? n) && (de <? mx)); simpl; auto.
  destruct (N.eqb (skey (t_data t) idx) 0 || N.eqb (skey (t_data t) idx) skip); apply IH; auto.
  apply del_at_bad_mono; exact H.
Qed.

(* the scan of EvictKeysAt is the model's evict_loop *)
Lemma gen_evict_loop p : p <= 62 -> forall lf fuel t idx sc de mx skip off,
  length (t_data t) = 2 ^ p -> idx < 2 ^ p -> 2 ^ p <= fuel ->
  (2 ^ p - sc) + (mx - de) < lf ->
  let r := evict_loop go_mix lf t (2 ^ p) idx sc de mx skip in
  t_bad (fst r) = false ->
  exists idx' sc',
    go_UInt64Map_EvictKeysAt_loop1 fuel lf (gotab p t) off (Z.of_nat mx) skip 0%N (Z.of_nat de) (Z.of_nat idx) (Z.of_nat sc)
    = (GoNext, (gotab p (fst r), off, Z.of_nat mx, skip, 0%N, Z.of_nat (snd r), Z.of_nat idx', Z.of_nat sc'))
    /\ length (t_data (fst r)) = 2 ^ p.
Proof.
  intros Hp. induction lf as [|lf IH]; intros fuel t idx sc de mx skip off Hlen Hidx Hf Hlf r Hb; [lia|].
  subst r. unfold gotab, gom in *.
  cbn [go_UInt64Map_EvictKeysAt_loop1 evict_loop T_UInt64Map_data T_UInt64Map_size T_UInt64Map_growAt T_UInt64Map_mask T_UInt64Map_hasZeroKey T_UInt64Map_zeroVal] in *.
  replace (Z.of_nat sc <=? Z.of_nat (2 ^ p) - 1)%Z with (sc <? 2 ^ p)
    by (destruct (Nat.ltb_spec sc (2 ^ p)); destruct (Z.leb_spec (Z.of_nat sc) (Z.of_nat (2 ^ p) - 1)); auto; lia).
  rewrite zltb_nat.
  destruct ((sc <? 2 ^ p) && (de <? mx)) eqn:Ec.
  - rewrite rep_idx. change (T_Pair_Key (rep_slot (sl (t_data t) idx))) with (skey (t_data t) idx).
    destruct (N.eqb (skey (t_data t) idx) 0 || N.eqb (skey (t_data t) idx) skip) eqn:Ek.
    + rewrite (gen_next p idx Hidx).
      replace (Z.of_nat sc + 1)%Z with (Z.of_nat (S sc)) by lia.
      assert (Hn : nxt (2 ^ p) idx < 2 ^ p).
      { unfold nxt. destruct (Nat.ltb_spec (S idx) (2 ^ p)); [lia|]. pose proof (Nat.pow_nonzero 2 p); lia. }
      apply andb_true_iff in Ec. destruct Ec as [Ec1 Ec2]. apply Nat.ltb_lt in Ec1.
      apply (IH fuel t (nxt (2 ^ p) idx) (S sc) de mx skip off Hlen Hn Hf); [lia|exact Hb].
    + (* delete here *)
      assert (Hbd : t_bad (del_at go_mix t idx) = false).
      { destruct (t_bad (del_at go_mix t idx)) eqn:E; auto.
        rewrite (evict_loop_bad_mono lf _ _ _ _ _ _ _ E) in Hb. discriminate. }
      pose proof (gen_clear_data (t_data t) idx ltac:(lia)) as Hcl.
      rewrite (rep_idx (t_data t) idx) in Hcl. rewrite Hcl.
      destruct (gen_del_at p Hp fuel t idx Hlen Hidx Hf Hbd) as [Hd Hl2]. unfold gom in Hd. rewrite Hd.
      replace (Z.of_nat de + 1)%Z with (Z.of_nat (S de)) by lia.
      apply andb_true_iff in Ec. destruct Ec as [Ec1 Ec2]. apply Nat.ltb_lt in Ec2.
      apply (IH fuel (del_at go_mix t idx) idx sc (S de) mx skip off Hl2 Hidx Hf); [lia|exact Hb].
  - exists idx, sc. split; [reflexivity|exact Hlen].
Qed.
(* the probe loop of Get (for i := 1; i < len(m.data); i++) is the model's scan
   from the slot after [idx] with len - i slots to go *)
Lemma gen_get_loop p : p <= 62 -> forall lf fuel d k idx ii sz ga hz zv,
  length d = 2 ^ p -> idx < 2 ^ p -> k <> 0%N -> 2 ^ p - ii < lf ->
  let r := go_UInt64Map_Get_loop1 fuel lf (gomap d sz ga hz zv) k (Z.of_nat idx) (Z.of_nat ii) in
  match scan (stop_key k) (2 ^ p - ii) d (2 ^ p) (nxt (2 ^ p) idx) with
  | Some x => fst r = GoRet (if N.eqb (skey d x) k then (snd (sl d x), true) else (0%N, false))
  | None => fst r = GoNext
  end.
Proof.
  intros Hp. induction lf as [|lf IH]; intros fuel d k idx ii sz ga hz zv Hlen Hidx Hk Hlf r; [lia|].
  subst r.
  assert (Hg0 : gomap d sz ga hz zv = mk_T_UInt64Map (rep d) sz ga (Z.of_nat (2 ^ p) - 1) hz zv) by (unfold gomap; rewrite Hlen; reflexivity).
  rewrite Hg0.
  cbn [go_UInt64Map_Get_loop1 T_UInt64Map_data T_UInt64Map_mask].
  unfold go_len. rewrite rep_length, Hlen, zltb_nat.
  destruct (Nat.ltb_spec ii (2 ^ p)) as [Hii|Hii].
  - replace (2 ^ p - ii) with (S (2 ^ p - S ii)) by lia. cbn [scan].
    rewrite (gen_next p idx Hidx). set (j := nxt (2 ^ p) idx).
    assert (Hj : j < 2 ^ p).
    { unfold j, nxt. destruct (Nat.ltb_spec (S idx) (2 ^ p)); [lia|]. pose proof (Nat.pow_nonzero 2 p); lia. }
    rewrite rep_idx. change (T_Pair_Key (rep_slot (sl d j))) with (fst (sl d j)).
    change (T_Pair_Value (rep_slot (sl d j))) with (snd (sl d j)).
    unfold stop_key, skey.
    destruct (N.eqb (fst (sl d j)) k) eqn:E1; [cbn [orb fst]; rewrite E1; reflexivity|].
    destruct (N.eqb (fst (sl d j)) 0) eqn:E2; [cbn [orb fst]; rewrite E1; reflexivity|]. cbn [orb].
    replace (Z.of_nat ii + 1)%Z with (Z.of_nat (S ii)) by lia.
    rewrite <- Hg0. apply (IH fuel d k j (S ii) sz ga hz zv Hlen Hj Hk). lia.
  - replace (2 ^ p - ii) with 0 by lia. reflexivity.
Qed.

Lemma scan_step stop n d m h : n <> 0 ->
  scan stop n d m h = if stop (sl d h) then Some h else scan stop (n - 1) d m (nxt m h).
Proof. intros H. destruct n; [lia|]. simpl. rewrite Nat.sub_0_r. reflexivity. Qed.
(* Get as a whole (zero key out of band, primary slot, then the probe loop) is the model's tget *)
Lemma gen_get p : p <= 62 -> forall fuel t k, length (t_data t) = 2 ^ p -> 2 ^ p < fuel ->
  go_UInt64Map_Get fuel (gotab p t) k =
  Some (match tget go_mix t k with Some v => (v, true) | None => (0%N, false) end).
Proof.
  intros Hp fuel t k Hlen Hf. unfold go_UInt64Map_Get, tget.
  assert (Hn0 : 0 < 2 ^ p) by (pose proof (Nat.pow_nonzero 2 p); lia).
  destruct (N.eqb_spec k 0) as [->|Hk].
  - unfold gotab, gom, zhas, zval. cbn [T_UInt64Map_hasZeroKey T_UInt64Map_zeroVal].
    destruct (t_zero t); reflexivity.
  - rewrite (gen_primaryIndex p (gotab p t) k Hp eq_refl).
    set (h := hidx go_mix (2 ^ p) k).
    assert (Hh : h < 2 ^ p) by (apply Proofs_cyc.hidx_lt; exact Hn0).
    unfold gotab at 1 2 3 4. unfold gom. cbn [T_UInt64Map_data].
    rewrite !rep_idx. change (T_Pair_Key (rep_slot (sl (t_data t) h))) with (fst (sl (t_data t) h)).
    change (T_Pair_Value (rep_slot (sl (t_data t) h))) with (snd (sl (t_data t) h)).
    unfold probe. rewrite Hlen. fold h.
    rewrite scan_step by lia. unfold stop_key at 1. unfold skey.
    destruct (N.eqb (fst (sl (t_data t) h)) k) eqn:E1; [cbn [orb]; rewrite ?E1; reflexivity|].
    destruct (N.eqb (fst (sl (t_data t) h)) 0) eqn:E2; [cbn [orb]; rewrite ?E1; reflexivity|]. cbn [orb].
    pose proof (gen_get_loop p Hp fuel fuel (t_data t) k h 1 (t_size t) (t_growAt t) (zhas t) (zval t) Hlen Hh Hk ltac:(lia)) as G.
    cbv zeta in G. rewrite (gom_gomap p _ _ _ _ _ Hlen) in G. unfold gom in G.
    change (Z.of_nat 1) with 1%Z in G. unfold gotab, gom.
    match goal with |- context [go_UInt64Map_Get_loop1 ?a ?b ?c ?d ?e ?f] =>
      destruct (go_UInt64Map_Get_loop1 a b c d e f) as [c0 st] end.
    destruct (scan (stop_key k) (2 ^ p - 1) (t_data t) (2 ^ p) (nxt (2 ^ p) h)) as [x|]; simpl in G; subst c0.
    + unfold skey. destruct (N.eqb (fst (sl (t_data t) x)) k); reflexivity.
    + destruct st as [[[a b] c] d0]. reflexivity.
Qed.
(* Has: the same walk as Get, handing back only whether the key was met *)
Lemma gen_has_loop p : p <= 62 -> forall lf fuel d k idx ii sz ga hz zv,
  length d = 2 ^ p -> idx < 2 ^ p -> k <> 0%N -> 2 ^ p - ii < lf ->
  let r := go_UInt64Map_Has_loop1 fuel lf (gomap d sz ga hz zv) k (Z.of_nat idx) (Z.of_nat ii) in
  match scan (stop_key k) (2 ^ p - ii) d (2 ^ p) (nxt (2 ^ p) idx) with
  | Some x => fst r = GoRet (N.eqb (skey d x) k)
  | None => fst r = GoNext
  end.
Proof.
  intros Hp. induction lf as [|lf IH]; intros fuel d k idx ii sz ga hz zv Hlen Hidx Hk Hlf r; [lia|].
  subst r.
  assert (Hg0 : gomap d sz ga hz zv = mk_T_UInt64Map (rep d) sz ga (Z.of_nat (2 ^ p) - 1) hz zv) by (unfold gomap; rewrite Hlen; reflexivity).
  rewrite Hg0.
  cbn [go_UInt64Map_Has_loop1 T_UInt64Map_data T_UInt64Map_mask].
  unfold go_len. rewrite rep_length, Hlen, zltb_nat.
  destruct (Nat.ltb_spec ii (2 ^ p)) as [Hii|Hii].
  - replace (2 ^ p - ii) with (S (2 ^ p - S ii)) by lia. cbn [scan].
    rewrite (gen_next p idx Hidx). set (j := nxt (2 ^ p) idx).
    assert (Hj : j < 2 ^ p).
    { unfold j, nxt. destruct (Nat.ltb_spec (S idx) (2 ^ p)); [lia|]. pose proof (Nat.pow_nonzero 2 p); lia. }
    rewrite rep_idx. change (T_Pair_Key (rep_slot (sl d j))) with (fst (sl d j)).
    change (T_Pair_Value (rep_slot (sl d j))) with (snd (sl d j)).
    unfold stop_key, skey.
    destruct (N.eqb (fst (sl d j)) k) eqn:E1; [cbn [orb fst]; rewrite E1; reflexivity|].
    destruct (N.eqb (fst (sl d j)) 0) eqn:E2; [cbn [orb fst]; rewrite E1; reflexivity|]. cbn [orb].
    replace (Z.of_nat ii + 1)%Z with (Z.of_nat (S ii)) by lia.
    rewrite <- Hg0. apply (IH fuel d k j (S ii) sz ga hz zv Hlen Hj Hk). lia.
  - replace (2 ^ p - ii) with 0 by lia. reflexivity.
Qed.
Lemma gen_has p : p <= 62 -> forall fuel t k, length (t_data t) = 2 ^ p -> 2 ^ p < fuel ->
  go_UInt64Map_Has fuel (gotab p t) k =
  Some (thas go_mix t k).
Proof.
  intros Hp fuel t k Hlen Hf. unfold go_UInt64Map_Has, thas, tget.
  assert (Hn0 : 0 < 2 ^ p) by (pose proof (Nat.pow_nonzero 2 p); lia).
  destruct (N.eqb_spec k 0) as [->|Hk].
  - unfold gotab, gom, zhas, zval. cbn [T_UInt64Map_hasZeroKey T_UInt64Map_zeroVal].
    destruct (t_zero t); reflexivity.
  - rewrite (gen_primaryIndex p (gotab p t) k Hp eq_refl).
    set (h := hidx go_mix (2 ^ p) k).
    assert (Hh : h < 2 ^ p) by (apply Proofs_cyc.hidx_lt; exact Hn0).
    unfold gotab, gom. cbn [T_UInt64Map_data].
    rewrite !rep_idx. change (T_Pair_Key (rep_slot (sl (t_data t) h))) with (fst (sl (t_data t) h)).
    change (T_Pair_Value (rep_slot (sl (t_data t) h))) with (snd (sl (t_data t) h)).
    unfold probe. rewrite Hlen. fold h.
    rewrite scan_step by lia. unfold stop_key at 1. unfold skey.
    destruct (N.eqb (fst (sl (t_data t) h)) k) eqn:E1; [cbn [orb]; rewrite ?E1; reflexivity|].
    destruct (N.eqb (fst (sl (t_data t) h)) 0) eqn:E2; [cbn [orb]; rewrite ?E1; reflexivity|]. cbn [orb].
    pose proof (gen_has_loop p Hp fuel fuel (t_data t) k h 1 (t_size t) (t_growAt t) (zhas t) (zval t) Hlen Hh Hk ltac:(lia)) as G.
    cbv zeta in G. rewrite (gom_gomap p _ _ _ _ _ Hlen) in G. unfold gom in G.
    change (Z.of_nat 1) with 1%Z in G. unfold gotab, gom.
    match goal with |- context [go_UInt64Map_Has_loop1 ?a ?b ?c ?d ?e ?f] =>
      destruct (go_UInt64Map_Has_loop1 a b c d e f) as [c0 st] end.
    destruct (scan (stop_key k) (2 ^ p - 1) (t_data t) (2 ^ p) (nxt (2 ^ p) h)) as [x|]; simpl in G; subst c0.
    + unfold skey. destruct (N.eqb (fst (sl (t_data t) x)) k); reflexivity.
    + destruct st as [[[a b] c] d0]. reflexivity.
Qed.



(* ---- EvictKeysAt as a whole ---- *)
Lemma evict_loop_fuel f1 : forall f2 t n idx sc de mx skip,
  (n - sc) + (mx - de) <= f1 -> (n - sc) + (mx - de) <= f2 ->
  evict_loop go_mix f1 t n idx sc de mx skip = evict_loop go_mix f2 t n idx sc de mx skip.
Proof.
  induction f1 as [|f1 IH]; intros f2 t n idx sc de mx skip H1 H2.
  - destruct f2; simpl; [reflexivity|].
    destruct (Nat.ltb_spec sc n); destruct (Nat.ltb_spec de mx); simpl; try reflexivity; lia.
  - destruct f2 as [|f2]; simpl.
    + destruct (Nat.ltb_spec sc n); destruct (Nat.ltb_spec de mx); simpl; try reflexivity; lia.
    + destruct (Nat.ltb_spec sc n); destruct (Nat.ltb_spec de mx); simpl; try reflexivity.
      destruct (N.eqb (skey (t_data t) idx) 0 || N.eqb (skey (t_data t) idx) skip); apply IH; lia.
Qed.

Lemma gen_evict p : p <= 62 -> forall fuel t off nmax skip,
  length (t_data t) = 2 ^ p -> 2 ^ p + Z.to_nat nmax < fuel ->
  t_bad (fst (tevict go_mix t off nmax skip)) = false ->
  go_UInt64Map_EvictKeysAt fuel (gotab p t) off nmax skip =
  Some (snd (tevict go_mix t off nmax skip), gotab p (fst (tevict go_mix t off nmax skip))).
Proof.
  intros Hp fuel t off nmax skip Hlen Hf. unfold go_UInt64Map_EvictKeysAt, tevict.
  assert (Hn0 : 2 ^ p <> 0) by (apply Nat.pow_nonzero; lia).
  unfold gotab, gom. cbn [T_UInt64Map_data T_UInt64Map_mask]. unfold go_len. rewrite rep_length, Hlen.
  cbn [orb]. destruct (Z.leb_spec nmax 0) as [Hle|Hgt]; [intros _; reflexivity|].
  destruct (Z.eqb_spec (Z.of_nat (2 ^ p)) 0); [lia|]. destruct (Nat.eqb_spec (2 ^ p) 0); [lia|]. cbn [orb].
  set (mx := Z.to_nat nmax). assert (Hmx : nmax = Z.of_nat mx) by (unfold mx; lia).
  rewrite land_mask_mod. rewrite <- pow2_Z.
  set (idx := Z.to_nat (off mod Z.of_nat (2 ^ p))).
  assert (Hidx : idx < 2 ^ p) by (unfold idx; pose proof (Z.mod_pos_bound off (Z.of_nat (2 ^ p)) ltac:(lia)); lia).
  assert (Hiz : (off mod Z.of_nat (2 ^ p))%Z = Z.of_nat idx) by (unfold idx; pose proof (Z.mod_pos_bound off (Z.of_nat (2 ^ p)) ltac:(lia)); lia).
  rewrite Hiz.
  rewrite (evict_loop_fuel (2 ^ p + mx) fuel t (2 ^ p) idx 0 0 mx skip) by lia.
  destruct (evict_loop go_mix fuel t (2 ^ p) idx 0 0 mx skip) as [t1 deleted] eqn:Eev.
  intros Hb.
  assert (Hb1 : t_bad t1 = false).
  { destruct (t_zero t1); [destruct ((deleted <? mx) && negb (N.eqb skip 0))|]; simpl in Hb; exact Hb. }
  pose proof (gen_evict_loop p Hp fuel fuel t idx 0 0 mx skip off Hlen Hidx ltac:(lia) ltac:(lia)) as HL.
  cbv zeta in HL. rewrite Eev in HL. simpl fst in HL. simpl snd in HL.
  destruct (HL Hb1) as [idx' [sc' [HG Hl1]]].
  change (Z.of_nat 0) with 0%Z in HG. rewrite Hmx. unfold gotab, gom in HG. rewrite HG.
  cbn [T_UInt64Map_hasZeroKey T_UInt64Map_data T_UInt64Map_size T_UInt64Map_growAt T_UInt64Map_mask T_UInt64Map_zeroVal].
  rewrite zltb_nat. unfold zhas.
  destruct (t_zero t1) as [zv|] eqn:Ez.
  - rewrite andb_true_r. destruct ((deleted <? mx) && negb (N.eqb skip 0)) eqn:Ec.
    + simpl fst. simpl snd. unfold gotab, gom, zhas, zval. simpl. do 2 f_equal. lia.
    + simpl fst. simpl snd. unfold gotab, gom, zhas, zval. rewrite Ez. reflexivity.
  - rewrite andb_false_r. simpl. unfold gotab, gom, zhas, zval. rewrite Ez. reflexivity.
Qed.

(* ---- Del as a whole ---- *)
Lemma gen_del_loop p : p <= 62 -> forall lf fuel t k idx ii,
  length (t_data t) = 2 ^ p -> idx < 2 ^ p -> k <> 0%N -> 2 ^ p <= fuel -> 2 ^ p - ii < lf ->
  let r := go_UInt64Map_Del_loop1 fuel lf (gotab p t) k (Z.of_nat idx) (Z.of_nat ii) in
  match scan (stop_key k) (2 ^ p - ii) (t_data t) (2 ^ p) (nxt (2 ^ p) idx) with
  | Some x => if N.eqb (skey (t_data t) x) k
              then t_bad (del_at go_mix t x) = false -> fst r = GoRet (true, gotab p (del_at go_mix t x))
              else fst r = GoRet (false, gotab p t)
  | None => fst r = GoNext /\ fst (fst (fst (snd r))) = gotab p t
  end.
Proof.
  intros Hp. induction lf as [|lf IH]; intros fuel t k idx ii Hlen Hidx Hk Hf Hlf r; [lia|].
  subst r. unfold gotab, gom.
  cbn [go_UInt64Map_Del_loop1 T_UInt64Map_data T_UInt64Map_size T_UInt64Map_growAt T_UInt64Map_mask T_UInt64Map_hasZeroKey T_UInt64Map_zeroVal].
  unfold go_len. rewrite rep_length, Hlen, zltb_nat.
  destruct (Nat.ltb_spec ii (2 ^ p)) as [Hii|Hii].
  - replace (2 ^ p - ii) with (S (2 ^ p - S ii)) by lia. cbn [scan].
    rewrite (gen_next p idx Hidx). set (j := nxt (2 ^ p) idx).
    assert (Hj : j < 2 ^ p).
    { unfold j, nxt. destruct (Nat.ltb_spec (S idx) (2 ^ p)); [lia|]. pose proof (Nat.pow_nonzero 2 p); lia. }
    pose proof (gen_clear_data (t_data t) j ltac:(lia)) as Hcl.
    rewrite (rep_idx (t_data t) j) in Hcl. rewrite (rep_idx (t_data t) j).
    change (T_Pair_Key (rep_slot (sl (t_data t) j))) with (fst (sl (t_data t) j)).
    unfold stop_key, skey.
    destruct (N.eqb (fst (sl (t_data t) j)) k) eqn:E1.
    + cbn [orb]. rewrite E1. intros Hb. rewrite Hcl.
      destruct (gen_del_at p Hp fuel t j Hlen Hj Hf Hb) as [Hd _]. unfold gom in Hd. rewrite Hd. reflexivity.
    + destruct (N.eqb (fst (sl (t_data t) j)) 0) eqn:E2.
      * cbn [orb]. rewrite E1. reflexivity.
      * cbn [orb]. replace (Z.of_nat ii + 1)%Z with (Z.of_nat (S ii)) by lia.
        pose proof (IH fuel t k j (S ii) Hlen Hj Hk Hf ltac:(lia)) as H. cbv zeta in H. unfold gotab, gom in H. exact H.
  - replace (2 ^ p - ii) with 0 by lia. split; reflexivity.
Qed.

Lemma gen_del p : p <= 62 -> forall fuel t k, length (t_data t) = 2 ^ p -> 2 ^ p < fuel ->
  t_bad (fst (tdel go_mix t k)) = false ->
  go_UInt64Map_Del fuel (gotab p t) k = Some (snd (tdel go_mix t k), gotab p (fst (tdel go_mix t k))).
Proof.
  intros Hp fuel t k Hlen Hf. unfold go_UInt64Map_Del, tdel.
  assert (Hn0 : 2 ^ p <> 0) by (apply Nat.pow_nonzero; lia).
  destruct (N.eqb_spec k 0) as [->|Hk].
  - unfold gotab at 1. unfold gom at 1. cbn [T_UInt64Map_hasZeroKey]. unfold zhas.
    destruct (t_zero t) as [zv|] eqn:Ez; intros _.
    + unfold gotab, gom, zhas, zval. simpl. rewrite ?Ez. reflexivity.
    + unfold gotab, gom, zhas, zval. simpl. rewrite ?Ez. reflexivity.
  - rewrite (gen_primaryIndex p (gotab p t) k Hp) by reflexivity.
    set (h := hidx go_mix (2 ^ p) k).
    assert (Hh : h < 2 ^ p).
    { unfold h, hidx. assert (N.modulo (go_mix k) (N.of_nat (2 ^ p)) < N.of_nat (2 ^ p))%N by (apply N.mod_lt; lia). lia. }
    unfold probe. rewrite Hlen. fold h. rewrite (scan_step _ (2 ^ p) _ (2 ^ p) h Hn0).
    pose proof (gen_clear_data (t_data t) h ltac:(lia)) as Hcl.
    rewrite (rep_idx (t_data t) h) in Hcl.
    unfold gotab, gom.
    cbn [T_UInt64Map_data T_UInt64Map_size T_UInt64Map_growAt T_UInt64Map_mask T_UInt64Map_hasZeroKey T_UInt64Map_zeroVal].
    rewrite (rep_idx (t_data t) h).
    change (T_Pair_Key (rep_slot (sl (t_data t) h))) with (fst (sl (t_data t) h)).
    unfold stop_key, skey.
    destruct (N.eqb (fst (sl (t_data t) h)) k) eqn:E1.
    + cbn [orb]. rewrite E1. intros Hb. simpl fst in Hb. rewrite Hcl.
      destruct (gen_del_at p Hp fuel t h Hlen Hh ltac:(lia) Hb) as [Hd _]. unfold gotab, gom in Hd. rewrite Hd. reflexivity.
    + destruct (N.eqb (fst (sl (t_data t) h)) 0) eqn:E2.
      * cbn [orb]. rewrite E1. intros _. reflexivity.
      * cbn [orb].
        pose proof (gen_del_loop p Hp fuel fuel t k h 1 Hlen Hh Hk ltac:(lia) ltac:(lia)) as HL. cbv zeta in HL.
        unfold gotab, gom in HL.
        destruct (go_UInt64Map_Del_loop1 fuel fuel _ k (Z.of_nat h) 1%Z) as [c st] eqn:EL.
        change (Z.of_nat 1) with 1%Z in HL. rewrite EL in HL. unfold stop_key in HL.
        destruct (scan (fun s => N.eqb (fst s) k || N.eqb (fst s) 0) (2 ^ p - 1) (t_data t) (2 ^ p) (nxt (2 ^ p) h)) as [x|].
        -- unfold skey in HL. destruct (N.eqb (fst (sl (t_data t) x)) k).
           ++ intros Hb. simpl fst in HL. rewrite (HL Hb). reflexivity.
           ++ intros _. simpl fst in HL. rewrite HL. reflexivity.
        -- intros _. destruct HL as [H1 H2]. simpl in H1, H2. subst c.
           destruct st as [[[m1 k1] i1] j1]. simpl in H2. subst m1. reflexivity.
Qed.

(* ---- the probe loop of Put ---- *)
Lemma gen_set_slot d j k v : j < length d ->
  go_upd (go_upd (rep d) (Z.of_nat j) (mk_T_Pair k (T_Pair_Value (go_idx zero_T_Pair (rep d) (Z.of_nat j))))) (Z.of_nat j)
         (mk_T_Pair (T_Pair_Key (go_idx zero_T_Pair
             (go_upd (rep d) (Z.of_nat j) (mk_T_Pair k (T_Pair_Value (go_idx zero_T_Pair (rep d) (Z.of_nat j))))) (Z.of_nat j))) v)
  = rep (upd j (k, v) d).
Proof.
  intros Hj. rewrite rep_idx.
  change (mk_T_Pair k (T_Pair_Value (rep_slot (sl d j)))) with (rep_slot (k, snd (sl d j))).
  rewrite rep_upd, rep_idx. rewrite sl_upd_eq by exact Hj.
  change (mk_T_Pair (T_Pair_Key (rep_slot (k, snd (sl d j)))) v) with (rep_slot (k, v)).
  rewrite rep_upd, upd_upd_same. reflexivity.
Qed.
Lemma gen_set_value d j v :
  go_upd (rep d) (Z.of_nat j) (mk_T_Pair (T_Pair_Key (go_idx zero_T_Pair (rep d) (Z.of_nat j))) v)
  = rep (upd j (fst (sl d j), v) d).
Proof.
  rewrite rep_idx. change (mk_T_Pair (T_Pair_Key (rep_slot (sl d j))) v) with (rep_slot (fst (sl d j), v)).
  apply rep_upd.
Qed.

(* Put's loop (for i := 1; i < len(m.data); i++): the model's scan from the slot after
   [idx]; at the slot it stops at, the model's put_core writes what the code writes *)
Lemma gen_put_loop p : p <= 62 -> forall lf fuel t k v idx ii,
  length (t_data t) = 2 ^ p -> idx < 2 ^ p -> k <> 0%N -> 2 ^ p - ii < lf ->
  let r := go_UInt64Map_Put_loop1 fuel lf (gotab p t) k v (Z.of_nat idx) (Z.of_nat ii) in
  let m' := fst (fst (fst (fst (snd r)))) in
  match scan (stop_key k) (2 ^ p - ii) (t_data t) (2 ^ p) (nxt (2 ^ p) idx) with
  | Some x => fst r = GoRet tt /\
              m' = gotab p (with_data t (upd x (k, v) (t_data t))
                                      (if N.eqb (skey (t_data t) x) k then t_size t else (t_size t + 1)%Z))
  | None => fst r = GoNext /\ m' = gotab p t
  end.
Proof.
  intros Hp. induction lf as [|lf IH]; intros fuel t k v idx ii Hlen Hidx Hk Hlf r m'; [lia|].
  subst m' r. unfold gotab, gom.
  cbn [go_UInt64Map_Put_loop1 T_UInt64Map_data T_UInt64Map_size T_UInt64Map_growAt T_UInt64Map_mask T_UInt64Map_hasZeroKey T_UInt64Map_zeroVal].
  unfold go_len. rewrite rep_length, Hlen, zltb_nat.
  destruct (Nat.ltb_spec ii (2 ^ p)) as [Hii|Hii].
  - replace (2 ^ p - ii) with (S (2 ^ p - S ii)) by lia. cbn [scan].
    rewrite (gen_next p idx Hidx). set (j := nxt (2 ^ p) idx).
    assert (Hj : j < 2 ^ p).
    { unfold j, nxt. destruct (Nat.ltb_spec (S idx) (2 ^ p)); [lia|]. pose proof (Nat.pow_nonzero 2 p); lia. }
    pose proof (gen_set_slot (t_data t) j k v ltac:(lia)) as Hnew.
    pose proof (gen_set_value (t_data t) j v) as Hval.
    rewrite (rep_idx (t_data t) j) in Hnew, Hval. rewrite (rep_idx (t_data t) j).
    change (T_Pair_Key (rep_slot (sl (t_data t) j))) with (fst (sl (t_data t) j)) in *.
    unfold stop_key, skey.
    destruct (N.eqb (fst (sl (t_data t) j)) 0) eqn:E0.
    + assert (E1 : N.eqb (fst (sl (t_data t) j)) k = false).
      { apply N.eqb_eq in E0. apply N.eqb_neq. rewrite E0. auto. }
      rewrite E1. cbn [orb]. rewrite E1. rewrite Hnew. split; reflexivity.
    + destruct (N.eqb (fst (sl (t_data t) j)) k) eqn:E1.
      * cbn [orb]. rewrite E1. rewrite Hval. apply N.eqb_eq in E1. rewrite E1. split; reflexivity.
      * cbn [orb]. replace (Z.of_nat ii + 1)%Z with (Z.of_nat (S ii)) by lia.
        pose proof (IH fuel t k v j (S ii) Hlen Hj Hk ltac:(lia)) as H. cbv zeta in H. unfold gotab, gom in H. exact H.
  - replace (2 ^ p - ii) with 0 by lia. split; reflexivity.
Qed.

(* ---- Clear as a whole: zero key dropped, every slot emptied, size 0 — the model's tclear ---- *)
Fixpoint clr_run (n i : nat) (d : list slot) : list slot :=
  match n with 0 => d | S n' => clr_run n' (S i) (upd i empty_slot d) end.
Lemma firstn_upd_snoc i : forall (d : list slot) x, i < length d -> firstn (S i) (upd i x d) = firstn i d ++ [x].
Proof.
  induction i as [|i IH]; intros d x H; destruct d as [|y r]; simpl in *; try lia; [reflexivity|].
  f_equal. apply IH. lia.
Qed.
Lemma clr_run_spec n : forall i d, length d = i + n -> clr_run n i d = firstn i d ++ repeat empty_slot n.
Proof.
  induction n as [|n IH]; intros i d H; simpl.
  - rewrite app_nil_r. rewrite firstn_all2; [reflexivity|lia].
  - rewrite IH by (rewrite upd_length; lia). rewrite firstn_upd_snoc by lia.
    rewrite <- app_assoc. reflexivity.
Qed.
Lemma gen_clear_loop s1 n : forall lf i d sz ga mk hz zv z, length s1 = length d -> length d = i + n -> n < lf ->
  go_UInt64Map_Clear_loop1 s1 lf (Z.of_nat i) (mk_T_UInt64Map (rep d) sz ga mk hz zv) z =
  (GoNext, (mk_T_UInt64Map (rep (clr_run n i d)) sz ga mk hz zv, z)).
Proof.
  induction n as [|n IH]; intros lf i d sz ga mk hz zv z Hs Hd Hlf; (destruct lf as [|lf]; [lia|]);
    cbn [go_UInt64Map_Clear_loop1 T_UInt64Map_data T_UInt64Map_size T_UInt64Map_growAt T_UInt64Map_mask T_UInt64Map_hasZeroKey T_UInt64Map_zeroVal];
    unfold go_len; rewrite Hs, zltb_nat.
  - destruct (Nat.ltb_spec i (length d)); [lia|]. reflexivity.
  - destruct (Nat.ltb_spec i (length d)); [|lia].
    change (mk_T_Pair 0%N 0%N) with (rep_slot empty_slot). rewrite rep_upd.
    replace (Z.of_nat i + 1)%Z with (Z.of_nat (S i)) by lia.
    rewrite (IH lf (S i) (upd i empty_slot d)); [reflexivity| | |lia]; rewrite upd_length; lia.
Qed.
Lemma gen_clear p t : length (t_data t) = 2 ^ p -> go_UInt64Map_Clear (gotab p t) = gotab p (tclear t).
Proof.
  intros Hlen. unfold go_UInt64Map_Clear, gotab, gom.
  cbn [T_UInt64Map_data T_UInt64Map_size T_UInt64Map_growAt T_UInt64Map_mask T_UInt64Map_hasZeroKey T_UInt64Map_zeroVal].
  rewrite (gen_clear_loop (rep (t_data t)) (length (t_data t)) (S (length (rep (t_data t)))) 0 (t_data t));
    [|apply rep_length|reflexivity|rewrite rep_length; lia].
  rewrite clr_run_spec by reflexivity. simpl firstn. simpl app.
  unfold tclear, zhas, zval. simpl. reflexivity.
Qed.
