(* C16 — ties between the model (Model.v) and the Gallina translations srcgen makes
   of the Go functions themselves (Gen.C16): primaryIndex, getSegmentIndex, the loop
   of backwardShiftDelete and the probe loop of Get.  A behaviour-changing edit of
   those functions in /repo changes Gen.C16 and breaks these lemmas; a
   behaviour-preserving rewrite does not. *)
From Coq Require Import Znumtheory.
From Sdns Require Import Common.Base Common.GoList Gen.C16 C16.Model C16.Proofs_cyc C16.Proofs_more.
Open Scope nat_scope.

Definition rep_slot (s : slot) : T_Pair := mk_T_Pair (fst s) (snd s).
Definition rep (d : list slot) : list T_Pair := map rep_slot d.
(* a Go table whose slot array is [d]; the other fields are arbitrary *)
Definition gomap (d : list slot) (sz ga : Z) (hz : bool) (zv : N) : T_UInt64Map :=
  mk_T_UInt64Map (rep d) sz ga (Z.of_nat (length d) - 1) hz zv.

Lemma pow2_Z p : Z.of_nat (2 ^ p) = (2 ^ Z.of_nat p)%Z.
Proof. rewrite Nat2Z.inj_pow. reflexivity. Qed.

Lemma land_mask_mod (a : Z) p : Z.land a (Z.of_nat (2 ^ p) - 1) = (a mod 2 ^ Z.of_nat p)%Z.
Proof.
  rewrite pow2_Z. replace (2 ^ Z.of_nat p - 1)%Z with (Z.ones (Z.of_nat p)) by (rewrite Z.ones_equiv; lia).
  apply Z.land_ones. lia.
Qed.

(* (j + 1) & mask *)
Lemma gen_next p j : j < 2 ^ p ->
  Z.land (Z.of_nat j + 1) (Z.of_nat (2 ^ p) - 1) = Z.of_nat (nxt (2 ^ p) j).
Proof.
  intros Hj. rewrite land_mask_mod. unfold nxt. rewrite <- pow2_Z.
  destruct (Nat.ltb_spec (S j) (2 ^ p)).
  - rewrite Z.mod_small; lia.
  - assert (S j = 2 ^ p) by lia. replace (Z.of_nat j + 1)%Z with (Z.of_nat (2 ^ p)) by lia.
    rewrite Z.mod_same; lia.
Qed.

(* primaryIndex is the model's home slot under the code's mixer *)
Lemma gen_primaryIndex p m k : p <= 62 -> T_UInt64Map_mask m = (Z.of_nat (2 ^ p) - 1)%Z ->
  go_UInt64Map_primaryIndex m k = Z.of_nat (hidx go_mix (2 ^ p) k).
Proof.
  intros Hp Hm. unfold go_UInt64Map_primaryIndex. rewrite Hm, land_mask_mod.
  unfold hidx, go_mix. rewrite w64_wrap64.
  change hash_mult with 2654435769%N. change hash_shift with 16%N.
  set (h := wrap64 (k * 2654435769)). set (x := N.lxor h (N.shiftr h 16)).
  unfold N_to_s64. set (z := Z.of_N (wrap64 x)).
  assert (Hz : z = (Z.of_N x mod 2 ^ 64)%Z) by (unfold z, wrap64, two64; rewrite N2Z.inj_mod; reflexivity).
  assert (Hdiv : (2 ^ Z.of_nat p | 2 ^ 64)%Z).
  { exists (2 ^ (64 - Z.of_nat p))%Z. rewrite <- Z.pow_add_r by lia. f_equal. lia. }
  assert (Hzp : (z mod 2 ^ Z.of_nat p = Z.of_N x mod 2 ^ Z.of_nat p)%Z).
  { rewrite Hz. symmetry. apply Znumtheory.Zmod_div_mod; try lia. exact Hdiv. }
  assert (Hmod : ((z - 18446744073709551616) mod 2 ^ Z.of_nat p = z mod 2 ^ Z.of_nat p)%Z).
  { destruct Hdiv as [q Hq]. change 18446744073709551616%Z with (2 ^ 64)%Z. rewrite Hq.
    replace (z - q * 2 ^ Z.of_nat p)%Z with (z + (- q) * 2 ^ Z.of_nat p)%Z by lia.
    apply Z.mod_add. lia. }
  assert (Hres : (Z.of_N x mod 2 ^ Z.of_nat p)%Z = Z.of_nat (N.to_nat (x mod N.of_nat (2 ^ p)))).
  { rewrite N_nat_Z, N2Z.inj_mod. f_equal. rewrite nat_N_Z. apply eq_sym, pow2_Z. }
  destruct (z <? 9223372036854775808)%Z; [|rewrite Hmod]; rewrite Hzp; exact Hres.
Qed.

(* getSegmentIndex is the model's segment selector *)
Lemma gen_getSegmentIndex p m k : p <= 62 -> T_SegmentUInt64Map_segmentMask m = (Z.of_nat (2 ^ p) - 1)%Z ->
  go_SegmentUInt64Map_getSegmentIndex m k = N.of_nat (go_sidx (2 ^ p) k).
Proof.
  intros Hp Hm. unfold go_SegmentUInt64Map_getSegmentIndex, go_sidx. rewrite Hm, w64_wrap64.
  change seg_mult with 2654435769%N. change seg_shift with 16%N.
  set (a := N.shiftr (wrap64 (k * 2654435769)) 16).
  assert (Hu : Z_to_uw two64 (Z.of_nat (2 ^ p) - 1) = N.ones (N.of_nat p)).
  { unfold Z_to_uw. rewrite N.ones_equiv, pow2_Z.
    assert (0 < 2 ^ Z.of_nat p <= 2 ^ 62)%Z by (split; [lia|apply Z.pow_le_mono_r; lia]).
    rewrite Z.mod_small by (unfold two64; simpl; lia).
    apply N2Z.inj. rewrite Z2N.id by lia. rewrite N2Z.inj_pred by (apply N.neq_0_lt_0; apply N.pow_nonzero; lia).
    rewrite N2Z.inj_pow. simpl. rewrite nat_N_Z. lia. }
  rewrite Hu, N.land_ones, N2Nat.id. f_equal. rewrite Nat2N.inj_pow. reflexivity.
Qed.

(* ---- the slot array as the translated code sees it ---- *)
Lemma rep_length d : length (rep d) = length d.
Proof. apply map_length. Qed.
Lemma rep_idx d j : go_idx zero_T_Pair (rep d) (Z.of_nat j) = rep_slot (sl d j).
Proof.
  rewrite go_idx_nth by lia. rewrite Nat2Z.id. unfold rep, sl.
  change zero_T_Pair with (rep_slot empty_slot). apply map_nth.
Qed.
Lemma rep_upd d i x : go_upd (rep d) (Z.of_nat i) (rep_slot x) = rep (upd i x d).
Proof.
  unfold go_upd. destruct (Z.ltb_spec (Z.of_nat i) 0) as [H|H]; [lia|clear H]. rewrite Nat2Z.id.
  revert i; induction d as [|y d IH]; intros [|i]; simpl; auto. rewrite IH. reflexivity.
Qed.
Lemma upd_upd_same i a b d : upd i b (upd i a d) = upd i b d.
Proof. revert i; induction d as [|y d IH]; intros [|i]; simpl; auto. rewrite IH. reflexivity. Qed.

Lemma zleb_nat a b : (Z.of_nat a <=? Z.of_nat b)%Z = (a <=? b).
Proof. destruct (Z.leb_spec (Z.of_nat a) (Z.of_nat b)); destruct (Nat.leb_spec a b); auto; lia. Qed.
Lemma zltb_nat a b : (Z.of_nat a <? Z.of_nat b)%Z = (a <? b).
Proof. destruct (Z.ltb_spec (Z.of_nat a) (Z.of_nat b)); destruct (Nat.ltb_spec a b); auto; lia. Qed.

(* one move of the shift as the translated code writes it (data[i] = data[j]; data[j].Key = 0; data[j].Value = zero) *)
Lemma gen_move d i j sz ga mk hz zv : j < length d ->
  let m := mk_T_UInt64Map (rep d) sz ga mk hz zv in
  let m1 := mk_T_UInt64Map (go_upd (T_UInt64Map_data m) (Z.of_nat i) (go_idx zero_T_Pair (T_UInt64Map_data m) (Z.of_nat j)))
              (T_UInt64Map_size m) (T_UInt64Map_growAt m) (T_UInt64Map_mask m) (T_UInt64Map_hasZeroKey m) (T_UInt64Map_zeroVal m) in
  let m2 := mk_T_UInt64Map (go_upd (T_UInt64Map_data m1) (Z.of_nat j) (mk_T_Pair 0%N (T_Pair_Value (go_idx zero_T_Pair (T_UInt64Map_data m1) (Z.of_nat j)))))
              (T_UInt64Map_size m1) (T_UInt64Map_growAt m1) (T_UInt64Map_mask m1) (T_UInt64Map_hasZeroKey m1) (T_UInt64Map_zeroVal m1) in
  mk_T_UInt64Map (go_upd (T_UInt64Map_data m2) (Z.of_nat j) (mk_T_Pair (T_Pair_Key (go_idx zero_T_Pair (T_UInt64Map_data m2) (Z.of_nat j))) 0%N))
              (T_UInt64Map_size m2) (T_UInt64Map_growAt m2) (T_UInt64Map_mask m2) (T_UInt64Map_hasZeroKey m2) (T_UInt64Map_zeroVal m2)
  = mk_T_UInt64Map (rep (upd j empty_slot (upd i (sl d j) d))) sz ga mk hz zv.
Proof.
  intros Hj. cbn [T_UInt64Map_data T_UInt64Map_size T_UInt64Map_growAt T_UInt64Map_mask T_UInt64Map_hasZeroKey T_UInt64Map_zeroVal].
  rewrite rep_idx, rep_upd. rewrite rep_idx.
  set (d1 := upd i (sl d j) d).
  change (mk_T_Pair 0%N (T_Pair_Value (rep_slot (sl d1 j)))) with (rep_slot (0%N, snd (sl d1 j))).
  rewrite rep_upd, rep_idx. rewrite sl_upd_eq by (unfold d1; rewrite upd_length; exact Hj).
  change (mk_T_Pair (T_Pair_Key (rep_slot (0%N, snd (sl d1 j)))) 0%N) with (rep_slot empty_slot).
  rewrite rep_upd, upd_upd_same. reflexivity.
Qed.

(* the loop of backwardShiftDelete is the model's bshift *)
Lemma gen_bshift p : p <= 62 -> forall lf fuel d i j sz ga hz zv,
  length d = 2 ^ p -> j < 2 ^ p ->
  let r := go_UInt64Map_backwardShiftDelete_loop1 fuel lf (gomap d sz ga hz zv) 0%N (Z.of_nat i) (Z.of_nat j) in
  match bshift go_mix lf d (2 ^ p) i j with
  | Some d' => fst r = GoNext /\ exists i' j', snd r = (gomap d' sz ga hz zv, 0%N, Z.of_nat i', Z.of_nat j')
  | None => fst r = GoOof
  end.
Proof.
  intros Hp. induction lf as [|lf IH]; intros fuel d i j sz ga hz zv Hlen Hj r; [reflexivity|].
  subst r.
  assert (Hg0 : gomap d sz ga hz zv = mk_T_UInt64Map (rep d) sz ga (Z.of_nat (2 ^ p) - 1) hz zv) by (unfold gomap; rewrite Hlen; reflexivity).
  rewrite Hg0.
  cbn [go_UInt64Map_backwardShiftDelete_loop1 bshift T_UInt64Map_data T_UInt64Map_size T_UInt64Map_growAt T_UInt64Map_mask T_UInt64Map_hasZeroKey T_UInt64Map_zeroVal].
  rewrite (gen_next p j Hj).
  set (j' := nxt (2 ^ p) j).
  assert (Hj' : j' < 2 ^ p).
  { unfold j', nxt. destruct (Nat.ltb_spec (S j) (2 ^ p)); [lia|]. pose proof (Nat.pow_nonzero 2 p); lia. }
  rewrite rep_idx. change (T_Pair_Key (rep_slot (sl d j'))) with (fst (sl d j')).
  destruct (N.eqb (fst (sl d j')) 0) eqn:Ek.
  - split; [reflexivity|]. exists i, j'. unfold gomap. rewrite Hlen. reflexivity.
  - rewrite (gen_primaryIndex p _ (fst (sl d j')) Hp) by (cbn [T_UInt64Map_mask]; reflexivity).
    set (k := hidx go_mix (2 ^ p) (fst (sl d j'))).
    rewrite !zleb_nat, !zltb_nat. unfold stay.
    assert (Hg : mk_T_UInt64Map (rep d) sz ga (Z.of_nat (2 ^ p) - 1) hz zv = gomap d sz ga hz zv) by (unfold gomap; rewrite Hlen; reflexivity).
    assert (Hmv : forall d2, length d2 = 2 ^ p -> mk_T_UInt64Map (rep d2) sz ga (Z.of_nat (2 ^ p) - 1) hz zv = gomap d2 sz ga hz zv)
      by (intros d2 H2; unfold gomap; rewrite H2; reflexivity).
    pose proof (gen_move d i j' sz ga (Z.of_nat (2 ^ p) - 1)%Z hz zv ltac:(lia)) as Hmove. cbv zeta in Hmove.
    cbn [T_UInt64Map_data T_UInt64Map_size T_UInt64Map_growAt T_UInt64Map_mask T_UInt64Map_hasZeroKey T_UInt64Map_zeroVal] in Hmove.
    rewrite (rep_idx d j') in Hmove.
    assert (Hlen2 : length (upd j' empty_slot (upd i (sl d j') d)) = 2 ^ p) by (rewrite !upd_length; exact Hlen).
    destruct (i <=? j').
    + destruct ((i <? k) && (k <=? j')).
      * rewrite Hg. apply (IH fuel d i j' sz ga hz zv Hlen Hj').
      * rewrite Hmove, (Hmv _ Hlen2). apply (IH fuel _ j' j' sz ga hz zv Hlen2 Hj').
    + destruct ((i <? k) || (k <=? j')).
      * rewrite Hg. apply (IH fuel d i j' sz ga hz zv Hlen Hj').
      * rewrite Hmove, (Hmv _ Hlen2). apply (IH fuel _ j' j' sz ga hz zv Hlen2 Hj').
Qed.

(* the probe loop of Get (for i := 1; i < len(m.data); i++) is the model's scan
   from the slot after [idx] with len - i slots to go *)
Lemma gen_get_loop p : p <= 62 -> forall lf fuel d k idx ii sz ga hz zv,
  length d = 2 ^ p -> idx < 2 ^ p -> k <> 0%N -> 2 ^ p - ii < lf ->
  let r := go_UInt64Map_Get_loop1 fuel lf (gomap d sz ga hz zv) k (Z.of_nat idx) (Z.of_nat ii) in
  match scan (stop_key k) (2 ^ p - ii) d (2 ^ p) (nxt (2 ^ p) idx) with
  | Some x => fst r = GoRet (if N.eqb (skey d x) k then (snd (sl d x), true) else (0%N, false))
  | None => fst r = GoNext
  end.
Proof.
  intros Hp. induction lf as [|lf IH]; intros fuel d k idx ii sz ga hz zv Hlen Hidx Hk Hlf r; [lia|].
  subst r.
  assert (Hg0 : gomap d sz ga hz zv = mk_T_UInt64Map (rep d) sz ga (Z.of_nat (2 ^ p) - 1) hz zv) by (unfold gomap; rewrite Hlen; reflexivity).
  rewrite Hg0.
  cbn [go_UInt64Map_Get_loop1 T_UInt64Map_data T_UInt64Map_mask].
  unfold go_len. rewrite rep_length, Hlen, zltb_nat.
  destruct (Nat.ltb_spec ii (2 ^ p)) as [Hii|Hii].
  - replace (2 ^ p - ii) with (S (2 ^ p - S ii)) by lia. cbn [scan].
    rewrite (gen_next p idx Hidx). set (j := nxt (2 ^ p) idx).
    assert (Hj : j < 2 ^ p).
    { unfold j, nxt. destruct (Nat.ltb_spec (S idx) (2 ^ p)); [lia|]. pose proof (Nat.pow_nonzero 2 p); lia. }
    rewrite rep_idx. change (T_Pair_Key (rep_slot (sl d j))) with (fst (sl d j)).
    change (T_Pair_Value (rep_slot (sl d j))) with (snd (sl d j)).
    unfold stop_key, skey.
    destruct (N.eqb (fst (sl d j)) k) eqn:E1; [cbn [orb fst]; rewrite E1; reflexivity|].
    destruct (N.eqb (fst (sl d j)) 0) eqn:E2; [cbn [orb fst]; rewrite E1; reflexivity|]. cbn [orb].
    replace (Z.of_nat ii + 1)%Z with (Z.of_nat (S ii)) by lia.
    rewrite <- Hg0. apply (IH fuel d k j (S ii) sz ga hz zv Hlen Hj Hk). lia.
  - replace (2 ^ p - ii) with 0 by lia. reflexivity.
Qed.

(* Get's loop as srcgen wraps it (i starts at 1): the model's scan over the len - 1
   slots after the primary one *)
Lemma gen_get_run p : p <= 62 -> forall fuel d k idx sz ga hz zv,
  length d = 2 ^ p -> idx < 2 ^ p -> k <> 0%N -> 2 ^ p <= fuel ->
  let r := go_UInt64Map_Get_loop1_run fuel (gomap d sz ga hz zv) k (Z.of_nat idx) in
  match scan (stop_key k) (2 ^ p - 1) d (2 ^ p) (nxt (2 ^ p) idx) with
  | Some x => fst r = GoRet (if N.eqb (skey d x) k then (snd (sl d x), true) else (0%N, false))
  | None => fst r = GoNext
  end.
Proof.
  intros Hp fuel d k idx sz ga hz zv Hlen Hidx Hk Hf. unfold go_UInt64Map_Get_loop1_run.
  apply (gen_get_loop p Hp fuel fuel d k idx 1 sz ga hz zv Hlen Hidx Hk). lia.
Qed.

(* backwardShiftDelete's loop as srcgen wraps it (j starts at i) *)
Lemma gen_bshift_run p : p <= 62 -> forall fuel d i sz ga hz zv,
  length d = 2 ^ p -> i < 2 ^ p ->
  let r := go_UInt64Map_backwardShiftDelete_loop1_run fuel (gomap d sz ga hz zv) 0%N (Z.of_nat i) in
  match bshift go_mix fuel d (2 ^ p) i i with
  | Some d' => fst r = GoNext /\ exists i' j', snd r = (gomap d' sz ga hz zv, 0%N, Z.of_nat i', Z.of_nat j')
  | None => fst r = GoOof
  end.
Proof.
  intros Hp fuel d i sz ga hz zv Hlen Hi. unfold go_UInt64Map_backwardShiftDelete_loop1_run.
  apply (gen_bshift p Hp fuel fuel d i i sz ga hz zv Hlen Hi).
Qed.
