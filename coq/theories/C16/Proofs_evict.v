(* C16 — EvictKeysAt deletes exactly min(n, number of other keys).
   Needs a frame property of backwardShiftDelete: it only touches the slots
   from the deleted index up to the first empty slot, and moves entries
   backward only. *)
From Sdns Require Import Common.Base Gen.C16 C16.Model C16.Proofs_cyc C16.Proofs_tab C16.Proofs_wf C16.Proofs_more.
Open Scope nat_scope.

Ltac sl := repeat match goal with x := _ |- _ => subst x end; lia.

Section Evict.
  Variable mix : N -> N.
  Notation WF := (WF mix).

  Lemma cyc_next_before n i0 j e0 : i0 < n -> j < n -> e0 < n ->
    dist n i0 j < dist n i0 e0 ->
    nxt n j < n /\ nxt n j <> i0 /\ dist n i0 (nxt n j) = S (dist n i0 j) /\ dist n i0 (nxt n j) <= dist n i0 e0.
  Proof. cyc. Qed.

  Lemma bshift_frame fuel : forall d0 i0 e0 d i j d',
    length d = length d0 -> i0 < length d0 -> i < length d0 -> j < length d0 -> e0 < length d0 ->
    skey d0 e0 = 0%N -> dist (length d0) i0 j < dist (length d0) i0 e0 ->
    dist (length d0) i0 i <= dist (length d0) i0 j ->
    (forall p, p < length d0 -> dist (length d0) i0 j < dist (length d0) i0 p -> sl d p = sl d0 p) ->
    (forall p, p < length d0 -> dist (length d0) i0 p <= dist (length d0) i0 j ->
       sl d p = empty_slot \/
       exists q, q < length d0 /\ dist (length d0) i0 p <= dist (length d0) i0 q /\
                 dist (length d0) i0 q <= dist (length d0) i0 j /\ sl d p = sl d0 q) ->
    (forall p, p < length d0 -> 0 < dist (length d0) i0 p -> dist (length d0) i0 p <= dist (length d0) i0 j -> skey d0 p <> 0%N) ->
    bshift mix fuel d (length d0) i j = Some d' ->
    exists e, e < length d0 /\ skey d0 e = 0%N /\ 0 < dist (length d0) i0 e /\
      (forall p, p < length d0 -> 0 < dist (length d0) i0 p -> dist (length d0) i0 p < dist (length d0) i0 e -> skey d0 p <> 0%N) /\
      (forall p, p < length d0 -> dist (length d0) i0 e <= dist (length d0) i0 p -> sl d' p = sl d0 p) /\
      (forall p, p < length d0 -> dist (length d0) i0 p < dist (length d0) i0 e ->
         sl d' p = empty_slot \/
         exists q, q < length d0 /\ dist (length d0) i0 p <= dist (length d0) i0 q /\
                   dist (length d0) i0 q < dist (length d0) i0 e /\ sl d' p = sl d0 q).
  Proof.
    induction fuel; intros d0 i0 e0 d i j d' Hlen Hi0 Hi Hj He0 Hz0 Hbefore Hij J1 J2 J3 Hb; [discriminate|].
    set (n := length d0) in *.
    simpl in Hb. set (j' := nxt n j) in *.
    destruct (cyc_next_before n i0 j e0 Hi0 Hj He0 Hbefore) as [Hj' [Hj'i0 [Hdj' Hle]]]. fold j' in Hj', Hj'i0, Hdj', Hle.
    assert (Hsj' : sl d j' = sl d0 j') by (apply J1; auto; sl).
    assert (Hup : forall p, p < n -> dist n i0 p <= dist n i0 j' -> p <> j' -> dist n i0 p <= dist n i0 j).
    { intros p Hp Hd Hne. assert (dist n i0 p <> dist n i0 j') by (intro E; apply Hne; apply (dist_inj n i0 p j'); auto). sl. }
    destruct (N.eqb_spec (fst (sl d j')) 0) as [Hz|Hnz].
    - (* the loop ends here *)
      inversion Hb; subst d'. exists j'.
      split; [exact Hj'|]. split; [unfold skey; rewrite <- Hsj'; exact Hz|]. split; [sl|]. split; [|split].
      + intros p Hp H0 Hlt. apply J3; auto. sl.
      + intros p Hp Hge. apply J1; auto. sl.
      + intros p Hp Hlt. destruct (J2 p Hp) as [E|[q [Hq [H1 [H2 H3]]]]]; [sl|auto|].
        right. exists q. repeat split; auto. sl.
    - assert (Hne0 : j' <> e0).
      { intro E. apply Hnz. rewrite Hsj', E. exact Hz0. }
      assert (Hbefore' : dist n i0 j' < dist n i0 e0).
      { assert (dist n i0 j' <> dist n i0 e0) by (intro E; apply Hne0; apply (dist_inj n i0 j' e0); auto). sl. }
      assert (J3' : forall p, p < n -> 0 < dist n i0 p -> dist n i0 p <= dist n i0 j' -> skey d0 p <> 0%N).
      { intros p Hp H0 Hd. destruct (Nat.eq_dec p j') as [->|Hne].
        - unfold skey. rewrite <- Hsj'. exact Hnz.
        - apply J3; auto. }
      destruct (stay i j' (hidx mix n (fst (sl d j')))).
      + (* the entry stays; the cursor moves on *)
        apply (IHfuel d0 i0 e0 d i j' d'); auto; try sl.
        * intros p Hp Hd. apply J1; auto. sl.
        * intros p Hp Hd. destruct (Nat.eq_dec p j') as [->|Hne].
          -- right. exists j'. repeat split; auto.
          -- destruct (J2 p Hp (Hup p Hp Hd Hne)) as [E|[q [Hq [H1 [H2 H3]]]]]; auto.
             right. exists q. repeat split; auto. sl.
      + (* the entry moves into the gap; its slot is the new gap *)
        assert (Hij' : i <> j') by (intro; subst; sl).
        apply (IHfuel d0 i0 e0 (upd j' empty_slot (upd i (sl d j') d)) j' j' d'); auto; try sl.
        * rewrite !upd_length. exact Hlen.
        * intros p Hp Hd.
          assert (p <> j') by (intro; subst; sl). assert (p <> i) by (intro; subst; sl).
          rewrite !sl_upd_neq by auto. apply J1; auto. sl.
        * intros p Hp Hd. destruct (Nat.eq_dec p j') as [->|Hne].
          -- left. apply sl_upd_eq. rewrite upd_length, Hlen. exact Hj'.
          -- rewrite sl_upd_neq by auto. destruct (Nat.eq_dec p i) as [->|Hni].
             ++ rewrite sl_upd_eq by (rewrite Hlen; exact Hi). right. exists j'. repeat split; auto; sl.
             ++ rewrite sl_upd_neq by auto.
                destruct (J2 p Hp (Hup p Hp Hd Hne)) as [E|[q [Hq [H1 [H2 H3]]]]]; auto.
                right. exists q. repeat split; auto. sl.
  Qed.

  (* deleting at idx: the slots strictly before idx (seen from idx: the ones
     at the far end of the ring) either keep their content or take over the
     content of a slot further on; nothing new appears among them *)
  Lemma delete_frame d idx d' : idx < length d -> occ d + 1 <= length d -> skey d idx <> 0%N ->
    bshift mix (length d) (upd idx empty_slot d) (length d) idx idx = Some d' ->
    forall p, p < length d -> p <> idx ->
      sl d' p = empty_slot \/
      exists q, q < length d /\ q <> idx /\ dist (length d) idx p <= dist (length d) idx q /\ sl d' p = sl d q /\
        (q <> p -> forall x, x < length d -> dist (length d) idx p <= dist (length d) idx x ->
                   dist (length d) idx x <= dist (length d) idx q -> skey d x <> 0%N).
  Proof.
    intros Hidx Hocc Hnz Hb p Hp Hpi.
    set (d0 := upd idx empty_slot d).
    assert (Hl0 : length d0 = length d) by (unfold d0; apply upd_length).
    assert (Hk0 : skey d0 idx = 0%N) by (unfold d0; rewrite skey_upd_eq; auto).
    assert (Ho0 : occ d0 + 2 <= length d0).
    { pose proof (occ_upd idx empty_slot d Hidx) as H. fold d0 in H. rewrite nz_key in H.
      destruct (N.eqb_spec (skey d idx) 0); [contradiction|]. change (nz empty_slot) with false in H. simpl in H. lia. }
    assert (Hidx0 : idx < length d0) by (rewrite Hl0; exact Hidx).
    destruct (second_empty d0 idx Hidx0 Hk0 Ho0) as [e0 [He0 [Hez Hne]]].
    assert (Hbefore : dist (length d0) idx idx < dist (length d0) idx e0).
    { rewrite dist_self. destruct (dist (length d0) idx e0) eqn:E; [|lia]. apply dist_zero in E; auto. congruence. }
    assert (Hb0 : bshift mix (length d0) d0 (length d0) idx idx = Some d') by (rewrite Hl0; exact Hb).
    assert (J1 : forall x, x < length d0 -> dist (length d0) idx idx < dist (length d0) idx x -> sl d0 x = sl d0 x) by reflexivity.
    assert (J2 : forall x, x < length d0 -> dist (length d0) idx x <= dist (length d0) idx idx ->
       sl d0 x = empty_slot \/
       exists q, q < length d0 /\ dist (length d0) idx x <= dist (length d0) idx q /\
                 dist (length d0) idx q <= dist (length d0) idx idx /\ sl d0 x = sl d0 q).
    { intros x Hx Hd. right. exists x. repeat split; auto. }
    assert (J3 : forall x, x < length d0 -> 0 < dist (length d0) idx x -> dist (length d0) idx x <= dist (length d0) idx idx -> skey d0 x <> 0%N).
    { intros x Hx H0 Hd. rewrite dist_self in Hd. lia. }
    destruct (bshift_frame (length d0) d0 idx e0 d0 idx idx d' eq_refl Hidx0 Hidx0 Hidx0 He0 Hez Hbefore (le_n _) J1 J2 J3 Hb0)
      as [e [He [Hze [Hpos [Hocc' [F1 F2]]]]]].
    clear J1 J2 J3 Hb0 Hbefore. rewrite Hl0 in *.
    set (n := length d) in *.
    destruct (le_lt_dec (dist n idx e) (dist n idx p)) as [Hge|Hlt].
    - right. exists p. rewrite (F1 p Hp Hge). unfold d0. rewrite sl_upd_neq by auto.
      repeat split; auto.
    - destruct (F2 p Hp Hlt) as [E|[q [Hq [H1 [H2 H3]]]]]; auto.
      right. assert (Hqi : q <> idx).
      { intro; subst q. rewrite dist_self in H1. assert (dist n idx p = 0) by lia. apply dist_zero in H; auto. }
      exists q. unfold d0 in H3. rewrite sl_upd_neq in H3 by auto. repeat split; auto.
      intros _ x Hx Hx1 Hx2.
      assert (Hxi : x <> idx).
      { intro; subst x. rewrite dist_self in Hx1. assert (dist n idx p = 0) by lia. apply dist_zero in H; auto. }
      assert (skey d0 x <> 0%N).
      { apply Hocc'; auto; [|lia].
        destruct (dist n idx x) eqn:E; [|lia]. apply dist_zero in E; auto. congruence. }
      unfold d0 in H. rewrite skey_upd_neq in H by auto. exact H.
  Qed.

  (* ------------------------------------------------ the scanned region *)
  Definition Scanned (d : list slot) (o s : nat) (skip : N) : Prop :=
    forall p, p < length d -> dist (length d) o p < s -> skey d p = 0%N \/ skey d p = skip.

  Lemma cyc_region n o idx p q s : o < n -> idx < n -> p < n -> q < n ->
    dist n o idx = s -> dist n o p < s -> q <> idx -> dist n idx p <= dist n idx q -> dist n o q < s.
  Proof. cyc. Qed.
  Lemma cyc_advance n o idx s : o < n -> idx < n -> dist n o idx = s -> S s < n ->
    dist n o (nxt n idx) = S s.
  Proof. cyc. Qed.

  Lemma del_at_data t idx : WF t -> idx < length (t_data t) -> skey (t_data t) idx <> 0%N ->
    exists d', bshift mix (length (t_data t)) (upd idx empty_slot (t_data t)) (length (t_data t)) idx idx = Some d' /\
               t_data (del_at mix t idx) = d'.
  Proof.
    intros W Hidx Hnz.
    destruct (delete_ok mix (t_data t) idx (wf_uq mix t W) (wf_ch mix t W) Hidx Hnz) as [d' [Hb _]].
    { pose proof (occ_le (t_data t)). destruct W. lia. }
    exists d'. split; auto. unfold del_at. rewrite upd_length, Hb. reflexivity.
  Qed.

  Lemma evict_loop_scan skip maxdel fuel : forall t idx scanned deleted o,
    WF t -> o < length (t_data t) -> idx < length (t_data t) -> scanned <= length (t_data t) ->
    (scanned < length (t_data t) -> dist (length (t_data t)) o idx = scanned) ->
    Scanned (t_data t) o scanned skip -> deleted <= maxdel ->
    (length (t_data t) - scanned) + (maxdel - deleted) <= fuel ->
    let r := evict_loop mix fuel t (length (t_data t)) idx scanned deleted maxdel skip in
    snd r = maxdel \/ Scanned (t_data (fst r)) o (length (t_data (fst r))) skip.
  Proof.
    induction fuel; intros t idx scanned deleted o W Ho Hidx Hsc Hd HS Hdel Hf; simpl.
    - right. assert (scanned = length (t_data t)) by lia. subst scanned. exact HS.
    - destruct (Nat.ltb_spec scanned (length (t_data t))) as [Hlt|Hge]; simpl.
      2:{ right. assert (scanned = length (t_data t)) by lia. subst scanned. exact HS. }
      destruct (Nat.ltb_spec deleted maxdel) as [Hdl|Hdg]; simpl.
      2:{ left. lia. }
      specialize (Hd Hlt).
      destruct (N.eqb (skey (t_data t) idx) 0 || N.eqb (skey (t_data t) idx) skip) eqn:Hk.
      + (* advance *)
        apply IHfuel; auto; try lia.
        * apply nxt_lt. lia.
        * intros Hlt'. apply cyc_advance; auto.
        * intros p Hp Hdp. destruct (Nat.eq_dec (dist (length (t_data t)) o p) scanned) as [E|E].
          -- assert (p = idx) by (apply (dist_inj (length (t_data t)) o p idx); auto; congruence). subst p.
             apply orb_true_iff in Hk. destruct Hk as [Hk|Hk]; apply N.eqb_eq in Hk; auto.
          -- apply HS; auto. lia.
      + (* delete at the cursor; the scanned region stays clean *)
        apply orb_false_iff in Hk. destruct Hk as [Hk0 Hks]. apply N.eqb_neq in Hk0. apply N.eqb_neq in Hks.
        destruct (del_at_spec mix t idx W Hidx Hk0) as [W' [_ [_ [_ [Hl _]]]]].
        destruct (del_at_data t idx W Hidx Hk0) as [d' [Hb Hd']].
        specialize (IHfuel (del_at mix t idx) idx scanned (S deleted) o W').
        rewrite Hl in IHfuel. apply IHfuel; auto; try lia.
        rewrite Hd'. intros p Hp Hdp.
        assert (Hl' : length d' = length (t_data t)) by (rewrite <- Hd'; exact Hl).
        rewrite Hl' in Hp, Hdp.
        assert (Hpi : p <> idx) by (intro; subst; lia).
        assert (Hocc : occ (t_data t) + 1 <= length (t_data t)).
        { pose proof (occ_le (t_data t)). destruct W. lia. }
        destruct (delete_frame (t_data t) idx d' Hidx Hocc Hk0 Hb p Hp Hpi) as [E|[q [Hq [Hqi [Hdq [Hs _]]]]]].
        * left. unfold skey. rewrite E. reflexivity.
        * unfold skey. rewrite Hs. apply HS; auto.
          apply (cyc_region (length (t_data t)) o idx p q scanned); auto.
  Qed.

  Lemma occ_all_zero d : (forall i, i < length d -> skey d i = 0%N) -> occ d = 0.
  Proof.
    induction d; simpl; intros H; auto.
    assert (nz a = false). { specialize (H 0). unfold skey, sl in H. simpl in H. unfold nz. rewrite H by lia. reflexivity. }
    rewrite H0. simpl. apply IHd. intros i Hi. apply (H (S i)). lia.
  Qed.
  Lemma occ_only_key d k : Uq d -> k <> 0%N ->
    (forall p, p < length d -> skey d p = 0%N \/ skey d p = k) ->
    occ d = match dget d k with Some _ => 1 | None => 0 end.
  Proof.
    intros HU Hk Hall. destruct (dget d k) eqn:E.
    - apply dget_some in E. destruct (has_key _ _ _ E) as [i [Hi Hki]].
      (* every other slot is empty *)
      set (d1 := upd i empty_slot d).
      assert (occ d1 = 0).
      { apply occ_all_zero. unfold d1. rewrite upd_length. intros j Hj.
        destruct (Nat.eq_dec j i) as [->|Hne]; [rewrite skey_upd_eq; auto|].
        rewrite skey_upd_neq by auto. destruct (Hall j Hj) as [Hz|Hkj]; auto.
        exfalso. apply Hne. symmetry. apply HU; auto; congruence. }
      pose proof (occ_upd i empty_slot d Hi) as H1. fold d1 in H1. rewrite nz_key, Hki in H1.
      destruct (N.eqb_spec k 0); [contradiction|]. change (nz empty_slot) with false in H1. simpl in H1. lia.
    - apply occ_all_zero. intros i Hi. destruct (Hall i Hi) as [Hz|Hki]; auto.
      exfalso. exact (dget_none _ _ E i Hi Hki).
  Qed.

  (* EvictKeysAt deletes exactly min(n, number of keys other than skip) *)
  Theorem tevict_count t offset nmax skip : WF t ->
    snd (tevict mix t offset nmax skip) =
    Z.max 0 (Z.min nmax (t_size t - (if present (abs t) skip then 1 else 0))).
  Proof.
    intros W. pose proof (wf_len8 mix t W) as H8. unfold tevict.
    assert (Hps : (0 <= t_size t - (if present (abs t) skip then 1 else 0))%Z).
    { pose proof (wf_size mix t W) as Hs. unfold present, abs.
      destruct (N.eqb_spec skip 0).
      - destruct (t_zero t); simpl in *; lia.
      - destruct (dget (t_data t) skip) eqn:E; [|destruct (t_zero t); simpl in *; lia].
        apply dget_some in E. destruct (has_key _ _ _ E) as [i [Hi Hki]].
        assert (0 < occ (t_data t)) by (apply (occ_pos _ i); auto; congruence).
        destruct (t_zero t); simpl in *; lia. }
    destruct (Z.leb_spec nmax 0) as [Hn|Hn]; simpl; [lia|].
    destruct (Nat.eqb_spec (length (t_data t)) 0) as [|_]; [lia|].
    set (n := length (t_data t)) in *.
    set (o := Z.to_nat (offset mod Z.of_nat n)).
    assert (Ho : o < n). { unfold o. pose proof (Z.mod_pos_bound offset (Z.of_nat n)). lia. }
    pose proof (evict_loop_spec mix skip (Z.to_nat nmax) (n + Z.to_nat nmax) t o 0 0 W Ho (Nat.le_0_l _)) as H1.
    pose proof (evict_loop_scan skip (Z.to_nat nmax) (n + Z.to_nat nmax) t o 0 0 o W Ho Ho (Nat.le_0_l _)) as H2.
    fold n in H1, H2.
    destruct (evict_loop mix (n + Z.to_nat nmax) t n o 0 0 (Z.to_nat nmax) skip) as [t1 deleted].
    simpl in H1, H2. destruct H1 as [W1 [Hr [Hs [Hz [Hl [Hsh Hsk]]]]]].
    assert (H2' : deleted = Z.to_nat nmax \/ Scanned (t_data t1) o (length (t_data t1)) skip).
    { apply H2; try lia.
      - intros _. apply dist_self.
      - intros p _ Hp. lia. }
    clear H2.
    pose proof (wf_size mix t W) as Hsz. pose proof (wf_size mix t1 W1) as Hsz1. rewrite Hz in Hsz1.
    assert (Hpres : present (abs t1) skip = present (abs t) skip) by (unfold present; rewrite Hsk; reflexivity).
    (* occupied slots of t1 when everything was scanned *)
    assert (Hocc1 : Scanned (t_data t1) o (length (t_data t1)) skip ->
                    Z.of_nat (occ (t_data t1)) = if N.eqb skip 0 then 0%Z else (if present (abs t) skip then 1 else 0)%Z).
    { intros HS.
      assert (Hall : forall p, p < length (t_data t1) -> skey (t_data t1) p = 0%N \/ skey (t_data t1) p = skip).
      { intros p Hp. apply HS; auto. apply dist_lt; auto. rewrite Hl. exact Ho. }
      destruct (N.eqb_spec skip 0) as [->|Hs0].
      - rewrite occ_all_zero; auto. intros i Hi. destruct (Hall i Hi); auto.
      - rewrite (occ_only_key (t_data t1) skip (wf_uq mix t1 W1) Hs0 Hall).
        rewrite <- Hpres. unfold present, abs. destruct (N.eqb_spec skip 0); [contradiction|].
        destruct (dget (t_data t1) skip); reflexivity. }
    (* at least the protected key is still there *)
    assert (Hge : (Z.of_nat (occ (t_data t1)) >= if N.eqb skip 0 then 0 else (if present (abs t) skip then 1 else 0))%Z).
    { destruct (N.eqb_spec skip 0); [lia|]. rewrite <- Hpres. unfold present, abs.
      destruct (N.eqb_spec skip 0); [contradiction|].
      destruct (dget (t_data t1) skip) eqn:E; [|lia].
      apply dget_some in E. destruct (has_key _ _ _ E) as [i [Hi Hki]].
      assert (0 < occ (t_data t1)) by (apply (occ_pos _ i); auto; congruence). lia. }
    assert (Hp0 : N.eqb skip 0 = true -> (if present (abs t) skip then 1 else 0)%Z = zcount (t_zero t)).
    { intros E. apply N.eqb_eq in E. subst skip. unfold present, abs. simpl. destruct (t_zero t); reflexivity. }
    assert (Hzc : (0 <= zcount (t_zero t) <= 1)%Z) by (destruct (t_zero t); simpl; lia).
    rewrite <- Hz in Hzc, Hsz, Hsz1, Hp0. clear Hz.
    destruct (t_zero t1); simpl zcount in *.
    - destruct (Nat.ltb_spec deleted (Z.to_nat nmax)) as [Hdl|Hdg]; simpl.
      + destruct (N.eqb_spec skip 0) as [Hs0|Hs0]; simpl.
        * destruct H2' as [E|HS]; [lia|]. specialize (Hocc1 HS). specialize (Hp0 eq_refl). lia.
        * destruct H2' as [E|HS]; [lia|]. specialize (Hocc1 HS). lia.
      + assert (deleted = Z.to_nat nmax) by lia.
        destruct (N.eqb_spec skip 0) as [Hs0|Hs0]; simpl; [specialize (Hp0 eq_refl)|]; lia.
    - simpl.
      destruct H2' as [E|HS].
      + destruct (N.eqb_spec skip 0) as [Hs0|Hs0]; [specialize (Hp0 eq_refl)|]; lia.
      + specialize (Hocc1 HS). destruct (N.eqb_spec skip 0) as [Hs0|Hs0]; [specialize (Hp0 eq_refl)|]; lia.
  Qed.

  Theorem tevict_full t offset nmax skip : WF t ->
    let r := tevict mix t offset nmax skip in
    WF (fst r) /\
    snd r = Z.max 0 (Z.min nmax (t_size t - (if present (abs t) skip then 1 else 0))) /\
    t_size (fst r) = (t_size t - snd r)%Z /\
    shrinks (abs t) (abs (fst r)) /\ abs (fst r) skip = abs t skip.
  Proof.
    intros W. destruct (tevict_spec mix t offset nmax skip W) as [A [_ [C [D E]]]].
    split; [exact A|]. split; [apply tevict_count; exact W|]. split; [exact C|]. split; [exact D|exact E].
  Qed.
End Evict.
