(* C16 — EvictKeysAt deletes exactly min(n, number of other keys).
   Needs a frame property of backwardShiftDelete: it only touches the slots
   from the deleted index up to the first empty slot, and moves entries
   backward only. *)
From Sdns Require Import Common.Base Gen.C16 C16.Model C16.Proofs_cyc C16.Proofs_tab C16.Proofs_wf C16.Proofs_more.
Open Scope nat_scope.

Ltac sl := repeat match goal with x := _ |- _ => subst x end; lia.

Section Evict.
  Variable mix : N -> N.
  Notation WF := (WF mix).

  Lemma cyc_next_before n i0 j e0 : i0 < n -> j < n -> e0 < n ->
    dist n i0 j < dist n i0 e0 ->
    nxt n j < n /\ nxt n j <> i0 /\ dist n i0 (nxt n j) = S (dist n i0 j) /\ dist n i0 (nxt n j) <= dist n i0 e0.
  Proof. cyc. Qed.

  Lemma bshift_frame fuel : forall d0 i0 e0 d i j d',
    length d = length d0 -> i0 < length d0 -> i < length d0 -> j < length d0 -> e0 < length d0 ->
    skey d0 e0 = 0%N -> dist (length d0) i0 j < dist (length d0) i0 e0 ->
    dist (length d0) i0 i <= dist (length d0) i0 j ->
    (forall p, p < length d0 -> dist (length d0) i0 j < dist (length d0) i0 p -> sl d p = sl d0 p) ->
    (forall p, p < length d0 -> dist (length d0) i0 p <= dist (length d0) i0 j ->
       sl d p = empty_slot \/
       exists q, q < length d0 /\ dist (length d0) i0 p <= dist (length d0) i0 q /\
                 dist (length d0) i0 q <= dist (length d0) i0 j /\ sl d p = sl d0 q) ->
    (forall p, p < length d0 -> 0 < dist (length d0) i0 p -> dist (length d0) i0 p <= dist (length d0) i0 j -> skey d0 p <> 0%N) ->
    bshift mix fuel d (length d0) i j = Some d' ->
    exists e, e < length d0 /\ skey d0 e = 0%N /\ 0 < dist (length d0) i0 e /\
      (forall p, p < length d0 -> 0 < dist (length d0) i0 p -> dist (length d0) i0 p < dist (length d0) i0 e -> skey d0 p <> 0%N) /\
      (forall p, p < length d0 -> dist (length d0) i0 e <= dist (length d0) i0 p -> sl d' p = sl d0 p) /\
      (forall p, p < length d0 -> dist (length d0) i0 p < dist (length d0) i0 e ->
         sl d' p = empty_slot \/
         exists q, q < length d0 /\ dist (length d0) i0 p <= dist (length d0) i0 q /\
                   dist (length d0) i0 q < dist (length d0) i0 e /\ sl d' p = sl d0 q).
  Proof.
    induction fuel; intros d0 i0 e0 d i j d' Hlen Hi0 Hi Hj He0 Hz0 Hbefore Hij J1 J2 J3 Hb; [discriminate|].
    set (n := length d0) in *.
    simpl in Hb. set (j' := nxt n j) in *.
    destruct (cyc_next_before n i0 j e0 Hi0 Hj He0 Hbefore) as [Hj' [Hj'i0 [Hdj' Hle]]]. fold j' in Hj', Hj'i0, Hdj', Hle.
    assert (Hsj' : sl d j' = sl d0 j') by (apply J1; auto; sl).
    assert (Hup : forall p, p < n -> dist n i0 p <= dist n i0 j' -> p <> j' -> dist n i0 p <= dist n i0 j).
    { intros p Hp Hd Hne. assert (dist n i0 p <> dist n i0 j') by (intro E; apply Hne; apply (dist_inj n i0 p j'); auto). sl. }
    destruct (N.eqb_spec (fst (sl d j')) 0) as [Hz|Hnz].
    - (* the loop ends here *)
      inversion Hb; subst d'. exists j'.
      split; [exact Hj'|]. split; [unfold skey; rewrite <- Hsj'; exact Hz|]. split; [sl|]. split; [|split].
      + intros p Hp H0 Hlt. apply J3; auto. sl.
      + intros p Hp Hge. apply J1; auto. sl.
      + intros p Hp Hlt. destruct (J2 p Hp) as [E|[q [Hq [H1 [H2 H3]]]]]; [sl|auto|].
        right. exists q. repeat split; auto. sl.
    - assert (Hne0 : j' <> e0).
      { intro E. apply Hnz. rewrite Hsj', E. exact Hz0. }
      assert (Hbefore' : dist n i0 j' < dist n i0 e0).
      { assert (dist n i0 j' <> dist n i0 e0) by (intro E; apply Hne0; apply (dist_inj n i0 j' e0); auto). sl. }
      assert (J3' : forall p, p < n -> 0 < dist n i0 p -> dist n i0 p <= dist n i0 j' -> skey d0 p <> 0%N).
      { intros p Hp H0 Hd. destruct (Nat.eq_dec p j') as [->|Hne].
        - unfold skey. rewrite <- Hsj'. exact Hnz.
        - apply J3; auto. }
      destruct (stay i j' (hidx mix n (fst (sl d j')))).
      + (* the entry stays; the cursor moves on *)
        apply (IHfuel d0 i0 e0 d i j' d'); auto; try sl.
        * intros p Hp Hd. apply J1; auto. sl.
        * intros p Hp Hd. destruct (Nat.eq_dec p j') as [->|Hne].
          -- right. exists j'. repeat split; auto.
          -- destruct (J2 p Hp (Hup p Hp Hd Hne)) as [E|[q [Hq [H1 [H2 H3]]]]]; auto.
             right. exists q. repeat split; auto. sl.
      + (* the entry moves into the gap; its slot is the new gap *)
        assert (Hij' : i <> j') by (intro; subst; sl).
        apply (IHfuel d0 i0 e0 (upd j' empty_slot (upd i (sl d j') d)) j' j' d'); auto; try sl.
        * rewrite !upd_length. exact Hlen.
        * intros p Hp Hd.
          assert (p <> j') by (intro; subst; sl). assert (p <> i) by (intro; subst; sl).
          rewrite !sl_upd_neq by auto. apply J1; auto. sl.
        * intros p Hp Hd. destruct (Nat.eq_dec p j') as [->|Hne].
          -- left. apply sl_upd_eq. rewrite upd_length, Hlen. exact Hj'.
          -- rewrite sl_upd_neq by auto. destruct (Nat.eq_dec p i) as [->|Hni].
             ++ rewrite sl_upd_eq by (rewrite Hlen; exact Hi). right. exists j'. repeat split; auto; sl.
             ++ rewrite sl_upd_neq by auto.
                destruct (J2 p Hp (Hup p Hp Hd Hne)) as [E|[q [Hq [H1 [H2 H3]]]]]; auto.
                right. exists q. repeat split; auto. sl.
  Qed.

  (* deleting at idx: the slots strictly before idx (seen from idx: the ones
     at the far end of the ring) either keep their content or take over the
     content of a slot further on; nothing new appears among them *)
  Lemma delete_frame d idx d' : idx < length d -> occ d + 1 <= length d -> skey d idx <> 0%N ->
    bshift mix (length d) (upd idx empty_slot d) (length d) idx idx = Some d' ->
    forall p, p < length d -> p <> idx ->
      sl d' p = empty_slot \/
      exists q, q < length d /\ q <> idx /\ dist (length d) idx p <= dist (length d) idx q /\ sl d' p = sl d q /\
        (q <> p -> forall x, x < length d -> dist (length d) idx p <= dist (length d) idx x ->
                   dist (length d) idx x <= dist (length d) idx q -> skey d x <> 0%N).
  Proof.
    intros Hidx Hocc Hnz Hb p Hp Hpi.
    set (d0 := upd idx empty_slot d). set (n := length d) in *.
    assert (Hl0 : length d0 = n) by (unfold d0; apply upd_length).
    assert (Hk0 : skey d0 idx = 0%N) by (unfold d0; rewrite skey_upd_eq; auto).
    assert (Ho0 : occ d0 + 2 <= length d0).
    { pose proof (occ_upd idx empty_slot d Hidx) as H. fold d0 in H. rewrite nz_key in H.
      destruct (N.eqb_spec (skey d idx) 0); [contradiction|]. change (nz empty_slot) with false in H. simpl in H. lia. }
    assert (Hidx0 : idx < length d0) by (rewrite Hl0; exact Hidx).
    destruct (second_empty d0 idx Hidx0 Hk0 Ho0) as [e0 [He0 [Hez Hne]]].
    rewrite Hl0 in He0.
    assert (Hbefore : dist n idx idx < dist n idx e0).
    { rewrite dist_self. destruct (dist n idx e0) eqn:E; [|lia]. apply dist_zero in E; auto. congruence. }
    rewrite <- Hl0 in Hb.
    destruct (bshift_frame (length d0) d0 idx e0 d0 idx idx d') as [e [He [Hze [Hpos [Hocc' [F1 F2]]]]]];
      rewrite ?Hl0; auto.
    - intros x Hx Hd. right. exists x. repeat split; auto.
    - intros x Hx H0 Hd. rewrite dist_self in Hd. lia.
    - rewrite Hl0 in Hb. exact Hb.
    - destruct (le_lt_dec (dist n idx e) (dist n idx p)) as [Hge|Hlt].
      + right. exists p. rewrite (F1 p Hp Hge). unfold d0. rewrite sl_upd_neq by auto.
        repeat split; auto. intros Hqp. contradiction.
      + destruct (F2 p Hp Hlt) as [E|[q [Hq [H1 [H2 H3]]]]]; auto.
        right. assert (Hqi : q <> idx).
        { intro; subst q. rewrite dist_self in H1. assert (dist n idx p = 0) by lia. apply dist_zero in H; auto. }
        exists q. unfold d0 in H3. rewrite sl_upd_neq in H3 by auto. repeat split; auto.
        intros _ x Hx Hx1 Hx2.
        assert (Hxi : x <> idx).
        { intro; subst x. rewrite dist_self in Hx1. assert (dist n idx p = 0) by lia. apply dist_zero in H; auto. }
        assert (skey d0 x <> 0%N).
        { apply Hocc'; auto; [|lia].
          destruct (dist n idx x) eqn:E; [|lia]. apply dist_zero in E; auto. congruence. }
        unfold d0 in H. rewrite skey_upd_neq in H by auto. exact H.
  Qed.
End Evict.
