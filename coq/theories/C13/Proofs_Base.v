(* C13 — basic lemmas: decidable equalities, the finite map, suffix walks,
   and the translator ties (gen_* lemmas: what srcgen read from the Go source
   is what the model and the specification assume). *)
From Sdns Require Import Common.Base Gen.C13 C13.Model.
Open Scope Z_scope.

(* ------------------------------------------------------ translator ties *)
Lemma gen_ttl_ceiling : ttl_ceiling = 300000000000.
Proof. reflexivity. Qed.
Lemma gen_default_ttls : default_initial_ttl = 5000000000 /\ default_max_ttl = 300000000000.
Proof. split; reflexivity. Qed.
Lemma gen_min_initial_ttl : min_initial_ttl = 1000000000.
Proof. reflexivity. Qed.
Lemma gen_size_floor : size_floor = 0.
Proof. reflexivity. Qed.
Lemma gen_backoff_literals :
  backoff_first_generation = 1 /\ backoff_half_divisor = 2 /\ backoff_factor = 2.
Proof. repeat split; reflexivity. Qed.
Lemma gen_streak_literals :
  first_streak = 1%N /\ reset_streak = 1%N /\ streak_saturation = 4294967295%N.
Proof. repeat split; reflexivity. Qed.
Lemma gen_salts_distinct : question_salt <> zone_salt.
Proof. discriminate. Qed.
Lemma gen_config_defaults :
  cfg_default_size = default_size /\ cfg_default_min_ttl = default_initial_ttl /\
  cfg_default_max_ttl = default_max_ttl /\ cfg_ttl_ceiling = ttl_ceiling /\ cfg_min_ttl_floor = min_initial_ttl.
Proof. repeat split; reflexivity. Qed.
Lemma gen_probe_regroups : max_probe_regroups = 1.
Proof. reflexivity. Qed.

(* source-shape ties: the text of the small functions the model restates,
   with blanks, tabs and newlines removed *)
Definition strip_ws (l : list N) : list N :=
  filter (fun b => negb ((b =? 9)%N || (b =? 10)%N || (b =? 32)%N)) l.
Definition str (l : list N) := l.

(* "ifnow.Sub(current.retryAfter)>=c.maxTTL{next.streak=1}elseifnext.streak<^uint32(0){next.streak++}" *)
Definition record_streak_source_expected : list N :=
  [105;102;110;111;119;46;83;117;98;40;99;117;114;114;101;110;116;46;114;101;116;114;121;65;102;116;101;114;41;62;61;99;46;109;97;120;84;84;76;123;110;101;120;116;46;115;116;114;101;97;107;61;49;125;101;108;115;101;105;102;110;101;120;116;46;115;116;114;101;97;107;60;94;117;105;110;116;51;50;40;48;41;123;110;101;120;116;46;115;116;114;101;97;107;43;43;125]%N.
Lemma gen_record_streak_source : map strip_ws record_streak_source = [record_streak_source_expected].
Proof. vm_compute. reflexivity. Qed.

(* "returncontextutil.EffectiveError(ctx)==nil&&!middleware.IsBestEffortRecursionWork(ctx)&&middleware.RecursionWorkEnforcementError(ctx)==nil&&middleware.RequestLocalFailureForResponse(ctx,res)==nil" *)
Definition admission_source_expected : list N :=
  [114;101;116;117;114;110;99;111;110;116;101;120;116;117;116;105;108;46;69;102;102;101;99;116;105;118;101;69;114;114;111;114;40;99;116;120;41;61;61;110;105;108;38;38;33;109;105;100;100;108;101;119;97;114;101;46;73;115;66;101;115;116;69;102;102;111;114;116;82;101;99;117;114;115;105;111;110;87;111;114;107;40;99;116;120;41;38;38;109;105;100;100;108;101;119;97;114;101;46;82;101;99;117;114;115;105;111;110;87;111;114;107;69;110;102;111;114;99;101;109;101;110;116;69;114;114;111;114;40;99;116;120;41;61;61;110;105;108;38;38;109;105;100;100;108;101;119;97;114;101;46;82;101;113;117;101;115;116;76;111;99;97;108;70;97;105;108;117;114;101;70;111;114;82;101;115;112;111;110;115;101;40;99;116;120;44;114;101;115;41;61;61;110;105;108]%N.
Lemma gen_admission_source : map strip_ws admission_source = [admission_source_expected].
Proof. vm_compute. reflexivity. Qed.

(* zone=="" || IsBestEffort || EffectiveError != nil || RecursionWorkEnforcementError(ctx) != nil || Is(cause, Canceled | DeadlineExceeded | ErrRecursionWorkLimit | ErrResolutionAttemptLimit | ErrMaxRecursion) *)
Definition zone_admission_source_expected : list N :=
  [122;111;110;101;61;61;34;34;124;124;109;105;100;100;108;101;119;97;114;101;46;73;115;66;101;115;116;69;102;102;111;114;116;82;101;99;117;114;115;105;111;110;87;111;114;107;40;99;116;120;41;124;124;99;111;110;116;101;120;116;117;116;105;108;46;69;102;102;101;99;116;105;118;101;69;114;114;111;114;40;99;116;120;41;33;61;110;105;108;124;124;109;105;100;100;108;101;119;97;114;101;46;82;101;99;117;114;115;105;111;110;87;111;114;107;69;110;102;111;114;99;101;109;101;110;116;69;114;114;111;114;40;99;116;120;41;33;61;110;105;108;124;124;101;114;114;111;114;115;46;73;115;40;99;97;117;115;101;44;99;111;110;116;101;120;116;46;67;97;110;99;101;108;101;100;41;124;124;101;114;114;111;114;115;46;73;115;40;99;97;117;115;101;44;99;111;110;116;101;120;116;46;68;101;97;100;108;105;110;101;69;120;99;101;101;100;101;100;41;124;124;101;114;114;111;114;115;46;73;115;40;99;97;117;115;101;44;109;105;100;100;108;101;119;97;114;101;46;69;114;114;82;101;99;117;114;115;105;111;110;87;111;114;107;76;105;109;105;116;41;124;124;101;114;114;111;114;115;46;73;115;40;99;97;117;115;101;44;109;105;100;100;108;101;119;97;114;101;46;69;114;114;82;101;115;111;108;117;116;105;111;110;65;116;116;101;109;112;116;76;105;109;105;116;41;124;124;101;114;114;111;114;115;46;73;115;40;99;97;117;115;101;44;109;105;100;100;108;101;119;97;114;101;46;69;114;114;77;97;120;82;101;99;117;114;115;105;111;110;41]%N.
Lemma gen_zone_admission_source : map strip_ws zone_admission_source = [zone_admission_source_expected].
Proof. vm_compute. reflexivity. Qed.

(* IsRequestLocalResolutionError: the error classes the resolver handler marks as request-local *)
Definition request_local_errors_source_expected : list N :=
  [114;101;116;117;114;110;101;114;114;111;114;115;46;73;115;40;101;114;114;44;69;114;114;82;101;99;117;114;115;105;111;110;87;111;114;107;76;105;109;105;116;41;124;124;101;114;114;111;114;115;46;73;115;40;101;114;114;44;69;114;114;82;101;115;111;108;117;116;105;111;110;65;116;116;101;109;112;116;76;105;109;105;116;41;124;124;101;114;114;111;114;115;46;73;115;40;101;114;114;44;69;114;114;70;97;105;108;117;114;101;80;114;111;98;101;76;105;109;105;116;41;124;124;101;114;114;111;114;115;46;73;115;40;101;114;114;44;69;114;114;82;101;115;111;108;117;116;105;111;110;67;97;112;97;99;105;116;121;41;124;124;101;114;114;111;114;115;46;73;115;40;101;114;114;44;69;114;114;77;97;120;82;101;99;117;114;115;105;111;110;41;124;124;101;114;114;111;114;115;46;73;115;40;101;114;114;44;99;111;110;116;101;120;116;46;67;97;110;99;101;108;101;100;41;124;124;101;114;114;111;114;115;46;73;115;40;101;114;114;44;99;111;110;116;101;120;116;46;68;101;97;100;108;105;110;101;69;120;99;101;101;100;101;100;41]%N.
Lemma gen_request_local_errors_source : map strip_ws request_local_errors_source = [request_local_errors_source_expected].
Proof. vm_compute. reflexivity. Qed.

(* both load-shedding errors of the resolver wrap middleware.ErrResolutionCapacity *)
Lemma gen_capacity_errors_wrap_sentinel :
  capacity_global_wraps = [[109;105;100;100;108;101;119;97;114;101;46;69;114;114;82;101;115;111;108;117;116;105;111;110;67;97;112;97;99;105;116;121]%N] /\
  capacity_zone_wraps = capacity_global_wraps.
Proof. split; reflexivity. Qed.

(* dns.TypeSOA, dns.ExtendedErrorCodeCachedError, dns.RcodeServerFailure: the
   symbols the code names (their numeric values 6 / 13 / 2 are tied by the
   drivers: RetryKey hashes, EDE code and rcode seen by the client) *)
Lemma gen_symbols :
  zone_hash_qtype_sym = [[100;110;115;46;84;121;112;101;83;79;65]%N] /\
  cached_failure_ede_code_sym = [[100;110;115;46;69;120;116;101;110;100;101;100;69;114;114;111;114;67;111;100;101;67;97;99;104;101;100;69;114;114;111;114]%N] /\
  cached_failure_rcode_sym = [[100;110;115;46;82;99;111;100;101;83;101;114;118;101;114;70;97;105;108;117;114;101]%N].
Proof. repeat split; reflexivity. Qed.

(* ------------------------------------------------------------ equalities *)
Lemma label_eqb_eq a b : label_eqb a b = true <-> a = b.
Proof.
  revert b; induction a as [|x xs IH]; destruct b as [|y ys]; cbn; split; intro E; try easy.
  - apply andb_true_iff in E as [E1 E2]. apply N.eqb_eq in E1. apply IH in E2. now subst.
  - inversion E; subst. apply andb_true_iff; split; [apply N.eqb_refl | now apply IH].
Qed.
Lemma name_eqb_eq a b : name_eqb a b = true <-> a = b.
Proof.
  revert b; induction a as [|x xs IH]; destruct b as [|y ys]; cbn; split; intro E; try easy.
  - apply andb_true_iff in E as [E1 E2]. apply label_eqb_eq in E1. apply IH in E2. now subst.
  - inversion E; subst. apply andb_true_iff; split; [now apply label_eqb_eq | now apply IH].
Qed.
Lemma scope_eqb_eq a b : scope_eqb a b = true <-> a = b.
Proof.
  destruct a as [[a4 aa ab]|], b as [[b4 ba bb]|]; cbn; split; intro E; try easy.
  - apply andb_true_iff in E as [E E3]. apply andb_true_iff in E as [E1 E2].
    apply eqb_prop in E1. apply N.eqb_eq in E2. apply Z.eqb_eq in E3. now subst.
  - inversion E; subst. rewrite eqb_reflx, N.eqb_refl, Z.eqb_refl. reflexivity.
Qed.
Lemma qkey_eqb_eq a b : qkey_eqb a b = true <-> a = b.
Proof.
  destruct a as [an at_ ac ad asc], b as [bn bt bc bd bsc]; unfold qkey_eqb; cbn; split; intro E.
  - repeat (apply andb_true_iff in E as [E ?]).
    apply name_eqb_eq in E. apply scope_eqb_eq in H. apply eqb_prop in H0.
    apply N.eqb_eq in H1. apply N.eqb_eq in H2. now subst.
  - inversion E; subst. rewrite (proj2 (name_eqb_eq bn bn) eq_refl), !N.eqb_refl, eqb_reflx,
      (proj2 (scope_eqb_eq bsc bsc) eq_refl). reflexivity.
Qed.
Lemma zkey_eqb_eq a b : zkey_eqb a b = true <-> a = b.
Proof.
  destruct a as [an ac], b as [bn bc]; unfold zkey_eqb; cbn; split; intro E.
  - apply andb_true_iff in E as [E1 E2]. apply name_eqb_eq in E1. apply N.eqb_eq in E2. now subst.
  - inversion E; subst. rewrite (proj2 (name_eqb_eq bn bn) eq_refl), N.eqb_refl. reflexivity.
Qed.
Lemma same_key_eq a b : same_key a b = true -> a = b.
Proof.
  destruct a, b; cbn; intro E; try discriminate.
  - apply qkey_eqb_eq in E. now subst.
  - apply zkey_eqb_eq in E. now subst.
Qed.

(* canonicalisation is idempotent *)
Lemma lower_idem b : lower (lower b) = lower b.
Proof.
  unfold lower. destruct ((65 <=? b)%N && (b <=? 90)%N) eqn:E.
  - apply andb_true_iff in E as [E1 E2]. apply N.leb_le in E1, E2.
    destruct ((65 <=? b + 32)%N && (b + 32 <=? 90)%N) eqn:E'; [|reflexivity].
    apply andb_true_iff in E' as [_ E4]. apply N.leb_le in E4. lia.
  - rewrite E. reflexivity.
Qed.
Lemma canon_name_idem n : canon_name (canon_name n) = canon_name n.
Proof.
  unfold canon_name, canon_label. rewrite map_map. apply map_ext. intro l.
  rewrite map_map. apply map_ext. apply lower_idem.
Qed.
Lemma norm_scope_idem s : norm_scope (norm_scope s) = norm_scope s.
Proof.
  destruct s as [[i a b]|]; cbn; [|reflexivity].
  destruct (b =? 0) eqn:E; cbn; [reflexivity|]. rewrite E. f_equal.
  unfold sc_masked, sc_width; cbn. f_equal.
  set (p := (2 ^ Z.to_N ((if i then 32 else 128) - b))%N).
  assert (Hp : p <> 0%N) by (unfold p; apply N.pow_nonzero; discriminate).
  assert (((a - a mod p) mod p = 0)%N).
  { rewrite (N.div_mod a p Hp) at 1.
    rewrite N.add_sub, N.mul_comm. apply N.mod_mul; exact Hp. }
  rewrite H. apply N.sub_0_r.
Qed.
Lemma norm_qkey_idem k : norm_qkey (norm_qkey k) = norm_qkey k.
Proof. unfold norm_qkey; cbn. now rewrite canon_name_idem, norm_scope_idem. Qed.
Lemma norm_zkey_idem z : norm_zkey (norm_zkey z) = norm_zkey z.
Proof. unfold norm_zkey; cbn. now rewrite canon_name_idem. Qed.

(* ------------------------------------------------------------- suffixes *)
Lemma suffixes_spec z n : In z (suffixes n) <-> exists p, n = p ++ z.
Proof.
  induction n as [|l t IH]; cbn.
  - split.
    + intros [<-|[]]. now exists [].
    + intros [p E]. symmetry in E. apply app_eq_nil in E as [_ ->]. now left.
  - split.
    + intros [<-|Hin]; [now exists []|]. apply IH in Hin as [p ->]. now exists (l :: p).
    + intros [p E]. destruct p as [|x p]; cbn in E.
      * now left.
      * right. inversion E; subst. apply IH. now exists p.
Qed.
Lemma suffixes_canon n : suffixes (canon_name n) = map canon_name (suffixes n).
Proof. unfold canon_name. induction n as [|l t IH]; cbn; [reflexivity|]. now rewrite IH. Qed.
Lemma suffixes_app p z : exists front, suffixes (p ++ z) = front ++ suffixes z /\
  forall s, In s front -> exists p1 p2, p = p1 ++ p2 /\ p2 <> [] /\ s = p2 ++ z.
Proof.
  induction p as [|l p IH]; cbn.
  - exists []. split; [reflexivity|]. intros s [].
  - destruct IH as [front [E Hf]]. exists ((l :: p ++ z) :: front). split.
    + cbn. now rewrite E.
    + intros s [<-|Hin].
      * exists [], (l :: p). repeat split; easy.
      * apply Hf in Hin as [p1 [p2 [-> [Hne ->]]]]. exists (l :: p1), p2. repeat split; easy.
Qed.

(* ---------------------------------------------------------- finite map *)
Lemma mget_In h m e : mget h m = Some e -> In (h, e) m.
Proof.
  induction m as [|[k v] r IH]; cbn; [discriminate|].
  destruct (k =? h)%N eqn:E.
  - intros [= ->]. apply N.eqb_eq in E. subst. now left.
  - intro Hg. right. now apply IH.
Qed.
Lemma In_mdel x h m : In x (mdel h m) -> In x m.
Proof.
  induction m as [|[k v] r IH]; cbn; [easy|].
  destruct (k =? h)%N; cbn.
  - intro Hin. right. now apply IH.
  - intros [<-|Hin]; [now left | right; now apply IH].
Qed.
Lemma In_mset x h e m : In x (mset h e m) -> x = (h, e) \/ In x m.
Proof. unfold mset. intros [<-|Hin]; [now left | right; eapply In_mdel; eauto]. Qed.
Lemma In_mdel_all x hs m : In x (mdel_all hs m) -> In x m.
Proof.
  unfold mdel_all. revert m. induction hs as [|h hs IH]; cbn; intros m Hin; [exact Hin|].
  apply IH in Hin. eapply In_mdel; eauto.
Qed.
Lemma mget_mdel_same h m : mget h (mdel h m) = None.
Proof.
  induction m as [|[k v] r IH]; cbn; [reflexivity|].
  destruct (k =? h)%N eqn:E; cbn; [exact IH|]. now rewrite E.
Qed.
Lemma mget_mdel_other h h' m : h <> h' -> mget h' (mdel h m) = mget h' m.
Proof.
  intro Hne. induction m as [|[k v] r IH]; cbn; [reflexivity|].
  destruct (k =? h)%N eqn:E; cbn.
  - apply N.eqb_eq in E. subst. destruct (h =? h')%N eqn:E2; [apply N.eqb_eq in E2; contradiction | exact IH].
  - destruct (k =? h')%N; [reflexivity | exact IH].
Qed.
Lemma mget_mdel_none h h' m : mget h' m = None -> mget h' (mdel h m) = None.
Proof.
  intro Hn. destruct (N.eq_dec h h') as [->|Hne]; [apply mget_mdel_same|].
  now rewrite mget_mdel_other.
Qed.
Lemma mget_mset_same h e m : mget h (mset h e m) = Some e.
Proof. unfold mset; cbn. now rewrite N.eqb_refl. Qed.
Lemma mget_mset_other h h' e m : h <> h' -> mget h' (mset h e m) = mget h' m.
Proof.
  intro Hne. unfold mset; cbn. destruct (h =? h')%N eqn:E; [apply N.eqb_eq in E; contradiction|].
  now apply mget_mdel_other.
Qed.

(* every entry of the map satisfies P *)
Definition all_entries (P : entry -> Prop) (m : fmap) : Prop := forall h e, In (h, e) m -> P e.
Lemma all_entries_nil (P : entry -> Prop) : all_entries P [].
Proof. intros h e []. Qed.
Lemma all_entries_mdel (P : entry -> Prop) h m : all_entries P m -> all_entries P (mdel h m).
Proof. intros Ha k e Hin. eapply Ha, In_mdel; eauto. Qed.
Lemma all_entries_mdel_all (P : entry -> Prop) hs m : all_entries P m -> all_entries P (mdel_all hs m).
Proof. intros Ha k e Hin. eapply Ha, In_mdel_all; eauto. Qed.
Lemma all_entries_mset (P : entry -> Prop) h e m : P e -> all_entries P m -> all_entries P (mset h e m).
Proof. intros He Ha k e' Hin. apply In_mset in Hin as [[= -> ->]|Hin]; [exact He | eapply Ha; eauto]. Qed.
Lemma all_entries_filter (P : entry -> Prop) f m : all_entries P m -> all_entries P (filter f m).
Proof. intros Ha k e Hin. apply filter_In in Hin as [Hin _]. eapply Ha; eauto. Qed.
Lemma all_entries_mono (P Q : entry -> Prop) m : (forall e, P e -> Q e) -> all_entries P m -> all_entries Q m.
Proof. intros HPQ Ha k e Hin. apply HPQ. eapply Ha; eauto. Qed.
