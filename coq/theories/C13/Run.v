(* C13 — correspondence: case type and the two checkers evaluated with
   vm_compute on what the Go drivers observed.
     check_case: the model computes exactly what the implementation did.
     spec_case : what the implementation did satisfies the property, judged by
                 an oracle that does not use the model's map, hashes or
                 backoff function (a ledger of "what failed, when, how often").
   Definitions only. *)
From Sdns Require Export Common.Base Gen.C13 C13.Model.
Open Scope Z_scope.

(* ------------------------------------------------------------ equalities *)
Definition ekey_eqb (a b : ekey) : bool :=
  match a, b with
  | EQ x, EQ y => qkey_eqb x y
  | EZ x, EZ y => zkey_eqb x y
  | EOther, EOther => true
  | _, _ => false
  end.
Definition entry_eqb (a b : entry) : bool :=
  ekey_eqb (e_key a) (e_key b) && (e_prov a =? e_prov b)%N && (e_streak a =? e_streak b)%N && (e_retry a =? e_retry b).
Definition opt_entry_eqb (a b : option entry) : bool :=
  match a, b with
  | None, None => true
  | Some x, Some y => entry_eqb x y
  | _, _ => false
  end.
Definition opt_N_eqb (a b : option N) : bool :=
  match a, b with
  | None, None => true
  | Some x, Some y => (x =? y)%N
  | _, _ => false
  end.

(* the hash as the Go code computed it: a finite table preimage -> value of
   internalcache.Key/KeyWithPrefix/KeyWire (before the salt), recorded by the
   driver for every preimage an operation of the history can touch *)
Definition tab_H (tab : list (qkey * N)) (k : qkey) : N :=
  match find (fun p => qkey_eqb (fst p) k) tab with
  | Some p => snd p
  | None => 0%N
  end.

(* -------------------------------------------------------------- histories *)
(* One operation on a Store (kill switch fixed per history, as in
   production) backed by a real FailureCache with a scripted clock.
   [ev] = hashes that disappeared from the map as a side effect of the
   operation's entries.Add (capacity eviction, observed by diffing the map);
   [obs] = what the code returned / what the affected slot holds afterwards. *)
Inductive op :=
| OAdvance (dt : Z)
| ORecQ (k : qkey) (ev : list N) (obs : option entry)            (* Store.RecordFailure; obs = slot of the key afterwards *)
| ORecZ (qclass : N) (zone : option name) (ev : list N) (obs : option entry)   (* Store.RecordZoneFailure *)
| OSetResp (k : qkey) (failure : bool) (ev : list N) (obs : option entry)      (* Store.SetFromResponse / SetFromResponseScoped; obs = the global-audience slot *)
| OLookup (k : qkey) (obs : option entry)                           (* Store.LookupFailure *)
| OLookupWire (n : name) (qtype qclass : N) (cd : bool) (obs : option entry)   (* Store.LookupFailureWire *)
| ORetryKey (k : qkey) (obs : option N)                             (* Store.FailureRetryKey *)
| OClearZone (qclass : N) (zone : option name)                      (* Store.ClearZoneFailure *)
| OResetQ (k : qkey)                                                (* Store.resetQuestionFailure *)
| OResetMatching (k : qkey)                                         (* Store.resetMatchingFailures *)
| OPurge (n : name) (qtype qclass : N)                              (* Store.Purge *)
| OLen (obs : Z)                                                    (* Store.FailureLen *)
| OFcResetQ (k : qkey) (obs : bool)                                 (* FailureCache.ResetQuestion *)
| OFcResetZ (z : zkey) (obs : bool)                                 (* FailureCache.ResetZone *)
| OFcResetMatching (k : qkey) (obs : Z)                             (* FailureCache.ResetMatching *)
| OFcPurge (n : name) (qtype qclass : N) (obs : Z)                  (* FailureCache.PurgeQuestion *)
| OPlant (h : N) (e : entry) (own : bool) (ev : list N).            (* entries.Add(h, e): a colliding writer; own = h is e's real slot *)

(* a request-local cause as the pipeline driver injects it *)
Inductive pdown :=
| PDFail (r : req_local) (zone_rec : option (N * option name))   (* failure rcode; the resolver may have recorded a zone failure first *)
| PDUseful (zone_clear : option (N * option name))              (* NOERROR / NXDOMAIN / NODATA, stored unscoped *)
  (* the same for an ECS audience with a response SCOPE > 0: the answer is filed under the
     (clamped) scope, so the write touches no failure state of the shared audience; the
     recovery still resets the CLIENT's audience and the zones above the name *)
| PDUsefulScoped (zone_clear : option (N * option name))
| PDTrunc.
Inductive pstep :=
| PAdvance (dt : Z)
  (* every answer in the answer cache has lived out its TTL (the driver removes them) *)
| PExpireAnswers
  (* one client query through Cache.ServeDNS with a stub downstream:
     edns = client sent OPT; obs = (rcode, EDE code if any, downstream calls, FailureLen afterwards) *)
| PQuery (k : qkey) (edns : bool) (d : pdown) (rcode : N) (ede : option N) (calls : Z) (flen : Z).

(* one request of a cohort (or of the sequential prelude in front of it) through Cache.ServeDNS:
   question, client EDNS, what the downstream was scripted to do with it, and what was observed:
   rcode, EDE, its own downstream calls, and [late] = its downstream call began after the leader
   it had waited for returned *)
Inductive cmember := CM (k : qkey) (edns : bool) (d : pdown) (rcode : N) (ede : option N) (calls : Z) (late : bool).

Inductive case :=
  (* fc.backoff(streak) for a constructed cache: (streak, observed ns) *)
| CaseBackoff (init max : Z) (obs : list (N * Z))
  (* NewFailureCache(size, init, max): accepted?, effective initialTTL / maxTTL *)
| CaseNew (size init max : Z) (ok : bool) (eff_init eff_max : Z)
  (* op history on Store + FailureCache(size, init, max), scripted clock from 0 *)
| CaseHist (init max : Z) (disabled : bool) (tab : list (qkey * N)) (ops : list op) (final : list (N * entry))
  (* cacheableResolutionFailure(ctx, res) with the request-local facts realised in a real context *)
| CaseAdmit (r : req_local) (obs : bool)
  (* Resolver.recordResolutionZoneFailure reached Store.RecordZoneFailure? *)
| CaseZoneAdmit (zone_empty best_effort ctx_err over_budget : bool) (x : cause) (obs : bool)
  (* zoneadmit: a glue-less referral whose NS hosts' address lookups end as listed, in the order they
     were looked up, the ones never reached last (0 NXDOMAIN, 1 lookup error, 7 empty NOERROR: no
     address; 2 attempt limit; 3 work limit, 4 max recursion, 5 canceled, 6 deadline); hosts looked up;
     the request tree over budget; zone failures filed; class of processDelegation's error (1 no
     reachable authority, 2..6 as for the hosts, 0 none, 9 other); IsRequestLocalResolutionError of it *)
| CaseGlueless (hosts : list N) (looked : nat) (over_budget : bool) (records : Z) (err : N) (local : bool)
  (* pipeline: cache.New(cfg) with failure TTL settings (raw, 0 = default), rfc9520 switch;
     eff_* = what the constructed FailureCache ended up with *)
| CasePipe (raw_size raw_init raw_max : Z) (disabled exact : bool) (eff_init eff_max : Z)
           (tab : list (qkey * N)) (steps : list pstep) (final : list (N * entry))
  (* n goroutines record one key concurrently after its backoff ended (clock readings [nows]):
     the entry before, the entry in the slot afterwards, how many distinct hits were returned *)
| CaseRace (init max : Z) (before : entry) (nows : list Z) (after : entry) (distinct : Z)
  (* n concurrent requests below one expired zone; the first probe fails request-locally
     (first_local) or re-records the zone; observed: most probes in flight at once, probes sent,
     requests served from the failure cache, requests shed by the probe limit *)
| CaseElect (n : Z) (first_local : bool) (max_in_flight calls served shed : Z)
  (* abandoned leader: n concurrent requests below one expired zone, the probe's downstream blocks
     until released and the waitgroup's generation bound (shortened by the driver) passes; late more
     requests arrive while it is still blocked; then it is released (re-recording the zone, or failing
     request-locally) and one last request arrives.  Observed: probes sent while blocked, followers
     shed (first cohort, late ones), probes sent in all, the last request (0 served from the failure
     cache, 1 became a probe, 2 shed) *)
| CaseTimeout (n late : Z) (leader_local : bool) (calls_blocked shed_first shed_late calls_total : Z) (last : N)
  (* dns64 in front of the cache: per client AAAA query (source of the SERVFAIL: 0 failure cache,
     1 downstream shared, 2 downstream request-local; client EDNS; A lookups; downstream calls; rcode; EDE) *)
| CaseWrap (steps : list (N * bool * Z * Z * N * option N))
  (* wire fast path gate: failure of kind question/zone recorded while the denial index was
     idx_rung (captured at the denial rung), queried wire-born while it is idx_query;
     answered by the byte path?, rcode, EDE *)
| CaseWireGate (cd kind_q denial_impossible : bool) (n : name) (idx_rung idx_query : list (name * N))
               (by_wire : bool) (rcode : N) (ede : option N)
  (* failover behind the cache: primary outcome (0 shared SERVFAIL, 1 marked attempt-limit, 2 marked
     probe-limit, 3 client context cancelled, 4 useful, 5 REFUSED), RD, fallback behaviours (0 useful,
     1 SERVFAIL, 2 REFUSED); packets per fallback, client rcode / EDE, FailureLen; the same query once
     more: primary calls, fallback packets, rcode, EDE *)
| CaseFailover (p : N) (rd : bool) (fbs : list N) (asked : list Z) (rc1 : N) (ede1 : option N) (flen : Z)
               (calls2 asked2 : Z) (rc2 : N) (ede2 : option N)
  (* lab: a zone of the given depth (dns.CountLabel) whose authority addresses behave as listed
     (0,1 healthy; 2 REFUSED, 3 SERVFAIL, 4 NOTIMP, 6 NOTAUTH; 5 silent; 7 NXDOMAIN; 8 a referral
     that does not progress below the zone — gated cases only); zone failures
     published / cleared by Resolver.Resolve, its rcode (999 = error) *)
| CaseLab (level : N) (servers : list N) (records clears : Z) (rcode : N)
  (* lab, gated authorities: the servers in the order lookup started them (codes as above; 5 = a
     reply that is a read error), the observed schedule — (servers started, server whose reply was
     released) at each barrier up to the return of Resolve —, whether the driver then cancelled the
     client's context (at a barrier, Resolve not yet back), zone failures published / cleared, rcode
     (999 = error, 998 = Resolve did not return) *)
| CaseLabSched (level : N) (servers : list N) (evs : list (nat * nat)) (cancelled : bool) (records clears : Z) (rcode : N)
  (* lab: one query while the resolver is at capacity (error class e), the same query
     again once the load is gone: rcode, EDE, authority packets of each *)
| CaseShed (e : rerr) (rc1 : N) (ede1 : option N) (up1 : Z) (rc2 : N) (ede2 : option N) (up2 : Z)
  (* expired-zone probe cohort: n concurrent queries for distinct names below one
     expired zone failure; observed downstream calls and how many got SERVFAIL+EDE13 *)
| CaseProbe (tab : list (qkey * N)) (zone : name) (qclass : N) (names : list (name * bool * option scope)) (keys : list (option N)) (calls : Z) (cached : Z)
  (* requests sharing one dedup key while a miss is resolved (synctest bubble, virtual instant 0):
     pre = ordinary queries one after the other; then every leader is parked in the downstream
     handler, every follower arrives, the leaders are released in order and after each the followers
     that went downstream themselves; in_flight = requests inside the downstream handler before any
     leader returned; post = ordinary queries one after the other once every request of the cohort has
     returned (what the state the cohort left means for the next clients); final = the failure cache afterwards *)
| CaseCohort (raw_size raw_init raw_max : Z) (disabled : bool) (eff_init eff_max : Z) (tab : list (qkey * N))
             (pre : list cmember) (groups : list (cmember * list cmember)) (post : list cmember) (in_flight : Z) (final : list (N * entry)).

(* ---------------------------------------------------------------- model run *)
Section Run.
  Variable H : qkey -> N.
  Variable c : cfg.

  Definition evict (ev : list N) (s : store) : store := mk_store (mdel_all ev (s_map s)) (s_disabled s).
  Definition peek_q (s : store) (k : qkey) : option entry := mget (hash_q H (norm_qkey k)) (s_map s).
  Definition peek_z (s : store) (z : zkey) : option entry := mget (hash_z H (norm_zkey z)) (s_map s).
  Definition unscoped (k : qkey) : qkey := mk_qkey (qk_name k) (qk_type k) (qk_class k) (qk_cd k) None.

  (* returns the new store, the new clock and whether the observation matched *)
  Definition run_op (s : store) (now : Z) (o : op) : store * Z * bool :=
    match o with
    | OAdvance dt => (s, now + dt, true)
    | ORecQ k ev obs =>
        let '(s1, _, _) := st_record_failure H c s k prov_response now in
        let s2 := evict ev s1 in
        (s2, now, opt_entry_eqb (peek_q s2 k) obs)
    | ORecZ qclass zone ev obs =>
        let '(s1, _, _) := st_record_zone_failure H c s qclass zone now in
        let s2 := evict ev s1 in
        (s2, now, match zone with
                  | Some z => opt_entry_eqb (peek_z s2 (mk_zkey z qclass)) obs
                  | None => match obs with None => true | _ => false end
                  end)
    | OSetResp k failure ev obs =>
        (* setFromResponseWithKey: a scoped write neither records nor resets anything
           (it has no source prefix to name the audience with) *)
        let scoped := match norm_scope (qk_scope k) with Some _ => true | None => false end in
        let k := unscoped k in
        let s1 := if scoped then s
                  else if failure then fst (fst (st_record_failure H c s k prov_response now))
                  else st_reset_question H s k in
        let s2 := evict ev s1 in
        (s2, now, opt_entry_eqb (peek_q s2 k) obs)
    | OLookup k obs => (s, now, opt_entry_eqb (st_lookup_failure H s k now) obs)
    | OLookupWire n t cl cd obs => (s, now, opt_entry_eqb (st_lookup_failure_wire H s n t cl cd now) obs)
    | ORetryKey k obs => (s, now, opt_N_eqb (st_retry_key H s k now) obs)
    | OClearZone qclass zone => (st_clear_zone_failure H s qclass zone, now, true)
    | OResetQ k => (st_reset_question H s k, now, true)
    | OResetMatching k => (st_reset_matching H s k, now, true)
    | OPurge n t cl => (st_purge s n t cl, now, true)
    | OLen obs => (s, now, st_failure_len s =? obs)
    | OFcResetQ k obs =>
        let '(m, ok) := fc_reset_question H (s_map s) k in (mk_store m (s_disabled s), now, Bool.eqb ok obs)
    | OFcResetZ z obs =>
        let '(m, ok) := fc_reset_zone H (s_map s) z in (mk_store m (s_disabled s), now, Bool.eqb ok obs)
    | OFcResetMatching k obs =>
        let '(m, n) := fc_reset_matching H (s_map s) k in (mk_store m (s_disabled s), now, n =? obs)
    | OFcPurge n t cl obs =>
        let '(m, cnt) := fc_purge (s_map s) n t cl in (mk_store m (s_disabled s), now, cnt =? obs)
    | OPlant h e _ ev => (evict ev (mk_store (mset h e (s_map s)) (s_disabled s)), now, true)
    end.

  Fixpoint run_ops (s : store) (now : Z) (ops : list op) : store * Z * bool :=
    match ops with
    | [] => (s, now, true)
    | o :: r =>
        let '(s1, now1, ok) := run_op s now o in
        if ok then run_ops s1 now1 r else (s1, now1, false)
    end.

  Definition same_map (m : fmap) (final : list (N * entry)) : bool :=
    (length m =? length final)%nat &&
    forallb (fun he => opt_entry_eqb (mget (fst he) m) (Some (snd he))) final.

  (* pipeline: the failure rung plus the answer cache in front of it.  The
     answer cache is modelled as the set of (name,type,class,cd) answered
     usefully so far: the driver's useful answers carry no ECS scope, live
     300 s of real time and the run takes milliseconds. *)
  Definition pkey := (name * N * N * bool)%type.
  Definition pkey_of (k : qkey) : pkey := (canon_name (qk_name k), qk_type k, qk_class k, qk_cd k).
  Definition pkey_eqb (a b : pkey) : bool :=
    let '(n1, t1, c1, d1) := a in let '(n2, t2, c2, d2) := b in
    name_eqb n1 n2 && (t1 =? t2)%N && (c1 =? c2)%N && Bool.eqb d1 d2.

  Inductive panswer := PACached | PAFailureCache | PADownstream.
  Definition run_pstep (s : store) (pos : list pkey) (now : Z) (k : qkey) (d : pdown) : store * list pkey * panswer :=
    if existsb (pkey_eqb (pkey_of k)) pos then (s, pos, PACached) else
    match st_lookup_failure H s k now with
    | Some _ => (s, pos, PAFailureCache)
    | None =>
        match d with
        | PDFail r zr =>
            let s1 := match zr with
                      | Some (qc, z) => fst (fst (st_record_zone_failure H c s qc z now))
                      | None => s
                      end in
            (serve_writeback H c s1 k (DFail r) now, pos, PADownstream)
        | PDUseful zc =>
            let s1 := match zc with
                      | Some (qc, z) => st_clear_zone_failure H s qc z
                      | None => s
                      end in
            (serve_writeback H c s1 k (DUseful false) now, pkey_of k :: pos, PADownstream)
        | PDUsefulScoped zc =>
            let s1 := match zc with
                      | Some (qc, z) => st_clear_zone_failure H s qc z
                      | None => s
                      end in
            (* audience-scoped answers are outside the set model of the answer cache: the driver drops them at once *)
            (serve_writeback H c s1 k (DUseful true) now, pos, PADownstream)
        | PDTrunc => (s, pos, PADownstream)
        end
    end.
End Run.

(* what the client must see for each way a query is answered *)
Definition rcode_servfail : N := 2%N.
Definition ede_cached_error : N := 13%N.

Fixpoint run_psteps (H : qkey -> N) (c : cfg) (s : store) (pos : list pkey) (now : Z) (steps : list pstep) : store * bool :=
  match steps with
  | [] => (s, true)
  | PAdvance dt :: r => run_psteps H c s pos (now + dt) r
  | PExpireAnswers :: r => run_psteps H c s [] now r
  | PQuery k edns d rcode ede calls flen :: r =>
      let '(s1, pos1, a) := run_pstep H c s pos now k d in
      let ok :=
        match a with
        | PACached => (calls =? 0) && negb (rcode =? rcode_servfail)%N
        | PAFailureCache =>
            (calls =? 0) && (rcode =? rcode_servfail)%N &&
            opt_N_eqb ede (if edns then Some ede_cached_error else None)
        | PADownstream =>
            (calls =? 1) && negb (opt_N_eqb ede (Some ede_cached_error)) &&
            match d with
            | PDFail _ _ => negb (rcode =? 0)%N
            | PDUseful _ | PDUsefulScoped _ => negb (rcode =? rcode_servfail)%N
            | PDTrunc => true
            end
        end && (st_failure_len s1 =? flen) in
      if ok then run_psteps H c s1 pos1 now r else (s1, false)
  end.

Definition eff_cfg (size init max : Z) : cfg :=
  match new_cfg size init max with
  | Some c => c
  | None => mk_cfg default_initial_ttl default_max_ttl     (* cache.New falls back to the defaults *)
  end.
(* cache.New: RecursionFirewallConfig.Normalize (0 -> default) then NewFailureCache, falling back to defaults *)
Definition pipe_cfg (size init max : Z) : cfg :=
  let size := if size =? 0 then cfg_default_size else size in
  let init := if init =? 0 then cfg_default_min_ttl else init in
  let max := if max =? 0 then cfg_default_max_ttl else max in
  match new_cfg size init max with
  | Some c => c
  | None => mk_cfg cfg_default_min_ttl cfg_default_max_ttl
  end.

Definition fo_primary_of (p : N) : fo_primary :=
  if (p =? 0)%N then FoShared else if (p =? 1)%N then FoMarkedAttempt else if (p =? 2)%N then FoMarkedProbe
  else if (p =? 3)%N then FoCtxErr else if (p =? 4)%N then FoUseful else FoOtherFailure.
Definition fo_fallback_of (b : N) : fo_fallback := if (b =? 0)%N then FbUseful else FbFailure.
Fixpoint list_Z_eqb (a b : list Z) : bool :=
  match a, b with
  | [], [] => true
  | x :: a', y :: b' => (x =? y) && list_Z_eqb a' b'
  | _, _ => false
  end.

(* ---- cohorts *)
Definition pd_split (d : pdown) : downstream * zone_note :=
  match d with
  | PDFail r zr => (DFail r, zr)
  | PDUseful zc => (DUseful false, zc)
  | PDUsefulScoped zc => (DUseful true, zc)
  | PDTrunc => (DTruncated, None)
  end.
Definition cm_key (m : cmember) : qkey := let 'CM k _ _ _ _ _ _ := m in k.
Definition cm_req (m : cmember) : creq := let 'CM k _ d _ _ _ _ := m in (k, fst (pd_split d), snd (pd_split d)).
(* does what the client and the downstream counter saw fit the way the model says the request ended? *)
Definition cm_obs_ok (m : cmember) (a : cans) : bool :=
  let 'CM k edns d rcode ede calls late := m in
  match a with
  | CCached => (calls =? 0) && negb (rcode =? 2)%N && negb late
  | CFailure => (calls =? 0) && (rcode =? 2)%N && opt_N_eqb ede (if edns then Some 13%N else None) && negb late
  | CDown l =>
      (calls =? 1) && negb (opt_N_eqb ede (Some 13%N)) && Bool.eqb late l &&
      match d with
      | PDFail _ _ => negb (rcode =? 0)%N
      | PDUseful _ | PDUsefulScoped _ => negb (rcode =? 2)%N
      | PDTrunc => true
      end
  end.
Fixpoint run_prelude (H : qkey -> N) (c : cfg) (s : store) (pos : list akey) (now : Z) (pre : list cmember) : store * list akey * bool :=
  match pre with
  | [] => (s, pos, true)
  | m :: r =>
      let l := ladder_of H s pos (cm_key m) now in
      let '(s1, pos1) := match l with
                         | LMiss => apply_down H c s pos (cm_key m) (snd (fst (cm_req m))) (snd (cm_req m)) now
                         | _ => (s, pos)
                         end in
      if cm_obs_ok m (ans_of false l) then run_prelude H c s1 pos1 now r else (s1, pos1, false)
  end.
Fixpoint cohort_obs_ok (groups : list (cmember * list cmember)) (out : list (cans * list cans)) : bool :=
  match groups, out with
  | [], [] => true
  | (ld, fs) :: gr, (la, fa) :: outr =>
      cm_obs_ok ld la && (length fs =? length fa)%nat &&
      forallb (fun p => cm_obs_ok (fst p) (snd p)) (combine fs fa) && cohort_obs_ok gr outr
  | _, _ => false
  end.

(* ---- lab: the fan-out model under a family of schedules *)
Definition lab_srv (b : N) : srv :=
  if (b <=? 1)%N then SHealthy else if (b =? 2)%N then SRcode 5 else if (b =? 3)%N then SRcode 2
  else if (b =? 4)%N then SRcode 4 else if (b =? 5)%N then SSilent else if (b =? 6)%N then SRcode 9
  else if (b =? 8)%N then SBogusReferral else SRcode 3.
(* schedules tried: every result in list order with no timer tick (each consumed failure starts the
   next server); and, with every server started by timer ticks: each server heard first, each
   server heard last, and "the lame ones, then the NXDOMAIN ones, then the healthy ones" *)
Definition lab_schedules (sv : list srv) : list (list fo_event) :=
  let n := length sv in
  let all := seq 0 n in
  let timers := repeat FoTimer n in
  let pick (f : srv -> bool) := filter (fun i => f (nth i sv SSilent)) all in
  let is_nx (s : srv) := match s with SRcode 3 => true | _ => false end in
  let is_ok (s : srv) := match s with SHealthy => true | _ => false end in
  (map FoResult all ++ map FoResult all) ::
  (timers ++ map FoResult (pick (fun s => negb (is_nx s) && negb (is_ok s)) ++ pick is_nx ++ pick is_ok)) ::
  map (fun i => timers ++ FoResult i :: map FoResult all) all ++
  map (fun i => timers ++ map FoResult (filter (fun j => negb (j =? i)%nat) all) ++ [FoResult i]) all.
Definition lab_obs_ok (o : fo_out) (records clears : Z) (rcode : N) : bool :=
  (clears =? (if fo_cleared o then 1 else 0)) &&
  match o with
  | FOAnswer _ => (records =? 0) && (rcode =? 0)%N
  | FOResponse rc =>
      if fo_published o then (1 <=? records) && negb (rcode =? 0)%N && negb (rcode =? 3)%N
      else (records =? 0) && (rcode =? rc)%N
  | FOConnFailed => (1 <=? records) && negb (rcode =? 0)%N && negb (rcode =? 3)%N
  | _ => false
  end.

Definition gl_host (b : N) : nshost :=
  if (b =? 2)%N then NHAttemptLimit else if (b =? 3)%N then NHFatal CWorkLimit else if (b =? 4)%N then NHFatal CMaxRecursion
  else if (b =? 5)%N then NHFatal CCanceled else if (b =? 6)%N then NHFatal CDeadline else NHNoAddr.
Definition gl_err_code (o : gl_out) : N :=
  match o with
  | GLNoAuth => 1 | GLLocal CAttemptLimit => 2 | GLLocal CWorkLimit => 3 | GLLocal CMaxRecursion => 4
  | GLLocal CCanceled => 5 | GLLocal CDeadline => 6 | GLLocal _ => 9
  end%N.

(* under an observed schedule the outcome is exact: the answer; the FIRST response error (NXDOMAIN
   before any other), published once iff it is of the server-failure class; the connection-failed
   error, published once *)
Definition sched_obs_ok (o : fo_out) (records clears : Z) (rcode : N) : bool :=
  (clears =? (if fo_cleared o then 1 else 0)) &&
  match o with
  | FOAnswer _ => (records =? 0) && (rcode =? 0)%N
  | FOResponse rc => (rcode =? rc)%N && (records =? (if fo_published o then 1 else 0))
  | FOConnFailed => (records =? 1) && (rcode =? 999)%N
  (* the bogus delegation is handed to resolve, whose processDelegation rejects it once more: an
     error, nothing published *)
  | FOConfig => (records =? 0) && (rcode =? 999)%N
  | _ => false
  end.

Definition check_case (x : case) : bool :=
  match x with
  | CaseBackoff init max obs =>
      let c := mk_cfg init max in
      cfg_validb c && forallb (fun so => backoff c (fst so) =? snd so) obs
  | CaseNew size init max ok eff_init eff_max =>
      match new_cfg size init max with
      | Some c => ok && (c_init c =? eff_init) && (c_max c =? eff_max)
      | None => negb ok
      end
  | CaseHist init max disabled tab ops final =>
      let c := mk_cfg init max in
      let '(s, _, ok) := run_ops (tab_H tab) c (mk_store [] disabled) 0 ops in
      cfg_validb c && ok && same_map (s_map s) final
  | CaseAdmit r obs => Bool.eqb (cacheable_failure r) obs
  | CaseZoneAdmit ze be ce ob x obs => Bool.eqb (zone_failure_admitted ze be ce ob x) obs
  | CaseGlueless hosts looked ob records err local =>
      let hs := map gl_host hosts in
      let '(o, n) := glueless hs in
      (n =? looked)%nat && (err =? gl_err_code o)%N &&
      (records =? (if glueless_published hs false false ob then 1 else 0)) &&
      Bool.eqb local (match o with GLLocal _ => true | GLNoAuth => false end)
  | CasePipe raw_size raw_init raw_max disabled exact eff_init eff_max tab steps final =>
      let c := pipe_cfg raw_size raw_init raw_max in
      (c_init c =? eff_init) && (c_max c =? eff_max) &&
      let '(s, ok) := run_psteps (tab_H tab) c (mk_store [] disabled) [] 0 steps in
      ok && (if exact then same_map (s_map s) final else true)
  | CaseRace init max before nows after distinct =>
      let c := mk_cfg init max in
      cfg_validb c && (distinct =? 1) &&
      existsb (fun w => entry_eqb (renew c before (e_prov after) w) after) nows
  | CaseElect n first_local mx calls served shed =>
      (* the election model allows at most one probe in flight under every schedule
         (Properties.single_probe); every request ends as a probe, served or shed *)
      (mx =? 1) && (1 <=? calls) && (calls + served + shed =? n)
  | CaseTimeout n late leader_local calls_blocked shed_first shed_late calls_total last =>
      let nn := Z.to_nat n in let ll := Z.to_nat late in
      let count_shed l := Z.of_nat (length (filter (fun q => match q with PShed => true | _ => false end) l)) in
      let s1 := map AArrive (seq 0 nn) ++ [ATimeout 0] ++ map AWake (seq 1 (nn - 1)) ++
                flat_map (fun i => [AArrive i; AWake i]) (seq nn ll) in
      let st1 := probe_run (probe_init (nn + ll + 1)) s1 in
      let lasti := (nn + ll)%nat in
      let st2 := probe_run st1 [AFinish 0 (if leader_local then ONothing else OCovering); AArrive lasti; AWake lasti] in
      (1 <=? n) && (0 <=? late) &&
      (ps_elected st1 =? calls_blocked) && (in_flight st1 =? 1)%nat &&
      (count_shed (firstn nn (ps_reqs st1)) =? shed_first) &&
      (count_shed (skipn nn (firstn (nn + ll) (ps_reqs st1))) =? shed_late) &&
      (ps_elected st2 =? calls_total) &&
      match nth_error (ps_reqs st2) lasti with
      | Some PServed => (last =? 0)%N
      | Some (PLeader _) => (last =? 1)%N
      | Some PShed => (last =? 2)%N
      | _ => false
      end
  | CaseWrap steps =>
      forallb (fun x : N * bool * Z * Z * N * option N => let '(k, edns, al, dc, rc, ede) := x in
        let src := if (k =? 0)%N then SrcFailureCache else if (k =? 1)%N then SrcSharedFailure else SrcRequestLocal in
        let '(wa, wd) := wrapper_traffic src in
        (al =? wa) && (dc =? wd) &&
        match src with
        | SrcFailureCache => (rc =? rcode_servfail)%N && opt_N_eqb ede (if edns then Some ede_cached_error else None)
        | SrcSharedFailure => true                             (* what dns64 makes of the A answer is C20's subject *)
        | SrcRequestLocal => (rc =? rcode_servfail)%N && negb (opt_N_eqb ede (Some ede_cached_error))
        end) steps
  | CaseWireGate cd kq di n idx_rung idx_query by_wire rcode ede =>
      let w := if cd || negb kq then [] else miss_witness idx_rung n in
      Bool.eqb by_wire (wire_gate cd kq di (witness_holds idx_query n w)) &&
      (rcode =? rcode_servfail)%N && opt_N_eqb ede (Some ede_cached_error)
  | CaseFailover p rd fbs asked rc1 ede1 flen calls2 asked2 rc2 ede2 =>
      let '(am, d) := failover_outcome rd (fo_primary_of p) (map fo_fallback_of fbs) in
      let sum := fold_right Z.add 0 in
      list_Z_eqb asked am &&
      match d with
      | DUseful _ =>
          (* a recovery: nothing recorded, the answer is cached *)
          negb (rc1 =? rcode_servfail)%N && (flen =? 0) && (calls2 =? 0) && (asked2 =? 0) && (rc2 =? rc1)%N
      | DFail r =>
          negb (rc1 =? 0)%N && negb (opt_N_eqb ede1 (Some ede_cached_error)) &&
          if cacheable_failure r
          then (flen =? 1) && (calls2 =? 0) && (asked2 =? 0) && (rc2 =? rcode_servfail)%N && opt_N_eqb ede2 (Some ede_cached_error)
          else (flen =? 0) && (calls2 =? 1) && (asked2 =? sum am) && negb (opt_N_eqb ede2 (Some ede_cached_error))
      | DTruncated => false
      end
  | CaseLab level servers records clears rcode =>
      (* what was observed is what the fan-out model yields under one of the schedules *)
      let sv := map lab_srv servers in
      existsb (fun sched => match fo_done (fo_run sv (N.to_nat level) sched) with
                            | Some o => lab_obs_ok o records clears rcode
                            | None => false
                            end) (lab_schedules sv)
  | CaseLabSched level servers evs cancelled records clears rcode =>
      (* the fan-out model under the observed schedule: it has not ended before the last release,
         it ends with it, and in what was observed; a lookup the client abandoned was still
         running, ends in an error and publishes nothing (ctx.Done() in lookup, the
         EffectiveError filter of recordResolutionZoneFailure) *)
      let sv := map lab_srv servers in
      match fo_observed sv (N.to_nat level) (fo_init (length sv)) evs with
      | Some st => match fo_done st with
                   | Some o => negb cancelled && sched_obs_ok o records clears rcode
                   | None => cancelled && (records =? 0) && (clears =? 0) && (rcode =? 999)%N
                   end
      | None => false
      end
  | CaseShed e rc1 ede1 up1 rc2 ede2 up2 =>
      (* shed before any packet leaves; the SERVFAIL is recorded unless the handler marks it *)
      (rc1 =? rcode_servfail)%N && (up1 =? 0) &&
      if cacheable_failure (handler_failure e)
      then (rc2 =? rcode_servfail)%N && opt_N_eqb ede2 (Some ede_cached_error) && (up2 =? 0)
      else (rc2 =? 0)%N && (1 <=? up2)
  | CaseProbe tab zone qclass names keys calls cached =>
      (* state: one expired zone failure; every name below it gets the zone's retry key *)
      let H := tab_H tab in
      let c := mk_cfg default_initial_ttl default_max_ttl in
      let '(m0, _, _) := fc_record_zone H c [] (mk_zkey zone qclass) prov_authority 0 in
      (* members flagged true also have an (expired) failure of their own *)
      let key_of (nb : name * bool * option scope) := mk_qkey (fst (fst nb)) 1 qclass false (snd nb) in
      let m := fold_left (fun (acc : fmap) (nb : name * bool * option scope) =>
                 if snd (fst nb) then fst (fst (fc_record_question H c acc (key_of nb) prov_response 0)) else acc) names m0 in
      let now := c_init c + 1 in
      let want := map (fun nb => fc_retry_key H m (key_of nb) now) names in
      (length want =? length keys)%nat &&
      forallb (fun p => opt_N_eqb (fst p) (snd p)) (combine want keys) &&
      (calls =? 1) && (cached =? Z.of_nat (length names) - 1)
  | CaseCohort raw_size raw_init raw_max disabled eff_init eff_max tab pre groups post in_flight final =>
      let c := pipe_cfg raw_size raw_init raw_max in
      let H := tab_H tab in
      (c_init c =? eff_init) && (c_max c =? eff_max) &&
      (* a follower asks its leader's question (up to letter case and host bits of the ECS source) *)
      forallb (fun g => forallb (fun f => qkey_eqb (norm_qkey (cm_key f)) (norm_qkey (cm_key (fst g)))) (snd g)) groups &&
      let '(s0, pos0, ok0) := run_prelude H c (mk_store [] disabled) [] 0 pre in
      let '(s1, pos1, out) := cohort_run H c s0 pos0 s0 pos0 0 (map (fun g => (cm_req (fst g), map cm_req (snd g))) groups) in
      let '(s, _, ok2) := run_prelude H c s1 pos1 0 post in
      ok0 && ok2 && cohort_obs_ok groups out &&
      (* before any leader returned exactly the leaders that missed were downstream: every follower waited *)
      (in_flight =? Z.of_nat (length (filter (fun o => cans_eqb (fst o) (CDown false)) out))) &&
      same_map (s_map s) final
  end.

(* ------------------------------------------------------------------ oracle *)
(* The specification's own constants: the property says "hard ceiling 5
   minutes"; the oracle does not read it from the code. *)
Definition spec_ceiling : Z := 300000000000.
Definition spec_floor : Z := 1000000000.

Fixpoint is_suffix (z n : name) : bool :=
  name_eqb z n || match n with [] => false | _ :: t => is_suffix z t end.

(* ledger of what failed: key -> (retry-after instant, streak, ttl of the current generation) *)
Definition ledger := list (ekey * (Z * N * Z)).
Fixpoint lget (k : ekey) (l : ledger) : option (Z * N * Z) :=
  match l with
  | [] => None
  | (k', v) :: r => if ekey_eqb k' k then Some v else lget k r
  end.
Definition ldel_if (f : ekey -> bool) (l : ledger) : ledger := filter (fun kv => negb (f (fst kv))) l.
Definition lset (k : ekey) (v : Z * N * Z) (l : ledger) : ledger := (k, v) :: ldel_if (ekey_eqb k) l.

(* a record of key K at time now left [e] in K's slot: is that inside the envelope? *)
Definition spec_record (init max : Z) (l : ledger) (now : Z) (K : ekey) (obs : option entry) : option ledger :=
  match obs with
  | None => None
  | Some e =>
      if negb (ekey_eqb (e_key e) K) then None else
      let ttl := e_retry e - now in
      let fresh := (e_streak e =? 1)%N && (ttl =? init) in
      match lget K l with
      | None => if fresh then Some (lset K (e_retry e, e_streak e, ttl) l) else None
      | Some (ra, s, d) =>
          if now <? ra then
            (* active generation: idempotent (or a fresh episode after an eviction) *)
            if (e_retry e =? ra) && (e_streak e =? s)%N then Some l
            else if fresh then Some (lset K (e_retry e, e_streak e, ttl) l) else None
          else
            if fresh then Some (lset K (e_retry e, e_streak e, ttl) l)
            else if ((e_streak e =? s + 1)%N || ((e_streak e =? s)%N && (s =? 4294967295)%N)) &&
                    (init <=? ttl) && (ttl <=? max) && (ttl <=? 2 * d)
                 then Some (lset K (e_retry e, e_streak e, ttl) l) else None
      end
  end.

(* a lookup for question K at time now returned [obs] *)
Definition spec_hit (pl : list entry) (max : Z) (l : ledger) (now : Z) (K : qkey) (obs : option entry) : bool :=
  match obs with
  | None => true
  | Some e =>
      (now <? e_retry e) && (e_retry e <=? now + max) &&
      match e_key e with
      | EQ k' => qkey_eqb k' K
      | EZ z => is_suffix (zk_zone z) (qk_name K) && (zk_class z =? qk_class K)%N
      | EOther => false
      end &&
      (match lget (e_key e) l with
       | Some (ra, s, _) => (ra =? e_retry e) && (s =? e_streak e)%N
       | None => false
       end || existsb (entry_eqb e) pl)
  end.

Definition covers_reset (K : qkey) (x : ekey) : bool :=
  match x with
  | EQ k' => qkey_eqb k' K
  | EZ z => is_suffix (zk_zone z) (qk_name K) && (zk_class z =? qk_class K)%N
  | EOther => false
  end.
Definition purge_covers (n : name) (t cl : N) (x : ekey) : bool :=
  match x with
  | EQ k' => name_eqb (qk_name k') n && (qk_type k' =? t)%N && (qk_class k' =? cl)%N
  | EZ z => name_eqb (zk_zone z) n && (zk_class z =? cl)%N
  | EOther => false
  end.

Definition spec_op (pl : list entry) (init max : Z) (disabled : bool) (st : ledger * Z) (o : op) : option (ledger * Z) :=
  let '(l, now) := st in
  if disabled then
    (* rfc9520 off: nothing is recorded, nothing is served *)
    match o with
    | OAdvance dt => Some (l, now + dt)
    | ORecQ _ _ obs | ORecZ _ _ _ obs | OSetResp _ _ _ obs | OLookup _ obs | OLookupWire _ _ _ _ obs =>
        match obs with None => Some st | Some _ => None end
    | ORetryKey _ obs => match obs with None => Some st | Some _ => None end
    | OLen obs => if obs =? 0 then Some st else None
    | OPlant _ _ _ _ => None        (* the driver never plants with the switch off *)
    | _ => Some st
    end
  else
  match o with
  | OAdvance dt => Some (l, now + dt)
  | ORecQ k _ obs =>
      match spec_record init max l now (EQ (norm_qkey k)) obs with Some l' => Some (l', now) | None => None end
  | ORecZ qclass zone _ obs =>
      match zone with
      | None => match obs with None => Some st | Some _ => None end
      | Some z =>
          match spec_record init max l now (EZ (norm_zkey (mk_zkey z qclass))) obs with Some l' => Some (l', now) | None => None end
      end
  | OSetResp k failure _ obs =>
      let K := norm_qkey (mk_qkey (qk_name k) (qk_type k) (qk_class k) (qk_cd k) None) in
      if match norm_scope (qk_scope k) with Some _ => true | None => false end then
        (* an audience-scoped write must not touch the global audience's state *)
        match obs with
        | Some e => if ekey_eqb (e_key e) (EQ K) then
                      match lget (EQ K) l with
                      | Some (ra, s, _) => if (ra =? e_retry e) && (s =? e_streak e)%N then Some st else None
                      | None => if existsb (entry_eqb e) pl then Some st else None
                      end
                    else Some st
        | None => Some st
        end
      else
      if failure then
        match spec_record init max l now (EQ K) obs with Some l' => Some (l', now) | None => None end
      else
        (* a useful answer for exactly this question: its backoff history is gone *)
        match obs with
        | Some e => if ekey_eqb (e_key e) (EQ K) then None else Some (ldel_if (ekey_eqb (EQ K)) l, now)
        | None => Some (ldel_if (ekey_eqb (EQ K)) l, now)
        end
  | OLookup k obs => if spec_hit pl max l now (norm_qkey k) obs then Some st else None
  | OLookupWire n t cl cd obs =>
      if spec_hit pl max l now (mk_qkey (canon_name n) t cl cd None) obs then Some st else None
  | ORetryKey _ _ => Some st
  | OClearZone qclass zone =>
      match zone with
      | None => Some st
      | Some z => Some (ldel_if (ekey_eqb (EZ (norm_zkey (mk_zkey z qclass)))) l, now)
      end
  | OResetQ k | OFcResetQ k _ => Some (ldel_if (ekey_eqb (EQ (norm_qkey k))) l, now)
  | OFcResetZ z _ => Some (ldel_if (ekey_eqb (EZ (norm_zkey z))) l, now)
  | OResetMatching k | OFcResetMatching k _ => Some (ldel_if (covers_reset (norm_qkey k)) l, now)
  | OPurge n t cl | OFcPurge n t cl _ => Some (ldel_if (purge_covers (canon_name n) t cl) l, now)
  | OLen obs => if 0 <=? obs then Some st else None
  | OPlant _ e own _ =>
      (* a state written into its own slot replaces that key's history; a colliding
         writer's state in a foreign slot is remembered apart (it is a failure of ITS
         key only, and no lookup of the slot's key may ever return it) *)
      match e_key e with
      | EOther => Some st
      | K => if own then Some (lset K (e_retry e, e_streak e, max) l, now) else Some st
      end
  end.
Definition foreign_plants (ops : list op) : list entry :=
  flat_map (fun o => match o with OPlant _ e false _ => [e] | _ => [] end) ops.

Fixpoint spec_ops (pl : list entry) (init max : Z) (disabled : bool) (st : ledger * Z) (ops : list op) : option (ledger * Z) :=
  match ops with
  | [] => Some st
  | o :: r => match spec_op pl init max disabled st o with
              | Some st' => spec_ops pl init max disabled st' r
              | None => None
              end
  end.

(* every retained state is a recorded failure with the recorded bound *)
Definition spec_final (pl : list entry) (l : ledger) (final : list (N * entry)) : bool :=
  forallb (fun he =>
    match e_key (snd he) with
    | EOther => true
    | K => match lget K l with
           | Some (ra, s, _) => (ra =? e_retry (snd he)) && (s =? e_streak (snd he))%N
           | None => false
           end || existsb (entry_eqb (snd he)) pl
    end) final.

(* -------- pipeline oracle: closed-form envelope over what the client saw *)
(* ledger: key -> (time of the last shared failure that reached downstream,
   number of consecutive such failures) *)
Definition pledger := list (ekey * (Z * Z)).
Fixpoint plget (k : ekey) (l : pledger) : option (Z * Z) :=
  match l with
  | [] => None
  | (k', v) :: r => if ekey_eqb k' k then Some v else plget k r
  end.
Definition pldel_if (f : ekey -> bool) (l : pledger) : pledger := filter (fun kv => negb (f (fst kv))) l.
Definition plbump (k : ekey) (now : Z) (l : pledger) : pledger :=
  let n := match plget k l with Some (_, n) => n + 1 | None => 1 end in
  (k, (now, n)) :: pldel_if (ekey_eqb k) l.
(* min(max, init * 2^(n-1)) without overflow games: n is small or the cap wins *)
Definition envelope (init max n : Z) : Z :=
  if n <=? 0 then 0 else if 40 <=? n then max else Z.min max (init * 2 ^ (n - 1)).
(* may a query for K be answered from a cached failure at time now? *)
Definition justified (init max : Z) (l : pledger) (now : Z) (K : qkey) : bool :=
  existsb (fun kv =>
    let '(x, (t, n)) := kv in
    covers_reset K x && (now <? t + envelope init max n)) l.

Fixpoint spec_psteps (init max : Z) (disabled : bool) (l : pledger) (pos : list pkey) (now : Z) (steps : list pstep) : bool :=
  match steps with
  | [] => true
  | PAdvance dt :: r => spec_psteps init max disabled l pos (now + dt) r
  | PExpireAnswers :: r => spec_psteps init max disabled l pos now r
  | PQuery k edns d rcode ede calls flen :: r =>
      let K := norm_qkey k in
      let ede13 := opt_N_eqb ede (Some ede_cached_error) in
      (* EDE 13 means "answered from the failure cache": then no upstream traffic *)
      let ok_ede := if ede13 then (calls =? 0) && (rcode =? rcode_servfail)%N else true in
      let from_failure_cache := (calls =? 0) && (rcode =? rcode_servfail)%N in
      let ok_cached :=
        if from_failure_cache then
          negb disabled && justified init max l now K && (if edns then ede13 else true)
        else true in
      let ok_off := if disabled then (flen =? 0) else true in
      let l' :=
        if calls =? 0 then l else
        match d with
        | PDFail rl zr =>
            let l1 := match zr with
                      | Some (qc, Some z) =>
                          (* the resolver publishes a zone failure only for shared causes *)
                          if request_local rl then l else plbump (EZ (norm_zkey (mk_zkey z qc))) now l
                      | _ => l
                      end in
            if request_local rl then l1 else plbump (EQ K) now l1
        | PDUseful zc =>
            let l1 := match zc with
                      | Some (qc, Some z) => pldel_if (ekey_eqb (EZ (norm_zkey (mk_zkey z qc)))) l
                      | _ => l
                      end in
            pldel_if (fun x => covers_reset K x || covers_reset (mk_qkey (qk_name K) (qk_type K) (qk_class K) (qk_cd K) None) x) l1
        | PDUsefulScoped zc =>
            (* an answer for one ECS audience says nothing about the shared audience's failures *)
            let l1 := match zc with
                      | Some (qc, Some z) => pldel_if (ekey_eqb (EZ (norm_zkey (mk_zkey z qc)))) l
                      | _ => l
                      end in
            pldel_if (covers_reset K) l1
        | PDTrunc => l
        end in
      ok_ede && ok_cached && ok_off && spec_psteps init max disabled l' pos now r
  end.

(* ---- cohort oracle: the pipeline ledger, for requests that overlap in time.
   A request is judged against what had failed when it looked: [view] for the look at arrival,
   the running ledger for a look after a wake-up. *)
Definition covered_now (l : pledger) (now : Z) (K : qkey) : bool :=
  existsb (fun kv => let '(x, (t, _)) := kv in covers_reset K x && (t =? now)) l.
Definition spec_cm (init max : Z) (disabled : bool) (view l : pledger) (now : Z) (m : cmember) : bool :=
  let 'CM k edns d rcode ede calls late := m in
  let K := norm_qkey k in
  let ede13 := opt_N_eqb ede (Some ede_cached_error) in
  (* EDE 13 means "answered from the failure cache": then no upstream traffic *)
  (if ede13 then (calls =? 0) && (rcode =? rcode_servfail)%N else true) &&
  (* a cached failure is one that was recorded for this question or a zone above it, inside its backoff *)
  (if (calls =? 0) && (rcode =? rcode_servfail)%N
   then negb disabled && (justified init max view now K || justified init max l now K) && (if edns then ede13 else true)
   else true) &&
  (* and the other way round: a question whose shared failure was recorded at this very instant is
     answered from the failure cache — a request that looks after that record must not go upstream *)
  (if (0 <? calls) && negb disabled then negb (covered_now (if late then l else view) now K) else true).
Definition spec_cm_bump (l : pledger) (now : Z) (m : cmember) : pledger :=
  let 'CM k edns d rcode ede calls late := m in
  let K := norm_qkey k in
  if calls =? 0 then l else
  match d with
  | PDFail rl zr =>
      let l1 := match zr with
                | Some (qc, Some z) => if request_local rl then l else plbump (EZ (norm_zkey (mk_zkey z qc))) now l
                | _ => l
                end in
      if request_local rl then l1 else plbump (EQ K) now l1
  | PDUseful zc =>
      let l1 := match zc with
                | Some (qc, Some z) => pldel_if (ekey_eqb (EZ (norm_zkey (mk_zkey z qc)))) l
                | _ => l
                end in
      pldel_if (fun x => covers_reset K x || covers_reset (mk_qkey (qk_name K) (qk_type K) (qk_class K) (qk_cd K) None) x) l1
  | PDUsefulScoped zc =>
      let l1 := match zc with
                | Some (qc, Some z) => pldel_if (ekey_eqb (EZ (norm_zkey (mk_zkey z qc)))) l
                | _ => l
                end in
      pldel_if (covers_reset K) l1
  | PDTrunc => l
  end.
Fixpoint spec_prelude (init max : Z) (disabled : bool) (l : pledger) (now : Z) (pre : list cmember) : bool * pledger :=
  match pre with
  | [] => (true, l)
  | m :: r => if spec_cm init max disabled l l now m then spec_prelude init max disabled (spec_cm_bump l now m) now r else (false, l)
  end.
Fixpoint spec_groups (init max : Z) (disabled : bool) (view l : pledger) (now : Z) (groups : list (cmember * list cmember)) : bool :=
  match groups with
  | [] => true
  | (ld, fs) :: r =>
      spec_cm init max disabled view view now ld &&
      let l1 := spec_cm_bump l now ld in
      forallb (spec_cm init max disabled view l1 now) fs &&
      spec_groups init max disabled view (fold_left (fun acc f => spec_cm_bump acc now f) fs l1) now r
  end.

(* the ledger once every request of the cohort has returned (the order spec_groups walks in) *)
Definition groups_ledger (l : pledger) (now : Z) (groups : list (cmember * list cmember)) : pledger :=
  fold_left (fun acc g => fold_left (fun a f => spec_cm_bump a now f) (snd g) (spec_cm_bump acc now (fst g))) groups l.

Definition spec_case (x : case) : bool :=
  match x with
  | CaseBackoff init max obs =>
      (* starts at the minimum, at most doubles per consecutive failure, never
         exceeds the maximum, which never exceeds five minutes *)
      (max <=? spec_ceiling) &&
      forallb (fun so => (init <=? snd so) && (snd so <=? max)) obs &&
      forallb (fun so => if (fst so =? 1)%N then snd so =? init else true) obs &&
      (fix pairs (l : list (N * Z)) : bool :=
         match l with
         | a :: ((b :: _) as r) =>
             (if (fst b =? fst a + 1)%N then snd b <=? 2 * snd a else snd a <=? snd b) && pairs r
         | _ => true
         end) obs
  | CaseNew size init max ok eff_init eff_max =>
      if ok then (0 <? size) && (spec_floor <=? eff_init) && (eff_init <=? eff_max) && (eff_max <=? spec_ceiling) &&
                 (if init =? 0 then true else eff_init =? init) && (if max =? 0 then true else eff_max =? max)
      else true
  | CaseHist init max disabled tab ops final =>
      (spec_floor <=? init) && (init <=? max) && (max <=? spec_ceiling) &&
      match spec_ops (foreign_plants ops) init max disabled ([], 0) ops with
      | Some (l, _) => if disabled then match final with [] => true | _ => false end else spec_final (foreign_plants ops) l final
      | None => false
      end
  | CaseAdmit r obs => if request_local r then negb obs else true
  | CaseZoneAdmit ze be ce ob x obs => if ze || be || ce || ob || cause_local x then negb obs else true
  | CaseGlueless hosts looked ob records err local =>
      (* a zone failure only when every host of the delegation was looked up and had no address, and
         never from a tree that is over budget; as soon as a host reached by the walk could not be
         looked up for a cause local to this request the delegation ends in a request-local error *)
      let local_host (b : N) := (2 <=? b)%N && (b <=? 6)%N in
      (if (0 <? records) then forallb (fun b => negb (local_host b)) hosts && (length hosts =? looked)%nat && negb ob && (records =? 1) else true) &&
      (if existsb local_host (firstn looked hosts) then (records =? 0) && local else true)
  | CasePipe raw_size raw_init raw_max disabled exact eff_init eff_max tab steps final =>
      (spec_floor <=? eff_init) && (eff_init <=? eff_max) && (eff_max <=? spec_ceiling) &&
      spec_psteps eff_init eff_max disabled [] [] 0 steps &&
      (if disabled then match final with [] => true | _ => false end else true)
  | CaseRace init max before nows after distinct =>
      (* concurrent recorders advance the streak exactly once *)
      (e_streak after =? (if (e_streak before =? 4294967295)%N then e_streak before else e_streak before + 1))%N ||
      ((e_streak after =? 1)%N && existsb (fun w => w - e_retry before >=? max) nows)
  | CaseElect n first_local mx calls served shed => (mx <=? 1)
  | CaseTimeout n late leader_local calls_blocked shed_first shed_late calls_total last =>
      (* one probe at a time, also behind an abandoned leader; the next probe only after it ended *)
      (calls_blocked <=? 1) && (calls_total <=? 2) && (if leader_local then true else calls_total =? 1)
  | CaseWrap steps =>
      (* a cached failure is answered without upstream traffic of any kind *)
      forallb (fun x : N * bool * Z * Z * N * option N => let '(k, edns, al, dc, rc, ede) := x in
        if (k =? 0)%N || opt_N_eqb ede (Some ede_cached_error) then (al =? 0) && (dc =? 0) else true) steps
  | CaseWireGate cd kq di n idx_rung idx_query by_wire rcode ede =>
      (* whichever path composes it, the client sees the cached failure *)
      (rcode =? rcode_servfail)%N && opt_N_eqb ede (Some ede_cached_error)
  | CaseFailover p rd fbs asked rc1 ede1 flen calls2 asked2 rc2 ede2 =>
      let local := (p =? 1)%N || (p =? 2)%N || (p =? 3)%N in
      let served_from_failure_cache := opt_N_eqb ede2 (Some ede_cached_error) || ((calls2 =? 0) && (rc2 =? rcode_servfail)%N) in
      (* a request-local failure never becomes shared state *)
      (if local then (flen =? 0) && negb served_from_failure_cache else true) &&
      (* a cached failure is answered without upstream traffic of any kind *)
      (if served_from_failure_cache then (calls2 =? 0) && (asked2 =? 0) && (rc2 =? rcode_servfail)%N else true) &&
      (* a shed or abandoned request starts no fallback traffic *)
      (if (p =? 2)%N || (p =? 3)%N then forallb (Z.eqb 0) asked else true) &&
      (* a useful answer (primary's or a fallback's) leaves no failure behind *)
      (if (rc1 =? 0)%N then (flen =? 0) else true)
  | CaseLab level servers records clears rcode =>
      (* a zone failure only for a zone every one of whose servers failed to give a usable response
         (an answer or NXDOMAIN are usable; a failure rcode, silence are not) *)
      (if (0 <? records) then forallb (fun b => (2 <=? b)%N && negb (b =? 7)%N) servers else true) &&
      (if (0 <? clears) then existsb (fun b => (b <=? 1)%N || (b =? 7)%N) servers && (records =? 0) else true) &&
      (if (rcode =? 0)%N then (1 <=? clears) else true)
  | CaseLabSched level servers evs cancelled records clears rcode =>
      (* a zone failure only when every server of the zone was heard and none gave a usable
         response; never more than one per lookup; Resolve returned; a lookup the client
         cancelled publishes nothing; the zone's failure state is cleared only when a server gave
         a usable response, and never by a lookup that publishes a failure *)
      negb (rcode =? 998)%N && (records <=? 1) && (if cancelled then (records =? 0) else true) &&
      (if (0 <? clears) then existsb (fun b => (b <=? 1)%N || (b =? 7)%N) servers && (records =? 0) else true) &&
      (* a useful answer resets the zone's failure state *)
      (if (rcode =? 0)%N then (1 <=? clears) else true) &&
      (if (0 <? records) then forallb (fun b => (2 <=? b)%N && negb (b =? 7)%N) servers && fo_all_heard (length servers) evs
       else true)
  | CaseShed e rc1 ede1 up1 rc2 ede2 up2 =>
      (* shed load never becomes shared state: the next query is not answered from the failure cache *)
      if shed_load e then negb (opt_N_eqb ede2 (Some ede_cached_error)) && (1 <=? up2) else true
  | CaseProbe tab zone qclass names keys calls cached =>
      (* the first retry after a backoff is led by a single probe *)
      (calls =? 1)
  | CaseCohort raw_size raw_init raw_max disabled eff_init eff_max tab pre groups post in_flight final =>
      (spec_floor <=? eff_init) && (eff_init <=? eff_max) && (eff_max <=? spec_ceiling) &&
      (let '(ok, l0) := spec_prelude eff_init eff_max disabled [] 0 pre in
       ok && spec_groups eff_init eff_max disabled l0 l0 0 groups &&
       (* the clients that come next are judged against what the cohort left: a failure a useful answer
          of the cohort has reset since must not be served any more *)
       fst (spec_prelude eff_init eff_max disabled (groups_ledger l0 0 groups) 0 post)) &&
      (if disabled then match final with [] => true | _ => false end else true)
  end.
