(* C13 — the authority fan-out of Resolver.lookup (Model.v, "Concurrency, part 4"): for every
   order in which results arrive and timers fire, a zone failure is published only when no
   server of the zone gave a usable response, and an answer is a usable response of a server. *)
From Sdns Require Import Common.Base Gen.C13 C13.Model C13.Proofs_Base C13.Proofs_Conc.
Open Scope Z_scope.

Section Fanout.
  Variable servers : list srv.
  Variable level : nat.
  Let n := length servers.

  Definition live (s : sstat) : bool := match s with StConsumed => false | _ => true end.
  Definition count_live (l : list sstat) : nat := length (filter live l).

  Lemma count_live_set_consumed l i s :
    nth_error l i = Some s -> live s = true -> S (count_live (set_nth l i StConsumed)) = count_live l.
  Proof.
    revert i. induction l as [|x l IH]; intros [|i] E L; cbn in *; try discriminate.
    - injection E as ->. unfold count_live. cbn. now rewrite L.
    - unfold count_live in *. cbn. destruct (live x); cbn; [f_equal|]; now apply (IH i).
  Qed.
  Lemma count_live_set_pending l j s :
    nth_error l j = Some s -> live s = true -> count_live (set_nth l j StPending) = count_live l.
  Proof.
    revert j. induction l as [|x l IH]; intros [|j] E L; cbn in *; try discriminate.
    - injection E as ->. unfold count_live. cbn. now rewrite L.
    - unfold count_live in *. cbn. destruct (live x); cbn; [f_equal|]; now apply (IH j).
  Qed.
  Lemma count_live_zero l : count_live l = O -> forall j s, nth_error l j = Some s -> s = StConsumed.
  Proof.
    induction l as [|x l IH]; intros Z [|j] s E; cbn in *; try discriminate.
    - injection E as ->. unfold count_live in Z. cbn in Z. destruct s; cbn in Z; try discriminate. reflexivity.
    - unfold count_live in Z. cbn in Z. destruct (live x); cbn in Z; [discriminate|]. now apply (IH Z j).
  Qed.

  (* while the lookup runs: the counter covers every result not yet consumed; nothing beyond the
     loop index has been started; a consumed result was no usable response, unless an NXDOMAIN is
     waiting in responseErrors (then the fallback is that NXDOMAIN).  Once it has ended: if what it
     hands back is published as a zone failure, no server of the zone gave a usable response. *)
  Definition fo_inv (st : fo_state) : Prop :=
    match fo_done st with
    | Some o => fo_published o = true ->
        forallb (fun s => negb (srv_usable s)) servers = true /\
        length (fo_stat st) = n /\ count_live (fo_stat st) = O
    | None =>
        length (fo_stat st) = n /\
        (fo_index st < n)%nat /\
        (count_live (fo_stat st) <= fo_left st)%nat /\
        (forall j s, nth_error (fo_stat st) j = Some s -> s <> StUnstarted -> (j <= fo_index st)%nat) /\
        (forall j, nth_error (fo_stat st) j = Some StConsumed ->
           srv_usable (nth j servers SSilent) = false \/ In rcode_nxdomain (fo_resp st))
    end.

  Lemma pick_nxdomain resp cfg fatal :
    In rcode_nxdomain resp -> fo_published (pick_fallback resp cfg fatal) = false.
  Proof.
    intros I. unfold pick_fallback.
    assert (E : existsb (N.eqb rcode_nxdomain) resp = true) by (apply existsb_exists; exists rcode_nxdomain; split; [exact I | apply N.eqb_refl]).
    now rewrite E.
  Qed.

  Lemma all_consumed_unusable stat resp :
    length stat = n -> count_live stat = O ->
    (forall j, nth_error stat j = Some StConsumed -> srv_usable (nth j servers SSilent) = false \/ In rcode_nxdomain resp) ->
    ~ In rcode_nxdomain resp ->
    forallb (fun s => negb (srv_usable s)) servers = true.
  Proof.
    intros L Z C NX. apply forallb_forall. intros s I.
    apply In_nth_error in I as [j E].
    assert (J : (j < length stat)%nat) by (rewrite L; apply nth_error_Some; unfold n; congruence).
    destruct (nth_error stat j) as [t|] eqn:T; [|apply nth_error_None in T; lia].
    pose proof (count_live_zero _ Z j t T) as ->.
    destruct (C j T) as [U|U]; [|contradiction].
    rewrite (nth_error_nth _ _ SSilent E) in U. now rewrite U.
  Qed.

  Lemma fo_advance_inv st :
    fo_done st = None -> fo_inv st -> fo_inv (fo_advance n st).
  Proof.
    intros D I. unfold fo_inv in I. rewrite D in I. destruct I as (L & IX & C & B & U).
    unfold fo_advance.
    destruct ((0 <? fo_left st)%nat && (S (fo_index st) =? n)%nat) eqn:K.
    - unfold fo_inv. rewrite D. now repeat split.
    - destruct (S (fo_index st) =? n)%nat eqn:Last.
      + (* past the last server: every result has been consumed *)
        rewrite andb_true_r in K. apply Nat.ltb_ge in K.
        unfold fo_inv, fo_finish. cbn [fo_done]. intros P.
        destruct (in_dec N.eq_dec rcode_nxdomain (fo_resp st)) as [X|X].
        * now rewrite pick_nxdomain in P.
        * cbn [fo_stat]. assert (Z0 : count_live (fo_stat st) = O) by lia.
          split; [|split; [exact L | exact Z0]].
          apply (all_consumed_unusable (fo_stat st) (fo_resp st)); auto.
      + (* start the next server *)
        apply Nat.eqb_neq in Last.
        unfold fo_inv. cbn [fo_done fo_stat fo_left fo_index fo_resp].
        assert (Lt : (S (fo_index st) < length (fo_stat st))%nat) by lia.
        destruct (nth_error (fo_stat st) (S (fo_index st))) as [t|] eqn:T; [|apply nth_error_None in T; lia].
        assert (TU : t = StUnstarted).
        { destruct t; try reflexivity; exfalso; specialize (B _ _ T); (assert (S (fo_index st) <= fo_index st)%nat by (apply B; discriminate)); lia. }
        subst t. repeat split.
        * now rewrite set_nth_length.
        * lia.
        * rewrite (count_live_set_pending _ _ _ T eq_refl). exact C.
        * intros j s E NS. destruct (Nat.eq_dec j (S (fo_index st))) as [->|NE]; [lia|].
          rewrite nth_error_set_nth in E. destruct (Nat.eqb_spec (S (fo_index st)) j); [congruence|].
          specialize (B _ _ E NS). lia.
        * intros j E. rewrite nth_error_set_nth in E.
          destruct (Nat.eqb_spec (S (fo_index st)) j) as [->|NE].
          -- exfalso. revert E. case (j <? length (fo_stat st))%nat; discriminate.
          -- now apply U.
  Qed.

  Lemma fo_step_inv st ev : fo_inv st -> fo_inv (fo_step servers level st ev).
  Proof.
    intros I. unfold fo_step. fold n.
    destruct (fo_done st) as [o|] eqn:D; [exact I|].
    destruct ev as [|i]; [now apply fo_advance_inv|].
    destruct (nth_error (fo_stat st) i) as [[| |]|] eqn:T; try exact I.
    pose proof I as I0. unfold fo_inv in I0. rewrite D in I0. destruct I0 as (L & IX & C & B & U).
    assert (CL : S (count_live (set_nth (fo_stat st) i StConsumed)) = count_live (fo_stat st))
      by (apply (count_live_set_consumed _ _ _ T eq_refl)).
    assert (base : forall resp cfg fatal,
              (forall x, In x (fo_resp st) -> In x resp) ->
              (srv_usable (nth i servers SSilent) = false \/ In rcode_nxdomain resp) ->
              fo_inv (mk_fo (fo_index st) (set_nth (fo_stat st) i StConsumed) (pred (fo_left st)) resp cfg fatal None)).
    { intros resp cfg fatal Sub Ui. unfold fo_inv. cbn [fo_done fo_stat fo_left fo_index fo_resp]. repeat split.
      - now rewrite set_nth_length.
      - exact IX.
      - lia.
      - intros j s E NS. rewrite nth_error_set_nth in E.
        destruct (Nat.eqb_spec i j) as [->|NE].
        + apply (B _ _ T). discriminate.
        + now apply (B _ _ E).
      - intros j E. rewrite nth_error_set_nth in E.
        destruct (Nat.eqb_spec i j) as [->|NE]; [exact Ui|].
        destruct (U j E) as [X|X]; [now left | right; now apply Sub]. }
    destruct (nth i servers SSilent) as [|rc| | |] eqn:Sv.
    - unfold fo_inv, fo_finish. cbn. discriminate.
    - destruct (rc =? 0)%N eqn:R0; [unfold fo_inv, fo_finish; cbn; discriminate|].
      set (resp := fo_resp st ++ [rc]).
      assert (Sub : forall x, In x (fo_resp st) -> In x resp) by (intros x X; apply in_or_app; now left).
      assert (Ui : srv_usable (SRcode rc) = false \/ In rcode_nxdomain resp).
      { cbn. rewrite R0. destruct (rc =? rcode_nxdomain)%N eqn:R3; [|now left].
        right. apply N.eqb_eq in R3. subst rc. apply in_or_app. right. now left. }
      destruct (((2 <? length resp)%nat || (level <? 2)%nat) && (rc =? rcode_nxdomain)%N) eqn:Early.
      + apply andb_true_iff in Early as [_ R3]. apply N.eqb_eq in R3.
        unfold fo_inv, fo_finish. cbn [fo_done]. intros P. rewrite pick_nxdomain in P; [discriminate|].
        subst rc. apply in_or_app. right. now left.
      + apply fo_advance_inv; [reflexivity|]. apply base; [exact Sub | exact Ui].
    - apply fo_advance_inv; [reflexivity|]. apply base; [auto | now left].
    - apply fo_advance_inv; [reflexivity|]. apply base; [auto | now left].
    - unfold fo_inv, fo_finish. cbn. discriminate.
  Qed.

  Lemma fo_init_inv : fo_inv (fo_init n).
  Proof.
    unfold fo_inv. destruct n as [|[|m]] eqn:N; cbn.
    - discriminate.
    - repeat split; try lia.
      + intros [|j] s E NS; cbn in E; [lia | destruct j; discriminate].
      + intros [|j] E; cbn in E; [discriminate | destruct j; discriminate].
    - repeat split.
      + now rewrite repeat_length.
      + lia.
      + unfold count_live. cbn.
        assert (F : forall k, length (filter live (repeat StUnstarted k)) = k) by (induction k; cbn; congruence).
        rewrite F. lia.
      + intros [|[|j]] s E NS; cbn in E; try lia.
        exfalso. apply nth_error_In in E. apply repeat_spec in E. contradiction.
      + intros [|[|j]] E; cbn in E; try discriminate.
        exfalso. apply nth_error_In in E. apply repeat_spec in E. discriminate.
  Qed.

  Lemma fo_run_inv sched : fo_inv (fo_run servers level sched).
  Proof.
    unfold fo_run. fold n. generalize fo_init_inv. generalize (fo_init n).
    induction sched as [|e r IH]; intros st0 I0; cbn; [exact I0|]. apply IH. now apply fo_step_inv.
  Qed.

  Theorem fanout_publishes_only_when_every_server_failed sched o :
    fo_done (fo_run servers level sched) = Some o -> fo_published o = true ->
    forallb (fun s => negb (srv_usable s)) servers = true.
  Proof.
    intros D P. pose proof (fo_run_inv sched) as I. unfold fo_inv in I. rewrite D in I. now apply I.
  Qed.

  (* ... and it was HEARD from every server: each one had been started and its result consumed *)
  Theorem fanout_publishes_only_after_every_result sched o :
    fo_done (fo_run servers level sched) = Some o -> fo_published o = true ->
    forall j, (j < n)%nat -> nth_error (fo_stat (fo_run servers level sched)) j = Some StConsumed.
  Proof.
    intros D P j J. pose proof (fo_run_inv sched) as I. unfold fo_inv in I. rewrite D in I.
    destruct (I P) as (_ & L & Z).
    destruct (nth_error (fo_stat (fo_run servers level sched)) j) as [t|] eqn:T.
    - now rewrite (count_live_zero _ Z j t T).
    - apply nth_error_None in T. lia.
  Qed.

  (* an answer is the response of a server that gave a usable one *)
  Definition ans_inv (st : fo_state) : Prop :=
    forall i, fo_done st = Some (FOAnswer i) -> nth i servers SSilent = SHealthy \/ nth i servers SSilent = SRcode 0.
  Lemma pick_no_answer resp cfg fatal i : pick_fallback resp cfg fatal <> FOAnswer i.
  Proof.
    unfold pick_fallback. destruct (existsb _ _); [discriminate|].
    destruct resp; [|discriminate]. destruct (0 <? cfg)%nat; [discriminate|]. destruct (0 <? fatal)%nat; discriminate.
  Qed.
  Lemma advance_no_answer s i : fo_done s = None -> fo_done (fo_advance n s) <> Some (FOAnswer i).
  Proof.
    intros Y X. unfold fo_advance in X.
    destruct ((0 <? fo_left s)%nat && (S (fo_index s) =? n)%nat); [congruence|].
    destruct (S (fo_index s) =? n)%nat; cbn in X; [|discriminate].
    injection X as X. now apply pick_no_answer in X.
  Qed.
  Lemma ans_step st ev : ans_inv st -> ans_inv (fo_step servers level st ev).
  Proof.
    intros I i D. unfold fo_step in D. fold n in D.
    destruct (fo_done st) as [o|] eqn:Dst; [apply I; congruence|].
    destruct ev as [|k]; [exfalso; now apply (advance_no_answer st i)|].
    destruct (nth_error (fo_stat st) k) as [[| |]|]; try congruence.
    destruct (nth k servers SSilent) as [|rc| | |] eqn:Sv; cbv beta iota zeta in D.
    - unfold fo_finish in D. cbn [fo_done] in D. assert (EQ : k = i) by congruence. subst i. left. exact Sv.
    - destruct (rc =? 0)%N eqn:R0.
      + unfold fo_finish in D. cbn [fo_done] in D. assert (EQ : k = i) by congruence. subst i.
        right. apply N.eqb_eq in R0. now subst rc.
      + destruct (((2 <? length (fo_resp st ++ [rc]))%nat || (level <? 2)%nat) && (rc =? rcode_nxdomain)%N).
        * unfold fo_finish in D. cbn [fo_done fo_cfg fo_fatal] in D. exfalso. injection D as D. now apply pick_no_answer in D.
        * exfalso. eapply advance_no_answer; [|exact D]. reflexivity.
    - exfalso. eapply advance_no_answer; [|exact D]. reflexivity.
    - exfalso. eapply advance_no_answer; [|exact D]. reflexivity.
    - unfold fo_finish in D. cbn [fo_done] in D. discriminate.
  Qed.
  Theorem fanout_answer_is_a_usable_response sched i :
    fo_done (fo_run servers level sched) = Some (FOAnswer i) ->
    nth i servers SSilent = SHealthy \/ nth i servers SSilent = SRcode 0.
  Proof.
    assert (A : ans_inv (fo_run servers level sched)).
    { unfold fo_run. fold n.
      assert (A0 : ans_inv (fo_init n)) by (intros j D; destruct n as [|[|m]]; cbn in D; discriminate).
      revert A0. generalize (fo_init n).
      induction sched as [|e r IH]; intros st0 A0; cbn; [exact A0|]. apply IH. now apply ans_step. }
    apply A.
  Qed.

  (* ---- the zone's failure state is cleared only after a usable response ------------------- *)
  (* every collected response error is the rcode some server of the zone answers with; a
     fallback response is one of the collected ones *)
  Definition resp_inv (st : fo_state) : Prop :=
    (forall rc, In rc (fo_resp st) -> exists j, nth j servers SSilent = SRcode rc) /\
    (forall rc, fo_done st = Some (FOResponse rc) -> In rc (fo_resp st)).
  Lemma pick_response_in resp cfg fatal rc : pick_fallback resp cfg fatal = FOResponse rc -> In rc resp.
  Proof.
    unfold pick_fallback. destruct (existsb (N.eqb rcode_nxdomain) resp) eqn:E.
    - intros X. injection X as <-. apply existsb_exists in E as (x & I & Q). apply N.eqb_eq in Q. now subst x.
    - destruct resp as [|r0 r]; [|intros X; injection X as <-; now left].
      destruct (0 <? cfg)%nat; [discriminate|]. destruct (0 <? fatal)%nat; discriminate.
  Qed.
  Lemma resp_advance st : fo_done st = None -> resp_inv st -> resp_inv (fo_advance n st).
  Proof.
    intros D [R1 R2]. unfold fo_advance.
    destruct ((0 <? fo_left st)%nat && (S (fo_index st) =? n)%nat); [now split|].
    destruct (S (fo_index st) =? n)%nat.
    - split; [exact R1|]. intros rc X. unfold fo_finish in X. cbn [fo_done] in X. injection X as X.
      cbn [fo_resp fo_finish]. now apply pick_response_in in X.
    - split; [exact R1|]. cbn [fo_done]. discriminate.
  Qed.
  Lemma resp_step st ev : resp_inv st -> resp_inv (fo_step servers level st ev).
  Proof.
    intros I. unfold fo_step. fold n.
    destruct (fo_done st) as [o|] eqn:D; [exact I|].
    destruct ev as [|i]; [now apply resp_advance|].
    destruct (nth_error (fo_stat st) i) as [[| |]|]; try exact I.
    destruct I as [R1 R2].
    destruct (nth i servers SSilent) as [|rc| | |] eqn:Sv.
    - split; [exact R1|]. unfold fo_finish. cbn [fo_done]. discriminate.
    - destruct (rc =? 0)%N; [split; [exact R1|]; unfold fo_finish; cbn [fo_done]; discriminate|].
      assert (R1' : forall x, In x (fo_resp st ++ [rc]) -> exists j, nth j servers SSilent = SRcode x).
      { intros x X. apply in_app_or in X as [X|[<-|[]]]; [now apply R1 | now exists i]. }
      destruct (((2 <? length (fo_resp st ++ [rc]))%nat || (level <? 2)%nat) && (rc =? rcode_nxdomain)%N).
      + split; [exact R1'|]. intros x X. unfold fo_finish in X. cbn [fo_done fo_cfg fo_fatal] in X. injection X as X.
        cbn [fo_resp fo_finish]. now apply pick_response_in in X.
      + apply resp_advance; [reflexivity|]. split; [exact R1' | cbn [fo_done]; discriminate].
    - apply resp_advance; [reflexivity|]. split; [exact R1 | cbn [fo_done]; discriminate].
    - apply resp_advance; [reflexivity|]. split; [exact R1 | cbn [fo_done]; discriminate].
    - split; [exact R1|]. unfold fo_finish. cbn [fo_done]. discriminate.
  Qed.
  Lemma resp_run sched : resp_inv (fo_run servers level sched).
  Proof.
    unfold fo_run. fold n.
    assert (I0 : resp_inv (fo_init n)).
    { split; [|intros rc X]; destruct n as [|[|m]]; cbn in *; try contradiction; try discriminate. }
    revert I0. generalize (fo_init n).
    induction sched as [|e r IH]; intros st0 I0; cbn; [exact I0|]. apply IH. now apply resp_step.
  Qed.
  Theorem fanout_clears_only_after_a_usable_response sched o :
    fo_done (fo_run servers level sched) = Some o -> fo_cleared o = true ->
    existsb srv_usable servers = true /\ fo_published o = false.
  Proof.
    intros D C. destruct o as [i|rc| | | |]; cbn in C; try discriminate.
    - split; [|reflexivity]. apply existsb_exists.
      destruct (fanout_answer_is_a_usable_response sched i D) as [E|E].
      + exists SHealthy. split; [|reflexivity]. rewrite <- E. apply nth_In.
        destruct (Nat.lt_ge_cases i (length servers)) as [L|L]; [exact L|]. rewrite nth_overflow in E by exact L. discriminate.
      + exists (SRcode 0). split; [|reflexivity]. rewrite <- E. apply nth_In.
        destruct (Nat.lt_ge_cases i (length servers)) as [L|L]; [exact L|]. rewrite nth_overflow in E by exact L. discriminate.
    - apply N.eqb_eq in C. subst rc. split; [|reflexivity].
      destruct (resp_run sched) as [R1 R2]. destruct (R1 _ (R2 _ D)) as [j E].
      apply existsb_exists. exists (SRcode rcode_nxdomain). split; [|reflexivity]. rewrite <- E. apply nth_In.
      destruct (Nat.lt_ge_cases j (length servers)) as [L|L]; [exact L|]. rewrite nth_overflow in E by exact L. discriminate.
  Qed.

  (* ---- ticks and results commute: why an observed schedule needs no tick positions -------- *)
  Lemma set_nth_comm {A} (l : list A) i j a b :
    i <> j -> set_nth (set_nth l i a) j b = set_nth (set_nth l j b) i a.
  Proof.
    revert i j. induction l as [|x l IH]; intros [|i] [|j] NE; cbn; try reflexivity; try congruence.
    f_equal. apply IH. congruence.
  Qed.
  Lemma count_live_pending l i : nth_error l i = Some StPending -> (1 <= count_live l)%nat.
  Proof.
    revert i. induction l as [|x l IH]; intros [|i] E; cbn in *; try discriminate.
    - injection E as ->. unfold count_live. cbn. lia.
    - unfold count_live in *. cbn. specialize (IH i E). destruct (live x); cbn; lia.
  Qed.

  (* what consuming a non-final result leaves, before the loop decides how to go on *)
  Definition running (st : fo_state) : Prop :=
    fo_done st = None /\ length (fo_stat st) = n /\ (fo_index st < n)%nat /\
    (count_live (fo_stat st) <= fo_left st)%nat /\
    (forall j s, nth_error (fo_stat st) j = Some s -> s <> StUnstarted -> (j <= fo_index st)%nat).
  Lemma running_of_inv st : fo_done st = None -> fo_inv st -> running st.
  Proof. intros D I. unfold fo_inv in I. rewrite D in I. destruct I as (L & IX & C & B & _). now repeat split. Qed.

  (* a tick on a running state with a result outstanding never ends the lookup *)
  Lemma advance_core idx stat left resp cfg fatal i :
    length stat = n -> (idx < n)%nat -> nth_error stat i = Some StPending -> (i <= idx)%nat ->
    (count_live stat <= left)%nat ->
    fo_advance n (mk_fo idx stat left resp cfg fatal None) =
      if (S idx =? n)%nat then mk_fo idx stat left resp cfg fatal None
      else mk_fo (S idx) (set_nth stat (S idx) StPending) left resp cfg fatal None.
  Proof.
    intros L IX P I C. pose proof (count_live_pending _ _ P) as C1.
    unfold fo_advance. cbn [fo_index fo_left fo_stat fo_resp fo_cfg fo_fatal].
    destruct (S idx =? n)%nat eqn:Last.
    - assert (E : (0 <? left)%nat = true) by (apply Nat.ltb_lt; lia). now rewrite E.
    - now rewrite andb_false_r.
  Qed.

  Lemma timer_commutes_with_result st i :
    fo_done st = None -> fo_inv st -> nth_error (fo_stat st) i = Some StPending ->
    fo_step servers level (fo_step servers level st FoTimer) (FoResult i) =
    fo_step servers level (fo_step servers level st (FoResult i)) FoTimer
    \/ (exists o, fo_done (fo_step servers level st (FoResult i)) = Some o /\
                  fo_done (fo_step servers level (fo_step servers level st FoTimer) (FoResult i)) = Some o).
  Proof.
    intros D I P. destruct (running_of_inv st D I) as (_ & L & IX & C & B).
    assert (Ii : (i <= fo_index st)%nat) by (apply (B _ _ P); discriminate).
    pose proof (count_live_pending _ _ P) as C1.
    (* the tick *)
    assert (T : fo_step servers level st FoTimer =
                if (S (fo_index st) =? n)%nat then st
                else mk_fo (S (fo_index st)) (set_nth (fo_stat st) (S (fo_index st)) StPending)
                           (fo_left st) (fo_resp st) (fo_cfg st) (fo_fatal st) None).
    { unfold fo_step. rewrite D. fold n. unfold fo_advance.
      destruct (S (fo_index st) =? n)%nat eqn:Last.
      - assert (E : (0 <? fo_left st)%nat = true) by (apply Nat.ltb_lt; lia). now rewrite E.
      - now rewrite andb_false_r. }
    destruct (S (fo_index st) =? n)%nat eqn:Last.
    { (* at the last server a tick changes nothing, before or after *)
      rewrite T. left.
      set (st' := fo_step servers level st (FoResult i)).
      destruct (fo_done st') as [o|] eqn:D'.
      - unfold fo_step at 1. now rewrite D'.
      - (* st' still runs at the last server with a result outstanding *)
        unfold fo_step at 1. rewrite D'. fold n.
        assert (Ix' : fo_index st' = fo_index st /\ (0 <? fo_left st')%nat = true).
        { subst st'. unfold fo_step in D' |- *. rewrite D in D' |- *. fold n in D' |- *. rewrite P in D' |- *.
          destruct (nth i servers SSilent) as [|rc| | |]; cbv beta iota zeta in D' |- *;
            try (unfold fo_finish in D'; cbn in D'; discriminate).
          - destruct (rc =? 0)%N; [unfold fo_finish in D'; cbn in D'; discriminate|].
            destruct (((2 <? length (fo_resp st ++ [rc]))%nat || (level <? 2)%nat) && (rc =? rcode_nxdomain)%N);
              [unfold fo_finish in D'; cbn in D'; discriminate|].
            unfold fo_advance in D' |- *. cbn [fo_index fo_left] in D' |- *. rewrite Last in D' |- *. rewrite andb_true_r in D' |- *.
            destruct (0 <? pred (fo_left st))%nat eqn:K; [now split | unfold fo_finish in D'; cbn in D'; discriminate].
          - unfold fo_advance in D' |- *. cbn [fo_index fo_left] in D' |- *. rewrite Last in D' |- *. rewrite andb_true_r in D' |- *.
            destruct (0 <? pred (fo_left st))%nat eqn:K; [now split | unfold fo_finish in D'; cbn in D'; discriminate].
          - unfold fo_advance in D' |- *. cbn [fo_index fo_left] in D' |- *. rewrite Last in D' |- *. rewrite andb_true_r in D' |- *.
            destruct (0 <? pred (fo_left st))%nat eqn:K; [now split | unfold fo_finish in D'; cbn in D'; discriminate]. }
        destruct Ix' as [E1 E2]. unfold fo_advance. rewrite E1, Last, E2. reflexivity. }
    (* a server is still unstarted: the tick starts it *)
    rewrite T. apply Nat.eqb_neq in Last.
    assert (NE : S (fo_index st) <> i) by lia.
    assert (P' : nth_error (set_nth (fo_stat st) (S (fo_index st)) StPending) i = Some StPending).
    { rewrite nth_error_set_nth. destruct (Nat.eqb_spec (S (fo_index st)) i) as [EQ|NQ]; [lia | exact P]. }
    assert (CM : set_nth (set_nth (fo_stat st) (S (fo_index st)) StPending) i StConsumed =
                 set_nth (set_nth (fo_stat st) i StConsumed) (S (fo_index st)) StPending) by (now apply set_nth_comm).
    (* the consumed, non-final shape on both sides *)
    assert (core : forall resp cfg fatal,
      fo_advance n (mk_fo (S (fo_index st)) (set_nth (set_nth (fo_stat st) (S (fo_index st)) StPending) i StConsumed)
                          (pred (fo_left st)) resp cfg fatal None) =
      fo_step servers level
        (fo_advance n (mk_fo (fo_index st) (set_nth (fo_stat st) i StConsumed) (pred (fo_left st)) resp cfg fatal None)) FoTimer).
    { intros resp cfg fatal.
      assert (A1 : fo_advance n (mk_fo (fo_index st) (set_nth (fo_stat st) i StConsumed) (pred (fo_left st)) resp cfg fatal None) =
                   mk_fo (S (fo_index st)) (set_nth (set_nth (fo_stat st) i StConsumed) (S (fo_index st)) StPending)
                         (pred (fo_left st)) resp cfg fatal None).
      { unfold fo_advance. cbn [fo_index fo_left fo_stat fo_resp fo_cfg fo_fatal].
        destruct (Nat.eqb_spec (S (fo_index st)) n) as [EQ|NQ]; [lia|]. now rewrite andb_false_r. }
      rewrite A1. unfold fo_step. cbn [fo_done]. fold n. now rewrite CM. }
    unfold fo_step at 1 3. cbn [fo_done fo_stat]. rewrite D. fold n. rewrite P, P'.
    cbn [fo_index fo_left fo_resp fo_cfg fo_fatal].
    destruct (nth i servers SSilent) as [|rc| | |] eqn:Sv.
    - right. unfold fo_step. cbn [fo_done fo_stat]. rewrite D. fold n. rewrite P, P', Sv. eexists. split; reflexivity.
    - destruct (rc =? 0)%N eqn:R0.
      { right. unfold fo_step. cbn [fo_done fo_stat]. rewrite D. fold n. rewrite P, P', Sv, R0. eexists. split; reflexivity. }
      destruct (((2 <? length (fo_resp st ++ [rc]))%nat || (level <? 2)%nat) && (rc =? rcode_nxdomain)%N) eqn:Early.
      + right. unfold fo_step. cbn [fo_done fo_stat fo_resp fo_cfg fo_fatal]. rewrite D. fold n. rewrite P, P', Sv, R0, Early.
        eexists. split; reflexivity.
      + left. apply core.
    - left. apply core.
    - left. apply core.
    - right. unfold fo_step. cbn [fo_done fo_stat]. rewrite D. fold n. rewrite P, P', Sv. eexists. split; reflexivity.
  Qed.

  (* ---- an observed schedule is a schedule: the universal theorems apply to what the lab saw *)
  Lemma fo_observed_is_a_run st0 evs st :
    fo_observed servers level st0 evs = Some st ->
    exists sched, st = fold_left (fo_step servers level) sched st0.
  Proof.
    revert st0. induction evs as [|[a i] r IH]; intros st0 E; cbn in E.
    - injection E as <-. now exists [].
    - destruct (fo_done st0); [discriminate|].
      destruct (fo_started _ =? a)%nat; [|discriminate].
      destruct (nth_error _ i) as [[| |]|]; try discriminate.
      apply IH in E as [sched ->].
      exists (repeat FoTimer (a - fo_started st0) ++ FoResult i :: sched).
      rewrite fold_left_app. reflexivity.
  Qed.
  Theorem observed_publication_means_every_server_failed evs st o :
    fo_observed servers level (fo_init n) evs = Some st -> fo_done st = Some o -> fo_published o = true ->
    forallb (fun s => negb (srv_usable s)) servers = true /\
    forall j, (j < n)%nat -> nth_error (fo_stat st) j = Some StConsumed.
  Proof.
    intros E D P. apply fo_observed_is_a_run in E as [sched ->]. fold (fo_run servers level sched) in *.
    split; [eapply fanout_publishes_only_when_every_server_failed; eauto
           | now apply (fanout_publishes_only_after_every_result sched o)].
  Qed.
End Fanout.

(* ---- completeness: a zone all of whose servers are lame IS recorded ------------------------ *)
Section Lame.
  Variable servers : list srv.
  Variable level : nat.
  Let n := length servers.
  Hypothesis all_lame : forallb srv_lame servers = true.
  Hypothesis some_server : servers <> [].

  Lemma lame_nth i : (i < n)%nat -> srv_lame (nth i servers SSilent) = true.
  Proof. intros L. rewrite forallb_forall in all_lame. apply all_lame. now apply nth_In. Qed.

  (* no bogus delegation has been collected; a collected response error is a lame rcode; every
     result is either outstanding or collected; an ended lookup ended published *)
  Definition lame_inv (st : fo_state) : Prop :=
    fo_cfg st = O /\
    (forall rc, In rc (fo_resp st) -> (rc =? 0)%N = false /\ (rc =? rcode_nxdomain)%N = false) /\
    (fo_done st = None -> (fo_left st + length (fo_resp st) + fo_fatal st = n)%nat) /\
    (forall o, fo_done st = Some o -> fo_published o = true).

  Lemma pick_lame resp fatal :
    (forall rc, In rc resp -> (rc =? 0)%N = false /\ (rc =? rcode_nxdomain)%N = false) ->
    (0 < length resp + fatal)%nat ->
    fo_published (pick_fallback resp O fatal) = true.
  Proof.
    intros R NE. unfold pick_fallback.
    destruct (existsb (N.eqb rcode_nxdomain) resp) eqn:E.
    - apply existsb_exists in E as (x & I & Q). apply N.eqb_eq in Q. subst x.
      destruct (R _ I) as [_ X]. rewrite N.eqb_refl in X. discriminate.
    - destruct resp as [|r0 r].
      + destruct fatal as [|f]; [cbn in NE; lia | reflexivity].
      + destruct (R r0 (or_introl eq_refl)) as [A B]. cbn. now rewrite A, B.
  Qed.

  Lemma lame_advance st : fo_done st = None -> lame_inv st -> lame_inv (fo_advance n st).
  Proof.
    intros D (C & R & Cnt & _). specialize (Cnt D). unfold fo_advance.
    destruct ((0 <? fo_left st)%nat && (S (fo_index st) =? n)%nat) eqn:K.
    - refine (conj C (conj R (conj (fun _ => Cnt) _))). intros o X. congruence.
    - destruct (S (fo_index st) =? n)%nat eqn:Last.
      + rewrite andb_true_r in K. apply Nat.ltb_ge in K.
        unfold fo_finish, lame_inv. cbn [fo_cfg fo_resp fo_done fo_left fo_fatal].
        refine (conj C (conj R (conj _ _))); [discriminate|].
        intros o X. injection X as <-. rewrite C. apply pick_lame; [exact R|].
        assert (N0 : (0 < n)%nat) by (unfold n; destruct servers; [congruence | cbn; lia]). lia.
      + unfold lame_inv. cbn [fo_cfg fo_resp fo_done fo_left fo_fatal].
        refine (conj C (conj R (conj (fun _ => Cnt) _))). discriminate.
  Qed.

  Lemma lame_step st ev : fo_inv servers st -> lame_inv st -> lame_inv (fo_step servers level st ev).
  Proof.
    intros FI I. unfold fo_step. fold n.
    destruct (fo_done st) as [o|] eqn:D; [exact I|].
    destruct ev as [|i]; [now apply lame_advance|].
    destruct (nth_error (fo_stat st) i) as [[| |]|] eqn:T; try exact I.
    destruct I as (C & R & Cnt & _). specialize (Cnt D).
    unfold fo_inv in FI. rewrite D in FI. destruct FI as (L & _ & CL & _ & _).
    assert (Li : (i < n)%nat) by (unfold n; rewrite <- L; apply nth_error_Some; congruence).
    pose proof (count_live_pending servers _ _ T) as C1.
    pose proof (lame_nth i Li) as Lm.
    destruct (nth i servers SSilent) as [|rc| | |] eqn:Sv; cbn in Lm; try discriminate.
    - apply andb_true_iff in Lm as [R0 R3]. apply negb_true_iff in R0, R3. rewrite R0, R3.
      rewrite andb_false_r.
      apply lame_advance; [reflexivity|].
      unfold lame_inv. cbn [fo_cfg fo_resp fo_done fo_left fo_fatal].
      refine (conj C (conj _ (conj _ _))); [| |discriminate].
      + intros x X. apply in_app_or in X as [X|[<-|[]]]; [now apply R | now split].
      + intros _. rewrite app_length. cbn. lia.
    - apply lame_advance; [reflexivity|].
      unfold lame_inv. cbn [fo_cfg fo_resp fo_done fo_left fo_fatal].
      refine (conj C (conj R (conj _ _))); [|discriminate].
      intros _. lia.
  Qed.

  Theorem all_lame_zone_is_published sched o :
    fo_done (fo_run servers level sched) = Some o -> fo_published o = true.
  Proof.
    assert (A : lame_inv (fo_run servers level sched) /\ fo_inv servers (fo_run servers level sched)).
    { unfold fo_run. fold n.
      assert (I0 : lame_inv (fo_init n)).
      { assert (N0 : (0 < n)%nat) by (unfold n; destruct servers; [congruence | cbn; lia]).
        unfold lame_inv. destruct n as [|[|m]]; [lia| |]; cbn;
          (refine (conj eq_refl (conj _ (conj _ _))); [intros rc [] | intros _; rewrite ?repeat_length; lia | discriminate]). }
      pose proof (fo_init_inv servers) as F0. fold n in F0.
      revert I0 F0. generalize (fo_init n).
      induction sched as [|e r IH]; intros st0 I0 F0; cbn; [now split|].
      apply IH; [now apply lame_step | now apply fo_step_inv]. }
    destruct A as [(_ & _ & _ & P) _]. apply P.
  Qed.
End Lame.

(* the same on every state a schedule can reach *)
Theorem reachable_timer_commutes_with_result servers level sched i :
  let st := fo_run servers level sched in
  fo_done st = None -> nth_error (fo_stat st) i = Some StPending ->
  fo_step servers level (fo_step servers level st FoTimer) (FoResult i) =
  fo_step servers level (fo_step servers level st (FoResult i)) FoTimer
  \/ (exists o, fo_done (fo_step servers level st (FoResult i)) = Some o /\
                fo_done (fo_step servers level (fo_step servers level st FoTimer) (FoResult i)) = Some o).
Proof. intros st D P. apply timer_commutes_with_result; auto. apply fo_run_inv. Qed.

(* non-vacuity: four authorities — REFUSED, REFUSED, REFUSED, healthy — with the healthy one heard
   last: the lookup goes on past three equal failure rcodes and ends with the answer; with a fourth
   lame server instead, every result is consumed and the failure is published *)
Example ex_fanout_lame_majority :
  let timers := [FoTimer; FoTimer; FoTimer] in
  fo_done (fo_run [SRcode 5; SRcode 5; SRcode 5; SHealthy] 2 (timers ++ map FoResult [0; 1; 2; 3]%nat)) = Some (FOAnswer 3) /\
  fo_done (fo_run [SRcode 5; SRcode 5; SRcode 5; SSilent] 2 (timers ++ map FoResult [0; 1; 2; 3]%nat)) = Some (FOResponse 5) /\
  fo_published (FOResponse 5) = true /\
  (* without timers the next server is started by each consumed failure *)
  fo_done (fo_run [SRcode 2; SSilent; SRcode 5] 2 (map FoResult [1; 0; 2]%nat)) = Some (FOResponse 2) /\
  (* an NXDOMAIN from a TLD's server ends the lookup although a server is unheard: nothing is published *)
  fo_done (fo_run [SRcode 2; SRcode 3; SRcode 5] 1 (map FoResult [0; 1]%nat)) = Some (FOResponse 3) /\
  fo_published (FOResponse 3) = false.
Proof. vm_compute. repeat split. Qed.

(* non-vacuity of the observed-schedule run (two schedules the lab driver saw on the real
   Resolver.lookup): six servers of a third-level zone, REFUSED x4, NXDOMAIN, NOTIMP, started one
   by one by the consumed failures, the NXDOMAIN heard fifth: the lookup ends there, with the
   NXDOMAIN, nothing published, the sixth reply never needed; two lame servers of a TLD, both
   heard: the first response error is handed back and published *)
Example ex_fanout_observed :
  let sv1 := [SRcode 5; SRcode 5; SRcode 5; SRcode 5; SRcode 3; SRcode 4] in
  let sv2 := [SRcode 5; SRcode 2] in
  option_map fo_done (fo_observed sv1 3 (fo_init 6) [(2,0);(3,1);(4,3);(5,2);(6,4)]%nat) = Some (Some (FOResponse 3)) /\
  fo_observed sv1 3 (fo_init 6) [(2,0);(3,1);(4,3);(5,2);(6,4);(6,5)]%nat = None /\
  option_map fo_done (fo_observed sv2 1 (fo_init 2) [(2,1);(2,0)]%nat) = Some (Some (FOResponse 2)) /\
  fo_all_heard 2 [(2,1);(2,0)]%nat = true /\
  (* a started count the ticks cannot explain *)
  fo_observed sv2 1 (fo_init 2) [(1,0)]%nat = None.
Proof. vm_compute. repeat split. Qed.

(* non-vacuity of the completeness statement: five lame servers (three rcodes, two that never
   answer), results in an arbitrary order with ticks in between: the lookup ends with the response error
   that came first, published *)
Example ex_all_lame_published :
  let sv := [SRcode 5; SSilent; SRcode 2; SRcode 9; SSilent] in
  forallb srv_lame sv = true /\
  fo_done (fo_run sv 2 [FoResult 1; FoTimer; FoResult 3; FoResult 0; FoTimer; FoResult 2; FoTimer; FoResult 4]%nat) = Some (FOResponse 9) /\
  fo_published (FOResponse 9) = true.
Proof. vm_compute. repeat split. Qed.
