(* C13 — the authority fan-out of Resolver.lookup (Model.v, "Concurrency, part 4"): for every
   order in which results arrive and timers fire, a zone failure is published only when no
   server of the zone gave a usable response, and an answer is a usable response of a server. *)
From Sdns Require Import Common.Base Gen.C13 C13.Model C13.Proofs_Base C13.Proofs_Conc.
Open Scope Z_scope.

Section Fanout.
  Variable servers : list srv.
  Variable level : nat.
  Let n := length servers.

  Definition live (s : sstat) : bool := match s with StConsumed => false | _ => true end.
  Definition count_live (l : list sstat) : nat := length (filter live l).

  Lemma count_live_set_consumed l i s :
    nth_error l i = Some s -> live s = true -> S (count_live (set_nth l i StConsumed)) = count_live l.
  Proof.
    revert i. induction l as [|x l IH]; intros [|i] E L; cbn in *; try discriminate.
    - injection E as ->. unfold count_live. cbn. now rewrite L.
    - unfold count_live in *. cbn. destruct (live x); cbn; [f_equal|]; now apply (IH i).
  Qed.
  Lemma count_live_set_pending l j s :
    nth_error l j = Some s -> live s = true -> count_live (set_nth l j StPending) = count_live l.
  Proof.
    revert j. induction l as [|x l IH]; intros [|j] E L; cbn in *; try discriminate.
    - injection E as ->. unfold count_live. cbn. now rewrite L.
    - unfold count_live in *. cbn. destruct (live x); cbn; [f_equal|]; now apply (IH j).
  Qed.
  Lemma count_live_zero l : count_live l = O -> forall j s, nth_error l j = Some s -> s = StConsumed.
  Proof.
    induction l as [|x l IH]; intros Z [|j] s E; cbn in *; try discriminate.
    - injection E as ->. unfold count_live in Z. cbn in Z. destruct s; cbn in Z; try discriminate. reflexivity.
    - unfold count_live in Z. cbn in Z. destruct (live x); cbn in Z; [discriminate|]. now apply (IH Z j).
  Qed.

  (* while the lookup runs: the counter covers every result not yet consumed; nothing beyond the
     loop index has been started; a consumed result was no usable response, unless an NXDOMAIN is
     waiting in responseErrors (then the fallback is that NXDOMAIN).  Once it has ended: if what it
     hands back is published as a zone failure, no server of the zone gave a usable response. *)
  Definition fo_inv (st : fo_state) : Prop :=
    match fo_done st with
    | Some o => fo_published o = true -> forallb (fun s => negb (srv_usable s)) servers = true
    | None =>
        length (fo_stat st) = n /\
        (fo_index st < n)%nat /\
        (count_live (fo_stat st) <= fo_left st)%nat /\
        (forall j s, nth_error (fo_stat st) j = Some s -> s <> StUnstarted -> (j <= fo_index st)%nat) /\
        (forall j, nth_error (fo_stat st) j = Some StConsumed ->
           srv_usable (nth j servers SSilent) = false \/ In rcode_nxdomain (fo_resp st))
    end.

  Lemma pick_nxdomain resp cfg fatal :
    In rcode_nxdomain resp -> fo_published (pick_fallback resp cfg fatal) = false.
  Proof.
    intros I. unfold pick_fallback.
    assert (E : existsb (N.eqb rcode_nxdomain) resp = true) by (apply existsb_exists; exists rcode_nxdomain; split; [exact I | apply N.eqb_refl]).
    now rewrite E.
  Qed.

  Lemma all_consumed_unusable stat resp :
    length stat = n -> count_live stat = O ->
    (forall j, nth_error stat j = Some StConsumed -> srv_usable (nth j servers SSilent) = false \/ In rcode_nxdomain resp) ->
    ~ In rcode_nxdomain resp ->
    forallb (fun s => negb (srv_usable s)) servers = true.
  Proof.
    intros L Z C NX. apply forallb_forall. intros s I.
    apply In_nth_error in I as [j E].
    assert (J : (j < length stat)%nat) by (rewrite L; apply nth_error_Some; unfold n; congruence).
    destruct (nth_error stat j) as [t|] eqn:T; [|apply nth_error_None in T; lia].
    pose proof (count_live_zero _ Z j t T) as ->.
    destruct (C j T) as [U|U]; [|contradiction].
    rewrite (nth_error_nth _ _ SSilent E) in U. now rewrite U.
  Qed.

  Lemma fo_advance_inv st :
    fo_done st = None -> fo_inv st -> fo_inv (fo_advance n st).
  Proof.
    intros D I. unfold fo_inv in I. rewrite D in I. destruct I as (L & IX & C & B & U).
    unfold fo_advance.
    destruct ((0 <? fo_left st)%nat && (S (fo_index st) =? n)%nat) eqn:K.
    - unfold fo_inv. rewrite D. now repeat split.
    - destruct (S (fo_index st) =? n)%nat eqn:Last.
      + (* past the last server: every result has been consumed *)
        rewrite andb_true_r in K. apply Nat.ltb_ge in K.
        unfold fo_inv, fo_finish. cbn [fo_done]. intros P.
        destruct (in_dec N.eq_dec rcode_nxdomain (fo_resp st)) as [X|X].
        * now rewrite pick_nxdomain in P.
        * apply (all_consumed_unusable (fo_stat st) (fo_resp st)); auto. lia.
      + (* start the next server *)
        apply Nat.eqb_neq in Last.
        unfold fo_inv. cbn [fo_done fo_stat fo_left fo_index fo_resp].
        assert (Lt : (S (fo_index st) < length (fo_stat st))%nat) by lia.
        destruct (nth_error (fo_stat st) (S (fo_index st))) as [t|] eqn:T; [|apply nth_error_None in T; lia].
        assert (TU : t = StUnstarted).
        { destruct t; try reflexivity; exfalso; specialize (B _ _ T); (assert (S (fo_index st) <= fo_index st)%nat by (apply B; discriminate)); lia. }
        subst t. repeat split.
        * now rewrite set_nth_length.
        * lia.
        * rewrite (count_live_set_pending _ _ _ T eq_refl). exact C.
        * intros j s E NS. destruct (Nat.eq_dec j (S (fo_index st))) as [->|NE]; [lia|].
          rewrite nth_error_set_nth in E. destruct (Nat.eqb_spec (S (fo_index st)) j); [congruence|].
          specialize (B _ _ E NS). lia.
        * intros j E. rewrite nth_error_set_nth in E.
          destruct (Nat.eqb_spec (S (fo_index st)) j) as [->|NE].
          -- exfalso. revert E. case (j <? length (fo_stat st))%nat; discriminate.
          -- now apply U.
  Qed.

  Lemma fo_step_inv st ev : fo_inv st -> fo_inv (fo_step servers level st ev).
  Proof.
    intros I. unfold fo_step. fold n.
    destruct (fo_done st) as [o|] eqn:D; [exact I|].
    destruct ev as [|i]; [now apply fo_advance_inv|].
    destruct (nth_error (fo_stat st) i) as [[| |]|] eqn:T; try exact I.
    pose proof I as I0. unfold fo_inv in I0. rewrite D in I0. destruct I0 as (L & IX & C & B & U).
    assert (CL : S (count_live (set_nth (fo_stat st) i StConsumed)) = count_live (fo_stat st))
      by (apply (count_live_set_consumed _ _ _ T eq_refl)).
    assert (base : forall resp cfg fatal,
              (forall x, In x (fo_resp st) -> In x resp) ->
              (srv_usable (nth i servers SSilent) = false \/ In rcode_nxdomain resp) ->
              fo_inv (mk_fo (fo_index st) (set_nth (fo_stat st) i StConsumed) (pred (fo_left st)) resp cfg fatal None)).
    { intros resp cfg fatal Sub Ui. unfold fo_inv. cbn [fo_done fo_stat fo_left fo_index fo_resp]. repeat split.
      - now rewrite set_nth_length.
      - exact IX.
      - lia.
      - intros j s E NS. rewrite nth_error_set_nth in E.
        destruct (Nat.eqb_spec i j) as [->|NE].
        + apply (B _ _ T). discriminate.
        + now apply (B _ _ E).
      - intros j E. rewrite nth_error_set_nth in E.
        destruct (Nat.eqb_spec i j) as [->|NE]; [exact Ui|].
        destruct (U j E) as [X|X]; [now left | right; now apply Sub]. }
    destruct (nth i servers SSilent) as [|rc| | |] eqn:Sv.
    - unfold fo_inv, fo_finish. cbn. discriminate.
    - destruct (rc =? 0)%N eqn:R0; [unfold fo_inv, fo_finish; cbn; discriminate|].
      set (resp := fo_resp st ++ [rc]).
      assert (Sub : forall x, In x (fo_resp st) -> In x resp) by (intros x X; apply in_or_app; now left).
      assert (Ui : srv_usable (SRcode rc) = false \/ In rcode_nxdomain resp).
      { cbn. rewrite R0. destruct (rc =? rcode_nxdomain)%N eqn:R3; [|now left].
        right. apply N.eqb_eq in R3. subst rc. apply in_or_app. right. now left. }
      destruct (((2 <? length resp)%nat || (level <? 2)%nat) && (rc =? rcode_nxdomain)%N) eqn:Early.
      + apply andb_true_iff in Early as [_ R3]. apply N.eqb_eq in R3.
        unfold fo_inv, fo_finish. cbn [fo_done]. intros P. rewrite pick_nxdomain in P; [discriminate|].
        subst rc. apply in_or_app. right. now left.
      + apply fo_advance_inv; [reflexivity|]. apply base; [exact Sub | exact Ui].
    - apply fo_advance_inv; [reflexivity|]. apply base; [auto | now left].
    - apply fo_advance_inv; [reflexivity|]. apply base; [auto | now left].
    - unfold fo_inv, fo_finish. cbn. discriminate.
  Qed.

  Lemma fo_init_inv : fo_inv (fo_init n).
  Proof.
    unfold fo_inv. destruct n as [|[|m]] eqn:N; cbn.
    - discriminate.
    - repeat split; try lia.
      + intros [|j] s E NS; cbn in E; [lia | destruct j; discriminate].
      + intros [|j] E; cbn in E; [discriminate | destruct j; discriminate].
    - repeat split.
      + now rewrite repeat_length.
      + lia.
      + unfold count_live. cbn.
        assert (F : forall k, length (filter live (repeat StUnstarted k)) = k) by (induction k; cbn; congruence).
        rewrite F. lia.
      + intros [|[|j]] s E NS; cbn in E; try lia.
        exfalso. apply nth_error_In in E. apply repeat_spec in E. contradiction.
      + intros [|[|j]] E; cbn in E; try discriminate.
        exfalso. apply nth_error_In in E. apply repeat_spec in E. discriminate.
  Qed.

  Lemma fo_run_inv sched : fo_inv (fo_run servers level sched).
  Proof.
    unfold fo_run. fold n. generalize fo_init_inv. generalize (fo_init n).
    induction sched as [|e r IH]; intros st0 I0; cbn; [exact I0|]. apply IH. now apply fo_step_inv.
  Qed.

  Theorem fanout_publishes_only_when_every_server_failed sched o :
    fo_done (fo_run servers level sched) = Some o -> fo_published o = true ->
    forallb (fun s => negb (srv_usable s)) servers = true.
  Proof.
    intros D P. pose proof (fo_run_inv sched) as I. unfold fo_inv in I. rewrite D in I. now apply I.
  Qed.

  (* an answer is the response of a server that gave a usable one *)
  Definition ans_inv (st : fo_state) : Prop :=
    forall i, fo_done st = Some (FOAnswer i) -> nth i servers SSilent = SHealthy \/ nth i servers SSilent = SRcode 0.
  Lemma pick_no_answer resp cfg fatal i : pick_fallback resp cfg fatal <> FOAnswer i.
  Proof.
    unfold pick_fallback. destruct (existsb _ _); [discriminate|].
    destruct resp; [|discriminate]. destruct (0 <? cfg)%nat; [discriminate|]. destruct (0 <? fatal)%nat; discriminate.
  Qed.
  Lemma advance_no_answer s i : fo_done s = None -> fo_done (fo_advance n s) <> Some (FOAnswer i).
  Proof.
    intros Y X. unfold fo_advance in X.
    destruct ((0 <? fo_left s)%nat && (S (fo_index s) =? n)%nat); [congruence|].
    destruct (S (fo_index s) =? n)%nat; cbn in X; [|discriminate].
    injection X as X. now apply pick_no_answer in X.
  Qed.
  Lemma ans_step st ev : ans_inv st -> ans_inv (fo_step servers level st ev).
  Proof.
    intros I i D. unfold fo_step in D. fold n in D.
    destruct (fo_done st) as [o|] eqn:Dst; [apply I; congruence|].
    destruct ev as [|k]; [exfalso; now apply (advance_no_answer st i)|].
    destruct (nth_error (fo_stat st) k) as [[| |]|]; try congruence.
    destruct (nth k servers SSilent) as [|rc| | |] eqn:Sv; cbv beta iota zeta in D.
    - unfold fo_finish in D. cbn [fo_done] in D. assert (EQ : k = i) by congruence. subst i. left. exact Sv.
    - destruct (rc =? 0)%N eqn:R0.
      + unfold fo_finish in D. cbn [fo_done] in D. assert (EQ : k = i) by congruence. subst i.
        right. apply N.eqb_eq in R0. now subst rc.
      + destruct (((2 <? length (fo_resp st ++ [rc]))%nat || (level <? 2)%nat) && (rc =? rcode_nxdomain)%N).
        * unfold fo_finish in D. cbn [fo_done fo_cfg fo_fatal] in D. exfalso. injection D as D. now apply pick_no_answer in D.
        * exfalso. eapply advance_no_answer; [|exact D]. reflexivity.
    - exfalso. eapply advance_no_answer; [|exact D]. reflexivity.
    - exfalso. eapply advance_no_answer; [|exact D]. reflexivity.
    - unfold fo_finish in D. cbn [fo_done] in D. discriminate.
  Qed.
  Theorem fanout_answer_is_a_usable_response sched i :
    fo_done (fo_run servers level sched) = Some (FOAnswer i) ->
    nth i servers SSilent = SHealthy \/ nth i servers SSilent = SRcode 0.
  Proof.
    assert (A : ans_inv (fo_run servers level sched)).
    { unfold fo_run. fold n.
      assert (A0 : ans_inv (fo_init n)) by (intros j D; destruct n as [|[|m]]; cbn in D; discriminate).
      revert A0. generalize (fo_init n).
      induction sched as [|e r IH]; intros st0 A0; cbn; [exact A0|]. apply IH. now apply ans_step. }
    apply A.
  Qed.
End Fanout.

(* non-vacuity: four authorities — REFUSED, REFUSED, REFUSED, healthy — with the healthy one heard
   last: the lookup goes on past three equal failure rcodes and ends with the answer; with a fourth
   lame server instead, every result is consumed and the failure is published *)
Example ex_fanout_lame_majority :
  let timers := [FoTimer; FoTimer; FoTimer] in
  fo_done (fo_run [SRcode 5; SRcode 5; SRcode 5; SHealthy] 2 (timers ++ map FoResult [0; 1; 2; 3]%nat)) = Some (FOAnswer 3) /\
  fo_done (fo_run [SRcode 5; SRcode 5; SRcode 5; SSilent] 2 (timers ++ map FoResult [0; 1; 2; 3]%nat)) = Some (FOResponse 5) /\
  fo_published (FOResponse 5) = true /\
  (* without timers the next server is started by each consumed failure *)
  fo_done (fo_run [SRcode 2; SSilent; SRcode 5] 2 (map FoResult [1; 0; 2]%nat)) = Some (FOResponse 2) /\
  (* an NXDOMAIN from a TLD's server ends the lookup although a server is unheard: nothing is published *)
  fo_done (fo_run [SRcode 2; SRcode 3; SRcode 5] 1 (map FoResult [0; 1]%nat)) = Some (FOResponse 3) /\
  fo_published (FOResponse 3) = false.
Proof. vm_compute. repeat split. Qed.
