(* C13 — concurrency: (1) the CompareAndSwap loop of FailureCache.record
   advances an expired streak exactly once under every interleaving of any
   number of concurrent recorders; (2) the waitgroup election used by
   Cache.ServeDNS keeps at most one failure probe in flight under every
   interleaving of arrivals, leader completions and follower wake-ups. *)
From Sdns Require Import Common.Base Gen.C13 C13.Model C13.Proofs_Base C13.Proofs_Backoff.
Open Scope Z_scope.

Lemma set_nth_Forall {A} (P : A -> Prop) l i x : Forall P l -> P x -> Forall P (set_nth l i x).
Proof.
  revert i; induction l as [|y r IH]; intros i F Px; cbn; [constructor|].
  inversion F; subst. destruct i; constructor; auto.
Qed.
Lemma set_nth_length {A} (l : list A) i x : length (set_nth l i x) = length l.
Proof. revert i; induction l as [|y r IH]; intros [|i]; cbn; auto. Qed.
Lemma nth_error_Forall {A} (P : A -> Prop) l i x : Forall P l -> nth_error l i = Some x -> P x.
Proof. intros F E. rewrite Forall_forall in F. apply F. eapply nth_error_In; eauto. Qed.

(* ------------------------------------------------------------------ CAS *)
Section CAS.
  Variable c : cfg.
  Hypothesis V : cfg_valid c.
  Variable key : ekey.
  Variable prov : N.
  Variable id0 : N.
  Variable cur0 : entry.
  Variable nows : list Z.
  Hypothesis SameKey : same_key (e_key cur0) key = true.
  (* every recorder arrives after the backoff has ended ... *)
  Hypothesis Expired : forall t, In t nows -> e_retry cur0 <= t.
  (* ... and they are concurrent: their clock readings lie within one initial interval *)
  Hypothesis Window : forall a b, In a nows -> In b nows -> a < b + c_init c.

  Definition cas_init (next : N) : cas_state := mk_cas (Some (id0, cur0)) next 0 (map RcStart nows).

  Definition thread_A (r : recorder) : Prop :=
    match r with
    | RcStart t => In t nows
    | RcLoaded t snap => In t nows /\ snap = Some (id0, cur0)
    | RcDone _ => False
    end.
  Definition thread_B (id1 : N) (nx : entry) (r : recorder) : Prop :=
    match r with
    | RcStart t => In t nows
    | RcLoaded t snap => In t nows /\ (snap = Some (id0, cur0) \/ snap = Some (id1, nx))
    | RcDone e => e = nx
    end.
  Definition cas_inv (st : cas_state) : Prop :=
    (cs_slot st = Some (id0, cur0) /\ cs_writes st = 0%N /\ (id0 < cs_next st)%N /\ Forall thread_A (cs_threads st)) \/
    (exists id1 w, In w nows /\ id1 <> id0 /\ cs_slot st = Some (id1, renew c cur0 prov w) /\
                   cs_writes st = 1%N /\ Forall (thread_B id1 (renew c cur0 prov w)) (cs_threads st)).

  Lemma renew_active w t : In w nows -> In t nows -> t < e_retry (renew c cur0 prov w).
  Proof.
    intros Iw It. unfold renew; cbn.
    match goal with |- _ < w + backoff c ?s => pose proof (backoff_range c V s) end.
    pose proof (Window t w It Iw). lia.
  Qed.
  Lemma renew_key w : e_key (renew c cur0 prov w) = e_key cur0.
  Proof. reflexivity. Qed.

  Lemma thread_A_B id1 nx r : thread_A r -> thread_B id1 nx r.
  Proof. destruct r; cbn; tauto. Qed.

  Lemma cas_inv_step st i : cas_inv st -> cas_inv (cas_step c key prov st i).
  Proof.
    intros [[S [W [Nx F]]] | [id1 [w [Iw [Ne [S [W F]]]]]]]; unfold cas_step.
    - (* nobody has published yet *)
      destruct (nth_error (cs_threads st) i) as [r|] eqn:E; [|left; auto].
      pose proof (nth_error_Forall _ _ _ _ F E) as Tr.
      destruct r as [t|t snap|e]; cbn in Tr; [| |destruct Tr].
      + left. cbn. repeat split; auto. apply set_nth_Forall; auto. cbn. rewrite S. auto.
      + destruct Tr as [It ->]. rewrite SameKey. cbn [negb].
        destruct (t <? e_retry cur0) eqn:A; [pose proof (Expired t It); lia|].
        rewrite S, N.eqb_refl.
        right. exists (cs_next st), t. cbn. repeat split; auto; [lia | now rewrite W |].
        apply set_nth_Forall; [|reflexivity].
        eapply Forall_impl; [|exact F]. intros r. apply thread_A_B.
    - (* one renewal is published: nobody writes again *)
      set (nx := renew c cur0 prov w) in *.
      destruct (nth_error (cs_threads st) i) as [r|] eqn:E; [|right; exists id1, w; auto].
      pose proof (nth_error_Forall _ _ _ _ F E) as Tr.
      destruct r as [t|t snap|e]; cbn in Tr.
      + right. exists id1, w. cbn. repeat split; auto. apply set_nth_Forall; auto. cbn. rewrite S. auto.
      + destruct Tr as [It [-> | ->]].
        * rewrite SameKey. cbn [negb].
          destruct (t <? e_retry cur0) eqn:A; [pose proof (Expired t It); lia|].
          rewrite S. destruct (id1 =? id0)%N eqn:Q; [apply N.eqb_eq in Q; contradiction|].
          right. exists id1, w. cbn. repeat split; auto. apply set_nth_Forall; auto.
        * change (e_key nx) with (e_key cur0). rewrite SameKey. cbn [negb].
          pose proof (renew_active w t Iw It) as A. fold nx in A.
          destruct (t <? e_retry nx) eqn:A'; [|lia].
          right. exists id1, w. cbn. repeat split; auto. apply set_nth_Forall; auto. reflexivity.
      + right. exists id1, w. auto.
  Qed.

  Lemma cas_inv_init next : (id0 < next)%N -> cas_inv (cas_init next).
  Proof.
    intro L. left. cbn. repeat split; auto.
    apply Forall_forall. intros r I. apply in_map_iff in I as [t [<- It]]. exact It.
  Qed.
  Lemma cas_inv_run next sched : (id0 < next)%N -> cas_inv (cas_run c key prov (cas_init next) sched).
  Proof.
    intro L. unfold cas_run.
    assert (G : forall st, cas_inv st -> cas_inv (fold_left (cas_step c key prov) sched st)).
    { induction sched as [|i r IH]; intros st I; cbn; [exact I|]. apply IH. now apply cas_inv_step. }
    apply G. now apply cas_inv_init.
  Qed.
  Lemma cas_threads_length st i : length (cs_threads (cas_step c key prov st i)) = length (cs_threads st).
  Proof.
    unfold cas_step. destruct (nth_error (cs_threads st) i) as [[t|t [[stamp cur]|]|e]|]; cbn; auto using set_nth_length.
    - destruct (negb (same_key (e_key cur) key)); cbn; auto using set_nth_length.
      destruct (t <? e_retry cur); cbn; auto using set_nth_length.
      destruct (cs_slot st) as [[s' ?]|]; cbn; auto using set_nth_length.
      destruct (s' =? stamp)%N; cbn; auto using set_nth_length.
  Qed.

  Lemma cas_run_length sched s0 : length (cs_threads (fold_left (cas_step c key prov) sched s0)) = length (cs_threads s0).
  Proof. revert s0; induction sched as [|i r IH]; intros s0; cbn; [reflexivity|]. rewrite IH. apply cas_threads_length. Qed.

  (* Under EVERY schedule: at most one store ever happens; and once every
     recorder has returned, exactly one has happened, the slot holds the
     renewal of the expired entry by one of the recorders (streak advanced
     once, saturating; or restarted if that recorder came max after the end),
     and every recorder returned that same entry. *)
  Theorem cas_streak_advances_once next sched :
    (id0 < next)%N ->
    let st := cas_run c key prov (cas_init next) sched in
    (cs_writes st <= 1)%N /\
    (nows <> [] -> forallb rc_done (cs_threads st) = true ->
     exists w id1, In w nows /\ cs_writes st = 1%N /\ cs_slot st = Some (id1, renew c cur0 prov w) /\
                   Forall (fun r => r = RcDone (renew c cur0 prov w)) (cs_threads st)).
  Proof.
    intros L st. pose proof (cas_inv_run next sched L) as I. fold st in I.
    assert (Len : length (cs_threads st) = length nows).
    { unfold st, cas_run. rewrite cas_run_length. cbn. apply map_length. }
    destruct I as [[S [W [Nx F]]] | [id1 [w [Iw [Ne [S [W F]]]]]]].
    - split; [lia|]. intros NE D. exfalso.
      destruct (cs_threads st) as [|r rs] eqn:T; [destruct nows; [contradiction | discriminate]|].
      cbn in D. apply andb_true_iff in D as [D _]. inversion F; subst.
      destruct r; cbn in *; try discriminate. assumption.
    - split; [lia|]. intros NE D. exists w, id1. repeat split; auto.
      rewrite forallb_forall in D. rewrite Forall_forall in *. intros r Ir.
      specialize (D r Ir). specialize (F r Ir). destruct r; cbn in *; try discriminate. now subst.
  Qed.
End CAS.

(* the published renewal: streak +1 (saturating) unless idle for max *)
Lemma renew_streak c cur prov w :
  e_streak (renew c cur prov w) =
    (if w - e_retry cur >=? c_max c then 1
     else if (e_streak cur <? 4294967295) then e_streak cur + 1 else e_streak cur)%N.
Proof. reflexivity. Qed.

(* hypotheses are satisfiable: three recorders 1 ms apart after a 5 s backoff ended *)
Example cas_example :
  let c := mk_cfg default_initial_ttl default_max_ttl in
  let k := EZ (mk_zkey [[101;120]]%N 1) in
  let cur := mk_entry k 2%N 3%N 5000000000 in
  let st := cas_run c k 2%N (mk_cas (Some (7%N, cur)) 8 0 (map RcStart [5000000000; 5001000000; 5002000000]))
                    [0; 1; 2; 2; 1; 0; 1; 1; 0; 0]%nat in
  (cs_writes st, forallb rc_done (cs_threads st), option_map (fun p => e_streak (snd p)) (cs_slot st)) = (1%N, true, Some 4%N).
Proof. vm_compute. reflexivity. Qed.

(* without the window a second advance is legitimate: the late recorder's clock
   is past the winner's new retry-after *)
Lemma window_needed_witness :
  let c := mk_cfg default_initial_ttl default_max_ttl in
  let k := EZ (mk_zkey [[101;120]]%N 1) in
  let cur := mk_entry k 2%N 1%N 5000000000 in
  cs_writes (cas_run c k 2%N (cas_init 7 cur [5000000000; 16000000000] 8) [0; 0; 1; 1]%nat) = 2%N.
Proof. vm_compute. reflexivity. Qed.

(* -------------------------------------------------------- probe election *)
Lemma nth_error_set_nth {A} (l : list A) i j x :
  nth_error (set_nth l i x) j = if (i =? j)%nat then (if (i <? length l)%nat then Some x else None) else nth_error l j.
Proof.
  revert i j; induction l as [|y r IH]; intros i j.
  - cbn. destruct (i =? j)%nat; destruct j; reflexivity.
  - destruct i as [|i], j as [|j]; cbn; auto. rewrite IH. destruct (i =? j)%nat; auto.
Qed.
Lemma nth_set_nth_other {A} (l : list A) i j x d : i <> j -> nth j (set_nth l i x) d = nth j l d.
Proof. revert i j; induction l as [|y r IH]; intros [|i] [|j] Ne; cbn; auto; try contradiction. Qed.
Lemma nth_set_nth_same {A} (l : list A) i x d : (i < length l)%nat -> nth i (set_nth l i x) d = x.
Proof. revert i; induction l as [|y r IH]; intros [|i] L; cbn in *; try lia; auto. apply IH; lia. Qed.

Definition is_leader (q : preq) : bool := match q with PLeader _ => true | _ => false end.
Lemma in_flight_le_1 reqs :
  (forall i j g g', nth_error reqs i = Some (PLeader g) -> nth_error reqs j = Some (PLeader g') -> i = j) ->
  (length (filter is_leader reqs) <= 1)%nat.
Proof.
  induction reqs as [|q rs IH]; intro U; cbn; [lia|].
  assert (U' : forall i j g g', nth_error rs i = Some (PLeader g) -> nth_error rs j = Some (PLeader g') -> i = j).
  { intros i j g g' A B. specialize (U (S i) (S j) g g' A B). lia. }
  specialize (IH U').
  destruct q as [ |g| | | | | ]; cbn; auto.
  (* the head is a leader: the tail has none *)
  assert (filter is_leader rs = []).
  { destruct (filter is_leader rs) as [|q' ?] eqn:Fl; auto. exfalso.
    assert (Iq : In q' (filter is_leader rs)) by (rewrite Fl; now left).
    apply filter_In in Iq as [Iq Lq]. destruct q'; try discriminate.
    apply In_nth_error in Iq as [j Ej]. specialize (U O (S j) g gen eq_refl Ej). discriminate. }
  rewrite H. cbn. lia.
Qed.

Definition probe_inv (st : pstate) : Prop :=
  (forall i g, nth_error (ps_reqs st) i = Some (PLeader g) ->
     ps_group st = Some g /\ g_done (gen_of st g) = false /\ (N.to_nat g < length (ps_gens st))%nat) /\
  (forall i j g g', nth_error (ps_reqs st) i = Some (PLeader g) -> nth_error (ps_reqs st) j = Some (PLeader g') -> i = j).

Lemma probe_inv_init n : probe_inv (probe_init n).
Proof.
  assert (forall i g, nth_error (repeat PStart n) i <> Some (PLeader g)).
  { intros i g E. apply nth_error_In in E. apply repeat_spec in E. discriminate. }
  split; cbn; intros; exfalso; eapply H; eauto.
Qed.

Ltac leaders_unchanged E I1 I2 :=
  unfold probe_inv; cbn [ps_reqs ps_group ps_gens ps_fs ps_elected]; split;
  [ intros ? ?; rewrite nth_error_set_nth; destruct (_ =? _)%nat;
    [ destruct (_ <? _)%nat; discriminate | apply I1 ]
  | intros ? ? ? ?; rewrite !nth_error_set_nth;
    repeat match goal with |- context [(?a =? ?b)%nat] => destruct (a =? b)%nat end;
    try (destruct (_ <? _)%nat; discriminate); apply I2 ].

Theorem probe_inv_step st a : probe_inv st -> probe_inv (probe_step st a).
Proof.
  intros [I1 I2].
  assert (Inv0 : probe_inv st) by (split; assumption).
  assert (NoLeader : ps_group st = None -> forall i g, nth_error (ps_reqs st) i <> Some (PLeader g)).
  { intros Gn i g E. destruct (I1 i g E) as [G _]. rewrite Gn in G. discriminate. }
  destruct a as [r|r o|r|tg]; unfold probe_step.
  - destruct (nth_error (ps_reqs st) r) as [q|] eqn:E; [|exact Inv0].
    destruct q; try exact Inv0.
    destruct (ps_fs st); try (cbn; leaders_unchanged E I1 I2).
    destruct (ps_group st) as [g0|] eqn:Gr.
    + cbn. leaders_unchanged E I1 I2.
    + (* election on arrival: nobody is in flight *)
      assert (Lr : (r <? length (ps_reqs st))%nat = true).
      { apply Nat.ltb_lt. apply nth_error_Some. now rewrite E. }
      split; cbn.
      * intros i g. rewrite nth_error_set_nth, Lr. destruct (r =? i)%nat eqn:Q.
        -- intros [= <-]. unfold gen_of, new_gen_id; cbn. rewrite Nat2N.id.
           rewrite app_nth2, Nat.sub_diag by lia. cbn. rewrite app_length. cbn. repeat split; auto. lia.
        -- intro A. exfalso. eapply NoLeader; eauto.
      * intros i j g g'. rewrite !nth_error_set_nth, Lr.
        destruct (r =? i)%nat eqn:Q1; destruct (r =? j)%nat eqn:Q2; intros A B.
        -- apply Nat.eqb_eq in Q1, Q2. lia.
        -- exfalso. eapply NoLeader; eauto.
        -- exfalso. eapply NoLeader; eauto.
        -- exfalso. eapply NoLeader; eauto.
  - destruct (nth_error (ps_reqs st) r) as [q|] eqn:E; [|exact Inv0].
    destruct q as [ |g| | | | | ]; try exact Inv0.
    (* the only leader leaves: afterwards there is none *)
    assert (Lr : (r <? length (ps_reqs st))%nat = true).
    { apply Nat.ltb_lt. apply nth_error_Some. now rewrite E. }
    assert (None' : forall i g', nth_error (set_nth (ps_reqs st) r PFinished) i <> Some (PLeader g')).
    { intros i g'. rewrite nth_error_set_nth, Lr. destruct (r =? i)%nat eqn:Q; [discriminate|].
      intro A. specialize (I2 r i g g' E A). apply Nat.eqb_neq in Q. contradiction. }
    split; cbn; intros; exfalso; eapply None'; eauto.
  - destruct (nth_error (ps_reqs st) r) as [q|] eqn:E; [|exact Inv0].
    destruct q as [ | |g regs| | | | ]; try exact Inv0.
    destruct (g_timed (gen_of st g)) eqn:Tm.
    { (* a timed-out generation: its followers are served or shed, nobody is elected *)
      rewrite orb_true_r. cbn [negb]. destruct (ps_fs st); cbn; leaders_unchanged E I1 I2. }
    rewrite orb_false_r.
    destruct (g_done (gen_of st g)) eqn:Dn; cbn [negb]; [|exact Inv0].
    destruct (ps_fs st); try (cbn; leaders_unchanged E I1 I2).
    destruct (regs >=? max_probe_regroups); [cbn; leaders_unchanged E I1 I2|].
    destruct (g_next (gen_of st g)) as [nx|]; [cbn; leaders_unchanged E I1 I2|].
    destruct (ps_group st) as [cur|] eqn:Gr.
    + destruct (cur =? g)%N eqn:Qc; [exact Inv0|].
      (* link previous -> current, follow it; the table changes only at the done generation g *)
      split; cbn.
      * intros i0 g'. rewrite nth_error_set_nth. destruct (r =? i0)%nat eqn:Q; [destruct (_ <? _)%nat; discriminate|].
        intro A. destruct (I1 i0 g' A) as [G [Nd Ln]]. repeat split; auto.
        -- unfold gen_of in *; cbn. rewrite nth_set_nth_other; auto.
           intro Eq. apply N2Nat.inj in Eq. subst. unfold gen_of in Dn. rewrite Dn in Nd. discriminate.
        -- now rewrite set_nth_length.
      * intros i0 j0 g1 g2. rewrite !nth_error_set_nth. destruct (r =? i0)%nat eqn:Q1; destruct (r =? j0)%nat eqn:Q2;
          try (destruct (_ <? _)%nat; discriminate). intros A B. exact (I2 i0 j0 g1 g2 A B).
    + (* Regroup elects: nobody is in flight *)
      assert (Lr : (r <? length (ps_reqs st))%nat = true).
      { apply Nat.ltb_lt. apply nth_error_Some. now rewrite E. }
      split; cbn.
      * intros i g'. rewrite nth_error_set_nth, Lr. destruct (r =? i)%nat eqn:Q.
        -- intros [= <-]. unfold gen_of, new_gen_id; cbn. rewrite Nat2N.id.
           rewrite app_nth2; rewrite set_nth_length; [|lia]. rewrite Nat.sub_diag. cbn.
           rewrite app_length, set_nth_length. cbn. repeat split; auto. lia.
        -- intro A. exfalso. eapply (NoLeader eq_refl); eauto.
      * intros i j g1 g2. rewrite !nth_error_set_nth, Lr.
        destruct (r =? i)%nat eqn:Q1; destruct (r =? j)%nat eqn:Q2; intros A B.
        -- apply Nat.eqb_eq in Q1, Q2. lia.
        -- exfalso. eapply (NoLeader eq_refl); eauto.
        -- exfalso. eapply (NoLeader eq_refl); eauto.
        -- exfalso. eapply (NoLeader eq_refl); eauto.
  - (* the deadline of a generation passes: requests and the group table are untouched,
       the generation stays not-done, so its leader is still the one in flight *)
    destruct ((N.to_nat tg <? length (ps_gens st))%nat && negb (g_done (gen_of st tg))) eqn:C; [|exact Inv0].
    apply andb_true_iff in C as [C1 C2]. apply Nat.ltb_lt in C1.
    split; cbn; [|exact I2].
    intros i g A. destruct (I1 i g A) as [G [Nd Ln]]. repeat split; auto.
    + unfold gen_of in *; cbn. destruct (Nat.eq_dec (N.to_nat tg) (N.to_nat g)) as [Eq|Ne].
      * rewrite <- Eq. rewrite nth_set_nth_same by exact C1. reflexivity.
      * rewrite nth_set_nth_other by exact Ne. exact Nd.
    + now rewrite set_nth_length.
Qed.

(* The first retry after a backoff is led by a single probe: for any number of
   requests sharing the retry key and EVERY interleaving of arrivals, leader
   completions (whatever their outcome) and follower wake-ups / regroups, at
   most one of them is in flight at any time. *)
Theorem single_probe_in_flight n sched : (in_flight (probe_run (probe_init n) sched) <= 1)%nat.
Proof.
  assert (G : forall st, probe_inv st -> probe_inv (probe_run st sched)).
  { unfold probe_run. induction sched as [|a r IH]; intros st I; cbn; [exact I|]. apply IH. now apply probe_inv_step. }
  destruct (G _ (probe_inv_init n)) as [_ I2]. unfold in_flight. now apply in_flight_le_1.
Qed.

(* every request that is shed or made to wait never reaches the downstream:
   a probe is sent only by an elected leader, so probes sent = leaders elected,
   and they are sent one after the other *)
Example probe_example :
  (* five requests; the first leader fails request-locally, one follower is re-elected, the others are shed *)
  let st := probe_run (probe_init 5)
              [AArrive 0; AArrive 1; AArrive 2; AArrive 3; AFinish 0 ONothing; AWake 2; AWake 1; AArrive 4;
               AWake 3; AFinish 2 OCovering; AWake 1; AWake 3; AWake 4]%nat in
  (ps_reqs st, ps_elected st, in_flight st) = ([PFinished; PServed; PFinished; PServed; PServed], 2, 0%nat).
Proof. vm_compute. reflexivity. Qed.

Lemma probe_inv_run n sched : probe_inv (probe_run (probe_init n) sched).
Proof.
  assert (G : forall st, probe_inv st -> probe_inv (probe_run st sched)).
  { unfold probe_run. induction sched as [|a r IH]; intros st I; cbn; [exact I|]. apply IH. now apply probe_inv_step. }
  apply G, probe_inv_init.
Qed.

(* ---- the waitgroup's generation timeout (15 s in production): an abandoned leader *)
(* a timeout touches neither the requests nor the group table nor the probe count *)
Lemma timeout_changes_no_request st g :
  ps_reqs (probe_step st (ATimeout g)) = ps_reqs st /\ ps_group (probe_step st (ATimeout g)) = ps_group st /\
  ps_elected (probe_step st (ATimeout g)) = ps_elected st /\ ps_fs (probe_step st (ATimeout g)) = ps_fs st.
Proof. unfold probe_step. destruct (_ && _); cbn; auto. Qed.

(* a follower of a timed-out generation that wakes up is served from the failure
   cache or shed: it is never elected, never regrouped, never sent downstream *)
Lemma timed_follower_is_terminal st r g regs :
  nth_error (ps_reqs st) r = Some (PFollower g regs) -> g_timed (gen_of st g) = true ->
  let st' := probe_step st (AWake r) in
  (nth_error (ps_reqs st') r = Some PServed \/ nth_error (ps_reqs st') r = Some PShed) /\
  ps_elected st' = ps_elected st /\ ps_group st' = ps_group st /\ ps_gens st' = ps_gens st.
Proof.
  intros E T. cbn zeta. unfold probe_step. rewrite E, T, orb_true_r. cbn [negb].
  assert (Lr : (r <? length (ps_reqs st))%nat = true) by (apply Nat.ltb_lt; apply nth_error_Some; now rewrite E).
  cbn. rewrite nth_error_set_nth, Nat.eqb_refl, Lr. destruct (ps_fs st); auto.
Qed.

(* a new probe is elected only when nobody is in flight — in particular never
   while an abandoned (timed-out) leader is still registered *)
Lemma election_only_when_idle st a : probe_inv st ->
  ps_elected (probe_step st a) <> ps_elected st -> in_flight st = O.
Proof.
  intros [I1 I2] Hne.
  assert (NoL : ps_group st = None -> in_flight st = O).
  { intro Gn. unfold in_flight. destruct (filter _ (ps_reqs st)) as [|q t] eqn:Fl; [reflexivity|exfalso].
    assert (Iq : In q (filter (fun q => match q with PLeader _ => true | _ => false end) (ps_reqs st))) by (rewrite Fl; now left).
    apply filter_In in Iq as [Iq Lq]. destruct q; try discriminate.
    apply In_nth_error in Iq as [j Ej]. destruct (I1 j gen Ej) as [G _]. congruence. }
  destruct (ps_group st) as [g0|] eqn:Gr; [exfalso|now apply NoL].
  apply Hne. unfold probe_step. destruct a as [r|r o|r|tg].
  - destruct (nth_error (ps_reqs st) r) as [[]|]; try reflexivity. destruct (ps_fs st); try reflexivity. rewrite Gr. reflexivity.
  - destruct (nth_error (ps_reqs st) r) as [[]|]; reflexivity.
  - destruct (nth_error (ps_reqs st) r) as [[]|]; try reflexivity.
    destruct (negb _); [reflexivity|]. destruct (g_timed _); [reflexivity|].
    destruct (ps_fs st); try reflexivity. destruct (_ >=? _); [reflexivity|].
    destruct (g_next _); [reflexivity|]. rewrite Gr. destruct (_ =? _)%N; reflexivity.
  - destruct (_ && _); reflexivity.
Qed.

Example probe_timeout_example :
  (* five requests; the leader is abandoned (its generation times out); the followers are
     shed, so is a late arrival; when the leader finally re-records the failure the next
     request is served from the cache — one probe in all *)
  let st := probe_run (probe_init 6)
              [AArrive 0; AArrive 1; AArrive 2; ATimeout 0; AWake 1; AWake 2; AArrive 3; AWake 3;
               AFinish 0 OCovering; AArrive 4; AArrive 5]%nat in
  (ps_reqs st, ps_elected st, in_flight st) = ([PFinished; PShed; PShed; PShed; PServed; PServed], 1, 0%nat).
Proof. vm_compute. reflexivity. Qed.
