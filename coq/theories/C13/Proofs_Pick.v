(* C13 — pickFallbackResponse's NXDOMAIN scan (resolver.go) tied to the translator's output:
   Gen.C13.go_pickFallbackResponse_loop2 is the `for _, resp := range responseErrors` loop that
   prefers a name error over every other collected response.  The model's [pick_fallback] makes
   that choice with [existsb (N.eqb rcode_nxdomain)]; here: the loop hands back the FIRST collected
   message whose rcode is 3, with a nil error, and falls through exactly when there is none. *)
From Sdns Require Import Common.Base Common.GoList Gen.C13 C13.Model.
Open Scope Z_scope.

(* the rcode of a collected response (dns.Msg embeds MsgHdr: resp.Rcode is a promoted field) *)
Definition msg_rcode (m : T_Msg) : Z := T_MsgHdr_Rcode (T_Msg_MsgHdr m).
Definition msg_is_nx (m : T_Msg) : bool := (msg_rcode m =? 3).
Definition msg_rcode_N (m : T_Msg) : N := Z.to_N (msg_rcode m).

Lemma go_idx_mid_pick {A} (d : A) pre x post : go_idx d (pre ++ x :: post) (Z.of_nat (length pre)) = x.
Proof. rewrite go_idx_nth by lia. rewrite Nat2Z.id. apply nth_middle. Qed.

Lemma gen_pick_scan_loop : forall suf pre fuel v,
  (length suf < fuel)%nat ->
  go_pickFallbackResponse_loop2 (pre ++ suf) fuel (Z.of_nat (length pre)) v =
  (match find msg_is_nx suf with Some m => GoRet (m, false) | None => GoNext end, v).
Proof.
  induction suf as [|m suf IH]; intros pre fuel v F; destruct fuel as [|fuel]; try (cbn in F; lia).
  - cbn [go_pickFallbackResponse_loop2 find]. rewrite app_nil_r.
    assert (E : Z.of_nat (length pre) <? go_len pre = false) by (apply Z.ltb_ge; unfold go_len; lia).
    now rewrite E.
  - cbn [go_pickFallbackResponse_loop2 find].
    assert (E : Z.of_nat (length pre) <? go_len (pre ++ m :: suf) = true)
      by (apply Z.ltb_lt; unfold go_len; rewrite app_length; cbn [length]; lia).
    rewrite E, go_idx_mid_pick. unfold msg_is_nx, msg_rcode.
    destruct (T_MsgHdr_Rcode (T_Msg_MsgHdr m) =? 3) eqn:R; [reflexivity|].
    replace (pre ++ m :: suf) with ((pre ++ [m]) ++ suf) by (now rewrite <- app_assoc).
    replace (Z.of_nat (length pre) + 1) with (Z.of_nat (length (pre ++ [m]))) by (rewrite app_length; cbn [length]; lia).
    apply IH. cbn [length] in F. lia.
Qed.

(* the whole loop, on the budget the translator gives a range loop *)
Lemma gen_pick_nxdomain_scan msgs :
  go_pickFallbackResponse_loop2_run msgs =
  (match find msg_is_nx msgs with Some m => GoRet (m, false) | None => GoNext end, msgs).
Proof. unfold go_pickFallbackResponse_loop2_run. apply (gen_pick_scan_loop msgs [] (S (length msgs)) msgs). lia. Qed.

(* the model's first test in pick_fallback is that scan *)
Lemma model_scan_is_find msgs :
  Forall (fun m => 0 <= msg_rcode m) msgs ->
  existsb (N.eqb rcode_nxdomain) (map msg_rcode_N msgs) =
  match find msg_is_nx msgs with Some _ => true | None => false end.
Proof.
  induction 1 as [|m l P _ IH]; [reflexivity|]. cbn [map existsb find]. unfold msg_is_nx at 1, msg_rcode_N at 1.
  destruct (msg_rcode m =? 3) eqn:R.
  - apply Z.eqb_eq in R. rewrite R. reflexivity.
  - rewrite <- IH. assert (X : (rcode_nxdomain =? Z.to_N (msg_rcode m))%N = false).
    { apply N.eqb_neq. apply Z.eqb_neq in R. unfold rcode_nxdomain. lia. }
    now rewrite X.
Qed.

(* rcodes on the wire are 0..4095: non-negative *)
Theorem pick_scan_is_model msgs cfg fatal :
  Forall (fun m => 0 <= msg_rcode m) msgs ->
  match fst (go_pickFallbackResponse_loop2_run msgs) with
  | GoRet (m, err) =>
      err = false /\ msg_rcode m = 3 /\ In m msgs /\
      pick_fallback (map msg_rcode_N msgs) cfg fatal = FOResponse rcode_nxdomain
  | GoNext =>
      ~ In rcode_nxdomain (map msg_rcode_N msgs) /\
      pick_fallback (map msg_rcode_N msgs) cfg fatal =
        match map msg_rcode_N msgs with
        | rc :: _ => FOResponse rc
        | [] => if (0 <? cfg)%nat then FOConfig else if (0 <? fatal)%nat then FOConnFailed else FONoServers
        end
  | GoOof => False
  end.
Proof.
  intros P. rewrite gen_pick_nxdomain_scan. cbn [fst].
  pose proof (model_scan_is_find msgs P) as M. unfold pick_fallback.
  destruct (find msg_is_nx msgs) as [m|] eqn:F.
  - rewrite M. apply find_some in F as [I R]. unfold msg_is_nx in R. apply Z.eqb_eq in R. now repeat split.
  - rewrite M. split; [|reflexivity].
    intros I. apply in_map_iff in I as (m & E & I).
    pose proof (find_none _ _ F m I) as X. unfold msg_is_nx in X. apply Z.eqb_neq in X.
    rewrite Forall_forall in P. specialize (P m I). cbn in P.
    unfold msg_rcode_N, rcode_nxdomain in E. lia.
Qed.

(* non-vacuity: REFUSED, NXDOMAIN, SERVFAIL collected in this order: the name error wins *)
Example ex_pick_scan :
  let mk rc := mk_T_Msg (mk_T_MsgHdr 7 true 0 false false false false false false false rc) false [] in
  fst (go_pickFallbackResponse_loop2_run [mk 5; mk 3; mk 2]) = GoRet (mk 3, false) /\
  fst (go_pickFallbackResponse_loop2_run [mk 5; mk 2]) = GoNext /\
  pick_fallback (map msg_rcode_N [mk 5; mk 3; mk 2]) 0 0 = FOResponse 3 /\
  pick_fallback (map msg_rcode_N [mk 5; mk 2]) 0 0 = FOResponse 5.
Proof. vm_compute. repeat split. Qed.
