(* C13 — Cached failures (RFC 9520) suppress only what failed, for a bounded
   time.  Property theorems only; every proof is `exact <lemma>`.

   Model: C13/Model.v (written from failure_cache.go, store.go, cache.go,
   resolver.go; constants regenerated from the source into Gen/C13.v).
   [H] is the 64-bit key hash: universally quantified, so every statement
   holds under hash collisions.  [cfg_valid c] is exactly what
   NewFailureCache accepts: 1 s <= initialTTL <= maxTTL <= 5 min. *)
From Sdns Require Import Common.Base Common.GoList Gen.C13 C13.Model C13.Proofs_Base C13.Proofs_Backoff C13.Proofs_Cache C13.Proofs_Conc C13.Proofs_Gen C13.Proofs_Wire C13.Proofs_Walk C13.Proofs_Cohort C13.Proofs_Fanout C13.Proofs_Pick.
Open Scope Z_scope.

(* The backoff starts at the configured minimum, is non-decreasing, at most
   doubles per consecutive failure and never exceeds the configured maximum,
   which never exceeds five minutes — for every streak, 2^32-1 included; and
   no intermediate value overflows int64. *)
Theorem backoff_envelope : forall c, cfg_valid c ->
  backoff c 1 = c_init c /\
  (forall s, (1 <= s)%N -> backoff c s <= backoff c (s + 1) <= 2 * backoff c s) /\
  (forall s, c_init c <= backoff c s <= c_max c) /\
  c_max c <= 300000000000 /\ 1000000000 <= c_init c /\
  backoff c 4294967295 <= c_max c /\
  (forall s, 2 * backoff c s < 2 ^ 63).
Proof.
  exact (fun c V => conj (backoff_first c V) (conj (backoff_doubles_at_most c V) (conj (backoff_range c V)
          (conj (proj2 (proj2 (valid_bounds c V))) (conj (proj1 (valid_bounds c V))
          (conj (proj2 (backoff_range c V 4294967295%N)) (backoff_no_overflow c V))))))).
Qed.
Print Assumptions backoff_envelope.

(* the executable model's loop cap is exact: it computes the uncapped Go loop *)
Theorem backoff_is_the_go_loop : forall c, cfg_valid c -> forall s, backoff c s = backoff_spec_loop c s.
Proof. exact backoff_fuel_irrelevant. Qed.
Print Assumptions backoff_is_the_go_loop.

(* ... and the model's backoff IS FailureCache.backoff as the translator reads
   it from the Go source today (Gen.C13.go_FailureCache_backoff: the for loop as
   a fuelled Fixpoint, uint32 generation counter with wrap, int64 ttl), for
   every valid configuration and every uint32 streak, on any iteration budget
   of ten or more. *)
Theorem backoff_is_the_translated_go_function : forall c, cfg_valid c -> forall gc : T_FailureCache,
  T_FailureCache_initialTTL gc = c_init c -> T_FailureCache_maxTTL gc = c_max c -> forall fuel s,
  (10 <= fuel)%nat -> (s < 4294967296)%N ->
  go_FailureCache_backoff fuel gc s = Some (backoff c s).
Proof. exact gen_backoff. Qed.
Print Assumptions backoff_is_the_translated_go_function.

(* The verification of a zone slot (translated failureZoneKeysEqual: zone string
   octet by octet, class) is the model's key equality, under any injective
   rendering of label lists as presentation strings. *)
Theorem zone_slot_verification_is_key_equality : forall pres : name -> list N,
  (forall a b, pres a = pres b -> a = b) -> forall a b,
  go_failureZoneKeysEqual (mk_T_FailureZoneKey (pres (zk_zone a)) (zk_class a))
                          (mk_T_FailureZoneKey (pres (zk_zone b)) (zk_class b)) = zkey_eqb a b.
Proof. exact gen_zone_keys_equal. Qed.
Print Assumptions zone_slot_verification_is_key_equality.

(* The ancestor walk every lookup, retry key and reset rests on (the [suffixes]
   of hit_only_exact_or_ancestor_zone, single_probe_key, streak_resets) IS the
   loop of walkFailureZones as the translator reads it today, with miekg's
   dns.NextLabel from the module cache: started on the presentation string of a
   name — labels non-empty, a dot inside a label written \. and a backslash \\,
   every other octet literally; root = "." — it ends by return, having handed the
   callback the presentation strings of [suffixes n] in order, closest first,
   and stopped at the first one the callback refused, else at the root.  An
   escaped dot is never a cut (seeded C13-4 / C13-9 break this lemma).  With
   dns.CanonicalName in front (ASCII reading of the translator's library) the
   callback sees the FOLDED ancestors [suffixes (canon_name n)] for any spelling
   of the letters.  The callback is a pure function of the zone string; fuel:
   more than the string's length. *)
Theorem zone_walk_is_the_translated_go_loop :
  (forall fuel visit n, wf_name n -> (length (present n) < fuel)%nat ->
     go_walkFailureZones_loop1_run fuel visit (present n) =
       (GoRet tt, (visit, present (walk_stop visit (suffixes n))))) /\
  (forall fuel visit n, wf_name n -> (length (present n) < fuel)%nat ->
     go_walkFailureZones_loop1_run fuel visit (go_canonical_name_ascii (present n)) =
       (GoRet tt, (visit, present (walk_stop visit (suffixes (canon_name n)))))) /\
  (forall visit zs z, walk_stop visit (zs ++ [z]) =
     match find (fun x => negb (visit (present x))) zs with Some y => y | None => z end) /\
  (forall n, exists zs, suffixes n = zs ++ [[]]).
Proof. exact (conj gen_zone_walk (conj gen_zone_walk_canonical (conj walk_stop_find suffixes_snoc_root))). Qed.
Print Assumptions zone_walk_is_the_translated_go_loop.

(* NewFailureCache admits only valid bounds *)
Theorem constructor_admits_only_valid_bounds : forall size i m c, new_cfg size i m = Some c -> cfg_valid c /\ 0 < size.
Proof. exact new_cfg_valid. Qed.
Print Assumptions constructor_admits_only_valid_bounds.

(* Over every history (question and zone failures, resets, purges, arbitrary
   evictions) under a monotone clock, every retained retry-after instant is at
   most max after the time of the last operation. *)
Theorem retry_after_bounded : forall H c, cfg_valid c -> forall hs,
  monotone 0 hs ->
  forall h e, In (h, e) (run_hist H c [] hs) -> e_retry e <= last_time 0 hs + c_max c.
Proof. exact (fun H c V hs Mo => bounded_run H c V 0 [] hs Mo (all_entries_nil _)). Qed.
Print Assumptions retry_after_bounded.

(* A lookup hit for (name, type, class, CD, ECS audience) comes from a question
   state with the identical five-tuple or from a zone state whose zone is a
   suffix of the name with the same class, and it is active — for EVERY hash
   function and EVERY map state. *)
Theorem hit_only_exact_or_ancestor_zone : forall H m k now e,
  fc_lookup H m k now = Some e ->
  now < e_retry e /\ (exists h, In (h, e) m) /\
  (e_key e = EQ (norm_qkey k) \/
   exists z p, canon_name (qk_name k) = p ++ z /\ e_key e = EZ (mk_zkey z (qk_class k))).
Proof. exact lookup_sound. Qed.
Print Assumptions hit_only_exact_or_ancestor_zone.

Theorem wire_hit_only_exact_or_ancestor_zone : forall H m n t cl cd now e,
  fc_lookup_wire H m n t cl cd now = Some e ->
  now < e_retry e /\ (exists h, In (h, e) m) /\
  ((exists k', e_key e = EQ k' /\ qk_scope k' = None /\ qk_type k' = t /\ qk_class k' = cl /\
               qk_cd k' = cd /\ canon_name (qk_name k') = canon_name n) \/
   (exists z z' p, n = p ++ z /\ e_key e = EZ z' /\ zk_class z' = cl /\
                   canon_name (zk_zone z') = canon_name z)).
Proof. exact lookup_wire_sound. Qed.
Print Assumptions wire_hit_only_exact_or_ancestor_zone.

(* The headline: from the empty cache, whatever the history and the hash, a
   cached failure served for a question is active, ends within max of now, and
   is the state of a failure RECORDED for exactly that question or for a zone
   at or above its name with the same class. *)
Theorem cached_failure_suppresses_only_what_failed : forall H c, cfg_valid c -> forall hs now k e,
  monotone 0 hs -> last_time 0 hs <= now ->
  fc_lookup H (run_hist H c [] hs) k now = Some e ->
  now < e_retry e <= now + c_max c /\
  ((e_key e = EQ (norm_qkey k) /\
    exists t k0 p, In (t, MRecQ k0 p) hs /\ norm_qkey k0 = norm_qkey k) \/
   (exists z pfx t z0 p, canon_name (qk_name k) = pfx ++ z /\ e_key e = EZ (mk_zkey z (qk_class k)) /\
                        In (t, MRecZ z0 p) hs /\ norm_zkey z0 = mk_zkey z (qk_class k))).
Proof. exact cached_failure_sound. Qed.
Print Assumptions cached_failure_suppresses_only_what_failed.

(* A useful answer resets the backoff: after ResetMatching the next failure of
   the question, or of any zone at or above it, starts at streak 1 with the
   initial interval; so does a failure arriving max or more after the previous
   backoff ended. *)
Theorem streak_resets : forall H c, cfg_valid c ->
  (forall m k prov now,
     snd (fst (fc_record_question H c (fst (fc_reset_matching H m k)) k prov now)) =
       mk_entry (EQ (norm_qkey k)) prov 1%N (now + c_init c)) /\
  (forall m k z pfx prov now, canon_name (qk_name k) = pfx ++ z ->
     snd (fst (fc_record_zone H c (fst (fc_reset_matching H m k)) (mk_zkey z (qk_class k)) prov now)) =
       mk_entry (EZ (norm_zkey (mk_zkey z (qk_class k)))) prov 1%N (now + c_init c)) /\
  (forall m h key prov now cur,
     mget h m = Some cur -> same_key (e_key cur) key = true -> e_retry cur + c_max c <= now ->
     snd (fst (fc_record c m h key prov now)) = mk_entry (e_key cur) prov 1%N (now + c_init c)).
Proof.
  exact (fun H c V => conj (reset_then_question_restarts H c) (conj (reset_then_zone_restarts H c) (idle_restarts c V))).
Qed.
Print Assumptions streak_resets.

(* After expiry, any number of CONCURRENT recorders of one key advance the
   streak exactly once.  Model: the load / CompareAndSwap retry loop of
   FailureCache.record with pointer identity as a stamp (Model.cas_step); the
   theorem quantifies over EVERY schedule of the recorders' atomic steps.
   Hypotheses: the slot holds the key's own expired entry; every recorder's
   clock reading is at or after its retry-after and the readings lie within one
   initial interval of each other (that is what "concurrent" means here — a
   recorder arriving a whole backoff later legitimately starts the next
   generation, see streak_advances_once_window_needed).
   Conclusion: at most one store ever; once all have returned exactly one store
   happened, the slot holds the renewal (streak +1 saturating / restart after
   max idle, see renew_streak) and every recorder returned that same entry. *)
Theorem streak_advances_once : forall c, cfg_valid c -> forall key prov id0 cur0 nows,
  same_key (e_key cur0) key = true ->
  (forall t, In t nows -> e_retry cur0 <= t) ->
  (forall a b, In a nows -> In b nows -> a < b + c_init c) ->
  forall next sched, (id0 < next)%N ->
  let st := cas_run c key prov (cas_init id0 cur0 nows next) sched in
  (cs_writes st <= 1)%N /\
  (nows <> [] -> forallb rc_done (cs_threads st) = true ->
   exists w id1, In w nows /\ cs_writes st = 1%N /\ cs_slot st = Some (id1, renew c cur0 prov w) /\
                 Forall (fun r => r = RcDone (renew c cur0 prov w)) (cs_threads st)).
Proof. exact cas_streak_advances_once. Qed.
Print Assumptions streak_advances_once.

(* the window hypothesis is necessary: a recorder whose clock is a full
   backoff later than the winner's advances the streak a second time *)
Theorem streak_advances_once_window_needed :
  let c := mk_cfg default_initial_ttl default_max_ttl in
  let k := EZ (mk_zkey [[101;120]]%N 1) in
  let cur := mk_entry k 2%N 1%N 5000000000 in
  cs_writes (cas_run c k 2%N (cas_init 7 cur [5000000000; 16000000000] 8) [0; 0; 1; 1]%nat) = 2%N.
Proof. exact window_needed_witness. Qed.
Print Assumptions streak_advances_once_window_needed.

(* the sequential facts the loop rests on *)
Theorem renewal_and_idempotence : forall c, cfg_valid c ->
  (forall m h key prov now cur,
     mget h m = Some cur -> same_key (e_key cur) key = true ->
     e_retry cur <= now < e_retry cur + c_max c -> (1 <= e_streak cur)%N ->
     let e' := snd (fst (fc_record c m h key prov now)) in
     e_streak e' = (if (e_streak cur <? 4294967295)%N then e_streak cur + 1 else e_streak cur)%N /\
     e_retry e' = now + backoff c (e_streak e') /\
     backoff c (e_streak e') <= 2 * backoff c (e_streak cur)) /\
  (forall m h key prov now cur,
     mget h m = Some cur -> same_key (e_key cur) key = true -> now < e_retry cur ->
     fc_record c m h key prov now = (m, cur, false)).
Proof. exact (fun c V => conj (renewal_advances_once c V) (record_idempotent_while_active c)). Qed.
Print Assumptions renewal_and_idempotence.

(* Failures local to one request never become shared state: the write-back of
   a failure response leaves the store untouched whenever any request-local
   fact holds (client deadline / cancellation, optional enrichment, work
   budget, marked response: attempt limit, probe limit, max recursion), and
   the resolver publishes no zone failure for such causes. *)
Theorem request_local_not_recorded : forall H c s k r now,
  request_local r = true ->
  serve_writeback H c s k (DFail r) now = s /\ fst (serve H c s k (DFail r) now) = s.
Proof. exact (fun H c s k r now L => conj (Proofs_Cache.request_local_not_recorded H c s k r now L) (request_local_serve_leaves_state H c s k r now L)). Qed.
Print Assumptions request_local_not_recorded.

(* /repo c55a314: one more request-local condition — [ob], the request tree's work ledger has latched
   an enforcement rejection (RecursionWorkEnforcementError(ctx) != nil); the statement gained that case. *)
Theorem zone_failure_request_local_not_published : forall ze be ce ob x,
  ze || be || ce || ob || cause_local x = true -> zone_failure_admitted ze be ce ob x = false.
Proof. exact zone_failure_local_not_admitted. Qed.
Print Assumptions zone_failure_request_local_not_published.

(* A glue-less delegation (processDelegation -> lookupV4Nss): the child zone is filed as failed only
   when EVERY nameserver host was looked up and had no address (and the request is neither best-effort,
   ended, nor over budget); every other end of the walk — one host rejected by the request tree's retry
   guard among address-less ones included — is a request-local cause, refused by the zone filter too. *)
Theorem glueless_zone_failure_only_when_every_host_had_no_address : forall hosts be ce ob,
  glueless_published hosts be ce ob = true ->
  forallb nshost_no_addr hosts = true /\ snd (glueless hosts) = length hosts /\ be || ce || ob = false.
Proof. exact glueless_publishes_only_when_every_host_had_no_address. Qed.
Print Assumptions glueless_zone_failure_only_when_every_host_had_no_address.

Theorem glueless_request_local_end_is_not_published : forall hosts x be ce ob,
  Forall (fun h => match h with NHFatal y => fatal_cause y = true | _ => True end) hosts ->
  fst (glueless hosts) = GLLocal x ->
  cause_local x = true /\ zone_failure_admitted false be ce ob x = false.
Proof. exact glueless_other_ends_are_request_local. Qed.
Print Assumptions glueless_request_local_end_is_not_published.

(* A zone failure is published only when every server of the zone failed to
   give a usable response (the fan-out model; tied by the lab driver). *)
Theorem zone_failure_only_when_every_server_failed : forall servers,
  zone_failure_published servers = true -> forall b, In b servers -> usable b = false.
Proof. exact zone_failure_needs_every_server_to_fail. Qed.
Print Assumptions zone_failure_only_when_every_server_failed.

(* Shed load never becomes shared state: for every load-shedding error class
   (resolver at global capacity, zone at quota, failure-probe limit) the
   handler's SERVFAIL is request-local and its write-back — and the whole
   serve step — leaves the store unchanged.  (Refuted before /repo 950da92,
   former finding shed-load-recorded; the lab driver keeps the regression.) *)
Theorem shed_load_not_recorded : forall H c s k e now,
  shed_load e = true ->
  serve_writeback H c s k (DFail (handler_failure e)) now = s /\ fst (serve H c s k (DFail (handler_failure e)) now) = s.
Proof. exact shed_load_never_recorded. Qed.
Print Assumptions shed_load_not_recorded.

(* what does hold: every class IsRequestLocalResolutionError lists is kept out *)
Theorem marked_error_classes_not_recorded : forall H c s k e now,
  is_request_local_error e = true -> serve_writeback H c s k (DFail (handler_failure e)) now = s.
Proof. exact marked_errors_not_recorded. Qed.
Print Assumptions marked_error_classes_not_recorded.

(* Turning rfc9520 off stops both recording and serving. *)
Theorem disabled_is_inert : forall H c s, s_disabled s = true ->
  (forall k p now, st_record_failure H c s k p now = (s, None, false)) /\
  (forall cl z now, st_record_zone_failure H c s cl z now = (s, None, false)) /\
  (forall cl z, st_clear_zone_failure H s cl z = s) /\
  (forall k now, st_lookup_failure H s k now = None) /\
  (forall n t cl cd now, st_lookup_failure_wire H s n t cl cd now = None) /\
  (forall k now, st_retry_key H s k now = None) /\
  (forall k, st_reset_question H s k = s) /\
  (forall k, st_reset_matching H s k = s) /\
  (forall n t cl, st_purge s n t cl = s) /\
  st_failure_len s = 0 /\
  (forall k d now, serve H c s k d now = (s, SDownstream)).
Proof. exact Proofs_Cache.disabled_is_inert. Qed.
Print Assumptions disabled_is_inert.

(* The first retry after a backoff is led by a single probe.
   (1) Key side: every question at or below a zone whose retained state has
       expired (nothing retained closer, no active zone above, own exact state not
       active) is given the SAME retry key, the zone's — so all such requests
       meet in one singleflight group.
   (2) Election side: the waitgroup hand-over Cache.ServeDNS uses
       (JoinGeneration / Regroup / DoneGeneration, Model.probe_step) keeps AT MOST
       ONE request of that group in flight, for any number of requests and EVERY
       interleaving of arrivals, leader completions with any outcome (shared
       failure recorded, request-local failure, recovery) and follower wake-ups.
   The schedules include the waitgroup's generation timeout (ATimeout: an abandoned
   leader; see abandoned_leader_is_never_replaced below). *)
Theorem single_probe_key : forall H m now cl z p t cd sc h,
  (forall p' q, p = q ++ p' -> p' <> [] -> load_zone H m (mk_zkey (canon_name (p' ++ z)) cl) = None) ->
  (forall e, load_question H m (norm_qkey (mk_qkey (p ++ z) t cl cd sc)) = Some e -> e_retry e <= now) ->
  scan_zones H m (suffixes (canon_name z)) cl now None = ZExpired h ->
  fc_retry_key H m (mk_qkey (p ++ z) t cl cd sc) now = Some h.
Proof. exact retry_key_below_expired_zone. Qed.
Print Assumptions single_probe_key.

Theorem single_probe : forall n sched, (in_flight (probe_run (probe_init n) sched) <= 1)%nat.
Proof. exact single_probe_in_flight. Qed.
Print Assumptions single_probe.

(* The waitgroup's generation bound (15 s): when it passes before the leader is
   done, the leader stays registered and in flight (single_probe above already
   quantifies over schedules with ATimeout steps).  A follower of a timed-out
   generation that wakes is served from the failure cache or shed — never elected,
   regrouped or sent downstream; a timeout changes no request and no group entry;
   and a new probe is elected only when nobody is in flight, so an abandoned
   leader is never replaced or doubled. *)
Theorem abandoned_leader_is_never_replaced :
  (forall st r g regs, nth_error (ps_reqs st) r = Some (PFollower g regs) -> g_timed (gen_of st g) = true ->
     let st' := probe_step st (AWake r) in
     (nth_error (ps_reqs st') r = Some PServed \/ nth_error (ps_reqs st') r = Some PShed) /\
     ps_elected st' = ps_elected st /\ ps_group st' = ps_group st /\ ps_gens st' = ps_gens st) /\
  (forall st g, ps_reqs (probe_step st (ATimeout g)) = ps_reqs st /\ ps_group (probe_step st (ATimeout g)) = ps_group st /\
     ps_elected (probe_step st (ATimeout g)) = ps_elected st /\ ps_fs (probe_step st (ATimeout g)) = ps_fs st) /\
  (forall n sched a, let st := probe_run (probe_init n) sched in
     ps_elected (probe_step st a) <> ps_elected st -> in_flight st = O).
Proof.
  exact (conj timed_follower_is_terminal (conj timeout_changes_no_request
          (fun n sched a => election_only_when_idle _ a (probe_inv_run n sched)))).
Qed.
Print Assumptions abandoned_leader_is_never_replaced.

(* The fan-out itself (Resolver.lookup; Model.v part 4: the servers are started two at once and
   then one per timer tick or consumed non-final result, results are consumed in whatever order
   they arrive, NXDOMAIN ends the lookup early for the root / a TLD or as third response error,
   pickFallbackResponse chooses among what was collected).  For EVERY schedule of arrivals and
   timer ticks, every zone depth and every mix of server behaviours: when the lookup ends in
   something Resolver.resolve publishes as a zone failure (a server-failure-class fallback
   response or the connection-failed error), no server of the zone gave a usable response —
   each one was heard and each answered with a failure rcode, an error / nothing, or a bogus
   referral; and an answer is the usable response of a server of the zone. *)
Theorem zone_failure_published_only_after_every_server_failed : forall servers level sched o,
  fo_done (fo_run servers level sched) = Some o -> fo_published o = true ->
  forallb (fun s => negb (srv_usable s)) servers = true.
Proof. exact fanout_publishes_only_when_every_server_failed. Qed.
Print Assumptions zone_failure_published_only_after_every_server_failed.

(* ... and each of them was HEARD: when the lookup ends in something that is published, every
   server of the zone had been started and its result consumed — no verdict about a zone while a
   server is unheard, however many lame verdicts have come in (seeded C13-5, C13-7). *)
Theorem zone_failure_published_only_after_every_server_was_heard : forall servers level sched o,
  fo_done (fo_run servers level sched) = Some o -> fo_published o = true ->
  forall j, (j < length servers)%nat -> nth_error (fo_stat (fo_run servers level sched)) j = Some StConsumed.
Proof. exact fanout_publishes_only_after_every_result. Qed.
Print Assumptions zone_failure_published_only_after_every_server_was_heard.

(* Where a fallback-timer tick falls relative to a result does not matter: on every reachable
   running state, for every server whose result is outstanding, tick-then-result and
   result-then-tick leave the same state, or — when the result ends the lookup — the same outcome.
   This is why the lab driver's OBSERVED schedules (gated authorities: the order in which results
   reach lookup is the driver's, the number of ticks is read off the count of started servers at
   barriers) determine the model run without tick positions (Model.fo_observed, CaseLabSched). *)
Theorem fanout_tick_position_is_irrelevant : forall servers level sched i,
  let st := fo_run servers level sched in
  fo_done st = None -> nth_error (fo_stat st) i = Some StPending ->
  fo_step servers level (fo_step servers level st FoTimer) (FoResult i) =
  fo_step servers level (fo_step servers level st (FoResult i)) FoTimer
  \/ (exists o, fo_done (fo_step servers level st (FoResult i)) = Some o /\
                fo_done (fo_step servers level (fo_step servers level st FoTimer) (FoResult i)) = Some o).
Proof. exact reachable_timer_commutes_with_result. Qed.
Print Assumptions fanout_tick_position_is_irrelevant.

(* What check_case computes for an observed schedule is a run of the model: both universal
   statements hold for it — a published failure means no server was usable and every one was heard. *)
Theorem observed_schedule_publication_means_every_server_failed : forall servers level evs st o,
  fo_observed servers level (fo_init (length servers)) evs = Some st -> fo_done st = Some o -> fo_published o = true ->
  forallb (fun s => negb (srv_usable s)) servers = true /\
  forall j, (j < length servers)%nat -> nth_error (fo_stat st) j = Some StConsumed.
Proof. exact observed_publication_means_every_server_failed. Qed.
Print Assumptions observed_schedule_publication_means_every_server_failed.

(* "A useful answer resets the backoff", at the zone: the lookup's end clears the zone's failure
   state (clearResolutionZoneFailure) only when a server of the zone gave a usable response — an
   answer, or the NXDOMAIN some server answered with — and a lookup that clears publishes
   nothing; for every schedule, zone depth and mix of servers. *)
Theorem zone_failure_cleared_only_after_a_usable_response : forall servers level sched o,
  fo_done (fo_run servers level sched) = Some o -> fo_cleared o = true ->
  existsb srv_usable servers = true /\ fo_published o = false.
Proof. exact fanout_clears_only_after_a_usable_response. Qed.
Print Assumptions zone_failure_cleared_only_after_a_usable_response.

(* Completeness, so that suppression can start at all: for a zone ALL of whose servers are lame
   (a failure rcode other than NXDOMAIN, no reply, a connection error) the lookup, whenever and
   under whatever schedule it ends, ends in something that is published as a zone failure. *)
Theorem all_lame_zone_failure_is_published : forall servers level,
  forallb srv_lame servers = true -> servers <> [] ->
  forall sched o, fo_done (fo_run servers level sched) = Some o -> fo_published o = true.
Proof. exact all_lame_zone_is_published. Qed.
Print Assumptions all_lame_zone_failure_is_published.

(* pickFallbackResponse's preference for a name error IS the translated Go loop
   (Gen.C13.go_pickFallbackResponse_loop2, `for _, resp := range responseErrors { if resp.Rcode ==
   dns.RcodeNameError { return resp, nil } }`): for every list of collected responses (rcodes
   non-negative, as on the wire) the loop returns the first message with rcode 3 and a nil error
   exactly when the model's pick_fallback answers FOResponse NXDOMAIN, and falls through exactly
   when the model goes on to "the first response error, else the bogus delegation, else
   connection failed".  Editing the loop in /repo re-checks this proof. *)
Theorem fallback_nxdomain_scan_is_the_translated_go_loop : forall msgs cfg fatal,
  Forall (fun m => 0 <= msg_rcode m) msgs ->
  match fst (go_pickFallbackResponse_loop2_run msgs) with
  | GoRet (m, err) =>
      err = false /\ msg_rcode m = 3 /\ In m msgs /\
      pick_fallback (map msg_rcode_N msgs) cfg fatal = FOResponse rcode_nxdomain
  | GoNext =>
      ~ In rcode_nxdomain (map msg_rcode_N msgs) /\
      pick_fallback (map msg_rcode_N msgs) cfg fatal =
        match map msg_rcode_N msgs with
        | rc :: _ => FOResponse rc
        | [] => if (0 <? cfg)%nat then FOConfig else if (0 <? fatal)%nat then FOConnFailed else FONoServers
        end
  | GoOof => False
  end.
Proof. exact pick_scan_is_model. Qed.
Print Assumptions fallback_nxdomain_scan_is_the_translated_go_loop.

Theorem fanout_answer_is_a_usable_response : forall servers level sched i,
  fo_done (fo_run servers level sched) = Some (FOAnswer i) ->
  nth i servers SSilent = SHealthy \/ nth i servers SSilent = SRcode 0.
Proof. exact Proofs_Fanout.fanout_answer_is_a_usable_response. Qed.
Print Assumptions fanout_answer_is_a_usable_response.

(* Requests that share one dedup key while a miss is being resolved (Cache.ServeDNS,
   JoinGeneration path; Model.v part 3: the ladder a follower runs when it wakes is the
   ladder of an arrival, on the state the leader left).  When the leader's resolution
   ends in a shared (cacheable) failure — whatever zone failure the resolver published
   on the way, for every key hash, every store with rfc9520 on, every answer-cache
   content, any number of followers spelling the leader's question in any letter case /
   with any host bits in their ECS source — NO follower goes downstream: each is
   answered from the failure cache (or the answer cache), and the group as a whole sent
   at most one request upstream. *)
Theorem fresh_failure_serves_every_follower : forall H c, cfg_valid c ->
  forall s0 pos0 s pos now ld fs r s' pos' la fa,
  s_disabled s = false ->
  snd (fst ld) = DFail r -> cacheable_failure r = true ->
  (forall f, In f fs -> norm_qkey (cr_key f) = norm_qkey (cr_key ld)) ->
  cohort_group H c s0 pos0 s pos now ld fs = (s', pos', la, fa) ->
  Forall (fun a => is_down a = false) fa /\ group_calls la fa <= 1.
Proof. exact Proofs_Cohort.fresh_failure_serves_every_follower. Qed.
Print Assumptions fresh_failure_serves_every_follower.

(* ... and a leader's REQUEST-LOCAL failure (work budget, deadline, cancellation, shed
   load, optional enrichment) is served to nobody: every follower that waited behind it
   asks upstream itself. *)
Theorem request_local_leader_shares_nothing : forall H c,
  forall s0 pos0 now kl r fs s' pos' la fa,
  request_local r = true ->
  ladder_of H s0 pos0 kl now = LMiss ->
  (forall f, In f fs -> norm_qkey (cr_key f) = norm_qkey kl) ->
  cohort_group H c s0 pos0 s0 pos0 now (kl, DFail r, None) fs = (s', pos', la, fa) ->
  la = CDown false /\ Forall (fun a => a = CDown true) fa.
Proof. exact Proofs_Cohort.request_local_leader_shares_nothing. Qed.
Print Assumptions request_local_leader_shares_nothing.

(* Cached failures are terminal for the wrapper in front of the cache (dns64):
   the only SERVFAIL it follows up with a corresponding A query is a shared
   failure that came from downstream; a failure answered from the cache causes
   no outgoing query of any kind. *)
Theorem cached_failure_terminal_for_wrappers :
  (forall src, wrapper_follow_up src = true <-> src = SrcSharedFailure) /\
  wrapper_traffic SrcFailureCache = (0, 0) /\
  (forall src, fst (wrapper_traffic src) = if wrapper_follow_up src then 1 else 0).
Proof. exact (conj wrapper_follows_only_shared (conj cached_failure_no_traffic wrapper_lookups_match_follow_up)). Qed.
Print Assumptions cached_failure_terminal_for_wrappers.

(* The wrapper behind the cache (failover): a request-local failure of the
   primary stays request-local whatever the fallback servers answer (the only
   other outcome is a fallback's useful answer, and only for the attempt-limit
   mark), so the cache records nothing for it; a shed probe or an abandoned
   request starts no fallback traffic at all. *)
Theorem failover_keeps_request_local_failures_private : forall rd p fbs, fo_local p = true ->
  match snd (failover_outcome rd p fbs) with
  | DFail r => request_local r = true /\ forall H c s k now, serve_writeback H c s k (DFail r) now = s
  | DUseful _ => p = FoMarkedAttempt /\ In FbUseful fbs
  | DTruncated => False
  end.
Proof. exact failover_local_private. Qed.
Print Assumptions failover_keeps_request_local_failures_private.

Theorem failover_shed_request_sends_nothing : forall rd p fbs, p = FoMarkedProbe \/ p = FoCtxErr ->
  Forall (fun a => a = 0) (fst (failover_outcome rd p fbs)).
Proof. exact failover_shed_no_traffic. Qed.
Print Assumptions failover_shed_request_sends_nothing.

(* The wire fast path answers a cached failure only when checking is disabled,
   or denial is impossible for the store, or the failure is a question failure
   whose record-time miss witness still describes the denial index; the witness
   holds while the index is unchanged and is invalidated by any snapshot on the
   name's path that it does not carry (a denial zone that appeared or changed). *)
Theorem wire_path_serves_failure_only_under_valid_witness :
  (forall cd kq di idx_rung idx_query n,
     wire_gate cd kq di (witness_holds idx_query n (if cd || negb kq then [] else miss_witness idx_rung n)) = true ->
     cd = true \/ di = true \/ (kq = true /\ witness_holds idx_query n (miss_witness idx_rung n) = true)) /\
  (forall idx n, witness_holds idx n (miss_witness idx n) = true) /\
  (forall idx n w z id, In z (suffixes (canon_name n)) -> snapshot_of idx z = Some id ->
     (forall p, In p w -> fst p = z -> snd p <> id) -> witness_holds idx n w = false).
Proof. exact (conj wire_gate_open (conj witness_fresh witness_invalidated)). Qed.
Print Assumptions wire_path_serves_failure_only_under_valid_witness.
