(* C13 — the backoff envelope: FailureCache.backoff starts at the configured
   minimum, at most doubles per consecutive failure, never exceeds the
   configured maximum (itself at most five minutes), for every streak —
   2^32-1 included — and the 64-pass cap of the executable model is exact. *)
From Sdns Require Import Common.Base Gen.C13 C13.Model C13.Proofs_Base.
Open Scope Z_scope.

Section Backoff.
  Variable c : cfg.
  Hypothesis V : cfg_valid c.

  Let init := c_init c.
  Let max := c_max c.

  Lemma valid_bounds : 1000000000 <= init /\ init <= max /\ max <= 300000000000.
  Proof. destruct V as [A [B C]]. unfold init, max. rewrite gen_min_initial_ttl in A. rewrite gen_ttl_ceiling in C. lia. Qed.

  Lemma step_unfold t :
    backoff_step c t = if t <? max then (if t >? max / 2 then max else t * 2) else t.
  Proof. reflexivity. Qed.

  Lemma step_range t : init <= t <= max ->
    init <= backoff_step c t <= max /\ t <= backoff_step c t <= 2 * t.
  Proof.
    pose proof valid_bounds as B. intro R. rewrite step_unfold.
    destruct (t <? max) eqn:E1; [|lia].
    destruct (t >? max / 2) eqn:E2; lia.
  Qed.

  Lemma step_max : backoff_step c max = max.
  Proof. rewrite step_unfold. destruct (max <? max) eqn:E; [lia | reflexivity]. Qed.

  Lemma iter_comm n t : backoff_iter c n (backoff_step c t) = backoff_step c (backoff_iter c n t).
  Proof. revert t; induction n as [|n IH]; intro t; cbn; [reflexivity|]. now rewrite IH. Qed.
  Lemma iter_S n t : backoff_iter c (S n) t = backoff_step c (backoff_iter c n t).
  Proof. cbn. apply iter_comm. Qed.

  Lemma iter_range n t : init <= t <= max -> init <= backoff_iter c n t <= max.
  Proof.
    induction n as [|n IH]; intro R; [exact R|].
    rewrite iter_S. apply step_range. now apply IH.
  Qed.
  Lemma iter_mono n t : init <= t <= max -> backoff_iter c n t <= backoff_iter c (S n) t.
  Proof. intro R. rewrite iter_S. apply step_range. now apply iter_range. Qed.
  Lemma iter_max n : backoff_iter c n max = max.
  Proof. induction n as [|n IH]; [reflexivity|]. rewrite iter_S, IH. apply step_max. Qed.

  (* the running ttl grows at least geometrically until it reaches the cap *)
  Lemma step_growth t : init <= t <= max -> Z.min max (2 * t) <= backoff_step c t.
  Proof.
    pose proof valid_bounds as B. intro R. rewrite step_unfold.
    destruct (t <? max) eqn:E1; [|lia].
    destruct (t >? max / 2) eqn:E2; lia.
  Qed.
  Lemma iter_growth n t : init <= t <= max -> Z.min max (t * 2 ^ Z.of_nat n) <= backoff_iter c n t.
  Proof.
    revert t; induction n as [|n IH]; intros t R.
    - cbn [backoff_iter]. change (2 ^ Z.of_nat 0) with 1. lia.
    - cbn [backoff_iter].
      pose proof (step_range t R) as [R1 _]. pose proof (step_growth t R) as G.
      specialize (IH _ R1).
      rewrite Nat2Z.inj_succ, Z.pow_succ_r by lia.
      assert (P : 0 < 2 ^ Z.of_nat n) by (apply Z.pow_pos_nonneg; lia).
      destruct (Z.le_gt_cases max (2 * t)) as [L|L].
      + (* the step already reached the cap *)
        assert (backoff_step c t = max) by lia.
        rewrite H, iter_max. lia.
      + assert (Hs : 2 * t <= backoff_step c t) by lia.
        assert (2 * t * 2 ^ Z.of_nat n <= backoff_step c t * 2 ^ Z.of_nat n) by (apply Z.mul_le_mono_nonneg_r; lia).
        lia.
  Qed.

  Lemma iter_saturated n : (64 <= n)%nat -> backoff_iter c n init = max.
  Proof.
    pose proof valid_bounds as B. intro L.
    assert (R : init <= init <= max) by lia.
    pose proof (iter_growth n init R) as G. pose proof (iter_range n init R) as R2.
    assert (P : 2 ^ 64 <= 2 ^ Z.of_nat n) by (apply Z.pow_le_mono_r; lia).
    assert (init * 2 ^ 64 <= init * 2 ^ Z.of_nat n) by (apply Z.mul_le_mono_nonneg_l; lia).
    change (2 ^ 64) with 18446744073709551616 in *. lia.
  Qed.

  Lemma clamp_id t : t <= max -> backoff_clamp c t = t.
  Proof. intro L. unfold backoff_clamp. fold max. destruct (t >? max) eqn:E; [lia | reflexivity]. Qed.

  (* the executable model's 64-pass cap is exact *)
  Lemma backoff_fuel_irrelevant s : backoff c s = backoff_spec_loop c s.
  Proof.
    pose proof valid_bounds as B.
    unfold backoff, backoff_spec_loop, backoff_fuel. fold init.
    destruct (Z.le_gt_cases (Z.of_N s - backoff_first_generation) 64) as [L|L].
    - now rewrite Z.min_l.
    - rewrite Z.min_r by lia.
      rewrite (iter_saturated (Z.to_nat 64)) by (change (Z.to_nat 64) with 64%nat; lia).
      rewrite (iter_saturated (Z.to_nat (Z.of_N s - backoff_first_generation))); [reflexivity|].
      change 64%nat with (Z.to_nat 64). apply Z2Nat.inj_le; lia.
  Qed.

  Lemma spec_loop_eq s : backoff_spec_loop c s = backoff_iter c (Z.to_nat (Z.of_N s - 1)) init.
  Proof.
    unfold backoff_spec_loop. rewrite (proj1 gen_backoff_literals). fold init.
    apply clamp_id. apply iter_range. pose proof valid_bounds; lia.
  Qed.

  Lemma backoff_first : backoff c 1 = init.
  Proof. rewrite backoff_fuel_irrelevant, spec_loop_eq. reflexivity. Qed.
  Lemma backoff_zero : backoff c 0 = init.
  Proof. rewrite backoff_fuel_irrelevant, spec_loop_eq. reflexivity. Qed.

  Lemma backoff_range s : init <= backoff c s <= max.
  Proof.
    rewrite backoff_fuel_irrelevant, spec_loop_eq. apply iter_range. pose proof valid_bounds; lia.
  Qed.

  Lemma backoff_succ s : (1 <= s)%N -> backoff c (s + 1) = backoff_step c (backoff c s).
  Proof.
    intro L. rewrite !backoff_fuel_irrelevant, !spec_loop_eq.
    replace (Z.to_nat (Z.of_N (s + 1) - 1)) with (S (Z.to_nat (Z.of_N s - 1))) by lia.
    apply iter_S.
  Qed.

  Lemma backoff_doubles_at_most s : (1 <= s)%N -> backoff c s <= backoff c (s + 1) <= 2 * backoff c s.
  Proof.
    intro L. rewrite (backoff_succ s L). apply step_range. apply backoff_range.
  Qed.

  Lemma backoff_no_overflow s : 2 * backoff c s < 2 ^ 63.
  Proof. pose proof (backoff_range s). pose proof valid_bounds. change (2 ^ 63) with 9223372036854775808. lia. Qed.
End Backoff.

(* NewFailureCache accepts exactly the valid configurations (after defaults) *)
Lemma new_cfg_valid size i m c : new_cfg size i m = Some c -> cfg_valid c /\ 0 < size.
Proof.
  unfold new_cfg, cfg_valid. rewrite gen_size_floor.
  destruct (size <=? 0) eqn:E0; [discriminate|].
  set (i' := if i =? 0 then default_initial_ttl else i).
  set (m' := if m =? 0 then default_max_ttl else m).
  destruct (i' <? min_initial_ttl) eqn:E1; [discriminate|].
  destruct (m' <? i') eqn:E2; [discriminate|].
  destruct (m' >? ttl_ceiling) eqn:E3; [discriminate|].
  intros [= <-]; cbn. lia.
Qed.
Lemma default_cfg_valid : cfg_valid (mk_cfg default_initial_ttl default_max_ttl).
Proof. unfold cfg_valid; cbn. rewrite gen_min_initial_ttl, gen_ttl_ceiling. destruct gen_default_ttls as [-> ->]. lia. Qed.
Lemma cfg_validb_spec c : cfg_validb c = true <-> cfg_valid c.
Proof. unfold cfg_validb, cfg_valid. rewrite !andb_true_iff, !Z.leb_le. tauto. Qed.

Example backoff_default_table :
  map (backoff (mk_cfg default_initial_ttl default_max_ttl)) [1; 2; 3; 4; 5; 6; 7; 8; 4294967295]%N =
  [5000000000; 10000000000; 20000000000; 40000000000; 80000000000; 160000000000; 300000000000; 300000000000; 300000000000].
Proof. vm_compute. reflexivity. Qed.
