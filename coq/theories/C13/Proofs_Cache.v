(* C13 — the failure cache: containment of hits (for every hash function
   and every map state), boundedness and provenance of stored state over
   arbitrary histories with arbitrary evictions, streak resets, retry-key
   convergence, the admission filters and the kill switch. *)
From Sdns Require Import Common.Base Gen.C13 C13.Model C13.Proofs_Base C13.Proofs_Backoff.
Open Scope Z_scope.

Section Cache.
  Variable H : qkey -> N.

  (* ------------------------------------------------ verified slot loads *)
  Lemma load_question_sound m k e :
    load_question H m k = Some e -> In (hash_q H k, e) m /\ e_key e = EQ k.
  Proof.
    unfold load_question. destruct (mget (hash_q H k) m) as [e0|] eqn:G; [|discriminate].
    destruct (e_key e0) as [k'| |] eqn:K; try discriminate.
    destruct (qkey_eqb k' k) eqn:E; [|discriminate].
    intros [= <-]. apply qkey_eqb_eq in E. subst. split; [now apply mget_In | exact K].
  Qed.
  Lemma load_zone_sound m z e :
    load_zone H m z = Some e -> In (hash_z H (norm_zkey z), e) m /\ e_key e = EZ (norm_zkey z).
  Proof.
    unfold load_zone. destruct (mget (hash_z H (norm_zkey z)) m) as [e0|] eqn:G; [|discriminate].
    destruct (e_key e0) as [|z'|] eqn:K; try discriminate.
    destruct (zkey_eqb z' (norm_zkey z)) eqn:E; [|discriminate].
    intros [= <-]. apply zkey_eqb_eq in E. subst. split; [now apply mget_In | exact K].
  Qed.

  Lemma first_active_zone_sound m zs cl now e :
    first_active_zone H m zs cl now = Some e ->
    exists z, In z zs /\ now < e_retry e /\ e_key e = EZ (norm_zkey (mk_zkey z cl)) /\
              In (hash_z H (norm_zkey (mk_zkey z cl)), e) m.
  Proof.
    induction zs as [|z r IH]; cbn; [discriminate|].
    destruct (load_zone H m (mk_zkey z cl)) as [e0|] eqn:L.
    - destruct (now <? e_retry e0) eqn:A.
      + intros [= <-]. apply load_zone_sound in L as [L1 L2].
        exists z. repeat split; [now left | lia | exact L2 | exact L1].
      + intro F. destruct (IH F) as [z' [I R]]. exists z'. split; [now right | exact R].
    - intro F. destruct (IH F) as [z' [I R]]. exists z'. split; [now right | exact R].
  Qed.

  Lemma canon_suffix_fixed n z : In z (suffixes (canon_name n)) -> canon_name z = z.
  Proof.
    rewrite suffixes_canon. intro I. apply in_map_iff in I as [z' [<- _]]. apply canon_name_idem.
  Qed.

  (* ---------------------------------------------------------- Lookup *)
  (* A hit for (name,type,class,CD,audience) is either the state recorded for
     exactly that five-tuple, or the state of a zone that is a suffix of the
     name with the same class; it is active and it is in the map.  This holds
     for EVERY hash function H and EVERY map state m (colliding writers,
     planted or corrupted slots included). *)
  Lemma lookup_sound m k now e :
    fc_lookup H m k now = Some e ->
    now < e_retry e /\ (exists h, In (h, e) m) /\
    (e_key e = EQ (norm_qkey k) \/
     exists z p, canon_name (qk_name k) = p ++ z /\ e_key e = EZ (mk_zkey z (qk_class k))).
  Proof.
    unfold fc_lookup. destruct (mlen m =? 0); [discriminate|].
    assert (Z : forall e, first_active_zone H m (suffixes (qk_name (norm_qkey k))) (qk_class (norm_qkey k)) now = Some e ->
                now < e_retry e /\ (exists h, In (h, e) m) /\
                exists z p, canon_name (qk_name k) = p ++ z /\ e_key e = EZ (mk_zkey z (qk_class k))).
    { intros e0 F. apply first_active_zone_sound in F as [z [I [A [K M]]]].
      cbn in I. pose proof (canon_suffix_fixed _ _ I) as C.
      apply suffixes_spec in I as [p E].
      split; [exact A|]. split; [eauto|]. exists z, p. split; [exact E|].
      rewrite K. unfold norm_zkey. cbn [zk_zone zk_class norm_qkey qk_class]. now rewrite C. }
    destruct (load_question H m (norm_qkey k)) as [e0|] eqn:L.
    - destruct (now <? e_retry e0) eqn:A.
      + intros [= <-]. apply load_question_sound in L as [L1 L2].
        split; [lia|]. split; [eauto|]. now left.
      + intro F. destruct (Z _ F) as [A' [M R]]. repeat split; auto.
    - intro F. destruct (Z _ F) as [A' [M R]]. repeat split; auto.
  Qed.

  (* the wire lookup: same statement, the stored name compared under ASCII folding *)
  Lemma load_question_wire_sound m n t cl cd e :
    load_question_wire H m n t cl cd = Some e ->
    (exists h, In (h, e) m) /\
    exists k', e_key e = EQ k' /\ qk_scope k' = None /\ qk_type k' = t /\ qk_class k' = cl /\
               qk_cd k' = cd /\ canon_name (qk_name k') = canon_name n.
  Proof.
    unfold load_question_wire.
    destruct (mget _ m) as [e0|] eqn:G; [|discriminate].
    destruct (e_key e0) as [k'| |] eqn:K; try discriminate.
    match goal with |- (if ?b then _ else _) = _ -> _ => destruct b eqn:E end; [|discriminate].
    intros [= <-]. repeat (apply andb_true_iff in E as [E ?]).
    apply scope_eqb_eq in E. apply N.eqb_eq in H3, H2. apply eqb_prop in H1. apply name_eqb_eq in H0.
    split; [eexists; eapply mget_In; eauto|]. exists k'. repeat split; auto.
  Qed.
  Lemma load_zone_wire_sound m z cl e :
    load_zone_wire H m z cl = Some e ->
    (exists h, In (h, e) m) /\
    exists z', e_key e = EZ z' /\ zk_class z' = cl /\ canon_name (zk_zone z') = canon_name z.
  Proof.
    unfold load_zone_wire.
    destruct (mget _ m) as [e0|] eqn:G; [|discriminate].
    destruct (e_key e0) as [|z'|] eqn:K; try discriminate.
    match goal with |- (if ?b then _ else _) = _ -> _ => destruct b eqn:E end; [|discriminate].
    intros [= <-]. apply andb_true_iff in E as [E1 E2]. apply N.eqb_eq in E1. apply name_eqb_eq in E2.
    split; [eexists; eapply mget_In; eauto|]. exists z'. repeat split; auto.
  Qed.
  Lemma first_active_zone_wire_sound m zs cl now e :
    first_active_zone_wire H m zs cl now = Some e ->
    now < e_retry e /\ (exists h, In (h, e) m) /\
    exists z z', In z zs /\ e_key e = EZ z' /\ zk_class z' = cl /\ canon_name (zk_zone z') = canon_name z.
  Proof.
    induction zs as [|z r IH]; cbn; [discriminate|].
    destruct (load_zone_wire H m z cl) as [e0|] eqn:L.
    - destruct (now <? e_retry e0) eqn:A.
      + intros [= <-]. apply load_zone_wire_sound in L as [M [z' R]].
        split; [lia|]. split; [exact M|]. exists z, z'. split; [now left | exact R].
      + intro F. destruct (IH F) as [A' [M [z0 [z' [I R]]]]]. repeat split; auto.
        exists z0, z'. split; [now right | exact R].
    - intro F. destruct (IH F) as [A' [M [z0 [z' [I R]]]]]. repeat split; auto.
      exists z0, z'. split; [now right | exact R].
  Qed.
  Lemma lookup_wire_sound m n t cl cd now e :
    fc_lookup_wire H m n t cl cd now = Some e ->
    now < e_retry e /\ (exists h, In (h, e) m) /\
    ((exists k', e_key e = EQ k' /\ qk_scope k' = None /\ qk_type k' = t /\ qk_class k' = cl /\
                 qk_cd k' = cd /\ canon_name (qk_name k') = canon_name n) \/
     (exists z z' p, n = p ++ z /\ e_key e = EZ z' /\ zk_class z' = cl /\
                     canon_name (zk_zone z') = canon_name z)).
  Proof.
    unfold fc_lookup_wire. destruct (mlen m =? 0); [discriminate|].
    assert (Z : forall e, first_active_zone_wire H m (suffixes n) cl now = Some e ->
                now < e_retry e /\ (exists h, In (h, e) m) /\
                exists z z' p, n = p ++ z /\ e_key e = EZ z' /\ zk_class z' = cl /\
                               canon_name (zk_zone z') = canon_name z).
    { intros e0 F. apply first_active_zone_wire_sound in F as [A [M [z [z' [I R]]]]].
      apply suffixes_spec in I as [p E]. repeat split; auto. exists z, z', p. split; [exact E | exact R]. }
    destruct (load_question_wire H m n t cl cd) as [e0|] eqn:L.
    - destruct (now <? e_retry e0) eqn:A.
      + intros [= <-]. apply load_question_wire_sound in L as [M R].
        split; [lia|]. split; [exact M|]. now left.
      + intro F. destruct (Z _ F) as [A' [M R]]. repeat split; auto.
    - intro F. destruct (Z _ F) as [A' [M R]]. repeat split; auto.
  Qed.

  (* --------------------------------------------------------- histories *)
  Variable c : cfg.
  Hypothesis V : cfg_valid c.

  (* everything that can change the map; evictions remove arbitrary slots *)
  Inductive mop :=
  | MRecQ (k : qkey) (prov : N)
  | MRecZ (z : zkey) (prov : N)
  | MResetQ (k : qkey)
  | MResetZ (z : zkey)
  | MResetMatching (k : qkey)
  | MPurge (n : name) (t cl : N)
  | MEvict (hs : list N).
  Definition apply_mop (m : fmap) (now : Z) (o : mop) : fmap :=
    match o with
    | MRecQ k p => fst (fst (fc_record_question H c m k p now))
    | MRecZ z p => fst (fst (fc_record_zone H c m z p now))
    | MResetQ k => fst (fc_reset_question H m k)
    | MResetZ z => fst (fc_reset_zone H m z)
    | MResetMatching k => fst (fc_reset_matching H m k)
    | MPurge n t cl => fst (fc_purge m n t cl)
    | MEvict hs => mdel_all hs m
    end.
  Definition history := list (Z * mop).
  Fixpoint run_hist (m : fmap) (hs : history) : fmap :=
    match hs with
    | [] => m
    | (t, o) :: r => run_hist (apply_mop m t o) r
    end.
  (* the clock never goes backwards *)
  Fixpoint monotone (t : Z) (hs : history) : Prop :=
    match hs with
    | [] => True
    | (t', _) :: r => t <= t' /\ monotone t' r
    end.
  Fixpoint last_time (t : Z) (hs : history) : Z :=
    match hs with
    | [] => t
    | (t', _) :: r => last_time t' r
    end.

  (* what record does to the set of entries *)
  Lemma fc_record_entries (P : entry -> Prop) m h key prov now :
    all_entries P m ->
    P (mk_entry key prov first_streak (now + c_init c)) ->
    (forall cur s, In (h, cur) m -> same_key (e_key cur) key = true ->
                   P (mk_entry (e_key cur) prov s (now + backoff c s))) ->
    all_entries P (fst (fst (fc_record c m h key prov now))) /\ P (snd (fst (fc_record c m h key prov now))).
  Proof.
    intros A F R. unfold fc_record.
    destruct (mget h m) as [cur|] eqn:G; cbn.
    - destruct (same_key (e_key cur) key) eqn:S; cbn.
      + destruct (now <? e_retry cur) eqn:Act; cbn.
        * split; [exact A|]. eapply A, mget_In; eauto.
        * split; [apply all_entries_mset; [|exact A]|]; apply R; auto using mget_In.
      + split; [apply all_entries_mset; assumption | exact F].
    - split; [apply all_entries_mset; assumption | exact F].
  Qed.

  Lemma reset_zones_entries (P : entry -> Prop) m zs cl r :
    all_entries P m -> all_entries P (fst (reset_zones H m zs cl r)).
  Proof.
    revert m r; induction zs as [|z zs IH]; intros m r A; cbn; [exact A|].
    destruct (fc_reset_zone H m (mk_zkey z cl)) as [m' ok] eqn:E.
    apply IH. unfold fc_reset_zone in E. destruct (load_zone H m _); inversion E; subst; auto using all_entries_mdel.
  Qed.
  Lemma deleting_ops_entries (P : entry -> Prop) m now o :
    match o with MRecQ _ _ | MRecZ _ _ => False | _ => True end ->
    all_entries P m -> all_entries P (apply_mop m now o).
  Proof.
    destruct o; cbn; try easy; intros _ A.
    - unfold fc_reset_question. destruct (load_question H m _); cbn; auto using all_entries_mdel.
    - unfold fc_reset_zone. destruct (load_zone H m _); cbn; auto using all_entries_mdel.
    - unfold fc_reset_matching. destruct (mlen m =? 0); [exact A|].
      destruct (fc_reset_question H m (norm_qkey k)) as [m1 ok] eqn:E.
      apply reset_zones_entries.
      unfold fc_reset_question in E. destruct (load_question H m _); inversion E; subst; auto using all_entries_mdel.
    - unfold fc_purge; cbn. now apply all_entries_filter.
    - now apply all_entries_mdel_all.
  Qed.

  (* ---- boundedness: no stored retry-after lies more than max ahead of the clock *)
  Definition bounded (t : Z) (m : fmap) : Prop := all_entries (fun e => e_retry e <= t + c_max c) m.

  Lemma bounded_later t t' m : t <= t' -> bounded t m -> bounded t' m.
  Proof. intros L. apply all_entries_mono. intros e B. lia. Qed.

  Lemma bounded_step t m now o : t <= now -> bounded t m -> bounded now (apply_mop m now o).
  Proof.
    intros L B. apply (bounded_later _ _ _ L) in B.
    pose proof (valid_bounds c V) as VB.
    destruct o; try (apply deleting_ops_entries; [exact I | exact B]).
    - cbn. unfold fc_record_question. apply fc_record_entries; [exact B | cbn; lia |].
      intros cur s _ _. cbn. pose proof (backoff_range c V s). lia.
    - cbn. unfold fc_record_zone. apply fc_record_entries; [exact B | cbn; lia |].
      intros cur s _ _. cbn. pose proof (backoff_range c V s). lia.
  Qed.

  Lemma bounded_run t m hs : monotone t hs -> bounded t m -> bounded (last_time t hs) (run_hist m hs).
  Proof.
    revert t m; induction hs as [|[t' o] r IH]; intros t m Mo B; cbn; [exact B|].
    destruct Mo as [L Mo]. apply IH; [exact Mo|]. now apply bounded_step with (t := t).
  Qed.

  (* the hit a record returns is bounded too *)
  Lemma record_hit_bounded t m now h key prov :
    t <= now -> bounded t m ->
    e_retry (snd (fst (fc_record c m h key prov now))) <= now + c_max c.
  Proof.
    intros L B. apply (bounded_later _ _ _ L) in B. pose proof (valid_bounds c V) as VB.
    refine (proj2 (fc_record_entries (fun e => e_retry e <= now + c_max c) m h key prov now B _ _)); cbn; [lia|].
    intros cur s _ _. pose proof (backoff_range c V s). lia.
  Qed.

  (* ---- provenance: every stored state was put there by a record of that very key *)
  Definition recorded (hs : history) (x : ekey) : Prop :=
    match x with
    | EQ k => exists t k0 p, In (t, MRecQ k0 p) hs /\ norm_qkey k0 = k
    | EZ z => exists t z0 p, In (t, MRecZ z0 p) hs /\ norm_zkey z0 = z
    | EOther => False
    end.
  Definition caused (hs : history) (m : fmap) : Prop := all_entries (fun e => recorded hs (e_key e)) m.

  Lemma recorded_app pre post x : recorded pre x -> recorded (pre ++ post) x.
  Proof.
    destruct x; cbn; try easy.
    - intros [t [k0 [p [I E]]]]. exists t, k0, p. split; [apply in_or_app; now left | exact E].
    - intros [t [z0 [p [I E]]]]. exists t, z0, p. split; [apply in_or_app; now left | exact E].
  Qed.

  Lemma caused_step pre m now o : caused pre m -> caused (pre ++ [(now, o)]) (apply_mop m now o).
  Proof.
    intro C.
    assert (C' : caused (pre ++ [(now, o)]) m).
    { eapply all_entries_mono; [|exact C]. intros e. apply recorded_app. }
    destruct o; try (apply deleting_ops_entries; [exact I | exact C']).
    - cbn. unfold fc_record_question. apply fc_record_entries; [exact C' | |].
      + cbn. exists now, k, prov. split; [apply in_or_app; right; now left | reflexivity].
      + intros cur s I _. cbn. eapply C'; eauto.
    - cbn. unfold fc_record_zone. apply fc_record_entries; [exact C' | |].
      + cbn. exists now, z, prov. split; [apply in_or_app; right; now left | reflexivity].
      + intros cur s I _. cbn. eapply C'; eauto.
  Qed.

  Lemma caused_run pre m hs : caused pre m -> caused (pre ++ hs) (run_hist m hs).
  Proof.
    revert pre m; induction hs as [|[t o] r IH]; intros pre m C; cbn.
    - now rewrite app_nil_r.
    - replace (pre ++ (t, o) :: r) with ((pre ++ [(t, o)]) ++ r) by (rewrite <- app_assoc; reflexivity).
      apply IH. now apply caused_step.
  Qed.

  (* ---------------------------------------------------- headline theorem *)
  (* Over every history from the empty cache (any interleaving of question and
     zone failures, resets, purges and arbitrary evictions, monotone clock),
     for every hash function: a cached-failure hit for a question
       - is active now and expires within max of now,
       - and is the state of a failure that was recorded for exactly that
         name/type/class/CD/audience, or for a zone at or above the name with
         the same class. *)
  Theorem cached_failure_sound hs now k e :
    monotone 0 hs -> last_time 0 hs <= now ->
    fc_lookup H (run_hist [] hs) k now = Some e ->
    now < e_retry e <= now + c_max c /\
    ((e_key e = EQ (norm_qkey k) /\
      exists t k0 p, In (t, MRecQ k0 p) hs /\ norm_qkey k0 = norm_qkey k) \/
     (exists z pfx t z0 p, canon_name (qk_name k) = pfx ++ z /\ e_key e = EZ (mk_zkey z (qk_class k)) /\
                          In (t, MRecZ z0 p) hs /\ norm_zkey z0 = mk_zkey z (qk_class k))).
  Proof.
    intros Mo L F. apply lookup_sound in F as [A [[h I] K]].
    pose proof (bounded_run 0 [] hs Mo (all_entries_nil _)) as B.
    pose proof (caused_run [] [] hs (all_entries_nil _)) as C. cbn in C.
    specialize (B _ _ I). specialize (C _ _ I). cbn in B, C.
    split; [lia|].
    destruct K as [K|[z [p [E K]]]]; rewrite K in C; cbn in C.
    - left. split; [exact K | exact C].
    - right. destruct C as [t [z0 [pr [I0 E0]]]]. exists z, p, t, z0, pr. repeat split; auto.
  Qed.

  (* ------------------------------------------------------ streak resets *)
  Lemma load_question_mdel_none m k h : load_question H m k = None -> load_question H (mdel h m) k = None.
  Proof.
    unfold load_question. destruct (N.eq_dec h (hash_q H k)) as [->|Ne].
    - now rewrite mget_mdel_same.
    - now rewrite mget_mdel_other.
  Qed.
  Lemma load_zone_mdel_none m z h : load_zone H m z = None -> load_zone H (mdel h m) z = None.
  Proof.
    unfold load_zone. destruct (N.eq_dec h (hash_z H (norm_zkey z))) as [->|Ne].
    - now rewrite mget_mdel_same.
    - now rewrite mget_mdel_other.
  Qed.
  Lemma reset_question_clears m k : load_question H (fst (fc_reset_question H m k)) (norm_qkey k) = None.
  Proof.
    unfold fc_reset_question. destruct (load_question H m (norm_qkey k)) eqn:L; cbn; [|exact L].
    unfold load_question. now rewrite mget_mdel_same.
  Qed.
  Lemma reset_zone_clears m z : load_zone H (fst (fc_reset_zone H m z)) z = None.
  Proof.
    unfold fc_reset_zone. destruct (load_zone H m (norm_zkey z)) eqn:L; cbn.
    - unfold load_zone. now rewrite mget_mdel_same.
    - unfold load_zone in *. now rewrite norm_zkey_idem in L.
  Qed.
  Lemma reset_zones_keeps_question_clear m zs cl r k :
    load_question H m k = None -> load_question H (fst (reset_zones H m zs cl r)) k = None.
  Proof.
    revert m r; induction zs as [|z zs IH]; intros m r L; cbn; [exact L|].
    destruct (fc_reset_zone H m (mk_zkey z cl)) as [m' ok] eqn:E. apply IH.
    unfold fc_reset_zone in E. destruct (load_zone H m _); inversion E; subst; auto using load_question_mdel_none.
  Qed.
  Lemma reset_zones_clears m zs cl r z :
    In z zs -> load_zone H (fst (reset_zones H m zs cl r)) (mk_zkey z cl) = None.
  Proof.
    revert m r; induction zs as [|z0 zs IH]; intros m r I; [destruct I|]. cbn.
    destruct (fc_reset_zone H m (mk_zkey z0 cl)) as [m' ok] eqn:E.
    destruct I as [->|I]; [|now apply IH].
    assert (L : load_zone H m' (mk_zkey z cl) = None).
    { replace m' with (fst (fc_reset_zone H m (mk_zkey z cl))) by now rewrite E. apply reset_zone_clears. }
    clear E. revert m' L. generalize (if ok then r + 1 else r). clear.
    induction zs as [|z1 zs IH]; intros r m L; cbn; [exact L|].
    destruct (fc_reset_zone H m (mk_zkey z1 cl)) as [m' ok] eqn:E. apply IH.
    unfold fc_reset_zone in E. destruct (load_zone H m (norm_zkey (mk_zkey z1 cl))); inversion E; subst; auto using load_zone_mdel_none.
  Qed.

  (* a record that finds no verified state of its key starts a new episode *)
  Lemma record_fresh m h key prov now :
    (forall cur, mget h m = Some cur -> same_key (e_key cur) key = false) ->
    snd (fst (fc_record c m h key prov now)) = mk_entry key prov 1%N (now + c_init c).
  Proof.
    intro N0. unfold fc_record. destruct (mget h m) as [cur|] eqn:G; [|reflexivity].
    now rewrite (N0 cur eq_refl).
  Qed.
  Lemma load_question_none_fresh m k :
    load_question H m k = None -> forall cur, mget (hash_q H k) m = Some cur -> same_key (e_key cur) (EQ k) = false.
  Proof.
    unfold load_question. intros L cur G. rewrite G in L.
    destruct (e_key cur) as [k'| |]; cbn; try reflexivity. destruct (qkey_eqb k' k); [discriminate | reflexivity].
  Qed.
  Lemma load_zone_none_fresh m z :
    load_zone H m z = None -> forall cur, mget (hash_z H (norm_zkey z)) m = Some cur -> same_key (e_key cur) (EZ (norm_zkey z)) = false.
  Proof.
    unfold load_zone. intros L cur G. rewrite G in L.
    destruct (e_key cur) as [|z'|]; cbn; try reflexivity. destruct (zkey_eqb z' (norm_zkey z)); [discriminate | reflexivity].
  Qed.

  (* a useful answer resets the backoff: after ResetMatching(k) — and whatever
     happens to OTHER keys afterwards is irrelevant here — the next failure of
     k itself, or of any zone above it, starts again at streak 1 with the
     initial interval *)
  Theorem reset_then_question_restarts m k prov now :
    let m' := fst (fc_reset_matching H m k) in
    snd (fst (fc_record_question H c m' k prov now)) =
      mk_entry (EQ (norm_qkey k)) prov 1%N (now + c_init c).
  Proof.
    cbn. unfold fc_record_question. apply record_fresh. apply load_question_none_fresh.
    unfold fc_reset_matching. destruct (mlen m =? 0) eqn:E0.
    - cbn. destruct m; [reflexivity | discriminate].
    - destruct (fc_reset_question H m (norm_qkey k)) as [m1 ok] eqn:E.
      apply reset_zones_keeps_question_clear.
      replace m1 with (fst (fc_reset_question H m (norm_qkey k))) by now rewrite E.
      rewrite <- (norm_qkey_idem k) at 2. apply reset_question_clears.
  Qed.
  Theorem reset_then_zone_restarts m k z pfx prov now :
    canon_name (qk_name k) = pfx ++ z ->
    let m' := fst (fc_reset_matching H m k) in
    snd (fst (fc_record_zone H c m' (mk_zkey z (qk_class k)) prov now)) =
      mk_entry (EZ (norm_zkey (mk_zkey z (qk_class k)))) prov 1%N (now + c_init c).
  Proof.
    intro E. cbn. unfold fc_record_zone. apply record_fresh. apply load_zone_none_fresh.
    unfold fc_reset_matching. destruct (mlen m =? 0) eqn:E0.
    - cbn. destruct m; [reflexivity | discriminate].
    - destruct (fc_reset_question H m (norm_qkey k)) as [m1 ok].
      cbn [norm_qkey qk_name qk_class]. apply reset_zones_clears.
      apply suffixes_spec. now exists pfx.
  Qed.
  (* idle for at least max after the backoff ended: the streak starts over *)
  Theorem idle_restarts m h key prov now cur :
    mget h m = Some cur -> same_key (e_key cur) key = true ->
    e_retry cur + c_max c <= now ->
    snd (fst (fc_record c m h key prov now)) = mk_entry (e_key cur) prov 1%N (now + c_init c).
  Proof.
    intros G S I. pose proof (valid_bounds c V) as VB. unfold fc_record. rewrite G, S. cbn.
    destruct (now <? e_retry cur) eqn:A; [lia|].
    destruct (now - e_retry cur >=? c_max c) eqn:B; [|lia].
    rewrite (proj1 (proj2 gen_streak_literals)). now rewrite (backoff_first c V).
  Qed.
  (* otherwise a renewal advances the streak by exactly one (saturating) and
     the new interval is at most twice the previous generation's *)
  Theorem renewal_advances_once m h key prov now cur :
    mget h m = Some cur -> same_key (e_key cur) key = true ->
    e_retry cur <= now < e_retry cur + c_max c -> (1 <= e_streak cur)%N ->
    let e' := snd (fst (fc_record c m h key prov now)) in
    e_streak e' = (if (e_streak cur <? 4294967295)%N then e_streak cur + 1 else e_streak cur)%N /\
    e_retry e' = now + backoff c (e_streak e') /\
    backoff c (e_streak e') <= 2 * backoff c (e_streak cur).
  Proof.
    intros G S I L. cbn. unfold fc_record. rewrite G, S. cbn.
    destruct (now <? e_retry cur) eqn:A; [lia|].
    destruct (now - e_retry cur >=? c_max c) eqn:B; [lia|].
    rewrite (proj2 (proj2 gen_streak_literals)). cbn.
    destruct (e_streak cur <? 4294967295)%N eqn:Sat; repeat split.
    - apply (backoff_doubles_at_most c V); exact L.
    - pose proof (backoff_range c V (e_streak cur)). pose proof (valid_bounds c V). lia.
  Qed.
  (* while a generation is active, recording again changes nothing *)
  Theorem record_idempotent_while_active m h key prov now cur :
    mget h m = Some cur -> same_key (e_key cur) key = true -> now < e_retry cur ->
    fc_record c m h key prov now = (m, cur, false).
  Proof.
    intros G S A. unfold fc_record. rewrite G, S. cbn.
    destruct (now <? e_retry cur) eqn:E; [reflexivity | lia].
  Qed.

  (* ------------------------------------------------- retry-key convergence *)
  (* Different names below the same failed zone elect one probe: if the zone z
     is the closest zone with retained state for both names (nothing retained
     strictly between the name and z), both get the same retry key. *)
  Lemma scan_zones_skip m front rest cl now acc :
    (forall s, In s front -> load_zone H m (mk_zkey s cl) = None) ->
    scan_zones H m (front ++ rest) cl now acc = scan_zones H m rest cl now acc.
  Proof.
    induction front as [|s front IH]; intro N0; cbn; [reflexivity|].
    rewrite (N0 s (or_introl eq_refl)). apply IH. intros s' I. apply N0. now right.
  Qed.
  Theorem retry_key_converges m now cl z p1 p2 t1 t2 cd1 cd2 sc1 sc2 :
    mlen m <> 0 ->
    (forall p' q, p1 = q ++ p' -> p' <> [] -> load_zone H m (mk_zkey (canon_name (p' ++ z)) cl) = None) ->
    (forall p' q, p2 = q ++ p' -> p' <> [] -> load_zone H m (mk_zkey (canon_name (p' ++ z)) cl) = None) ->
    load_question H m (norm_qkey (mk_qkey (p1 ++ z) t1 cl cd1 sc1)) = None ->
    load_question H m (norm_qkey (mk_qkey (p2 ++ z) t2 cl cd2 sc2)) = None ->
    fc_retry_key H m (mk_qkey (p1 ++ z) t1 cl cd1 sc1) now = fc_retry_key H m (mk_qkey (p2 ++ z) t2 cl cd2 sc2) now.
  Proof.
    intros NE N1 N2 Q1 Q2. unfold fc_retry_key.
    destruct (mlen m =? 0) eqn:E0; [lia|]. rewrite Q1, Q2.
    cbn [norm_qkey qk_name qk_class].
    assert (S : forall p, (forall p' q, p = q ++ p' -> p' <> [] -> load_zone H m (mk_zkey (canon_name (p' ++ z)) cl) = None) ->
                scan_zones H m (suffixes (canon_name (p ++ z))) cl now None =
                scan_zones H m (suffixes (canon_name z)) cl now None).
    { intros p N0. unfold canon_name at 1. rewrite map_app. fold (canon_name p). fold (canon_name z).
      destruct (suffixes_app (canon_name p) (canon_name z)) as [front [E F]]. rewrite E.
      apply scan_zones_skip. intros s I. apply F in I as [q1 [q2 [E1 [Ne ->]]]].
      unfold canon_name in E1. apply map_eq_app in E1 as [a [b [Ep [Ea Eb]]]].
      subst q1 q2. specialize (N0 b a Ep).
      assert (b <> []) by (intro; subst; now apply Ne).
      specialize (N0 H0). unfold canon_name in N0. rewrite map_app in N0. exact N0. }
    now rewrite (S p1 N1), (S p2 N2).
  Qed.
  (* the general form: whatever exact history the two questions have (as long
     as it is not active), an expired zone at or above z with no active zone
     on the way decides the key for both *)
  Theorem retry_key_below_expired_zone m now cl z p t cd sc h :
    (forall p' q, p = q ++ p' -> p' <> [] -> load_zone H m (mk_zkey (canon_name (p' ++ z)) cl) = None) ->
    (forall e, load_question H m (norm_qkey (mk_qkey (p ++ z) t cl cd sc)) = Some e -> e_retry e <= now) ->
    scan_zones H m (suffixes (canon_name z)) cl now None = ZExpired h ->
    fc_retry_key H m (mk_qkey (p ++ z) t cl cd sc) now = Some h.
  Proof.
    intros N0 Q S. unfold fc_retry_key.
    destruct (mlen m =? 0) eqn:E0.
    { destruct m; [|discriminate]. exfalso. revert S. generalize (suffixes (canon_name z)).
      intro zs; induction zs as [|z0 zs IH]; cbn; [discriminate | exact IH]. }
    cbn [norm_qkey qk_name qk_class] in *.
    assert (S' : scan_zones H m (suffixes (canon_name (p ++ z))) cl now None = ZExpired h).
    { rewrite <- S. unfold canon_name at 1. rewrite map_app. fold (canon_name p). fold (canon_name z).
      destruct (suffixes_app (canon_name p) (canon_name z)) as [front [E F]]. rewrite E.
      apply scan_zones_skip. intros s I. apply F in I as [q1 [q2 [E1 [Ne ->]]]].
      unfold canon_name in E1. apply map_eq_app in E1 as [a [b [Ep [Ea Eb]]]].
      subst q1 q2. specialize (N0 b a Ep).
      assert (Hb : b <> []) by (intro; subst; now apply Ne).
      specialize (N0 Hb). unfold canon_name in N0. rewrite map_app in N0. exact N0. }
    rewrite S'.
    destruct (load_question H m _) as [e|] eqn:L; [|reflexivity].
    specialize (Q e eq_refl). destruct (now <? e_retry e) eqn:A; [lia | reflexivity].
  Qed.
End Cache.

(* ------------------------------------------------------ admission filters *)
(* work-budget exhaustion, client deadline or cancellation, optional
   enrichment and marked responses (attempt limit, probe limit = shed load,
   max recursion) never become shared state *)
Theorem cacheable_iff_not_local r : cacheable_failure r = negb (request_local r).
Proof. destruct r as [[] [] [] []]; reflexivity. Qed.

Theorem request_local_not_recorded H c s k r now :
  request_local r = true -> serve_writeback H c s k (DFail r) now = s.
Proof. intro L. cbn. rewrite cacheable_iff_not_local, L. reflexivity. Qed.

Theorem request_local_serve_leaves_state H c s k r now :
  request_local r = true -> fst (serve H c s k (DFail r) now) = s.
Proof.
  intro L. unfold serve. destruct (st_lookup_failure H s k now); [reflexivity|].
  cbn [fst]. now apply request_local_not_recorded.
Qed.

Theorem zone_failure_local_not_admitted ze be ce ob x :
  ze || be || ce || ob || cause_local x = true -> zone_failure_admitted ze be ce ob x = false.
Proof. unfold zone_failure_admitted. intros ->. reflexivity. Qed.

(* ---- glue-less delegations -------------------------------------------------------------- *)
Lemma glueless_walk_noauth hosts limited k n :
  glueless_walk hosts limited k = (GLNoAuth, n) ->
  limited = false /\ forallb nshost_no_addr hosts = true /\ n = (k + length hosts)%nat.
Proof.
  revert limited k. induction hosts as [|[| |x] r IH]; intros limited k E; cbn in E.
  - destruct limited; [discriminate|]. injection E as <-. repeat split. cbn. lia.
  - apply IH in E as (L & F & N). cbn [forallb nshost_no_addr length]. repeat split; auto. lia.
  - apply IH in E as (L & _ & _). discriminate.
  - discriminate.
Qed.
Lemma glueless_walk_local hosts limited k x n :
  Forall (fun h => match h with NHFatal y => fatal_cause y = true | _ => True end) hosts ->
  glueless_walk hosts limited k = (GLLocal x, n) -> cause_local x = true.
Proof.
  intros F. revert limited k. induction F as [|h r Hh _ IH]; intros limited k E; cbn in E.
  - destruct limited; [|discriminate]. injection E as <- _. reflexivity.
  - destruct h as [| |y]; [now apply IH in E | now apply IH in E|].
    injection E as <- _. destruct y; cbn in Hh; try discriminate; reflexivity.
Qed.
(* a zone failure is filed only when every host was looked up and had no address; every other end
   of the walk is a request-local cause, which recordResolutionZoneFailure would refuse as well *)
Theorem glueless_publishes_only_when_every_host_had_no_address hosts be ce ob :
  glueless_published hosts be ce ob = true ->
  forallb nshost_no_addr hosts = true /\ snd (glueless hosts) = length hosts /\ be || ce || ob = false.
Proof.
  unfold glueless_published, glueless. destruct (glueless_walk hosts false 0) as [o n] eqn:E. cbn [fst snd].
  destruct o; [|discriminate]. intros P.
  apply glueless_walk_noauth in E as (_ & F & N). repeat split; auto.
  unfold zone_failure_admitted in P. cbn in P. destruct be, ce, ob; cbn in *; congruence.
Qed.
Theorem glueless_other_ends_are_request_local hosts x be ce ob :
  Forall (fun h => match h with NHFatal y => fatal_cause y = true | _ => True end) hosts ->
  fst (glueless hosts) = GLLocal x ->
  cause_local x = true /\ zone_failure_admitted false be ce ob x = false.
Proof.
  intros F E. unfold glueless in E. destruct (glueless_walk hosts false 0) as [o n] eqn:W. cbn in E. subst o.
  pose proof (glueless_walk_local _ _ _ _ _ F W) as L. split; [exact L|].
  apply zone_failure_local_not_admitted. rewrite L. now rewrite !orb_true_r.
Qed.
Example ex_glueless :
  glueless [NHNoAddr; NHAttemptLimit; NHNoAddr] = (GLLocal CAttemptLimit, 3%nat) /\
  glueless [NHNoAddr; NHNoAddr] = (GLNoAuth, 2%nat) /\
  glueless_published [NHNoAddr; NHNoAddr] false false false = true /\
  glueless_published [NHNoAddr; NHNoAddr] false false true = false /\
  glueless [NHNoAddr; NHFatal CWorkLimit; NHNoAddr] = (GLLocal CWorkLimit, 2%nat).
Proof. repeat split; reflexivity. Qed.

(* a zone failure is published only for a zone every one of whose servers
   failed to give a usable response *)
Theorem zone_failure_needs_every_server_to_fail servers :
  zone_failure_published servers = true -> forall b, In b servers -> usable b = false.
Proof.
  unfold zone_failure_published. intros E b I.
  destruct (usable b) eqn:U; [|reflexivity].
  assert (existsb usable servers = true) by (apply existsb_exists; eauto).
  rewrite H in E. discriminate.
Qed.

(* Shed load never becomes shared state: every load-shedding error class —
   the resolver's capacity sentinels (since 950da92 they wrap
   middleware.ErrResolutionCapacity, which IsRequestLocalResolutionError lists)
   and the cache's probe limit — is marked request-local by the handler, so the
   write-back of its SERVFAIL leaves the store untouched. *)
Theorem marked_errors_not_recorded H c s k e now :
  is_request_local_error e = true -> serve_writeback H c s k (DFail (handler_failure e)) now = s.
Proof. intro L. apply request_local_not_recorded. unfold handler_failure, request_local; cbn. now rewrite L. Qed.

Theorem shed_load_is_request_local e : shed_load e = true -> request_local (handler_failure e) = true.
Proof. destruct e; cbn; intro E; try discriminate; reflexivity. Qed.

Theorem shed_load_never_recorded H c s k e now :
  shed_load e = true ->
  serve_writeback H c s k (DFail (handler_failure e)) now = s /\ fst (serve H c s k (DFail (handler_failure e)) now) = s.
Proof.
  intro E. apply shed_load_is_request_local in E.
  split; [now apply request_local_not_recorded | now apply request_local_serve_leaves_state].
Qed.

(* the unrepaired variant (before 950da92 the two capacity classes were not
   listed): kept as an example of what the check reported *)
Definition is_request_local_error_before_950da92 (e : rerr) : bool :=
  match e with RCapacityGlobal | RCapacityZone => false | _ => is_request_local_error e end.
Example shed_load_was_recorded_before_fix :
  shed_load RCapacityGlobal = true /\
  cacheable_failure (mk_req_local false false false (is_request_local_error_before_950da92 RCapacityGlobal)) = true.
Proof. split; reflexivity. Qed.

(* -------------------------------------------------------- the kill switch *)
Section Disabled.
  Variable H : qkey -> N.
  Variable c : cfg.
  Variable s : store.
  Hypothesis Off : s_disabled s = true.

  Theorem disabled_is_inert :
    (forall k p now, st_record_failure H c s k p now = (s, None, false)) /\
    (forall cl z now, st_record_zone_failure H c s cl z now = (s, None, false)) /\
    (forall cl z, st_clear_zone_failure H s cl z = s) /\
    (forall k now, st_lookup_failure H s k now = None) /\
    (forall n t cl cd now, st_lookup_failure_wire H s n t cl cd now = None) /\
    (forall k now, st_retry_key H s k now = None) /\
    (forall k, st_reset_question H s k = s) /\
    (forall k, st_reset_matching H s k = s) /\
    (forall n t cl, st_purge s n t cl = s) /\
    st_failure_len s = 0 /\
    (forall k d now, serve H c s k d now = (s, SDownstream)).
  Proof.
    unfold st_record_failure, st_record_zone_failure, st_clear_zone_failure, st_lookup_failure,
      st_lookup_failure_wire, st_retry_key, st_reset_question, st_reset_matching, st_purge, st_failure_len, serve.
    repeat split; intros; try (rewrite Off; reflexivity).
    unfold st_lookup_failure. rewrite Off. f_equal.
    destruct d; cbn.
    - destruct (cacheable_failure r); [|reflexivity]. unfold st_record_failure. now rewrite Off.
    - unfold st_reset_matching, st_reset_question. destruct stored_scoped; now rewrite !Off.
    - reflexivity.
  Qed.
End Disabled.

(* --------------------------------------------------------------- examples *)
(* hypotheses are satisfiable by non-trivial states *)
Definition exH (k : qkey) : N := N.of_nat (length (qk_name k)) + qk_type k.   (* a hash full of collisions *)
Definition ex_cfg := mk_cfg default_initial_ttl default_max_ttl.
Definition ex_www : qkey := mk_qkey [[119;119;119];[101;120]]%N 1 1 false None.
Definition ex_ftp : qkey := mk_qkey [[102;116;112];[101;120]]%N 1 1 false None.   (* collides with ex_www under exH *)
Definition ex_hist : list (Z * mop) :=
  [(0, MRecQ ex_www 1%N); (1000000000, MRecZ (mk_zkey [[101;120]]%N 1) 2%N); (2000000000, MRecQ ex_ftp 1%N)].
Example ex_collision_evicts_not_serves :
  (* ftp's record evicted www's colliding state; www is then served by the zone, never by ftp's entry *)
  option_map e_key (fc_lookup exH (run_hist exH ex_cfg [] ex_hist) ex_www 3000000000) = Some (EZ (mk_zkey [[101;120]]%N 1)) /\
  option_map e_key (fc_lookup exH (run_hist exH ex_cfg [] ex_hist) ex_ftp 3000000000) = Some (EQ ex_ftp) /\
  monotone 0 ex_hist.
Proof. vm_compute. repeat split; discriminate. Qed.

(* two different names below one expired zone failure, one of them with an
   expired failure of its own: both are given the zone's retry key
   (hypotheses of retry_key_below_expired_zone / single_probe_partial) *)
Definition ex_zone : name := [[101;120]]%N.
Definition ex_probe_state : fmap :=
  run_hist exH ex_cfg [] [(0, MRecZ (mk_zkey ex_zone 1) 2%N); (0, MRecQ ex_www 1%N)].
Example ex_single_probe_key :
  let now := 6000000000 in
  scan_zones exH ex_probe_state (suffixes (canon_name ex_zone)) 1 now None = ZExpired (hash_z exH (mk_zkey ex_zone 1)) /\
  fc_retry_key exH ex_probe_state ex_www now = Some (hash_z exH (mk_zkey ex_zone 1)) /\
  fc_retry_key exH ex_probe_state (mk_qkey [[113];[101;120]]%N 28 1 true None) now = Some (hash_z exH (mk_zkey ex_zone 1)).
Proof. vm_compute. repeat split; reflexivity. Qed.

(* consecutive failures of one question, each arriving when the previous
   backoff has just ended: 5 s, 10 s, 20 s ... capped at 5 min; a failure
   arriving max after the end starts over (hypotheses of renewal_advances_once
   and idle_restarts) *)
Fixpoint ex_fail_again (n : nat) (m : fmap) (now : Z) : list (N * Z) :=
  match n with
  | O => []
  | S n' =>
      let '(m', e, _) := fc_record_question exH ex_cfg m ex_www 1%N now in
      (e_streak e, e_retry e - now) :: ex_fail_again n' m' (e_retry e)
  end.
Example ex_backoff_in_action :
  ex_fail_again 9 [] 0 =
  [(1%N, 5000000000); (2%N, 10000000000); (3%N, 20000000000); (4%N, 40000000000); (5%N, 80000000000);
   (6%N, 160000000000); (7%N, 300000000000); (8%N, 300000000000); (9%N, 300000000000)].
Proof. vm_compute. reflexivity. Qed.
Example ex_idle_restart :
  let '(m1, e1, _) := fc_record_question exH ex_cfg [] ex_www 1%N 0 in
  let '(m2, e2, _) := fc_record_question exH ex_cfg m1 ex_www 1%N (e_retry e1) in
  let '(_, e3, _) := fc_record_question exH ex_cfg m2 ex_www 1%N (e_retry e2 + c_max ex_cfg) in
  (e_streak e2, e_streak e3, e_retry e3 - (e_retry e2 + c_max ex_cfg)) = (2%N, 1%N, c_init ex_cfg).
Proof. vm_compute. reflexivity. Qed.
(* a request-local cause, and a store with the switch off *)
Example ex_request_local : request_local (mk_req_local false true false false) = true /\
  zone_failure_admitted false false false false CAttemptLimit = false /\ zone_failure_admitted false false false false CNetwork = true /\
  zone_failure_admitted false false false true CNetwork = false.
Proof. repeat split; reflexivity. Qed.
Example ex_disabled_store_keeps_state :
  let s := mk_store ex_probe_state true in
  serve exH ex_cfg s ex_www (DFail (mk_req_local false false false false)) 1 = (s, SDownstream) /\
  serve exH ex_cfg (mk_store ex_probe_state false) ex_www (DFail (mk_req_local false false false false)) 1
    = (mk_store ex_probe_state false, SCachedFailure).
Proof. vm_compute. repeat split; reflexivity. Qed.
