(* C13 — the ancestor walk of Lookup / RetryKey / ResetMatching
   (walkFailureZones) as TRANSLATED from the Go source, together with miekg's
   dns.NextLabel from the module cache (Gen/C13.v: go_walkFailureZones_loop1,
   go_NextLabel), tied to the model's [suffixes].

   Scope of the tie: names whose labels are non-empty and are written in
   presentation form with the escapes \. for a dot and \\ for a backslash
   INSIDE a label, every other octet literally ([esc_label]).  That is miekg's
   rendering for labels over letters, digits, hyphen, underscore, dot, backslash; octets
   miekg writes as \DDD or with another \c escape (blank, parentheses,
   semicolon, at-sign, double quote, control and high octets) are outside the lemma and stay tied
   differentially by the unit driver.  The escaped dot is exactly where a
   text-level walk goes wrong (seeded C13-4, C13-9).
   The callback [visit] is a Coq function of the zone string, i.e. the statement
   treats it as a PURE function of its argument (the Go closures also read the
   failure map, which the walk itself never writes).

   The NextLabel lemmas follow the plan of C02/Proofs_Gen.v (next_label_loop),
   generalised to escapes and restated against Gen.C13's own copy of the
   translation so that C13 does not depend on C02's theories. *)
From Sdns Require Import Common.Base Common.GoList Gen.C13 C13.Model C13.Proofs_Base.
Open Scope Z_scope.

(* ---- presentation strings *)
Definition esc_byte (b : N) : list N := if ((b =? 46) || (b =? 92))%N then [92%N; b] else [b].
Definition esc_label (l : label) : list N := flat_map esc_byte l.
Definition wf_name (n : name) : Prop := Forall (fun l : label => l <> []) n.
Definition pres_dots (n : name) : list N := flat_map (fun l => esc_label l ++ [46%N]) n.
(* the root is "." *)
Definition present (n : name) : list N := match n with [] => [46%N] | _ => pres_dots n end.
Definition is_nil {A} (l : list A) : bool := match l with [] => true | _ => false end.

Lemma go_idx_app_r' {A} (d : A) p s k : 0 <= k -> go_idx d (p ++ s) (go_len p + k) = go_idx d s k.
Proof.
  intros Hk. unfold go_len. rewrite !go_idx_nth by lia.
  replace (Z.to_nat (Z.of_nat (length p) + k)) with (length p + Z.to_nat k)%nat by lia.
  apply app_nth2_plus.
Qed.
Lemma go_idx_mid' {A} (d : A) p x s : go_idx d (p ++ x :: s) (go_len p) = x.
Proof. replace (go_len p) with (go_len p + 0) by lia. rewrite go_idx_app_r' by lia. apply go_idx_0. Qed.
Lemma go_slice_from_app' {A} (p r : list A) : go_slice_from (p ++ r) (go_len p) = r.
Proof. unfold go_slice_from, go_len. rewrite Nat2Z.id, skipn_app, skipn_all, Nat.sub_diag. reflexivity. Qed.

Ltac norm_len := repeat (rewrite go_len_app || rewrite go_len_cons || rewrite (@go_len_nil N) || rewrite (@go_len_nil (list N))).

(* ---- backslash runs *)
Fixpoint tb (r : list N) : nat :=
  match r with
  | x :: r' => if (x =? 92)%N then S (tb r') else O
  | [] => O
  end.
(* the number of backslashes p ends in *)
Definition trail (p : list N) : nat := tb (rev p).

Lemma trail_snoc_bs p : trail (p ++ [92%N]) = S (trail p).
Proof. unfold trail. rewrite rev_app_distr. reflexivity. Qed.
Lemma trail_snoc_other p b : (b =? 92)%N = false -> trail (p ++ [b]) = O.
Proof. intro E. unfold trail. rewrite rev_app_distr. cbn. now rewrite E. Qed.
Lemma trail_le p : (trail p <= length p)%nat.
Proof.
  unfold trail. rewrite <- rev_length. induction (rev p) as [|x r IH]; cbn; [lia|].
  destruct (x =? 92)%N; lia.
Qed.

Lemma esc_label_snoc l b : esc_label (l ++ [b]) = esc_label l ++ esc_byte b.
Proof. unfold esc_label. rewrite flat_map_app. cbn. now rewrite app_nil_r. Qed.
Lemma esc_label_cons b l : esc_label (b :: l) = esc_byte b ++ esc_label l.
Proof. reflexivity. Qed.

(* a complete rendering of some octets ends in an EVEN number of backslashes:
   the dot that follows it is a real label end *)
Lemma trail_app_esc_even X l : Nat.even (trail X) = true -> Nat.even (trail (X ++ esc_label l)) = true.
Proof.
  intro HX. induction l as [|b l IH] using rev_ind; [now rewrite app_nil_r|].
  rewrite esc_label_snoc, app_assoc. unfold esc_byte.
  destruct (b =? 46)%N eqn:E46; cbn [orb].
  - apply N.eqb_eq in E46. subst. change [92%N; 46%N] with ([92%N] ++ [46%N]). rewrite app_assoc.
    now rewrite trail_snoc_other.
  - destruct (b =? 92)%N eqn:E92.
    + apply N.eqb_eq in E92. subst. change [92%N; 92%N] with ([92%N] ++ [92%N]). rewrite app_assoc.
      rewrite !trail_snoc_bs. cbn [Nat.even]. exact IH.
    + now rewrite trail_snoc_other.
Qed.
Lemma trail_esc_even l : Nat.even (trail (esc_label l)) = true.
Proof. apply (trail_app_esc_even [] l). reflexivity. Qed.

Definition ends_plain (p0 : list N) : Prop := p0 = [] \/ exists q x, p0 = q ++ [x] /\ (x =? 92)%N = false.
Lemma trail_split p : exists p0 k, p = p0 ++ repeat 92%N k /\ k = trail p /\ ends_plain p0.
Proof.
  induction p as [|b p IH] using rev_ind.
  - exists [], O. repeat split. now left.
  - destruct (b =? 92)%N eqn:E.
    + apply N.eqb_eq in E. subst. destruct IH as [p0 [k [E1 [E2 E3]]]].
      exists p0, (S k). repeat split; [|now rewrite trail_snoc_bs, E2 | exact E3].
      rewrite E1 at 1. rewrite <- app_assoc. f_equal. cbn [repeat]. apply eq_sym, repeat_cons.
    + exists (p ++ [b]), O. repeat split; [cbn; now rewrite app_nil_r | now rewrite trail_snoc_other |].
      right. exists p, b. now split.
Qed.

Lemma go_len_repeat (p0 : list N) k : go_len (p0 ++ repeat 92%N k) = go_len p0 + Z.of_nat k.
Proof. unfold go_len. rewrite app_length, repeat_length. lia. Qed.

(* NextLabel's inner loop: counts the backslashes in front of position i *)
Lemma next_label_loop2_run fuel off i e : forall k p0 rest lf, ends_plain p0 -> (k < lf)%nat ->
  go_NextLabel_loop2 fuel lf (p0 ++ repeat 92%N k ++ rest) off i e (go_len p0 + Z.of_nat k - 1) =
  (GoNext, (p0 ++ repeat 92%N k ++ rest, off, i, e, go_len p0 - 1)).
Proof.
  induction k as [|k IH]; intros p0 rest lf EP L; (destruct lf as [|lf]; [lia|]); cbn [go_NextLabel_loop2 repeat app].
  - replace (go_len p0 + Z.of_nat 0 - 1) with (go_len p0 - 1) by lia.
    destruct EP as [-> | [q [x [-> Ex]]]].
    + cbn. reflexivity.
    + norm_len. replace (go_len q + (1 + 0) - 1) with (go_len q) by lia.
      rewrite <- app_assoc. cbn [app]. rewrite go_idx_mid', Ex, andb_false_r. reflexivity.
  - replace (92%N :: repeat 92%N k ++ rest) with (repeat 92%N k ++ 92%N :: rest)
      by (change (92%N :: repeat 92%N k ++ rest) with ((92%N :: repeat 92%N k) ++ rest); rewrite repeat_cons, <- app_assoc; reflexivity).
    replace (go_len p0 + Z.of_nat (S k) - 1) with (go_len (p0 ++ repeat 92%N k)) by (rewrite go_len_repeat; lia).
    rewrite app_assoc, go_idx_mid'. cbn [N.eqb Pos.eqb andb].
    replace (0 <=? go_len (p0 ++ repeat 92%N k)) with true by (symmetry; apply Z.leb_le; apply go_len_nonneg).
    cbn [andb]. rewrite <- app_assoc.
    replace (go_len (p0 ++ repeat 92%N k) - 1) with (go_len p0 + Z.of_nat k - 1) by (rewrite go_len_repeat; lia).
    apply IH; [exact EP | lia].
Qed.

Lemma next_label_loop2 fuel off i e p rest lf : (trail p < lf)%nat ->
  go_NextLabel_loop2 fuel lf (p ++ rest) off i e (go_len p - 1) =
  (GoNext, (p ++ rest, off, i, e, go_len p - 1 - Z.of_nat (trail p))).
Proof.
  intro L. destruct (trail_split p) as [p0 [k [E1 [E2 E3]]]]. rewrite <- E2 in *.
  rewrite E1, <- app_assoc.
  replace (go_len (p0 ++ repeat 92%N k) - 1) with (go_len p0 + Z.of_nat k - 1) by (rewrite go_len_repeat; lia).
  rewrite next_label_loop2_run by assumption. do 2 f_equal. lia.
Qed.

Lemma rem_parity t : (Z.rem (-1 - Z.of_nat t) 2 =? 0) = Nat.odd t.
Proof.
  replace (-1 - Z.of_nat t) with (- (Z.of_nat t + 1)) by lia.
  rewrite Z.rem_opp_l by lia. rewrite Z.rem_mod_nonneg by lia.
  destruct (Nat.odd t) eqn:O.
  - apply Nat.odd_spec in O. destruct O as [m ->]. apply Z.eqb_eq. lia.
  - assert (Ev : Nat.even t = true) by (rewrite <- Nat.negb_odd, O; reflexivity).
    apply Nat.even_spec in Ev. destruct Ev as [m ->]. apply Z.eqb_neq. lia.
Qed.

(* ---- NextLabel's outer loop, one position at a time *)
Section Loop1.
  Variable fuel : nat.
  Variable off : Z.
  Variable e : bool.

  Lemma step_plain p x t lf : (x =? 46)%N = false -> t <> [] ->
    go_NextLabel_loop1 fuel (S lf) (p ++ x :: t) off (go_len p) e =
    go_NextLabel_loop1 fuel lf (p ++ x :: t) off (go_len p + 1) e.
  Proof.
    intros Ex Ht. cbn [go_NextLabel_loop1].
    replace (go_len p <? go_len (p ++ x :: t) - 1) with true
      by (symmetry; apply Z.ltb_lt; norm_len; destruct t; [congruence|]; norm_len; pose proof (go_len_nonneg t); lia).
    rewrite go_idx_mid', Ex. reflexivity.
  Qed.

  Lemma step_escaped_dot p t lf : Nat.odd (trail p) = true -> t <> [] -> (trail p < fuel)%nat ->
    go_NextLabel_loop1 fuel (S lf) (p ++ 46%N :: t) off (go_len p) e =
    go_NextLabel_loop1 fuel lf (p ++ 46%N :: t) off (go_len p + 1) e.
  Proof.
    intros Ho Ht Lf. cbn [go_NextLabel_loop1].
    replace (go_len p <? go_len (p ++ 46%N :: t) - 1) with true
      by (symmetry; apply Z.ltb_lt; norm_len; destruct t; [congruence|]; norm_len; pose proof (go_len_nonneg t); lia).
    rewrite go_idx_mid'. cbn [N.eqb Pos.eqb negb].
    rewrite next_label_loop2 by exact Lf.
    replace (go_len p - 1 - Z.of_nat (trail p) - go_len p) with (-1 - Z.of_nat (trail p)) by lia.
    rewrite rem_parity, Ho. reflexivity.
  Qed.

  Lemma stop_at_dot p r lf : Nat.even (trail p) = true -> (trail p < fuel)%nat ->
    go_NextLabel_loop1 fuel (S lf) (p ++ 46%N :: r) off (go_len p) e =
    (if is_nil r then GoNext else GoRet (go_len p + 1, false), (p ++ 46%N :: r, off, go_len p, e)).
  Proof.
    intros He Lf. cbn [go_NextLabel_loop1]. destruct r as [|y r]; cbn [is_nil].
    - replace (go_len p <? go_len (p ++ [46%N]) - 1) with false by (symmetry; apply Z.ltb_ge; norm_len; lia). reflexivity.
    - replace (go_len p <? go_len (p ++ 46%N :: y :: r) - 1) with true
        by (symmetry; apply Z.ltb_lt; norm_len; pose proof (go_len_nonneg r); lia).
      rewrite go_idx_mid'. cbn [N.eqb Pos.eqb negb].
      rewrite next_label_loop2 by exact Lf.
      replace (go_len p - 1 - Z.of_nat (trail p) - go_len p) with (-1 - Z.of_nat (trail p)) by lia.
      rewrite rem_parity, <- Nat.negb_even, He. reflexivity.
  Qed.

  (* scanning the rest [l] of a label whose first octets [l0] are already behind *)
  Lemma next_label_loop r : forall l l0 lf,
    (length (esc_label l0 ++ esc_label l) < fuel)%nat -> (length (esc_label l) < lf)%nat ->
    go_NextLabel_loop1 fuel lf (esc_label l0 ++ esc_label l ++ 46%N :: r) off (go_len (esc_label l0)) e =
    (if is_nil r then GoNext else GoRet (go_len (esc_label l0) + go_len (esc_label l) + 1, false),
     (esc_label l0 ++ esc_label l ++ 46%N :: r, off, go_len (esc_label l0) + go_len (esc_label l), e)).
  Proof.
    induction l as [|b l IH]; intros l0 lf Lf Ll.
    - cbn [esc_label flat_map app] in *. destruct lf as [|lf]; [cbn in Ll; lia|].
      rewrite stop_at_dot; [| apply trail_esc_even | pose proof (trail_le (esc_label l0)); rewrite app_nil_r in Lf; lia].
      norm_len. rewrite !Z.add_0_r. reflexivity.
    - (* the string and the lengths with the first octet moved to the part behind *)
      assert (ES : esc_label l0 ++ esc_label (b :: l) ++ 46%N :: r = esc_label (l0 ++ [b]) ++ esc_label l ++ 46%N :: r)
        by (rewrite esc_label_snoc, esc_label_cons, <- !app_assoc; reflexivity).
      assert (EL : go_len (esc_label l0) + go_len (esc_label (b :: l)) = go_len (esc_label (l0 ++ [b])) + go_len (esc_label l))
        by (rewrite esc_label_snoc, esc_label_cons; norm_len; lia).
      assert (Lf' : (length (esc_label (l0 ++ [b]) ++ esc_label l) < fuel)%nat)
        by (rewrite esc_label_snoc, <- app_assoc; rewrite esc_label_cons in Lf; exact Lf).
      assert (Lnum : (length (esc_label l0) + length (esc_byte b) + length (esc_label l) < fuel)%nat)
        by (rewrite esc_label_cons, !app_length in Lf; lia).
      rewrite esc_label_cons, app_length in Ll.
      rewrite EL, ES. rewrite <- (IH (l0 ++ [b]) (lf - length (esc_byte b))%nat Lf') by lia.
      rewrite <- ES. clear IH.
      rewrite esc_label_snoc, esc_label_cons. unfold esc_byte in *.
      destruct (b =? 46)%N eqn:E46; cbn [orb] in *.
      + (* an escaped dot: the backslash, then a dot in front of which the run of backslashes is odd *)
        apply N.eqb_eq in E46. subst b. cbn [length] in *.
        destruct lf as [|[|lf]]; [lia|lia|]. replace (S (S lf) - 2)%nat with lf by lia.
        rewrite <- !app_assoc. cbn [app].
        rewrite step_plain by (reflexivity || discriminate).
        replace (esc_label l0 ++ 92%N :: 46%N :: esc_label l ++ 46%N :: r) with ((esc_label l0 ++ [92%N]) ++ 46%N :: esc_label l ++ 46%N :: r)
          by (rewrite <- app_assoc; reflexivity).
        replace (go_len (esc_label l0) + 1) with (go_len (esc_label l0 ++ [92%N])) by (norm_len; lia).
        rewrite step_escaped_dot.
        * f_equal. norm_len. lia.
        * rewrite trail_snoc_bs, Nat.odd_succ. apply trail_esc_even.
        * destruct (esc_label l); discriminate.
        * pose proof (trail_le (esc_label l0 ++ [92%N])) as TL. rewrite app_length in TL. cbn in TL, Lnum. lia.
      + destruct (b =? 92)%N eqn:E92.
        * apply N.eqb_eq in E92. subst b. cbn [length] in *.
          destruct lf as [|[|lf]]; [lia|lia|]. replace (S (S lf) - 2)%nat with lf by lia.
          rewrite <- !app_assoc. cbn [app].
          rewrite step_plain by (reflexivity || discriminate).
          replace (esc_label l0 ++ 92%N :: 92%N :: esc_label l ++ 46%N :: r) with ((esc_label l0 ++ [92%N]) ++ 92%N :: esc_label l ++ 46%N :: r)
            by (rewrite <- app_assoc; reflexivity).
          replace (go_len (esc_label l0) + 1) with (go_len (esc_label l0 ++ [92%N])) by (norm_len; lia).
          rewrite step_plain by (reflexivity || (destruct (esc_label l); discriminate)).
          f_equal. norm_len. lia.
        * cbn [length] in *. destruct lf as [|lf]; [lia|]. replace (S lf - 1)%nat with lf by lia.
          rewrite <- !app_assoc. cbn [app].
          rewrite step_plain by (exact E46 || (destruct (esc_label l); discriminate)).
          f_equal. norm_len. lia.
  Qed.
End Loop1.

(* dns.NextLabel(s, 0) on a string that starts with a rendered label *)
Lemma next_label fuel (l : label) r : (length (esc_label l) < fuel)%nat ->
  go_NextLabel fuel (esc_label l ++ 46%N :: r) 0 = Some (go_len (esc_label l) + 1, is_nil r).
Proof.
  intro Lf. unfold go_NextLabel.
  destruct (go_list_eqb N.eqb (esc_label l ++ 46%N :: r) []) eqn:E.
  { apply go_bytes_eqb_eq in E. destruct (esc_label l); discriminate. }
  pose proof (next_label_loop fuel 0 false r l [] fuel) as NL.
  cbn [esc_label flat_map app] in NL. rewrite (@go_len_nil N) in NL. rewrite NL by lia.
  destruct (is_nil r); reflexivity.
Qed.

Lemma pres_dots_cons (l : label) (r : name) : pres_dots (l :: r) = esc_label l ++ 46%N :: pres_dots r.
Proof. unfold pres_dots. cbn. rewrite <- app_assoc. reflexivity. Qed.
Lemma esc_label_nonempty (l : label) : l <> [] -> esc_label l <> [].
Proof. destruct l as [|b l]; [congruence|]. intros _. cbn. unfold esc_byte. destruct ((b =? 46) || (b =? 92))%N; discriminate. Qed.
Lemma is_nil_pres_dots n : is_nil (pres_dots n) = is_nil n.
Proof. destruct n as [|l n]; [reflexivity|]. rewrite pres_dots_cons. destruct (esc_label l); reflexivity. Qed.

(* ---- the walk *)
(* where the model's walk over a list of ancestors stops: at the first zone the
   callback refuses, else at the last one (the root: its verdict is not read) *)
Fixpoint walk_stop (visit : list N -> bool) (zs : list name) : name :=
  match zs with
  | [] => []
  | z :: r => match r with
              | [] => z
              | _ => if visit (present z) then walk_stop visit r else z
              end
  end.

Lemma walk_stop_suffixes_cons visit (l : label) (r : name) :
  walk_stop visit (suffixes (l :: r)) = if visit (present (l :: r)) then walk_stop visit (suffixes r) else l :: r.
Proof. destruct r; reflexivity. Qed.

Lemma present_cons_not_root (l : label) (r : name) : l <> [] -> go_list_eqb N.eqb (pres_dots (l :: r)) [46%N] = false.
Proof.
  intro Hl. destruct (go_list_eqb N.eqb (pres_dots (l :: r)) [46%N]) eqn:E; [|reflexivity].
  apply go_bytes_eqb_eq in E. rewrite pres_dots_cons in E. pose proof (esc_label_nonempty l Hl) as NE.
  destruct (esc_label l) as [|x [|y t]]; [congruence | |]; cbn in E; [destruct (pres_dots r)|]; discriminate.
Qed.

Lemma walk_loop fuel visit : forall n lf,
  wf_name n -> Forall (fun l : label => (length (esc_label l) < fuel)%nat) n -> (length n < lf)%nat ->
  go_walkFailureZones_loop1 fuel lf visit (present n) = (GoRet tt, (visit, present (walk_stop visit (suffixes n)))).
Proof.
  induction n as [|l r IH]; intros lf P F L; (destruct lf as [|lf]; [cbn in L; lia|]).
  - (* the root: visited, then the walk ends whatever the verdict *)
    cbn [go_walkFailureZones_loop1 present suffixes walk_stop].
    replace (go_list_eqb N.eqb [46%N] [46%N]) with true by reflexivity.
    rewrite orb_true_r. reflexivity.
  - inversion P as [|? ? Hne Pr]; subst. inversion F as [|? ? Fl Fr]; subst.
    cbn [go_walkFailureZones_loop1]. change (present (l :: r)) with (pres_dots (l :: r)).
    rewrite (present_cons_not_root l r Hne), orb_false_r.
    rewrite walk_stop_suffixes_cons. change (present (l :: r)) with (pres_dots (l :: r)).
    destruct (visit (pres_dots (l :: r))) eqn:Ev; cbn [negb]; [|reflexivity].
    (* NextLabel(zone, 0): the end of the first label, escapes honoured *)
    rewrite pres_dots_cons. rewrite (next_label fuel l (pres_dots r) Fl), is_nil_pres_dots.
    destruct r as [|l2 r2]; cbn [is_nil].
    + (* last label: zone = "." *)
      change [46%N] with (present []). rewrite (IH lf) by (try constructor; cbn in *; lia). reflexivity.
    + replace (esc_label l ++ 46%N :: pres_dots (l2 :: r2)) with ((esc_label l ++ [46%N]) ++ pres_dots (l2 :: r2)) by (rewrite <- app_assoc; reflexivity).
      replace (go_len (esc_label l) + 1) with (go_len (esc_label l ++ [46%N])) by (norm_len; lia).
      rewrite go_slice_from_app'. change (pres_dots (l2 :: r2)) with (present (l2 :: r2)).
      rewrite (IH lf) by (assumption || (cbn in *; lia)). reflexivity.
Qed.

Lemma pres_dots_length_bounds n : wf_name n ->
  Forall (fun l : label => (length (esc_label l) < length (pres_dots n) + 1)%nat) n /\ (length n <= length (pres_dots n))%nat.
Proof.
  induction 1 as [|l r Hne _ [IH1 IH2]]; [split; [constructor | cbn; lia]|].
  rewrite pres_dots_cons, app_length. cbn [length]. split.
  - constructor; [lia|]. eapply Forall_impl; [|exact IH1]. cbn. intros a Ha. lia.
  - pose proof (esc_label_nonempty l Hne). destruct (esc_label l); [congruence|]. cbn [length]. lia.
Qed.

(* The translated loop of walkFailureZones, started on the presentation string
   of a name (escaped dots and backslashes included), hands [visit] the
   presentation strings of the model's ancestor list [suffixes n] in that order
   — closest first, the root last — and stops exactly where the model's walk
   stops.  In particular an escaped dot inside a label is never a cut. *)
Lemma gen_zone_walk fuel visit n :
  wf_name n -> (length (present n) < fuel)%nat ->
  go_walkFailureZones_loop1_run fuel visit (present n) = (GoRet tt, (visit, present (walk_stop visit (suffixes n)))).
Proof.
  intros P F. unfold go_walkFailureZones_loop1_run.
  destruct (pres_dots_length_bounds n P) as [B1 B2].
  assert (E : (length (pres_dots n) <= length (present n))%nat) by (destruct n; cbn; lia).
  apply walk_loop; [exact P | | lia].
  eapply Forall_impl; [|exact B1]. cbn. intros a Ha. lia.
Qed.

(* where that is: the first ancestor the callback refuses, else the last of the
   list (for [suffixes n]: the root) — i.e. the zones are visited in list
   order and nothing after the first refusal is visited *)
Lemma walk_stop_find visit : forall zs z,
  walk_stop visit (zs ++ [z]) =
  match find (fun x => negb (visit (present x))) zs with Some y => y | None => z end.
Proof.
  induction zs as [|a zs IH]; intro z; [reflexivity|].
  cbn [app walk_stop find]. destruct (zs ++ [z]) as [|b t] eqn:E; [destruct zs; discriminate|].
  rewrite <- E. destruct (visit (present a)); cbn [negb]; [apply IH | reflexivity].
Qed.
Lemma suffixes_snoc_root n : exists zs, suffixes n = zs ++ [[]].
Proof.
  induction n as [|l r [zs E]]; [exists []; reflexivity|].
  exists ((l :: r) :: zs). cbn [suffixes app]. now rewrite E.
Qed.

(* the seeded shape (C13-9), computed: the walk over foo\.dead.example. visits
   foo\.dead.example., example., "." — never dead.example. *)
Example escaped_dot_is_not_a_cut :
  let n : name := [[102;111;111;46;100;101;97;100]; [101;120;97;109;112;108;101]]%N in
  let dead_example := [100;101;97;100;46;101;120;97;109;112;108;101;46]%N in
  present n = [102;111;111;92;46;100;101;97;100;46;101;120;97;109;112;108;101;46]%N /\
  go_walkFailureZones_loop1_run 40 (fun z => negb (go_list_eqb N.eqb z dead_example)) (present n) =
    (GoRet tt, (fun z => negb (go_list_eqb N.eqb z dead_example), [46%N])).
Proof. split; vm_compute; reflexivity. Qed.

(* ---- dns.CanonicalName in front of the loop (walkFailureZones' first
   statement, pinned by gen_walk_entry): on ASCII input the translator's
   reading of it is go_canonical_name_ascii = lower-case of the fully
   qualified string.  On the presentation string of a name it is the
   presentation string of the model's [canon_name]: the fold never touches or
   produces a dot or a backslash, and the string already ends in an unescaped dot. *)
Lemma tb_is_go_trailing_backslashes r : go_trailing_backslashes r = tb r.
Proof.
  induction r as [|x r IH]; [reflexivity|]. cbn [tb].
  destruct (x =? 92)%N eqn:E.
  - apply N.eqb_eq in E. subst. cbn. now rewrite IH.
  - apply N.eqb_neq in E. destruct x as [|p]; [reflexivity|].
    repeat (destruct p as [p|p|]; try reflexivity; try (exfalso; apply E; reflexivity)).
Qed.

Lemma lower_is_go_lower b : go_ascii_lower_byte b = lower b.
Proof. reflexivity. Qed.
Lemma esc_byte_lower b : map go_ascii_lower_byte (esc_byte b) = esc_byte (lower b).
Proof.
  unfold esc_byte, go_ascii_lower_byte, lower.
  destruct (b =? 46)%N eqn:E46; [apply N.eqb_eq in E46; subst; reflexivity|].
  destruct (b =? 92)%N eqn:E92; [apply N.eqb_eq in E92; subst; reflexivity|].
  cbn [orb map]. apply N.eqb_neq in E46. apply N.eqb_neq in E92.
  destruct ((65 <=? b) && (b <=? 90))%N eqn:R.
  - replace ((b + 32 =? 46) || (b + 32 =? 92))%N with false; [reflexivity|].
    symmetry. apply orb_false_iff. split; apply N.eqb_neq; lia.
  - replace ((b =? 46) || (b =? 92))%N with false; [reflexivity|].
    symmetry. apply orb_false_iff. split; apply N.eqb_neq; assumption.
Qed.
Lemma esc_label_lower l : go_ascii_lower (esc_label l) = esc_label (canon_label l).
Proof.
  unfold go_ascii_lower, esc_label, canon_label. induction l as [|b l IH]; [reflexivity|].
  cbn [flat_map map]. rewrite map_app, esc_byte_lower, IH. reflexivity.
Qed.
Lemma pres_dots_lower n : go_ascii_lower (pres_dots n) = pres_dots (canon_name n).
Proof.
  induction n as [|l r IH]; [reflexivity|]. cbn [canon_name map]. rewrite !pres_dots_cons.
  unfold go_ascii_lower in *. rewrite map_app. cbn [map]. fold (go_ascii_lower (esc_label l)).
  rewrite esc_label_lower, IH. reflexivity.
Qed.
Lemma present_lower n : go_ascii_lower (present n) = present (canon_name n).
Proof. destruct n as [|l r]; [reflexivity|]. apply (pres_dots_lower (l :: r)). Qed.

Lemma pres_dots_snoc n (l : label) : pres_dots (n ++ [l]) = pres_dots n ++ esc_label l ++ [46%N].
Proof. unfold pres_dots. rewrite flat_map_app. cbn. now rewrite app_nil_r. Qed.
Lemma trail_pres_dots n : trail (pres_dots n) = O.
Proof.
  destruct n as [|l r] using rev_ind; [reflexivity|].
  rewrite pres_dots_snoc, !app_assoc. now apply trail_snoc_other.
Qed.
Lemma present_is_fqdn n : go_is_fqdn_ascii (present n) = true.
Proof.
  destruct n as [|l r] using rev_ind; [reflexivity|].
  assert (E : present (r ++ [l]) = (pres_dots r ++ esc_label l) ++ [46%N])
    by (replace (present (r ++ [l])) with (pres_dots (r ++ [l])) by (destruct r; reflexivity);
        rewrite pres_dots_snoc, <- !app_assoc; reflexivity).
  rewrite E. unfold go_is_fqdn_ascii. rewrite rev_app_distr. cbn [rev app].
  rewrite tb_is_go_trailing_backslashes. apply (trail_app_esc_even (pres_dots r) l).
  now rewrite trail_pres_dots.
Qed.

Lemma gen_canonical_name n : go_canonical_name_ascii (present n) = present (canon_name n).
Proof. unfold go_canonical_name_ascii, go_fqdn_ascii. rewrite present_is_fqdn. apply present_lower. Qed.

(* walkFailureZones(name, visit) = zone := dns.CanonicalName(name); the loop:
   for any spelling of the name's letters the callback sees the FOLDED ancestors *)
Lemma gen_zone_walk_canonical fuel visit n :
  wf_name n -> (length (present n) < fuel)%nat ->
  go_walkFailureZones_loop1_run fuel visit (go_canonical_name_ascii (present n)) =
  (GoRet tt, (visit, present (walk_stop visit (suffixes (canon_name n))))).
Proof.
  intros P F. rewrite gen_canonical_name. apply gen_zone_walk.
  - unfold wf_name, canon_name in *. rewrite Forall_map. eapply Forall_impl; [|exact P].
    intros l Hl. unfold canon_label. destruct l; [congruence|discriminate].
  - rewrite <- gen_canonical_name. unfold go_canonical_name_ascii, go_fqdn_ascii.
    rewrite present_is_fqdn, go_ascii_lower_length. exact F.
Qed.
