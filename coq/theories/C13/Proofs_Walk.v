(* C13 — the ancestor walk of Lookup / RetryKey / ResetMatching
   (walkFailureZones) as TRANSLATED from the Go source, together with miekg's
   dns.NextLabel from the module cache (Gen/C13.v: go_walkFailureZones_loop1,
   go_NextLabel), tied to the model's [suffixes].

   Scope of the tie: escape-free names (every label non-empty, without '.' and
   without '\\'); names with escapes are tied differentially by the unit
   driver (labels containing '.', '\\', blanks, byte 200; seeded C13-4).  The
   loop is translated, dns.CanonicalName in front of it is not: the walk
   starts from the presentation string of the already folded name.  The
   callback [visit] is a Coq function of the zone string, i.e. the statement
   treats it as a PURE function of its argument (the Go closures also read the
   failure map, which the walk itself never writes).

   The NextLabel lemmas follow C02/Proofs_Gen.v (next_label_loop, next_label);
   they are restated here against Gen.C13's own copy of the translation so
   that C13 does not depend on C02's theories. *)
From Sdns Require Import Common.Base Common.GoList Gen.C13 C13.Model C13.Proofs_Base.
Open Scope Z_scope.

(* ---- presentation strings of escape-free names *)
Definition plain_label (l : list N) : Prop := l <> [] /\ ~ In 46%N l /\ ~ In 92%N l.
Definition plain_name (n : name) : Prop := Forall plain_label n.
Definition pres_dots (n : name) : list N := flat_map (fun l => l ++ [46%N]) n.
(* the root is "." *)
Definition present (n : name) : list N := match n with [] => [46%N] | _ => pres_dots n end.
Definition is_nil {A} (l : list A) : bool := match l with [] => true | _ => false end.

Lemma go_idx_app_r' {A} (d : A) p s k : 0 <= k -> go_idx d (p ++ s) (go_len p + k) = go_idx d s k.
Proof.
  intros Hk. unfold go_len. rewrite !go_idx_nth by lia.
  replace (Z.to_nat (Z.of_nat (length p) + k)) with (length p + Z.to_nat k)%nat by lia.
  apply app_nth2_plus.
Qed.
Lemma go_idx_app_l' {A} (d : A) p s k : 0 <= k < go_len p -> go_idx d (p ++ s) k = go_idx d p k.
Proof. intros Hk. unfold go_len in Hk. rewrite !go_idx_nth by lia. apply app_nth1. lia. Qed.
Lemma go_idx_in' {A} (d : A) p k : 0 <= k < go_len p -> In (go_idx d p k) p.
Proof. intros Hk. unfold go_len in Hk. rewrite go_idx_nth by lia. apply nth_In. lia. Qed.
Lemma go_idx_mid' {A} (d : A) p x s : go_idx d (p ++ x :: s) (go_len p) = x.
Proof. replace (go_len p) with (go_len p + 0) by lia. rewrite go_idx_app_r' by lia. apply go_idx_0. Qed.
Lemma go_slice_from_app' {A} (p r : list A) : go_slice_from (p ++ r) (go_len p) = r.
Proof. unfold go_slice_from, go_len. rewrite Nat2Z.id, skipn_app, skipn_all, Nat.sub_diag. reflexivity. Qed.

Ltac norm_len := repeat (rewrite go_len_app || rewrite go_len_cons || rewrite (@go_len_nil N) || rewrite (@go_len_nil (list N))).

(* dns.NextLabel from the start of a label: scans to the next unescaped dot *)
Lemma next_label_loop fuel r off e : (1 <= fuel)%nat -> forall l p lf,
  ~ In 46%N l -> ~ In 92%N (p ++ l) -> (length l < lf)%nat ->
  go_NextLabel_loop1 fuel lf (p ++ l ++ 46%N :: r) off (go_len p) e =
  (if is_nil r then GoNext else GoRet (go_len p + go_len l + 1, false),
   (p ++ l ++ 46%N :: r, off, go_len p + go_len l, e)).
Proof.
  intros Hfuel. induction l as [|x l IH]; intros p lf H46 H92 Hlf; (destruct lf as [|lf]; [cbn in Hlf; lia|]).
  - cbn [go_NextLabel_loop1].
    assert (C : (go_len p <? go_len (p ++ [] ++ 46%N :: r) - 1) = negb (is_nil r)).
    { cbn [app]. destruct r as [|y r']; cbn [is_nil negb]; norm_len; [apply Z.ltb_ge | apply Z.ltb_lt; pose proof (go_len_nonneg r')]; lia. }
    rewrite C. norm_len. rewrite Z.add_0_r. destruct r as [|y r]; cbn [is_nil negb]; [reflexivity|].
    cbn [app]. rewrite go_idx_mid'. cbn [N.eqb negb Pos.eqb].
    destruct fuel as [|f]; [lia|]. cbn [go_NextLabel_loop2].
    assert (E : (0 <=? go_len p - 1) && (go_idx 0%N (p ++ 46%N :: y :: r) (go_len p - 1) =? 92)%N = false).
    { destruct (0 <=? go_len p - 1) eqn:E0; [|reflexivity]. apply Z.leb_le in E0. cbn [andb].
      rewrite go_idx_app_l' by lia. apply N.eqb_neq. intros E. apply H92. rewrite app_nil_r. rewrite <- E. apply go_idx_in'. lia. }
    rewrite E. replace (go_len p - 1 - go_len p) with (-1) by lia. cbn. reflexivity.
  - cbn [go_NextLabel_loop1].
    assert (C : (go_len p <? go_len (p ++ (x :: l) ++ 46%N :: r) - 1) = true).
    { cbn [app]. norm_len. pose proof (go_len_nonneg l). pose proof (go_len_nonneg r). apply Z.ltb_lt. lia. }
    rewrite C. cbn [app]. rewrite go_idx_mid'.
    assert (Hx : (x =? 46)%N = false) by (apply N.eqb_neq; intros ->; apply H46; left; reflexivity). rewrite Hx. cbn [negb].
    replace (p ++ x :: l ++ 46%N :: r) with ((p ++ [x]) ++ l ++ 46%N :: r) by (rewrite <- app_assoc; reflexivity).
    replace (go_len p + 1) with (go_len (p ++ [x])) by (norm_len; lia).
    rewrite IH; [| intros H'; apply H46; right; exact H' | rewrite <- app_assoc; exact H92 | cbn in Hlf; lia].
    norm_len. f_equal; [destruct (is_nil r); [reflexivity | do 2 f_equal; lia] | do 2 f_equal; lia].
Qed.

Lemma next_label fuel p l r :
  ~ In 46%N l -> ~ In 92%N (p ++ l) -> (length l < fuel)%nat ->
  go_NextLabel fuel (p ++ l ++ 46%N :: r) (go_len p) = Some (go_len p + go_len l + 1, is_nil r).
Proof.
  intros H46 H92 Hf. unfold go_NextLabel.
  destruct (go_list_eqb N.eqb (p ++ l ++ 46%N :: r) []) eqn:E.
  { apply go_bytes_eqb_eq in E. destruct p; destruct l; discriminate. }
  rewrite next_label_loop by (assumption || lia). destruct (is_nil r); reflexivity.
Qed.

Lemma pres_dots_cons (l : label) (r : name) : pres_dots (l :: r) = l ++ 46%N :: pres_dots r.
Proof. unfold pres_dots. cbn. rewrite <- app_assoc. reflexivity. Qed.
Lemma is_nil_pres_dots n : plain_name n -> is_nil (pres_dots n) = is_nil n.
Proof. destruct n as [|l n]; [reflexivity|]. intros H. cbn. destruct l; reflexivity. Qed.

(* ---- the walk *)
(* where the model's walk over a list of ancestors stops: at the first zone the
   callback refuses, else at the last one (the root: its verdict is not read) *)
Fixpoint walk_stop (visit : list N -> bool) (zs : list name) : name :=
  match zs with
  | [] => []
  | z :: r => match r with
              | [] => z
              | _ => if visit (present z) then walk_stop visit r else z
              end
  end.

Lemma walk_stop_suffixes_cons visit (l : label) (r : name) :
  walk_stop visit (suffixes (l :: r)) = if visit (present (l :: r)) then walk_stop visit (suffixes r) else l :: r.
Proof. destruct r; reflexivity. Qed.

Lemma present_cons_not_root (l : label) (r : name) : l <> [] -> go_list_eqb N.eqb (pres_dots (l :: r)) [46%N] = false.
Proof.
  intro Hl. destruct (go_list_eqb N.eqb (pres_dots (l :: r)) [46%N]) eqn:E; [|reflexivity].
  apply go_bytes_eqb_eq in E. rewrite pres_dots_cons in E.
  destruct l as [|x [|y l]]; [congruence | destruct r; cbn in E; discriminate | discriminate].
Qed.

Lemma walk_loop fuel visit : forall n lf,
  plain_name n -> Forall (fun l => (length l < fuel)%nat) n -> (length n < lf)%nat ->
  go_walkFailureZones_loop1 fuel lf visit (present n) = (GoRet tt, (visit, present (walk_stop visit (suffixes n)))).
Proof.
  induction n as [|l r IH]; intros lf P F L; (destruct lf as [|lf]; [cbn in L; lia|]).
  - (* the root: visited, then the walk ends whatever the verdict *)
    cbn [go_walkFailureZones_loop1 present suffixes walk_stop].
    replace (go_list_eqb N.eqb [46%N] [46%N]) with true by reflexivity.
    rewrite orb_true_r. reflexivity.
  - inversion P as [|? ? Pl Pr]; subst. inversion F as [|? ? Fl Fr]; subst.
    destruct Pl as [Hne [H46 H92]].
    cbn [go_walkFailureZones_loop1]. change (present (l :: r)) with (pres_dots (l :: r)).
    rewrite (present_cons_not_root l r Hne), orb_false_r.
    rewrite walk_stop_suffixes_cons. change (present (l :: r)) with (pres_dots (l :: r)).
    destruct (visit (pres_dots (l :: r))) eqn:Ev; cbn [negb]; [|reflexivity].
    (* NextLabel(zone, 0): the end of the first label *)
    rewrite pres_dots_cons.
    pose proof (next_label fuel [] l (pres_dots r) H46 H92 Fl) as NL.
    cbn [app] in NL. rewrite (@go_len_nil N) in NL. rewrite NL. rewrite (is_nil_pres_dots r Pr).
    destruct r as [|l2 r2]; cbn [is_nil].
    + (* last label: zone = "." *)
      change [46%N] with (present []). rewrite (IH lf) by (try constructor; cbn in *; lia). reflexivity.
    + replace (l ++ 46%N :: pres_dots (l2 :: r2)) with ((l ++ [46%N]) ++ pres_dots (l2 :: r2)) by (rewrite <- app_assoc; reflexivity).
      replace (0 + go_len l + 1) with (go_len (l ++ [46%N])) by (norm_len; lia).
      rewrite go_slice_from_app'. change (pres_dots (l2 :: r2)) with (present (l2 :: r2)).
      rewrite (IH lf) by (assumption || (cbn in *; lia)). reflexivity.
Qed.

(* The translated loop of walkFailureZones, started on the presentation string
   of an escape-free name, hands [visit] the presentation strings of the
   model's ancestor list [suffixes n] in that order — closest first, the root
   last — and stops exactly where the model's walk stops. *)
Lemma gen_zone_walk fuel visit n :
  plain_name n -> (length (present n) < fuel)%nat ->
  go_walkFailureZones_loop1_run fuel visit (present n) = (GoRet tt, (visit, present (walk_stop visit (suffixes n)))).
Proof.
  intros P F. unfold go_walkFailureZones_loop1_run. apply walk_loop; [exact P| |].
  - (* every label is shorter than the whole string *)
    revert F. clear P. induction n as [|l r IH]; intro F; [constructor|].
    assert (E : present (l :: r) = l ++ 46%N :: pres_dots r) by apply pres_dots_cons.
    rewrite E in F. rewrite app_length in F. cbn [length] in F. constructor; [lia|].
    destruct r as [|l2 r2]; [constructor|]. apply IH. change (present (l2 :: r2)) with (pres_dots (l2 :: r2)). lia.
  - revert F. clear P. induction n as [|l r IH]; intro F; [cbn in *; lia|].
    assert (E : present (l :: r) = l ++ 46%N :: pres_dots r) by apply pres_dots_cons.
    rewrite E in F. rewrite app_length in F. cbn [length] in *.
    destruct r as [|l2 r2]; [cbn; lia|].
    assert (length (l2 :: r2) < length (pres_dots (l2 :: r2)) + 1)%nat.
    { clear. induction (l2 :: r2) as [|a b IHb]; [cbn; lia|]. rewrite pres_dots_cons, app_length. cbn [length]. lia. }
    cbn [length] in *. lia.
Qed.

(* where that is: the first ancestor the callback refuses, else the last of the
   list (for [suffixes n]: the root) — i.e. the zones are visited in list
   order and nothing after the first refusal is visited *)
Lemma walk_stop_find visit : forall zs z,
  walk_stop visit (zs ++ [z]) =
  match find (fun x => negb (visit (present x))) zs with Some y => y | None => z end.
Proof.
  induction zs as [|a zs IH]; intro z; [reflexivity|].
  cbn [app walk_stop find]. destruct (zs ++ [z]) as [|b t] eqn:E; [destruct zs; discriminate|].
  rewrite <- E. destruct (visit (present a)); cbn [negb]; [apply IH | reflexivity].
Qed.
Lemma suffixes_snoc_root n : exists zs, suffixes n = zs ++ [[]].
Proof.
  induction n as [|l r [zs E]]; [exists []; reflexivity|].
  exists ((l :: r) :: zs). cbn [suffixes app]. now rewrite E.
Qed.
