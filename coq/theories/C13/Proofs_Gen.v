(* C13 — ties between the model and functions TRANSLATED from the Go source
   (Gen/C13.v, regenerated on every run):
     go_FailureCache_backoff   = FailureCache.backoff, loop included
     go_failureZoneKeysEqual   = the slot verification of zone entries
   A behaviour-preserving rewrite of the Go code keeps these lemmas provable;
   a behaviour-changing one breaks them. *)
From Sdns Require Import Common.Base Common.GoList Gen.C13 C13.Model C13.Proofs_Base C13.Proofs_Backoff.
Open Scope Z_scope.

Section GenBackoff.
  Variable c : cfg.
  Hypothesis V : cfg_valid c.
  Let init := c_init c.
  Let max := c_max c.
  (* any FailureCache value with these two bounds: the lemma does not depend on
     which other fields of the struct the translator can express *)
  Variable gc : T_FailureCache.
  Hypothesis Hinit : T_FailureCache_initialTTL gc = c_init c.
  Hypothesis Hmax : T_FailureCache_maxTTL gc = c_max c.

  (* what backoff() makes of the loop's outcome *)
  Definition backoff_post (r : go_ctl Z * (T_FailureCache * N * Z * N)) : option Z :=
    match r with
    | (GoRet x, _) => Some x
    | (GoOof, _) => None
    | (GoNext, (gc', _, ttl, _)) => if T_FailureCache_maxTTL gc' <? ttl then Some (T_FailureCache_maxTTL gc') else Some ttl
    end.

  Lemma go_backoff_unfold fuel s :
    go_FailureCache_backoff fuel gc s = backoff_post (go_FailureCache_backoff_loop1 fuel fuel gc s init 1%N).
  Proof.
    unfold go_FailureCache_backoff, backoff_post. rewrite Hinit. fold init.
    destruct (go_FailureCache_backoff_loop1 fuel fuel gc s init 1) as [[ | x | ] [[[g' s'] t'] n']]; reflexivity.
  Qed.

  (* while the loop is still doubling, fewer than nine doublings have happened *)
  Lemma doubling_count_small k t : Z.min max (init * 2 ^ Z.of_nat k) <= t -> t < max -> (k <= 8)%nat.
  Proof.
    pose proof (valid_bounds c V) as B. fold init max in B. intros L Lt.
    destruct (Nat.le_gt_cases k 8) as [|G]; [assumption|exfalso].
    assert (P : 2 ^ 9 <= 2 ^ Z.of_nat k) by (apply Z.pow_le_mono_r; lia).
    change (2 ^ 9) with 512 in P.
    assert (init * 512 <= init * 2 ^ Z.of_nat k) by (apply Z.mul_le_mono_nonneg_l; lia).
    lia.
  Qed.

  (* the generated loop, started with the running ttl after k passes at
     generation g, computes the remaining s - g passes of the model's step *)
  Lemma go_backoff_loop fuel s : (s < 4294967296)%N ->
    forall lf k g t,
      (10 <= lf + k)%nat -> (k <= 9)%nat ->
      init <= t <= max -> Z.min max (init * 2 ^ Z.of_nat k) <= t -> (1 <= g)%N ->
      backoff_post (go_FailureCache_backoff_loop1 fuel lf gc s t g) = Some (backoff_iter c (N.to_nat (s - g)) t).
  Proof.
    pose proof (valid_bounds c V) as B. fold init max in B. intro S32.
    induction lf as [|lf IH]; intros k g t F K R G G1; [lia|].
    cbn [go_FailureCache_backoff_loop1]. rewrite !Hmax. fold max.
    destruct (N.ltb g s) eqn:Egs; cbn [andb].
    - apply N.ltb_lt in Egs.
      destruct (Z.ltb t max) eqn:Etm.
      + apply Z.ltb_lt in Etm.
        replace (N.to_nat (s - g)) with (S (N.to_nat (s - (g + 1)))) by lia.
        cbn [backoff_iter]. rewrite (step_unfold c).
        replace (t <? c_max c) with true by (symmetry; apply Z.ltb_lt; exact Etm).
        rewrite Z.quot_div_nonneg by lia. fold max.
        destruct (Z.ltb (max / 2) t) eqn:Eh.
        * (* return c.maxTTL: the model's step yields max, a fixed point *)
          replace (t >? max / 2) with true by (symmetry; apply Z.gtb_lt; apply Z.ltb_lt; exact Eh).
          cbn [backoff_post]. f_equal. symmetry. apply iter_max.
        * replace (t >? max / 2) with false by (symmetry; rewrite Z.gtb_ltb; exact Eh).
          apply Z.ltb_ge in Eh.
          rewrite wrap32_small by (unfold two32; lia).
          pose proof (doubling_count_small k t G Etm) as K8.
          (* however the source spells the doubling (ttl *= 2, ttl = 2 * ttl, ttl += ttl) *)
          match goal with
          | |- backoff_post (go_FailureCache_backoff_loop1 _ _ _ _ ?x _) = _ => replace (t * 2) with x by lia
          end.
          apply (IH (S k)); try lia.
          rewrite Nat2Z.inj_succ, Z.pow_succ_r by lia.
          assert (0 < 2 ^ Z.of_nat k) by (apply Z.pow_pos_nonneg; lia).
          assert (init * 2 ^ Z.of_nat k <= t) by lia.
          lia.
      + (* ttl reached max: the loop ends, every further model pass is the identity *)
        apply Z.ltb_ge in Etm. assert (t = max) by lia. subst t.
        cbn [backoff_post]. rewrite !Hmax. fold max.
        replace (max <? max) with false by (symmetry; apply Z.ltb_ge; lia).
        f_equal. symmetry. apply iter_max.
    - (* generation reached streak *)
      apply N.ltb_ge in Egs. replace (N.to_nat (s - g)) with 0%nat by lia.
      cbn [backoff_post backoff_iter]. rewrite !Hmax. fold max.
      replace (max <? t) with false by (symmetry; apply Z.ltb_ge; lia). reflexivity.
  Qed.

  (* FailureCache.backoff as translated from the source IS the model's backoff,
     for every valid configuration and every uint32 streak, on any iteration
     budget of ten or more (the loop doubles at most eight times). *)
  Lemma gen_backoff fuel s : (10 <= fuel)%nat -> (s < 4294967296)%N ->
    go_FailureCache_backoff fuel gc s = Some (backoff c s).
  Proof.
    pose proof (valid_bounds c V) as B. fold init max in B. intros F S32.
    rewrite go_backoff_unfold.
    rewrite (go_backoff_loop fuel s S32 fuel 0%nat 1%N init) by (cbn; lia).
    f_equal. rewrite (backoff_fuel_irrelevant c V), (spec_loop_eq c V). fold init.
    f_equal. lia.
  Qed.
End GenBackoff.

(* the translated function on the default configuration, computed *)
Example gen_backoff_default_table : forall gc,
  T_FailureCache_initialTTL gc = default_initial_ttl -> T_FailureCache_maxTTL gc = default_max_ttl ->
  map (go_FailureCache_backoff 10 gc) [0; 1; 2; 7; 4294967295]%N =
  [Some 5000000000; Some 5000000000; Some 10000000000; Some 300000000000; Some 300000000000].
Proof.
  intros gc Hi Hm. cbn [map].
  rewrite !(gen_backoff (mk_cfg default_initial_ttl default_max_ttl) default_cfg_valid gc Hi Hm) by (try lia; reflexivity).
  vm_compute. reflexivity.
Qed.

(* Slot verification of zone entries: the translated failureZoneKeysEqual
   compares the zone's presentation string octet by octet and the class.  Under
   an injective rendering of label lists as presentation strings (the trusted
   name bijection) that is the model's zkey_eqb. *)
Section GenZoneKey.
  Variable pres : name -> list N.
  Hypothesis pres_inj : forall a b, pres a = pres b -> a = b.

  Lemma gen_zone_keys_equal a b :
    go_failureZoneKeysEqual (mk_T_FailureZoneKey (pres (zk_zone a)) (zk_class a))
                            (mk_T_FailureZoneKey (pres (zk_zone b)) (zk_class b)) = zkey_eqb a b.
  Proof.
    unfold go_failureZoneKeysEqual, zkey_eqb. cbn [T_FailureZoneKey_Zone T_FailureZoneKey_Qclass].
    f_equal. apply Bool.eq_true_iff_eq. rewrite go_bytes_eqb_eq, name_eqb_eq.
    split; [apply pres_inj | intros ->; reflexivity].
  Qed.
End GenZoneKey.
