(* C13 — requests that share one dedup key while a miss is resolved
   (Model.v, "Concurrency, part 3"): a follower parked behind a leader whose
   resolution ends in a shared failure is answered from the failure cache —
   nobody of the cohort but the leader sends anything upstream — and a
   leader's request-local failure is served to nobody. *)
From Sdns Require Import Common.Base Gen.C13 C13.Model C13.Proofs_Base C13.Proofs_Backoff C13.Proofs_Cache.
Open Scope Z_scope.

Section Cohort.
  Variable H : qkey -> N.
  Variable c : cfg.
  Hypothesis V : cfg_valid c.

  Lemma mget_some_nonempty h m e : mget h m = Some e -> (mlen m =? 0) = false.
  Proof. destruct m; cbn; [discriminate | intros _; unfold mlen; cbn [length]; lia]. Qed.

  (* FailureCache.record leaves, in the slot it was given, a state of the key it was given
     whose retry-after instant lies ahead *)
  Lemma fc_record_slot m h key prov now m' e b :
    fc_record c m h key prov now = (m', e, b) ->
    mget h m' = Some e /\ e_key e = key /\ now < e_retry e.
  Proof.
    pose proof (valid_bounds c V) as [F _].
    unfold fc_record. destruct (mget h m) as [cur|] eqn:G.
    - destruct (same_key (e_key cur) key) eqn:S; cbn [negb].
      + destruct (now <? e_retry cur) eqn:A.
        * intros [= <- <- <-]. repeat split; [exact G | now apply same_key_eq | lia].
        * intros [= <- <- <-]. rewrite mget_mset_same. cbn [e_key e_retry].
          repeat split; [now apply same_key_eq|].
          match goal with |- _ < _ + backoff c ?s => pose proof (backoff_range c V s) end. lia.
      + intros [= <- <- <-]. rewrite mget_mset_same. cbn. repeat split. lia.
    - intros [= <- <- <-]. rewrite mget_mset_same. cbn. repeat split. lia.
  Qed.

  (* RecordFailure(k) at [now], then LookupFailure of the same question (any spelling of it) at
     [now]: a hit *)
  Lemma lookup_after_record s k k' prov now :
    s_disabled s = false -> norm_qkey k' = norm_qkey k ->
    exists e, st_lookup_failure H (fst (fst (st_record_failure H c s k prov now))) k' now = Some e.
  Proof.
    intros D N. unfold st_record_failure. rewrite D.
    unfold fc_record_question.
    destruct (fc_record c (s_map s) (hash_q H (norm_qkey k)) (EQ (norm_qkey k)) prov now) as [[m' e] b] eqn:R.
    apply fc_record_slot in R as (G & K & A). cbn [fst].
    unfold st_lookup_failure. cbn [s_disabled s_map].
    unfold fc_lookup. rewrite (mget_some_nonempty _ _ _ G). rewrite N.
    unfold load_question. rewrite G, K. rewrite (proj2 (qkey_eqb_eq _ _) eq_refl).
    exists e. destruct (now <? e_retry e) eqn:B; [reflexivity | lia].
  Qed.

  Lemma zone_record_keeps_switch s qc z now :
    s_disabled (fst (fst (st_record_zone_failure H c s qc z now))) = s_disabled s.
  Proof.
    unfold st_record_zone_failure. destruct (s_disabled s) eqn:D; [exact D|].
    destruct z as [z|]; [|exact D].
    destruct (fc_record_zone H c (s_map s) (mk_zkey z qc) prov_authority now) as [[m e] b]. reflexivity.
  Qed.

  (* the ladder reads a question only through its normal form *)
  Lemma ladder_of_norm s pos k k' now :
    norm_qkey k' = norm_qkey k -> ladder_of H s pos k' now = ladder_of H s pos k now.
  Proof.
    intros N. unfold ladder_of.
    assert (A : akey_of k' = akey_of k).
    { unfold norm_qkey in N. injection N as N1 N2 N3 N4 _. unfold akey_of. now rewrite N1, N2, N3, N4. }
    rewrite A. destruct (existsb _ pos); [reflexivity|].
    unfold st_lookup_failure, fc_lookup. now rewrite N.
  Qed.

  Lemma ans_of_not_down late l : l <> LMiss -> is_down (ans_of late l) = false.
  Proof. destruct l; cbn; congruence. Qed.

  Lemma filter_none {A} (f : A -> bool) l : Forall (fun a => f a = false) l -> filter f l = [].
  Proof. induction 1 as [|a l E _ IH]; cbn; [reflexivity | now rewrite E]. Qed.

  (* the state a leader's shared failure leaves answers every spelling of its question from the
     failure cache *)
  Lemma shared_failure_then_no_miss s pos k k' r zn now :
    s_disabled s = false -> cacheable_failure r = true -> norm_qkey k' = norm_qkey k ->
    ladder_of H (fst (apply_down H c s pos k (DFail r) zn now)) (snd (apply_down H c s pos k (DFail r) zn now)) k' now <> LMiss.
  Proof.
    intros D C N. cbn [apply_down fst snd]. unfold serve_writeback. rewrite C.
    set (s1 := match zn with Some (qc, z) => _ | None => s end).
    assert (D1 : s_disabled s1 = false).
    { subst s1. destruct zn as [[qc z]|]; [|exact D]. now rewrite zone_record_keeps_switch. }
    destruct (lookup_after_record s1 k k' prov_response now D1 N) as [e L].
    unfold ladder_of. destruct (existsb _ pos); [discriminate|]. rewrite L. discriminate.
  Qed.

  Theorem fresh_failure_serves_every_follower s0 pos0 s pos now ld fs r s' pos' la fa :
    s_disabled s = false ->
    snd (fst ld) = DFail r -> cacheable_failure r = true ->
    (forall f, In f fs -> norm_qkey (cr_key f) = norm_qkey (cr_key ld)) ->
    cohort_group H c s0 pos0 s pos now ld fs = (s', pos', la, fa) ->
    Forall (fun a => is_down a = false) fa /\ group_calls la fa <= 1.
  Proof.
    intros D E C S. destruct ld as [[kl dl] zl]. cbn [fst snd] in E. subst dl.
    unfold cohort_group. cbn [cr_key fst snd].
    destruct (ladder_of H s0 pos0 kl now) as [|e0|] eqn:L0.
    1,2: intros [= <- <- <- <-];
      assert (F : Forall (fun a => is_down a = false)
                    (map (fun f => ans_of false (ladder_of H s0 pos0 (cr_key f) now)) fs))
        by (apply Forall_forall; intros a I; apply in_map_iff in I as (f & <- & I);
            rewrite (ladder_of_norm _ _ _ _ _ (S f I)); cbn [cr_key fst]; rewrite L0; reflexivity);
      (split; [exact F|]); unfold group_calls; rewrite (filter_none _ _ F); cbn; lia.
    pose proof (shared_failure_then_no_miss s pos kl) as NM.
    destruct (apply_down H c s pos kl (DFail r) zl now) as [s1 pos1] eqn:AD.
    set (fa0 := map _ fs).
    destruct (solo_writebacks H c s1 pos1 now (combine fs fa0)) as [s2 pos2].
    intros [= <- <- <- <-].
    assert (F : Forall (fun a => is_down a = false) fa0).
    { subst fa0. apply Forall_forall. intros a I. apply in_map_iff in I as (f & <- & I).
      destruct (ladder_of H s0 pos0 (cr_key f) now) eqn:Lf.
      - reflexivity.
      - reflexivity.
      - apply ans_of_not_down. specialize (NM (cr_key f) r zl now D C (S f I)).
        rewrite AD in NM. exact NM. }
    split; [exact F|]. unfold group_calls. rewrite (filter_none _ _ F). cbn. lia.
  Qed.

  (* a request-local failure of the leader is nobody else's answer: every follower that waited
     asks upstream itself *)
  Theorem request_local_leader_shares_nothing s0 pos0 now kl r fs s' pos' la fa :
    request_local r = true ->
    ladder_of H s0 pos0 kl now = LMiss ->
    (forall f, In f fs -> norm_qkey (cr_key f) = norm_qkey kl) ->
    cohort_group H c s0 pos0 s0 pos0 now (kl, DFail r, None) fs = (s', pos', la, fa) ->
    la = CDown false /\ Forall (fun a => a = CDown true) fa.
  Proof.
    intros R L0 S. unfold cohort_group. cbn [cr_key fst snd]. rewrite L0.
    cbn [apply_down]. unfold serve_writeback.
    rewrite cacheable_iff_not_local, R. cbn [negb].
    set (fa0 := map _ fs).
    destruct (solo_writebacks H c s0 pos0 now (combine fs fa0)) as [s2 pos2].
    intros [= <- <- <- <-]. split; [reflexivity|].
    subst fa0. apply Forall_forall. intros a I. apply in_map_iff in I as (f & <- & I).
    rewrite (ladder_of_norm _ _ _ _ _ (S f I)), L0. cbn. reflexivity.
  Qed.
End Cohort.

(* non-vacuity: two followers behind a leader, default configuration, a hash that tells the
   spellings apart only by their normal form *)
Definition ex_H (k : qkey) : N := N.of_nat (length (qk_name k)) + qk_type k.
Definition ex_cfg : cfg := mk_cfg default_initial_ttl default_max_ttl.
Definition ex_k : qkey := mk_qkey [[119;119;119]; [100;101;97;100]]%N 1 1 false None.
Definition ex_K : qkey := mk_qkey [[87;87;119]; [100;101;65;100]]%N 1 1 false None.
Example ex_fresh_failure_cohort :
  let shared := DFail (mk_req_local false false false false) in
  let '(s, _, la, fa) := cohort_group ex_H ex_cfg (mk_store [] false) [] (mk_store [] false) [] 0
                           (ex_k, shared, None) [(ex_K, shared, None); (ex_k, shared, None)] in
  la = CDown false /\ fa = [CFailure; CFailure] /\ st_failure_len s = 1.
Proof. vm_compute. repeat split. Qed.
Example ex_request_local_cohort :
  let private := DFail (mk_req_local false false false true) in
  let shared := DFail (mk_req_local false false false false) in
  let '(s, _, la, fa) := cohort_group ex_H ex_cfg (mk_store [] false) [] (mk_store [] false) [] 0
                           (ex_k, private, None) [(ex_K, private, None); (ex_k, shared, None)] in
  la = CDown false /\ fa = [CDown true; CDown true] /\ st_failure_len s = 1.
Proof. vm_compute. repeat split. Qed.
