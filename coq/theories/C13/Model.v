(* C13 — RFC 9520 cached resolution failures: executable model.
   Definitions only; proofs are in Proofs.v.

   Written line by line from
     /repo/middleware/cache/failure_cache.go   (FailureCache: record, backoff, Lookup,
                                                 LookupWire, RetryKey, Reset*, PurgeQuestion)
     /repo/middleware/cache/store.go           (Store wrappers and the rfc9520 kill switch)
     /repo/middleware/cache/cache.go           (ServeDNS failure rung, ResponseWriter.WriteMsg
                                                 write-back, cacheableResolutionFailure)
     /repo/middleware/resolver/resolver.go     (recordResolutionZoneFailure admission)

   Constants (defaults, 5 min ceiling, 1 s floor, salts, streak saturation,
   backoff literals) come from Gen/C13.v, regenerated from the Go source on
   every run.  The 64-bit key hash is a parameter [H] of every function: an
   ARBITRARY function from the key preimage to a number, so that hash
   collisions are part of what the theorems quantify over.  Time is a number
   of nanoseconds ([Z]); the clock is an argument of every operation. *)
From Sdns Require Import Common.Base Gen.C13.
Open Scope Z_scope.

(* ------------------------------------------------------------------ names *)
(* A DNS name is its list of labels, leftmost first; [] is the root.  The
   presentation string the Go code carries (escapes included) is in bijection
   with this list (miekg's UnpackDomainName / NextLabel): trusted base. *)
Definition label := list N.
Definition name := list label.

(* dns.CanonicalName / internalcache.Key fold: ASCII A–Z only *)
Definition lower (b : N) : N := if ((65 <=? b) && (b <=? 90))%N then (b + 32)%N else b.
Definition canon_label (l : label) : label := map lower l.
Definition canon_name (n : name) : name := map canon_label n.

Fixpoint label_eqb (a b : label) : bool :=
  match a, b with
  | [], [] => true
  | x :: xs, y :: ys => (x =? y)%N && label_eqb xs ys
  | _, _ => false
  end.
Fixpoint name_eqb (a b : name) : bool :=
  match a, b with
  | [], [] => true
  | x :: xs, y :: ys => label_eqb x y && name_eqb xs ys
  | _, _ => false
  end.

(* walkFailureZones / walkWireSuffixes: the name itself, then every proper
   suffix, ending with the root *)
Fixpoint suffixes (n : name) : list name :=
  n :: match n with [] => [] | _ :: t => suffixes t end.

(* ------------------------------------------------------------ ECS audience *)
(* netip.Prefix: None is the zero (invalid) Prefix; Some carries family,
   address as a number and the prefix length (0..32 / 0..128). *)
Record scope := mk_scope { sc_is4 : bool; sc_addr : N; sc_bits : Z }.
Definition sc_width (s : scope) : Z := if sc_is4 s then 32 else 128.
(* netip.Prefix.Masked *)
Definition sc_masked (s : scope) : scope :=
  let host := Z.to_N (sc_width s - sc_bits s) in
  mk_scope (sc_is4 s) (sc_addr s - sc_addr s mod 2 ^ host)%N (sc_bits s).
(* normalizeKeyScope: invalid and /0 are the shared audience *)
Definition norm_scope (s : option scope) : option scope :=
  match s with
  | None => None
  | Some s => if sc_bits s =? 0 then None else Some (sc_masked s)
  end.
Definition scope_eqb (a b : option scope) : bool :=
  match a, b with
  | None, None => true
  | Some x, Some y => Bool.eqb (sc_is4 x) (sc_is4 y) && (sc_addr x =? sc_addr y)%N && (sc_bits x =? sc_bits y)
  | _, _ => false
  end.

(* ------------------------------------------------------------------- keys *)
(* FailureQuestionKey: dns.Question + CD + Scope.  This record is also the
   preimage the key hash is computed from. *)
Record qkey := mk_qkey { qk_name : name; qk_type : N; qk_class : N; qk_cd : bool; qk_scope : option scope }.
(* FailureZoneKey *)
Record zkey := mk_zkey { zk_zone : name; zk_class : N }.

Definition norm_qkey (k : qkey) : qkey :=
  mk_qkey (canon_name (qk_name k)) (qk_type k) (qk_class k) (qk_cd k) (norm_scope (qk_scope k)).
Definition norm_zkey (z : zkey) : zkey := mk_zkey (canon_name (zk_zone z)) (zk_class z).

(* failureQuestionKeysEqual / failureZoneKeysEqual: plain string and struct equality *)
Definition qkey_eqb (a b : qkey) : bool :=
  name_eqb (qk_name a) (qk_name b) && (qk_type a =? qk_type b)%N && (qk_class a =? qk_class b)%N &&
  Bool.eqb (qk_cd a) (qk_cd b) && scope_eqb (qk_scope a) (qk_scope b).
Definition zkey_eqb (a b : zkey) : bool :=
  name_eqb (zk_zone a) (zk_zone b) && (zk_class a =? zk_class b)%N.

(* dns.TypeSOA — the type failureZoneHash keys a zone with (symbol tied by
   gen_zone_hash_qtype_sym, value by the RetryKey correspondence) *)
Definition type_soa : N := 6%N.

(* --------------------------------------------------------------- entries *)
(* failureEntry.  The Go struct has both a question and a zone field and a
   kind tag that says which one is meaningful; no code path reads the other
   one, so the model keeps only the meaningful key.  EOther stands for a kind
   tag that is neither (only a planted / corrupted entry can have it). *)
Inductive ekey := EQ (k : qkey) | EZ (z : zkey) | EOther.
Record entry := mk_entry { e_key : ekey; e_prov : N; e_streak : N; e_retry : Z }.

(* failureEntriesSameKey *)
Definition same_key (a b : ekey) : bool :=
  match a, b with
  | EQ x, EQ y => qkey_eqb x y
  | EZ x, EZ y => zkey_eqb x y
  | _, _ => false
  end.

(* internal/cache.Cache seen as a finite map hash -> entry *)
Definition fmap := list (N * entry).
Fixpoint mget (h : N) (m : fmap) : option entry :=
  match m with
  | [] => None
  | (k, e) :: r => if (k =? h)%N then Some e else mget h r
  end.
Fixpoint mdel (h : N) (m : fmap) : fmap :=
  match m with
  | [] => []
  | (k, e) :: r => if (k =? h)%N then mdel h r else (k, e) :: mdel h r
  end.
Definition mset (h : N) (e : entry) (m : fmap) : fmap := (h, e) :: mdel h m.
Definition mdel_all (hs : list N) (m : fmap) : fmap := fold_left (fun acc h => mdel h acc) hs m.
Definition mlen (m : fmap) : Z := Z.of_nat (length m).

(* ---------------------------------------------------------- configuration *)
Record cfg := mk_cfg { c_init : Z; c_max : Z }.

(* NewFailureCache: defaults, then validation.  None = constructor error. *)
Definition new_cfg (size init max : Z) : option cfg :=
  if size <=? size_floor then None else
  let init := if init =? 0 then default_initial_ttl else init in
  let max := if max =? 0 then default_max_ttl else max in
  if init <? min_initial_ttl then None else
  if max <? init then None else
  if max >? ttl_ceiling then None else
  Some (mk_cfg init max).
Definition cfg_valid (c : cfg) : Prop :=
  min_initial_ttl <= c_init c /\ c_init c <= c_max c /\ c_max c <= ttl_ceiling.
Definition cfg_validb (c : cfg) : bool :=
  (min_initial_ttl <=? c_init c) && (c_init c <=? c_max c) && (c_max c <=? ttl_ceiling).

(* ---------------------------------------------------------------- backoff *)
(* FailureCache.backoff.  One pass of the loop body on the running ttl; the
   early [return c.maxTTL] is the fixed point max of the same step. *)
(* the three literals of the Go loop; the loop as a whole is tied to the
   translated function Gen.C13.go_FailureCache_backoff by Proofs_Gen.gen_backoff *)
Definition backoff_first_generation : Z := 1.
Definition backoff_half_divisor : Z := 2.
Definition backoff_factor : Z := 2.
Definition backoff_step (c : cfg) (ttl : Z) : Z :=
  if ttl <? c_max c then
    if ttl >? c_max c / backoff_half_divisor then c_max c else ttl * backoff_factor
  else ttl.
Fixpoint backoff_iter (c : cfg) (n : nat) (ttl : Z) : Z :=
  match n with
  | O => ttl
  | S n' => backoff_iter c n' (backoff_step c ttl)
  end.
Definition backoff_clamp (c : cfg) (ttl : Z) : Z := if ttl >? c_max c then c_max c else ttl.
(* the loop runs for generation = 1 .. streak-1, i.e. streak-1 times at most *)
Definition backoff_spec_loop (c : cfg) (streak : N) : Z :=
  backoff_clamp c (backoff_iter c (Z.to_nat (Z.of_N streak - backoff_first_generation)) (c_init c)).
(* executable form: the running ttl is stationary after 64 passes for every
   valid configuration (Proofs.backoff_fuel_irrelevant), so the model caps
   the iteration count; streak = 2^32-1 then costs 64 steps, not 2^32. *)
Definition backoff_fuel : Z := 64.
Definition backoff (c : cfg) (streak : N) : Z :=
  backoff_clamp c (backoff_iter c (Z.to_nat (Z.min (Z.of_N streak - backoff_first_generation) backoff_fuel)) (c_init c)).

(* ------------------------------------------------------------ FailureCache *)
Section WithHash.
  (* internalcache.Key / KeyWithPrefix / KeyWire before the salt *)
  Variable H : qkey -> N.

  (* failureQuestionHash / failureZoneHash *)
  Definition hash_q (k : qkey) : N := N.lxor (H k) question_salt.
  Definition hash_z (z : zkey) : N := N.lxor (H (mk_qkey (zk_zone z) type_soa (zk_class z) false None)) zone_salt.

  (* FailureCache.record: returns the new map, the entry the returned hit
     snapshots, and whether entries.Add (the only evicting call) ran *)
  Definition fc_record (c : cfg) (m : fmap) (h : N) (key : ekey) (prov : N) (now : Z) : fmap * entry * bool :=
    let first := mk_entry key prov first_streak (now + c_init c) in
    match mget h m with
    | None => (mset h first m, first, true)
    | Some cur =>
        if negb (same_key (e_key cur) key) then (mset h first m, first, true)
        else if now <? e_retry cur then (m, cur, false)
        else
          let s := if now - e_retry cur >=? c_max c then reset_streak
                   else if (e_streak cur <? streak_saturation)%N then (e_streak cur + 1)%N
                   else e_streak cur in
          let nx := mk_entry (e_key cur) prov s (now + backoff c s) in
          (mset h nx m, nx, false)
    end.
  Definition fc_record_question (c : cfg) (m : fmap) (k : qkey) (prov : N) (now : Z) :=
    let k := norm_qkey k in fc_record c m (hash_q k) (EQ k) prov now.
  Definition fc_record_zone (c : cfg) (m : fmap) (z : zkey) (prov : N) (now : Z) :=
    let z := norm_zkey z in fc_record c m (hash_z z) (EZ z) prov now.

  (* loadQuestionWithHash / loadZoneWithHash: the slot, verified against the full key *)
  Definition load_question (m : fmap) (k : qkey) : option entry :=
    match mget (hash_q k) m with
    | Some e => match e_key e with EQ k' => if qkey_eqb k' k then Some e else None | _ => None end
    | None => None
    end.
  Definition load_zone (m : fmap) (z : zkey) : option entry :=
    let z := norm_zkey z in
    match mget (hash_z z) m with
    | Some e => match e_key e with EZ z' => if zkey_eqb z' z then Some e else None | _ => None end
    | None => None
    end.

  (* the ancestor walk of Lookup: closest ACTIVE zone entry *)
  Fixpoint first_active_zone (m : fmap) (zones : list name) (class : N) (now : Z) : option entry :=
    match zones with
    | [] => None
    | z :: r =>
        match load_zone m (mk_zkey z class) with
        | Some e => if now <? e_retry e then Some e else first_active_zone m r class now
        | None => first_active_zone m r class now
        end
    end.

  (* FailureCache.Lookup *)
  Definition fc_lookup (m : fmap) (k : qkey) (now : Z) : option entry :=
    if mlen m =? 0 then None else
    let k := norm_qkey k in
    match load_question m k with
    | Some e => if now <? e_retry e then Some e
                else first_active_zone m (suffixes (qk_name k)) (qk_class k) now
    | None => first_active_zone m (suffixes (qk_name k)) (qk_class k) now
    end.

  (* FailureCache.LookupWire: the wire question has no scope; every field of
     the slot is compared, the name under ASCII folding on both sides *)
  Definition load_question_wire (m : fmap) (n : name) (qtype qclass : N) (cd : bool) : option entry :=
    match mget (hash_q (mk_qkey (canon_name n) qtype qclass cd None)) m with
    | Some e =>
        match e_key e with
        | EQ k' => if scope_eqb (qk_scope k') None && (qk_type k' =? qtype)%N && (qk_class k' =? qclass)%N &&
                      Bool.eqb (qk_cd k') cd && name_eqb (canon_name (qk_name k')) (canon_name n)
                   then Some e else None
        | _ => None
        end
    | None => None
    end.
  Definition load_zone_wire (m : fmap) (z : name) (qclass : N) : option entry :=
    match mget (hash_z (mk_zkey (canon_name z) qclass)) m with
    | Some e =>
        match e_key e with
        | EZ z' => if (zk_class z' =? qclass)%N && name_eqb (canon_name (zk_zone z')) (canon_name z)
                   then Some e else None
        | _ => None
        end
    | None => None
    end.
  Fixpoint first_active_zone_wire (m : fmap) (zones : list name) (class : N) (now : Z) : option entry :=
    match zones with
    | [] => None
    | z :: r =>
        match load_zone_wire m z class with
        | Some e => if now <? e_retry e then Some e else first_active_zone_wire m r class now
        | None => first_active_zone_wire m r class now
        end
    end.
  Definition fc_lookup_wire (m : fmap) (n : name) (qtype qclass : N) (cd : bool) (now : Z) : option entry :=
    if mlen m =? 0 then None else
    match load_question_wire m n qtype qclass cd with
    | Some e => if now <? e_retry e then Some e else first_active_zone_wire m (suffixes n) qclass now
    | None => first_active_zone_wire m (suffixes n) qclass now
    end.

  (* FailureCache.RetryKey.  The zone walk: stop at an active zone (no retry
     key at all), remember the first expired one. *)
  Inductive zone_scan := ZActive | ZExpired (h : N) | ZNone.
  Fixpoint scan_zones (m : fmap) (zones : list name) (class : N) (now : Z) (closest : option N) : zone_scan :=
    match zones with
    | [] => match closest with Some h => ZExpired h | None => ZNone end
    | z :: r =>
        match load_zone m (mk_zkey z class) with
        | None => scan_zones m r class now closest
        | Some e =>
            if now <? e_retry e then ZActive
            else scan_zones m r class now
                   (match closest with Some h => Some h | None => Some (hash_z (norm_zkey (mk_zkey z class))) end)
        end
    end.
  Definition fc_retry_key (m : fmap) (k : qkey) (now : Z) : option N :=
    if mlen m =? 0 then None else
    let k := norm_qkey k in
    let exact := load_question m k in
    match exact with
    | Some e => if now <? e_retry e then None else
        match scan_zones m (suffixes (qk_name k)) (qk_class k) now None with
        | ZActive => None
        | ZExpired h => Some h
        | ZNone => Some (hash_q k)
        end
    | None =>
        match scan_zones m (suffixes (qk_name k)) (qk_class k) now None with
        | ZActive => None
        | ZExpired h => Some h
        | ZNone => None
        end
    end.

  (* ResetQuestion / ResetZone *)
  Definition fc_reset_question (m : fmap) (k : qkey) : fmap * bool :=
    let k := norm_qkey k in
    match load_question m k with
    | Some _ => (mdel (hash_q k) m, true)
    | None => (m, false)
    end.
  Definition fc_reset_zone (m : fmap) (z : zkey) : fmap * bool :=
    let z := norm_zkey z in
    match load_zone m z with
    | Some _ => (mdel (hash_z z) m, true)
    | None => (m, false)
    end.
  (* ResetMatching: exact history plus every ancestor-zone history *)
  Fixpoint reset_zones (m : fmap) (zones : list name) (class : N) (removed : Z) : fmap * Z :=
    match zones with
    | [] => (m, removed)
    | z :: r =>
        let '(m', ok) := fc_reset_zone m (mk_zkey z class) in
        reset_zones m' r class (if ok then removed + 1 else removed)
    end.
  Definition fc_reset_matching (m : fmap) (k : qkey) : fmap * Z :=
    if mlen m =? 0 then (m, 0) else
    let k := norm_qkey k in
    let '(m1, ok) := fc_reset_question m k in
    reset_zones m1 (suffixes (qk_name k)) (qk_class k) (if ok then 1 else 0).

  (* PurgeQuestion: every CD/ECS variant of the question and a zone state
     whose owner is the purged name (scan of all entries) *)
  Definition purge_match (n : name) (qtype qclass : N) (e : entry) : bool :=
    match e_key e with
    | EQ k => name_eqb (qk_name k) n && (qk_type k =? qtype)%N && (qk_class k =? qclass)%N
    | EZ z => name_eqb (zk_zone z) n && (zk_class z =? qclass)%N
    | EOther => false
    end.
  Definition fc_purge (m : fmap) (n : name) (qtype qclass : N) : fmap * Z :=
    let n := canon_name n in
    let kept := filter (fun he => negb (purge_match n qtype qclass (snd he))) m in
    (kept, mlen m - mlen kept).

  (* ------------------------------------------------------------------ Store *)
  (* Store = the failure cache behind the rfc9520 kill switch *)
  Record store := mk_store { s_map : fmap; s_disabled : bool }.

  (* what a lookup returns to the caller: FailureHit *)
  Definition hit := entry.

  (* Store.RecordFailure / recordFailureQuestion *)
  Definition st_record_failure (c : cfg) (s : store) (k : qkey) (prov : N) (now : Z) : store * option entry * bool :=
    if s_disabled s then (s, None, false) else
    let '(m, e, added) := fc_record_question c (s_map s) k prov now in
    (mk_store m (s_disabled s), Some e, added).
  (* Store.RecordZoneFailure: zone "" (None) is ignored; provenance "authority" *)
  Definition prov_response : N := 1%N.
  Definition prov_authority : N := 2%N.
  Definition st_record_zone_failure (c : cfg) (s : store) (qclass : N) (zone : option name) (now : Z) : store * option entry * bool :=
    if s_disabled s then (s, None, false) else
    match zone with
    | None => (s, None, false)
    | Some z =>
        let '(m, e, added) := fc_record_zone c (s_map s) (mk_zkey z qclass) prov_authority now in
        (mk_store m (s_disabled s), Some e, added)
    end.
  Definition st_clear_zone_failure (s : store) (qclass : N) (zone : option name) : store :=
    if s_disabled s then s else
    match zone with
    | None => s
    | Some z => mk_store (fst (fc_reset_zone (s_map s) (mk_zkey z qclass))) (s_disabled s)
    end.
  Definition st_lookup_failure (s : store) (k : qkey) (now : Z) : option entry :=
    if s_disabled s then None else fc_lookup (s_map s) k now.
  Definition st_lookup_failure_wire (s : store) (n : name) (qtype qclass : N) (cd : bool) (now : Z) : option entry :=
    if s_disabled s then None else fc_lookup_wire (s_map s) n qtype qclass cd now.
  Definition st_retry_key (s : store) (k : qkey) (now : Z) : option N :=
    if s_disabled s then None else fc_retry_key (s_map s) k now.
  Definition st_reset_question (s : store) (k : qkey) : store :=
    if s_disabled s then s else mk_store (fst (fc_reset_question (s_map s) k)) (s_disabled s).
  Definition st_reset_matching (s : store) (k : qkey) : store :=
    if s_disabled s then s else mk_store (fst (fc_reset_matching (s_map s) k)) (s_disabled s).
  Definition st_purge (s : store) (n : name) (qtype qclass : N) : store :=
    if s_disabled s then s else mk_store (fst (fc_purge (s_map s) n qtype qclass)) (s_disabled s).
  Definition st_failure_len (s : store) : Z := if s_disabled s then 0 else mlen (s_map s).

  (* ---------------------------------------------------- admission filters *)
  (* cacheableResolutionFailure (cache.go): which SERVFAIL write-backs may
     become shared state.  The four facts it reads from the request tree: *)
  Record req_local := mk_req_local {
    rl_ctx_err : bool;        (* contextutil.EffectiveError(ctx) != nil: client deadline / cancellation *)
    rl_best_effort : bool;    (* middleware.IsBestEffortRecursionWork(ctx): optional enrichment *)
    rl_work_limit : bool;     (* middleware.RecursionWorkEnforcementError(ctx) != nil: work budget *)
    rl_marked : bool          (* RequestLocalFailureForResponse(ctx,res) != nil: this exact response is marked
                                 (attempt limit, probe limit / shed load, deadline, cancel, max recursion) *)
  }.
  Definition cacheable_failure (r : req_local) : bool :=
    negb (rl_ctx_err r) && negb (rl_best_effort r) && negb (rl_work_limit r) && negb (rl_marked r).
  Definition request_local (r : req_local) : bool :=
    rl_ctx_err r || rl_best_effort r || rl_work_limit r || rl_marked r.

  (* Resolver.recordResolutionZoneFailure: cause = the error that ended the
     zone's server loop *)
  Inductive cause := CNone | CNetwork | CCanceled | CDeadline | CWorkLimit | CAttemptLimit | CMaxRecursion.
  Definition cause_local (x : cause) : bool :=
    match x with CNone | CNetwork => false | _ => true end.
  (* [over_budget]: middleware.RecursionWorkEnforcementError(ctx) != nil — the request tree's work
     ledger has latched an enforcement rejection (/repo c55a314; shadow mode latches nothing) *)
  Definition zone_failure_admitted (zone_empty best_effort ctx_err over_budget : bool) (x : cause) : bool :=
    negb (zone_empty || best_effort || ctx_err || over_budget || cause_local x).

  (* The resolver handler (DNSHandler.handle) turns a terminal resolution error
     into a SERVFAIL and marks it request-local exactly when
     middleware.IsRequestLocalResolutionError says so (or the request context
     has ended).  The error classes it can see: *)
  Inductive rerr :=
  | RNetwork            (* every authority failed / unreachable *)
  | RCapacityGlobal     (* errResolutionCapacity: every in-flight resolution slot taken — load shed; wraps middleware.ErrResolutionCapacity *)
  | RCapacityZone       (* errZoneCapacity: the zone's in-flight quota taken — load shed; wraps the same sentinel *)
  | RWorkLimit | RAttemptLimit | RProbeLimit | RMaxRecursion | RCanceled | RDeadline.
  (* IsRequestLocalResolutionError, as the source lists it *)
  Definition is_request_local_error (e : rerr) : bool :=
    match e with
    | RWorkLimit | RAttemptLimit | RProbeLimit | RCapacityGlobal | RCapacityZone
    | RMaxRecursion | RCanceled | RDeadline => true
    | RNetwork => false
    end.
  (* which of them are the resolver or cache shedding load *)
  Definition shed_load (e : rerr) : bool :=
    match e with RCapacityGlobal | RCapacityZone | RProbeLimit => true | _ => false end.
  (* the facts the cache's write-back sees for the handler's SERVFAIL (live context) *)
  Definition handler_failure (e : rerr) : req_local := mk_req_local false false false (is_request_local_error e).

  (* Resolver.lookup + resolve: a zone failure is published when the fan-out
     ends without a usable response; with every server awaited that is: no
     server of the zone gave one.  Behaviour of one authority address: *)
  Inductive authority_behaviour := AHealthy | AFailureRcode | ASilent.
  Definition usable (b : authority_behaviour) : bool := match b with AHealthy => true | _ => false end.
  Definition zone_failure_published (servers : list authority_behaviour) : bool := negb (existsb usable servers).

  (* ------------------------------------------------- Cache.ServeDNS rung *)
  (* The failure-related part of the cache middleware for one client query
     that reached the failure rung (no answer-cache / cut / denial hit):
       1. LookupFailure: active hit => SERVFAIL (+ EDE 13 when the client sent
          EDNS), downstream NOT called;
       2. otherwise downstream is called once and its response is written
          back through ResponseWriter.WriteMsg:
          failure class + cacheable  => RecordFailure(question, client scope)
          failure class + local      => nothing
          useful answer              => resetMatchingFailures(question, scope)
                                        and, for an unscoped store, the global
                                        question audience as well
          truncated                  => passed through untouched. *)
  Inductive downstream :=
  | DFail (r : req_local)       (* failure-class rcode *)
  | DUseful (stored_scoped : bool)   (* NOERROR/NXDOMAIN/NODATA; stored under a scoped key? *)
  | DTruncated.
  Inductive served := SCachedFailure | SDownstream.

  Definition serve_writeback (c : cfg) (s : store) (k : qkey) (d : downstream) (now : Z) : store :=
    match d with
    | DFail r =>
        if cacheable_failure r then fst (fst (st_record_failure c s k prov_response now)) else s
    | DUseful stored_scoped =>
        (* setFromResponseWithKey: an unscoped write resets the global audience first *)
        let s1 := if stored_scoped then s
                  else st_reset_question s (mk_qkey (qk_name k) (qk_type k) (qk_class k) (qk_cd k) None) in
        st_reset_matching s1 k
    | DTruncated => s
    end.
  Definition serve (c : cfg) (s : store) (k : qkey) (d : downstream) (now : Z) : store * served :=
    match st_lookup_failure s k now with
    | Some _ => (s, SCachedFailure)
    | None => (serve_writeback c s k d now, SDownstream)
    end.
End WithHash.

(* ================================================================== *)
(* Concurrency, part 1: the CompareAndSwap retry loop of FailureCache.record.

   Several recorders of ONE key run against ONE slot.  The slot holds a
   pointer; CompareAndSwap compares pointer identity, modelled as a stamp
   that every store renews.  Atomic steps of a recorder (failure_cache.go,
   func record):
     load   : current, ok := c.loadEntry(hash)
     decide : !ok || other key  -> entries.Add(hash, first)            (store)
              now < retryAfter  -> return current                      (no write)
              otherwise         -> CompareAndSwap(hash, current, next) (store iff the
                                   slot still holds the pointer that was loaded;
                                   else start over with a fresh load)
   [now] is read once per call, before the loop. *)
Inductive recorder :=
| RcStart (now : Z)
| RcLoaded (now : Z) (snap : option (N * entry))
| RcDone (result : entry).
Record cas_state := mk_cas { cs_slot : option (N * entry); cs_next : N; cs_writes : N; cs_threads : list recorder }.

(* the entry a renewal of [cur] at [now] publishes (record's expired branch) *)
Definition renew (c : cfg) (cur : entry) (prov : N) (now : Z) : entry :=
  let s := if now - e_retry cur >=? c_max c then reset_streak
           else if (e_streak cur <? streak_saturation)%N then (e_streak cur + 1)%N
           else e_streak cur in
  mk_entry (e_key cur) prov s (now + backoff c s).

Fixpoint set_nth {A} (l : list A) (i : nat) (x : A) : list A :=
  match l, i with
  | [], _ => []
  | _ :: r, O => x :: r
  | y :: r, S i' => y :: set_nth r i' x
  end.

Definition cas_step (c : cfg) (key : ekey) (prov : N) (st : cas_state) (i : nat) : cas_state :=
  match nth_error (cs_threads st) i with
  | None => st
  | Some (RcDone _) => st
  | Some (RcStart now) =>
      mk_cas (cs_slot st) (cs_next st) (cs_writes st) (set_nth (cs_threads st) i (RcLoaded now (cs_slot st)))
  | Some (RcLoaded now snap) =>
      let first := mk_entry key prov first_streak (now + c_init c) in
      let store e := mk_cas (Some (cs_next st, e)) (cs_next st + 1)%N (cs_writes st + 1)%N
                            (set_nth (cs_threads st) i (RcDone e)) in
      match snap with
      | None => store first
      | Some (stamp, cur) =>
          if negb (same_key (e_key cur) key) then store first
          else if now <? e_retry cur then
            mk_cas (cs_slot st) (cs_next st) (cs_writes st) (set_nth (cs_threads st) i (RcDone cur))
          else
            match cs_slot st with
            | Some (stamp', _) =>
                if (stamp' =? stamp)%N then store (renew c cur prov now)
                else mk_cas (cs_slot st) (cs_next st) (cs_writes st) (set_nth (cs_threads st) i (RcStart now))
            | None => mk_cas (cs_slot st) (cs_next st) (cs_writes st) (set_nth (cs_threads st) i (RcStart now))
            end
      end
  end.
Definition cas_run (c : cfg) (key : ekey) (prov : N) (st : cas_state) (schedule : list nat) : cas_state :=
  fold_left (cas_step c key prov) schedule st.
Definition rc_done (r : recorder) : bool := match r with RcDone _ => true | _ => false end.

(* ================================================================== *)
(* Concurrency, part 2: electing the probe.  internal/waitgroup
   (JoinGeneration / Regroup / DoneGeneration, each one critical section under
   the group mutex) as Cache.ServeDNS uses it for requests that share one
   retry key.  The failure state those requests look at is abstracted to
   what their LookupFailure / FailureRetryKey see:
     FExpired : retained but expired state (a retry key exists)
     FActive  : an active covering failure (served from the cache)
     FCleared : no retained state (an ordinary miss)
   A leader is "in flight" from its election until DoneGeneration. *)
Inductive fstate := FExpired | FActive | FCleared.
Inductive outcome :=
| OCovering      (* the probe failed and the failure that covers the cohort was recorded again *)
| ONothing       (* request-local failure, or a record that does not cover the others *)
| OCleared.      (* useful answer: resetMatchingFailures *)
Inductive preq :=
| PStart
| PLeader (gen : N)                       (* downstream, in flight *)
| PFollower (gen : N) (regroups : Z)      (* waiting on generation.Done() *)
| PServed                                 (* answered from the failure cache *)
| PShed                                   (* writeFailureProbeLimit *)
| POrdinary                               (* no failure state left: ordinary miss path *)
| PFinished.                              (* leader returned *)
(* generation: done (DoneGeneration ran)?, the linked next generation (Generation.next),
   timed out (the waitgroup's 15 s bound passed before DoneGeneration: Generation.Done() is
   closed with DeadlineExceeded although the leader is still registered and in flight;
   Err() keeps saying DeadlineExceeded when the leader finishes later)? *)
Record pgen := mk_pgen { g_done : bool; g_next : option N; g_timed : bool }.
Record pstate := mk_pstate {
  ps_fs : fstate;
  ps_group : option N;                    (* wg.groups[key] *)
  ps_gens : list pgen;                    (* generation id = position *)
  ps_reqs : list preq;
  ps_elected : Z }.                       (* leaders elected so far = probes sent *)
Inductive pact :=
| AArrive (r : nat)                       (* lookup + retry key + JoinGeneration *)
| AFinish (r : nat) (o : outcome)         (* the leader's write-back + DoneGeneration *)
| AWake (r : nat)                         (* a follower whose generation is done or timed out: re-check, maybe Regroup *)
| ATimeout (g : N).                       (* the generation's deadline passes before its leader is done *)

Definition gen_of (st : pstate) (g : N) : pgen := nth (N.to_nat g) (ps_gens st) (mk_pgen true None false).
Definition new_gen_id (st : pstate) : N := N.of_nat (length (ps_gens st)).

Definition probe_step (st : pstate) (a : pact) : pstate :=
  let set r x := set_nth (ps_reqs st) r x in
  match a with
  | AArrive r =>
      match nth_error (ps_reqs st) r with
      | Some PStart =>
          match ps_fs st with
          | FActive => mk_pstate (ps_fs st) (ps_group st) (ps_gens st) (set r PServed) (ps_elected st)
          | FCleared => mk_pstate (ps_fs st) (ps_group st) (ps_gens st) (set r POrdinary) (ps_elected st)
          | FExpired =>
              match ps_group st with
              | Some g => mk_pstate (ps_fs st) (ps_group st) (ps_gens st) (set r (PFollower g 0)) (ps_elected st)
              | None =>
                  let g := new_gen_id st in
                  mk_pstate (ps_fs st) (Some g) (ps_gens st ++ [mk_pgen false None false]) (set r (PLeader g)) (ps_elected st + 1)
              end
          end
      | _ => st
      end
  | AFinish r o =>
      match nth_error (ps_reqs st) r with
      | Some (PLeader g) =>
          let fs := match o with OCovering => FActive | ONothing => ps_fs st | OCleared => FCleared end in
          let gens := set_nth (ps_gens st) (N.to_nat g) (mk_pgen true (g_next (gen_of st g)) (g_timed (gen_of st g))) in
          let group := match ps_group st with Some g' => if (g' =? g)%N then None else Some g' | None => None end in
          mk_pstate fs group gens (set r PFinished) (ps_elected st)
      | _ => st
      end
  | AWake r =>
      match nth_error (ps_reqs st) r with
      | Some (PFollower g regs) =>
          if negb (g_done (gen_of st g) || g_timed (gen_of st g)) then st else
          if g_timed (gen_of st g) then
            (* errors.Is(generation.Err(), DeadlineExceeded): an abandoned leader stays terminal for
               its cohort — served if a covering failure is active by now, else shed; never
               regrouped, never replaced, never sent downstream *)
            mk_pstate (ps_fs st) (ps_group st) (ps_gens st)
              (set r (match ps_fs st with FActive => PServed | _ => PShed end)) (ps_elected st)
          else
          match ps_fs st with
          | FActive => mk_pstate (ps_fs st) (ps_group st) (ps_gens st) (set r PServed) (ps_elected st)
          | FCleared => mk_pstate (ps_fs st) (ps_group st) (ps_gens st) (set r POrdinary) (ps_elected st)
          | FExpired =>
              if regs >=? max_probe_regroups then
                mk_pstate (ps_fs st) (ps_group st) (ps_gens st) (set r PShed) (ps_elected st)
              else
                (* Regroup(key, previous) *)
                match g_next (gen_of st g) with
                | Some nx => mk_pstate (ps_fs st) (ps_group st) (ps_gens st) (set r (PFollower nx (regs + 1))) (ps_elected st)
                | None =>
                    match ps_group st with
                    | Some cur =>
                        if (cur =? g)%N then st     (* an unfinished previous generation: not reachable here (it is done) *)
                        else mk_pstate (ps_fs st) (ps_group st)
                               (set_nth (ps_gens st) (N.to_nat g) (mk_pgen true (Some cur) false))
                               (set r (PFollower cur (regs + 1))) (ps_elected st)
                    | None =>
                        let n := new_gen_id st in
                        mk_pstate (ps_fs st) (Some n)
                          (set_nth (ps_gens st) (N.to_nat g) (mk_pgen true (Some n) false) ++ [mk_pgen false None false])
                          (set r (PLeader n)) (ps_elected st + 1)
                    end
                end
          end
      | _ => st
      end
  | ATimeout g =>
      if (N.to_nat g <? length (ps_gens st))%nat && negb (g_done (gen_of st g)) then
        mk_pstate (ps_fs st) (ps_group st)
          (set_nth (ps_gens st) (N.to_nat g) (mk_pgen false (g_next (gen_of st g)) true))
          (ps_reqs st) (ps_elected st)
      else st
  end.
Definition probe_run (st : pstate) (sched : list pact) : pstate := fold_left probe_step sched st.
Definition in_flight (st : pstate) : nat :=
  length (filter (fun q => match q with PLeader _ => true | _ => false end) (ps_reqs st)).
Definition probe_init (n : nat) : pstate := mk_pstate FExpired None [] (repeat PStart n) 0.

(* ================================================================== *)
(* The wrapper in front of the cache (dns64.ResponseWriter.WriteMsg): a
   SERVFAIL for an AAAA question makes it send a corresponding A query, unless
   the response is a cached failure (ResponseMeta marker set by
   Cache.handleFailureHit, or EDE 13) or a marked request-local failure. *)
Inductive failure_source := SrcFailureCache | SrcSharedFailure | SrcRequestLocal.
Definition wrapper_follow_up (src : failure_source) : bool :=
  match src with SrcSharedFailure => true | SrcFailureCache | SrcRequestLocal => false end.
(* outgoing queries caused by one client query: (corresponding A lookups, downstream calls) *)
Definition wrapper_traffic (src : failure_source) : Z * Z :=
  match src with
  | SrcFailureCache => (0, 0)
  | SrcSharedFailure => (1, 1)
  | SrcRequestLocal => (0, 1)
  end.

(* ================================================================== *)
(* The wire fast path's gate for cached failures (Cache.serveCompositeFromWire,
   denial_proof_witness.go).  The Msg ladder consults aggressive denial (RFC
   8198) BEFORE failure state; the byte path evaluates nothing, so it may
   answer a failure only while the record-time proof that denial missed — the
   miss witness: which denial-zone snapshots lay on the name's path — still
   describes the denial index.  Denial index: zone -> snapshot stamp (one class). *)
Definition denial_index := list (name * N).
Fixpoint snapshot_of (idx : denial_index) (z : name) : option N :=
  match idx with
  | [] => None
  | (z', id) :: r => if name_eqb z' z then Some id else snapshot_of r z
  end.
(* denialProofCache.missWitness: the snapshots on the path, name first *)
Definition miss_witness (idx : denial_index) (n : name) : list (name * N) :=
  flat_map (fun z => match snapshot_of idx z with Some id => [(z, id)] | None => [] end) (suffixes (canon_name n)).
(* missWitnessHoldsWire: every zone on the path that has a snapshot NOW is in the witness with that very snapshot *)
Definition witness_holds (idx : denial_index) (n : name) (w : list (name * N)) : bool :=
  forallb (fun z => match snapshot_of idx z with
                    | None => true
                    | Some id => existsb (fun p => name_eqb (fst p) z && (snd p =? id)%N) w
                    end) (suffixes (canon_name n)).
(* serveCompositeFromWire's condition; denial_impossible = Store.sharedDenialImpossible *)
Definition wire_gate (cd kind_question denial_impossible holds : bool) : bool :=
  cd || ((kind_question || denial_impossible) && (denial_impossible || holds)).

(* ================================================================== *)
(* The wrapper BEHIND the cache (failover.ResponseWriter.WriteMsg): what the
   cache's write-back sees is failover's final response.  A SERVFAIL with RD
   from the primary makes it ask the fallback servers in order — unless the
   request itself is dead (contextutil.EffectiveError) or the response is the
   cache probe's cohort shed (ErrFailureProbeLimit); a request-local mark on
   the primary's response (attempt limit) is carried over to whatever failure
   is passed on.  The first fallback response that is not a failure wins. *)
Inductive fo_primary := FoShared | FoMarkedAttempt | FoMarkedProbe | FoCtxErr | FoUseful | FoOtherFailure.
Inductive fo_fallback := FbUseful | FbFailure.
(* packets per fallback server in list order, and: did one give a useful answer *)
Fixpoint fo_ask (fbs : list fo_fallback) : list Z * bool :=
  match fbs with
  | [] => ([], false)
  | FbUseful :: r => (1 :: map (fun _ => 0) r, true)
  | FbFailure :: r => let '(a, u) := fo_ask r in (1 :: a, u)
  end.
Definition fo_shared : req_local := mk_req_local false false false false.
Definition fo_marked : req_local := mk_req_local false false false true.
Definition fo_ctx : req_local := mk_req_local true false false true.
(* the primary's own response as the cache sees it when failover passes it through *)
Definition fo_passthrough (p : fo_primary) : downstream :=
  match p with
  | FoShared | FoOtherFailure => DFail fo_shared
  | FoMarkedAttempt | FoMarkedProbe => DFail fo_marked
  | FoCtxErr => DFail (mk_req_local true false false false)
  | FoUseful => DUseful false
  end.
Definition failover_outcome (rd : bool) (p : fo_primary) (fbs : list fo_fallback) : list Z * downstream :=
  let none := map (fun _ => 0) fbs in
  match fbs with
  | [] => (none, fo_passthrough p)
  | _ =>
    match p with
    | FoUseful | FoOtherFailure => (none, fo_passthrough p)        (* rcode is not SERVFAIL *)
    | _ =>
      if negb rd then (none, fo_passthrough p) else
      match p with
      | FoCtxErr => (none, DFail fo_ctx)                           (* marked with the request's error *)
      | FoMarkedProbe => (none, DFail fo_marked)                   (* the shed stays a shed *)
      | _ =>
          let '(asked, useful) := fo_ask fbs in
          if useful then (asked, DUseful false)
          else (asked, DFail (match p with FoMarkedAttempt => fo_marked | _ => fo_shared end))
      end
    end
  end.

(* ================================================================== *)
(* Concurrency, part 3: requests that share one dedup key while a miss is
   being resolved (Cache.ServeDNS, the ordinary JoinGeneration path), on the
   real store semantics.

   The ladder a request runs when it ARRIVES and the ladder a follower runs
   again when the generation it waited on is done are the same rungs
   (answer cache, ..., LookupFailure); only a miss on all of them lets the
   request go on: at arrival into JoinGeneration (leader -> downstream,
   follower -> wait), after a wake-up — no retained failure state, hence no
   retry key — straight to the downstream handler, without a generation of
   its own ("ordinary followers that still see a miss run the upstream chain
   themselves").  The answer cache in front of the failure rung is the set of
   questions answered usefully so far (as in the pipeline run). *)
Definition akey := (name * N * N * bool)%type.
Definition akey_of (k : qkey) : akey := (canon_name (qk_name k), qk_type k, qk_class k, qk_cd k).
Definition akey_eqb (a b : akey) : bool :=
  let '(n1, t1, c1, d1) := a in let '(n2, t2, c2, d2) := b in
  name_eqb n1 n2 && (t1 =? t2)%N && (c1 =? c2)%N && Bool.eqb d1 d2.

Inductive ladder := LCached | LFailure (e : entry) | LMiss.
(* how one request of a cohort ends: from the answer cache, from the failure cache
   (SERVFAIL + EDE 13, no upstream traffic), or by a downstream call of its own —
   [late]: begun after the leader it had waited for returned *)
Inductive cans := CCached | CFailure | CDown (late : bool).
Definition cans_eqb (a b : cans) : bool :=
  match a, b with
  | CCached, CCached | CFailure, CFailure => true
  | CDown x, CDown y => Bool.eqb x y
  | _, _ => false
  end.
Definition is_down (a : cans) : bool := match a with CDown _ => true | _ => false end.

Section Cohort.
  Variable H : qkey -> N.
  Variable c : cfg.

  Definition ladder_of (s : store) (pos : list akey) (k : qkey) (now : Z) : ladder :=
    if existsb (akey_eqb (akey_of k)) pos then LCached else
    match st_lookup_failure H s k now with
    | Some e => LFailure e
    | None => LMiss
    end.

  (* one downstream call returns: what the resolver did to zone state on the way
     (RecordZoneFailure before a failure, ClearZoneFailure before a useful answer), then the
     cache's write-back *)
  Definition zone_note := option (N * option name).
  Definition apply_down (s : store) (pos : list akey) (k : qkey) (d : downstream) (zn : zone_note) (now : Z)
    : store * list akey :=
    match d with
    | DFail _ =>
        let s1 := match zn with
                  | Some (qc, z) => fst (fst (st_record_zone_failure H c s qc z now))
                  | None => s
                  end in
        (serve_writeback H c s1 k d now, pos)
    | DUseful scoped =>
        let s1 := match zn with
                  | Some (qc, z) => st_clear_zone_failure H s qc z
                  | None => s
                  end in
        (serve_writeback H c s1 k d now, if scoped then pos else akey_of k :: pos)
    | DTruncated => (s, pos)
    end.

  Definition creq := (qkey * downstream * zone_note)%type.
  Definition cr_key (r : creq) : qkey := fst (fst r).

  Definition ans_of (late : bool) (l : ladder) : cans :=
    match l with LCached => CCached | LFailure _ => CFailure | LMiss => CDown late end.

  (* the followers that woke into a miss call the downstream handler themselves; their
     write-backs land one after the other *)
  Fixpoint solo_writebacks (s : store) (pos : list akey) (now : Z) (fs : list (creq * cans)) : store * list akey :=
    match fs with
    | [] => (s, pos)
    | (r, CDown true) :: rest =>
        let '(s1, pos1) := apply_down s pos (cr_key r) (snd (fst r)) (snd r) now in
        solo_writebacks s1 pos1 now rest
    | _ :: rest => solo_writebacks s pos now rest
    end.

  (* One group: a leader and followers of its key.  (s0,pos0) = the state every request of the
     cohort saw when it arrived; (s,pos) = the state when this group's leader returns.
     A request answered by the arrival ladder never joined anything.  Otherwise the leader is
     downstream, the followers wait; when it returns they all run the ladder on the state it
     left. *)
  Definition cohort_group (s0 : store) (pos0 : list akey) (s : store) (pos : list akey) (now : Z)
             (ld : creq) (fs : list creq) : store * list akey * cans * list cans :=
    match ladder_of s0 pos0 (cr_key ld) now with
    | LMiss =>
        let '(s1, pos1) := apply_down s pos (cr_key ld) (snd (fst ld)) (snd ld) now in
        let fa := map (fun f => match ladder_of s0 pos0 (cr_key f) now with
                                | LMiss => ans_of true (ladder_of s1 pos1 (cr_key f) now)
                                | l => ans_of false l
                                end) fs in
        let '(s2, pos2) := solo_writebacks s1 pos1 now (combine fs fa) in
        (s2, pos2, CDown false, fa)
    | l => (s, pos, ans_of false l, map (fun f => ans_of false (ladder_of s0 pos0 (cr_key f) now)) fs)
    end.

  Fixpoint cohort_run (s0 : store) (pos0 : list akey) (s : store) (pos : list akey) (now : Z)
           (groups : list (creq * list creq)) : store * list akey * list (cans * list cans) :=
    match groups with
    | [] => (s, pos, [])
    | (ld, fs) :: rest =>
        let '(s1, pos1, la, fa) := cohort_group s0 pos0 s pos now ld fs in
        let '(s2, pos2, out) := cohort_run s0 pos0 s1 pos1 now rest in
        (s2, pos2, (la, fa) :: out)
    end.

  (* downstream calls a group caused *)
  Definition group_calls (la : cans) (fa : list cans) : Z :=
    (if is_down la then 1 else 0) + Z.of_nat (length (filter is_down fa)).
End Cohort.

(* ================================================================== *)
(* Concurrency, part 4: the authority fan-out of Resolver.lookup (resolver.go).

   The servers of a zone (sorted, deduplicated) are started in list order: the
   first two at once, each further one when the fallback timer fires or a
   consumed result was no final answer.  [left] counts the results not yet
   consumed, of started and unstarted servers alike.  One result is consumed
   per pass of the inner loop:
     error (timeout, connection error) -> fatalErrors; a request-tree work
         rejection ends the lookup at once;
     rcode != NOERROR -> responseErrors; NXDOMAIN ends the lookup when it is the
         third response error or the zone is the root / a TLD (level < 2);
     NOERROR referral that fails validReferral -> configErrors;
     anything else is the answer.
   After a non-final result, and after a timer: when the last server has been
   started and results are outstanding, keep waiting; otherwise go on with the
   main loop — start the next server, or, past the last one, fall out of the
   loop into pickFallbackResponse.  Events (which result arrives when, when the
   timer fires) come in any order: the theorems quantify over all schedules.
   Not modelled: ctx.Done() (request-local, never published), the
   resolution-attempt-limit error class inside fatalErrors, adaptive timer
   values (a timer event may come at any time). *)
Inductive srv :=
| SHealthy                 (* NOERROR answer / valid referral *)
| SRcode (rc : N)          (* a response with rcode rc and empty sections (rc = 0: as good as an answer) *)
| SSilent                  (* no reply / connection error: queryServer hands back an error *)
| SBogusReferral           (* NOERROR referral the zone has no business sending *)
| SWorkLimit.              (* the exchange was refused by the request tree's work budget *)
Inductive sstat := StUnstarted | StPending | StConsumed.
Inductive fo_out :=
| FOAnswer (i : nat)
| FOResponse (rc : N)      (* pickFallbackResponse: a response error *)
| FOConfig                 (* ... a bogus delegation *)
| FOConnFailed             (* ... errConnectionFailed *)
| FOWorkLimit
| FONoServers.
Record fo_state := mk_fo {
  fo_index : nat;            (* main loop index: servers 0..index have been started *)
  fo_stat : list sstat;
  fo_left : nat;
  fo_resp : list N;          (* responseErrors: rcodes in arrival order *)
  fo_cfg : nat;              (* len(configErrors) *)
  fo_fatal : nat;            (* len(fatalErrors) *)
  fo_done : option fo_out }.
Inductive fo_event := FoTimer | FoResult (i : nat).

Definition rcode_nxdomain : N := 3%N.
(* pickFallbackResponse *)
Definition pick_fallback (resp : list N) (cfg fatal : nat) : fo_out :=
  if existsb (N.eqb rcode_nxdomain) resp then FOResponse rcode_nxdomain else
  match resp with
  | rc :: _ => FOResponse rc
  | [] => if (0 <? cfg)%nat then FOConfig else if (0 <? fatal)%nat then FOConnFailed else FONoServers
  end.

Definition fo_finish (st : fo_state) (o : fo_out) : fo_state :=
  mk_fo (fo_index st) (fo_stat st) (fo_left st) (fo_resp st) (fo_cfg st) (fo_fatal st) (Some o).

(* `if left > 0 && len(serversList)-1 == index { continue fallbackloop }; continue mainloop` *)
Definition fo_advance (n : nat) (st : fo_state) : fo_state :=
  let last := (S (fo_index st) =? n)%nat in
  if (0 <? fo_left st)%nat && last then st
  else if last then fo_finish st (pick_fallback (fo_resp st) (fo_cfg st) (fo_fatal st))
  else mk_fo (S (fo_index st)) (set_nth (fo_stat st) (S (fo_index st)) StPending)
             (fo_left st) (fo_resp st) (fo_cfg st) (fo_fatal st) None.

Definition fo_step (servers : list srv) (level : nat) (st : fo_state) (ev : fo_event) : fo_state :=
  let n := length servers in
  match fo_done st with
  | Some _ => st
  | None =>
      match ev with
      | FoTimer => fo_advance n st
      | FoResult i =>
          match nth_error (fo_stat st) i with
          | Some StPending =>
              let stat := set_nth (fo_stat st) i StConsumed in
              let left := pred (fo_left st) in
              match nth i servers SSilent with
              | SHealthy => fo_finish st (FOAnswer i)
              | SWorkLimit => fo_finish st FOWorkLimit
              | SSilent =>
                  fo_advance n (mk_fo (fo_index st) stat left (fo_resp st) (fo_cfg st) (S (fo_fatal st)) None)
              | SBogusReferral =>
                  fo_advance n (mk_fo (fo_index st) stat left (fo_resp st) (S (fo_cfg st)) (fo_fatal st) None)
              | SRcode rc =>
                  if (rc =? 0)%N then fo_finish st (FOAnswer i) else     (* resp.Rcode == dns.RcodeSuccess *)
                  let resp := fo_resp st ++ [rc] in
                  let st1 := mk_fo (fo_index st) stat left resp (fo_cfg st) (fo_fatal st) None in
                  if ((2 <? length resp)%nat || (level <? 2)%nat) && (rc =? rcode_nxdomain)%N
                  then fo_finish st1 (pick_fallback resp (fo_cfg st) (fo_fatal st))
                  else fo_advance n st1
              end
          | _ => st
          end
      end
  end.
Definition fo_init (n : nat) : fo_state :=
  match n with
  | O => mk_fo 0 [] 0 [] 0 0 (Some (pick_fallback [] 0 0))
  | 1%nat => mk_fo 0 [StPending] 1 [] 0 0 None
  | S (S m) => mk_fo 1 (StPending :: StPending :: repeat StUnstarted m) n [] 0 0 None
  end.
Definition fo_run (servers : list srv) (level : nat) (sched : list fo_event) : fo_state :=
  fold_left (fo_step servers level) sched (fo_init (length servers)).

(* What Resolver.resolve publishes: a fallback response of the server-failure class
   (dnsutil.ClassifyResponse: every rcode but NOERROR and NXDOMAIN) with empty sections, or
   the connection-failed error, goes to recordResolutionZoneFailure. *)
Definition fo_published (o : fo_out) : bool :=
  match o with
  | FOResponse rc => negb (rc =? 0)%N && negb (rc =? rcode_nxdomain)%N
  | FOConnFailed => true
  | _ => false
  end.
(* ... and what it clears (clearResolutionZoneFailure): the zone's failure state is dropped when
   the lookup ends in an answer or in a name error that resolve accepts — the zone is alive *)
Definition fo_cleared (o : fo_out) : bool :=
  match o with
  | FOAnswer _ => true
  | FOResponse rc => (rc =? rcode_nxdomain)%N
  | _ => false
  end.
(* lame: a failure rcode (not NXDOMAIN), or no reply / a connection error *)
Definition srv_lame (s : srv) : bool :=
  match s with
  | SRcode rc => negb (rc =? 0)%N && negb (rc =? rcode_nxdomain)%N
  | SSilent => true
  | _ => false
  end.
(* a usable response: an answer, or NXDOMAIN (it answers the question) *)
Definition srv_usable (s : srv) : bool :=
  match s with
  | SHealthy => true
  | SRcode rc => (rc =? rcode_nxdomain)%N || (rc =? 0)%N
  | _ => false
  end.

(* The fan-out under an OBSERVED schedule (lab driver, gated authorities).  The driver notes, at
   barriers where the lookup is parked and every released reply has been consumed, how many
   servers have been started, then releases the reply of one started server.  Fallback-timer
   ticks happen at times it does not control; their number is read off the started count (a tick
   at the last server starts nothing and leaves the state as it is), and where they fell relative
   to the consumed non-final result does not matter (Proofs_Fanout.timer_commutes_with_result).
   [None]: the observation is impossible in the model — the started count went below the
   model's or beyond what ticks can reach, a reply was released for a server the model has not
   started, or the lookup went on after the model says it ended. *)
Definition fo_started (st : fo_state) : nat := length (filter (fun s => match s with StUnstarted => false | _ => true end) (fo_stat st)).
Definition fo_ticks (servers : list srv) (level : nat) (st : fo_state) (k : nat) : fo_state :=
  fold_left (fo_step servers level) (repeat FoTimer k) st.
Fixpoint fo_observed (servers : list srv) (level : nat) (st : fo_state) (evs : list (nat * nat)) : option fo_state :=
  match evs with
  | [] => Some st
  | (a, i) :: r =>
      match fo_done st with
      | Some _ => None
      | None =>
          let st1 := fo_ticks servers level st (a - fo_started st) in
          if (fo_started st1 =? a)%nat then
            match nth_error (fo_stat st1) i with
            | Some StPending => fo_observed servers level (fo_step servers level st1 (FoResult i)) r
            | _ => None
            end
          else None
      end
  end.
(* every server's reply was released to the lookup *)
Definition fo_all_heard (n : nat) (evs : list (nat * nat)) : bool :=
  forallb (fun i => existsb (fun e => (snd e =? i)%nat) evs) (seq 0 n).

(* ================================================================== *)
(* A glue-less delegation (Resolver.processDelegation -> lookupV4Nss, resolver.go).  The
   nameserver hosts are looked up one after the other.  A host whose lookup ends in the work
   limit, the recursion depth, cancellation or the deadline ends the walk with that error; a host
   the request tree's retry guard rejected (attempt limit) is skipped and remembered; every other
   outcome without an address (NXDOMAIN, empty reply, an ordinary lookup error) is skipped.  At the
   end, with no address found: the remembered attempt limit is the walk's error; otherwise
   processDelegation files a zone failure for the child zone (cause errNoReachableAuth, through
   recordResolutionZoneFailure's filter) and returns errNoReachableAuth.  Hosts with an address
   are outside this model (the delegation is then usable). *)
Inductive nshost := NHNoAddr | NHAttemptLimit | NHFatal (x : cause).
Inductive gl_out := GLNoAuth | GLLocal (x : cause).
(* (outcome, hosts looked up) *)
Fixpoint glueless_walk (hosts : list nshost) (limited : bool) (looked : nat) : gl_out * nat :=
  match hosts with
  | [] => (if limited then GLLocal CAttemptLimit else GLNoAuth, looked)
  | NHNoAddr :: r => glueless_walk r limited (S looked)
  | NHAttemptLimit :: r => glueless_walk r true (S looked)
  | NHFatal x :: _ => (GLLocal x, S looked)
  end.
Definition glueless (hosts : list nshost) : gl_out * nat := glueless_walk hosts false O.
(* the zone failure processDelegation files *)
Definition glueless_published (hosts : list nshost) (best_effort ctx_err over_budget : bool) : bool :=
  match fst (glueless hosts) with
  | GLNoAuth => zone_failure_admitted false best_effort ctx_err over_budget CNetwork
  | GLLocal _ => false
  end.
Definition nshost_no_addr (h : nshost) : bool := match h with NHNoAddr => true | _ => false end.
(* the causes lookupV4Nss ends the walk with *)
Definition fatal_cause (x : cause) : bool :=
  match x with CWorkLimit | CMaxRecursion | CCanceled | CDeadline => true | _ => false end.
