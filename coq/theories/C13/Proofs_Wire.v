(* C13 — the layers around the failure rung: the wrapper in front of the cache
   (dns64) and the wire fast path's gate for cached failures. *)
From Sdns Require Import Common.Base Gen.C13 C13.Model C13.Proofs_Base.
Open Scope Z_scope.

(* ------------------------------------------------------------- wrappers *)
(* a cached failure (and a request-local one) is terminal for the wrapper: the
   only SERVFAIL it follows up with a corresponding A query is a shared failure
   that came from downstream *)
Lemma wrapper_follows_only_shared src : wrapper_follow_up src = true <-> src = SrcSharedFailure.
Proof. destruct src; cbn; split; congruence. Qed.
Lemma cached_failure_no_traffic : wrapper_traffic SrcFailureCache = (0, 0).
Proof. reflexivity. Qed.
Lemma wrapper_lookups_match_follow_up src : fst (wrapper_traffic src) = if wrapper_follow_up src then 1 else 0.
Proof. destruct src; reflexivity. Qed.

(* ------------------------------------------------------------ wire gate *)
Lemma witness_entry_present idx zs z id :
  In z zs -> snapshot_of idx z = Some id ->
  In (z, id) (flat_map (fun z => match snapshot_of idx z with Some id => [(z, id)] | None => [] end) zs).
Proof.
  intros I S. apply in_flat_map. exists z. split; [exact I|]. rewrite S. now left.
Qed.

(* the witness taken at record time holds as long as the denial index is unchanged *)
Lemma witness_fresh idx n : witness_holds idx n (miss_witness idx n) = true.
Proof.
  unfold witness_holds, miss_witness. apply forallb_forall. intros z I.
  destruct (snapshot_of idx z) as [id|] eqn:S; [|reflexivity].
  apply existsb_exists. exists (z, id). split.
  - now apply witness_entry_present.
  - cbn. rewrite (proj2 (name_eqb_eq z z) eq_refl), N.eqb_refl. reflexivity.
Qed.

(* a snapshot on the name's path that the witness does not carry — a denial
   zone that appeared, or one that was replaced — invalidates it *)
Lemma witness_invalidated idx n w z id :
  In z (suffixes (canon_name n)) -> snapshot_of idx z = Some id ->
  (forall p, In p w -> fst p = z -> snd p <> id) ->
  witness_holds idx n w = false.
Proof.
  intros I S Nw. destruct (witness_holds idx n w) eqn:E; [exfalso|reflexivity].
  unfold witness_holds in E. rewrite forallb_forall in E. specialize (E z I). rewrite S in E.
  apply existsb_exists in E as [p [Ip Hp]]. apply andb_true_iff in Hp as [H1 H2].
  apply name_eqb_eq in H1. apply N.eqb_eq in H2. exact (Nw p Ip H1 H2).
Qed.

(* when the byte path answers a cached failure, checking is disabled (no denial
   rung applies), or denial is impossible for the store, or the failure is a
   question failure whose record-time miss witness still describes the index *)
Lemma wire_gate_open cd kq di idx_rung idx_query n :
  let w := if cd || negb kq then [] else miss_witness idx_rung n in
  wire_gate cd kq di (witness_holds idx_query n w) = true ->
  cd = true \/ di = true \/ (kq = true /\ witness_holds idx_query n (miss_witness idx_rung n) = true).
Proof.
  unfold wire_gate. destruct cd, kq, di; cbn; intro H; auto; try discriminate.
Qed.

(* ------------------------------------------------------------- failover *)
Lemma fo_ask_useful fbs : snd (fo_ask fbs) = true -> In FbUseful fbs.
Proof.
  induction fbs as [|[|] r IH]; cbn; intro U; [discriminate | now left |].
  destruct (fo_ask r) as [a u]. right. apply IH. exact U.
Qed.
Lemma map_zero_all {A} (l : list A) : Forall (fun a : Z => a = 0) (map (fun _ => 0) l).
Proof. induction l; cbn; constructor; auto. Qed.

Definition fo_local (p : fo_primary) : bool :=
  match p with FoMarkedAttempt | FoMarkedProbe | FoCtxErr => true | _ => false end.

(* a request-local failure of the primary stays request-local behind failover,
   whatever the fallback servers answer; the only other outcome is a fallback's
   useful answer (possible only for the attempt-limit mark, which does not stop
   the fallback round) *)
Lemma failover_local_stays_local rd p fbs : fo_local p = true ->
  match snd (failover_outcome rd p fbs) with
  | DFail r => request_local r = true
  | DUseful _ => p = FoMarkedAttempt /\ In FbUseful fbs
  | DTruncated => False
  end.
Proof.
  intro L. unfold failover_outcome.
  destruct fbs as [|f r]; [destruct p; try discriminate; reflexivity|].
  destruct p; try discriminate; destruct rd; cbn [negb fo_passthrough snd]; try reflexivity.
  destruct (fo_ask (f :: r)) as [a u] eqn:E. destruct u; cbn [snd]; [|reflexivity].
  split; [reflexivity|]. apply fo_ask_useful. now rewrite E.
Qed.

(* a shed probe or an abandoned request starts no fallback traffic *)
Lemma failover_shed_no_traffic rd p fbs : p = FoMarkedProbe \/ p = FoCtxErr ->
  Forall (fun a => a = 0) (fst (failover_outcome rd p fbs)).
Proof.
  intros [-> | ->]; unfold failover_outcome; destruct fbs as [|f r]; try (cbn; constructor);
    destruct rd; cbn [negb fst]; apply (map_zero_all (f :: r)).
Qed.

(* hence the cache records nothing for it *)
Lemma failover_local_not_recorded (H : qkey -> N) c s k now rd p fbs r : fo_local p = true ->
  snd (failover_outcome rd p fbs) = DFail r -> serve_writeback H c s k (DFail r) now = s.
Proof.
  intros L E. pose proof (failover_local_stays_local rd p fbs L) as S. rewrite E in S.
  unfold serve_writeback. unfold request_local in S. unfold cacheable_failure.
  destruct (rl_ctx_err r), (rl_best_effort r), (rl_work_limit r), (rl_marked r); cbn in *; try reflexivity; discriminate.
Qed.

Lemma failover_local_private rd p fbs : fo_local p = true ->
  match snd (failover_outcome rd p fbs) with
  | DFail r => request_local r = true /\ forall H c s k now, serve_writeback H c s k (DFail r) now = s
  | DUseful _ => p = FoMarkedAttempt /\ In FbUseful fbs
  | DTruncated => False
  end.
Proof.
  intro L. pose proof (failover_local_stays_local rd p fbs L) as S.
  destruct (snd (failover_outcome rd p fbs)) as [r| |] eqn:E; try exact S.
  split; [exact S|]. intros H c s k now. now apply (failover_local_not_recorded H c s k now rd p fbs r).
Qed.
