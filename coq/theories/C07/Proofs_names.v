(* C07 — names: what compare_suffix / is_sub / name_eqb decide, in terms of
   canonical (ASCII-folded) label lists. *)
From Sdns Require Import Common.Base Gen.C07 C07.Model.
Open Scope N_scope.

Lemma bytes_eqb_eq a b : bytes_eqb a b = true <-> a = b.
Proof.
  revert b. induction a as [|x xs IH]; intros [|y ys]; cbn; split; intros H; try discriminate; auto.
  - apply andb_true_iff in H. destruct H as [H1 H2]. apply N.eqb_eq in H1. apply IH in H2. congruence.
  - injection H as -> ->. apply andb_true_iff. split; [apply N.eqb_refl | apply IH; reflexivity].
Qed.

Lemma label_eqb_spec a b : label_eqb a b = true <-> canon_label a = canon_label b.
Proof. unfold label_eqb. apply bytes_eqb_eq. Qed.

Lemma label_eqb_refl a : label_eqb a a = true.
Proof. apply label_eqb_spec. reflexivity. Qed.

Lemma label_eqb_sym a b : label_eqb a b = label_eqb b a.
Proof.
  destruct (label_eqb a b) eqn:E1, (label_eqb b a) eqn:E2; auto.
  - apply label_eqb_spec in E1. symmetry in E1. apply label_eqb_spec in E1. congruence.
  - apply label_eqb_spec in E2. symmetry in E2. apply label_eqb_spec in E2. congruence.
Qed.

Lemma compare_suffix_sym a b : compare_suffix a b = compare_suffix b a.
Proof.
  revert b. induction a as [|x xs IH]; intros [|y ys]; cbn; auto.
  rewrite label_eqb_sym. destruct (label_eqb y x); auto.
Qed.

Lemma compare_suffix_le_l a b : (compare_suffix a b <= length a)%nat.
Proof.
  revert b. induction a as [|x xs IH]; intros [|y ys]; cbn; try lia.
  destruct (label_eqb x y); [specialize (IH ys)|]; lia.
Qed.

Lemma compare_suffix_le_r a b : (compare_suffix a b <= length b)%nat.
Proof. rewrite compare_suffix_sym. apply compare_suffix_le_l. Qed.

Lemma canon_length n : length (canon n) = length n.
Proof. unfold canon. apply map_length. Qed.

(* dnsname.Sub(zone, n): n's canonical labels start with zone's *)
Lemma canon_cons x xs : canon (x :: xs) = canon_label x :: canon xs.
Proof. reflexivity. Qed.

Lemma is_sub_spec z n : is_sub z n = true <-> exists rest, canon n = canon z ++ rest.
Proof.
  unfold is_sub. revert n. induction z as [|x xs IH]; intros n.
  - cbn. split; [intros _; exists (canon n); reflexivity | reflexivity].
  - destruct n as [|y ys].
    + cbn. split; [discriminate | intros [rest H]; discriminate].
    + rewrite !canon_cons. cbn [compare_suffix length].
      destruct (label_eqb x y) eqn:E.
      * change (Nat.eqb (S (compare_suffix xs ys)) (S (length xs))) with (Nat.eqb (compare_suffix xs ys) (length xs)).
        apply label_eqb_spec in E. split.
        -- intros H. apply IH in H. destruct H as [rest H]. exists rest. rewrite H, E. reflexivity.
        -- intros [rest H]. change ((canon_label x :: canon xs) ++ rest) with (canon_label x :: (canon xs ++ rest)) in H.
           injection H as _ H. apply IH. exists rest. exact H.
      * split; [cbn; discriminate|]. intros [rest H]. change ((canon_label x :: canon xs) ++ rest) with (canon_label x :: (canon xs ++ rest)) in H.
        injection H as H _. symmetry in H. apply label_eqb_spec in H. rewrite H in E. discriminate.
Qed.

Lemma name_eqb_spec a b : name_eqb a b = true <-> canon a = canon b.
Proof.
  revert b. induction a as [|x xs IH]; intros [|y ys]; cbn; split; intros H; try discriminate; auto.
  - apply andb_true_iff in H. destruct H as [H1 H2]. apply label_eqb_spec in H1. apply IH in H2.
    unfold canon in *. congruence.
  - injection H as H1 H2. apply andb_true_iff. split; [apply label_eqb_spec; exact H1 | apply IH; exact H2].
Qed.

Lemma name_eqb_refl a : name_eqb a a = true.
Proof. apply name_eqb_spec. reflexivity. Qed.

Lemma name_eqb_sym a b : name_eqb a b = name_eqb b a.
Proof.
  destruct (name_eqb a b) eqn:E1, (name_eqb b a) eqn:E2; auto.
  - apply name_eqb_spec in E1. symmetry in E1. apply name_eqb_spec in E1. congruence.
  - apply name_eqb_spec in E2. symmetry in E2. apply name_eqb_spec in E2. congruence.
Qed.

Lemma name_eqb_trans a b c : name_eqb a b = true -> name_eqb b c = true -> name_eqb a c = true.
Proof. rewrite !name_eqb_spec. congruence. Qed.

Lemma canon_idem n : canon (canon n) = canon n.
Proof.
  unfold canon. rewrite map_map. apply map_ext. intros l. unfold canon_label. rewrite map_map.
  apply map_ext. intros b. unfold fold_byte.
  destruct ((65 <=? b) && (b <=? 90)) eqn:E; [|rewrite E; reflexivity].
  apply andb_true_iff in E. destruct E as [E1 E2]. apply N.leb_le in E1, E2.
  assert (H : (65 <=? b + 32) && (b + 32 <=? 90) = false).
  { apply andb_false_iff. right. apply N.leb_gt. lia. }
  rewrite H. reflexivity.
Qed.

Lemma name_eqb_canon_l a : name_eqb (canon a) a = true.
Proof. apply name_eqb_spec. apply canon_idem. Qed.

Lemma is_sub_length z n : is_sub z n = true -> (length z <= length n)%nat.
Proof.
  intros H. apply is_sub_spec in H. destruct H as [rest H].
  apply (f_equal (@length _)) in H. rewrite app_length, !canon_length in H. lia.
Qed.

Lemma is_sub_refl z : is_sub z z = true.
Proof. apply is_sub_spec. exists []. rewrite app_nil_r. reflexivity. Qed.

Lemma is_sub_trans a b c : is_sub a b = true -> is_sub b c = true -> is_sub a c = true.
Proof.
  rewrite !is_sub_spec. intros [r1 H1] [r2 H2]. exists (r1 ++ r2). rewrite H2, H1, app_assoc. reflexivity.
Qed.

(* equal length + sub = same name *)
Lemma is_sub_same_length z n : is_sub z n = true -> length z = length n -> name_eqb n z = true.
Proof.
  intros H L. apply is_sub_spec in H. destruct H as [rest H]. apply name_eqb_spec.
  assert (rest = []).
  { apply (f_equal (@length _)) in H. rewrite app_length, !canon_length in H. destruct rest; [reflexivity|cbn in H; lia]. }
  subst. rewrite app_nil_r in H. exact H.
Qed.

Lemma strict_sub_length z n : is_sub z n = true -> name_eqb n z = false -> (length z < length n)%nat.
Proof.
  intros H E. pose proof (is_sub_length _ _ H) as L.
  destruct (Nat.eq_dec (length z) (length n)) as [Eq|Ne]; [|lia].
  rewrite (is_sub_same_length _ _ H Eq) in E. discriminate.
Qed.

Lemma is_sub_respects_eq_r z a b : name_eqb a b = true -> is_sub z a = is_sub z b.
Proof.
  intros E. apply name_eqb_spec in E.
  destruct (is_sub z a) eqn:Ha, (is_sub z b) eqn:Hb; auto.
  - apply is_sub_spec in Ha. destruct Ha as [r H]. rewrite E in H.
    assert (is_sub z b = true) by (apply is_sub_spec; eauto). congruence.
  - apply is_sub_spec in Hb. destruct Hb as [r H]. rewrite <- E in H.
    assert (is_sub z a = true) by (apply is_sub_spec; eauto). congruence.
Qed.

Lemma is_sub_respects_eq_l a b n : name_eqb a b = true -> is_sub a n = is_sub b n.
Proof.
  intros E. apply name_eqb_spec in E.
  destruct (is_sub a n) eqn:Ha, (is_sub b n) eqn:Hb; auto.
  - apply is_sub_spec in Ha. destruct Ha as [r H]. rewrite E in H.
    assert (is_sub b n = true) by (apply is_sub_spec; eauto). congruence.
  - apply is_sub_spec in Hb. destruct Hb as [r H]. rewrite <- E in H.
    assert (is_sub a n = true) by (apply is_sub_spec; eauto). congruence.
Qed.

(* "the last k labels of qname" is an ancestor of qname *)
Lemma firstn_is_sub k n : is_sub (firstn k n) n = true.
Proof.
  apply is_sub_spec. exists (canon (skipn k n)).
  unfold canon. rewrite <- map_app, firstn_skipn. reflexivity.
Qed.

(* an ancestor of n with k labels IS the last k labels of n *)
Lemma is_sub_firstn z n : is_sub z n = true -> name_eqb (firstn (length z) n) z = true.
Proof.
  intros H. apply is_sub_spec in H. destruct H as [rest H]. apply name_eqb_spec.
  unfold canon in *. rewrite <- firstn_map, H. rewrite <- (map_length canon_label z).
  rewrite firstn_app, Nat.sub_diag, firstn_all. cbn. rewrite app_nil_r. reflexivity.
Qed.

(* a deeper cut of the same name lies inside a shallower one *)
Lemma firstn_deeper_sub j k n : (j <= k)%nat -> is_sub (firstn j n) (firstn k n) = true.
Proof.
  intros L. replace (firstn j n) with (firstn j (firstn k n)); [apply firstn_is_sub|].
  rewrite firstn_firstn. f_equal. lia.
Qed.

Lemma mem_name_spec x l : mem_name x l = true <-> exists y, In y l /\ name_eqb x y = true.
Proof.
  induction l as [|y r IH]; cbn.
  - split; [discriminate | intros [y [[] _]]].
  - rewrite orb_true_iff, IH. split.
    + intros [H|[z [Hin H]]]; eauto.
    + intros [z [[->|Hin] H]]; eauto.
Qed.
