(* C07 — translator ties for dnsclient.QuestionMatches, resolver.progressingReferral and resolver.validReferral.
   Gen/C07.v holds their translations (srcgen: full_imports, "ascii_strings": strings.EqualFold / dns.CanonicalName
   as ASCII models - exact only for octets below 128, which is what the wire decoder's presentation strings are;
   validReferral with "nonnil_pointers": the translation describes the function for info.nsRecord != nil, the nil
   case is the first conjunct of the Go expression and [valid_referral]'s [None => false]).
   On the presentation strings ([pres], Proofs_zone.v) of escape-free names - labels non-empty, without '.' and
   '\' inside, any case - the translated functions compute the model's [question_matches],
   [progressing_referral] and [valid_referral].  These replace the former source-text pins of the three
   functions: a behaviour-preserving rewrite keeps the proofs, a behaviour-changing one breaks them. *)
From Sdns Require Import Common.Base Common.GoList Gen.C07 C07.Model C07.Proofs_names C07.Proofs_zone C07.Proofs_sub.
Open Scope N_scope.

(* ---- presentation strings under the ASCII string models *)
Lemma lower_byte_is_fold c : go_ascii_lower_byte c = fold_byte c.
Proof. reflexivity. Qed.

Lemma lower_pres_labels ls : go_ascii_lower (pres_labels ls) = pres_labels (map canon_label ls).
Proof.
  induction ls as [|l ls IH]; [reflexivity|].
  cbn [map]. rewrite !pres_labels_cons. unfold go_ascii_lower in *. rewrite map_app. cbn [map].
  rewrite IH. reflexivity.
Qed.
Lemma lower_pres n : go_ascii_lower (pres n) = pres (canon n).
Proof.
  destruct n as [|x n]; [reflexivity|].
  rewrite pres_nonempty by discriminate. rewrite lower_pres_labels, map_rev.
  rewrite canon_cons. rewrite pres_nonempty by discriminate. rewrite <- canon_cons. reflexivity.
Qed.

Lemma fold_byte_plain b : b <> 46 /\ b <> 92 -> fold_byte b <> 46 /\ fold_byte b <> 92.
Proof. intros [H1 H2]. unfold fold_byte. destruct ((65 <=? b) && (b <=? 90)) eqn:E; lia. Qed.
Lemma plain_canon n : plain n -> plain (canon n).
Proof.
  unfold plain, canon. intros H. apply Forall_map. eapply Forall_impl; [|exact H].
  intros l [H0 Hl]. split.
  - destruct l; [congruence|discriminate].
  - unfold canon_label. apply Forall_map. eapply Forall_impl; [|exact Hl]. exact fold_byte_plain.
Qed.

(* a presentation string ends in a dot that is not escaped *)
Lemma pres_is_fqdn n : plain n -> go_is_fqdn_ascii (pres n) = true.
Proof.
  intros Hn. destruct n as [|x n]; [reflexivity|].
  rewrite pres_nonempty by discriminate.
  assert (Hr : rev (x :: n) <> []) by (intros E; apply (f_equal (@length _)) in E; rewrite rev_length in E; discriminate).
  pose proof (plain_rev _ Hn) as Hp.
  destruct (exists_last Hr) as [ls' [l E]]. rewrite E in *.
  apply Forall_app in Hp as [_ Hl]. inversion Hl as [|? ? [Hl0 Hlc] _]; subst.
  destruct (exists_last Hl0) as [l' [c ->]].
  apply Forall_app in Hlc as [_ Hc]. inversion Hc as [|? ? [_ Hc92] _]; subst.
  rewrite pres_labels_app. unfold pres_labels at 2. cbn [map concat]. rewrite app_nil_r.
  unfold go_is_fqdn_ascii. rewrite !rev_app_distr. cbn [rev app].
  destruct c as [|p]; [reflexivity|].
  cbn [go_trailing_backslashes].
  destruct (N.eq_dec (N.pos p) 92) as [E92|E92]; [congruence|].
  destruct p as [p|p|]; try reflexivity;
  repeat (destruct p as [p|p|]; try reflexivity); congruence.
Qed.

Lemma canonical_name_pres n : plain n -> go_canonical_name_ascii (pres n) = pres (canon n).
Proof.
  intros Hn. unfold go_canonical_name_ascii, go_fqdn_ascii. rewrite (pres_is_fqdn n Hn). apply lower_pres.
Qed.

Lemma pres_inj a b : plain a -> plain b -> pres a = pres b -> a = b.
Proof.
  intros Ha Hb E. destruct a as [|x a], b as [|y b]; try reflexivity.
  - rewrite (pres_nonempty (y :: b)) in E by discriminate.
    assert (Hr : rev (y :: b) <> []) by (intros E'; apply (f_equal (@length _)) in E'; rewrite rev_length in E'; discriminate).
    pose proof (pres_labels_len _ Hr (plain_rev _ Hb)) as H. rewrite <- E in H. cbn in H. lia.
  - rewrite (pres_nonempty (x :: a)) in E by discriminate.
    assert (Hr : rev (x :: a) <> []) by (intros E'; apply (f_equal (@length _)) in E'; rewrite rev_length in E'; discriminate).
    pose proof (pres_labels_len _ Hr (plain_rev _ Ha)) as H. rewrite E in H. cbn in H. lia.
  - rewrite !pres_nonempty in E by discriminate.
    apply pres_labels_inj in E; [|apply plain_rev; assumption|apply plain_rev; assumption].
    rewrite <- (rev_involutive (x :: a)), E, rev_involutive. reflexivity.
Qed.

(* dns.CanonicalName(a) == dns.CanonicalName(b) on presentation strings is the model's name_eqb *)
Lemma canonical_eqb_pres a b : plain a -> plain b ->
  go_list_eqb N.eqb (go_canonical_name_ascii (pres a)) (go_canonical_name_ascii (pres b)) = name_eqb a b.
Proof.
  intros Ha Hb. rewrite !canonical_name_pres by assumption.
  destruct (name_eqb a b) eqn:E.
  - apply name_eqb_spec in E. rewrite E. apply go_list_eqb_refl.
  - destruct (go_list_eqb N.eqb (pres (canon a)) (pres (canon b))) eqn:F; [|reflexivity].
    apply go_bytes_eqb_eq in F. apply pres_inj in F; [|apply plain_canon; assumption|apply plain_canon; assumption].
    apply name_eqb_spec in F. congruence.
Qed.
Lemma equal_fold_canonical_pres a b : plain a -> plain b ->
  go_equal_fold_ascii (go_canonical_name_ascii (pres a)) (go_canonical_name_ascii (pres b)) = name_eqb a b.
Proof.
  intros Ha Hb. unfold go_equal_fold_ascii.
  assert (Hl : forall s, go_ascii_lower (go_canonical_name_ascii s) = go_canonical_name_ascii s)
    by (intros s; unfold go_canonical_name_ascii; apply go_ascii_lower_idem).
  rewrite !Hl. exact (canonical_eqb_pres a b Ha Hb).
Qed.

(* ---- QuestionMatches *)
Definition t_question (q : question) : T_Question := mk_T_Question (pres (q_name q)) (q_type q) (q_class q).

Lemma gen_QuestionMatches req resp :
  plain (q_name req) -> Forall (fun r => plain (q_name r)) resp ->
  go_QuestionMatches (t_question req) (map t_question resp) = question_matches req resp.
Proof.
  intros Hq Hr. unfold go_QuestionMatches, question_matches, go_len. rewrite map_length.
  destruct resp as [|r [|r2 rest]].
  - reflexivity.
  - cbn [length map]. change (Z.of_nat 1 =? 1)%Z with true. cbn [negb].
    rewrite go_idx_0. cbn [t_question T_Question_Qtype T_Question_Qclass T_Question_Name].
    inversion Hr; subst. rewrite canonical_eqb_pres by assumption. reflexivity.
  - cbn [length]. destruct (Z.eqb (Z.of_nat (S (S (length rest)))) 1) eqn:E; [apply Z.eqb_eq in E; lia|reflexivity].
Qed.

(* ---- progressingReferral *)
Lemma gen_progressingReferral fuel referral auth qname :
  plain referral -> plain auth -> plain qname ->
  (length (pres referral) + length (pres auth) + length (pres qname) < fuel)%nat ->
  go_progressingReferral fuel (pres referral) (pres auth) (pres qname) = Some (progressing_referral referral auth qname).
Proof.
  intros Hr Ha Hq Hf. unfold go_progressingReferral, progressing_referral.
  rewrite (gen_sub fuel auth referral Ha Hr) by lia.
  destruct (is_sub auth referral); cbn [negb]; [|reflexivity].
  rewrite equal_fold_canonical_pres by assumption.
  destruct (name_eqb referral auth); [reflexivity|].
  rewrite (gen_sub fuel referral qname Hr Hq) by lia. reflexivity.
Qed.

(* ---- validReferral (for a referral that has an NS record: info.nsRecord != nil) *)
Definition t_info (owner : name) (i : dinfo) : T_delegationInfo :=
  mk_T_delegationInfo (map (fun h => (pres h, true)) (di_hosts i)) (mk_T_NS (mk_T_RR_Header (pres owner) T_NS (di_class i) (di_ttl i) 0) [])
                      (di_ttl i) (di_has_soa i) (di_incoherent i).

Lemma gen_validReferral fuel i owner auth q :
  di_owner i = Some owner -> plain owner -> plain auth -> plain (q_name q) ->
  (length (pres owner) + length (pres auth) + length (pres (q_name q)) < fuel)%nat ->
  go_validReferral fuel (t_info owner i) (pres auth) (t_question q) = Some (valid_referral i auth q).
Proof.
  intros Ho Hp Ha Hq Hf. unfold go_validReferral, valid_referral, t_info, t_question, go_NS_Header. rewrite Ho.
  cbn [T_delegationInfo_nsRecord T_NS_Hdr T_RR_Header_Name T_RR_Header_Class T_Question_Name T_Question_Qclass T_delegationInfo_incoherent].
  rewrite (gen_progressingReferral fuel owner auth (q_name q) Hp Ha Hq Hf). reflexivity.
Qed.
