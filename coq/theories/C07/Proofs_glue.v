(* C07 — glue: everything checkGlueRR accepts is an NS host of the referral,
   lies inside the zone cut out of qname by the bookkeeping level, and has an
   address that is neither loopback nor one of the machine's own. *)
From Sdns Require Import Common.Base Gen.C07 C07.Model C07.Proofs_names.
Open Scope N_scope.

Lemma glue_in_level_spec level qname owner :
  glue_in_level level qname owner = true ->
  length (firstn level qname) = level /\ is_sub (firstn level qname) owner = true.
Proof.
  unfold glue_in_level. intros H. apply negb_true_iff in H. apply Nat.ltb_ge in H.
  pose proof (compare_suffix_le_r owner (firstn level qname)) as L1.
  pose proof (firstn_le_length level qname) as L2.
  split; [lia|]. unfold is_sub. rewrite compare_suffix_sym. apply Nat.eqb_eq. lia.
Qed.

Lemma usable_addr_sound local ip a :
  usable_addr local ip = Some a -> is_loopback a = false /\ mem_ip a local = false /\
  exists a0, addr_from_slice ip = Some a0 /\ a = unmap a0.
Proof.
  unfold usable_addr. destruct (addr_from_slice ip) as [a0|]; [|discriminate].
  destruct (is_loopback (unmap a0) || mem_ip (unmap a0) local) eqn:E; [discriminate|].
  intros H. injection H as <-. apply orb_false_iff in E. destruct E as [E1 E2]. eauto.
Qed.

(* a canonical (unmapped) address never is an IPv4-mapped IPv6 address *)
Lemma unmap_not_mapped a0 : match unmap a0 with IP6 v => (v / 4294967296 =? 65535) = false | IP4 _ => True end.
Proof.
  destruct a0 as [v|v]; cbn; [exact I|].
  destruct (v / 4294967296 =? 65535) eqn:E; [exact I | exact E].
Qed.

Section Glue.
  Variable local : list ipaddr.
  Variable level : nat.
  Variable qname : name.
  Variable hosts : list name.

  Definition addr_ok (a : ipaddr) : Prop := is_loopback a = false /\ mem_ip a local = false.
  Definition name_ok (n : name) : Prop :=
    exists owner, n = canon owner /\ glue_in_level level qname owner = true /\ mem_name owner hosts = true.
  Definition entry_ok (p : name * list ipaddr) : Prop := name_ok (fst p) /\ Forall addr_ok (snd p).
  Definition st_ok (st : list ipaddr * list name * list (name * list ipaddr)) : Prop :=
    Forall addr_ok (fst (fst st)) /\ Forall name_ok (snd (fst st)) /\ Forall entry_ok (snd st).

  Lemma add_name_ok x f : Forall name_ok f -> name_ok (canon x) -> Forall name_ok (add_name x f).
  Proof.
    intros Hf Hx. unfold add_name. destruct (mem_name x f); [exact Hf|].
    apply Forall_app. split; [exact Hf | constructor; [exact Hx | constructor]].
  Qed.

  Lemma assoc_add_ok n a l : Forall entry_ok l -> name_ok (canon n) -> addr_ok a -> Forall entry_ok (assoc_add n a l).
  Proof.
    intros Hl Hn Ha. induction l as [|[m as_] r IH]; cbn.
    - constructor; [|constructor]. split; cbn; [exact Hn | constructor; [exact Ha | constructor]].
    - inversion Hl as [|? ? [Hm Has] Hr]; subst. cbn in Hm, Has. destruct (name_eqb n m).
      + constructor; [|exact Hr]. split; cbn; [exact Hm|].
        destruct (mem_ip a as_); [exact Has|]. apply Forall_app. split; [exact Has | constructor; [exact Ha | constructor]].
      + constructor; [split; assumption | apply IH; exact Hr].
  Qed.

  Lemma glue_step_ok ty st r : st_ok st -> st_ok (glue_step local level qname hosts ty st r).
  Proof.
    destruct st as [[s f] a]. intros [Hs [Hf Ha]]. cbn in Hs, Hf, Ha. unfold glue_step.
    destruct (negb (rr_type r =? ty)); [repeat split; assumption|].
    destruct (rr_data r) as [ip| | |]; try (repeat split; assumption).
    destruct (negb (glue_in_level level qname (rr_owner r))) eqn:E1; [repeat split; assumption|].
    destruct (negb (mem_name (rr_owner r) hosts)) eqn:E2; [repeat split; assumption|].
    destruct (usable_addr local ip) as [ad|] eqn:E3; [|repeat split; assumption].
    apply negb_false_iff in E1, E2. apply usable_addr_sound in E3. destruct E3 as [L1 [L2 _]].
    assert (Hn : name_ok (canon (rr_owner r))) by (exists (rr_owner r); auto).
    assert (Had : addr_ok ad) by (split; assumption).
    repeat split; cbn.
    - destruct (mem_ip ad s); [exact Hs|]. apply Forall_app. split; [exact Hs | constructor; [exact Had | constructor]].
    - apply add_name_ok; assumption.
    - apply assoc_add_ok; assumption.
  Qed.

  Lemma glue_fold_ok ty extra st : st_ok st -> st_ok (fold_left (glue_step local level qname hosts ty) extra st).
  Proof. revert st. induction extra as [|r rest IH]; intros st H; cbn; [exact H | apply IH, glue_step_ok, H]. Qed.
End Glue.

Lemma check_glue_sound ipv6 local level qname hosts extra :
  let g := check_glue ipv6 local level qname hosts extra in
  Forall (addr_ok local) (gr_servers g) /\
  Forall (name_ok level qname hosts) (gr_found4 g) /\ Forall (name_ok level qname hosts) (gr_found6 g) /\
  Forall (entry_ok local level qname hosts) (gr_addrs4 g) /\ Forall (entry_ok local level qname hosts) (gr_addrs6 g).
Proof.
  unfold check_glue.
  assert (H0 : st_ok local level qname hosts ([], [], [])) by (repeat split; constructor).
  assert (H6 : st_ok local level qname hosts
            (if ipv6 then fold_left (glue_step local level qname hosts T_AAAA) extra ([], [], []) else ([], [], []))).
  { destruct ipv6; [apply glue_fold_ok; exact H0 | exact H0]. }
  destruct (if ipv6 then fold_left (glue_step local level qname hosts T_AAAA) extra ([], [], []) else ([], [], [])) as [[s6 f6] a6].
  destruct H6 as [Hs6 [Hf6 Ha6]]. cbn in Hs6, Hf6, Ha6.
  assert (H4 : st_ok local level qname hosts (fold_left (glue_step local level qname hosts T_A) extra (s6, [], []))).
  { apply glue_fold_ok. repeat split; cbn; [exact Hs6 | constructor | constructor]. }
  destruct (fold_left (glue_step local level qname hosts T_A) extra (s6, [], [])) as [[s4 f4] a4].
  destruct H4 as [Hs4 [Hf4 Ha4]]. cbn in *. repeat split; assumption.
Qed.

(* when the bookkeeping level is at least the depth of the zone whose servers sent the referral
   (and that zone encloses qname, as the descent guarantees), accepted glue lies inside that zone *)
Lemma name_ok_in_zone level qname hosts auth n :
  is_sub auth qname = true -> (length auth <= level)%nat ->
  name_ok level qname hosts n ->
  exists owner, n = canon owner /\ is_sub auth owner = true /\ mem_name owner hosts = true.
Proof.
  intros Hq Hl [owner [-> [Hg Hm]]]. exists owner. repeat split; auto.
  apply glue_in_level_spec in Hg. destruct Hg as [_ Hs].
  pose proof (firstn_deeper_sub (length auth) level qname Hl) as H1.
  pose proof (is_sub_trans _ _ _ H1 Hs) as H2.
  rewrite (is_sub_respects_eq_l _ _ owner (is_sub_firstn _ _ Hq)) in H2. exact H2.
Qed.
