(* C07 — the machine's own interface addresses (and loopback) never become server addresses:
   whatever spelling a glue record uses (4 octets, 16 octets, 4-in-6), an address that - unmapped -
   is on the local-interface list is dropped by usableAddr; hence nothing a referral files in the
   NS-address cache or lists as a server of the delegation is local.  [local] is the set of
   interface addresses the host has (the lab and unit drivers enumerate it on the machine). *)
From Sdns Require Import Common.Base Gen.C07 C07.Model C07.Proofs_names C07.Proofs_glue.
Open Scope N_scope.

Lemma local_spelling_unusable local ip a0 :
  addr_from_slice ip = Some a0 -> mem_ip (unmap a0) local = true -> usable_addr local ip = None.
Proof.
  intros E H. unfold usable_addr. rewrite E. cbn. rewrite H. now rewrite orb_true_r.
Qed.

Lemma loopback_spelling_unusable local ip a0 :
  addr_from_slice ip = Some a0 -> is_loopback (unmap a0) = true -> usable_addr local ip = None.
Proof.
  intros E H. unfold usable_addr. rewrite E. cbn. now rewrite H.
Qed.

Lemma local_or_loopback_unusable local ip a0 :
  addr_from_slice ip = Some a0 ->
  mem_ip (unmap a0) local = true \/ is_loopback (unmap a0) = true -> usable_addr local ip = None.
Proof.
  intros E [H|H]; [exact (local_spelling_unusable local ip a0 E H) | exact (loopback_spelling_unusable local ip a0 E H)].
Qed.

(* the 4-octet and the mapped 16-octet spelling of an IPv4 address are the same address after Unmap *)
Lemma mapped_spelling_same v :
  v < 4294967296 -> unmap (IP6 (65535 * 4294967296 + v)) = unmap (IP4 v).
Proof.
  intros Hv. cbn [unmap].
  replace ((65535 * 4294967296 + v) / 4294967296) with 65535.
  2:{ symmetry. rewrite N.add_comm, N.div_add by lia. rewrite (N.div_small v) by lia. reflexivity. }
  rewrite N.eqb_refl. f_equal.
  rewrite N.add_comm, N.mod_add by lia. apply N.mod_small; lia.
Qed.

Lemma referral_glue_addrs_ok ipv6 local level auth q m o g :
  referral_glue ipv6 local level auth q m = Some (o, g) ->
  (forall a, In a (gr_servers g) -> is_loopback a = false /\ mem_ip a local = false) /\
  (forall n l a, In (n, l) (gr_addrs4 g ++ gr_addrs6 g) -> In a l -> is_loopback a = false /\ mem_ip a local = false).
Proof.
  unfold referral_glue. intros Hg.
  destruct (dispose auth q m) as [| |i| |]; try discriminate.
  destruct (di_owner i) as [o'|]; [|discriminate]. injection Hg as <- <-.
  pose proof (check_glue_sound ipv6 local level (q_name q) (di_hosts i) (u_extra m)) as [S [_ [_ [A4 A6]]]].
  rewrite Forall_forall in S, A4, A6. split.
  - intros a Ha. exact (S a Ha).
  - intros n l a Hin Ha. apply in_app_or in Hin.
    assert (E : entry_ok local level (q_name q) (di_hosts i) (n, l)) by (destruct Hin as [H|H]; [exact (A4 _ H) | exact (A6 _ H)]).
    destruct E as [_ F]. cbn in F. rewrite Forall_forall in F. exact (F a Ha).
Qed.

(* a referral all of whose glue spells local or loopback addresses yields no server at all *)
Example ex_own_address_glue_dropped :
  let local := [IP4 3221225986; IP6 1; IP4 2130706433] in   (* 192.0.2.2, ::1, 127.0.0.1 *)
  let host := [[108;49]; [101;118;105;108]; [115;117;98]; [110;115]] in
  let m := mk_umsg 0 [] [mk_rr [[108;49]; [101;118;105;108]; [115;117;98]] T_NS 1 300 (RdName host)]
                   [mk_rr host T_A 1 300 (RdA [192;0;2;2]);
                    mk_rr host T_A 1 300 (RdA [0;0;0;0;0;0;0;0;0;0;255;255;192;0;2;2]);
                    mk_rr host T_A 1 300 (RdA [127;0;0;1])] in
  match referral_glue false local 2 [[108;49]; [101;118;105;108]] (mk_q [[108;49]; [101;118;105;108]; [115;117;98]; [104]] 1 1) m with
  | Some (_, g) => gr_servers g = [] /\ gr_addrs4 g = []
  | None => False
  end.
Proof. vm_compute. split; reflexivity. Qed.

(* ... while the same referral with the old "compare the mapped spelling" filter (interface addresses
   kept 4-in-6, glue compared after Unmap) would have kept the address: the list then never matches *)
Example ex_mapped_interface_list_misses :
  usable_addr [IP6 (65535 * 4294967296 + 3221225986)] [192;0;2;2] = Some (IP4 3221225986).
Proof. vm_compute. reflexivity. Qed.
