(* C07 — property theorems only.  Each is closed by [exact <lemma>] so that it cannot be
   quietly weakened; the lemmas live in Proofs_*.v, the model in Model.v; Gen/C07.v is
   regenerated from /repo on every run (constant + source text of the helpers, tied in
   Proofs_shape.v).  Names are label lists, root first; [canon] folds ASCII case. *)
From Sdns Require Import Common.Base Common.GoList Gen.C07 C07.Model C07.Proofs_names C07.Proofs_exchange
  C07.Proofs_glue C07.Proofs_referral C07.Proofs_contain C07.Proofs_chase C07.Proofs_gluehist C07.Proofs_local C07.Proofs_fold C07.Proofs_zone C07.Proofs_sub C07.Proofs_gen C07.Proofs_gluename C07.Proofs_twosite C07.Proofs_deleg C07.Proofs_min C07.Proofs_minname C07.Proofs_filter C07.Proofs_info C07.Proofs_shape.
Open Scope N_scope.

(* A reply is accepted only when it parses, carries the outstanding query's ID and - when the
   query had a question - exactly that one question (type, class, name up to ASCII case).  On a
   datagram socket every message read before it carried another ID (it was skipped, it did not
   end the exchange); on a stream the accepted message is the first one. *)
Theorem accept_requires_id_and_question :
  forall stream req_id rq dgs i,
  exchange_accept stream req_id rq dgs = XAccept i ->
  exists d m, nth_error dgs i = Some d /\ read_msg d = RdOk m /\ w_id m = req_id /\
    (forall q, rq = Some q ->
       exists r, w_qs m = [r] /\ q_type r = q_type q /\ q_class r = q_class q /\ canon (q_name r) = canon (q_name q)) /\
    (stream = true -> i = 0%nat) /\
    (stream = false -> forall j, (j < i)%nat ->
       exists d' m', nth_error dgs j = Some d' /\ read_msg d' = RdOk m' /\ w_id m' <> req_id).
Proof. exact exchange_accept_sound. Qed.
Print Assumptions accept_requires_id_and_question.

(* Everything checkGlueRR accepts - names it marks found, names it files addresses under, servers
   it will dial - is an NS host of the referral lying inside the zone formed by the last [level]
   labels of the question, with an address that is neither loopback nor a local interface's. *)
Theorem glue_in_bailiwick :
  forall ipv6 local level qname hosts extra,
  let g := check_glue ipv6 local level qname hosts extra in
  Forall (addr_ok local) (gr_servers g) /\
  Forall (name_ok level qname hosts) (gr_found4 g) /\ Forall (name_ok level qname hosts) (gr_found6 g) /\
  Forall (entry_ok local level qname hosts) (gr_addrs4 g) /\ Forall (entry_ok local level qname hosts) (gr_addrs6 g).
Proof. exact check_glue_sound. Qed.
Print Assumptions glue_in_bailiwick.

(* ... which is the delegating zone (or deeper) whenever the level is at least that zone's depth *)
Theorem glue_in_delegating_zone :
  forall level qname hosts auth n,
  is_sub auth qname = true -> (length auth <= level)%nat -> name_ok level qname hosts n ->
  exists owner, n = canon owner /\ is_sub auth owner = true /\ mem_name owner hosts = true.
Proof. exact name_ok_in_zone. Qed.
Print Assumptions glue_in_delegating_zone.

Theorem usable_addr_never_local :
  forall local ip a, usable_addr local ip = Some a ->
  is_loopback a = false /\ mem_ip a local = false /\ exists a0, addr_from_slice ip = Some a0 /\ a = unmap a0.
Proof. exact usable_addr_sound. Qed.
Print Assumptions usable_addr_never_local.

(* A referral is followed only when its NS records form one set (same owner, same class as the
   question), owned strictly below the zone that was asked and on the path to the query name;
   every host of the delegation comes from such a record. *)
Theorem referral_progress :
  forall ns auth q,
  valid_referral (extract_info ns) auth q = true ->
  exists owner,
    di_owner (extract_info ns) = Some owner /\
    (forall r, In r ns -> is_ns r -> name_eqb (rr_owner r) owner = true /\ rr_class r = q_class q) /\
    (forall h, In h (di_hosts (extract_info ns)) ->
       exists r t, In r ns /\ is_ns r /\ rr_data r = RdName t /\ h = canon t /\ name_eqb (rr_owner r) owner = true) /\
    is_sub auth owner = true /\ name_eqb owner auth = false /\ (length auth < length owner)%nat /\
    is_sub owner (q_name q) = true /\ (length owner <= length (q_name q))%nat.
Proof. exact valid_referral_sound. Qed.
Print Assumptions referral_progress.

(* Valid referrals strictly increase the label depth towards qname: the descent relation is
   well founded, a chain of them has at most |qname| - |start| links, and the zone being asked
   always encloses qname. *)
Theorem wellfounded_descent : forall q, well_founded (descends q).
Proof. exact descends_wf. Qed.
Print Assumptions wellfounded_descent.

Theorem descent_chain_bounded :
  forall q z zs, referral_chain q z zs -> (length z + length zs <= length q \/ zs = [])%nat.
Proof. exact referral_chain_bound. Qed.
Print Assumptions descent_chain_bounded.

Theorem asked_zone_encloses_qname :
  forall q z zs, is_sub z q = true -> referral_chain q z zs -> is_sub (last zs z) q = true.
Proof. exact referral_chain_encloses. Qed.
Print Assumptions asked_zone_encloses_qname.

(* Everything the cacheable filter keeps is owned by the question name, or is a DNAME or the
   signature of one; everything owned by the question name is kept. *)
Theorem cached_owned_by_question :
  forall qn answer r, In r (cacheable_answer qn answer) ->
  In r answer /\ (canon (rr_owner r) = canon qn \/ dname_material r).
Proof. exact cacheable_sound. Qed.
Print Assumptions cached_owned_by_question.

Theorem cached_keeps_own_records :
  forall qn answer r, In r answer -> canon (rr_owner r) = canon qn -> In r (cacheable_answer qn answer).
Proof. exact cacheable_complete. Qed.
Print Assumptions cached_keeps_own_records.

(* CONTAINMENT.  For a server authoritative for [auth] - the zone any descent (searchCache seed,
   new or cached referrals, minimisation steps) arrives at - asked a question inside [auth], and ANY
   message m it sends, no record r of m owned outside [auth] is
     (a) relayed to the client in the Answer,
     (b) cached (neither under its own name nor under the question's key),
     (c) used as glue: no address is learnt for its owner, at the level that descent hands to the
         glue test,
     (d) part of a delegation that is followed or cached: an accepted referral is one NS set owned
         strictly inside [auth] on the path to the question, and no NS record owned outside is in it. *)
Theorem containment :
  forall start steps q m r ipv6 local,
  let auth := fst (descent start steps) in
  let level := snd (descent start steps) in
  is_sub auth (q_name q) = true ->
  is_sub auth (rr_owner r) = false ->
  ~ In r (relayed_answer auth q m) /\
  ~ In r (cached_for q (relayed_answer auth q m)) /\
  (forall o g, referral_glue ipv6 local level auth q m = Some (o, g) ->
     ~ In (canon (rr_owner r)) (gr_found4 g ++ gr_found6 g ++ map fst (gr_addrs4 g) ++ map fst (gr_addrs6 g))) /\
  (forall i, dispose auth q m = DReferral i ->
     exists owner, di_owner i = Some owner /\ is_sub auth owner = true /\ name_eqb owner auth = false /\
       is_sub owner (q_name q) = true /\ (In r (u_ns m) -> ~ is_ns r)).
Proof. exact containment_all. Qed.
Print Assumptions containment.

(* What reaches the client's Answer comes from the Answer section (never Authority / Additional)
   and is owned inside the answering zone *)
Theorem relay_only_in_zone_answer_records :
  forall auth q m r, In r (relayed_answer auth q m) -> In r (u_answer m) /\ is_sub auth (rr_owner r) = true.
Proof. exact relayed_sound. Qed.
Print Assumptions relay_only_in_zone_answer_records.

(* The level handed to the glue test never is shallower than the zone whose servers are asked,
   after any sequence of new referrals, cached referrals (however many labels they cross) and
   minimisation steps *)
Theorem descent_level_invariant : forall zone steps, level_ok (descent zone steps).
Proof. exact descent_level_ok. Qed.
Print Assumptions descent_level_invariant.

(* glue containment for an explicitly given level (the form the unit driver exercises) *)
Theorem containment_glue_at_level :
  forall auth q m, is_sub auth (q_name q) = true ->
  forall r, is_sub auth (rr_owner r) = false ->
  forall ipv6 local level o g, (length auth <= level)%nat ->
  referral_glue ipv6 local level auth q m = Some (o, g) ->
  ~ In (canon (rr_owner r)) (gr_found4 g ++ gr_found6 g ++ map fst (gr_addrs4 g) ++ map fst (gr_addrs6 g)).
Proof. exact contained_glue. Qed.
Print Assumptions containment_glue_at_level.

(* containment with the one remaining premise about names discharged: resolution starts at the
   servers of an ancestor of the query name (searchCache: its last k labels) and every referral step
   passed validReferral - which processDelegation enforces *)
Theorem containment_end_to_end_thm :
  forall k steps q m r ipv6 local,
  let start := firstn k (q_name q) in
  let auth := fst (descent start steps) in
  let level := snd (descent start steps) in
  valid_steps (q_name q) (descent_start start) steps ->
  is_sub auth (rr_owner r) = false ->
  ~ In r (relayed_answer auth q m) /\
  ~ In r (cached_for q (relayed_answer auth q m)) /\
  (forall o g, referral_glue ipv6 local level auth q m = Some (o, g) ->
     ~ In (canon (rr_owner r)) (gr_found4 g ++ gr_found6 g ++ map fst (gr_addrs4 g) ++ map fst (gr_addrs6 g))) /\
  (forall i, dispose auth q m = DReferral i ->
     exists owner, di_owner i = Some owner /\ is_sub auth owner = true /\ name_eqb owner auth = false /\
       is_sub owner (q_name q) = true /\ (In r (u_ns m) -> ~ is_ns r)).
Proof. exact containment_end_to_end. Qed.
Print Assumptions containment_end_to_end_thm.

(* ALIAS CHASE (Cache.additionalAnswer in full, any namespace [o] the sub-queries are answered from,
   chains of any length, loops, NXDOMAIN / empty / failing targets): the chase only appends to the
   answer, and only records a sub-resolution returned *)
Theorem alias_chase_only_adds_resolved_records :
  forall q rcode answer o rc' ans',
  additional_answer q rcode answer o = ChMsg rc' ans' ->
  exists extra, ans' = answer ++ extra /\ incl extra (oracle_records o).
Proof. exact additional_answer_sound. Qed.
Print Assumptions alias_chase_only_adds_resolved_records.

(* the client's reply to a positive final-hop answer: in-zone Answer records of the upstream message,
   then re-resolved records; a record the server sent for a name outside its zone is in the reply
   only if re-resolution - through that name's own delegation path - returned the very same record *)
Theorem client_reply_contained_thm :
  forall auth q m o rc ans r,
  client_reply auth q m o = Some (ChMsg rc ans) ->
  is_sub auth (rr_owner r) = false -> In r ans -> In r (oracle_records o).
Proof. exact client_reply_contained. Qed.
Print Assumptions client_reply_contained_thm.

Theorem client_reply_sources_thm :
  forall auth q m o rc ans,
  client_reply auth q m o = Some (ChMsg rc ans) ->
  forall r, In r ans -> (In r (u_answer m) /\ is_sub auth (rr_owner r) = true) \/ In r (oracle_records o).
Proof. exact client_reply_sources. Qed.
Print Assumptions client_reply_sources_thm.

(* THE NS-ADDRESS CACHE ACROSS HISTORIES.  For every sequence of referrals (any level, question, NS
   host set, additional section, and any outcome of the address lookups for glue-less hosts): each
   entry of the cache is filed under an NS host of one of those referrals, either as glue lying
   inside the zone cut out of the question at that referral's level or from an address lookup for
   that very host; every address on file is usable (not loopback, not a local interface). *)
Theorem glue_cache_history_sound :
  forall local evs k v,
  In (k, v) (glue_history local evs) ->
  Forall (addr_ok local) v /\ exists e, In e evs /\ filed_by e k.
Proof. exact glue_history_sound. Qed.
Print Assumptions glue_cache_history_sound.

Theorem glue_cache_lookup_sound :
  forall local evs host v,
  glue_lookup host (glue_history local evs) = Some v ->
  Forall (addr_ok local) v /\ exists e k, In e evs /\ filed_by e k /\ name_eqb host k = true.
Proof. exact glue_history_lookup. Qed.
Print Assumptions glue_cache_lookup_sound.

(* LOCAL-INTERFACE ADDRESSES.  [local] = the addresses configured on the resolver host's interfaces
   (unmapped).  Whatever spelling a record uses - 4 octets, 16 octets, 4-in-6 - an address that,
   unmapped, is one of them (or loopback) is not usable ... *)
Theorem local_interface_address_unusable :
  forall local ip a0, addr_from_slice ip = Some a0 ->
  mem_ip (unmap a0) local = true \/ is_loopback (unmap a0) = true -> usable_addr local ip = None.
Proof. exact local_or_loopback_unusable. Qed.
Print Assumptions local_interface_address_unusable.

(* ... so nothing an accepted referral lists as a server of the delegation (the addresses that will be
   dialled) or files in the NS-address caches is a local-interface or loopback address *)
Theorem referral_never_yields_local_server :
  forall ipv6 local level auth q m o g,
  referral_glue ipv6 local level auth q m = Some (o, g) ->
  (forall a, In a (gr_servers g) -> is_loopback a = false /\ mem_ip a local = false) /\
  (forall n l a, In (n, l) (gr_addrs4 g ++ gr_addrs6 g) -> In a l -> is_loopback a = false /\ mem_ip a local = false).
Proof. exact referral_glue_addrs_ok. Qed.
Print Assumptions referral_never_yields_local_server.

(* TRANSLATOR TIE, byte level.  [go_equalFold] is srcgen's translation of internal/dnsname.equalFold (the
   label comparison under dnsname.CompareSuffix / Sub, hence under the glue bailiwick test, the referral
   progress test and the zone filter of the answer); given fuel for its loop it computes the model's
   [label_eqb] - the comparison [compare_suffix], [is_sub] and [name_eqb] are made of. *)
Theorem label_comparison_is_dnsname_equalFold :
  forall fuel a b, (length a < fuel)%nat -> go_equalFold fuel a b = Some (label_eqb a b).
Proof. exact gen_equalFold. Qed.
Print Assumptions label_comparison_is_dnsname_equalFold.

(* TRANSLATOR TIE, the zone filter of Resolver.answer.  [go_NameInZone] is srcgen's translation of
   internal/dnsutil.NameInZone (presentation-format octet strings): it accepts a name only when the zone is
   the root (or empty), the name is the zone itself, or the name ends in "." followed by the zone. *)
Theorem zone_filter_accepts_only_dot_suffixes :
  forall fuel nm zone, go_NameInZone fuel nm zone = Some true ->
  zone = [46] \/ zone = [] \/ nm = zone \/ exists pre, nm = pre ++ [46] ++ zone.
Proof. exact NameInZone_true_shape. Qed.
Print Assumptions zone_filter_accepts_only_dot_suffixes.

(* ... and on canonical names with plain labels (no dot, no backslash inside a label; [pres] = labels leaf
   first, a dot after each, "." for the root) it IS the model's zone test: the Answer-section filter of the
   code and [is_sub] of [relayed_answer] / [containment] are the same function there. *)
Theorem zone_filter_is_model_is_sub :
  forall fuel z n, (0 < fuel)%nat -> plain (canon z) -> plain (canon n) ->
  go_NameInZone fuel (pres (canon n)) (pres (canon z)) = Some (is_sub z n).
Proof. exact NameInZone_is_sub. Qed.
Print Assumptions zone_filter_is_model_is_sub.

(* TRANSLATOR TIES on presentation strings.  [pres n] is the presentation string of the root-first label list
   [n] (leaf label first, a dot after every label, "." for the root); [plain n]: every label is non-empty and
   holds neither '.' nor '\' (no escapes needed), any letter case.  The universal statements about the
   generated CompareSuffix / Sub are C02's (C02/Proofs_Gen.v gen_compare_suffix, gen_sub), carried over to
   C07's name representation in Proofs_sub.v. *)

(* dnsname.CompareSuffix (with miekg's CountLabel / NextLabel) computes the model's compare_suffix ... *)
Theorem dnsname_CompareSuffix_is_model :
  forall fuel a b, plain a -> plain b -> (length (pres a) + length (pres b) < fuel)%nat ->
  go_CompareSuffix fuel (pres a) (pres b) = Some (Z.of_nat (compare_suffix a b)).
Proof. exact gen_compare_suffix. Qed.
Print Assumptions dnsname_CompareSuffix_is_model.

(* ... and dnsname.Sub the model's is_sub (the test under checkGlueRR's bailiwick rule and progressingReferral) *)
Theorem dnsname_Sub_is_model_is_sub :
  forall fuel z n, plain z -> plain n -> (length (pres z) + length (pres n) < fuel)%nat ->
  go_Sub fuel (pres z) (pres n) = Some (is_sub z n).
Proof. exact gen_sub. Qed.
Print Assumptions dnsname_Sub_is_model_is_sub.

(* dnsclient.QuestionMatches (dns.CanonicalName as its ASCII model: exact for octets < 128) is the model's
   question guard *)
Theorem QuestionMatches_is_model :
  forall req resp, plain (q_name req) -> Forall (fun r => plain (q_name r)) resp ->
  go_QuestionMatches (t_question req) (map t_question resp) = question_matches req resp.
Proof. exact gen_QuestionMatches. Qed.
Print Assumptions QuestionMatches_is_model.

(* resolver.progressingReferral is the model's progress rule *)
Theorem progressingReferral_is_model :
  forall fuel referral auth qname, plain referral -> plain auth -> plain qname ->
  (length (pres referral) + length (pres auth) + length (pres qname) < fuel)%nat ->
  go_progressingReferral fuel (pres referral) (pres auth) (pres qname) = Some (progressing_referral referral auth qname).
Proof. exact gen_progressingReferral. Qed.
Print Assumptions progressingReferral_is_model.

(* resolver.validReferral, for a referral that has an NS record (info.nsRecord != nil; without one both the
   code and the model say false), is the model's validity rule *)
Theorem validReferral_is_model :
  forall fuel i owner auth q, di_owner i = Some owner -> plain owner -> plain auth -> plain (q_name q) ->
  (length (pres owner) + length (pres auth) + length (pres (q_name q)) < fuel)%nat ->
  go_validReferral fuel (t_info owner i) (pres auth) (t_question q) = Some (valid_referral i auth q).
Proof. exact gen_validReferral. Qed.
Print Assumptions validReferral_is_model.

(* checkGlueRR's NAME TEST.  [go_glue_name_skipped] (Proofs_gluename.v) is the composition of the three inline
   statements - strings.ToLower(owner), dns.PrevLabel(qname, level), dnsname.CompareSuffix(name, qname[i:]) < level -
   over the GENERATED go_PrevLabel and go_CompareSuffix (ToLower: ASCII model); their shape is pinned by
   src_check_glue.  On presentation strings of escape-free names, for every level (0 included), it computes the
   model's glue_in_level: a record is skipped exactly when its owner is outside the last [level] labels of qname. *)
Theorem glue_name_test_is_model :
  forall fuel owner qname level, plain owner -> plain qname ->
  (length (pres owner) + length (pres qname) < fuel)%nat ->
  go_glue_name_skipped fuel (pres owner) (pres qname) (Z.of_nat level) = Some (negb (glue_in_level level qname owner)).
Proof. exact glue_name_test. Qed.
Print Assumptions glue_name_test_is_model.

(* TWO SITES COMPOSED (transport guard x glue origin).  checkGlueRR takes the origin of its bailiwick test from the
   question section of the message Conn.Exchange accepted.  Whatever replies arrive (any IDs, rcodes, question
   sections, referrals, glue): if one is accepted and its glue processed, the result is the one computed with the
   question that was ASKED as origin - so every name glue is taken for is an NS host of that reply inside the zone
   cut out of the asked name at the level, with usable addresses. *)
Theorem glue_origin_is_the_asked_question :
  forall stream id q replies ipv6 local level i og,
  exchange_then_glue stream id q replies ipv6 local level = Some (i, og) ->
  exists f,
    nth_error replies i = Some f /\ w_id (f_wire f) = id /\
    let hosts := di_hosts (extract_info (u_ns (f_body f))) in
    let g := check_glue ipv6 local level (q_name q) hosts (u_extra (f_body f)) in
    og = Some g /\
    Forall (addr_ok local) (gr_servers g) /\
    Forall (name_ok level (q_name q) hosts) (gr_found4 g) /\ Forall (name_ok level (q_name q) hosts) (gr_found6 g) /\
    Forall (entry_ok local level (q_name q) hosts) (gr_addrs4 g) /\ Forall (entry_ok local level (q_name q) hosts) (gr_addrs6 g).
Proof. exact exchange_then_glue_origin. Qed.
Print Assumptions glue_origin_is_the_asked_question.

(* THE DELEGATION CACHE ACROSS ANY HISTORY (processAuthoritySection -> processDelegation -> checkGlueRR -> lookupV4Nss).
   A history is any sequence of replies to the client's question (DelegMsg) and replies to qname-minimised questions
   (DelegMin, session 5: the minimized = true routes of resolve / processAuthoritySection / processDelegation).
   Whatever the servers of whatever zones send - any response code (resolve() hands over every reply with an empty
   Answer and a non-empty Authority; the model never looks at u_rcode), any NS sets, glue and address-lookup results -
   every entry on file afterwards, and every provisional entry published while NS-host addresses were being looked
   up, (1) carries as its zone label - the name every bailiwick test for replies of its servers is made against - the
   very name it is filed under; (2) that name owns ONE coherent NS set, in the question's class, of a message sent by
   the servers of a zone strictly above it, and lies on the path to the name being resolved; (3) its hosts are targets
   of that set; (4) its server addresses are neither loopback nor local. *)
Theorem delegation_cache_history_sound :
  forall local evs st results,
  deleg_history local ([], []) evs = (st, results) ->
  (forall k d, In (k, d) (snd st) -> deleg_entry_ok local evs k d) /\
  (forall r b d, In r results -> In (b, d) (dr_snaps r) -> deleg_entry_ok local evs (de_zone d) d).
Proof. exact deleg_history_sound. Qed.
Print Assumptions delegation_cache_history_sound.

(* "No record owned outside the zone whose servers sent it is cached under its own name", for NS sets: a name is in
   the delegation cache only if the servers of a zone strictly above it sent its NS set for a name below it *)
Theorem delegation_cached_only_below_sender :
  forall local evs st results k d,
  deleg_history local ([], []) evs = (st, results) -> In (k, d) (snd st) ->
  exists e auth level q m, In e evs /\ ev_parts e = (auth, level, q, m) /\
    is_sub auth k = true /\ (length auth < length k)%nat /\ is_sub k (q_name q) = true.
Proof. exact deleg_only_below_sender. Qed.
Print Assumptions delegation_cached_only_below_sender.

(* the referral rule at the cache boundary does not depend on the response code *)
Theorem delegation_rule_ignores_rcode :
  forall local st auth level q rc rc' a n x order answers,
  deleg_apply local st (DelegMsg auth level q (mk_umsg rc a n x) order answers) =
  deleg_apply local st (DelegMsg auth level q (mk_umsg rc' a n x) order answers).
Proof. exact deleg_apply_rcode_blind. Qed.
Print Assumptions delegation_rule_ignores_rcode.

(* WHERE A RESOLUTION STARTS (Resolver.searchCache on a cache filled by any such history).  The server set a later
   resolution of [qname] starts with - the deepest entry on file for qname or one of its ancestors; for a DS question
   the walk starts one label up - carries a zone label that encloses qname (strictly, for DS), is filed under that very
   name, and the level seeded for the glue test is that zone's depth.  With asked_zone_encloses_qname (referral
   chains) this is "a zone's servers are asked only names inside the zone they are labelled with". *)
Theorem resolution_starts_inside_labelled_zone :
  forall local evs st results ds qname z e lv,
  deleg_history local ([], []) evs = (st, results) ->
  search_cache (snd st) ds qname = (Some (z, e), lv) ->
  name_eqb (de_zone e) z = true /\ is_sub (de_zone e) qname = true /\ lv = length (de_zone e) /\
  (ds = true -> (length (de_zone e) < length qname)%nat) /\
  exists k, In (k, e) (snd st) /\ deleg_entry_ok local evs k e.
Proof. exact search_cache_sound. Qed.
Print Assumptions resolution_starts_inside_labelled_zone.

(* QNAME-MINIMISED HOPS (session 5).  With minimisation on - the default - a zone's servers are first asked ancestors of
   the client's name, so what a hostile server sends reaches the resolver on this route first.

   What is asked instead of the question: same type and class, the last level+1 labels of the name - a proper ancestor
   of it - and only while minimisation is on, not abandoned, and the level is below qnameMinLevel. *)
Theorem minimised_question_is_an_ancestor_of_the_question :
  forall qml nomin level q mq,
  minimize qml nomin level q = Some mq ->
  q_type mq = q_type q /\ q_class mq = q_class q /\
  q_name mq = firstn (S level) (q_name q) /\ length (q_name mq) = S level /\
  (S level < length (q_name q))%nat /\ is_sub (q_name mq) (q_name q) = true /\
  nomin = false /\ (level < qml)%nat.
Proof. exact minimize_sound. Qed.
Print Assumptions minimised_question_is_an_ancestor_of_the_question.

(* Resolver.lookup tests a referral against the question it sent (the minimised one), processDelegation against the
   client's: whatever the first lets through, the second accepts - the cache boundary is never the stricter of the two,
   so a referral that wins the lookup is not lost there, and one refused there was off the client's path *)
Theorem referral_valid_for_minimised_question_is_valid_for_the_question :
  forall qml nomin level q mq i auth,
  minimize qml nomin level q = Some mq -> valid_referral i auth mq = true -> valid_referral i auth q = true.
Proof. exact valid_for_minimised_is_valid_for_full. Qed.
Print Assumptions referral_valid_for_minimised_question_is_valid_for_the_question.

(* the glue bailiwick zone of a minimised hop (checkGlueRR reads its origin from the accepted message's question, here
   the minimised name) is the zone it would cut out of the client's name: glue_in_bailiwick / glue_in_delegating_zone
   apply unchanged *)
Theorem minimised_hop_glue_zone_is_the_questions :
  forall ipv6 local level qn hosts extra,
  check_glue ipv6 local level (firstn (S level) qn) hosts extra = check_glue ipv6 local level qn hosts extra.
Proof. exact check_glue_minimised. Qed.
Print Assumptions minimised_hop_glue_zone_is_the_questions.

(* "used to answer a different question": a reply to a minimised question that carries ANY Answer section - records
   for the minimised name, aliases, forged records for other zones - is dropped whole: caches unchanged, nothing
   published, the same servers are asked the next name *)
Theorem answer_to_a_minimised_question_is_dropped :
  forall local st auth level q m order answers,
  u_answer m <> [] -> deleg_apply local st (DelegMin auth level q m order answers) = (st, mk_dr DoRetry [] None).
Proof. exact min_hop_answer_dropped. Qed.
Print Assumptions answer_to_a_minimised_question_is_dropped.

(* for ALL replies to a minimised question: the hop changes nothing (retry with the next name / the message handed
   back as a negative answer), or its Answer section is empty and it has exactly the effect - caches, provisional
   publications, stored entry - the same message has as the reply to the client's own question, except that
   "no reachable server" lets a minimised hop go on with the next name *)
Theorem minimised_hop_does_nothing_or_what_the_full_hop_does :
  forall local st auth level q m order answers,
  (deleg_apply local st (DelegMin auth level q m order answers) = (st, mk_dr DoRetry [] None) \/
   deleg_apply local st (DelegMin auth level q m order answers) = (st, mk_dr DoAuthority [] None)) \/
  (u_answer m = [] /\
   same_effect (deleg_apply local st (DelegMin auth level q m order answers)) (deleg_apply local st (DelegMsg auth level q m order answers))).
Proof. exact min_hop_refines_full. Qed.
Print Assumptions minimised_hop_does_nothing_or_what_the_full_hop_does.

(* Resolver.minimize's name computation IS the model's: its five statements composed over the machine-translated
   dns.PrevLabel (go_minimize_name, Proofs_minname.v) give, on the presentation string of every escape-free name and
   for every qnameMinLevel / level / nomin, exactly Model.minimize (Some None = the request is sent as it is) *)
Theorem minimize_name_computation_is_model :
  forall fuel qml nomin level qname t c,
  plain qname -> (length (pres qname) < fuel)%nat ->
  go_minimize_name fuel (Z.of_nat qml) nomin (Z.of_nat level) (pres qname) =
    Some (option_map (fun mq => pres (q_name mq)) (minimize qml nomin level (mk_q qname t c))).
Proof. exact minimize_name_is_model. Qed.
Print Assumptions minimize_name_computation_is_model.

(* THE ANSWER-SECTION BAILIWICK FILTER IS THE MODEL'S (session 5).  dnsutil.FilterRRsToZone - the first statement of
   Resolver.answer since fix 767eb6f - is machine-translated as a whole (dns.RR as a sum type, the loop as a generated
   Fixpoint, NameInZone as its callee).  For every list of records with escape-free owner names (any letter case, any
   record type) and every escape-free zone name it keeps exactly the records owned inside the zone - Model.in_zone_answer's
   test is_sub - and of those it also drops an NSEC record whose next-domain name lies outside the zone. *)
Theorem FilterRRsToZone_is_model :
  forall fuel zone (l : list (I_RR * (name * option name))),
  (0 < fuel)%nat -> plain zone -> Forall view_ok l ->
  go_FilterRRsToZone fuel (map fst l) (pres zone) = Some (map fst (filter (keep_in_zone zone) l)).
Proof. exact gen_FilterRRsToZone. Qed.
Print Assumptions FilterRRsToZone_is_model.

Theorem FilterRRsToZone_is_in_zone_answer_on_owners :
  forall fuel zone (l : list (N * T_RR_Header * name)),
  (0 < fuel)%nat -> plain zone ->
  Forall (fun p => T_RR_Header_Name (snd (fst p)) = pres (snd p) /\ plain (snd p)) l ->
  go_FilterRRsToZone fuel (map (fun p => I_RR_other (fst (fst p)) (snd (fst p))) l) (pres zone) =
    Some (map (fun p => I_RR_other (fst (fst p)) (snd (fst p))) (filter (fun p => is_sub zone (snd p)) l)).
Proof. exact gen_FilterRRsToZone_owners. Qed.
Print Assumptions FilterRRsToZone_is_in_zone_answer_on_owners.

(* "A REFERRAL MUST BE ONE COHERENT NS SET, SAME CLASS" - THE LOOP THAT DECIDES IT IS THE MODEL'S (wave 9).  The loop of
   Resolver.extractDelegationInfo is machine-translated (dns.RR as a sum type, the hostSet map as an association list,
   strings.EqualFold / ToLower as ASCII models; `info.nsRecord == nil` reads as false, so the generated code is the loop
   on a state that has its anchor, or on records that are not NS records).  For every run of Authority records - NS
   records with escape-free owner and target names in any letter case, SOA records, anything else - and every state the
   model's [dinfo] describes (host set = the model's lower-cased, duplicate-free list; no NS record in the run while no
   anchor exists) the generated loop ends normally in a state described by [fold_left info_step]: the SOA flag, the
   coherence verdict (owner equal up to ASCII case AND class equal, else incoherent and the record contributes nothing),
   the minimum TTL and the host set are the model's.  With validReferral_is_model this closes the referral rule from the
   Authority section to the verdict, except for the three anchoring statements (text pin gen_extract_anchor_shape). *)
Theorem extractDelegationInfo_loop_is_model :
  forall (l : list (I_RR * rr)) hdr cmp qs an ex g i,
  Forall (fun p => rec_rel (fst p) (snd p)) l -> st_rel g i -> (di_owner i = None -> no_ns l) ->
  exists g', snd (snd (go_Resolver_extractDelegationInfo_loop1_run (mk_T_Msg hdr cmp qs an (map fst l) ex) g)) = g' /\
             fst (go_Resolver_extractDelegationInfo_loop1_run (mk_T_Msg hdr cmp qs an (map fst l) ex) g) = GoNext /\
             st_rel g' (fold_left info_step (map snd l) i).
Proof. exact gen_extractDelegationInfo_loop. Qed.
Print Assumptions extractDelegationInfo_loop_is_model.

(* the host-set statement of that loop on its own: info.hosts[strings.ToLower(v.Ns)] = struct{}{} on the association
   list is the model's add_name (lower-cased, no duplicates, insertion order) *)
Theorem hostSet_insert_is_add_name :
  forall hs t, hosts_ok hs -> plain t ->
  go_map_set (go_list_eqb N.eqb) (host_map hs) (go_ascii_lower (pres t)) true = host_map (add_name t hs) /\ hosts_ok (add_name t hs).
Proof. exact map_set_add. Qed.
Print Assumptions hostSet_insert_is_add_name.
