(* C07 — referrals: what validReferral guarantees about an Authority section,
   why following valid referrals terminates, and how the level used by the
   glue test follows the descent. *)
From Coq Require Import Wellfounded.Inverse_Image Arith.Wf_nat.
From Sdns Require Import Common.Base Gen.C07 C07.Model C07.Proofs_names.
Open Scope N_scope.

(* ------------------------------------------------ progressingReferral *)
Lemma progressing_spec referral auth qname :
  progressing_referral referral auth qname = true <->
  is_sub auth referral = true /\ name_eqb referral auth = false /\ is_sub referral qname = true.
Proof.
  unfold progressing_referral.
  destruct (is_sub auth referral); cbn; [|intuition discriminate].
  destruct (name_eqb referral auth); cbn; [intuition discriminate|]. intuition.
Qed.

Lemma progressing_depth referral auth qname :
  progressing_referral referral auth qname = true ->
  (length auth < length referral <= length qname)%nat.
Proof.
  intros H. apply progressing_spec in H. destruct H as [H1 [H2 H3]].
  split; [apply strict_sub_length; assumption | apply is_sub_length; assumption].
Qed.

(* the asked zone keeps enclosing the name being resolved *)
Lemma progressing_keeps_enclosing referral auth qname :
  progressing_referral referral auth qname = true -> is_sub referral qname = true.
Proof. intros H. apply progressing_spec in H. tauto. Qed.

(* ------------------------------------------------ extractDelegationInfo *)
(* an NS record as the code sees one *)
Definition is_ns (r : rr) : Prop := rr_type r = T_NS /\ exists t, rr_data r = RdName t.

Definition coherent_with (o : name) (c : N) (r : rr) : Prop :=
  is_ns r -> name_eqb (rr_owner r) o = true /\ rr_class r = c.

Definition info_inv (i : dinfo) (seen : list rr) : Prop :=
  (di_owner i = None -> forall r, In r seen -> ~ is_ns r) /\
  (forall o, di_owner i = Some o -> di_incoherent i = false -> Forall (coherent_with o (di_class i)) seen) /\
  (forall h, In h (di_hosts i) -> exists r t, In r seen /\ rr_type r = T_NS /\ rr_data r = RdName t /\ h = canon t).

Lemma add_name_in x l h : In h (add_name x l) -> In h l \/ h = canon x.
Proof.
  unfold add_name. destruct (mem_name x l); [auto|]. intros H. apply in_app_or in H.
  destruct H as [H|[H|[]]]; auto.
Qed.

Lemma info_step_inv i seen r : info_inv i seen -> info_inv (info_step i r) (seen ++ [r]).
Proof.
  intros [H1 [H2 H3]]. unfold info_step.
  assert (Hhosts_keep : forall h, In h (di_hosts i) -> exists r0 t, In r0 (seen ++ [r]) /\ rr_type r0 = T_NS /\ rr_data r0 = RdName t /\ h = canon t).
  { intros h Hh. destruct (H3 h Hh) as [r0 [t [Hin Hr]]]. exists r0, t. split; [apply in_or_app; auto | exact Hr]. }
  destruct (rr_type r =? T_SOA) eqn:Esoa.
  { (* SOA: only the flag changes *)
    apply N.eqb_eq in Esoa. repeat split; cbn.
    - intros Hn r0 Hin. apply in_app_or in Hin. destruct Hin as [Hin|[<-|[]]]; [apply H1; auto|].
      intros [Ht _]. rewrite Esoa in Ht. discriminate.
    - intros o Ho Hinc. apply Forall_app. split; [apply H2; auto|]. constructor; [|constructor].
      intros [Ht _]. rewrite Esoa in Ht. discriminate.
    - exact Hhosts_keep. }
  destruct (rr_type r =? T_NS) eqn:Ens.
  2:{ (* other types are ignored *)
    repeat split.
    - intros Hn r0 Hin. apply in_app_or in Hin. destruct Hin as [Hin|[<-|[]]]; [apply H1; auto|].
      intros [Ht _]. rewrite Ht in Ens. discriminate.
    - intros o Ho Hinc. apply Forall_app. split; [apply H2; auto|]. constructor; [|constructor].
      intros [Ht _]. rewrite Ht in Ens. discriminate.
    - exact Hhosts_keep. }
  apply N.eqb_eq in Ens.
  destruct (rr_data r) as [ip|target|c|] eqn:Erd.
  1,3,4: repeat split;
    [ intros Hn r0 Hin; apply in_app_or in Hin; destruct Hin as [Hin|[<-|[]]]; [apply H1; auto|];
      intros [_ [t Ht]]; rewrite Erd in Ht; discriminate
    | intros o Ho Hinc; apply Forall_app; split; [apply H2; auto|]; constructor; [|constructor];
      intros [_ [t Ht]]; rewrite Erd in Ht; discriminate
    | exact Hhosts_keep ].
  assert (Hnew : forall h, In h (add_name target (di_hosts i)) ->
            exists r0 t, In r0 (seen ++ [r]) /\ rr_type r0 = T_NS /\ rr_data r0 = RdName t /\ h = canon t).
  { intros h Hh. apply add_name_in in Hh. destruct Hh as [Hh| ->]; [apply Hhosts_keep; exact Hh|].
    exists r, target. split; [apply in_or_app; right; left; reflexivity | auto]. }
  destruct (di_owner i) as [o|] eqn:Eo.
  - destruct (negb (name_eqb (rr_owner r) o) || negb (rr_class r =? di_class i)) eqn:Emix.
    + (* a record of another owner or class: flagged, not merged *)
      repeat split; cbn.
      * intros Hn. try rewrite Eo in Hn. discriminate.
      * intros o' _ Hinc. discriminate.
      * exact Hhosts_keep.
    + apply orb_false_iff in Emix. destruct Emix as [E1 E2].
      apply negb_false_iff in E1, E2. apply N.eqb_eq in E2.
      repeat split; cbn.
      * intros Hn. try rewrite Eo in Hn. discriminate.
      * intros o' Ho' Hinc. try rewrite Eo in Ho'. injection Ho' as <-.
        apply Forall_app. split; [apply H2; auto|]. constructor; [|constructor]. intros _. auto.
      * exact Hnew.
  - (* the first NS anchors owner and class *)
    repeat split; cbn.
    + discriminate.
    + intros o' Ho' Hinc. injection Ho' as <-. apply Forall_app. split.
      * apply Forall_forall. intros r0 Hin Hns. exfalso. exact (H1 eq_refl r0 Hin Hns).
      * constructor; [|constructor]. intros _. split; [apply name_eqb_refl | reflexivity].
    + exact Hnew.
Qed.

Lemma extract_info_inv_gen ns : forall i seen, info_inv i seen -> info_inv (fold_left info_step ns i) (seen ++ ns).
Proof.
  induction ns as [|r rest IH]; intros i seen H; cbn.
  - rewrite app_nil_r. exact H.
  - replace (seen ++ r :: rest) with ((seen ++ [r]) ++ rest) by (rewrite <- app_assoc; reflexivity).
    apply IH, info_step_inv, H.
Qed.

Lemma extract_info_inv ns : info_inv (extract_info ns) ns.
Proof.
  unfold extract_info. apply (extract_info_inv_gen ns dinfo0 []).
  repeat split; cbn; [intros _ r [] | discriminate | intros h []].
Qed.

(* validReferral: one coherent NS set, the question's class, strictly below the asked zone, on the path *)
Lemma valid_referral_sound ns auth q :
  valid_referral (extract_info ns) auth q = true ->
  exists owner,
    di_owner (extract_info ns) = Some owner /\
    (forall r, In r ns -> is_ns r -> name_eqb (rr_owner r) owner = true /\ rr_class r = q_class q) /\
    (forall h, In h (di_hosts (extract_info ns)) ->
       exists r t, In r ns /\ is_ns r /\ rr_data r = RdName t /\ h = canon t /\ name_eqb (rr_owner r) owner = true) /\
    is_sub auth owner = true /\ name_eqb owner auth = false /\ (length auth < length owner)%nat /\
    is_sub owner (q_name q) = true /\ (length owner <= length (q_name q))%nat.
Proof.
  unfold valid_referral. pose proof (extract_info_inv ns) as [H1 [H2 H3]].
  destruct (di_owner (extract_info ns)) as [o|] eqn:Eo; [|discriminate].
  intros H. apply andb_true_iff in H. destruct H as [H Hp]. apply andb_true_iff in H. destruct H as [Hinc Hcl].
  apply negb_true_iff in Hinc. apply N.eqb_eq in Hcl.
  pose proof (H2 o eq_refl Hinc) as Hall. rewrite Forall_forall in Hall.
  pose proof (progressing_depth _ _ _ Hp) as Hd. apply progressing_spec in Hp. destruct Hp as [P1 [P2 P3]].
  exists o. repeat split; auto; try lia.
  - apply (Hall r H H0).
  - rewrite <- Hcl. apply (Hall r H H0).
  - intros h Hh. destruct (H3 h Hh) as [r [t [Hin [Ht [Hd' ->]]]]].
    exists r, t. assert (Hns : is_ns r) by (split; eauto). repeat split; eauto. apply (Hall r Hin Hns).
Qed.

(* ------------------------------------------------ termination of the descent *)
Definition descends (q : name) (child zone : name) : Prop := progressing_referral child zone q = true.

Lemma descends_wf q : well_founded (descends q).
Proof.
  apply (well_founded_lt_compat _ (fun z => (length q - length z)%nat)).
  intros a b H. apply progressing_depth in H. lia.
Qed.

(* a chain of zones each reached from the previous one by a valid referral for q *)
Fixpoint referral_chain (q : name) (z : name) (zs : list name) : Prop :=
  match zs with
  | [] => True
  | z' :: rest => progressing_referral z' z q = true /\ referral_chain q z' rest
  end.

Lemma referral_chain_bound q z zs : referral_chain q z zs -> (length z + length zs <= length q \/ zs = [])%nat.
Proof.
  revert z. induction zs as [|z' rest IH]; intros z H; [right; reflexivity|].
  left. destruct H as [Hp Hr]. pose proof (progressing_depth _ _ _ Hp) as Hd.
  destruct (IH z' Hr) as [Hb| ->]; cbn; lia.
Qed.

Lemma last_nonempty_indep {A} (l : list A) x d d' : last (x :: l) d = last (x :: l) d'.
Proof. revert x. induction l as [|y r IH]; intros x; [reflexivity|]. cbn in *. apply IH. Qed.

Lemma referral_chain_encloses q z zs : is_sub z q = true -> referral_chain q z zs -> is_sub (last zs z) q = true.
Proof.
  revert z. induction zs as [|z' rest IH]; intros z Hz H; [exact Hz|].
  destruct H as [Hp Hr]. specialize (IH z' (progressing_keeps_enclosing _ _ _ Hp) Hr).
  destruct rest as [|n rest]; [exact (progressing_keeps_enclosing _ _ _ Hp)|].
  change (last (z' :: n :: rest) z) with (last (n :: rest) z). rewrite (last_nonempty_indep rest n z z'). exact IH.
Qed.

(* ------------------------------------------------ the level the glue test uses *)
Definition level_ok (st : name * nat) : Prop := (length (fst st) <= snd st)%nat.

(* every step keeps rs.level >= CountLabel(zone asked): the uncached descent sets it to the child's
   depth, the cached descent takes the deeper of level+1 and the child's depth, a minimisation
   step only increments it *)
Lemma descent_step_level st s : level_ok st -> level_ok (descent_step st s).
Proof. destruct st as [z lv], s as [c|c|]; unfold level_ok, descent_step; cbn [fst snd]; lia. Qed.

Lemma descent_level_ok zone steps : level_ok (descent zone steps).
Proof.
  unfold descent. assert (H0 : level_ok (descent_start zone)) by (unfold level_ok, descent_start; cbn; lia).
  revert H0. generalize (descent_start zone). induction steps as [|s rest IH]; intros st H0; cbn; [exact H0|].
  apply IH, descent_step_level, H0.
Qed.

(* the zone a descent arrives at encloses the name being resolved, when every referral step in it
   passed validReferral (processDelegation rejects the others) and it started from an ancestor *)
Fixpoint valid_steps (q : name) (st : name * nat) (steps : list dstep) : Prop :=
  match steps with
  | [] => True
  | s :: rest =>
      match s with
      | StepUncached c | StepCached c => progressing_referral c (fst st) q = true
      | StepMinimize => True
      end /\ valid_steps q (descent_step st s) rest
  end.

Lemma descent_encloses_gen q steps : forall st,
  is_sub (fst st) q = true -> valid_steps q st steps -> is_sub (fst (fold_left descent_step steps st)) q = true.
Proof.
  induction steps as [|s rest IH]; intros st H0 Hv; cbn [fold_left]; [exact H0|].
  destruct Hv as [Hs Hr]. apply IH; [|exact Hr].
  destruct st as [z lv], s as [c|c|]; cbn in *; try exact H0; exact (progressing_keeps_enclosing _ _ _ Hs).
Qed.

Lemma descent_encloses q k steps :
  valid_steps q (descent_start (firstn k q)) steps -> is_sub (fst (descent (firstn k q) steps)) q = true.
Proof. intros Hv. apply descent_encloses_gen; [apply firstn_is_sub | exact Hv]. Qed.

(* before commit 767eb6f the cached step only incremented: the root's servers, a referral two
   labels down, delegation already cached, left level 1 for a two-label zone *)
Definition l3 : name := [[108; 51]].
Definition evil_l3 : name := [[108; 51]; [101; 118; 105; 108]].
Lemma old_descent_level_counterexample :
  progressing_referral evil_l3 [] (evil_l3 ++ [[120]]) = true /\
  fold_left descent_step_old [StepCached evil_l3] (descent_start []) = (evil_l3, 1%nat) /\
  ~ level_ok (fold_left descent_step_old [StepCached evil_l3] (descent_start [])) /\
  descent [] [StepCached evil_l3] = (evil_l3, 2%nat).
Proof. repeat split. unfold level_ok. cbn. lia. Qed.
