(* C07 — translator tie for the byte-level label comparison.  Gen/C07.v holds [go_equalFold], translated
   by srcgen (stage 3: strings as octet lists, the downward index loop as a fuelled Fixpoint) from
   internal/dnsname.equalFold - the function dnsname.CompareSuffix / dnsname.Sub (and through them
   checkGlueRR's bailiwick test, progressingReferral, FilterRRsToZone) compare labels with.  The model's
   [label_eqb] (what [compare_suffix], [is_sub], [name_eqb] are built from) is that function:
   a behaviour-preserving rewrite of equalFold keeps the tie, a behaviour-changing one breaks this proof. *)
From Sdns Require Import Common.Base Common.GoList Gen.C07 C07.Model.
Open Scope N_scope.
Lemma lor32_fold b : (65 <=? b) && (b <=? 90) = true -> N.lor b 32 = b + 32.
Proof.
  intros H. apply andb_true_iff in H as [H1 H2]. apply N.leb_le in H1, H2.
  assert (E : exists k, (k < 26)%nat /\ b = 65 + N.of_nat k) by (exists (N.to_nat (b - 65)); lia).
  destruct E as [k [Hk ->]]. do 26 (destruct k as [|k]; [reflexivity|]). lia.
Qed.

Lemma bytes_eqb_length x y : bytes_eqb x y = true -> length x = length y.
Proof.
  revert y; induction x as [|p x IH]; intros [|q y] H; cbn in *; try discriminate; auto.
  apply andb_true_iff in H as [_ H]. f_equal; auto.
Qed.

Lemma bytes_eqb_snoc x y p q : length x = length y -> bytes_eqb (x ++ [p]) (y ++ [q]) = bytes_eqb x y && (p =? q).
Proof.
  revert y; induction x as [|a x IH]; intros [|b y] H; cbn in *; try discriminate.
  - now rewrite andb_true_r.
  - injection H as H. rewrite (IH y H). now rewrite andb_assoc.
Qed.

Lemma firstn_snoc {A} (d : A) k l : (k < length l)%nat -> firstn (S k) l = firstn k l ++ [nth k l d].
Proof.
  revert k; induction l as [|x l IH]; intros k H; cbn in H; [lia|].
  destruct k as [|k]; [reflexivity|]. change (firstn (S (S k)) (x :: l)) with (x :: firstn (S k) l). rewrite (IH k) by lia. reflexivity.
Qed.

Lemma loop_step fuel lf a b i : (0 <= i)%Z ->
  go_equalFold_loop1 fuel (S lf) a b i =
  if fold_byte (go_idx 0 a i) =? fold_byte (go_idx 0 b i) then go_equalFold_loop1 fuel lf a b (i - 1)%Z
  else (GoRet false, (a, b, i)).
Proof.
  intros Hi. cbn [go_equalFold_loop1].
  replace (Z.leb 0 i) with true by (symmetry; apply Z.leb_le; exact Hi).
  unfold fold_byte.
  destruct ((65 <=? go_idx 0 a i) && (go_idx 0 a i <=? 90)) eqn:Ea;
  destruct ((65 <=? go_idx 0 b i) && (go_idx 0 b i <=? 90)) eqn:Eb;
  rewrite ?(lor32_fold _ Ea), ?(lor32_fold _ Eb);
  match goal with |- context [negb (?x =? ?y)] => destruct (x =? y) end; reflexivity.
Qed.

Lemma loop_spec fuel a b : forall k lf, (k < lf)%nat -> (k <= length a)%nat -> (k <= length b)%nat ->
  fst (go_equalFold_loop1 fuel lf a b (Z.of_nat k - 1)%Z) =
  if bytes_eqb (canon_label (firstn k a)) (canon_label (firstn k b)) then GoNext else GoRet false.
Proof.
  induction k as [|k IH]; intros lf Hlf Ha Hb; destruct lf as [|lf]; try lia.
  - reflexivity.
  - rewrite loop_step by lia.
    rewrite (firstn_snoc 0 k a), (firstn_snoc 0 k b) by lia.
    unfold canon_label in *. rewrite !map_app. cbn [map].
    rewrite bytes_eqb_snoc by (rewrite !map_length, !firstn_length; lia).
    rewrite !go_idx_nth by lia. replace (Z.to_nat (Z.of_nat (S k) - 1)) with k by lia.
    destruct (fold_byte (nth k a 0) =? fold_byte (nth k b 0)).
    + rewrite andb_true_r. replace (Z.of_nat (S k) - 1 - 1)%Z with (Z.of_nat k - 1)%Z by lia.
      apply IH; lia.
    + rewrite andb_false_r. reflexivity.
Qed.

Lemma gen_equalFold fuel a b : (length a < fuel)%nat -> go_equalFold fuel a b = Some (label_eqb a b).
Proof.
  intros Hf. unfold go_equalFold, label_eqb, go_len.
  destruct (Z.eqb (Z.of_nat (length a)) (Z.of_nat (length b))) eqn:E; cbn [negb].
  - apply Z.eqb_eq in E. assert (El : length a = length b) by lia.
    pose proof (loop_spec fuel a b (length a) fuel Hf (le_n _) ltac:(lia)) as H.
    rewrite firstn_all in H. rewrite El, firstn_all, <- El in H.
    destruct (go_equalFold_loop1 fuel fuel a b (Z.of_nat (length a) - 1)%Z) as [c [[va vb] vi]]. cbn [fst] in H. subst c.
    destruct (bytes_eqb (canon_label a) (canon_label b)); reflexivity.
  - destruct (bytes_eqb (canon_label a) (canon_label b)) eqn:B; [|reflexivity].
    apply bytes_eqb_length in B. unfold canon_label in B. rewrite !map_length in B.
    apply Z.eqb_neq in E. lia.
Qed.
